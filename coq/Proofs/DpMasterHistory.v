(* Histories of the DP MASTER (the FdlApplication callbacks + the user API) and their projection to one
   peripheral: every history of the master that respects the FdlApplication contract (C15) projects, for
   every storage slot, to a history of that slot's peripheral in the sense of DpHistory.v (`p_run` +
   `contract_p`).  So every theorem stated for `history pa a o tr` holds for the projection `proj k log` of
   every master history.

   - `dcall`: transmit_telegram(now, high_prio_only), receive_reply(addr, t), handle_timeout(addr), the user
     calls get_mut(h).request_diagnostics(), get_mut(h).pi_q_mut().copy_from_slice(q), enter_state(s) (with the
     unwinding of the todo!() caught, as in DpRun.run_in), take_last_events().  Peripherals are added before
     the history starts (dp_add during a run can re-route a pending reply: not modelled here).
   - `d_step`: state and output are BY DEFINITION those of the model functions of DpMaster.v; in addition a
     LOG of (slot index, wire event) pairs is kept.  The log of transmit_telegram comes from `tx_loop_log`,
     a copy of dp_tx_loop that also records each call of Peripheral::transmit_telegram; `tx_loop_log_erase`
     proves that it computes exactly what dp_tx_loop computes, `tx_log_request` ties the logged request to
     the bytes handed to the FDL layer and the Offline entries to the event handed to the user.
   - `contract_m`: after a transmit_telegram that returned a request expecting a reply from da, at most one of
     receive_reply(da, _) / handle_timeout(da) before the next transmit_telegram; user calls anywhere. *)
From PB Require Import Peripheral DpMaster DpOracle DpStepProofs C14Proofs DpHistory.

(* ------------------------------------------------------------------ calls, log, steps *)

Inductive dcall : Set :=
| DcTransmit (now : Z) (hp : bool)
| DcReply (addr : Z) (t : telegram)
| DcTimeout (addr : Z)
| DcReqDiag (h : handle)
| DcWriteQ (h : handle) (q : bytes)
| DcEnter (s : opstate)
| DcTake.

Inductive dout : Set :=
| DoTx (o : txout)            (* what transmit_telegram returned *)
| DoEvents (e : dpevents)     (* what take_last_events returned *)
| DoUnit.

Definition slot_log : Set := list (nat * wev).

(* the events of slot k, in order *)
Definition proj (k : nat) (l : slot_log) : list wev :=
  map snd (filter (fun x => Nat.eqb (fst x) k) l).

(* dp_tx_loop with a log of the Peripheral::transmit_telegram calls it makes *)
Fixpoint tx_loop_log (fuel : nat) (pa : params) (bufsize : nat) (m : dpm) (pev : option (handle * pevent))
                     (log : slot_log) : res (dpm * txout * slot_log) :=
  match fuel with
  | O => OutOfFuel
  | S fuel' =>
      match dm_cycle m with
      | CyCompleted =>
          Ok (set_events (set_cycle m (CyDataExchange 0)) (mkEvents false pev), None, log)
      | CyDataExchange index =>
          let* g := get_at_index (dm_slots m) index in
          match g with
          | Some (hd, p) =>
              let* (p1, r) := p_transmit pa (dm_op m) p in
              let m1 := set_slots m (put_slot (dm_slots m) (hd_index hd) p1) in
              let log1 := log ++ [(hd_index hd, wev_of_ptx r)] in
              match r with
              | PtxSend h pdu =>
                  let* o := send_data bufsize h pdu in
                  Ok (set_events m1 (mkEvents false pev), Some o, log1)
              | PtxSkip ev =>
                  let* pev1 :=
                    (match ev with
                     | Some e =>
                         match pev with
                         | Some _ => Panic SiteAssert
                         | None => Ok (Some (hd, e))
                         end
                     | None => Ok pev
                     end) in
                  let* (m2, completed) := increment_cycle m1 index in
                  if completed then
                    Ok (set_events (set_cycle m2 (CyDataExchange 0)) (mkEvents true pev1), None, log1)
                  else
                    match pev1 with
                    | Some _ => Ok (set_events m2 (mkEvents false pev1), None, log1)
                    | None => tx_loop_log fuel' pa bufsize m2 pev1 log1
                    end
              end
          | None =>
              Ok (set_events (set_cycle m (CyDataExchange 0)) (mkEvents true pev), None, log)
          end
      end
  end.

(* the log of one transmit_telegram call: the slot loop's log if the loop runs (not in Stop, no global
   control telegram due) *)
Definition tx_log (pa : params) (bufsize : nat) (m : dpm) (now : Z) (hp : bool) (log : slot_log) : slot_log :=
  if opstate_eqb (dm_op m) OpStop then log else
  match (if hp then Ok false else gc_due pa m now) with
  | Ok false =>
      match tx_loop_log (dp_tx_fuel m) pa bufsize m None log with
      | Ok (_, _, l) => l
      | _ => log
      end
  | _ => log
  end.

(* the slot the cycle is at: the first occupied slot at or after the cycle index *)
Definition cursor (m : dpm) : option nat :=
  match dm_cycle m with
  | CyCompleted => None
  | CyDataExchange idx =>
      match find_occupied (skipn idx (dm_slots m)) idx with
      | Some (i, _) => Some i
      | None => None
      end
  end.

Definition d_step (pa : params) (bufsize : nat) (m : dpm) (c : dcall) (log : slot_log)
  : res (dpm * dout * slot_log) :=
  match c with
  | DcTransmit now hp =>
      let* (m1, o) := dp_transmit pa bufsize m now hp in
      Ok (m1, DoTx o, tx_log pa bufsize m now hp log)
  | DcReply addr t =>
      let* m1 := dp_receive_reply m addr t in
      Ok (m1, DoUnit,
          match cursor m with
          | Some k => log ++ [(k, WReply t (match ev_peripheral (dm_events m1) with
                                            | Some (_, e) => Some e
                                            | None => None
                                            end))]
          | None => log
          end)
  | DcTimeout addr =>
      let* m1 := dp_handle_timeout m addr in
      Ok (m1, DoUnit, match cursor m with Some k => log ++ [(k, WTimeout)] | None => log end)
  | DcReqDiag h =>
      let* m1 := dp_request_diagnostics m h in Ok (m1, DoUnit, log ++ [(hd_index h, WUser)])
  | DcWriteQ h q =>
      let* m1 := dp_write_q m h q in Ok (m1, DoUnit, log ++ [(hd_index h, WUser)])
  | DcEnter s =>
      Ok (match dp_enter_state m s with Ok m1 => m1 | _ => dp_enter_state_unwound m s end, DoUnit, log)
  | DcTake => let (m1, e) := dp_take_last_events m in Ok (m1, DoEvents e, log)
  end.

Fixpoint d_run (pa : params) (bufsize : nat) (m : dpm) (cs : list dcall) (log : slot_log)
  : res (dpm * list (dcall * dout) * slot_log) :=
  match cs with
  | [] => Ok (m, [], log)
  | c :: r =>
      let* (m1, o, log1) := d_step pa bufsize m c log in
      let* (m2, outs, log2) := d_run pa bufsize m1 r log1 in
      Ok (m2, (c, o) :: outs, log2)
  end.

(* the FdlApplication contract over the calls and what they returned *)
Fixpoint contract_m (pending : option Z) (l : list (dcall * dout)) : bool :=
  match l with
  | [] => true
  | (DcTransmit _ _, DoTx (Some (_, Some da))) :: r => contract_m (Some da) r
  | (DcTransmit _ _, _) :: r => contract_m None r
  | (DcReply a _, _) :: r =>
      match pending with Some da => (a =? da) && contract_m None r | None => false end
  | (DcTimeout a, _) :: r =>
      match pending with Some da => (a =? da) && contract_m None r | None => false end
  | _ :: r => contract_m pending r
  end.

(* ------------------------------------------------------------------ the copy computes what the model computes *)

Definition erase3 {A B C} (r : res (A * B * C)) : res (A * B) :=
  match r with Ok (a, b, _) => Ok (a, b) | Panic s => Panic s | OutOfFuel => OutOfFuel end.

Lemma tx_loop_log_erase : forall fuel pa bufsize m pev log,
  erase3 (tx_loop_log fuel pa bufsize m pev log) = dp_tx_loop fuel pa bufsize m pev.
Proof.
  induction fuel as [|fuel IH]; intros pa bufsize m pev log; [reflexivity|].
  cbn [tx_loop_log dp_tx_loop].
  destruct (dm_cycle m) as [index|]; [|reflexivity].
  destruct (get_at_index (dm_slots m) index) as [[[hd p]|]| |]; cbn [bind]; try reflexivity.
  destruct (p_transmit pa (dm_op m) p) as [[p1 r]| |]; cbn [bind]; try reflexivity.
  destruct r as [h pdu|ev].
  - destruct (send_data bufsize h pdu); reflexivity.
  - destruct (match ev with
              | Some e => match pev with Some _ => Panic SiteAssert | None => Ok (Some (hd, e)) end
              | None => Ok pev
              end) as [pev1| |]; cbn [bind]; try reflexivity.
    destruct (increment_cycle _ index) as [[m2 completed]| |]; cbn [bind]; try reflexivity.
    destruct completed; [reflexivity|]. destruct pev1; [reflexivity|]. apply IH.
Qed.

(* ------------------------------------------------------------------ slots *)

Lemma nth_error_put_slot_same : forall l i p q,
  nth_error l i = Some q -> nth_error (put_slot l i p) i = Some (Some p).
Proof.
  induction l as [|x l IH]; intros i p q H; [destruct i; discriminate H|].
  destruct i; cbn in *; [reflexivity|]. apply (IH i p q H).
Qed.

Lemma nth_error_put_slot_other : forall l i k p, k <> i -> nth_error (put_slot l i p) k = nth_error l k.
Proof.
  induction l as [|x l IH]; intros i k p H; [destruct i; reflexivity|].
  destruct i, k; cbn; try reflexivity; try (now elim H). apply IH. intro Hx; apply H; now f_equal.
Qed.

Lemma slot_put_same : forall m i p q,
  slot m i = Some q -> slot (set_slots m (put_slot (dm_slots m) i p)) i = Some p.
Proof.
  intros m i p q H. unfold slot in *. cbn [dm_slots set_slots].
  destruct (nth_error (dm_slots m) i) as [x|] eqn:Hn; [|discriminate H].
  rewrite (nth_error_put_slot_same _ _ p x Hn). reflexivity.
Qed.

Lemma slot_put_other : forall m i k p, k <> i -> slot (set_slots m (put_slot (dm_slots m) i p)) k = slot m k.
Proof. intros. unfold slot. cbn [dm_slots set_slots]. rewrite nth_error_put_slot_other by assumption. reflexivity. Qed.

Lemma find_occupied_mask : forall l l' j,
  map occ l = map occ l' ->
  match find_occupied l j, find_occupied l' j with
  | Some (i, _), Some (i', _) => i = i'
  | None, None => True
  | _, _ => False
  end.
Proof.
  induction l as [|x l IH]; intros [|y l'] j H; try discriminate H; [exact Logic.I|].
  cbn in H. inversion H as [[Hx Hl]].
  destruct x, y; try discriminate Hx; cbn [find_occupied]; [reflexivity|]. apply IH. exact Hl.
Qed.

Lemma cursor_put : forall m i p q,
  nth_error (dm_slots m) i = Some (Some q) ->
  cursor (set_slots m (put_slot (dm_slots m) i p)) = cursor m.
Proof.
  intros m i p q H. unfold cursor. cbn [dm_cycle dm_slots set_slots].
  destruct (dm_cycle m) as [idx|]; [|reflexivity].
  assert (Hm : map occ (skipn idx (put_slot (dm_slots m) i p)) = map occ (skipn idx (dm_slots m))).
  { rewrite !map_skipn. rewrite (put_slot_mask _ _ p q H). reflexivity. }
  pose proof (find_occupied_mask _ _ idx Hm) as Hf.
  destruct (find_occupied (skipn idx (put_slot (dm_slots m) i p)) idx) as [[a ?]|];
    destruct (find_occupied (skipn idx (dm_slots m)) idx) as [[b ?]|]; try contradiction; congruence.
Qed.

Lemma get_at_index_cursor : forall m idx hd p,
  dm_cycle m = CyDataExchange idx ->
  get_at_index (dm_slots m) idx = Ok (Some (hd, p)) ->
  cursor m = Some (hd_index hd) /\ slot m (hd_index hd) = Some p.
Proof.
  intros m idx hd p Hc H. pose proof (get_at_index_some _ _ _ _ H) as Hn.
  split; [|unfold slot; rewrite Hn; reflexivity].
  unfold cursor. rewrite Hc. unfold get_at_index in H.
  destruct (find_occupied (skipn idx (dm_slots m)) idx) as [[i q]|]; [|discriminate H].
  unfold bind, u8_index in H. destruct (Nat.ltb 255 i); [discriminate H|]. inversion H; subst. reflexivity.
Qed.

Lemma slot_nth : forall m k p, slot m k = Some p -> nth_error (dm_slots m) k = Some (Some p).
Proof.
  intros m k p H. unfold slot in H. destruct (nth_error (dm_slots m) k) as [[q|]|]; inversion H; reflexivity.
Qed.

Lemma increment_cycle_slots : forall m idx m2 c,
  increment_cycle m idx = Ok (m2, c) -> dm_slots m2 = dm_slots m /\ dm_op m2 = dm_op m.
Proof.
  intros m idx m2 c H. unfold increment_cycle, bind in H.
  destruct (get_next_index (dm_slots m) idx) as [[n|]| |]; inversion H; subst; split; reflexivity.
Qed.

(* ------------------------------------------------------------------ projection and per-slot bookkeeping *)

Lemma proj_snoc : forall k l i e,
  proj k (l ++ [(i, e)]) = if Nat.eqb i k then proj k l ++ [e] else proj k l.
Proof.
  intros. unfold proj. rewrite filter_app, map_app. cbn [filter fst].
  destruct (Nat.eqb i k); cbn; [reflexivity|rewrite app_nil_r; reflexivity].
Qed.

(* a request is outstanding after the trace *)
Definition out_after (tr : list wev) : bool :=
  fold_left (fun out e => match e with
                          | WReq _ _ => true
                          | WIdle | WEvent _ | WReply _ _ | WTimeout => false
                          | WUser => out
                          end) tr false.

Lemma out_after_snoc : forall tr e,
  out_after (tr ++ [e]) = match e with
                          | WReq _ _ => true
                          | WIdle | WEvent _ | WReply _ _ | WTimeout => false
                          | WUser => out_after tr
                          end.
Proof. intros. unfold out_after. rewrite fold_left_app. reflexivity. Qed.

Lemma contract_p_app : forall tr out e,
  contract_p out (tr ++ [e]) =
  contract_p out tr &&
  match e with
  | WReply _ _ | WTimeout =>
      fold_left (fun o e' => match e' with
                             | WReq _ _ => true
                             | WIdle | WEvent _ | WReply _ _ | WTimeout => false
                             | WUser => o
                             end) tr out
  | _ => true
  end.
Proof.
  induction tr as [|x tr IH]; intros out e.
  - cbn. destruct e; cbn; rewrite ?andb_true_r; reflexivity.
  - destruct x; cbn [app contract_p fold_left]; rewrite IH; try reflexivity;
      rewrite andb_assoc; reflexivity.
Qed.

Lemma contract_p_snoc : forall tr e,
  contract_p false tr = true ->
  match e with WReply _ _ | WTimeout => out_after tr = true | _ => True end ->
  contract_p false (tr ++ [e]) = true.
Proof.
  intros tr e Hc He. rewrite contract_p_app, Hc. cbn [andb].
  destruct e; try reflexivity; exact He.
Qed.

(* p reached from p0 by some calls with wire trace tr *)
Definition reach (pa : params) (p0 p : periph) (tr : list wev) : Prop :=
  exists cs, p_run pa p0 cs = Ok (p, tr).

Lemma reach_refl : forall pa p, reach pa p p [].
Proof. intros. exists []. reflexivity. Qed.

Lemma p_run_snoc : forall pa cs p0 p tr c p' e,
  p_run pa p0 cs = Ok (p, tr) -> p_step pa p c = Ok (p', e) ->
  p_run pa p0 (cs ++ [c]) = Ok (p', tr ++ [e]).
Proof.
  induction cs as [|c0 cs IH]; intros p0 p tr c p' e Hr Hs.
  - cbn in Hr. inversion Hr; subst. cbn [app p_run]. rewrite Hs. reflexivity.
  - cbn [app p_run] in *. unfold bind in *.
    destruct (p_step pa p0 c0) as [[p1 e0]| |]; try discriminate.
    destruct (p_run pa p1 cs) as [[p2 tr1]| |] eqn:Hr1; try discriminate.
    inversion Hr; subst. rewrite (IH _ _ _ _ _ _ Hr1 Hs). reflexivity.
Qed.

Lemma reach_snoc : forall pa p0 p tr c p' e,
  reach pa p0 p tr -> p_step pa p c = Ok (p', e) -> reach pa p0 p' (tr ++ [e]).
Proof. intros pa p0 p tr c p' e (cs & Hr) Hs. exists (cs ++ [c]). apply (p_run_snoc _ _ _ _ _ _ _ _ Hr Hs). Qed.

(* ------------------------------------------------------------------ the master invariant *)

Record MInv (pa : params) (m0 m : dpm) (log : slot_log) : Prop := mkMInv {
  mi_slots : forall k,
    match slot m0 k, slot m k with
    | Some p0, Some p => reach pa p0 p (proj k log) /\ contract_p false (proj k log) = true
    | None, None => proj k log = []
    | _, _ => False
    end;
  mi_out : forall k, out_after (proj k log) = true -> cursor m = Some k }.

(* a request is outstanding at the master level: the cursor's slot has an outstanding request *)
Definition pend_ok (m : dpm) (log : slot_log) (pend : option Z) : Prop :=
  pend <> None -> exists k, cursor m = Some k /\ out_after (proj k log) = true.

Lemma minv_init : forall pa m, MInv pa m m [].
Proof.
  intros pa m. constructor.
  - intro k. destruct (slot m k); [split; [apply reach_refl|reflexivity]|reflexivity].
  - intros k H. discriminate H.
Qed.

(* one peripheral call on an occupied slot i: the other slots keep state and trace *)
Lemma minv_slot_step : forall pa m0 m log i p c p' e m',
  MInv pa m0 m log ->
  slot m i = Some p ->
  p_step pa p c = Ok (p', e) ->
  match e with WReply _ _ | WTimeout => out_after (proj i log) = true | _ => True end ->
  (forall k, slot m' k = slot (set_slots m (put_slot (dm_slots m) i p')) k) ->
  (forall k, out_after (proj k (log ++ [(i, e)])) = true -> cursor m' = Some k) ->
  MInv pa m0 m' (log ++ [(i, e)]).
Proof.
  intros pa m0 m log i p c p' e m' [Hs Ho] Hp Hstep He Hslots Hcur.
  constructor; [|exact Hcur].
  intro k. rewrite Hslots. rewrite proj_snoc. specialize (Hs k).
  destruct (Nat.eqb_spec i k) as [->|Hne].
  - rewrite (slot_put_same m k p' p Hp). rewrite Hp in Hs.
    destruct (slot m0 k) as [p0|]; [|contradiction]. destruct Hs as (Hr & Hc).
    split; [apply (reach_snoc _ _ _ _ _ _ _ Hr Hstep)|apply contract_p_snoc; assumption].
  - rewrite slot_put_other by (intro Hx; apply Hne; symmetry; exact Hx). exact Hs.
Qed.

(* ------------------------------------------------------------------ the slot loop *)

Lemma expects_reply_std : forall pa a o f sv h pdu,
  std_request pa a o f sv h pdu -> tx_expects_reply h = Some (h_da h).
Proof.
  intros pa a o f sv h pdu H. destruct sv; cbn in H; try contradiction.
  - destruct H as (-> & _). reflexivity.
  - destruct H as (u & _ & -> & _). reflexivity.
  - destruct H as (u & _ & -> & _). reflexivity.
  - subst h. reflexivity.
Qed.

Lemma tx_loop_minv : forall pa bufsize m0 fuel m pev log m' o log',
  tx_loop_log fuel pa bufsize m pev log = Ok (m', o, log') ->
  MInv pa m0 m log ->
  MInv pa m0 m' log' /\
  match o with
  | Some (_, Some _) => exists k, cursor m' = Some k /\ out_after (proj k log') = true
  | Some (_, None) => False
  | None => forall k, out_after (proj k log') = false
  end.
Proof.
  intros pa bufsize m0. induction fuel as [|fuel IH]; intros m pev log m' o log' H I; [discriminate H|].
  cbn [tx_loop_log] in H.
  (* nothing is outstanding unless it is the cursor's *)
  assert (Hnone : forall m1, cursor m = None -> dm_slots m1 = dm_slots m ->
                  MInv pa m0 m1 log /\ forall k, out_after (proj k log) = false).
  { intros m1 Hc Hsl. assert (Hall : forall k, out_after (proj k log) = false).
    { intro k. destruct (out_after (proj k log)) eqn:Hx; [|reflexivity].
      pose proof (mi_out _ _ _ _ I k Hx) as Hy. rewrite Hc in Hy. discriminate Hy. }
    split; [|exact Hall]. constructor.
    - intro k. unfold slot. rewrite Hsl. exact (mi_slots _ _ _ _ I k).
    - intros k Hx. rewrite Hall in Hx. discriminate Hx. }
  destruct (dm_cycle m) as [index|] eqn:Hc.
  2:{ inversion H; subst. apply Hnone; [unfold cursor; rewrite Hc; reflexivity|reflexivity]. }
  destruct (get_at_index (dm_slots m) index) as [[[hd p]|]| |] eqn:Hg; cbn [bind] in H; try discriminate.
  2:{ inversion H; subst. apply Hnone; [|reflexivity]. unfold cursor. rewrite Hc.
      unfold get_at_index in Hg. destruct (find_occupied (skipn index (dm_slots m)) index) as [[i q]|]; [|reflexivity].
      unfold bind, u8_index in Hg. destruct (Nat.ltb 255 i); discriminate Hg. }
  destruct (get_at_index_cursor _ _ _ _ Hc Hg) as (Hcur & Hslot).
  set (k := hd_index hd) in *.
  destruct (p_transmit pa (dm_op m) p) as [[p1 r]| |] eqn:Hp; cbn [bind] in H; try discriminate.
  assert (Hstep : p_step pa p (PcTransmit (dm_op m)) = Ok (p1, wev_of_ptx r)).
  { cbn [p_step]. rewrite Hp. reflexivity. }
  set (m1 := set_slots m (put_slot (dm_slots m) k p1)) in *.
  assert (Hothers : forall j, j <> k -> out_after (proj j (log ++ [(k, wev_of_ptx r)])) = false).
  { intros j Hj. rewrite proj_snoc.
    destruct (Nat.eqb_spec k j) as [Hx|_]; [now elim Hj|].
    destruct (out_after (proj j log)) eqn:Hx; [|reflexivity].
    pose proof (mi_out _ _ _ _ I j Hx) as Hy. rewrite Hcur in Hy. inversion Hy. now elim Hj. }
  assert (Hk1 : proj k (log ++ [(k, wev_of_ptx r)]) = proj k log ++ [wev_of_ptx r]).
  { rewrite proj_snoc, Nat.eqb_refl. reflexivity. }
  assert (Hev : match wev_of_ptx r with WReply _ _ | WTimeout => out_after (proj k log) = true | _ => True end).
  { destruct r as [?|[?|]]; exact Logic.I. }
  destruct r as [h pdu|ev].
  - (* a request: the turn ends, the cursor stays *)
    destruct (send_data bufsize h pdu) as [ob| |] eqn:Hsd; cbn [bind] in H; try discriminate.
    inversion H; subst m' o log'; clear H.
    assert (I1 : MInv pa m0 (set_events m1 (mkEvents false pev)) (log ++ [(k, wev_of_ptx (PtxSend h pdu))])).
    { apply (minv_slot_step pa m0 m log k p _ p1 _ _ I Hslot Hstep Hev).
      - intro j. reflexivity.
      - intros j Hj. destruct (Nat.eq_dec j k) as [->|Hne]; [|rewrite (Hothers j Hne) in Hj; discriminate Hj].
        change (cursor (set_events m1 (mkEvents false pev))) with (cursor m1).
        unfold m1. rewrite (cursor_put m k p1 p (slot_nth _ _ _ Hslot)). exact Hcur. }
    split; [exact I1|].
    unfold send_data, bind in Hsd. destruct (encode_data_in bufsize h pdu); try discriminate. inversion Hsd; subst ob.
    destruct (transmit_facts _ _ _ _ _ Hp) as (_ & _ & _ & _ & _ & _ & _ & _ & Hstd).
    rewrite (expects_reply_std _ _ _ _ _ _ _ Hstd).
    exists k. split.
    + change (cursor (set_events m1 (mkEvents false pev))) with (cursor m1).
      unfold m1. rewrite (cursor_put m k p1 p (slot_nth _ _ _ Hslot)). exact Hcur.
    + rewrite proj_snoc, Nat.eqb_refl, out_after_snoc. reflexivity.
  - (* nothing sent for this slot: nothing is outstanding any more *)
    assert (Hall : forall j, out_after (proj j (log ++ [(k, wev_of_ptx (PtxSkip ev))])) = false).
    { intro j. destruct (Nat.eq_dec j k) as [->|Hne]; [|apply Hothers; exact Hne].
      rewrite Hk1, out_after_snoc. destruct ev; reflexivity. }
    assert (I1 : forall mx, dm_slots mx = dm_slots m1 -> MInv pa m0 mx (log ++ [(k, wev_of_ptx (PtxSkip ev))])).
    { intros mx Hsl.
      apply (minv_slot_step pa m0 m log k p _ p1 _ _ I Hslot Hstep Hev).
      - intro j. unfold slot. rewrite Hsl. reflexivity.
      - intros j Hj. rewrite Hall in Hj. discriminate Hj. }
    destruct (match ev with
              | Some e => match pev with Some _ => Panic SiteAssert | None => Ok (Some (hd, e)) end
              | None => Ok pev
              end) as [pev1| |]; cbn [bind] in H; try discriminate.
    destruct (increment_cycle m1 index) as [[m2 completed]| |] eqn:Hi; cbn [bind] in H; try discriminate.
    destruct (increment_cycle_slots _ _ _ _ Hi) as (Hsl2 & _).
    destruct completed.
    + inversion H; subst. split; [apply I1; exact Hsl2|exact Hall].
    + destruct pev1.
      * inversion H; subst. split; [apply I1; exact Hsl2|exact Hall].
      * apply (IH _ _ _ _ _ _ H). apply I1. exact Hsl2.
Qed.

(* ------------------------------------------------------------------ one master call *)

Lemma dp_transmit_cases : forall pa bufsize m now hp m' o log,
  dp_transmit pa bufsize m now hp = Ok (m', o) ->
  (tx_log pa bufsize m now hp log = log /\ dm_slots m' = dm_slots m /\ dm_cycle m' = dm_cycle m /\
   match o with Some (_, Some _) => False | _ => True end) \/
  tx_loop_log (dp_tx_fuel m) pa bufsize m None log = Ok (m', o, tx_log pa bufsize m now hp log).
Proof.
  intros pa bufsize m now hp m' o log H. unfold dp_transmit in H. unfold tx_log.
  destruct (opstate_eqb (dm_op m) OpStop).
  { inversion H; subst. left. repeat split; reflexivity. }
  destruct (if hp then Ok false else gc_due pa m now) as [due| |]; cbn [bind] in H; try discriminate.
  destruct due.
  - left. unfold bind in H.
    destruct (match dm_op m with OpClear => Ok dp_gc_clear | OpOperate => Ok dp_gc_operate | OpStop => Panic SiteUnreachable end);
      try discriminate.
    destruct (send_data bufsize (gc_header pa) [a; dp_gc_groups]) as [ob| |] eqn:Hsd; try discriminate.
    inversion H; subst. unfold send_data, bind in Hsd.
    destruct (encode_data_in bufsize (gc_header pa) [a; dp_gc_groups]); try discriminate. inversion Hsd; subst.
    repeat split; reflexivity.
  - right. pose proof (tx_loop_log_erase (dp_tx_fuel m) pa bufsize m None log) as He.
    rewrite H in He. destruct (tx_loop_log (dp_tx_fuel m) pa bufsize m None log) as [[[m1 o1] l1]| |];
      cbn in He; try discriminate. inversion He; subst. reflexivity.
Qed.

Definition contract_head (pend : option Z) (c : dcall) (o : dout) : Prop :=
  match c with
  | DcReply _ _ | DcTimeout _ => pend <> None
  | _ => True
  end.

Definition pend_next (pend : option Z) (c : dcall) (o : dout) : option Z :=
  match c, o with
  | DcTransmit _ _, DoTx (Some (_, Some da)) => Some da
  | DcTransmit _ _, _ => None
  | DcReply _ _, _ | DcTimeout _, _ => None
  | _, _ => pend
  end.

Lemma d_step_minv : forall pa bufsize m0 m c log m' o log' pend,
  d_step pa bufsize m c log = Ok (m', o, log') ->
  MInv pa m0 m log -> pend_ok m log pend -> contract_head pend c o ->
  MInv pa m0 m' log' /\ pend_ok m' log' (pend_next pend c o).
Proof.
  intros pa bufsize m0 m c log m' o log' pend H I Hpend Hct.
  destruct c as [now hp|addr t|addr|h|h q|s|]; cbn [d_step] in H; unfold bind in H.
  - (* transmit_telegram *)
    destruct (dp_transmit pa bufsize m now hp) as [[m1 o1]| |] eqn:Ht; try discriminate.
    inversion H; subst m' o log'; clear H.
    destruct (dp_transmit_cases _ _ _ _ _ _ _ log Ht) as [(Hl & Hs & Hc & Ho)|Hloop].
    + rewrite Hl. split.
      * constructor.
        -- intro k. unfold slot. rewrite Hs. exact (mi_slots _ _ _ _ I k).
        -- intros k Hk. pose proof (mi_out _ _ _ _ I k Hk) as Hx. unfold cursor in *. rewrite Hs, Hc. exact Hx.
      * cbn [pend_next]. destruct o1 as [[w [da|]]|]; try contradiction; intro Hx; now elim Hx.
    + destruct (tx_loop_minv _ _ _ _ _ _ _ _ _ _ Hloop I) as (I1 & Hout). split; [exact I1|].
      cbn [pend_next]. destruct o1 as [[w [da|]]|]; try contradiction; intro Hx; try (now elim Hx).
      exact Hout.
  - (* receive_reply *)
    destruct (dp_receive_reply m addr t) as [m1| |] eqn:Hr; try discriminate.
    inversion H; subst m' o log'; clear H.
    cbn [contract_head] in Hct. destruct (Hpend Hct) as (k & Hcur & Hout).
    rewrite Hcur.
    unfold dp_receive_reply in Hr. destruct (dm_cycle m) as [index|] eqn:Hc; [|discriminate Hr].
    unfold bind in Hr.
    destruct (get_at_index (dm_slots m) index) as [[[hd p]|]| |] eqn:Hg; try discriminate.
    destruct (get_at_index_cursor _ _ _ _ Hc Hg) as (Hcur' & Hslot).
    rewrite Hcur in Hcur'. inversion Hcur'; subst k.
    destruct (addr =? pe_addr p); [|discriminate Hr].
    destruct (p_receive_reply p t) as [[p1 ev]| |] eqn:Hp; try discriminate.
    destruct (increment_cycle _ index) as [[m2 completed]| |] eqn:Hi; try discriminate.
    inversion Hr; subst m1; clear Hr.
    destruct (increment_cycle_slots _ _ _ _ Hi) as (Hsl2 & _).
    cbn [dm_events set_events ev_peripheral].
    assert (Hev : match ev with Some e => Some (hd, e) | None => None end =
                  match ev with Some e => Some (hd, e) | None => @None (handle * pevent) end) by reflexivity.
    replace (match match ev with Some e => Some (hd, e) | None => None end with
             | Some (_, e) => Some e
             | None => None
             end) with ev by (destruct ev; reflexivity).
    assert (Hstep : p_step pa p (PcReply t) = Ok (p1, WReply t ev)).
    { cbn [p_step]. rewrite Hp. reflexivity. }
    assert (Hall : forall j, out_after (proj j (log ++ [(hd_index hd, WReply t ev)])) = false).
    { intro j. rewrite proj_snoc. destruct (Nat.eqb_spec (hd_index hd) j) as [<-|Hne].
      - rewrite out_after_snoc. reflexivity.
      - destruct (out_after (proj j log)) eqn:Hx; [|reflexivity].
        pose proof (mi_out _ _ _ _ I j Hx) as Hy. rewrite Hcur in Hy. inversion Hy. now elim Hne. }
    split.
    + apply (minv_slot_step pa m0 m log (hd_index hd) p _ p1 _ _ I Hslot Hstep Hout).
      * intro j. unfold slot. cbn [dm_slots set_events]. rewrite Hsl2. reflexivity.
      * intros j Hj. rewrite Hall in Hj. discriminate Hj.
    + cbn [pend_next]. intro Hx. now elim Hx.
  - (* handle_timeout *)
    inversion H; subst m' o log'; clear H.
    cbn [contract_head] in Hct. destruct (Hpend Hct) as (k & Hcur & Hout). rewrite Hcur.
    pose proof (mi_slots _ _ _ _ I k) as Hk.
    assert (Hp : exists p, slot m k = Some p).
    { destruct (slot m k) as [p|] eqn:Hs; [exists p; reflexivity|].
      destruct (slot m0 k); [contradiction|]. rewrite Hk in Hout. discriminate Hout. }
    destruct Hp as (p & Hslot).
    assert (Hall : forall j, out_after (proj j (log ++ [(k, WTimeout)])) = false).
    { intro j. rewrite proj_snoc. destruct (Nat.eqb_spec k j) as [<-|Hne].
      - rewrite out_after_snoc. reflexivity.
      - destruct (out_after (proj j log)) eqn:Hx; [|reflexivity].
        pose proof (mi_out _ _ _ _ I j Hx) as Hy. rewrite Hcur in Hy. inversion Hy. now elim Hne. }
    split.
    + apply (minv_slot_step pa m0 m log k p PcTimeout p WTimeout m I Hslot eq_refl Hout).
      * intro j. destruct (Nat.eq_dec j k) as [->|Hne].
        -- rewrite (slot_put_same m k p p Hslot). exact Hslot.
        -- rewrite slot_put_other by exact Hne. reflexivity.
      * intros j Hj. rewrite Hall in Hj. discriminate Hj.
    + cbn [pend_next]. intro Hx. now elim Hx.
  - (* request_diagnostics() *)
    destruct (dp_request_diagnostics m h) as [m1| |] eqn:Hu; try discriminate.
    inversion H; subst m' o log'; clear H.
    unfold dp_request_diagnostics, dp_update, bind in Hu.
    destruct (dp_get_mut m h) as [p| |] eqn:Hg; try discriminate. inversion Hu; subst m1; clear Hu.
    assert (Hslot : slot m (hd_index h) = Some p).
    { unfold dp_get_mut in Hg. unfold slot. destruct (nth_error (dm_slots m) (hd_index h)) as [[q|]|]; inversion Hg; reflexivity. }
    assert (Hcur : cursor (set_slots m (put_slot (dm_slots m) (hd_index h) (p_request_diagnostics p))) = cursor m)
      by (apply (cursor_put m _ _ p (slot_nth _ _ _ Hslot))).
    assert (Hout : forall j, out_after (proj j (log ++ [(hd_index h, WUser)])) = out_after (proj j log)).
    { intro j. rewrite proj_snoc. destruct (Nat.eqb (hd_index h) j); [rewrite out_after_snoc|]; reflexivity. }
    split.
    + apply (minv_slot_step pa m0 m log (hd_index h) p PcReqDiag _ WUser _ I Hslot eq_refl Logic.I).
      * intro j. reflexivity.
      * intros j Hj. rewrite Hout in Hj. rewrite Hcur. exact (mi_out _ _ _ _ I j Hj).
    + cbn [pend_next]. intro Hx. destruct (Hpend Hx) as (k & Hk & Hko). exists k. rewrite Hcur, Hout. auto.
  - (* pi_q write *)
    destruct (dp_write_q m h q) as [m1| |] eqn:Hu; try discriminate.
    inversion H; subst m' o log'; clear H.
    unfold dp_write_q, bind in Hu.
    destruct (dp_get_mut m h) as [p| |] eqn:Hg; try discriminate.
    destruct (copy_from_slice (pe_pi_q p) q) as [d| |] eqn:Hcp; try discriminate. inversion Hu; subst m1; clear Hu.
    assert (Hslot : slot m (hd_index h) = Some p).
    { unfold dp_get_mut in Hg. unfold slot. destruct (nth_error (dm_slots m) (hd_index h)) as [[q'|]|]; inversion Hg; reflexivity. }
    assert (Hcur : cursor (set_slots m (put_slot (dm_slots m) (hd_index h) (set_pi_q p d))) = cursor m)
      by (apply (cursor_put m _ _ p (slot_nth _ _ _ Hslot))).
    assert (Hout : forall j, out_after (proj j (log ++ [(hd_index h, WUser)])) = out_after (proj j log)).
    { intro j. rewrite proj_snoc. destruct (Nat.eqb (hd_index h) j); [rewrite out_after_snoc|]; reflexivity. }
    assert (Hstep : p_step pa p (PcWriteQ q) = Ok (set_pi_q p d, WUser)).
    { cbn [p_step]. rewrite Hcp. reflexivity. }
    split.
    + apply (minv_slot_step pa m0 m log (hd_index h) p (PcWriteQ q) _ WUser _ I Hslot Hstep Logic.I).
      * intro j. reflexivity.
      * intros j Hj. rewrite Hout in Hj. rewrite Hcur. exact (mi_out _ _ _ _ I j Hj).
    + cbn [pend_next]. intro Hx. destruct (Hpend Hx) as (k & Hk & Hko). exists k. rewrite Hcur, Hout. auto.
  - (* enter_state *)
    inversion H; subst m' o log'; clear H.
    assert (Hs : dm_slots (match dp_enter_state m s with Ok m1 => m1 | _ => dp_enter_state_unwound m s end) = dm_slots m /\
                 dm_cycle (match dp_enter_state m s with Ok m1 => m1 | _ => dp_enter_state_unwound m s end) = dm_cycle m).
    { unfold dp_enter_state. destruct (opstate_eqb s opstate_supported); split; reflexivity. }
    destruct Hs as (Hs & Hc).
    assert (Hcur : cursor (match dp_enter_state m s with Ok m1 => m1 | _ => dp_enter_state_unwound m s end) = cursor m)
      by (unfold cursor; rewrite Hs, Hc; reflexivity).
    split.
    + constructor.
      * intro k. unfold slot. rewrite Hs. exact (mi_slots _ _ _ _ I k).
      * intros k Hk. rewrite Hcur. exact (mi_out _ _ _ _ I k Hk).
    + cbn [pend_next]. intro Hx. destruct (Hpend Hx) as (k & Hk & Hko). exists k. rewrite Hcur. auto.
  - (* take_last_events *)
    cbn in H. inversion H; subst m' o log'; clear H.
    split.
    + constructor.
      * intro k. exact (mi_slots _ _ _ _ I k).
      * intros k Hk. exact (mi_out _ _ _ _ I k Hk).
    + cbn [pend_next]. exact Hpend.
Qed.

(* ------------------------------------------------------------------ the lift *)

Lemma contract_m_head : forall pend c o r,
  contract_m pend ((c, o) :: r) = true ->
  contract_head pend c o /\ contract_m (pend_next pend c o) r = true.
Proof.
  intros pend c o r H. destruct c as [now hp|addr t|addr|h|h q|s|]; cbn [contract_m contract_head pend_next] in *.
  - split; [exact Logic.I|]. destruct o as [[[w [da|]]|]| |]; exact H.
  - destruct pend as [da|]; [|discriminate H]. apply andb_true_iff in H. split; [discriminate|apply H].
  - destruct pend as [da|]; [|discriminate H]. apply andb_true_iff in H. split; [discriminate|apply H].
  - split; [exact Logic.I|exact H].
  - split; [exact Logic.I|exact H].
  - split; [exact Logic.I|exact H].
  - split; [exact Logic.I|exact H].
Qed.

Lemma d_run_minv : forall pa bufsize m0 cs m log m' outs log' pend,
  d_run pa bufsize m cs log = Ok (m', outs, log') ->
  MInv pa m0 m log -> pend_ok m log pend -> contract_m pend outs = true ->
  MInv pa m0 m' log'.
Proof.
  intros pa bufsize m0. induction cs as [|c cs IH]; intros m log m' outs log' pend H I Hp Hc.
  - cbn in H. inversion H; subst. exact I.
  - cbn [d_run] in H. unfold bind in H.
    destruct (d_step pa bufsize m c log) as [[[m1 o] log1]| |] eqn:Hs; try discriminate.
    destruct (d_run pa bufsize m1 cs log1) as [[[m2 outs1] log2]| |] eqn:Hr; try discriminate.
    inversion H; subst m' outs log'; clear H.
    destruct (contract_m_head _ _ _ _ Hc) as (Hh & Hc1).
    destruct (d_step_minv _ _ _ _ _ _ _ _ _ _ Hs I Hp Hh) as (I1 & Hp1).
    apply (IH _ _ _ _ _ _ Hr I1 Hp1 Hc1).
Qed.

(* Every contract-respecting history of the DP master, from ANY master state, projects for every occupied
   slot to a contract-respecting run of that slot's peripheral *)
Theorem master_projects : forall pa bufsize m0 cs m' outs log,
  d_run pa bufsize m0 cs [] = Ok (m', outs, log) ->
  contract_m None outs = true ->
  forall k p0, slot m0 k = Some p0 ->
  exists pcs pk, p_run pa p0 pcs = Ok (pk, proj k log) /\ contract_p false (proj k log) = true /\
                 slot m' k = Some pk.
Proof.
  intros pa bufsize m0 cs m' outs log Hrun Hc k p0 Hk.
  assert (I : MInv pa m0 m' log).
  { apply (d_run_minv _ _ _ _ _ _ _ _ _ None Hrun (minv_init pa m0)); [|exact Hc].
    intro Hx. now elim Hx. }
  pose proof (mi_slots _ _ _ _ I k) as Hs. rewrite Hk in Hs.
  destruct (slot m' k) as [pk|]; [|contradiction]. destruct Hs as ((pcs & Hr) & Hct).
  exists pcs, pk. auto.
Qed.

(* ... in particular, for a slot holding a freshly constructed peripheral, to a `history` *)
Theorem master_history : forall pa bufsize m0 cs m' outs log,
  d_run pa bufsize m0 cs [] = Ok (m', outs, log) ->
  contract_m None outs = true ->
  forall k a o i q d, slot m0 k = Some (periph_new a o i q d) ->
  history pa a o (proj k log).
Proof.
  intros pa bufsize m0 cs m' outs log Hrun Hc k a o i q d Hk.
  destruct (master_projects _ _ _ _ _ _ _ Hrun Hc k _ Hk) as (pcs & pk & Hr & Hct & _).
  exists i, q, d, pcs, pk. auto.
Qed.

(* ------------------------------------------------------------------ the log against the observable outputs *)

Definition log_is_req (x : nat * wev) : bool := match snd x with WReq _ _ => true | _ => false end.

(* What one run of the slot loop logs (`new`), against what transmit_telegram returns and the event it leaves
   for take_last_events():
   - it logs only transmit_telegram outcomes (request / idle / event), each slot at most ... in slot order;
   - if it returns bytes, the LAST entry is a request whose encoding (Telegram.encode_data_in) is exactly
     these bytes and whose destination is the station a reply is expected from; no other request is logged;
     if it returns None no request is logged;
   - every logged event is the event handed to the user, with the handle of that slot, and vice versa. *)
Lemma tx_loop_log_link : forall pa bufsize fuel m pev log m' o log',
  tx_loop_log fuel pa bufsize m pev log = Ok (m', o, log') ->
  exists new, log' = log ++ new /\
    (forall x, In x new -> match snd x with WReq _ _ | WIdle | WEvent _ => True | _ => False end) /\
    match o with
    | Some (w, exp) =>
        exists pre k h pdu, new = pre ++ [(k, WReq h pdu)] /\ existsb log_is_req pre = false /\
          encode_data_in bufsize h pdu = Ok w /\ exp = Some (h_da h)
    | None => existsb log_is_req new = false
    end /\
    (forall k ev, In (k, WEvent ev) new ->
       pev = None /\ exists hd, ev_peripheral (dm_events m') = Some (hd, ev) /\ hd_index hd = k) /\
    (ev_peripheral (dm_events m') = pev \/
     exists hd ev, ev_peripheral (dm_events m') = Some (hd, ev) /\ In (hd_index hd, WEvent ev) new).
Proof.
  intros pa bufsize. induction fuel as [|fuel IH]; intros m pev log m' o log' H; [discriminate H|].
  cbn [tx_loop_log] in H.
  assert (Hnil : forall mx, ev_peripheral (dm_events mx) = pev ->
            exists new, log = log ++ new /\
              (forall x, In x new -> match snd x with WReq _ _ | WIdle | WEvent _ => True | _ => False end) /\
              existsb log_is_req new = false /\
              (forall k ev, In (k, WEvent ev) new ->
                 pev = None /\ exists hd, ev_peripheral (dm_events mx) = Some (hd, ev) /\ hd_index hd = k) /\
              (ev_peripheral (dm_events mx) = pev \/
               exists hd ev, ev_peripheral (dm_events mx) = Some (hd, ev) /\ In (hd_index hd, WEvent ev) new)).
  { intros mx Hx. exists []. rewrite app_nil_r. repeat split; auto; intros; contradiction. }
  destruct (dm_cycle m) as [index|] eqn:Hc.
  2:{ inversion H; subst m' o log'. apply Hnil. reflexivity. }
  destruct (get_at_index (dm_slots m) index) as [[[hd p]|]| |] eqn:Hg; cbn [bind] in H; try discriminate.
  2:{ inversion H; subst m' o log'. apply Hnil. reflexivity. }
  destruct (p_transmit pa (dm_op m) p) as [[p1 r]| |] eqn:Hp; cbn [bind] in H; try discriminate.
  destruct r as [h pdu|ev].
  - destruct (send_data bufsize h pdu) as [ob| |] eqn:Hsd; cbn [bind] in H; try discriminate.
    inversion H; subst m' o log'; clear H.
    unfold send_data, bind in Hsd. destruct (encode_data_in bufsize h pdu) as [w| |] eqn:He; try discriminate.
    inversion Hsd; subst ob.
    destruct (transmit_facts _ _ _ _ _ Hp) as (_ & _ & _ & _ & _ & _ & _ & _ & Hstd).
    exists [(hd_index hd, WReq h pdu)]. split; [reflexivity|].
    split; [intros x [<-|[]]; exact Logic.I|].
    split; [exists [], (hd_index hd), h, pdu; repeat split; auto; apply (expects_reply_std _ _ _ _ _ _ _ Hstd)|].
    split; [intros k ev [Hx|[]]; discriminate Hx|]. left. reflexivity.
  - destruct (match ev with
              | Some e => match pev with Some _ => Panic SiteAssert | None => Ok (Some (hd, e)) end
              | None => Ok pev
              end) as [pev1| |] eqn:Hpev; cbn [bind] in H; try discriminate.
    destruct (increment_cycle _ index) as [[m2 completed]| |] eqn:Hi; cbn [bind] in H; try discriminate.
    set (entry := (hd_index hd, wev_of_ptx (PtxSkip ev))) in *.
    (* the turn ends here with events = pev1 *)
    assert (Hend : forall mx, ev_peripheral (dm_events mx) = pev1 ->
              exists new, log ++ [entry] = log ++ new /\
                (forall x, In x new -> match snd x with WReq _ _ | WIdle | WEvent _ => True | _ => False end) /\
                existsb log_is_req new = false /\
                (forall k ev0, In (k, WEvent ev0) new ->
                   pev = None /\ exists hd0, ev_peripheral (dm_events mx) = Some (hd0, ev0) /\ hd_index hd0 = k) /\
                (ev_peripheral (dm_events mx) = pev \/
                 exists hd0 ev0, ev_peripheral (dm_events mx) = Some (hd0, ev0) /\ In (hd_index hd0, WEvent ev0) new)).
    { intros mx Hx. exists [entry]. split; [reflexivity|].
      split; [intros x [<-|[]]; unfold entry; destruct ev; exact Logic.I|].
      split; [unfold entry; destruct ev; reflexivity|].
      destruct ev as [e|]; cbn [wev_of_ptx] in *.
      - destruct pev; [discriminate Hpev|].
        assert (Hq : Some (hd, e) = pev1) by (inversion Hpev; reflexivity). rewrite <- Hq in Hx.
        split.
        + intros k ev0 [Hin|[]]. inversion Hin; subst. split; [reflexivity|]. exists hd. auto.
        + right. exists hd, e. split; [exact Hx|left; reflexivity].
      - assert (Hq : pev = pev1) by (inversion Hpev; reflexivity).
        split; [intros k ev0 [Hin|[]]; discriminate Hin|left; congruence]. }
    destruct completed; [inversion H; subst m' o log'; apply Hend; reflexivity|].
    destruct pev1 as [x|] eqn:Hp1; [inversion H; subst m' o log'; apply Hend; reflexivity|].
    (* the loop goes on: no event so far *)
    assert (Hev : ev = None /\ pev = None).
    { destruct ev; [destruct pev; discriminate Hpev|]. inversion Hpev. auto. }
    destruct Hev as (-> & ->).
    destruct (IH _ _ _ _ _ _ H) as (new & Hl & Hk & Ho & Hevs & Hfin).
    exists (entry :: new). split; [rewrite Hl, <- app_assoc; reflexivity|].
    split; [intros x [<-|Hin]; [exact Logic.I|apply Hk; exact Hin]|].
    split.
    { destruct o as [[w exp]|].
      - destruct Ho as (pre & k & h & pdu & -> & Hn & He & Hx).
        exists (entry :: pre), k, h, pdu. repeat split; auto.
      - cbn. exact Ho. }
    split.
    + intros k ev0 [Hin|Hin]; [discriminate Hin|apply Hevs; exact Hin].
    + destruct Hfin as [Hfin|(hd0 & ev0 & Hx & Hin)]; [left; exact Hfin|].
      right. exists hd0, ev0. split; [exact Hx|right; exact Hin].
Qed.

(* one transmit_telegram call of the master: what it appends to the log against what it returns *)
Lemma transmit_log_link : forall pa bufsize m now hp log m' o log',
  d_step pa bufsize m (DcTransmit now hp) log = Ok (m', DoTx o, log') ->
  exists new, log' = log ++ new /\
    (forall x, In x new -> match snd x with WReq _ _ | WIdle | WEvent _ => True | _ => False end) /\
    match o with
    | Some (w, Some da) =>
        exists pre k h pdu, new = pre ++ [(k, WReq h pdu)] /\ existsb log_is_req pre = false /\
          encode_data_in bufsize h pdu = Ok w /\ da = h_da h
    | _ => existsb log_is_req new = false
    end /\
    (forall k ev, In (k, WEvent ev) new ->
       exists hd, ev_peripheral (dm_events m') = Some (hd, ev) /\ hd_index hd = k).
Proof.
  intros pa bufsize m now hp log m' o log' H. cbn [d_step] in H. unfold bind in H.
  destruct (dp_transmit pa bufsize m now hp) as [[m1 o1]| |] eqn:Ht; try discriminate.
  inversion H; subst m1 o1 log'; clear H.
  destruct (dp_transmit_cases _ _ _ _ _ _ _ log Ht) as [(Hl & _ & _ & Ho)|Hloop].
  - exists []. rewrite Hl, app_nil_r. split; [reflexivity|]. split; [intros x []|].
    split; [destruct o as [[w [da|]]|]; try contradiction; reflexivity|intros k ev []].
  - destruct (tx_loop_log_link _ _ _ _ _ _ _ _ _ Hloop) as (new & Hl & Hk & Ho & Hev & _).
    exists new. split; [exact Hl|]. split; [exact Hk|]. split.
    + destruct o as [[w exp]|]; [|exact Ho].
      destruct Ho as (pre & k & h & pdu & Hn & Hp & He & ->). exists pre, k, h, pdu. auto.
    + intros k ev Hin. destruct (Hev k ev Hin) as (_ & Hx). exact Hx.
Qed.

Lemma master_projects_both : forall pa bufsize m0 cs m' outs log,
  d_run pa bufsize m0 cs [] = Ok (m', outs, log) ->
  contract_m None outs = true ->
  (forall k p0, slot m0 k = Some p0 ->
     exists pcs pk, p_run pa p0 pcs = Ok (pk, proj k log) /\ contract_p false (proj k log) = true /\
                    slot m' k = Some pk) /\
  (forall k a o i q d, slot m0 k = Some (periph_new a o i q d) -> history pa a o (proj k log)).
Proof.
  intros pa bufsize m0 cs m' outs log H C. split.
  - apply (master_projects pa bufsize m0 cs m' outs log H C).
  - apply (master_history pa bufsize m0 cs m' outs log H C).
Qed.
