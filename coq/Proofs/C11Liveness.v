(* C11: soundness of the liveness rule R11_supervision_never_ends of the second monitor for transcripts of
   the model.  The rule says: a poll in CheckTokenPass that looks at the receive buffer, sees nothing new
   and comes later than one slot time after the last instant at which the station can have seen anything
   happen (l_ref of the monitor) must act (retry, remove, leave).  Needed: exact bookkeeping of
   last_bus_activity and pending_bytes while the pass is supervised -
     part A: what the state functions that lead into / stay in CheckTokenPass do to pending_bytes;
     part B: the invariant LV (local to CheckTokenPass: last_bus_activity <= l_ref, >= l_txend, pending_bytes
             covers the buffer unless the monitor expects a spurious growth) on top of the invariant JA of
             FdlOracleSoundAll, and the induction over transcripts. *)
From Coq Require Import Arith.
From PB Require Import Common Tables FdlTables Telegram Phy TokenRing Params Fdl FdlOracle FdlProofs FdlStepProofs.
From PB Require Import DecodeSpec C16Proofs C05Proofs C01Proofs C11Proofs C06Proofs C12Proofs C13Proofs C15Proofs.
From PB Require Import FdlOracleSound1 FdlOracleSound2 FdlOracleSound3 FdlOracleSound5 FdlOracleSound6 FdlOracleSound8 FdlOracleSound9 FdlOracleSoundAll.

Section PartA.
Variable A : Type.
Variable ops : app_ops A.
Notation W := (world A).

(* do_pass_token never touches pending_bytes *)
Lemma do_pass_token_pending (f : fdl) now (w : W) f' w' :
  do_pass_token A f now w = Ok (f', w') -> f_pending f' = f_pending f.
Proof.
  unfold do_pass_token. intros H.
  destruct (assert_entry DoPassToken f); cbn [bind] in H; try discriminate H.
  destruct (wait_synchronization_pause f now) as [[f1 wait]| |] eqn:Ew; cbn [bind] in H; try discriminate H.
  apply wait_sync_same in Ew. destruct Ew as [[_ [_ [_ [_ [_ [Hp1 _]]]]]] _].
  destruct wait; [injection H as <- _; exact Hp1|].
  destruct (get_pass_token (f_state f1)) as [[g att]| |]; cbn [bind] in H; try discriminate H.
  match type of H with bind ?x _ = _ => destruct x as [[[f2 w2] polled]| |] eqn:E2 end; cbn [bind] in H; try discriminate H.
  assert (H2 : f_pending f2 = f_pending f1).
  { destruct g; [|injection E2 as <- _ _; reflexivity].
    match type of E2 with bind ?x _ = _ => destruct x as [[f3 w3]| |] eqn:E3 end; cbn [bind] in E2; try discriminate E2.
    assert (H3 : f_pending f3 = f_pending f1).
    { destruct (f_gap f1) as [rc|cur].
      - destruct (p_gap_wait (f_p f1) <? rc).
        + apply next_gap_poll_traced_spec in E3. destruct E3 as [gg [_ [-> _]]]. reflexivity.
        + destruct (u8_add rc 1); cbn [bind] in E3; try discriminate E3. injection E3 as <- _. reflexivity.
      - apply next_gap_poll_traced_spec in E3. destruct E3 as [gg [_ [-> _]]]. reflexivity. }
    apply transmit_gap_poll_spec in E2. destruct E2 as [[_ [_ [_ [_ [_ [Hp _]]]]]] _]. congruence. }
  destruct polled as [pa|].
  - apply trans_spec in H. destruct H as [s' [_ [-> _]]]. cbn. congruence.
  - destruct (phy_send A w2 _) as [[w3 k]| |]; cbn [bind] in H; try discriminate H.
    destruct (witness _ _ _); cbn [bind] in H; try discriminate H.
    match type of H with bind ?x _ = _ => destruct x as [[f4 w4]| |] eqn:E4 end; cbn [bind] in H; try discriminate H.
    destruct (mark_tx f4 now k) as [f5| |] eqn:Em; cbn [bind] in H; try discriminate H. injection H as <- _.
    apply mark_tx_same in Em. destruct Em as [_ [_ [_ [_ [_ [Hp5 _]]]]]].
    assert (H4 : f_pending f4 = f_pending f2).
    { match type of E4 with (if ?c then _ else _) = _ => destruct c end.
      - apply trans_spec in E4. destruct E4 as [s' [_ [-> _]]]. reflexivity.
      - destruct (get_pass_token _) as [[g2 att2]| |]; cbn [bind] in E4; try discriminate E4.
        apply trans_spec in E4. destruct E4 as [s' [_ [-> _]]]. reflexivity. }
    congruence.
Qed.

Lemma do_pass_token_rx (f : fdl) now (w : W) f' w' : do_pass_token A f now w = Ok (f', w') -> w_rx w' = w_rx w.
Proof. intros H. apply do_pass_token_frame in H. tauto. Qed.

(* covered: pending_bytes is not less than the buffer length *)
Definition covered (f : fdl) (w : W) : Prop := (length (w_rx w) <= f_pending f)%nat.

(* the slot timer ran out: retry / removal, the buffer is not looked at *)
Lemma ctp_expired_pending f now (w : W) f1 att f' w' :
  f_state f = CheckTokenPass att -> check_slot_expired f now = Ok (f1, true) ->
  do_check_token_pass A f now w = Ok (f', w') -> f_pending f' = f_pending f /\ w_rx w' = w_rx w.
Proof.
  intros Hst Hexp H. unfold do_check_token_pass, assert_entry in H. rewrite Hst in H.
  cbn [kind_of do_fn_entry state_kind_eqb bind] in H. rewrite Hexp in H. cbn [bind] in H.
  apply check_slot_expired_same in Hexp. destruct Hexp as [_ [_ [_ [_ [Hs1 [Hp1 _]]]]]].
  rewrite Hs1, Hst in H. cbn [get_check_token_pass_attempt bind] in H.
  match type of H with bind ?x _ = _ => destruct x as [[f2 w2]| |] eqn:E2 end; cbn [bind] in H; try discriminate H.
  assert (H2 : f_pending f2 = f_pending f1 /\ w_rx w2 = w_rx w).
  { destruct (check_pass_removes att).
    - destruct (remove_station _ _); cbn [bind] in E2; try discriminate E2. injection E2 as <- <-. split; reflexivity.
    - injection E2 as <- <-. split; reflexivity. }
  match type of H with bind ?x _ = _ => destruct x as [[f3 w3]| |] eqn:Et end; cbn [bind] in H; try discriminate H.
  apply trans_spec in Et. destruct Et as [s' [_ [-> ->]]].
  pose proof (do_pass_token_pending _ _ _ _ _ H) as Hp. pose proof (do_pass_token_rx _ _ _ _ _ H) as Hr.
  cbn in Hp, Hr. destruct H2 as [H2 H2']. split; congruence.
Qed.

(* the slot timer has not run out and the station stays in CheckTokenPass: exactly what happens *)
Lemma ctp_wait_exact f now (w : W) f1 att f' w' att' :
  f_state f = CheckTokenPass att -> check_slot_expired f now = Ok (f1, false) ->
  do_check_token_pass A f now w = Ok (f', w') -> f_state f' = CheckTokenPass att' ->
  f_lba f' = Some (gv now (f_lba f)) /\ w_tx w' = w_tx w /\
  w_rx w' = (match decode_spec (w_rx w) with Reject => [] | _ => w_rx w end) /\
  f_pending f' = Nat.min (f_pending f) (length (w_rx w')).
Proof.
  intros Hst Hexp H Hst'.
  pose proof (do_check_token_pass_waiting A f now w f1 att f' w' Hst Hexp H) as [_ [_ [_ [_ [_ [_ Hm]]]]]].
  unfold do_check_token_pass, assert_entry in H. rewrite Hst in H.
  cbn [kind_of do_fn_entry state_kind_eqb bind] in H. rewrite Hexp in H. cbn [bind] in H.
  apply cse_spec in Hexp. destruct Hexp as [[_ [_ [_ [_ [_ [Hp1 _]]]]]] [l [Hl [Hl1 _]]]].
  assert (El : l = gv now (f_lba f)) by (destruct (f_lba f); exact Hl). subst l.
  unfold receive_all_fuel in H. rewrite receive_all_step in H.
  destruct (decode_spec (w_rx w)) as [ | |t k].
  - cbn [bind] in H. injection H as <- <-. cbn. rewrite Hl1, Hp1. repeat split; reflexivity.
  - cbn [bind] in H. injection H as <- <-. cbn. rewrite Hl1, Hp1. repeat split; reflexivity.
  - exfalso. rewrite Hst' in Hm. exact Hm.
Qed.

Lemma await_noresp_covered f now (w : W) pa f1 w1 :
  await_gap_poll_response A f now w pa = Ok (f1, w1, GprNoResponse) -> covered f w -> covered f1 w1.
Proof.
  unfold covered. intros H Hc. unfold await_gap_poll_response in H.
  destruct (pa =? ts f); [discriminate H|]. destruct (negb _); [discriminate H|].
  rewrite receive_telegram_spec in H. cbn [bind] in H.
  destruct (decode_spec (w_rx w)) as [ | |t k].
  - match type of H with context [if ?c then note A w TGapRxDiscard else w] => destruct c end;
      (destruct (check_slot_expired _ now) as [[f2 b]| |] eqn:Ec; cbn [bind] in H; try discriminate H;
       apply check_slot_expired_same in Ec; destruct Ec as [_ [_ [_ [_ [_ [Hp2 _]]]]]];
       destruct b; [|discriminate H]; injection H as <- <-; cbn in *; rewrite Hp2; lia).
  - match type of H with context [if ?c then note A w TGapRxDiscard else w] => destruct c end;
      (destruct (check_slot_expired _ now) as [[f2 b]| |] eqn:Ec; cbn [bind] in H; try discriminate H;
       destruct b; [|discriminate H]; injection H as <- <-; cbn; lia).
  - destruct t as [[da sa dsap ssap fc] pdu|da sa|]; [destruct fc as [fb rq|st status]| |]; try discriminate H.
    destruct ((sa =? pa) && _); [|discriminate H].
    destruct (resp_status_eqb status gap_reply_status && gap_reply_state_is_master st); [|discriminate H].
    destruct (set_next_station _ _); cbn [bind] in H; discriminate H.
Qed.

Lemma is_ctp_kind s att : s = CheckTokenPass att -> kind_of s = KCheckTokenPass.
Proof. intros ->. reflexivity. Qed.

Lemma do_use_token_ctp f now (w : W) f' w' att' :
  do_use_token A ops f now w = Ok (f', w') -> f_state f' = CheckTokenPass att' ->
  f_pending f' = f_pending f /\ w_rx w' = w_rx w.
Proof.
  intros H Hst'. rewrite do_use_token_split in H.
  destruct (do_use_token_head A ops f now w) as [[f1 w1]| |] eqn:Eh; cbn [bind] in H; try discriminate H.
  destruct (is_pass_token (f_state f1)) eqn:Ek.
  - destruct (do_use_token_head_pass A ops _ _ _ _ _ Eh Ek) as [_ [_ [_ [_ [_ [_ [Hp1 [_ [Hr1 _]]]]]]]]].
    pose proof (do_pass_token_pending _ _ _ _ _ H). pose proof (do_pass_token_rx _ _ _ _ _ H). split; congruence.
  - injection H as <- <-. exfalso.
    unfold do_use_token_head, assert_entry in Eh.
    destruct (f_state f) as [ | | | |tk fa fcd| | | | | ] eqn:Es; cbn [kind_of do_fn_entry state_kind_eqb bind] in Eh; try discriminate Eh.
    destruct (C13Proofs.do_use_token_head_state A ops f now w f1 w1 tk fa fcd) as [_ [_ Hc]];
      [unfold do_use_token_head, assert_entry; rewrite Es; exact Eh|exact Es|].
    destruct Hc as [[E _]|[[fa' E]|[[a0 [fa' E]]|E]]]; rewrite E in Hst'; try rewrite Es in Hst'; discriminate Hst'.
Qed.

Lemma do_await_status_response_ctp f now (w : W) f' w' att' :
  do_await_status_response A f now w = Ok (f', w') -> f_state f' = CheckTokenPass att' ->
  covered f w -> covered f' w'.
Proof.
  intros H Hst' Hc. unfold do_await_status_response, assert_entry in H.
  destruct (f_state f) as [ | | | | | | | | |address] eqn:Es; cbn [kind_of do_fn_entry state_kind_eqb bind get_await_status_response_address] in H; try discriminate H.
  destruct (await_gap_poll_response A f now w address) as [[[f1 w1] r]| |] eqn:Ea; cbn [bind] in H; try discriminate H.
  pose proof (await_gap_poll_response_frame A _ _ _ _ _ _ _ Ea) as [_ [_ [Hs1 _]]].
  destruct r.
  - injection H as <- <-. rewrite Hs1, Es in Hst'. discriminate Hst'.
  - apply await_noresp_covered in Ea; [|exact Hc].
    match type of H with context [trans A ?x ?y ?z] => destruct (trans A x y z) as [[f2 w2]| |] eqn:Et end; cbn [bind] in H; try discriminate H.
    apply trans_spec in Et. destruct Et as [s' [_ [-> ->]]].
    pose proof (do_pass_token_pending _ _ _ _ _ H) as Hp. pose proof (do_pass_token_rx _ _ _ _ _ H) as Hr.
    unfold covered in *. cbn in Hp, Hr. rewrite Hp, Hr. exact Ea.
  - apply trans_spec in H. destruct H as [s' [Ht [-> _]]]. rewrite Hs1, Es in Ht. cbn in Ht. injection Ht as <-. discriminate Hst'.
  - apply trans_spec in H. destruct H as [s' [Ht [-> _]]]. rewrite Hs1, Es in Ht. cbn in Ht. injection Ht as <-. discriminate Hst'.
Qed.

Lemma do_await_data_response_ctp f now (w : W) f' w' att' :
  do_await_data_response A ops f now w = Ok (f', w') -> f_state f' = CheckTokenPass att' ->
  covered f w -> covered f' w'.
Proof.
  intros H Hst' Hc. unfold covered in *. unfold do_await_data_response, assert_entry in H.
  destruct (f_state f) as [ | | | | | |addr tk fa| | | ] eqn:Es; cbn [kind_of do_fn_entry state_kind_eqb bind get_await_data_response] in H; try discriminate H.
  destruct (nth_error (w_apps w) (f_next_app f)) as [app|]; [|discriminate H].
  rewrite receive_telegram_spec in H. cbn [bind] in H.
  assert (Hnone : forall (w0 : W) rest, w_rx w0 = rest -> (length rest <= length (w_rx w))%nat ->
            (let f0 := sync_pending_bytes A f w0 in
             let* (f1, expired) := check_slot_expired f0 now in
             if expired
             then let* app' := a_to ops app now (f_p f1) addr in
                  let w1 := log_call A (set_app A w0 (f_next_app f) app') (CallHandleTimeout (f_next_app f) addr) in
                  let* (f2, w2) := trans A f1 (note A w1 TReplyTimeout) (fun s => transition_use_token s tk fa) in
                  let* f3 := set_first_cycle_done f2 in do_use_token A ops f3 now w2
             else Ok (f1, note A w0 TReplyAwait)) = Ok (f', w') ->
            (length (w_rx w') <= f_pending f')%nat).
  { intros w0 rest Hr0 Hle H0. cbv zeta in H0.
    destruct (check_slot_expired _ now) as [[f1 expired]| |] eqn:Ec; cbn [bind] in H0; try discriminate H0.
    apply check_slot_expired_same in Ec. destruct Ec as [_ [_ [_ [_ [Hs1 [Hp1 _]]]]]].
    cbn [sync_pending_bytes set_pending f_state f_pending] in Hs1, Hp1.
    destruct expired.
    - destruct (a_to ops app now _ addr) as [app'| |]; cbn [bind] in H0; try discriminate H0.
      match type of H0 with context [trans A ?x ?y ?z] => destruct (trans A x y z) as [[f2 w2]| |] eqn:Et end; cbn [bind] in H0; try discriminate H0.
      apply trans_spec in Et. destruct Et as [s' [Ht [-> ->]]].
      unfold set_first_cycle_done in H0. cbn [set_st f_state] in H0.
      destruct (get_use_token s') as [[[a1 a2] a3]| |]; cbn [bind] in H0; try discriminate H0.
      apply (do_use_token_ctp _ now _ f' w' att') in H0; [|exact Hst'].
      destruct H0 as [Hp Hr]. cbn in Hp, Hr. rewrite Hp, Hr, Hp1, Hr0. lia.
    - injection H0 as <- <-. rewrite Hs1, Es in Hst'. discriminate Hst'. }
  destruct (decode_spec (w_rx w)) as [ | |t k].
  - match type of H with context [if ?c then note A w TReplyRxDiscard else w] => destruct c end;
      (refine (Hnone _ _ eq_refl _ H); cbn; lia).
  - match type of H with context [if ?c then note A w TReplyRxDiscard else w] => destruct c end;
      (refine (Hnone _ _ eq_refl _ H); cbn; lia).
  - exfalso. destruct (mark_rx_frame f now) as [_ [_ [_ [Ms _]]]].
    destruct (is_valid_response (mark_rx f now) addr t).
    + destruct (a_rx ops app now _ addr t) as [app'| |]; cbn [bind] in H; try discriminate H.
      match type of H with context [trans A ?x ?y ?z] => destruct (trans A x y z) as [[f1 w1]| |] eqn:Et end; cbn [bind] in H; try discriminate H.
      apply trans_spec in Et. destruct Et as [s' [Ht [-> ->]]].
      cbn [sync_pending_bytes set_pending f_state] in Ht. rewrite Ms, Es in Ht. cbn in Ht. injection Ht as <-.
      unfold set_first_cycle_done in H. cbn [set_st f_state get_use_token bind] in H. injection H as <- _. discriminate Hst'.
    + apply trans_spec in H. destruct H as [s' [Ht [-> _]]]. rewrite Ms, Es in Ht. cbn in Ht. injection Ht as <-. discriminate Hst'.
Qed.

End PartA.

(* ------------------------------------------------------------------------------------------ *)
(* whole polls that end in CheckTokenPass                                                       *)

Section PartB.
Variable A : Type.
Variable ops : app_ops A.
Notation W := (world A).

(* a poll that transmits and ends in CheckTokenPass (the pass, a retry, the pass after a removal):
   pending_bytes covers what is left in the receive buffer *)
Lemma enter_ctp_covered f now busy rxb (apps : list A) f' o apps' calls att' wire :
  poll ops f now (mkPhyIn busy rxb) apps = Ok (f', o, apps', calls) -> tx o = Some wire ->
  f_state f' = CheckTokenPass att' -> (length (rx_left o) <= f_pending f')%nat.
Proof.
  intros E Htx Hst'.
  destruct (poll_bk A ops now _ _ _ _ _ _ _ E) as (_ & _ & _ & L & _). rewrite Htx in L. cbn [tx_busy rx] in L.
  destruct L as (_ & Hb & Hcov & (l & El & Hlt)). subst busy.
  assert (Hbody : exists w', C11Proofs.body A ops f now false (mkWorld rxb None apps [] []) = Ok (f', w') /\ o = mkPhyOut (w_tx w') (w_rx w')).
  { destruct (have_token (f_state f)) eqn:Eh.
    - destruct (poll_have_token_body A ops _ _ _ _ _ _ _ _ Eh E) as (w' & Hb & Ho & _). exists w'. split; assumption.
    - destruct (in_pass (f_state f)) eqn:Ei.
      + destruct (poll_in_pass_body A ops _ _ _ _ _ _ _ _ Ei E) as (w' & Hb & Ho & _). exists w'. split; assumption.
      + exfalso. pose proof (idle_poll_not_in_pass A ops _ _ _ _ _ _ _ _ E Eh Ei) as C. rewrite Hst' in C. discriminate C. }
  destruct Hbody as (w' & H & ->). cbn [tx rx_left] in *.
  unfold C11Proofs.body in H. cbn [orb] in H.
  assert (Hpred : C11Proofs.predicted f now = false).
  { unfold C11Proofs.predicted. rewrite El. apply Z.leb_gt. pose proof (sync_nonneg f). lia. }
  rewrite Hpred in H. unfold check_for_bus_activity in H. cbn [w_rx] in H.
  destruct (Nat.ltb_spec (f_pending f) (length rxb)) as [C|_]; [lia|].
  set (w := mkWorld rxb None apps [] []) in *.
  assert (Hc : covered A f w) by exact Hcov.
  unfold C11Proofs.dispatch in H.
  destruct (f_state f) as [ | | | |tk fa fcd|st|addr tk fa|dg att|att|a0] eqn:Es; cbn [kind_of poll_dispatch] in H; try discriminate H.
  - exfalso. apply do_listen_token_entry in H. rewrite Hst' in H. discriminate H.
  - exfalso. apply do_active_idle_entry in H; [|reflexivity]. unfold pass_entry in H. rewrite Hst' in H.
    apply idle_poll_not_in_pass in E; [|rewrite Es; reflexivity|rewrite Es; reflexivity]. rewrite Hst' in E. discriminate E.
  - destruct (do_use_token_ctp A ops _ _ _ _ _ _ H Hst') as [Hp Hr]. unfold covered in Hc. rewrite Hp, Hr. exact Hc.
  - exfalso. exact (do_claim_token_not_in_pass A _ _ _ _ _ _ H Hst').
  - exact (do_await_data_response_ctp A ops _ _ _ _ _ _ H Hst' Hc).
  - pose proof (do_pass_token_pending A _ _ _ _ _ H) as Hp. pose proof (do_pass_token_rx A _ _ _ _ _ H) as Hr.
    unfold covered in Hc. rewrite Hp, Hr. exact Hc.
  - destruct (check_slot_expired f now) as [[f1 b]| |] eqn:Ecs.
    + destruct b.
      * destruct (ctp_expired_pending A _ _ _ _ _ _ _ Es Ecs H) as [Hp Hr]. unfold covered in Hc. rewrite Hp, Hr. exact Hc.
      * exfalso. destruct (ctp_wait_exact A _ _ _ _ _ _ _ _ Es Ecs H Hst') as (_ & T & _). rewrite Htx in T. discriminate T.
    + unfold do_check_token_pass, assert_entry in H. rewrite Es in H. cbn [kind_of do_fn_entry state_kind_eqb bind] in H.
      rewrite Ecs in H. discriminate H.
    + unfold do_check_token_pass, assert_entry in H. rewrite Es in H. cbn [kind_of do_fn_entry state_kind_eqb bind] in H.
      rewrite Ecs in H. discriminate H.
  - exact (do_await_status_response_ctp A _ _ _ _ _ _ H Hst' Hc).
Qed.

(* a poll without transmission that ends in CheckTokenPass started there; exact bookkeeping *)
Lemma stay_ctp f now busy rxb (apps : list A) f' o apps' calls att' :
  poll ops f now (mkPhyIn busy rxb) apps = Ok (f', o, apps', calls) -> tx o = None ->
  f_state f' = CheckTokenPass att' ->
  (exists att, f_state f = CheckTokenPass att) /\
  ((busy || C11Proofs.predicted f now = true /\ f_lba f' = Some (Z.max (gv now (f_lba f)) now) /\
    f_pending f' = f_pending f /\ rx_left o = rxb) \/
   (busy = false /\ C11Proofs.predicted f now = false /\
    let fresh := Nat.ltb (f_pending f) (length rxb) in
    f_lba f' = Some (if fresh then Z.max (gv now (f_lba f)) now else gv now (f_lba f)) /\
    rx_left o = (match decode_spec rxb with Reject => [] | _ => rxb end) /\
    f_pending f' = Nat.min (if fresh then length rxb else f_pending f) (length (rx_left o)))).
Proof.
  intros E Htx Hst'.
  assert (Hpre : exists att, f_state f = CheckTokenPass att).
  { destruct (in_pass (f_state f)) eqn:Ei.
    - destruct (f_state f) as [ | | | | | | |dg att|att| ] eqn:Es; try discriminate Ei; [|exists att; reflexivity].
      exfalso. destruct (pass_token_poll A ops f now _ apps f' o apps' calls dg att Es E) as [_ [_ [_ [_ D]]]].
      destruct D as [[_ [Hs _]]|[[addr [_ [_ [Hs _]]]]|[r' [_ [_ [T _]]]]]];
        [rewrite Hs in Hst'; discriminate Hst'|rewrite Hs in Hst'; discriminate Hst'|rewrite Htx in T; discriminate T].
    - exfalso. pose proof (poll_entry A ops f now _ apps f' o apps' calls Ei E) as He. rewrite Hst' in He.
      destruct He as [_ He]. contradiction. }
  split; [exact Hpre|]. destruct Hpre as [att Es].
  destruct (poll_in_pass_body A ops f now _ apps f' o apps' calls ltac:(rewrite Es; reflexivity) E) as (w' & H & -> & _).
  cbn [tx rx_left tx_busy rx] in *. unfold C11Proofs.body in H.
  destruct (busy || C11Proofs.predicted f now) eqn:Eb.
  - left. injection H as <- <-. split; [reflexivity|].
    destruct (mark_bus_activity_lba f now) as [Hl Hp]. rewrite Hl, Hp. cbn [w_rx note].
    split; [|split; reflexivity]. destruct (f_lba f); cbn [gv]; [reflexivity|rewrite Z.max_id; reflexivity].
  - right. apply orb_false_elim in Eb. destruct Eb as [Eb1 Eb2]. split; [exact Eb1|]. split; [exact Eb2|].
    cbv zeta.
    destruct (check_for_bus_activity A f now _) as [f1 w1] eqn:Ec. apply cfba_spec in Ec.
    destruct Ec as [[_ [_ [_ [_ [Hs1 _]]]]] [Htx1 [_ [Hrx1 [_ Hlba]]]]]. cbn [w_tx w_rx] in Htx1, Hrx1, Hlba.
    unfold C11Proofs.dispatch in H. rewrite Hs1, Es in H. cbn [kind_of poll_dispatch] in H.
    assert (Es1 : f_state f1 = CheckTokenPass att) by congruence.
    destruct (check_slot_expired f1 now) as [[f2 b]| |] eqn:Ecs.
    2:{ unfold do_check_token_pass, assert_entry in H. rewrite Es1 in H. cbn [kind_of do_fn_entry state_kind_eqb bind] in H.
        rewrite Ecs in H. discriminate H. }
    2:{ unfold do_check_token_pass, assert_entry in H. rewrite Es1 in H. cbn [kind_of do_fn_entry state_kind_eqb bind] in H.
        rewrite Ecs in H. discriminate H. }
    destruct b.
    + exfalso. destruct (do_check_token_pass_expired A _ _ _ _ _ _ _ Es1 Ecs H) as (f3 & w3 & Hd & Hs3 & _ & _ & _ & _ & _ & Htx3 & _).
      assert (Hw3 : w_tx w3 = None) by congruence.
      apply (C11Proofs.do_pass_token_spec A f3 now w3 f' w' false (check_pass_next att) Hs3 Hw3) in Hd.
      destruct Hd as [[_ [_ [_ [_ [Hs _]]]]] _ _ _ _|addr Hdg _ _ _ _ _ _ _ _|[r' [_ [_ [T _]]]]].
      * rewrite Hs, Hs3 in Hst'. discriminate Hst'.
      * discriminate Hdg.
      * rewrite Htx in T. discriminate T.
    + destruct (ctp_wait_exact A _ _ _ _ _ _ _ _ Es1 Ecs H Hst') as (Hl' & _ & Hrx' & Hp').
      rewrite Hrx1 in Hrx'. rewrite Hrx'. rewrite Hrx' in Hp'.
      destruct (Nat.ltb (f_pending f) (length rxb)).
      * destruct Hlba as [Hl1 Hp1]. rewrite Hl1 in Hl'. rewrite Hp1 in Hp'. cbn [gv] in Hl'.
        split; [|split; [reflexivity|exact Hp']]. rewrite Hl'. f_equal.
        destruct (f_lba f); cbn [gv]; [reflexivity|symmetry; apply Z.max_id].
      * subst f1. split; [exact Hl'|split; [reflexivity|exact Hp']].
Qed.

End PartB.

(* ------------------------------------------------------------------------------------------ *)
(* the invariant and the induction                                                              *)

Section Sound.
Variable A : Type.
Variable ops : app_ops A.
Variable p : params.
Hypothesis Happs : apps_total A ops.
Hypothesis Hbv : builder_valid p.
Hypothesis Hdata : app_sends_data A ops.

(* while the pass is supervised: the station's last_bus_activity is not later than the monitor's reference
   instant and not earlier than the end of the last transmission the monitor knows; and unless the monitor
   expects a spurious growth (bytes left behind a consumed telegram, or arrived while the station did not
   look), pending_bytes covers the receive buffer *)
Definition LV (f : fdl) (buf : bytes) (g : mon2) : Prop :=
  forall att, f_state f = CheckTokenPass att ->
    exists l r, f_lba f = Some l /\ l_ref g = Some r /\ l <= r /\
      (forall e, l_txend g = Some e -> e <= l) /\
      (l_spur g = false -> (length buf <= f_pending f)%nat).

Definition JL (n : nat) (f : fdl) (apps : list A) (buf : bytes) (tl : Z) (m : mon) (g : mon2) : Prop :=
  JA A p n f apps buf tl m g /\ LV f buf g.

Lemma kind_ctp s : kind_of s = KCheckTokenPass -> exists att, s = CheckTokenPass att.
Proof. destruct s; cbn; try discriminate. intros _. eexists. reflexivity. Qed.

Lemma app_len_le {X} (a b : list X) : (length (a ++ b) <= length a)%nat -> b = [].
Proof. rewrite app_length. destruct b; cbn; [reflexivity|lia]. Qed.

(* the rule is silent *)
Lemma live_ok n f apps buf tl m g now busy nb f' o apps' calls :
  Base A p n f apps buf tl m -> LV f buf g ->
  poll ops f now (mkPhyIn busy (buf ++ nb)) apps = Ok (f', o, apps', calls) ->
  ~ In R11_supervision_never_ends (y_e_live p m g (poll_event now busy (buf ++ nb) f' o calls)).
Proof.
  intros HB HL E Hin. set (s := poll_event now busy (buf ++ nb) f' o calls) in *.
  unfold y_e_live in Hin.
  destruct (y_quiet m g s && y_expired p g s && negb (y_acted m s)) eqn:Ec; [|contradiction].
  apply andb_true_iff in Ec. destruct Ec as [Ec Hact]. apply andb_true_iff in Ec. destruct Ec as [Hq Hex].
  assert (Hk0 : y_k0 m = KCheckTokenPass).
  { destruct (y_waiting_c12 m); destruct (state_kind_eqb (y_k0 m) KCheckTokenPass) eqn:Ek;
      destruct (state_kind_eqb (y_k0 m) KAwaitDataResponse); cbn in Hin;
      try (destruct (y_k0 m); try discriminate Ek; reflexivity);
      repeat (destruct Hin as [Hin|Hin]; try discriminate Hin); contradiction. }
  pose proof (x_k0_base A p n _ _ _ _ _ HB) as Hkf. change (x_k0 m) with (y_k0 m) in Hkf. rewrite Hk0 in Hkf.
  symmetry in Hkf. apply kind_ctp in Hkf. destruct Hkf as [att Es].
  destruct (HL att Es) as (l & r & El & Er & Hle & Htxe & Hpn).
  destruct HB as [R Hp Hn Hv Hleft Hpd Hb Htl].
  (* quiet *)
  unfold y_quiet, y_looks, y_ongoing, y_grew, y_spur_now, y_now in Hq. cbn [s poll_event s_busy s_rx FdlOracle.s_now] in Hq.
  apply andb_true_iff in Hq. destruct Hq as [Hq Hsp]. apply andb_true_iff in Hq. destruct Hq as [Hlk Hgr].
  apply andb_true_iff in Hlk. destruct Hlk as [Hbusy Hong].
  destruct busy; [discriminate Hbusy|]. clear Hbusy.
  apply negb_true_iff, Nat.ltb_ge in Hgr. rewrite Hleft in Hgr. apply app_len_le in Hgr. subst nb. rewrite app_nil_r in *.
  (* expired *)
  unfold y_expired, y_now in Hex. rewrite Er in Hex. cbn [s poll_event FdlOracle.s_now] in Hex. apply Z.ltb_lt in Hex.
  (* not acted *)
  unfold y_acted, y_consumed, y_k1, y_k0, y_post, y_pre in Hact.
  cbn [s poll_event s_consumed s_tx s_calls s_view view_of v_kind] in Hact. rewrite Hv in Hact. cbn [view_of v_kind] in Hact.
  apply negb_true_iff in Hact. repeat (apply orb_false_elim in Hact; destruct Hact as [Hact ?]).
  match goal with H : negb (state_kind_eqb _ _) = false |- _ => apply negb_false_iff in H; rename H into Hkk end.
  match goal with H : match tx o with Some _ => true | None => false end = false |- _ => rename H into Htx end.
  rewrite Es in Hkk. cbn [kind_of] in Hkk.
  (* the slot timer of the model has run out *)
  pose proof (bv_slot _ _ R) as Hslot. rewrite Hp in Hslot.
  assert (Hexp : slot_expired f now (mkPhyIn false buf) = true).
  { unfold slot_expired, lba_seen, C11Proofs.predicted. cbn [tx_busy rx]. rewrite El, Hp.
    destruct (Z.leb_spec now l) as [C|_]; [lia|]. cbn [negb andb].
    assert (Hcov : (length buf <= f_pending f)%nat).
    { apply negb_true_iff in Hsp. unfold y_looks, y_ongoing, y_now in Hsp.
      cbn [s poll_event s_busy FdlOracle.s_now negb] in Hsp. rewrite Hong in Hsp.
      destruct (l_spur g); [|apply Hpn; reflexivity].
      cbn [andb] in Hsp. destruct buf; [cbn; lia|discriminate Hsp]. }
    destruct (Nat.ltb_spec (f_pending f) (length buf)) as [C|_]; [lia|]. apply Z.ltb_lt. lia. }
  destruct (check_pass_poll A ops f now _ apps f' o apps' calls att Es E) as [_ [_ [_ D]]]. rewrite Hexp in D.
  destruct D as [_ [r1 [_ [[_ [Hs _]]|[r' [_ [_ [T _]]]]]]]].
  - rewrite Hs in Hkk. discriminate Hkk.
  - rewrite T in Htx. discriminate Htx.
Qed.

Lemma zmax_opt_ge o x : x <= zmax_opt o x.
Proof. destruct o; cbn; lia. Qed.
Lemma zmax_opt_ge_l r x : r <= zmax_opt (Some r) x.
Proof. cbn. lia. Qed.

(* the invariant is kept *)
Lemma lv_poll n f apps buf tl m g now busy nb f' o apps' calls :
  Base A p n f apps buf tl m -> UB f tl g -> LV f buf g -> tl < now ->
  poll ops f now (mkPhyIn busy (buf ++ nb)) apps = Ok (f', o, apps', calls) ->
  LV f' (rx_left o) (y_g' p n m g (poll_event now busy (buf ++ nb) f' o calls)).
Proof.
  intros HB HU HL Hlt E att' Hst'. set (s := poll_event now busy (buf ++ nb) f' o calls).
  destruct HB as [R Hp Hn Hv Hleft Hpd Hb Htl].
  change (l_ref (y_g' p n m g s)) with (y_ref2 p m g s).
  change (l_txend (y_g' p n m g s)) with (y_txend p g s).
  change (l_spur (y_g' p n m g s)) with (y_spur m g s).
  unfold y_ref2, y_txend, y_tx_end, y_now. cbn [s poll_event s_tx FdlOracle.s_now].
  destruct (tx o) as [wire|] eqn:Etx.
  - (* the pass, a retry, or the pass after a removal *)
    pose proof (poll_lba_case A ops _ _ _ _ _ _ _ _ _ E) as LC. rewrite Etx in LC.
    destruct LC as [wire' l0 Ew L' _ _ _ _|C _|C _|C _ _|C _ _]; try discriminate C. injection Ew as <-.
    rewrite dur_is_prop. rewrite Hp in L'.
    eexists. eexists. split; [exact L'|]. split; [reflexivity|]. split; [apply zmax_opt_ge|].
    split; [intros e He; injection He as <-; lia|].
    intros _. exact (enter_ctp_covered A ops _ _ _ _ _ _ _ _ _ _ _ E Etx Hst').
  - destruct (stay_ctp A ops _ _ _ _ _ _ _ _ _ _ E Etx Hst') as [[att Es] Hcase].
    destruct (HL att Es) as (l & r & El & Er & Hle & Htxe & Hpn).
    rewrite El in Hcase. cbn [gv] in Hcase.
    unfold y_ref1, y_happened, y_grew, y_consumed, y_spur_now, y_looks, y_ongoing, y_now.
    cbn [s poll_event s_busy s_rx s_consumed FdlOracle.s_now]. rewrite Er, Hleft.
    destruct Hcase as [(Hbp & Hl' & Hp' & Hrx')|(Hb0 & Hp0 & Hl' & Hrx' & Hp')].
    + (* the poll does not look at the buffer *)
      rewrite Hrx', Nat.sub_diag. cbn [Nat.eqb negb].
      assert (Hnl : negb busy && negb (match l_txend g with Some e => now <=? e | None => false end) = false).
      { destruct busy; [reflexivity|]. cbn [orb negb andb] in *. unfold C11Proofs.predicted in Hbp. rewrite El in Hbp.
        apply Z.leb_le in Hbp. destruct (HU l El) as [C|(e & He & C)]; [lia|]. rewrite He.
        destruct (Z.leb_spec now e); [reflexivity|lia]. }
      match goal with |- context [if ?c then Some (zmax_opt (Some r) now) else Some r] => destruct c eqn:Ehap end.
      all: eexists; eexists; (split; [exact Hl'|]); (split; [reflexivity|]); split.
      1:{ cbn [zmax_opt]. lia. }
      2:{ destruct busy; [rewrite orb_true_r in Ehap; discriminate Ehap|].
          cbn [orb] in Hbp. unfold C11Proofs.predicted in Hbp. rewrite El in Hbp. apply Z.leb_le in Hbp. lia. }
      all: split; [intros e He; specialize (Htxe e He); lia|].
      all: unfold y_spur, y_consumed, y_looks, y_ongoing, y_grew, y_now;
        cbn [s poll_event s_busy s_rx s_consumed FdlOracle.s_now]; rewrite Hrx', Nat.sub_diag, Hnl, Hleft; cbn [Nat.eqb negb];
        intros Hs; apply orb_false_elim in Hs; destruct Hs as [Hs1 Hs2]; apply Nat.ltb_ge in Hs2; apply app_len_le in Hs2; subst nb;
        rewrite app_nil_r, Hp'; exact (Hpn Hs1).
    + (* the poll looks at the buffer and the station waits on *)
      subst busy. unfold C11Proofs.predicted in Hp0. rewrite El in Hp0. apply Z.leb_gt in Hp0.
      cbv zeta in Hl', Hp'.
      assert (Hlooks : negb (match l_txend g with Some e => now <=? e | None => false end) = true).
      { destruct (l_txend g) as [e|] eqn:He; [|reflexivity]. specialize (Htxe e eq_refl).
        destruct (Z.leb_spec now e); [lia|reflexivity]. }
      assert (Hhap : Nat.ltb (f_pending f) (length (buf ++ nb)) = true ->
                     (Nat.ltb (length buf) (length (buf ++ nb)) || false ||
                      negb (Nat.eqb (length (buf ++ nb) - length (rx_left o)) 0) ||
                      l_spur g && (negb false && negb (match l_txend g with Some e => now <=? e | None => false end)) &&
                      match buf ++ nb with [] => false | _ => true end) = true).
      { intros Efresh. apply Nat.ltb_lt in Efresh. destruct (Nat.ltb_spec (length buf) (length (buf ++ nb))) as [C|C]; [reflexivity|].
        apply app_len_le in C. subst nb. rewrite app_nil_r in *.
        destruct (l_spur g); [|specialize (Hpn eq_refl); lia].
        rewrite Hlooks. cbn [negb andb]. destruct buf; [cbn in Efresh; lia|]. rewrite !orb_true_r. reflexivity. }
      match goal with |- context [if ?c then Some (zmax_opt (Some r) now) else Some r] => destruct c eqn:Ehap end.
      all: eexists; eexists; (split; [exact Hl'|]); (split; [reflexivity|]); split.
      1:{ cbn [zmax_opt]. destruct (Nat.ltb _ _); lia. }
      2:{ destruct (Nat.ltb (f_pending f) (length (buf ++ nb))); [discriminate (Hhap eq_refl)|lia]. }
      all: split; [intros e He; specialize (Htxe e He); destruct (Nat.ltb _ _); lia|].
      all: intros _; rewrite Hp';
        destruct (decode_spec (buf ++ nb)); rewrite Hrx'; cbn [length]; try lia;
        destruct (Nat.ltb_spec (f_pending f) (length (buf ++ nb))); lia.
Qed.

Lemma lv_api a f buf m g f' :
  LV f buf g -> api_result p a f = Ok f' -> LV f' buf (snd (mon_after_api a (view_of f') m g)).
Proof.
  intros HL E att Hst. destruct a; cbn [api_result mon_after_api snd] in *.
  - destruct (fdl_new_fields _ _ E) as (S1 & _). rewrite S1 in Hst. discriminate Hst.
  - unfold set_online, set_state in E. injection E as <-. exact (HL att Hst).
  - unfold set_offline, set_state in E. destruct (fdl_new_fields _ _ E) as (S1 & _). rewrite S1 in Hst. discriminate Hst.
  - discriminate E.
Qed.

(* C11_supervision_liveness_sound *)
Theorem supervision_liveness_sound (apps : list A) (ins : list minput) :
  ins_ok 0 ins ->
  forall k r, In (k, r) (monitor p (length apps) (model_transcript A ops p apps ins)) -> r <> R11_supervision_never_ends.
Proof.
  intros Hok.
  apply (generic_sound_transcript A ops p (length apps) (fun r => r <> R11_supervision_never_ends) (JL (length apps)) (fun _ => True));
    try assumption; try reflexivity.
  - discriminate.
  - intros a f apps0 buf tl m g f' [HJ HL] E _. split; [exact (JA_api A p Hbv _ _ _ _ _ _ _ _ _ HJ E)|exact (lv_api _ _ _ _ _ _ HL E)].
  - intros f apps0 buf tl m g now busy nb f' o apps' calls [HJ HL] Hlt Hnow Hnb E _.
    assert (Hlen : length apps0 = length apps) by (destruct HJ as ((((HB & _) & _) & _) & _); exact (b_n _ _ _ _ _ _ _ _ HB)).
    pose proof HJ as (_ & _ & HU & _).
    destruct (JA_poll A ops p Happs Hbv Hdata _ _ _ _ _ _ _ _ _ _ _ _ _ _ Hlen HJ Hlt Hnow Hnb E) as (H1 & H2 & HJ' & HB & _).
    split; [|split; [|split; [exact HJ'|]]].
    + rewrite H1. intros r Hr C. subst r. apply (x_e12b_only p m _) in Hr. discriminate Hr.
    + rewrite H2. intros r Hr C. subst r. apply in_app_or in Hr. destruct Hr as [Hr|Hr].
      * apply (y_e_sweep_only p m g _) in Hr. discriminate Hr.
      * apply in_app_or in Hr. destruct Hr as [Hr|Hr].
        -- apply (y_e_scan_only p m g _) in Hr. discriminate Hr.
        -- exact (live_ok _ _ _ _ _ _ _ _ _ _ _ _ _ _ HB HL E Hr).
    + rewrite mon_poll2_eq. cbn [fst]. exact (lv_poll _ _ _ _ _ _ _ _ _ _ _ _ _ _ HB HU HL Hlt E).
  - intros f0 apps0 E Hn _. split; [exact (JA_init A p Hbv _ _ _ E Hn)|].
    intros att Hst. destruct (fdl_new_fields _ _ E) as (S1 & _). rewrite S1 in Hst. discriminate Hst.
  - apply transcript_ok_true.
Qed.


(* with FdlOracleSoundAll.c11_open: no rule of C11 at all is reported on a transcript of the model *)
Corollary c11_oracle_sound (apps : list A) (ins : list minput) :
  ins_ok 0 ins ->
  forall k r, In (k, r) (monitor p (length apps) (model_transcript A ops p apps ins)) -> rule_prop r <> PC11.
Proof.
  intros Hok k r Hin Hp. pose proof (c11_open A ops p Happs Hbv Hdata apps ins Hok k r Hin Hp) as ->.
  exact (supervision_liveness_sound apps ins Hok k _ Hin eq_refl).
Qed.

End Sound.

