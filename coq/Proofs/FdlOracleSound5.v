(* FDL oracle soundness, part 5: the rule groups of C13 (token hold time) and C15 (application contract,
   routing, round robin) - the callbacks of a poll against the monitors, the invariant between the station,
   the ghost monitor of Proofs/C15Proofs.v and the executable monitors, the theorems. *)
From Coq Require Import Arith.
From PB Require Import Common Tables FdlTables Telegram Phy TokenRing Params Fdl FdlOracle FdlProofs FdlStepProofs.
From PB Require Import C05Proofs C01Proofs C11Proofs C15Proofs C13Proofs C12Proofs.
From PB Require Import FdlOracleSound1 FdlOracleSound2 FdlOracleSound3 FdlOracleSound4.

(* ------------------------------------------------------------------------------------------ *)
(* the callbacks of one poll: first monitor (mon_call)                                          *)

Section Folds.
Variable p : params.
Variable n : nat.

Lemma kind_in_visit k : kind_in k [KUseToken; KAwaitDataResponse] = in_visit k.
Proof. destruct k; reflexivity. Qed.

Lemma mon_calls_ok (k0 : state_kind) (now : Z) (rounds0 : nat) (txo : option bytes) :
  forall calls c m1 e0,
  acalls n (p_address p) c calls -> m_out m1 = c_out c -> c_kind c = k0 ->
  (forall i hp r, In (CallTransmit i hp r) calls ->
     if hp then rounds0 = 0%nat else now < m_prev_tt m1 + token_rotation_time p) ->
  let r := fold_left (mon_call p n k0 now rounds0) (map (conv_call txo) calls) (m1, e0) in
  snd r = e0 /\ m_out (fst r) = c_out (mcalls n c calls).
Proof.
  induction calls as [|x calls IH]; intros c m1 e0 Hacc Hout Hk Hprio; [split; [reflexivity|exact Hout]|].
  cbn [map fold_left]. destruct Hacc as (Hpre & Hacc).
  change (mcalls n c (x :: calls)) with (mcalls n (cpost n c (HCall x)) calls).
  assert (Hk' : c_kind (cpost n c (HCall x)) = k0).
  { destruct x as [i hp [[wire [da|]]|]|i a t|i a]; cbn; exact Hk. }
  assert (Hprio' : forall m2, m_prev_tt m2 = m_prev_tt m1 -> forall i hp r, In (CallTransmit i hp r) calls ->
             if hp then rounds0 = 0%nat else now < m_prev_tt m2 + token_rotation_time p).
  { intros m2 E i hp r Hin. rewrite E. apply (Hprio i hp r). right. exact Hin. }
  destruct x as [i hp r|i a t|i a].
  - (* transmit_telegram *)
    cbn in Hpre. destruct Hpre as (Hv & Ho & Hi & Hlt & Hd).
    pose proof (Hprio i hp r (or_introl eq_refl)) as Hp0.
    cbn [conv_call mon_call].
    assert (He1 : check (kind_in k0 [KUseToken; KAwaitDataResponse]) R15_transmit_without_token = []).
    { rewrite kind_in_visit, <- Hk, Hv. reflexivity. }
    assert (He2 : check (match m_out m1 with None => true | Some _ => false end) R15_transmit_while_outstanding = []).
    { rewrite Hout, Ho. reflexivity. }
    assert (He4 : (if hp then check (Nat.eqb rounds0 0) R13_second_cycle_after_hold_time ++ check (Nat.eqb rounds0 0) R15_cycle_after_hold_time
                   else check (now <? m_prev_tt m1 + token_rotation_time p) R13_low_prio_after_hold_time) = []).
    { destruct hp; [rewrite Hp0; reflexivity|]. replace (now <? _) with true by (symmetry; apply Z.ltb_lt; exact Hp0). reflexivity. }
    destruct r as [[wire [da|]]|]; cbn [conv_call];
      match goal with |- context [fold_left ?F ?L (?M, ?E)] =>
        replace E with e0 by (rewrite He1, He2, He4, !app_nil_r; reflexivity) end;
      (apply IH; [exact Hacc| |exact Hk'|apply Hprio'; reflexivity]); cbn; congruence.
  - (* receive_reply *)
    cbn in Hpre. destruct Hpre as (Hkk & Ho & Hi & Hrep).
    cbn [conv_call mon_call].
    assert (He1 : check (match m_out m1 with Some (j, b) => Nat.eqb i j && (a =? b) | None => false end) R15_reply_not_requested = []).
    { rewrite Hout, Ho, Nat.eqb_refl, Z.eqb_refl. reflexivity. }
    assert (He2 : check (match t with
                         | TShortConf => true
                         | TData h _ => (h_sa h =? a) && (h_da h =? p_address p) &&
                                        match h_fc h with FcResponse _ _ => true | _ => false end
                         | TToken _ _ => false
                         end) R15_reply_invalid = []).
    { destruct Hrep as [-> |(h & pdu & st & s & -> & Hfc & Hsa & Hda)]; [reflexivity|].
      rewrite Hfc, Hsa, Hda, !Z.eqb_refl. reflexivity. }
    match goal with |- context [fold_left ?F ?L (?M, ?E)] =>
      replace E with e0 by (rewrite He1, He2, !app_nil_r; reflexivity) end.
    apply IH; [exact Hacc|reflexivity|exact Hk'|apply Hprio'; reflexivity].
  - (* handle_timeout *)
    cbn in Hpre. destruct Hpre as (Hkk & Ho & Hi).
    cbn [conv_call mon_call].
    assert (He1 : check (match m_out m1 with Some (j, b) => Nat.eqb i j && (a =? b) | None => false end) R15_timeout_not_requested = []).
    { rewrite Hout, Ho, Nat.eqb_refl, Z.eqb_refl. reflexivity. }
    match goal with |- context [fold_left ?F ?L (?M, ?E)] =>
      replace E with e0 by (rewrite He1, !app_nil_r; reflexivity) end.
    apply IH; [exact Hacc|reflexivity|exact Hk'|apply Hprio'; reflexivity].
Qed.

(* second monitor: the round-robin acceptor *)
Lemma rr_calls_ok (txo : option bytes) : forall calls c t0 d0 e0,
  acalls n (p_address p) c calls -> t0 = c_turn c -> d0 = c_decl c ->
  fold_left (y_rr_step n) (map (conv_call txo) calls) (t0, d0, e0) =
  (c_turn (mcalls n c calls), c_decl (mcalls n c calls), e0).
Proof.
  induction calls as [|x calls IH]; intros c t0 d0 e0 Hacc Ht Hd; [subst; reflexivity|].
  cbn [map fold_left]. destruct Hacc as (Hpre & Hacc).
  change (mcalls n c (x :: calls)) with (mcalls n (cpost n c (HCall x)) calls).
  destruct x as [i hp r|i a t|i a].
  - cbn in Hpre. destruct Hpre as (Hv & Ho & Hi & Hlt & Hdl). subst t0 d0.
    assert (He : check (Nat.eqb i (c_turn c) && Nat.ltb i n) R15_round_robin ++ check (Nat.ltb (c_decl c) n) R15_asked_after_all_declined = []).
    { rewrite Hi, Nat.eqb_refl. replace (Nat.ltb (c_turn c) n) with true by (symmetry; apply Nat.ltb_lt; lia).
      replace (Nat.ltb (c_decl c) n) with true by (symmetry; apply Nat.ltb_lt; exact Hdl). reflexivity. }
    destruct r as [[wire [da|]]|]; cbn [conv_call y_rr_step]; rewrite He, app_nil_r; apply IH; try exact Hacc; reflexivity.
  - cbn in Hpre. destruct Hpre as (_ & _ & Hi & _). subst t0 d0. cbn [conv_call y_rr_step].
    rewrite Hi, Nat.eqb_refl. cbn [check]. rewrite app_nil_r. apply IH; try exact Hacc; reflexivity.
  - cbn in Hpre. destruct Hpre as (_ & _ & Hi). subst t0 d0. cbn [conv_call y_rr_step].
    rewrite Hi, Nat.eqb_refl. cbn [check]. rewrite app_nil_r. apply IH; try exact Hacc; reflexivity.
Qed.

(* the hold-time checks of the second monitor *)
Lemma e13_ok (g : mon2) (now : Z) (txo : option bytes) : forall calls,
  (forall i hp r, In (CallTransmit i hp r) calls -> if hp then h_end g <= now else now < h_end g) ->
  flat_map (fun c => match c with
                     | CallTransmit _ hp _ =>
                         if hp then check (h_end g <=? now) R13_high_prio_inside_hold_time
                         else check (now <? h_end g) R13_low_prio_after_hold_time
                     | _ => []
                     end) (map (conv_call txo) calls) = [].
Proof.
  induction calls as [|x calls IH]; intros H; [reflexivity|]. cbn [map flat_map].
  rewrite IH by (intros i hp r Hin; apply (H i hp r); right; exact Hin). rewrite app_nil_r.
  destruct x as [i hp r|i a t|i a]; [|reflexivity|reflexivity].
  pose proof (H i hp r (or_introl eq_refl)) as H0.
  destruct r as [[wire er]|]; cbn [conv_call]; destruct hp;
    [replace (h_end g <=? now) with true by (symmetry; apply Z.leb_le; exact H0)|
     replace (now <? h_end g) with true by (symmetry; apply Z.ltb_lt; exact H0)|
     replace (h_end g <=? now) with true by (symmetry; apply Z.leb_le; exact H0)|
     replace (now <? h_end g) with true by (symmetry; apply Z.ltb_lt; exact H0)]; reflexivity.
Qed.

End Folds.

(* ------------------------------------------------------------------------------------------ *)
(* a poll outside the token-use states                                                          *)

Section Quiet.
Variable A : Type.
Variable ops : app_ops A.

Lemma quiet_poll_facts f now pin (apps : list A) f' o apps' calls :
  poll ops f now pin apps = Ok (f', o, apps', calls) -> visit_tk (f_state f) = None ->
  calls = [] /\ f_p f' = f_p f /\
  (is_reset f' \/
   (keepf f f' /\ (f_state f' = Offline -> f_state f = Offline) /\
    (forall tk, visit_tk (f_state f') = Some tk -> f_state f' = UseToken now None false))).
Proof.
  intros E Hn. pose proof (visit_tk_none _ Hn) as Hv.
  destruct (poll_state_cases A ops _ _ _ _ _ _ _ _ E) as [(-> & Hp & Hq)|(tk & [(fa & fcd & Es)|(a & fa & Es)] & _)];
    try (rewrite Es in Hn; discriminate Hn).
  split; [reflexivity|]. split; [exact Hp|].
  destruct Hq as [R|(K & s3 & Hpro & Hqs & _)]; [left; exact R|right]. split; [exact K|].
  assert (Hs3 : in_visit (kind_of s3) = false).
  { destruct Hpro as [-> |(_ & [-> | ->])]; [exact Hv|reflexivity|reflexivity]. }
  split.
  - intros Es'. rewrite Es' in Hqs. cbn in Hqs. subst s3.
    destruct Hpro as [E1|(_ & [E1|E1])]; [symmetry; exact E1|discriminate E1|discriminate E1].
  - intros tk Htk. destruct (f_state f') as [ | | | |tk0 fa fcd| |a tk0 fa| | | ]; cbn in Htk; try discriminate Htk; cbn in Hqs.
    + destruct Hqs as [E1|E1]; [rewrite <- E1 in Hs3; discriminate Hs3|exact E1].
    + rewrite <- Hqs in Hs3. discriminate Hs3.
Qed.

End Quiet.

(* ------------------------------------------------------------------------------------------ *)
(* the invariant of C13 / C15                                                                   *)

Section S5.
Variable A : Type.
Variable ops : app_ops A.
Variable p : params.
Variable n : nat.
Hypothesis Happs : apps_total A ops.
Hypothesis Hbv : builder_valid p.
(* the FdlApplication contract as far as the monitors depend on it: what an application hands to the PHY
   is a data telegram (TelegramTx::send_data_telegram) - not a token *)
Definition app_sends_data : Prop :=
  forall a now q hp a' wire er, a_tx ops a now q hp = Ok (a', Some (wire, er)) ->
    exists h pdu, decode_one wire = Some (TData h pdu).
Hypothesis Hdata : app_sends_data.

Record VI (f : fdl) (tl : Z) (m : mon) (g : mon2) (c : cst) : Prop := mkVI {
  v_inv : Inv n f c;
  v_out : m_out m = c_out c;
  v_turn : FdlOracle.r_turn g = c_turn c;
  v_decl : FdlOracle.r_decl g = c_decl c;
  v_ltt : f_last_token_time f <= tl;
  v_off : f_state f = Offline -> f_last_token_time f = 0;
  v_vis : match visit_tk (f_state f) with
          | Some tk => m_tt m = tk /\ tk <= tl /\ h_end g = dl f tk /\ dl f tk <= m_prev_tt m + token_rotation_time p /\
                       (m_rounds m <> 0%nat -> fcd_of (f_state f) = true) /\
                       (kind_of (f_state f) = KAwaitDataResponse -> f_last_token_time f = tk)
          | None => m_tt m = f_last_token_time f
          end
}.

(* projections of the monitor states after a poll *)
Lemma m_out_x_m3 m s : m_out (x_m3 p n m s) = x_out p n m s.
Proof. unfold x_m3. destruct (x_new_visit p m s); [reflexivity|]. destruct (state_kind_eqb _ _); reflexivity. Qed.
Lemma m_tt_x_m3 m s : m_tt (x_m3 p n m s) =
  if x_new_visit p m s then x_now s else if state_kind_eqb (x_k1 s) KOffline then 0 else m_tt m.
Proof. unfold x_m3. destruct (x_new_visit p m s); [reflexivity|]. destruct (state_kind_eqb _ _); reflexivity. Qed.
Lemma m_prev_tt_x_m3 m s : m_prev_tt (x_m3 p n m s) =
  if x_new_visit p m s then m_tt m else if state_kind_eqb (x_k1 s) KOffline then 0 else m_prev_tt m.
Proof. unfold x_m3. destruct (x_new_visit p m s); [reflexivity|]. destruct (state_kind_eqb _ _); reflexivity. Qed.
Lemma m_rounds_x_m3 m s : m_rounds (x_m3 p n m s) =
  if x_new_visit p m s then 0%nat else if state_kind_eqb (x_k1 s) KOffline then 0%nat else x_rounds m s.
Proof. unfold x_m3. destruct (x_new_visit p m s); [reflexivity|]. destruct (state_kind_eqb _ _); reflexivity. Qed.

Lemma gap_reserve_view f : f_p f = p ->
  gap_reserve f = if v_gap_due (view_of f) then p_bits_to_time p (p_slot_bits p + prop_gap_reserve_extra_bits) else 0.
Proof. intros Hp. unfold gap_reserve, view_of. cbn [v_gap_due]. rewrite Hp. destruct (f_gap f); reflexivity. Qed.

Lemma gap_reserve_nonneg f : f_p f = p -> 0 <= gap_reserve f.
Proof.
  intros Hp. unfold gap_reserve. rewrite Hp. destruct (f_gap f); [lia|].
  unfold p_bits_to_time. apply btt_nonneg. pose proof (bv_ranges _ Hbv). unfold gap_reserve_extra_bits. lia.
Qed.

(* the visit that begins in this poll: what the monitors note, against the station *)
Lemma fresh_visit_vis f' m g s now :
  f_p f' = p -> f_state f' = UseToken now None false -> f_last_token_time f' < now ->
  s_view s = view_of f' -> x_now s = now -> y_now s = now -> x_new_visit p m s = true -> y_new_visit p m s = true ->
  m_tt m = f_last_token_time f' ->
  match visit_tk (f_state f') with
  | Some tk => m_tt (x_m3 p n m s) = tk /\ tk <= now /\ h_end (y_g' p n m g s) = dl f' tk /\
               dl f' tk <= m_prev_tt (x_m3 p n m s) + token_rotation_time p /\
               (m_rounds (x_m3 p n m s) <> 0%nat -> fcd_of (f_state f') = true) /\
               (kind_of (f_state f') = KAwaitDataResponse -> f_last_token_time f' = tk)
  | None => m_tt (x_m3 p n m s) = f_last_token_time f'
  end.
Proof.
  intros Hp Es Hlt Hv Hn1 Hn2 Hnv1 Hnv2 Htt. rewrite Es. cbn [visit_tk].
  rewrite m_tt_x_m3, m_prev_tt_x_m3, m_rounds_x_m3, Hnv1, Hn1.
  assert (Hdl : dl f' now = f_last_token_time f' + token_rotation_time p - gap_reserve f').
  { unfold dl. destruct (Z.eqb_spec (f_last_token_time f') now) as [C|_]; [lia|]. rewrite Hp. reflexivity. }
  split; [reflexivity|]. split; [lia|]. split.
  { cbn [y_g' h_end]. unfold y_hend. rewrite Hnv2. unfold y_post. rewrite Hv, <- (gap_reserve_view f' Hp), Htt. symmetry. exact Hdl. }
  split; [rewrite Hdl, Htt; pose proof (gap_reserve_nonneg f' Hp); lia|].
  split; [intros C; contradiction C; reflexivity|]. intros C. discriminate C.
Qed.

Definition step1315 (m : mon) (g : mon2) (s : pstep) (f' : fdl) (now : Z) (c' : cst) : Prop :=
  snd (x_fold p n m s) = [] /\ x_e15 p n m s = [] /\ y_e13 g s = [] /\ y_e_rr n g s = [] /\ y_e_end p n m g s = [] /\
  VI f' now (x_m3 p n m s) (y_g' p n m g s) c'.

Lemma poll_inv_after f apps now pin f' o apps' calls c :
  Inv (length apps) f c -> poll ops f now pin apps = Ok (f', o, apps', calls) ->
  cpre (length apps) (ts f) (mcalls (length apps) c calls) (HEnd now f') /\
  Inv (length apps) f' (cpost (length apps) (mcalls (length apps) c calls) (HEnd now f')).
Proof.
  intros HI E.
  assert (Es : step A ops f apps (EvPoll A now pin) = Ok (f', apps', map HCall calls ++ [HEnd now f'])).
  { cbn [step]. rewrite E. reflexivity. }
  destruct (step_preserves A ops _ _ _ _ _ _ c HI Es) as (Hacc & Hinv & _).
  unfold accepted in Hacc. apply accepts_app in Hacc. destruct Hacc as (_ & (Hpre & _)).
  unfold after in Hinv. rewrite posts_app in Hinv. split; [exact Hpre|exact Hinv].
Qed.

Lemma quiet_step f apps buf tl m g c now busy nb f' o apps' calls :
  Base A p n f apps buf tl m -> VI f tl m g c -> tl < now -> time_ok now ->
  poll ops f now (mkPhyIn busy (buf ++ nb)) apps = Ok (f', o, apps', calls) -> visit_tk (f_state f) = None ->
  exists c', step1315 m g (poll_event now busy (buf ++ nb) f' o calls) f' now c'.
Proof.
  intros HB [Vinv Vout Vturn Vdecl Vltt Voff Vvis] Hlt Hnow E Hnv.
  pose proof (x_k0_base A p n _ _ _ _ _ HB) as Hk0.
  destruct HB as [R Hp Hn Hv Hl Hpd Hb Htl].
  destruct (quiet_poll_facts A ops _ _ _ _ _ _ _ _ E Hnv) as (-> & Hpp & Hq).
  rewrite <- Hn in Vinv. destruct (poll_inv_after _ _ _ _ _ _ _ _ c Vinv E) as (Hpre & Hinv'). rewrite Hn in *.
  change (mcalls n c []) with c in *.
  set (s := poll_event now busy (buf ++ nb) f' o []) in *.
  exists (cpost n c (HEnd now f')).
  assert (Hk0v : in_visit (kind_of (f_state f)) = false) by (apply visit_tk_none; exact Hnv).
  assert (Hk1 : x_k1 s = kind_of (f_state f')) by reflexivity.
  assert (Hyk0 : y_k0 m = kind_of (f_state f)) by exact Hk0.
  assert (Hcout : c_out c = None).
  { destruct Vinv as (_ & _ & Hi). unfold inv_st in Hi. destruct (f_state f); cbn in Hnv; try discriminate Hnv; tauto. }
  assert (Hnaw : state_kind_eqb (kind_of (f_state f')) KAwaitDataResponse = false).
  { destruct Hq as [(S1 & _)|(_ & _ & Hfr)]; [rewrite S1; reflexivity|].
    destruct (f_state f') eqn:Es'; try reflexivity. specialize (Hfr _ eq_refl). discriminate Hfr. }
  assert (Hfold : x_fold p n m s = (x_m1 p m s, [])) by reflexivity.
  assert (Hnvx : x_new_visit p m s = state_kind_eqb (kind_of (f_state f')) KUseToken).
  { unfold x_new_visit. rewrite Hk1, Hk0, kind_in_visit, Hk0v. cbn [negb orb]. apply andb_true_r. }
  assert (Hnvy : y_new_visit p m s = state_kind_eqb (kind_of (f_state f')) KUseToken).
  { unfold y_new_visit. change (y_k1 s) with (kind_of (f_state f')). rewrite Hyk0, kind_in_visit, Hk0v. cbn [negb orb]. apply andb_true_r. }
  split; [rewrite Hfold; reflexivity|].
  split; [unfold x_e15; rewrite Hk1, Hnaw; reflexivity|].
  split; [reflexivity|]. split; [reflexivity|].
  split; [unfold y_e_end, y_in_vis; rewrite Hyk0, kind_in_visit, Hk0v; reflexivity|].
  (* the invariant *)
  assert (Hlt' : f_last_token_time f' <= tl \/ is_reset f').
  { destruct Hq as [R1|((_ & _ & Kl & _) & _)]; [right; exact R1|left; rewrite Kl; exact Vltt]. }
  assert (Hoff' : f_state f' = Offline -> f_last_token_time f' = 0).
  { intros Es'. destruct Hq as [(_ & _ & _ & L & _)|((_ & _ & Kl & _) & Ho & _)]; [exact L|]. rewrite Kl. exact (Voff (Ho Es')). }
  rewrite Hnv in Vvis.
  constructor.
  - exact Hinv'.
  - rewrite m_out_x_m3. unfold x_out. rewrite Hk1, Hnaw. cbn [cpost c_out].
    destruct (kind_of (f_state f')); try reflexivity. discriminate Hnaw.
  - cbn [y_g' FdlOracle.r_turn cpost c_turn]. unfold y_turn2, y_turn1, y_rr. change (y_k1 s) with (kind_of (f_state f')).
    cbn [s_calls s poll_event map fold_left fst]. rewrite Vturn. destruct (kind_of (f_state f')); reflexivity.
  - cbn [y_g' FdlOracle.r_decl cpost c_decl]. unfold y_decl2, y_in_vis. rewrite Hyk0. change (y_k1 s) with (kind_of (f_state f')).
    rewrite !kind_in_visit, Hk0v. destruct Vinv as (Hck & _). rewrite Hck, Hk0v. cbn [andb].
    destruct (in_visit (kind_of (f_state f'))); reflexivity.
  - destruct Hlt' as [H|(_ & _ & _ & L & _)]; [lia|]. rewrite L. unfold time_ok in Hnow. lia.
  - exact Hoff'.
  - destruct (visit_tk (f_state f')) as [tk'|] eqn:Etk'.
    + (* a visit begins: the token was accepted in this poll *)
      destruct Hq as [(S1 & _)|((Kp & Kn & Kl & Ke) & _ & Hfr)]; [rewrite S1 in Etk'; discriminate Etk'|].
      pose proof (Hfr _ eq_refl) as Es'. rewrite Es' in Etk'. cbn in Etk'. injection Etk' as <-.
      pose proof (fresh_visit_vis f' m g s now ltac:(congruence) Es' ltac:(rewrite Kl; lia) eq_refl eq_refl eq_refl
                    ltac:(rewrite Hnvx, Es'; reflexivity) ltac:(rewrite Hnvy, Es'; reflexivity) ltac:(congruence)) as Hfv.
      rewrite Es' in Hfv. cbn [visit_tk] in Hfv. rewrite Es'. exact Hfv.
    + rewrite m_tt_x_m3, Hnvx, Hk1.
      assert (Hku : state_kind_eqb (kind_of (f_state f')) KUseToken = false).
      { destruct (f_state f'); cbn in Etk'; try discriminate Etk'; reflexivity. }
      rewrite Hku. destruct (state_kind_eqb (kind_of (f_state f')) KOffline) eqn:Eo.
      * symmetry. apply Hoff'. destruct (f_state f'); try discriminate Eo; reflexivity.
      * destruct Hq as [(S1 & _)|((_ & _ & Kl & _) & _)]; [rewrite S1 in Eo; discriminate Eo|]. congruence.
Qed.

(* what the monitors decode from the transmission of a poll *)
Lemma x_txt_tx s w : s_tx s = Some w -> x_txt s = decode_one w.
Proof. unfold x_txt. intros ->. reflexivity. Qed.
Lemma y_txt_tx s w : s_tx s = Some w -> y_txt s = decode_one w.
Proof. unfold y_txt. intros ->. reflexivity. Qed.

Lemma app_wire_is_data f now pin (apps : list A) f' o apps' calls cs i hp wire er :
  poll ops f now pin apps = Ok (f', o, apps', calls) -> calls = cs ++ [CallTransmit i hp (Some (wire, er))] ->
  exists h pdu, decode_one wire = Some (TData h pdu).
Proof.
  intros E Hc. pose proof (poll_results A ops _ _ _ _ _ _ _ _ E) as Hr. rewrite Hc in Hr.
  apply Forall_app in Hr. destruct Hr as (_ & Hr). inversion Hr as [|? ? H1 _]. subst.
  destruct (H1 i hp (Some (wire, er)) eq_refl) as (a & now' & q & a' & Ea). exact (Hdata _ _ _ _ _ _ _ Ea).
Qed.

Lemma visit_step_ok f apps buf tl m g c now busy nb f' o apps' calls tk :
  Base A p n f apps buf tl m -> VI f tl m g c -> tl < now -> time_ok now ->
  poll ops f now (mkPhyIn busy (buf ++ nb)) apps = Ok (f', o, apps', calls) -> visit_tk (f_state f) = Some tk ->
  exists c', step1315 m g (poll_event now busy (buf ++ nb) f' o calls) f' now c'.
Proof.
  intros HB [Vinv Vout Vturn Vdecl Vltt Voff Vvis] Hlt Hnow E Htk.
  pose proof (x_k0_base A p n _ _ _ _ _ HB) as Hk0.
  destruct HB as [R Hp Hn Hv Hl Hpd Hb Htl].
  rewrite Htk in Vvis. destruct Vvis as (Vtt & Vtkl & Vhe & Vdl & Vr & Vaw).
  rewrite <- Hn in Vinv.
  destruct (visit_poll_facts A ops (length apps) _ _ _ _ _ _ _ _ c tk E R eq_refl Vinv Htk ltac:(lia) Vaw)
    as (Hacc & Hpp & (hp & Hprio & Hask) & Hend).
  destruct (poll_inv_after _ _ _ _ _ _ _ _ c Vinv E) as (Hpre & Hinv').
  rewrite Hn in *.
  set (c1 := mcalls n c calls) in *.
  set (s := poll_event now busy (buf ++ nb) f' o calls) in *.
  assert (Hts : ts f = p_address p) by (unfold ts; rewrite Hp; reflexivity).
  assert (Hk0v : in_visit (kind_of (f_state f)) = true) by (eapply visit_tk_in_visit; exact Htk).
  assert (Hck : c_kind c = kind_of (f_state f)) by (destruct Vinv as (H1 & _); exact H1).
  assert (Hk1 : x_k1 s = kind_of (f_state f')) by reflexivity.
  assert (Hyk0 : y_k0 m = kind_of (f_state f)) by exact Hk0.
  assert (Hyk1 : y_k1 s = kind_of (f_state f')) by reflexivity.
  assert (Hcalls : s_calls s = map (conv_call (tx o)) calls) by reflexivity.
  (* the priority class of the calls, against the deadline of the visit as the monitors know it *)
  assert (PF : forall i hp' r, In (CallTransmit i hp' r) calls ->
            (if hp' then m_rounds m = 0%nat else now < m_prev_tt m + token_rotation_time p) /\
            (if hp' then h_end g <= now else now < h_end g)).
  { intros i hp' r Hin.
    assert (Hhp : hp' = hp) by (rewrite Forall_forall in Hprio; exact (Hprio _ Hin)). subst hp'.
    destruct (Hask (ex_intro _ i (ex_intro _ hp (ex_intro _ r Hin)))) as (H1 & H2 & H3).
    destruct hp.
    - destruct H1 as (Hfcd & Hle). split; [|lia].
      destruct (Nat.eq_dec (m_rounds m) 0) as [E0|E0]; [exact E0|]. rewrite (Vr E0) in Hfcd. discriminate Hfcd.
    - split; lia. }
  (* first monitor: the fold over the calls *)
  assert (Hfold : snd (x_fold p n m s) = [] /\ m_out (fst (x_fold p n m s)) = c_out c1).
  { unfold x_fold. rewrite Hcalls, Hk0.
    apply (mon_calls_ok p n (kind_of (f_state f)) (x_now s) (m_rounds m) (tx o) calls c (x_m1 p m s) []).
    - rewrite <- Hts. exact Hacc.
    - exact Vout.
    - exact Hck.
    - intros i hp' r Hin. exact (proj1 (PF i hp' r Hin)). }
  destruct Hfold as (Hf1 & Hf2).
  (* second monitor: round robin *)
  assert (Hrr : y_rr n g s = (c_turn c1, c_decl c1, [])).
  { unfold y_rr. rewrite Hcalls. apply (rr_calls_ok p n (tx o) calls c); [rewrite <- Hts; exact Hacc|exact Vturn|exact Vdecl]. }
  assert (Hturn1 : y_turn1 n g s = c_turn c1) by (unfold y_turn1; rewrite Hrr; reflexivity).
  assert (Hdecl1 : y_decl1 n g s = c_decl c1) by (unfold y_decl1; rewrite Hrr; reflexivity).
  assert (He13 : y_e13 g s = []).
  { unfold y_e13. rewrite Hcalls. apply e13_ok. intros i hp' r Hin. exact (proj2 (PF i hp' r Hin)). }
  assert (Herr : y_e_rr n g s = []) by (unfold y_e_rr; rewrite Hrr; reflexivity).
  exists (cpost n c1 (HEnd now f')).
  unfold step1315.
  split; [exact Hf1|].
  (* what the end of the poll looks like, case by case *)
  destruct Hend as [Htk' Hi' Hturn' Hfcd1 Hfcd2 Haw' Hdl' Hltt' Htx
                   |Hco' Hturn' Hde' Hl' He' Hpass
                   |Hk' Hc0 Htx0 Hl' Hn' Hkf].
  - (* the visit goes on *)
    assert (Hv' : in_visit (kind_of (f_state f')) = true) by (eapply visit_tk_in_visit; exact Htk').
    assert (Htok : x_token_tx s = None /\ y_token_tx p s = None).
    { destruct (tx o) as [wire|] eqn:Etx.
      - destruct (Htx ltac:(discriminate)) as (cs & i & hp0 & wire' & er & Hcs & Hw). injection Hw as <-.
        destruct (app_wire_is_data _ _ _ _ _ _ _ _ _ _ _ _ _ E Hcs) as (h & pdu & Hdec).
        unfold x_token_tx, y_token_tx. rewrite (x_txt_tx s wire), (y_txt_tx s wire), Hdec by (cbn; exact Etx). split; reflexivity.
      - unfold x_token_tx, y_token_tx, x_txt, y_txt. cbn [s_tx s poll_event]. rewrite Etx. split; reflexivity. }
    destruct Htok as (Htx1 & Htx2).
    assert (Hsp1 : x_self_pass p m s = false) by (unfold x_self_pass; rewrite Htx1; apply andb_false_r).
    assert (Hsp2 : y_self_pass p m s = false) by (unfold y_self_pass; rewrite Htx2; apply andb_false_r).
    assert (Hnv1 : x_new_visit p m s = false).
    { unfold x_new_visit. rewrite Hk0, kind_in_visit, Hk0v, Hsp1. apply andb_false_r. }
    assert (Hnv2 : y_new_visit p m s = false).
    { unfold y_new_visit. rewrite Hyk0, kind_in_visit, Hk0v, Hsp2. apply andb_false_r. }
    assert (Hnoff : state_kind_eqb (kind_of (f_state f')) KOffline = false).
    { destruct (f_state f'); cbn in Hv'; try discriminate Hv'; reflexivity. }
    assert (Hpassed : y_passed p m s = false).
    { unfold y_passed. rewrite Hyk1, Hsp2. destruct (f_state f'); cbn in Hv'; try discriminate Hv'; reflexivity. }
    split.
    { unfold x_e15. rewrite Hk1. destruct (state_kind_eqb (kind_of (f_state f')) KAwaitDataResponse) eqn:Ea; [|reflexivity].
      rewrite Hf2. unfold inv_st in Hi'. destruct (f_state f'); try discriminate Ea. destruct Hi' as (-> & _). reflexivity. }
    split; [exact He13|]. split; [exact Herr|].
    split.
    { unfold y_e_end, y_in_vis. rewrite Hyk0, kind_in_visit, Hk0v, Hpassed, Hdecl1.
      destruct (Nat.ltb 0 n && Nat.eqb (c_decl c1) n) eqn:Ed; [|reflexivity]. exfalso.
      apply andb_prop in Ed. destruct Ed as (Ed1 & Ed2). apply Nat.ltb_lt in Ed1. apply Nat.eqb_eq in Ed2.
      unfold inv_st in Hi'. destruct (f_state f'); cbn in Hv'; try discriminate Hv'; destruct Hi' as (_ & Hvi);
        exact (visit_inv_not_all n _ _ _ Ed1 Hvi Ed2). }
    constructor.
    + exact Hinv'.
    + rewrite m_out_x_m3. unfold x_out. rewrite Hk1, Hf2. cbn [cpost c_out]. destruct (kind_of (f_state f')); reflexivity.
    + cbn [y_g' FdlOracle.r_turn cpost c_turn]. unfold y_turn2. rewrite Hyk1, Hturn1, Hnoff.
      destruct (kind_of (f_state f')); try reflexivity. discriminate Hnoff.
    + cbn [y_g' FdlOracle.r_decl cpost c_decl]. unfold y_decl2, y_in_vis. rewrite Hyk0, Hyk1, !kind_in_visit, Hv', Hk0v, Hsp2, Hdecl1.
      unfold c1. rewrite mcalls_kind, Hck, Hk0v. fold c1. cbn [andb negb].
      destruct (fresh_visit (f_state f')) eqn:Efr; [|reflexivity].
      unfold inv_st in Hi'. destruct (f_state f') as [ | | | |tk0 [fa0|] [|]| | | | | ]; try discriminate Efr.
      destruct Hi' as (_ & Hvi). cbn in Hvi. exact Hvi.
    + destruct Hltt' as [-> | ->]; lia.
    + intros Es'. rewrite Es' in Hv'. discriminate Hv'.
    + rewrite Htk'. rewrite m_tt_x_m3, m_prev_tt_x_m3, m_rounds_x_m3, Hnv1, Hk1, Hnoff.
      split; [exact Vtt|]. split; [lia|]. split.
      { cbn [y_g' h_end]. unfold y_hend. rewrite Hnv2, Hdl'. exact Vhe. }
      split; [rewrite Hdl'; exact Vdl|]. split; [|exact Haw'].
      unfold x_rounds, x_asked. rewrite Hcalls.
      destruct calls as [|x0 calls0] eqn:Ecalls; cbn [map].
      * intros Hr0. exact (Hfcd2 (Vr Hr0)).
      * rewrite <- Ecalls in *.
        destruct (existsb (fun c0 => match c0 with CallTransmit _ _ _ => true | _ => false end) (map (conv_call (tx o)) calls)) eqn:Eex.
        -- intros _. apply Hfcd1. apply existsb_exists in Eex. destruct Eex as (x & Hin & Hx).
           apply in_map_iff in Hin. destruct Hin as (y & <- & Hin). destruct y as [i hp0 r| |]; cbn in Hx; try discriminate Hx.
           exists i, hp0, r. exact Hin.
        -- rewrite Ecalls in Eex. cbn [map] in Eex. rewrite Eex. intros Hr0. exact (Hfcd2 (Vr Hr0)).
  - (* the token is passed on in this poll *)
    assert (Hdeadline : Nat.eqb (c_decl c1) n || (h_end g <=? now) = true).
    { destruct Hde' as [Hd|Hd]; [rewrite Hd, Nat.eqb_refl; reflexivity|].
      replace (h_end g <=? now) with true by (symmetry; apply Z.leb_le; lia). apply orb_true_r. }
    assert (Hend_ok : y_passed p m s = true -> y_e_end p n m g s = []).
    { intros Hps. unfold y_e_end, y_in_vis. change (y_now s) with now. rewrite Hyk0, kind_in_visit, Hk0v, Hps, Hdecl1, Hdeadline.
      destruct (Nat.ltb 0 n && Nat.eqb (c_decl c1) n); reflexivity. }
    assert (Hcases : (in_visit (kind_of (f_state f')) = false /\ state_kind_eqb (kind_of (f_state f')) KUseToken = false /\
                      state_kind_eqb (kind_of (f_state f')) KOffline = false /\
                      state_kind_eqb (kind_of (f_state f')) KAwaitDataResponse = false /\
                      kind_in (kind_of (f_state f')) [KPassToken; KAwaitStatusResponse; KCheckTokenPass] = true) \/
                     (f_state f' = UseToken now None false /\ tx o = Some (encode_token (ts f) (ts f)))).
    { destruct Hpass as [(_ & S')|[(a & S' & _)|(T & S')]].
      - left. rewrite S'. repeat split; reflexivity.
      - left. rewrite S'. repeat split; reflexivity.
      - destruct (Z.eqb_spec (r_ns (f_ring f)) (ts f)) as [En|En].
        + right. split; [exact S'|]. rewrite T, En. reflexivity.
        + left. rewrite S'. repeat split; reflexivity. }
    destruct Hcases as [(Hv' & Hnu & Hnoff & Hnaw & Hpk)|(Es' & Etx)].
    + (* to another station, or the GAP request, or the synchronisation pause *)
      assert (Hnv1 : x_new_visit p m s = false) by (unfold x_new_visit; rewrite Hk1, Hnu; reflexivity).
      assert (Hnv2 : y_new_visit p m s = false) by (unfold y_new_visit; rewrite Hyk1, Hnu; reflexivity).
      assert (Hps : y_passed p m s = true) by (unfold y_passed; rewrite Hyk1, Hpk; reflexivity).
      split; [unfold x_e15; rewrite Hk1, Hnaw; reflexivity|].
      split; [exact He13|]. split; [exact Herr|]. split; [exact (Hend_ok Hps)|].
      assert (Hvt' : visit_tk (f_state f') = None) by (destruct (f_state f'); cbn in Hv'; try discriminate Hv'; reflexivity).
      constructor.
      * exact Hinv'.
      * rewrite m_out_x_m3. unfold x_out. rewrite Hk1, Hnaw. cbn [cpost c_out].
        destruct (kind_of (f_state f')); try reflexivity. discriminate Hnaw.
      * cbn [y_g' FdlOracle.r_turn cpost c_turn]. unfold y_turn2. rewrite Hyk1, Hturn1, Hnoff.
        destruct (kind_of (f_state f')); try reflexivity. discriminate Hnoff.
      * cbn [y_g' FdlOracle.r_decl cpost c_decl]. unfold y_decl2, y_in_vis. rewrite Hyk1, !kind_in_visit, Hv'. reflexivity.
      * lia.
      * intros Es'. rewrite Es' in Hnoff. discriminate Hnoff.
      * rewrite Hvt', m_tt_x_m3, Hnv1, Hk1, Hnoff. congruence.
    + (* to itself: the next visit begins *)
      assert (Hdec : decode_one (encode_token (ts f) (ts f)) = Some (TToken (ts f) (ts f))) by apply decode_one_token.
      assert (Hsp1 : x_self_pass p m s = true).
      { unfold x_self_pass, x_token_tx. rewrite (x_txt_tx s _ Etx), Hdec, Hk0, kind_in_visit, Hk0v.
        unfold x_ts. rewrite <- Hts, !Z.eqb_refl. reflexivity. }
      assert (Hsp2 : y_self_pass p m s = true).
      { unfold y_self_pass, y_token_tx. rewrite (y_txt_tx s _ Etx), Hdec, Hyk0, kind_in_visit, Hk0v.
        unfold y_ts. rewrite <- Hts, !Z.eqb_refl. cbn. rewrite ?Z.eqb_refl. reflexivity. }
      assert (Hnv1 : x_new_visit p m s = true) by (unfold x_new_visit; rewrite Hk1, Es', Hsp1; cbn; apply orb_true_r).
      assert (Hnv2 : y_new_visit p m s = true) by (unfold y_new_visit; rewrite Hyk1, Es', Hsp2; cbn; apply orb_true_r).
      assert (Hps : y_passed p m s = true) by (unfold y_passed; rewrite Hsp2; apply orb_true_r).
      split; [unfold x_e15; rewrite Hk1, Es'; reflexivity|].
      split; [exact He13|]. split; [exact Herr|]. split; [exact (Hend_ok Hps)|].
      constructor.
      * exact Hinv'.
      * rewrite m_out_x_m3. unfold x_out. rewrite Hk1, Es'. cbn [cpost c_out]. rewrite Es'. reflexivity.
      * cbn [y_g' FdlOracle.r_turn cpost c_turn]. unfold y_turn2. rewrite Hyk1, Hturn1, Es'. reflexivity.
      * cbn [y_g' FdlOracle.r_decl cpost c_decl]. unfold y_decl2, y_in_vis. rewrite Hyk0, Hyk1, !kind_in_visit, Hk0v, Hsp2, Es'.
        unfold c1. rewrite mcalls_kind, Hck, Hk0v. reflexivity.
      * lia.
      * intros C. rewrite Es' in C. discriminate C.
      * pose proof (fresh_visit_vis f' m g s now ltac:(congruence) Es' ltac:(lia) eq_refl eq_refl eq_refl Hnv1 Hnv2 ltac:(congruence)) as Hfv.
        exact Hfv.
  - (* the station gives the token up: it received something that is not the reply *)
    subst calls. change (mcalls n c []) with c in c1. subst c1.
    assert (Hv' : in_visit (kind_of (f_state f')) = false) by (rewrite Hk'; reflexivity).
    assert (Htok : x_token_tx s = None /\ y_token_tx p s = None).
    { unfold x_token_tx, y_token_tx, x_txt, y_txt. cbn [s_tx s poll_event]. rewrite Htx0. split; reflexivity. }
    destruct Htok as (Htx1 & Htx2).
    assert (Hsp2 : y_self_pass p m s = false) by (unfold y_self_pass; rewrite Htx2; apply andb_false_r).
    assert (Hnv1 : x_new_visit p m s = false) by (unfold x_new_visit; rewrite Hk1, Hk'; reflexivity).
    assert (Hnv2 : y_new_visit p m s = false) by (unfold y_new_visit; rewrite Hyk1, Hk'; reflexivity).
    assert (Hpassed : y_passed p m s = false) by (unfold y_passed; rewrite Hyk1, Hk', Hsp2; reflexivity).
    split; [unfold x_e15; rewrite Hk1, Hk'; reflexivity|].
    split; [exact He13|]. split; [exact Herr|].
    split.
    { unfold y_e_end, y_in_vis. rewrite Hyk0, kind_in_visit, Hk0v, Hpassed, Hdecl1.
      destruct (Nat.ltb 0 n && Nat.eqb (c_decl c) n) eqn:Ed; [|reflexivity]. exfalso.
      apply andb_prop in Ed. destruct Ed as (Ed1 & Ed2). apply Nat.ltb_lt in Ed1. apply Nat.eqb_eq in Ed2.
      destruct Vinv as (_ & _ & Hi). unfold inv_st in Hi.
      destruct (f_state f); try discriminate Hkf. destruct Hi as (_ & Hvi). exact (visit_inv_not_all n _ _ _ Ed1 Hvi Ed2). }
    assert (Hvt' : visit_tk (f_state f') = None) by (destruct (f_state f'); try discriminate Hk'; reflexivity).
    constructor.
    + exact Hinv'.
    + rewrite m_out_x_m3. unfold x_out. rewrite Hk1, Hk'. cbn [cpost c_out]. rewrite Hk'. reflexivity.
    + cbn [y_g' FdlOracle.r_turn cpost c_turn]. unfold y_turn2. rewrite Hyk1, Hturn1, Hk'. reflexivity.
    + cbn [y_g' FdlOracle.r_decl cpost c_decl]. unfold y_decl2, y_in_vis. rewrite Hyk1, Hk'. reflexivity.
    + lia.
    + intros Es'. rewrite Es' in Hk'. discriminate Hk'.
    + rewrite Hvt', m_tt_x_m3, Hnv1, Hk1, Hk'. cbn [state_kind_eqb]. rewrite Hl', (Vaw Hkf). exact Vtt.
Qed.

(* ---- API calls ---- *)

Lemma vi_api a f apps buf tl m g c f' :
  Base A p n f apps buf tl m -> VI f tl m g c -> api_result p a f = Ok f' ->
  exists c', VI f' tl (fst (mon_after_api a (view_of f') m g)) (snd (mon_after_api a (view_of f') m g)) c'.
Proof.
  intros HB [Vinv Vout Vturn Vdecl Vltt Voff Vvis] E.
  assert (Hnew : forall f1 v k, fdl_new p = Ok f1 -> VI f1 tl (mon_reset v k) mon2_reset cst_init).
  { intros f1 v k E1. pose proof (Inv_init n _ _ E1) as Hi.
    destruct (fdl_new_spec _ _ E1) as ((S1 & _ & _ & L1 & _) & _).
    constructor; try reflexivity; try exact Hi.
    - rewrite L1. exact (b_tl _ _ _ _ _ _ _ _ HB).
    - intros _. exact L1.
    - rewrite S1. cbn. symmetry. exact L1. }
  destruct a; cbn [api_result mon_after_api fst snd] in *.
  - exists cst_init. apply Hnew. exact E.
  - unfold set_online, set_state in E. injection E as <-. exists c. constructor; cbn; assumption.
  - unfold set_offline, set_state in E. rewrite (b_p _ _ _ _ _ _ _ _ HB) in E. exists cst_init. apply Hnew. exact E.
  - discriminate E.
Qed.

Definition J5 (f : fdl) (apps : list A) (buf : bytes) (tl : Z) (m : mon) (g : mon2) : Prop :=
  Base A p n f apps buf tl m /\ exists c, VI f tl m g c.

Lemma J5_poll f apps buf tl m g now busy nb f' o apps' calls :
  J5 f apps buf tl m g -> tl < now -> time_ok now -> all_bytes nb ->
  poll ops f now (mkPhyIn busy (buf ++ nb)) apps = Ok (f', o, apps', calls) ->
  (exists c', step1315 m g (poll_event now busy (buf ++ nb) f' o calls) f' now c') /\
  Base A p n f' apps' (rx_left o) now (fst (mon_poll p n m (poll_event now busy (buf ++ nb) f' o calls))).
Proof.
  intros (HB & c & HV) Hlt Hnow Hnb E. split.
  - destruct (visit_tk (f_state f)) as [tk|] eqn:Etk.
    + eapply visit_step_ok; eassumption.
    + eapply quiet_step; eassumption.
  - eapply base_poll; try eassumption. lia.
Qed.

End S5.

(* ------------------------------------------------------------------------------------------ *)
(* the theorems                                                                                *)

Section Theorems5.
Variable A : Type.
Variable ops : app_ops A.
Variable p : params.
Hypothesis Happs : apps_total A ops.
Hypothesis Hbv : builder_valid p.
Hypothesis Hdata : app_sends_data A ops.

Lemma J5_init n f0 apps : fdl_new p = Ok f0 -> length apps = n ->
  J5 A p n f0 apps [] 0 (mon_reset (view_of f0) 0) mon2_reset.
Proof.
  intros E Hn. split; [eapply base_init; eassumption|]. exists cst_init.
  pose proof (Inv_init n _ _ E) as Hi. destruct (fdl_new_spec _ _ E) as ((S1 & _ & _ & L1 & _) & _).
  constructor; try reflexivity; try exact Hi.
  - rewrite L1. lia.
  - intros _. exact L1.
  - rewrite S1. cbn. symmetry. exact L1.
Qed.

(* C13: no rule of C13 fires on a transcript of the model (no class of inputs excluded) *)
Theorem c13_oracle_sound (apps : list A) (ins : list minput) :
  ins_ok 0 ins ->
  forall k r, In (k, r) (monitor p (length apps) (model_transcript A ops p apps ins)) -> rule_prop r <> PC13.
Proof.
  intros Hok.
  apply (generic_sound_transcript A ops p (length apps) (fun r => rule_prop r <> PC13) (J5 A p (length apps)) (fun _ => True));
    try assumption; try reflexivity.
  - discriminate.
  - intros a f apps0 buf tl m g f' (HB & c & HV) E _. split; [eapply base_api; eassumption|].
    eapply vi_api; eassumption.
  - intros f apps0 buf tl m g now busy nb f' o apps' calls HJ Hlt Hnow Hnb E _.
    destruct (J5_poll A ops p (length apps) Happs Hbv Hdata _ _ _ _ _ _ _ _ _ _ _ _ _ HJ Hlt Hnow Hnb E)
      as ((c' & Hf & H15 & H13 & Hrr & Hend & HV') & HB').
    split; [|split; [|split; [exact HB'|exists c'; rewrite fst_mon_poll, mon_poll2_eq; exact HV']]].
    + apply (mon_poll_errs_other PC13); try discriminate. rewrite Hf. apply onlyp_nil.
    + apply (mon_poll2_errs_other PC13); try discriminate; [intros _; exact H13|apply y_e_live_other; discriminate].
  - intros f0 apps0 E Hn _. apply J5_init; assumption.
  - unfold transcript_ok. destruct (fdl_new p); [split; [exact I|apply run_ok_true]|exact I|exact I].
Qed.

(* C15: no rule of C15 fires, except possibly the liveness rule R15_no_reply_no_timeout (not covered here) *)
Theorem c15_oracle_sound_partial (apps : list A) (ins : list minput) :
  ins_ok 0 ins ->
  forall k r, In (k, r) (monitor p (length apps) (model_transcript A ops p apps ins)) ->
  rule_prop r = PC15 -> r = R15_no_reply_no_timeout.
Proof.
  intros Hok.
  apply (generic_sound_transcript A ops p (length apps) (fun r => rule_prop r = PC15 -> r = R15_no_reply_no_timeout)
           (J5 A p (length apps)) (fun _ => True)); try assumption; try reflexivity.
  - discriminate.
  - intros a f apps0 buf tl m g f' (HB & c & HV) E _. split; [eapply base_api; eassumption|].
    eapply vi_api; eassumption.
  - intros f apps0 buf tl m g now busy nb f' o apps' calls HJ Hlt Hnow Hnb E _.
    destruct (J5_poll A ops p (length apps) Happs Hbv Hdata _ _ _ _ _ _ _ _ _ _ _ _ _ HJ Hlt Hnow Hnb E)
      as ((c' & Hf & H15 & H13 & Hrr & Hend & HV') & HB').
    split; [|split; [|split; [exact HB'|exists c'; rewrite fst_mon_poll, mon_poll2_eq; exact HV']]].
    + intros r Hr Hp15. exfalso.
      assert (Ho : onlyp (is_not PC15) (snd (mon_poll p (length apps) m (poll_event now busy (buf ++ nb) f' o calls)))).
      { apply (mon_poll_errs_other PC15); try discriminate; [rewrite Hf; apply onlyp_nil|intros _; exact H15]. }
      exact (Ho r Hr Hp15).
    + intros r Hr Hp15. rewrite mon_poll2_eq in Hr. cbn [snd] in Hr.
      apply in_app_or in Hr; destruct Hr as [Hr|Hr]; [exfalso; pose proof (y_e_found_only _ _ _ _ r Hr) as C; rewrite Hp15 in C; discriminate C|].
      apply in_app_or in Hr; destruct Hr as [Hr|Hr]; [exfalso; pose proof (y_e_tok_only _ _ _ r Hr) as C; rewrite Hp15 in C; discriminate C|].
      apply in_app_or in Hr; destruct Hr as [Hr|Hr]; [exfalso; pose proof (y_e_sweep_only _ _ _ _ r Hr) as C; rewrite Hp15 in C; discriminate C|].
      apply in_app_or in Hr; destruct Hr as [Hr|Hr]; [rewrite H13 in Hr; contradiction|].
      apply in_app_or in Hr; destruct Hr as [Hr|Hr]; [exfalso; pose proof (y_e_scan_only _ _ _ _ r Hr) as C; rewrite Hp15 in C; discriminate C|].
      apply in_app_or in Hr; destruct Hr as [Hr|Hr]; [rewrite Hrr in Hr; contradiction|].
      apply in_app_or in Hr; destruct Hr as [Hr|Hr]; [rewrite Hend in Hr; contradiction|].
      apply in_app_or in Hr; destruct Hr as [Hr|Hr]; [|exfalso; pose proof (y_e_backoff_only _ _ _ _ r Hr) as C; rewrite Hp15 in C; discriminate C].
      (* the liveness group: the only C15 rule in it *)
      unfold y_e_live in Hr.
      destruct (y_quiet m g _ && y_expired p g _ && negb (y_acted m _)); [|contradiction].
      apply in_app_or in Hr; destruct Hr as [Hr|Hr].
      { destruct (y_waiting_c12 m); [destruct Hr as [<-|[]]; discriminate Hp15|contradiction]. }
      apply in_app_or in Hr; destruct Hr as [Hr|Hr].
      { destruct (state_kind_eqb _ _); [destruct Hr as [<-|[]]; discriminate Hp15|contradiction]. }
      destruct (state_kind_eqb _ _); [destruct Hr as [<-|[]]; reflexivity|contradiction].
  - intros f0 apps0 E Hn _. apply J5_init; assumption.
  - unfold transcript_ok. destruct (fdl_new p); [split; [exact I|apply run_ok_true]|exact I|exact I].
Qed.

End Theorems5.
