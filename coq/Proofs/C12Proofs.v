(* C12 - GAP maintenance polls exactly the own GAP and status replies are truthful.
   Proofs over Model/Fdl.v: complete case analyses ("specs") of the functions that take part in GAP
   maintenance and status replies, a classification of every transmission of a poll, and the
   theorems of DESIGN.md section 4 / C12 built on them. *)
From PB Require Import Common Tables FdlTables Telegram Phy TokenRing Params Fdl FdlProofs FdlStepProofs.
From PB Require C02Proofs LasRep LasOracle.

(* ------------------------------------------------------------------------------------------ *)
(* the telegrams the station sends by itself                                                     *)

Definition sr_wire (a t : Z) : bytes := encode (TData (status_request_header a t) []).
Definition reply_wire (da t : Z) (st : resp_state) : bytes :=
  encode (TData (status_response_header da t st status_reply_status) []).

Lemma encode_nosap da sa fc :
  encode_data_in tx_buffer_size (mkHeader da sa None None fc) [] = Ok (encode (TData (mkHeader da sa None None fc) [])).
Proof.
  unfold encode_data_in, serialize_data, tx_buffer_size.
  cbn -[fc_to_byte Z.lor sum8 Z.eqb].
  rewrite !Z.lor_0_r. change (SD1 =? SD2) with false. cbv iota.
  cbn -[fc_to_byte sum8]. rewrite !Z.add_0_r. reflexivity.
Qed.

Lemma encode_nosap_length da sa fc : length (encode (TData (mkHeader da sa None None fc) [])) = 6%nat.
Proof. reflexivity. Qed.

(* receive_all: an invariant that may be left only by the call that had is_last = true *)
Lemma receive_all_last_inv {S R : Type} (P : S -> Prop) (Q : S -> telegram -> Prop)
      (cb : S -> telegram -> bool -> res (S * R)) :
  (forall s t s' r, P s -> cb s t false = Ok (s', r) -> P s') ->
  (forall s t s' r, P s -> cb s t true = Ok (s', r) -> P s' \/ Q s' t) ->
  forall fuel s buf s' rest r, P s -> receive_all cb fuel s buf = Ok (s', rest, r) ->
  P s' \/ (exists pre suf t, buf = pre ++ suf /\ decode suf = Ok (Accept t (length suf)) /\ Q s' t /\ rest = []).
Proof.
  intros Hf Ht. induction fuel as [|fuel IH]; intros s buf s' rest r Hp H; [discriminate H|].
  cbn [receive_all] in H.
  destruct (decode buf) as [d| |] eqn:Ed; cbn [bind] in H; try discriminate H.
  destruct d as [ | |t n].
  - injection H as <- _ _. left. exact Hp.
  - injection H as <- _ _. left. exact Hp.
  - destruct (cb s t (Nat.eqb n (length buf))) as [[s1 r1]| |] eqn:E; cbn [bind] in H; try discriminate H.
    destruct (Nat.eqb_spec n (length buf)) as [En|En].
    + injection H as <- <- _. destruct (Ht _ _ _ _ Hp E) as [X|X]; [left; exact X|].
      right. exists [], buf, t. split; [reflexivity|]. split; [rewrite <- En; exact Ed|]. split; [exact X|].
      subst n. apply skipn_all.
    + pose proof (Hf _ _ _ _ Hp E) as Hp1.
      destruct (IH _ _ _ _ _ Hp1 H) as [X|[pre [suf [t' [Hb [Hd [Hq Hr]]]]]]]; [left; exact X|].
      right. exists (firstn n buf ++ pre), suf, t'. split; [|repeat split; assumption].
      rewrite <- app_assoc, <- Hb. symmetry. apply firstn_skipn.
Qed.

(* ------------------------------------------------------------------------------------------ *)
(* C12_sweep_bound: arithmetic of the GAP sweep                                                 *)

(* offset of x from TS on the circle of the addresses 0 .. HSA-1 *)
Definition off (t H x : Z) : Z := if t <=? x then x - t else x - t + H.
(* number of addresses in the GAP: those with offset 1 .. gap_size *)
Definition gap_size (t n H : Z) : Z := if n =? t then H - 1 else off t H n - 1.
Definition nxt (H c : Z) : Z := if c =? H - 1 then 0 else c + 1.

Lemma off_range t H x : 0 <= t < H -> 0 <= x < H -> 0 <= off t H x < H.
Proof. unfold off. intros. destruct (Z.leb_spec t x); lia. Qed.

Lemma off_inj t H x y : 0 <= t < H -> 0 <= x < H -> 0 <= y < H -> off t H x = off t H y -> x = y.
Proof. unfold off. intros. destruct (Z.leb_spec t x); destruct (Z.leb_spec t y); lia. Qed.

Lemma off_self t H : off t H t = 0.
Proof. unfold off. rewrite Z.leb_refl. lia. Qed.

Lemma nxt_range H c : 0 <= c < H -> 0 <= nxt H c < H.
Proof. unfold nxt. intros. destruct (Z.eqb_spec c (H - 1)); lia. Qed.

Lemma off_nxt t H c : 0 <= t < H -> 0 <= c < H ->
  off t H (nxt H c) = if off t H c =? H - 1 then 0 else off t H c + 1.
Proof.
  unfold off, nxt. intros Ht Hc.
  destruct (Z.eqb_spec c (H - 1)); destruct (Z.leb_spec t c);
    repeat match goal with |- context [?a <=? ?b] => destruct (Z.leb_spec a b) end;
    repeat match goal with |- context [?a =? ?b] => destruct (Z.eqb_spec a b) end; lia.
Qed.

Lemma gap_size_range t n H : 0 <= t < H -> 0 <= n < H -> 0 <= gap_size t n H <= H - 1.
Proof.
  unfold gap_size, off. intros. destruct (Z.eqb_spec n t); [lia|]. destruct (Z.leb_spec t n); lia.
Qed.

Lemma in_gapb_off t n H x : 0 <= t < H -> 0 <= n < H -> 0 <= x < H ->
  in_gapb t n x = (1 <=? off t H x) && (off t H x <=? gap_size t n H).
Proof.
  unfold in_gapb, gap_size, off. intros Ht Hn Hx.
  destruct (Z.ltb_spec t n); destruct (Z.eqb_spec n t); try lia;
    destruct (Z.leb_spec t x); destruct (Z.leb_spec t n); try lia;
    repeat match goal with |- context [?a <? ?b] => destruct (Z.ltb_spec a b) end;
    repeat match goal with |- context [?a <=? ?b] => destruct (Z.leb_spec a b) end; cbn; try reflexivity; lia.
Qed.

(* the GAP step of a visit as a pure function of (TS, NS, HSA, gap_wait_rotations) *)
Definition gnext (t n H c : Z) : gap_state :=
  if in_gapb t n (nxt H c) then GapDoPoll (nxt H c) else GapWaiting 0.
Definition gstep (t n H gw : Z) (g : gap_state) : gap_state :=
  match g with
  | GapWaiting rc => if gw <? rc then gnext t n H t else GapWaiting (rc + 1)
  | GapDoPoll c => gnext t n H c
  end.

Definition gap_wf (H gw : Z) (g : gap_state) : Prop :=
  match g with GapDoPoll c => 0 <= c < H | GapWaiting rc => 0 <= rc end.

(* number of visits until address a is polled *)
Definition visits_until (t n H gw a : Z) (g : gap_state) : Z :=
  let k := off t H a in
  let N := gap_size t n H + 1 in
  match g with
  | GapDoPoll c =>
      let j := off t H c in
      if j <? k then k - j else (if j <? N - 1 then N - j else 1) + (gw + 1) + k
  | GapWaiting rc => if gw <? rc then k else (gw + 1 - rc) + k
  end.

Lemma gnext_off t n H c : 0 <= t < H -> 0 <= n < H -> 0 <= c < H ->
  let j' := if off t H c =? H - 1 then 0 else off t H c + 1 in
  gnext t n H c = if (1 <=? j') && (j' <=? gap_size t n H) then GapDoPoll (nxt H c) else GapWaiting 0.
Proof.
  intros Ht Hn Hc. cbv zeta. unfold gnext.
  rewrite (in_gapb_off t n H (nxt H c) Ht Hn (nxt_range H c Hc)), (off_nxt t H c Ht Hc). reflexivity.
Qed.

Lemma gstep_wf t n H gw g : 0 <= t < H -> 0 <= n < H -> gap_wf H gw g -> gap_wf H gw (gstep t n H gw g).
Proof.
  intros Ht Hn Hw. unfold gstep, gnext. destruct g as [rc|c]; cbn in Hw.
  - destruct (gw <? rc); [|cbn; lia]. destruct (in_gapb _ _ _); cbn; [apply nxt_range; lia|lia].
  - destruct (in_gapb _ _ _); cbn; [apply nxt_range; lia|lia].
Qed.

(* the countdown: every visit brings the poll of a one visit nearer *)
Lemma visits_until_step t n H gw a g :
  0 <= t < H -> 0 <= n < H -> 0 <= gw -> 0 <= a < H -> in_gap t n a -> gap_wf H gw g ->
  1 <= visits_until t n H gw a g <= gap_size t n H + gw + 2 /\
  (visits_until t n H gw a g = 1 -> gstep t n H gw g = GapDoPoll a) /\
  (1 < visits_until t n H gw a g -> visits_until t n H gw a (gstep t n H gw g) = visits_until t n H gw a g - 1).
Proof.
  intros Ht Hn Hgw Ha Hin Hw.
  apply in_gapb_spec in Hin. rewrite (in_gapb_off t n H a Ht Hn Ha) in Hin.
  apply andb_true_iff in Hin. destruct Hin as [Hk1 Hk2]. apply Z.leb_le in Hk1. apply Z.leb_le in Hk2.
  pose proof (gap_size_range t n H Ht Hn) as Hgs.
  destruct g as [rc|c]; cbn in Hw.
  - (* Waiting *)
    unfold visits_until, gstep. destruct (Z.ltb_spec gw rc) as [Hrc|Hrc].
    + (* the sweep restarts at TS *)
      rewrite (gnext_off t n H t Ht Hn Ht). rewrite off_self.
      destruct (Z.eqb_spec 0 (H - 1)) as [E|E]; [lia|].
      replace ((1 <=? 0 + 1) && (0 + 1 <=? gap_size t n H)) with true
        by (symmetry; apply andb_true_iff; split; apply Z.leb_le; lia).
      split; [lia|]. split.
      * intros E1. f_equal. apply (off_inj t H); try assumption; [apply nxt_range; lia|].
        rewrite off_nxt, off_self by lia. destruct (Z.eqb_spec 0 (H - 1)); lia.
      * intros Hgt. cbv zeta. rewrite off_nxt, off_self by lia. destruct (Z.eqb_spec 0 (H - 1)); [lia|].
        destruct (Z.ltb_spec (0 + 1) (off t H a)); lia.
    + split; [lia|]. split; [intros; lia|]. intros _.
      destruct (Z.ltb_spec gw (rc + 1)); lia.
  - (* DoPoll *)
    pose proof (off_range t H c Ht Hw) as Hj.
    unfold visits_until, gstep. rewrite (gnext_off t n H c Ht Hn Hw). cbv zeta.
    destruct (Z.ltb_spec (off t H c) (off t H a)) as [Hlt|Hge].
    + destruct (Z.eqb_spec (off t H c) (H - 1)) as [E|E]; [lia|].
      replace ((1 <=? off t H c + 1) && (off t H c + 1 <=? gap_size t n H)) with true
        by (symmetry; apply andb_true_iff; split; apply Z.leb_le; lia).
      split; [lia|]. split.
      * intros E1. f_equal. apply (off_inj t H); try assumption; [apply nxt_range; lia|].
        rewrite off_nxt by lia. destruct (Z.eqb_spec (off t H c) (H - 1)); lia.
      * intros Hgt. rewrite off_nxt by lia. destruct (Z.eqb_spec (off t H c) (H - 1)); [lia|].
        destruct (Z.ltb_spec (off t H c + 1) (off t H a)); lia.
    + replace (gap_size t n H + 1 - 1) with (gap_size t n H) by lia.
      destruct (Z.ltb_spec (off t H c) (gap_size t n H)) as [Hin2|Hout].
      * destruct (Z.eqb_spec (off t H c) (H - 1)) as [E|E]; [lia|].
        replace ((1 <=? off t H c + 1) && (off t H c + 1 <=? gap_size t n H)) with true
          by (symmetry; apply andb_true_iff; split; apply Z.leb_le; lia).
        split; [lia|]. split; [intros; lia|]. intros _.
        rewrite off_nxt by lia. destruct (Z.eqb_spec (off t H c) (H - 1)); [lia|].
        destruct (Z.ltb_spec (off t H c + 1) (off t H a)); [lia|].
        replace (gap_size t n H + 1 - 1) with (gap_size t n H) by lia.
        destruct (Z.ltb_spec (off t H c + 1) (gap_size t n H)); lia.
      * replace ((1 <=? (if off t H c =? H - 1 then 0 else off t H c + 1)) &&
                 ((if off t H c =? H - 1 then 0 else off t H c + 1) <=? gap_size t n H)) with false.
        2:{ symmetry. destruct (Z.eqb_spec (off t H c) (H - 1)); [reflexivity|].
            apply andb_false_iff. right. apply Z.leb_gt. lia. }
        split; [lia|]. split; [intros; lia|]. intros _.
        destruct (Z.ltb_spec gw 0); lia.
Qed.

Fixpoint giter (t n H gw : Z) (g : gap_state) (m : nat) : list gap_state :=
  match m with O => [] | S m' => let g' := gstep t n H gw g in g' :: giter t n H gw g' m' end.

Lemma sweep_bound_pure t n H gw a : 0 <= t < H -> 0 <= n < H -> 0 <= gw -> 0 <= a < H -> in_gap t n a ->
  forall m g, gap_wf H gw g -> visits_until t n H gw a g = Z.of_nat (S m) ->
  exists l, giter t n H gw g (S m) = l ++ [GapDoPoll a].
Proof.
  intros Ht Hn Hgw Ha Hin. induction m as [|m IH]; intros g Hw Hv.
  - destruct (visits_until_step t n H gw a g Ht Hn Hgw Ha Hin Hw) as [_ [H1 _]].
    exists []. cbn [giter app]. rewrite H1 by lia. reflexivity.
  - destruct (visits_until_step t n H gw a g Ht Hn Hgw Ha Hin Hw) as [_ [_ H2]].
    destruct (IH (gstep t n H gw g) (gstep_wf _ _ _ _ _ Ht Hn Hw)) as [l Hl]; [rewrite H2; lia|].
    exists (gstep t n H gw g :: l). change (giter t n H gw g (S (S m))) with (gstep t n H gw g :: giter t n H gw (gstep t n H gw g) (S m)).
    rewrite Hl. reflexivity.
Qed.

(* ------------------------------------------------------------------------------------------ *)
(* set_next_station(a): a becomes NS, the LAS gets a and loses everything strictly between      *)

Lemma set_next_station_effect r a r' :
  length (r_las r) = 128%nat -> 0 <= r_ts r < 128 -> a <> r_ts r ->
  set_next_station r a = Ok r' ->
  0 <= a < 128 /\ r_ns r' = a /\ r_ts r' = r_ts r /\ r_state r' = r_state r /\ length (r_las r') = 128%nat /\
  (forall x, LasOracle.activeb (r_las r') x =
             (x =? r_ts r) || (((x =? a) || LasOracle.activeb (r_las r) x) && negb (in_gapb (r_ts r) a x))).
Proof.
  intros HL Ht Hne H.
  assert (Ha : 0 <= a < 128).
  { destruct (Z.lt_ge_cases a 0); [rewrite C02Proofs.set_next_station_panics in H by lia; discriminate H|].
    destruct (Z.lt_ge_cases a 128); [lia|rewrite C02Proofs.set_next_station_panics in H by lia; discriminate H]. }
  rewrite C02Proofs.set_next_station_ok in H by assumption. injection H as <-.
  set (r1 := mkRing (set_nth (r_las r) (Z.to_nat a) true) (r_state r) (r_ts r) (r_ns r) (r_ps r)).
  destruct (C02Proofs.upd_fields r1 (r_ts r) a) as [Hlas [Hst [Hts [Hns _]]]].
  assert (HL1 : length (r_las r1) = 128%nat) by (cbn; rewrite LasRep.set_nth_length; exact HL).
  assert (Hact : forall x, LasOracle.activeb (r_las (C02Proofs.upd r1 (r_ts r) a)) x =
             (x =? r_ts r) || (((x =? a) || LasOracle.activeb (r_las r) x) && negb (in_gapb (r_ts r) a x))).
  { intros x. rewrite Hlas, C02Proofs.activeb_las_after by (assumption || lia).
    cbn [r_las r1]. rewrite LasRep.activeb_set by lia.
    destruct (Z.eqb_spec x (r_ts r)) as [E|E]; [reflexivity|]. cbn [orb].
    assert (Hg : LasOracle.in_gapb (r_ts r) a x = in_gapb (r_ts r) a x).
    { unfold LasOracle.in_gapb, in_gapb. destruct (r_ts r <? a).
      - destruct (Z.leb_spec (r_ts r) x); destruct (Z.ltb_spec (r_ts r) x); try lia; reflexivity.
      - destruct (Z.leb_spec (r_ts r) x); destruct (Z.ltb_spec (r_ts r) x); try lia; reflexivity. }
    rewrite Hg. destruct (Z.eqb_spec x a); reflexivity. }
  split; [exact Ha|]. split; [|split; [exact Hts|split; [exact Hst|split; [|exact Hact]]]].
  - (* NS *)
    rewrite Hns, <- Hlas.
    set (las' := r_las (C02Proofs.upd r1 (r_ts r) a)) in *.
    pose proof (LasRep.next_of_spec (las_ones las') (r_ts r) (LasRep.las_ones_sorted las')) as Hspec.
    refine (LasRep.cyc_next_unique _ _ _ _ Hspec _).
    assert (Hin : forall x, In x (las_ones las') <-> LasOracle.activeb las' x = true) by (intros x; apply LasRep.In_las_ones).
    assert (Hina : In a (las_ones las')).
    { apply Hin. rewrite Hact. rewrite Z.eqb_refl. cbn [orb andb].
      unfold in_gapb. destruct (Z.ltb_spec (r_ts r) a).
      - destruct (Z.ltb_spec a a); [lia|]. rewrite andb_false_r. apply orb_true_r.
      - destruct (Z.ltb_spec (r_ts r) a); [lia|]. destruct (Z.ltb_spec a a); [lia|]. apply orb_true_r. }
    unfold LasOracle.cyc_next. destruct (las_ones las') as [|x0 rest] eqn:El; [contradiction Hina|].
    rewrite <- El in *. split; [exact Hina|].
    assert (Hout : forall x, In x (las_ones las') -> x = r_ts r \/ in_gapb (r_ts r) a x = false).
    { intros x Hx. apply Hin in Hx. rewrite Hact in Hx. apply orb_true_iff in Hx. destruct Hx as [Hx|Hx].
      - left. apply Z.eqb_eq. exact Hx.
      - right. apply andb_true_iff in Hx. destruct Hx as [_ Hx]. apply negb_true_iff. exact Hx. }
    destruct (Z.lt_ge_cases (r_ts r) a) as [Hlt|Hge].
    + left. split; [exact Hlt|]. intros x Hx Hgt. destruct (Hout x Hx) as [E|E]; [lia|].
      unfold in_gapb in E. destruct (Z.ltb_spec (r_ts r) a); [|lia].
      destruct (Z.ltb_spec (r_ts r) x); [|lia]. destruct (Z.ltb_spec x a); [discriminate E|lia].
    + right. split.
      * intros x Hx. destruct (Hout x Hx) as [E|E]; [lia|].
        unfold in_gapb in E. destruct (Z.ltb_spec (r_ts r) a); [lia|].
        destruct (Z.ltb_spec (r_ts r) x); [discriminate E|lia].
      * intros x Hx. destruct (Hout x Hx) as [E|E]; [lia|].
        unfold in_gapb in E. destruct (Z.ltb_spec (r_ts r) a); [lia|].
        destruct (Z.ltb_spec (r_ts r) x); [discriminate E|]. destruct (Z.ltb_spec x a); [discriminate E|lia].
  - rewrite Hlas, C02Proofs.las_after_length. exact HL1.
Qed.

(* ------------------------------------------------------------------------------------------ *)
(* C12_status_reply_in_slot: the arithmetic                                                     *)

(* a bit count as a time, rounded UP to whole microseconds (bits_to_time rounds down) *)
Definition bits_to_time_up (b : baudrate) (bits : Z) : Z := (bits * 1000000 + baud_to_rate b - 1) / baud_to_rate b.

Lemma baud_rate_pos b : 0 < baud_to_rate b.
Proof. destruct b; reflexivity. Qed.

Lemma bits_to_time_mono b n m : n <= m -> bits_to_time b n <= bits_to_time b m.
Proof. intros H. unfold bits_to_time. apply Z.div_le_mono; [apply baud_rate_pos|lia]. Qed.

(* For every parameter set the builder accepts: a poll period of at most a quarter of the slot time
   leaves room for two poll periods, the synchronisation pause (33 bit), the first byte of the reply
   (11 bit, rounded up) and one microsecond of rounding of the requester's own time stamp. *)
Lemma slot_time_covers_reply p P :
  builder_valid p -> 0 <= P -> 4 * P <= slot_time p ->
  2 * P + p_bits_to_time p sync_pause_bits + bits_to_time_up (p_baud p) bits_per_byte + 1 <= slot_time p.
Proof.
  intros [_ [[Hmin _] _]] HP H4.
  assert (Hs : bits_to_time (p_baud p) (min_slot_bits (p_baud p)) <= slot_time p)
    by (apply bits_to_time_mono; exact Hmin).
  unfold p_bits_to_time, bits_to_time_up in *. unfold bits_to_time in Hs |- *.
  destruct (p_baud p); vm_compute baud_to_rate in *; vm_compute min_slot_bits in Hs;
    change sync_pause_bits with 33; change bits_per_byte with 11;
    match goal with |- context [33 * 1000000 / ?r] => let v := eval vm_compute in (33 * 1000000 / r) in change (33 * 1000000 / r) with v end;
    match goal with |- context [(11 * 1000000 + ?r - 1) / ?r] => let v := eval vm_compute in ((11 * 1000000 + r - 1) / r) in change ((11 * 1000000 + r - 1) / r) with v end;
    match type of Hs with ?a <= _ => let v := eval vm_compute in a in change a with v in Hs end; lia.
Qed.

(* the silence time-out (6 + 2 * address slot times) is far away *)
Lemma token_lost_timeout_ge_slot p : builder_valid p -> slot_time p <= token_lost_timeout p.
Proof.
  intros [[Ha _] [[Hmin _] _]]. unfold slot_time, token_lost_timeout, p_bits_to_time.
  apply bits_to_time_mono.
  assert (0 <= p_slot_bits p) by (pose proof Hmin; destruct (p_baud p); cbn in *; lia).
  change token_lost_base with 6. change token_lost_per_addr with 2. nia.
Qed.

(* poll times: each at most P after the one before, starting after `prev` *)
Fixpoint spaced (prev P : Z) (times : list Z) : Prop :=
  match times with [] => True | t :: r => prev < t <= prev + P /\ spaced t P r end.

Lemma spaced_first_after prev P T waits tk :
  0 <= T -> 0 <= P -> spaced prev P (waits ++ [tk]) -> Forall (fun t => t <= prev + T) waits ->
  tk <= prev + T + P /\ Forall (fun t => prev < t) waits /\ prev < tk.
Proof.
  intros HT HP. revert prev T HT. induction waits as [|t r IH]; intros prev T HT Hs Hf.
  - cbn in Hs. split; [lia|]. split; [constructor|lia].
  - cbn [app spaced] in Hs. destruct Hs as [Ht Hs]. inversion Hf as [|? ? Hft Hfr]; subst.
    destruct (IH t (prev + T - t) ltac:(lia) Hs) as [I1 [I2 I3]].
    + apply Forall_forall. intros x Hx. rewrite Forall_forall in Hfr. specialize (Hfr x Hx). lia.
    + split; [lia|]. split; [|lia]. constructor; [lia|].
      apply Forall_forall. intros x Hx. rewrite Forall_forall in I2. specialize (I2 x Hx). lia.
Qed.

Section WithApps.
Variable A : Type.
Variable ops : app_ops A.
Notation W := (world A).

Definition sent (w : W) (wire : bytes) : W := mkWorld (w_rx w) (Some wire) (w_apps w) (w_calls w) (w_trace w).

Lemma phy_send_data_spec (w : W) da sa fc w' n :
  phy_send A w (TxData (mkHeader da sa None None fc) []) = Ok (w', n) ->
  w_tx w = None /\ n = 6%nat /\ w' = sent w (encode (TData (mkHeader da sa None None fc) [])).
Proof.
  unfold phy_send, transmit. rewrite encode_nosap. cbn [bind]. unfold phy_transmit.
  destruct (w_tx w); cbn [bind]; [discriminate|]. intros H. injection H as <- <-.
  split; [reflexivity|]. split; reflexivity.
Qed.

Lemma phy_send_token_spec (w : W) da sa w' n :
  phy_send A w (TxToken da sa) = Ok (w', n) ->
  w_tx w = None /\ n = 3%nat /\ w' = sent w (encode_token da sa).
Proof.
  unfold phy_send, transmit. change (Nat.ltb tx_buffer_size 3) with false. cbn [bind]. unfold phy_transmit.
  destruct (w_tx w); cbn [bind]; [discriminate|]. intros H. injection H as <- <-.
  split; [reflexivity|]. split; reflexivity.
Qed.

Lemma next_gap_poll_ext f1 f c : f_p f1 = f_p f -> f_ring f1 = f_ring f -> next_gap_poll f1 c = next_gap_poll f c.
Proof. intros Hp Hr. unfold next_gap_poll, ts. rewrite Hp, Hr. reflexivity. Qed.

Lemma in_gap_not_ns t n a : in_gap t n a -> a <> n.
Proof. unfold in_gap. intros [H1 H2] ->. destruct (Z.lt_ge_cases t n) as [H|H]; [specialize (H1 H)|specialize (H2 H)]; lia. Qed.

(* ------------------------------------------------------------------------------------------ *)
(* transmit_gap_poll_if_pending, with the wire                                                  *)

Lemma transmit_gap_poll_wire f now (w : W) f' w' polled :
  transmit_gap_poll_if_pending A f now w = Ok (f', w', polled) ->
  same_but_lba f f' /\
  match polled with
  | Some a => f_gap f = GapDoPoll a /\ a <> ts f /\ w_tx w = None /\ w' = sent w (sr_wire a (ts f))
  | None => (exists n, f_gap f = GapWaiting n) /\ w' = w /\ f' = f
  end.
Proof.
  unfold transmit_gap_poll_if_pending. destruct (f_gap f) as [n|cur] eqn:Eg.
  - intros H. injection H as <- <- <-. split; [apply same_but_lba_refl|]. split; [exists n; reflexivity|]. split; reflexivity.
  - destruct (Z.eqb_spec cur (ts f)) as [E|E]; [discriminate|].
    unfold status_request_header.
    destruct (phy_send A w _) as [[w1 n]| |] eqn:Ep; cbn [bind]; try discriminate.
    destruct (mark_tx f now n) as [f1| |] eqn:Em; cbn [bind]; try discriminate.
    intros H. injection H as <- <- <-. apply mark_tx_same in Em. apply phy_send_data_spec in Ep.
    destruct Ep as [Hn [_ ->]].
    split; [exact Em|]. split; [reflexivity|]. split; [exact E|]. split; [exact Hn|reflexivity].
Qed.

(* ------------------------------------------------------------------------------------------ *)
(* await_gap_poll_response: complete case analysis                                              *)

Definition is_reply_from (tsa a : Z) (t : telegram) : Prop :=
  exists h pdu st s, t = TData h pdu /\ h_fc h = FcResponse st s /\ h_sa h = a /\ h_da h = tsa.

(* what the code accepts as "a master that wants to be / is in the ring": status Ok and state
   "master ready to enter the ring" (MasterWithoutToken) or "master in ring" *)
Definition is_master_ready_reply (tsa a : Z) (t : telegram) : Prop :=
  exists h pdu st, t = TData h pdu /\ h_fc h = FcResponse st StOk /\
    (st = RsMasterWithoutToken \/ st = RsMasterInRing) /\ h_sa h = a /\ h_da h = tsa.

Lemma resp_status_eqb_ok s : resp_status_eqb s gap_reply_status = true <-> s = StOk.
Proof. destruct s; split; intros H; try reflexivity; try discriminate H. Qed.

Lemma gap_master_spec st : gap_reply_state_is_master st = true <-> (st = RsMasterWithoutToken \/ st = RsMasterInRing).
Proof. destruct st; split; intros H; try discriminate H; try reflexivity; try (destruct H as [H|H]; discriminate H); tauto. Qed.

Lemma await_gap_spec f now (w : W) pa f' w' r :
  await_gap_poll_response A f now w pa = Ok (f', w', r) ->
  pa <> ts f /\ f_gap f = GapDoPoll pa /\
  f_p f' = f_p f /\ f_gap f' = f_gap f /\ f_state f' = f_state f /\ f_conn f' = f_conn f /\
  f_last_token_time f' = f_last_token_time f /\ f_end_tht f' = f_end_tht f /\ f_next_app f' = f_next_app f /\
  w_tx w' = w_tx w /\ w_calls w' = w_calls w /\ w_apps w' = w_apps w /\
  exists rest received, receive_telegram (fun t => t) (w_rx w) = Ok (rest, received) /\ w_rx w' = rest /\
  ( (r = GprStationResponded /\ exists t, received = Some t /\ is_reply_from (ts f) pa t /\
       ((is_master_ready_reply (ts f) pa t /\ set_next_station (f_ring f) pa = Ok (f_ring f')) \/
        (~ is_master_ready_reply (ts f) pa t /\ f_ring f' = f_ring f)))
  \/ (r = GprUnexpectedTelegram /\ exists t, received = Some t /\ ~ is_reply_from (ts f) pa t /\ f_ring f' = f_ring f)
  \/ (received = None /\ f_ring f' = f_ring f /\ (r = GprNoResponse \/ r = GprWaiting)) ).
Proof.
  unfold await_gap_poll_response. intros H.
  destruct (Z.eqb_spec pa (ts f)) as [E|Ene]; [discriminate H|].
  destruct (f_gap f) as [n|c] eqn:Eg; cbn [negb] in H; [discriminate H|].
  destruct (Z.eqb_spec c pa) as [Ec|Ec]; cbn [negb] in H; [|discriminate H]. subst c.
  split; [exact Ene|]. split; [reflexivity|].
  destruct (receive_telegram (fun t => t) (w_rx w)) as [[rest received]| |] eqn:Er; cbn [bind] in H; try discriminate H.
  destruct received as [t|].
  - destruct (mark_rx_frame f now) as [Mp [Mr [Mg [Ms [Mc [Me [Mn Ml]]]]]]].
    assert (Hts : ts (mark_rx f now) = ts f) by (unfold ts; rewrite Mp; reflexivity).
    assert (Hun : forall tg, (f', w', r) = (mark_rx f now, note A (set_rx A w rest) tg, GprUnexpectedTelegram) ->
              ~ is_reply_from (ts f) pa t ->
              f_p f' = f_p f /\ f_gap f' = GapDoPoll pa /\ f_state f' = f_state f /\ f_conn f' = f_conn f /\
              f_last_token_time f' = f_last_token_time f /\ f_end_tht f' = f_end_tht f /\ f_next_app f' = f_next_app f /\
              w_tx w' = w_tx w /\ w_calls w' = w_calls w /\ w_apps w' = w_apps w /\
              exists rest0 received, Ok (rest, Some t) = Ok (rest0, received) /\ w_rx w' = rest0 /\
              ( (r = GprStationResponded /\ exists t0, received = Some t0 /\ is_reply_from (ts f) pa t0 /\
                   ((is_master_ready_reply (ts f) pa t0 /\ set_next_station (f_ring f) pa = Ok (f_ring f')) \/
                    (~ is_master_ready_reply (ts f) pa t0 /\ f_ring f' = f_ring f)))
              \/ (r = GprUnexpectedTelegram /\ exists t0, received = Some t0 /\ ~ is_reply_from (ts f) pa t0 /\ f_ring f' = f_ring f)
              \/ (received = None /\ f_ring f' = f_ring f /\ (r = GprNoResponse \/ r = GprWaiting)) )).
    { intros tg Heq Hno. injection Heq as -> -> ->. cbn. rewrite Mp, Mg, Ms, Mc, Me, Mn, Ml, Eg.
      repeat (split; [reflexivity|]). exists rest, (Some t). split; [reflexivity|]. split; [reflexivity|].
      right. left. split; [reflexivity|]. exists t. split; [reflexivity|]. split; [exact Hno|exact Mr]. }
    destruct t as [[da sa dsap ssap fc] pdu|da sa|].
    + destruct fc as [fb rq|st status].
      * injection H as <- <- <-. apply (Hun TGapUnexpected eq_refl).
        intros [h [pdu' [st [s [Ht [Hfc _]]]]]]. injection Ht as <- _. discriminate Hfc.
      * rewrite Hts in H.
        destruct (Z.eqb_spec sa pa) as [Esa|Esa]; cbn [andb] in H.
        -- destruct (Z.eqb_spec da (ts f)) as [Eda|Eda].
           ++ assert (Hfrom : is_reply_from (ts f) pa (TData (mkHeader da sa dsap ssap (FcResponse st status)) pdu)).
              { eexists; eexists; eexists; eexists. split; [reflexivity|]. cbn. split; [reflexivity|]. split; assumption. }
              destruct (resp_status_eqb status gap_reply_status && gap_reply_state_is_master st) eqn:Em.
              ** apply andb_true_iff in Em. destruct Em as [E1 E2]. apply resp_status_eqb_ok in E1. apply gap_master_spec in E2.
                 rewrite Mr in H.
                 destruct (set_next_station (f_ring f) pa) as [r'| |] eqn:Es; cbn [bind] in H; try discriminate H.
                 injection H as <- <- <-. cbn. rewrite Mp, Mg, Ms, Mc, Me, Mn, Ml, Eg.
                 repeat (split; [reflexivity|]). eexists; eexists. split; [reflexivity|]. split; [reflexivity|].
                 left. split; [reflexivity|]. eexists. split; [reflexivity|]. split; [exact Hfrom|]. left.
                 split; [|reflexivity]. subst status. eexists; eexists; eexists. split; [reflexivity|]. cbn.
                 split; [reflexivity|]. split; [exact E2|]. split; assumption.
              ** injection H as <- <- <-. cbn. rewrite Mp, Mg, Ms, Mc, Me, Mn, Ml, Eg.
                 repeat (split; [reflexivity|]). eexists; eexists. split; [reflexivity|]. split; [reflexivity|].
                 left. split; [reflexivity|]. eexists. split; [reflexivity|]. split; [exact Hfrom|]. right.
                 split; [|exact Mr]. intros [h [pdu' [st' [Ht [Hfc [Hst _]]]]]]. injection Ht as <- _. cbn in Hfc. injection Hfc as Ha Hb. subst st' status.
                 apply gap_master_spec in Hst. rewrite Hst in Em. cbn in Em. discriminate Em.
           ++ injection H as <- <- <-. apply (Hun TGapUnexpected eq_refl).
              intros [h [pdu' [st' [s [Ht [_ [_ Hd]]]]]]]. injection Ht as <- _. cbn in Hd. contradiction.
        -- injection H as <- <- <-. apply (Hun TGapUnexpected eq_refl).
           intros [h [pdu' [st' [s [Ht [_ [Hs _]]]]]]]. injection Ht as <- _. cbn in Hs. contradiction.
    + injection H as <- <- <-. apply (Hun TGapUnexpected eq_refl).
      intros [h [pdu' [st' [s [Ht _]]]]]. discriminate Ht.
    + injection H as <- <- <-. apply (Hun TGapUnexpected eq_refl).
      intros [h [pdu' [st' [s [Ht _]]]]]. discriminate Ht.
  - destruct (check_slot_expired _ now) as [[f1 expired]| |] eqn:Ec; cbn [bind] in H; try discriminate H.
    apply check_slot_expired_same in Ec. destruct Ec as [Hp [Hr [Hc [Hg [Hs [_ [Hl [He Hn]]]]]]]]. cbn in Hp, Hr, Hc, Hg, Hs, Hl, He, Hn.
    assert (Hw : forall w0 : W, w_tx (set_rx A (if Nat.ltb (length rest) (length (w_rx w)) then note A w TGapRxDiscard else w) rest) = w_tx w /\
                 w_calls (set_rx A (if Nat.ltb (length rest) (length (w_rx w)) then note A w TGapRxDiscard else w) rest) = w_calls w /\
                 w_apps (set_rx A (if Nat.ltb (length rest) (length (w_rx w)) then note A w TGapRxDiscard else w) rest) = w_apps w).
    { intros _. destruct (Nat.ltb _ _); cbn; repeat split; reflexivity. }
    destruct (Hw w) as [Hw1 [Hw2 Hw3]].
    destruct expired; injection H as <- <- <-; cbn [note w_tx w_calls w_apps w_rx]; rewrite Hp, Hg, Hs, Hc, Hl, He, Hn, Eg;
      cbn [set_rx w_tx w_calls w_apps w_rx] in *; rewrite ?Hw1, ?Hw2, ?Hw3;
      repeat (split; [reflexivity|]); (exists rest, None; split; [reflexivity|]; split; [reflexivity|]; right; right; split; [reflexivity|]; split; [exact Hr|]); [left|right]; reflexivity.
Qed.

(* the GAP step of one token visit: exactly the `if do_gap` block of do_pass_token *)
Definition gap_visit_step (f : fdl) : res gap_state :=
  match f_gap f with
  | GapWaiting rc =>
      if p_gap_wait (f_p f) <? rc then next_gap_poll f (ts f)
      else let* rc' := u8_add rc 1 in Ok (GapWaiting rc')
  | GapDoPoll cur => next_gap_poll f cur
  end.

Lemma gap_visit_step_ext f1 f : f_p f1 = f_p f -> f_ring f1 = f_ring f -> f_gap f1 = f_gap f ->
  gap_visit_step f1 = gap_visit_step f.
Proof.
  intros Hp Hr Hg. unfold gap_visit_step. rewrite Hg, Hp. unfold ts. rewrite Hp.
  destruct (f_gap f); [destruct (_ <? _)|]; try reflexivity; apply next_gap_poll_ext; assumption.
Qed.

(* ------------------------------------------------------------------------------------------ *)
(* the post-claim scan step                                                                     *)

Lemma scan_spec f now (w : W) f' w' st0 :
  do_claim_token_scan A f now w = Ok (f', w') -> f_state f = ClaimToken st0 ->
  f_p f' = f_p f /\ f_ring f' = f_ring f /\ f_conn f' = f_conn f /\
  w_calls w' = w_calls w /\ w_apps w' = w_apps w /\ w_rx w' = w_rx w /\
  ( (w_tx w' = w_tx w /\ f_state f' = f_state f /\ f_gap f' = f_gap f)
  \/ (w_tx w' = w_tx w /\ (exists n, f_gap f = GapWaiting n) /\ f_gap f' = f_gap f /\ f_state f' = PassToken false AttFirst)
  \/ (w_tx w' = w_tx w /\ exists cur, f_gap f = GapDoPoll cur /\ next_gap_poll f cur = Ok (GapWaiting 0) /\
        f_gap f' = GapWaiting 0 /\ f_state f' = f_state f)
  \/ (exists cur a, f_gap f = GapDoPoll cur /\ next_gap_poll f cur = Ok (GapDoPoll a) /\ f_gap f' = GapDoPoll a /\
        f_state f' = ClaimToken (StepScanAwaitResponse a) /\ w_tx w = None /\ w_tx w' = Some (sr_wire a (ts f))) ).
Proof.
  unfold do_claim_token_scan. intros H Es.
  destruct (wait_synchronization_pause f now) as [[f1 wait]| |] eqn:Ew; cbn [bind] in H; try discriminate H.
  apply wait_sync_same in Ew. destruct Ew as [[Hp1 [Hr1 [Hc1 [Hg1 [Hs1 _]]]]] _].
  destruct wait.
  - injection H as <- <-. cbn. repeat (split; [assumption || reflexivity|]). left. repeat split; assumption || reflexivity.
  - rewrite Hg1 in H. destruct (f_gap f) as [rc|cur] eqn:Eg.
    + match type of H with bind ?x _ = _ => destruct x as [[f2 w2]| |] eqn:Et end; cbn [bind] in H; try discriminate H.
      injection H as <- <-. apply trans_spec in Et. destruct Et as [s' [Ht [-> ->]]].
      rewrite Hs1, Es in Ht. cbn in Ht. injection Ht as <-. cbn.
      repeat (split; [assumption || reflexivity|]). right. left.
      split; [reflexivity|]. split; [exists rc; reflexivity|]. split; [exact Hg1|reflexivity].
    + destruct (next_gap_poll_traced A f1 w cur) as [[f2 w2]| |] eqn:En; cbn [bind] in H; try discriminate H.
      unfold next_gap_poll_traced in En.
      destruct (next_gap_poll f1 cur) as [g| |] eqn:Eng; cbn [bind] in En; try discriminate En.
      injection En as <- <-.
      rewrite (next_gap_poll_ext f1 f cur Hp1 Hr1) in Eng.
      destruct (transmit_gap_poll_if_pending A (set_gap f1 g) now _) as [[[f3 w3] polled]| |] eqn:Et; cbn [bind] in H; try discriminate H.
      apply transmit_gap_poll_wire in Et. destruct Et as [[Hp3 [Hr3 [Hc3 [Hg3 [Hs3 _]]]]] Hpol].
      cbn [set_gap f_p f_ring f_conn f_gap f_state] in Hp3, Hr3, Hc3, Hg3, Hs3.
      destruct polled as [pa|].
      * unfold set_claim_step in H. rewrite Hs3, Hs1, Es in H.
        cbn [get_claim_token_step bind] in H. injection H as <- <-.
        destruct Hpol as [Hgp [Hne [Hnone ->]]]. cbn in Hgp. rewrite Hgp in Hg3, Eng. cbn.
        rewrite Hp3, Hr3, Hc3, Hg3. repeat (split; [assumption || reflexivity|]).
        right. right. right. exists cur, pa. split; [reflexivity|]. split; [exact Eng|].
        split; [reflexivity|]. split; [reflexivity|]. split; [exact Hnone|]. unfold ts. cbn. rewrite Hp1. reflexivity.
      * injection H as <- <-. destruct Hpol as [[n Hn] [-> ->]]. cbn in Hn. rewrite Hn in Eng. cbn. rewrite Hn.
        repeat (split; [assumption || reflexivity|]). right. right. left.
        split; [reflexivity|]. exists cur. split; [reflexivity|].
        pose proof (next_gap_poll_waiting _ _ _ Eng) as ->.
        split; [exact Eng|]. split; [reflexivity|exact Hs1].
Qed.

(* ------------------------------------------------------------------------------------------ *)
(* do_claim_token                                                                               *)

Definition claim_next (s : claim_step) : claim_step :=
  match s with StepFirstToken => StepSecondToken | _ => StepScan end.

Lemma do_claim_token_spec f now (w : W) f' w' :
  do_claim_token A f now w = Ok (f', w') ->
  exists st0, f_state f = ClaimToken st0 /\
  f_p f' = f_p f /\ f_conn f' = f_conn f /\ w_calls w' = w_calls w /\ w_apps w' = w_apps w /\
  match st0 with
  | StepFirstToken | StepSecondToken =>
      w_rx w' = w_rx w /\
      ( (w_tx w' = w_tx w /\ f_state f' = f_state f /\ f_gap f' = f_gap f /\ f_ring f' = f_ring f)
      \/ (w_tx w = None /\ w_tx w' = Some (encode_token (ts f) (ts f)) /\ f_state f' = ClaimToken (claim_next st0) /\
          f_gap f' = GapDoPoll (ts f) /\ f_ring f' = claim_token (f_ring f)) )
  | StepScan =>
      f_ring f' = f_ring f /\ w_rx w' = w_rx w /\
      ( (w_tx w' = w_tx w /\ f_state f' = f_state f /\ f_gap f' = f_gap f)
      \/ (w_tx w' = w_tx w /\ (exists n, f_gap f = GapWaiting n) /\ f_gap f' = f_gap f /\ f_state f' = PassToken false AttFirst)
      \/ (w_tx w' = w_tx w /\ exists cur, f_gap f = GapDoPoll cur /\ next_gap_poll f cur = Ok (GapWaiting 0) /\
            f_gap f' = GapWaiting 0 /\ f_state f' = f_state f)
      \/ (exists cur a, f_gap f = GapDoPoll cur /\ next_gap_poll f cur = Ok (GapDoPoll a) /\ f_gap f' = GapDoPoll a /\
            f_state f' = ClaimToken (StepScanAwaitResponse a) /\ w_tx w = None /\ w_tx w' = Some (sr_wire a (ts f))) )
  | StepScanAwaitResponse a0 =>
      a0 <> ts f /\ f_gap f = GapDoPoll a0 /\
      exists rest received, receive_telegram (fun t => t) (w_rx w) = Ok (rest, received) /\ w_rx w' = rest /\
      ( (* still waiting *)
        (received = None /\ w_tx w' = w_tx w /\ f_state f' = f_state f /\ f_gap f' = f_gap f /\ f_ring f' = f_ring f)
      \/ (* a reply from the polled station: evaluated, the scan goes on with the next poll *)
        (exists t, received = Some t /\ is_reply_from (ts f) a0 t /\ w_tx w' = w_tx w /\
           f_state f' = ClaimToken StepScan /\ f_gap f' = f_gap f /\
           ((is_master_ready_reply (ts f) a0 t /\ set_next_station (f_ring f) a0 = Ok (f_ring f')) \/
            (~ is_master_ready_reply (ts f) a0 t /\ f_ring f' = f_ring f)))
      \/ (* anything else: the token is given up *)
        (exists t, received = Some t /\ ~ is_reply_from (ts f) a0 t /\ w_tx w' = w_tx w /\
           f_state f' = ActiveIdle None None 0 /\ f_gap f' = f_gap f /\ f_ring f' = f_ring f)
      \/ (* slot time over: the next address is polled at once, or the sweep ends *)
        (received = None /\ f_ring f' = f_ring f /\
         ( (w_tx w' = w_tx w /\ f_state f' = ClaimToken StepScan /\ f_gap f' = f_gap f)
         \/ (w_tx w' = w_tx w /\ next_gap_poll f a0 = Ok (GapWaiting 0) /\ f_gap f' = GapWaiting 0 /\ f_state f' = ClaimToken StepScan)
         \/ (exists a, next_gap_poll f a0 = Ok (GapDoPoll a) /\ f_gap f' = GapDoPoll a /\
               f_state f' = ClaimToken (StepScanAwaitResponse a) /\ w_tx w = None /\ w_tx w' = Some (sr_wire a (ts f))) )) )
  end.
Proof.
  unfold do_claim_token, assert_entry. intros H.
  destruct (f_state f) as [ | | | | |step| | | | ] eqn:Es; cbn [kind_of do_fn_entry state_kind_eqb bind get_claim_token_step] in H; try discriminate H.
  exists step. split; [reflexivity|].
  assert (Htok : forall st1, (st1 = StepFirstToken \/ st1 = StepSecondToken) -> step = st1 ->
    (let* (f0, wait) := wait_synchronization_pause f now in
     if wait then Ok (f0, note A w TSyncWait)
     else let* (w0, n) := phy_send A w (TxToken (ts f0) (ts f0)) in
          let f1 := set_ring f0 (claim_token (f_ring f0)) in
          let* f2 := set_claim_step f1 (claim_next st1) in
          let f3 := set_gap f2 (GapDoPoll (ts f2)) in
          let* f4 := mark_tx f3 now n in Ok (f4, note A w0 TClaimSendToken)) = Ok (f', w') ->
    f_p f' = f_p f /\ f_conn f' = f_conn f /\ w_calls w' = w_calls w /\ w_apps w' = w_apps w /\
    w_rx w' = w_rx w /\
      ( (w_tx w' = w_tx w /\ f_state f' = f_state f /\ f_gap f' = f_gap f /\ f_ring f' = f_ring f)
      \/ (w_tx w = None /\ w_tx w' = Some (encode_token (ts f) (ts f)) /\ f_state f' = ClaimToken (claim_next st1) /\
          f_gap f' = GapDoPoll (ts f) /\ f_ring f' = claim_token (f_ring f)) )).
  { intros st1 _ -> H1.
    destruct (wait_synchronization_pause f now) as [[f1 wait]| |] eqn:Ew; cbn [bind] in H1; try discriminate H1.
    apply wait_sync_same in Ew. destruct Ew as [[Hp1 [Hr1 [Hc1 [Hg1 [Hs1 _]]]]] _].
    destruct wait.
    - injection H1 as <- <-. cbn. repeat (split; [assumption || reflexivity|]). left. repeat split; assumption.
    - destruct (phy_send A w _) as [[w1 n]| |] eqn:Ep; cbn [bind] in H1; try discriminate H1.
      apply phy_send_token_spec in Ep. destruct Ep as [Hn [_ ->]].
      unfold set_claim_step in H1. cbn [set_ring f_state] in H1. rewrite Hs1, Es in H1. cbn [get_claim_token_step bind] in H1.
      destruct (mark_tx _ now n) as [f2| |] eqn:Em; cbn [bind] in H1; try discriminate H1.
      injection H1 as <- <-. apply mark_tx_same in Em. destruct Em as [Hp2 [Hr2 [Hc2 [Hg2 [Hs2 _]]]]].
      cbn in Hp2, Hr2, Hc2, Hg2, Hs2. cbn. rewrite Hp2, Hc2, Hs2, Hg2, Hr2.
      repeat (split; [assumption || reflexivity|]). right.
      unfold ts in *. cbn. rewrite Hp1, Hr1. repeat split; assumption || reflexivity. }
  destruct step as [ | | |a0].
  - rewrite <- Es. exact (Htok StepFirstToken (or_introl eq_refl) eq_refl H).
  - rewrite <- Es. exact (Htok StepSecondToken (or_intror eq_refl) eq_refl H).
  - rewrite <- Es. destruct (scan_spec f now w f' w' StepScan H Es) as [Hp [Hr [Hc [Hca [Hap [Hrx Hcases]]]]]].
    repeat (split; [assumption|]). exact Hcases.
  - destruct (await_gap_poll_response A f now w a0) as [[[f1 w1] r]| |] eqn:Ea; cbn [bind] in H; try discriminate H.
    apply await_gap_spec in Ea. rewrite <- Es.
    destruct Ea as [Hne [Hg0 [Hp1 [Hg1 [Hs1 [Hc1 [_ [_ [_ [Htx1 [Hca1 [Hap1 [rest [received [Hrcv [Hrx1 Hcase]]]]]]]]]]]]]]]].
    assert (Hfr : forall P : Prop, P -> f_p f1 = f_p f -> P) by (intros; assumption).
    destruct Hcase as [[-> [t [-> [Hfrom Hm]]]]|[[-> [t [-> [Hnf Hr1]]]]|[-> [Hr1 [-> | ->]]]]].
    + (* responded *)
      unfold set_claim_step in H. rewrite Hs1, Es in H. cbn [get_claim_token_step bind] in H. injection H as <- <-. cbn.
      repeat (split; [assumption|]). exists rest, (Some t). split; [exact Hrcv|]. split; [exact Hrx1|].
      right. left. exists t. repeat (split; [assumption || reflexivity|]). exact Hm.
    + (* unexpected *)
      apply trans_spec in H. destruct H as [s' [Ht [-> ->]]]. rewrite Hs1, Es in Ht. cbn in Ht. injection Ht as <-. cbn.
      repeat (split; [assumption|]). exists rest, (Some t). split; [exact Hrcv|]. split; [exact Hrx1|].
      right. right. left. exists t. repeat (split; [assumption || reflexivity|]). exact Hr1.
    + (* no response: scan on *)
      unfold set_claim_step in H. rewrite Hs1, Es in H. cbn [get_claim_token_step bind] in H.
      destruct (scan_spec (set_st f1 (ClaimToken StepScan)) now w1 f' w' StepScan H eq_refl) as [Hp [Hr [Hc [Hca [Hap [Hrx Hcases]]]]]].
      cbn [set_st f_p f_ring f_conn f_gap f_state] in *.
      assert (Hngp : forall c, next_gap_poll (set_st f1 (ClaimToken StepScan)) c = next_gap_poll f c)
        by (intros c; apply next_gap_poll_ext; cbn; assumption).
      assert (Hts : ts (set_st f1 (ClaimToken StepScan)) = ts f) by (unfold ts; cbn; rewrite Hp1; reflexivity).
      rewrite Hp, Hc, Hca, Hap, Hp1, Hc1, Hca1, Hap1. repeat (split; [assumption || reflexivity|]).
      exists rest, None. split; [exact Hrcv|]. split; [rewrite Hrx; exact Hrx1|].
      right. right. right. split; [reflexivity|]. split; [rewrite Hr; exact Hr1|].
      destruct Hcases as [[T [S G]]|[[T [[n G0] _]]|[[T [cur [G0 [N [G S]]]]]|[cur [a [G0 [N [G [S [T0 T]]]]]]]]]].
      * left. rewrite T, S, G. repeat split; assumption || reflexivity.
      * rewrite Hg1, Hg0 in G0. discriminate G0.
      * right. left. rewrite Hg1, Hg0 in G0. injection G0 as <-. rewrite Hngp in N. rewrite T, S. repeat split; assumption || reflexivity.
      * right. right. rewrite Hg1, Hg0 in G0. injection G0 as <-. rewrite Hngp in N. rewrite Hts in T. exists a.
        rewrite <- Htx1. repeat split; assumption.
    + (* waiting *)
      injection H as <- <-.
      repeat (split; [assumption|]). exists rest, None. split; [exact Hrcv|]. split; [exact Hrx1|].
      left. repeat split; assumption || reflexivity.
Qed.

(* ------------------------------------------------------------------------------------------ *)
(* do_pass_token: complete case analysis                                                        *)

Definition token_passed (f f' : fdl) (now : Z) (att : attempt) : Prop :=
  witness (f_ring f) (ts f) (r_ns (f_ring f)) = Ok (f_ring f') /\
  ((r_ns (f_ring f') = ts f /\ f_state f' = UseToken now None false) \/
   (r_ns (f_ring f') <> ts f /\ f_state f' = CheckTokenPass att)).

Lemma do_pass_token_spec f now (w : W) f' w' :
  do_pass_token A f now w = Ok (f', w') ->
  exists dg att, f_state f = PassToken dg att /\
  f_p f' = f_p f /\ f_conn f' = f_conn f /\ w_calls w' = w_calls w /\ w_apps w' = w_apps w /\ w_rx w' = w_rx w /\
  ( (* synchronisation pause not over *)
    (w_tx w' = w_tx w /\ f_state f' = f_state f /\ f_gap f' = f_gap f /\ f_ring f' = f_ring f)
  \/ (* GAP request *)
    (dg = true /\ exists a, gap_visit_step f = Ok (GapDoPoll a) /\ f_gap f' = GapDoPoll a /\
       f_state f' = AwaitStatusResponse a /\ f_ring f' = f_ring f /\ w_tx w = None /\ w_tx w' = Some (sr_wire a (ts f)))
  \/ (* the token goes to NS *)
    ((if dg then exists n, gap_visit_step f = Ok (GapWaiting n) /\ f_gap f' = GapWaiting n else f_gap f' = f_gap f) /\
     w_tx w = None /\ w_tx w' = Some (encode_token (r_ns (f_ring f)) (ts f)) /\ token_passed f f' now att) ).
Proof.
  unfold do_pass_token, assert_entry. intros H.
  destruct (f_state f) as [ | | | | | | |dg att| | ] eqn:Es; cbn [kind_of do_fn_entry state_kind_eqb bind] in H; try discriminate H.
  exists dg, att. split; [reflexivity|]. rewrite <- Es.
  destruct (wait_synchronization_pause f now) as [[f1 wait]| |] eqn:Ew; cbn [bind] in H; try discriminate H.
  apply wait_sync_same in Ew. destruct Ew as [[Hp1 [Hr1 [Hc1 [Hg1 [Hs1 _]]]]] _].
  destruct wait.
  - injection H as <- <-. cbn. repeat (split; [assumption || reflexivity|]). left. repeat split; assumption.
  - rewrite Hs1, Es in H. cbn [get_pass_token bind] in H.
    (* the token tail, common to both values of do_gap *)
    assert (Htail : forall (f2 : fdl) (w2 : W),
      f_p f2 = f_p f -> f_ring f2 = f_ring f -> f_conn f2 = f_conn f -> f_state f2 = f_state f ->
      w_tx w2 = w_tx w -> w_calls w2 = w_calls w -> w_apps w2 = w_apps w -> w_rx w2 = w_rx w ->
      (let ns := r_ns (f_ring f2) in
       let* (w0, n) := phy_send A w2 (TxToken ns (ts f2)) in
       let* r := witness (f_ring f2) (ts f2) ns in
       let f0 := set_ring f2 r in
       let* (f3, w3) :=
         (if r_ns (f_ring f0) =? ts f0
          then trans A f0 (note A w0 TPassTokenToSelf) (fun s : state => transition_use_token s now None)
          else let* (_, attempt) := get_pass_token (f_state f0) in
               trans A f0 (note A w0 TPassToken) (fun s : state => transition_check_token_pass s attempt)) in
       let* f4 := mark_tx f3 now n in Ok (f4, w3)) = Ok (f', w') ->
      f_p f' = f_p f /\ f_conn f' = f_conn f /\ w_calls w' = w_calls w /\ w_apps w' = w_apps w /\ w_rx w' = w_rx w /\
      f_gap f' = f_gap f2 /\
      w_tx w = None /\ w_tx w' = Some (encode_token (r_ns (f_ring f)) (ts f)) /\ token_passed f f' now att).
    { intros f2 w2 Hp2 Hr2 Hc2 Hs2 Ht2 Hca2 Hap2 Hrx2 H2. cbv zeta in H2.
      assert (Hts2 : ts f2 = ts f) by (unfold ts; rewrite Hp2; reflexivity).
      rewrite Hts2, Hr2 in H2.
      destruct (phy_send A w2 _) as [[w3 n]| |] eqn:Ep; cbn [bind] in H2; try discriminate H2.
      apply phy_send_token_spec in Ep. destruct Ep as [Hn [_ ->]].
      destruct (witness (f_ring f) (ts f) (r_ns (f_ring f))) as [r| |] eqn:Ewi; cbn [bind] in H2; try discriminate H2.
      cbn [set_ring f_ring f_state] in H2.
      replace (ts (set_ring f2 r)) with (ts f) in H2 by (unfold ts; cbn; rewrite Hp2; reflexivity).
      match type of H2 with bind ?x _ = _ => destruct x as [[f3 w3]| |] eqn:Et end; cbn [bind] in H2; try discriminate H2.
      destruct (mark_tx f3 now n) as [f4| |] eqn:Em; cbn [bind] in H2; try discriminate H2.
      injection H2 as <- <-. apply mark_tx_same in Em. destruct Em as [Hp4 [Hr4 [Hc4 [Hg4 [Hs4 _]]]]].
      destruct (Z.eqb_spec (r_ns r) (ts f)) as [Ens|Ens].
      - apply trans_spec in Et. destruct Et as [s' [Htr [-> ->]]]. cbn in Htr. rewrite Hs2, Es in Htr. cbn in Htr. injection Htr as <-.
        cbn in Hp4, Hr4, Hc4, Hg4, Hs4. cbn. rewrite Hp4, Hc4, Hg4.
        repeat (split; [assumption || reflexivity|]). split; [rewrite <- Ht2; exact Hn|]. split; [reflexivity|].
        unfold token_passed. rewrite Hr4, Hs4. split; [exact Ewi|]. left. split; [exact Ens|reflexivity].
      - rewrite Hs2, Es in Et. cbn [get_pass_token bind] in Et.
        apply trans_spec in Et. destruct Et as [s' [Htr [-> ->]]]. cbn in Htr. rewrite Hs2, Es in Htr. cbn in Htr. injection Htr as <-.
        cbn in Hp4, Hr4, Hc4, Hg4, Hs4. cbn. rewrite Hp4, Hc4, Hg4.
        repeat (split; [assumption || reflexivity|]). split; [rewrite <- Ht2; exact Hn|]. split; [reflexivity|].
        unfold token_passed. rewrite Hr4, Hs4. split; [exact Ewi|]. right. split; [exact Ens|reflexivity]. }
    destruct dg.
    + (* do_gap = Yes *)
      match type of H with bind (bind ?r _) _ = _ => destruct r as [[f2 w2]| |] eqn:Eg end; cbn [bind] in H; try discriminate H.
      assert (Hf2 : gap_visit_step f = Ok (f_gap f2) /\ f_p f2 = f_p f /\ f_ring f2 = f_ring f /\ f_conn f2 = f_conn f /\
                    f_state f2 = f_state f /\ w_tx w2 = w_tx w /\ w_calls w2 = w_calls w /\ w_apps w2 = w_apps w /\ w_rx w2 = w_rx w).
      { rewrite <- (gap_visit_step_ext f1 f Hp1 Hr1 Hg1). unfold gap_visit_step.
        destruct (f_gap f1) as [rc|cur] eqn:Eg1.
        - destruct (p_gap_wait (f_p f1) <? rc).
          + unfold next_gap_poll_traced in Eg. destruct (next_gap_poll f1 (ts f1)) as [g| |]; cbn [bind] in Eg; try discriminate Eg.
            injection Eg as <- <-. cbn. repeat (split; [assumption || reflexivity|]). reflexivity.
          + destruct (u8_add rc 1) as [rc'| |]; cbn [bind] in Eg; try discriminate Eg.
            injection Eg as <- <-. cbn. repeat (split; [assumption || reflexivity|]). reflexivity.
        - unfold next_gap_poll_traced in Eg. destruct (next_gap_poll f1 cur) as [g| |]; cbn [bind] in Eg; try discriminate Eg.
          injection Eg as <- <-. cbn. repeat (split; [assumption || reflexivity|]). reflexivity. }
      destruct Hf2 as [Hstep [Hp2 [Hr2 [Hc2 [Hs2 [Ht2 [Hca2 [Hap2 Hrx2]]]]]]]].
      destruct (transmit_gap_poll_if_pending A f2 now w2) as [[[f3 w3] polled]| |] eqn:Et; cbn [bind] in H; try discriminate H.
      apply transmit_gap_poll_wire in Et. destruct Et as [[Hp3 [Hr3 [Hc3 [Hg3 [Hs3 _]]]]] Hpol].
      destruct polled as [pa|].
      * apply trans_spec in H. destruct H as [s' [Htr [-> ->]]].
        rewrite Hs3, Hs2, Es in Htr. cbn in Htr. injection Htr as <-.
        destruct Hpol as [Hgp [Hne [Hnone ->]]]. cbn.
        rewrite Hp3, Hc3, Hg3, Hr3, Hp2, Hc2, Hr2, Hgp. repeat (split; [assumption || reflexivity|]).
        right. left. split; [reflexivity|]. exists pa. rewrite Hgp in Hstep.
        split; [exact Hstep|]. split; [reflexivity|]. split; [reflexivity|]. split; [reflexivity|].
        split; [rewrite <- Ht2; exact Hnone|]. unfold ts. rewrite Hp2. reflexivity.
      * destruct Hpol as [[n Hn] [-> ->]].
        destruct (Htail f2 w2 Hp2 Hr2 Hc2 Hs2 Ht2 Hca2 Hap2 Hrx2 H) as [Q1 [Q2 [Q3 [Q4 [Q5 [Q6 [Q7 [Q8 Q9]]]]]]]].
        repeat (split; [assumption|]). right. right.
        split; [exists n; rewrite <- Hn; split; [exact Hstep|exact Q6]|]. repeat split; assumption || apply Q9.
    + (* do_gap = No *)
      cbn [bind] in H.
      destruct (Htail f1 w Hp1 Hr1 Hc1 Hs1 eq_refl eq_refl eq_refl eq_refl H) as [Q1 [Q2 [Q3 [Q4 [Q5 [Q6 [Q7 [Q8 Q9]]]]]]]].
      repeat (split; [assumption|]). right. right.
      split; [rewrite Q6; exact Hg1|]. repeat split; assumption || apply Q9.
Qed.

(* ------------------------------------------------------------------------------------------ *)
(* do_await_status_response                                                                     *)

Lemma do_await_status_response_spec f now (w : W) f' w' :
  do_await_status_response A f now w = Ok (f', w') ->
  exists a0, f_state f = AwaitStatusResponse a0 /\ a0 <> ts f /\ f_gap f = GapDoPoll a0 /\
  f_p f' = f_p f /\ f_conn f' = f_conn f /\ w_calls w' = w_calls w /\ w_apps w' = w_apps w /\ f_gap f' = f_gap f /\
  exists rest received, receive_telegram (fun t => t) (w_rx w) = Ok (rest, received) /\ w_rx w' = rest /\
  ( (* still waiting *)
    (received = None /\ w_tx w' = w_tx w /\ f_state f' = f_state f /\ f_ring f' = f_ring f)
  \/ (* a reply from the polled station *)
    (exists t, received = Some t /\ is_reply_from (ts f) a0 t /\ w_tx w' = w_tx w /\
       f_state f' = PassToken false AttFirst /\
       ((is_master_ready_reply (ts f) a0 t /\ set_next_station (f_ring f) a0 = Ok (f_ring f')) \/
        (~ is_master_ready_reply (ts f) a0 t /\ f_ring f' = f_ring f)))
  \/ (* anything else: the token is given up *)
    (exists t, received = Some t /\ ~ is_reply_from (ts f) a0 t /\ w_tx w' = w_tx w /\
       f_state f' = ActiveIdle None None 0 /\ f_ring f' = f_ring f)
  \/ (* slot time over: straight on to passing the token (or waiting for the pause) *)
    (received = None /\
     ( (w_tx w' = w_tx w /\ f_state f' = PassToken false AttFirst /\ f_ring f' = f_ring f)
     \/ (w_tx w = None /\ w_tx w' = Some (encode_token (r_ns (f_ring f)) (ts f)) /\
         witness (f_ring f) (ts f) (r_ns (f_ring f)) = Ok (f_ring f') /\
         ((r_ns (f_ring f') = ts f /\ f_state f' = UseToken now None false) \/
          (r_ns (f_ring f') <> ts f /\ f_state f' = CheckTokenPass AttFirst))) )) ).
Proof.
  unfold do_await_status_response, assert_entry. intros H.
  destruct (f_state f) as [ | | | | | | | | |a0] eqn:Es; cbn [kind_of do_fn_entry state_kind_eqb bind get_await_status_response_address] in H; try discriminate H.
  exists a0. split; [reflexivity|]. rewrite <- Es.
  destruct (await_gap_poll_response A f now w a0) as [[[f1 w1] r]| |] eqn:Ea; cbn [bind] in H; try discriminate H.
  apply await_gap_spec in Ea.
  destruct Ea as [Hne [Hg0 [Hp1 [Hg1 [Hs1 [Hc1 [_ [_ [_ [Htx1 [Hca1 [Hap1 [rest [received [Hrcv [Hrx1 Hcase]]]]]]]]]]]]]]]].
  split; [exact Hne|]. split; [exact Hg0|].
  destruct Hcase as [[-> [t [-> [Hfrom Hm]]]]|[[-> [t [-> [Hnf Hr1]]]]|[-> [Hr1 [-> | ->]]]]].
  - apply trans_spec in H. destruct H as [s' [Ht [-> ->]]]. rewrite Hs1, Es in Ht. cbn in Ht. injection Ht as <-. cbn.
    repeat (split; [assumption|]). exists rest, (Some t). split; [exact Hrcv|]. split; [exact Hrx1|].
    right. left. exists t. repeat (split; [assumption || reflexivity|]). exact Hm.
  - apply trans_spec in H. destruct H as [s' [Ht [-> ->]]]. rewrite Hs1, Es in Ht. cbn in Ht. injection Ht as <-. cbn.
    repeat (split; [assumption|]). exists rest, (Some t). split; [exact Hrcv|]. split; [exact Hrx1|].
    right. right. left. exists t. repeat (split; [assumption || reflexivity|]). exact Hr1.
  - match type of H with bind ?x _ = _ => destruct x as [[f2 w2]| |] eqn:Et end; cbn [bind] in H; try discriminate H.
    apply trans_spec in Et. destruct Et as [s' [Ht [-> ->]]]. rewrite Hs1, Es in Ht. cbn in Ht. injection Ht as <-.
    apply do_pass_token_spec in H. destruct H as [dg [att [Hst [Hp [Hc [Hca [Hap [Hrx Hcases]]]]]]]].
    cbn [set_st f_state f_p f_conn f_gap f_ring note w_calls w_apps w_rx w_tx] in *. injection Hst as <- <-.
    assert (Hts : ts (set_st f1 (PassToken false AttFirst)) = ts f) by (unfold ts; cbn; rewrite Hp1; reflexivity).
    rewrite Hp, Hc, Hca, Hap, Hp1, Hc1, Hca1, Hap1.
    assert (Hgf : f_gap f' = f_gap f).
    { destruct Hcases as [[_ [_ [G _]]]|[[D _]|[G _]]]; [rewrite G; exact Hg1|discriminate D|rewrite G; exact Hg1]. }
    repeat (split; [assumption || reflexivity|]).
    exists rest, None. split; [exact Hrcv|]. split; [rewrite Hrx; exact Hrx1|].
    right. right. right. split; [reflexivity|].
    destruct Hcases as [[T [S [_ R]]]|[[D _]|[_ [T0 [T [Wi St]]]]]].
    + left. rewrite T, S, R. repeat split; assumption || reflexivity.
    + discriminate D.
    + right. cbn [set_st f_ring] in Wi. rewrite Hts, Hr1 in *. rewrite <- Htx1. repeat split; assumption.
  - injection H as <- <-. repeat (split; [assumption|]).
    exists rest, None. split; [exact Hrcv|]. split; [exact Hrx1|]. left. repeat split; assumption || reflexivity.
Qed.

(* the pending status request of a listening / idle station *)
Definition marker (s : state) : option Z :=
  match s with ListenToken sr _ => sr | ActiveIdle sr _ _ => sr | _ => None end.

Definition is_status_request_to (tsa src : Z) (t : telegram) : Prop :=
  exists h pdu, t = TData h pdu /\ is_fdl_status_request h = true /\ h_da h = tsa /\ h_sa h = src.

(* the buffer ends with a status request src -> tsa (everything before it is consumed first) *)
Definition last_request (buf : bytes) (tsa src : Z) : Prop :=
  exists pre suf t, buf = pre ++ suf /\ decode suf = Ok (Accept t (length suf)) /\ is_status_request_to tsa src t.

(* ------------------------------------------------------------------------------------------ *)
(* handle_telegram                                                                              *)

Lemma handle_telegram_facts now f (w : W) t il f' w' :
  handle_telegram A now f w t il = Ok (f', w') ->
  f_p f' = f_p f /\ f_gap f' = f_gap f /\ f_conn f' = f_conn f /\
  w_tx w' = w_tx w /\ w_calls w' = w_calls w /\ w_apps w' = w_apps w /\ f_lba f' = f_lba f /\
  (forall src, marker (f_state f') = Some src ->
     marker (f_state f) = Some src \/ (il = true /\ is_status_request_to (ts f) src t)).
Proof.
  unfold handle_telegram. intros H.
  destruct (f_state f) as [ | |sr0 cc0|sr nps cc| | | | | | ] eqn:Es; cbn [negb kind_of state_kind_eqb] in H; try discriminate H.
  - injection H as <- <-. cbn. rewrite Es. repeat (split; [reflexivity|]). intros src Hm. left. exact Hm.
  - destruct t as [h pdu|da sa|].
    + destruct (is_fdl_status_request h && (h_da h =? ts f) && il) eqn:Ec.
      * cbn [get_active_idle bind] in H. injection H as <- <-. cbn. repeat (split; [reflexivity|]).
        intros src Hm. injection Hm as <-. right.
        apply andb_true_iff in Ec. destruct Ec as [Ec ->]. apply andb_true_iff in Ec. destruct Ec as [E1 E2]. apply Z.eqb_eq in E2.
        split; [reflexivity|]. exists h, pdu. repeat split; assumption.
      * injection H as <- <-. cbn. rewrite Es. repeat (split; [reflexivity|]). intros src Hm. left. exact Hm.
    + cbn [get_active_idle bind] in H.
      destruct (sa =? ts f).
      * destruct (u8_add cc 1) as [cc'| |]; cbn [bind] in H; try discriminate H.
        destruct (cc' =? active_idle_collision_tolerated).
        -- injection H as <- <-. cbn. repeat (split; [reflexivity|]). intros src Hm. left. exact Hm.
        -- apply trans_spec in H. destruct H as [s' [Ht [-> ->]]]. cbn in Ht. injection Ht as <-. cbn.
           repeat (split; [reflexivity|]). intros src Hm. discriminate Hm.
      * match type of H with (if ?c then _ else _) = _ => destruct c end.
        -- destruct (witness _ _ _) as [r| |]; cbn [bind] in H; try discriminate H. injection H as <- <-. cbn.
           repeat (split; [reflexivity|]). intros src Hm. left. exact Hm.
        -- match type of H with (if ?c then _ else _) = _ => destruct c end.
           ++ apply trans_spec in H. destruct H as [s' [Ht [-> ->]]]. cbn in Ht. injection Ht as <-. cbn.
              repeat (split; [reflexivity|]). intros src Hm. discriminate Hm.
           ++ destruct nps as [address|].
              ** destruct (address =? sa).
                 --- destruct (witness _ _ _) as [r| |]; cbn [bind] in H; try discriminate H.
                     apply trans_spec in H. destruct H as [s' [Ht [-> ->]]]. cbn in Ht. injection Ht as <-. cbn.
                     repeat (split; [reflexivity|]). intros src Hm. discriminate Hm.
                 --- injection H as <- <-. cbn. repeat (split; [reflexivity|]). intros src Hm. left. exact Hm.
              ** injection H as <- <-. cbn. repeat (split; [reflexivity|]). intros src Hm. left. exact Hm.
    + injection H as <- <-. cbn. rewrite Es. repeat (split; [reflexivity|]). intros src Hm. left. exact Hm.
Qed.

Lemma mark_rx_ts f now : ts (mark_rx f now) = ts f.
Proof. unfold ts. destruct (mark_rx_frame f now) as [-> _]. reflexivity. Qed.

Lemma active_idle_telegram_facts now (f : fdl) (w : W) t il f' w' u :
  active_idle_telegram A now (f, w) t il = Ok (f', w', u) ->
  f_p f' = f_p f /\ f_gap f' = f_gap f /\ f_conn f' = f_conn f /\
  w_tx w' = w_tx w /\ w_calls w' = w_calls w /\ w_apps w' = w_apps w /\ f_lba f' = f_lba (mark_rx f now) /\
  (forall src, marker (f_state f') = Some src ->
     marker (f_state f) = Some src \/ (il = true /\ is_status_request_to (ts f) src t)).
Proof.
  unfold active_idle_telegram. intros H.
  destruct (handle_telegram A now (mark_rx f now) w t il) as [[f1 w1]| |] eqn:Eh; cbn [bind] in H; try discriminate H.
  injection H as <- <- _. apply handle_telegram_facts in Eh.
  destruct (mark_rx_frame f now) as [Mp [Mr [Mg [Ms [Mc _]]]]]. rewrite mark_rx_ts, Mp, Mg, Mc, Ms in Eh. exact Eh.
Qed.

Lemma check_token_pass_telegram_facts now (f : fdl) (w : W) fi t il f' w' fi' u :
  check_token_pass_telegram A now (f, w, fi) t il = Ok (f', w', fi', u) ->
  f_p f' = f_p f /\ f_gap f' = f_gap f /\ f_conn f' = f_conn f /\
  w_tx w' = w_tx w /\ w_calls w' = w_calls w /\ w_apps w' = w_apps w /\ f_lba f' = f_lba (mark_rx f now) /\
  (forall src, marker (f_state f') = Some src ->
     marker (f_state f) = Some src \/ (il = true /\ is_status_request_to (ts f) src t)).
Proof.
  unfold check_token_pass_telegram. intros H.
  destruct (mark_rx_frame f now) as [Mp [Mr [Mg [Ms [Mc _]]]]].
  match type of H with bind ?x _ = _ => destruct x as [[f1 w1]| |] eqn:E1 end; cbn [bind] in H; try discriminate H.
  destruct (handle_telegram A now f1 w1 t il) as [[f2 w2]| |] eqn:Eh; cbn [bind] in H; try discriminate H.
  injection H as <- <- _ _. apply handle_telegram_facts in Eh.
  destruct Eh as [Hp [Hg [Hc [Ht [Hca [Hap [Hlb Hm]]]]]]].
  destruct fi.
  - apply trans_spec in E1. destruct E1 as [s' [Htr [-> ->]]].
    unfold transition_active_idle in Htr. destruct (assert_kind _ _); cbn [bind] in Htr; try discriminate Htr. injection Htr as <-.
    cbn in Hp, Hg, Hc, Ht, Hca, Hap, Hlb, Hm. rewrite Hp, Hg, Hc, Ht, Hca, Hap, Hlb, Mp, Mg, Mc.
    repeat (split; [reflexivity|]). intros src Hs. destruct (Hm src Hs) as [X|X]; [discriminate X|].
    right. unfold ts in *. cbn in X. rewrite Mp in X. exact X.
  - injection E1 as <- <-. rewrite Hp, Hg, Hc, Ht, Hca, Hap, Hlb, Mp, Mg, Mc.
    repeat (split; [reflexivity|]). intros src Hs. rewrite mark_rx_ts, Ms in Hm. exact (Hm src Hs).
Qed.

(* ------------------------------------------------------------------------------------------ *)
(* listen_token_telegram                                                                        *)

Lemma listen_token_telegram_lba now (f : fdl) (w : W) t il f' w' u :
  listen_token_telegram A now (f, w) t il = Ok (f', w', u) ->
  f_lba f' = f_lba (mark_rx f now) \/ (f_lba f' = None /\ f_state f' = Offline).
Proof.
  unfold listen_token_telegram. intros H.
  assert (Hrest : forall X : res (fdl * W * unit),
    X = Ok (f', w', u) ->
    X = (if opt_eqb (source_address t) (Some (ts (mark_rx f now)))
     then let* (sr, cc) := get_listen_token (f_state (mark_rx f now)) in
          let* cc0 := u8_add cc 1 in
          let f0 := set_st (mark_rx f now) (ListenToken sr cc0) in
          if cc0 =? listen_collision_tolerated then Ok (f0, note A w TLtCollisionFirst, tt)
          else let* f1 := set_offline f0 in Ok (f1, note A w TLtCollisionOffline, tt)
     else match t with
          | TData h _ =>
              if is_fdl_status_request h && (h_da h =? ts (mark_rx f now))
              then if il
                   then let* (_, cc) := get_listen_token (f_state (mark_rx f now)) in
                        Ok (set_st (mark_rx f now) (ListenToken (Some (h_sa h)) cc), note A w TLtStatusReqLast, tt)
                   else Ok (mark_rx f now, note A w TLtStatusReqNotLast, tt)
              else Ok (mark_rx f now, note A w TLtOther, tt)
          | TToken da sa => let* r := witness (f_ring (mark_rx f now)) sa da in Ok (set_ring (mark_rx f now) r, note A w TLtWitness, tt)
          | TShortConf => Ok (mark_rx f now, note A w TLtOther, tt)
          end) ->
    f_lba f' = f_lba (mark_rx f now) \/ (f_lba f' = None /\ f_state f' = Offline)).
  { clear H. intros X HX ->. destruct (opt_eqb _ _).
    - destruct (get_listen_token _) as [[sr cc]| |]; cbn [bind] in HX; try discriminate HX.
      destruct (u8_add cc 1) as [cc'| |]; cbn [bind] in HX; try discriminate HX.
      destruct (cc' =? listen_collision_tolerated).
      + injection HX as <- _ _. left. reflexivity.
      + unfold set_offline, set_state, fdl_new in HX.
        destruct (negb _); [discriminate HX|]. destruct (negb _); [discriminate HX|].
        destruct (ring_new _) as [r0| |]; cbn [bind] in HX; try discriminate HX.
        injection HX as <- _ _. right. split; reflexivity.
    - destruct t as [h pdu|da sa|].
      + destruct (is_fdl_status_request h && _).
        * destruct il.
          -- destruct (get_listen_token _) as [[sr cc]| |]; cbn [bind] in HX; try discriminate HX.
             injection HX as <- _ _. left. reflexivity.
          -- injection HX as <- _ _. left. reflexivity.
        * injection HX as <- _ _. left. reflexivity.
      + destruct (witness _ _ _) as [r0| |]; cbn [bind] in HX; try discriminate HX.
        injection HX as <- _ _. left. reflexivity.
      + injection HX as <- _ _. left. reflexivity. }
  destruct (f_conn (mark_rx f now)).
  - injection H as <- _ _. left. reflexivity.
  - exact (Hrest _ H eq_refl).
  - exact (Hrest _ H eq_refl).
Qed.

Lemma listen_token_telegram_facts now (f : fdl) (w : W) t il f' w' u :
  listen_token_telegram A now (f, w) t il = Ok (f', w', u) ->
  f_p f' = f_p f /\ w_tx w' = w_tx w /\ w_calls w' = w_calls w /\ w_apps w' = w_apps w /\
  ((f_gap f' = f_gap f /\ f_conn f' = f_conn f) \/ (f_state f' = Offline /\ f_conn f' = ConnOffline)) /\
  (f_conn f = ConnOffline -> f_state f' = f_state f /\ f_gap f' = f_gap f) /\
  (forall src, marker (f_state f') = Some src ->
     marker (f_state f) = Some src \/ (il = true /\ is_status_request_to (ts f) src t)).
Proof.
  unfold listen_token_telegram. intros H.
  destruct (mark_rx_frame f now) as [Mp [Mr [Mg [Ms [Mc _]]]]].
  rewrite mark_rx_ts in H.
  assert (Hrest : forall X : res (fdl * W * unit),
    X = Ok (f', w', u) -> f_conn f <> ConnOffline ->
    X = (if opt_eqb (source_address t) (Some (ts f))
     then let* (sr, cc) := get_listen_token (f_state (mark_rx f now)) in
          let* cc0 := u8_add cc 1 in
          let f0 := set_st (mark_rx f now) (ListenToken sr cc0) in
          if cc0 =? listen_collision_tolerated then Ok (f0, note A w TLtCollisionFirst, tt)
          else let* f1 := set_offline f0 in Ok (f1, note A w TLtCollisionOffline, tt)
     else match t with
          | TData h _ =>
              if is_fdl_status_request h && (h_da h =? ts f)
              then if il
                   then let* (_, cc) := get_listen_token (f_state (mark_rx f now)) in
                        Ok (set_st (mark_rx f now) (ListenToken (Some (h_sa h)) cc), note A w TLtStatusReqLast, tt)
                   else Ok (mark_rx f now, note A w TLtStatusReqNotLast, tt)
              else Ok (mark_rx f now, note A w TLtOther, tt)
          | TToken da sa => let* r := witness (f_ring (mark_rx f now)) sa da in Ok (set_ring (mark_rx f now) r, note A w TLtWitness, tt)
          | TShortConf => Ok (mark_rx f now, note A w TLtOther, tt)
          end) ->
    f_p f' = f_p f /\ w_tx w' = w_tx w /\ w_calls w' = w_calls w /\ w_apps w' = w_apps w /\
    ((f_gap f' = f_gap f /\ f_conn f' = f_conn f) \/ (f_state f' = Offline /\ f_conn f' = ConnOffline)) /\
    (f_conn f = ConnOffline -> f_state f' = f_state f /\ f_gap f' = f_gap f) /\
    (forall src, marker (f_state f') = Some src ->
       marker (f_state f) = Some src \/ (il = true /\ is_status_request_to (ts f) src t))).
  { clear H. intros X HX Hon ->. rewrite Ms in HX.
    assert (Hsame : forall tg, Ok (mark_rx f now, note A w tg, tt) = Ok (f', w', u) ->
      f_p f' = f_p f /\ w_tx w' = w_tx w /\ w_calls w' = w_calls w /\ w_apps w' = w_apps w /\
      ((f_gap f' = f_gap f /\ f_conn f' = f_conn f) \/ (f_state f' = Offline /\ f_conn f' = ConnOffline)) /\
      (f_conn f = ConnOffline -> f_state f' = f_state f /\ f_gap f' = f_gap f) /\
      (forall src, marker (f_state f') = Some src ->
         marker (f_state f) = Some src \/ (il = true /\ is_status_request_to (ts f) src t))).
    { intros tg E. injection E as <- <- _. cbn. rewrite Mp, Mg, Mc, Ms. repeat (split; [reflexivity|]).
      split; [left; split; reflexivity|]. split; [intros _; split; reflexivity|]. intros src Hm. left. exact Hm. }
    destruct (opt_eqb _ _).
    - destruct (f_state f) as [ | |sr cc| | | | | | | ] eqn:Es; cbn [get_listen_token bind] in HX; try discriminate HX.
      destruct (u8_add cc 1) as [cc'| |]; cbn [bind] in HX; try discriminate HX.
      destruct (cc' =? listen_collision_tolerated).
      + injection HX as <- <- _. cbn. rewrite Mp, Mg, Mc. repeat (split; [reflexivity|]).
        split; [left; split; reflexivity|]. split; [intros C; contradiction|]. intros src Hm. left. exact Hm.
      + unfold set_offline, set_state, fdl_new in HX. cbn [f_p set_st] in HX.
        destruct (negb _); [discriminate HX|]. destruct (negb _); [discriminate HX|].
        destruct (ring_new _) as [r0| |]; cbn [bind] in HX; try discriminate HX.
        injection HX as <- <- _. cbn. rewrite Mp. repeat (split; [reflexivity|]).
        split; [right; split; reflexivity|]. split; [intros C; contradiction|]. intros src Hm. discriminate Hm.
    - destruct t as [h pdu|da sa|].
      + destruct (is_fdl_status_request h && (h_da h =? ts f)) eqn:Ec.
        * destruct il.
          -- destruct (f_state f) as [ | |sr cc| | | | | | | ] eqn:Es; cbn [get_listen_token bind] in HX; try discriminate HX.
             injection HX as <- <- _. cbn. rewrite Mp, Mg, Mc. repeat (split; [reflexivity|]).
             split; [left; split; reflexivity|]. split; [intros C; contradiction|]. intros src Hm. injection Hm as <-.
             right. split; [reflexivity|]. apply andb_true_iff in Ec. destruct Ec as [E1 E2]. apply Z.eqb_eq in E2.
             exists h, pdu. repeat split; assumption.
          -- exact (Hsame _ HX).
        * exact (Hsame _ HX).
      + rewrite Mr in HX. destruct (witness (f_ring f) sa da) as [r0| |]; cbn [bind] in HX; try discriminate HX.
        injection HX as <- <- _. cbn. rewrite Mp, Mg, Mc, Ms. repeat (split; [reflexivity|]).
        split; [left; split; reflexivity|]. split; [intros C; contradiction|]. intros src Hm. left. exact Hm.
      + exact (Hsame _ HX). }
  rewrite Mc in H.
  assert (Hd : f_conn f = ConnOffline \/ f_conn f <> ConnOffline) by (destruct (f_conn f); [left; reflexivity|right; discriminate|right; discriminate]).
  destruct Hd as [Ec|Ec].
  - rewrite Ec in H. injection H as <- <- _. cbn. rewrite Mp, Mg, Mc, Ms. repeat (split; [reflexivity|]).
    split; [left; split; reflexivity|]. split; [intros _; split; reflexivity|]. intros src Hm. left. exact Hm.
  - apply (Hrest _ H Ec). destruct (f_conn f); [contradiction Ec; reflexivity|reflexivity|reflexivity].
Qed.

(* ------------------------------------------------------------------------------------------ *)
(* the four kinds of transmissions of a poll                                                    *)

(* the status reply and the state change that goes with it, exactly as coded: a listening station
   reports "ready" (MasterWithoutToken) iff its LAS is valid and the requester is its PS, "not
   ready" otherwise, and enters the ring (ActiveIdle) iff its LAS is valid; an idle station in the
   ring reports "in ring" *)
Definition reply_sent (f f' : fdl) (src : Z) (st : resp_state) : Prop :=
  (exists cc, f_state f = ListenToken (Some src) cc /\
     st = (if ready_for_ring (f_ring f) && (src =? r_ps (f_ring f)) then listen_reply_ready else listen_reply_not_ready) /\
     f_state f' = (if ready_for_ring (f_ring f) then ActiveIdle None None 0 else ListenToken None cc))
  \/ (exists nps cc, f_state f = ActiveIdle (Some src) nps cc /\ st = active_idle_reply /\
        f_state f' = ActiveIdle None nps cc).

Definition gap_cursor_ok (f : fdl) : Prop :=
  0 <= ts f < p_hsa (f_p f) /\ forall c, f_gap f = GapDoPoll c -> 0 <= c < p_hsa (f_p f).

(* the token-use states.  Since the F20 repair a poll that begins in one of them and finds nothing (more)
   to send goes on to do_pass_token in the same poll: the GAP request or the token goes out at once. *)
Definition in_use (s : state) : Prop := kind_of s = KUseToken \/ kind_of s = KAwaitDataResponse.

(* the states from which the GAP step of a token visit is taken *)
Definition gap_origin (s : state) : Prop := (exists att, s = PassToken true att) \/ in_use s.

(* no application has sent anything: the callbacks of the poll (beyond `calls`) are declines of
   transmit_telegram and at most the time-out that precedes them - and there are none at all unless the
   poll began in a token-use state *)
Definition no_send (c : call) : Prop := match c with CallTransmit _ _ (Some _) => False | _ => True end.
Definition quiet_calls (f : fdl) (calls calls' : list call) : Prop :=
  exists l, calls' = calls ++ l /\ Forall no_send l /\ (l <> [] -> in_use (f_state f)).

Lemma quiet_calls_same f calls calls' : calls' = calls -> quiet_calls f calls calls'.
Proof. intros ->. exists []. rewrite app_nil_r. split; [reflexivity|]. split; [constructor|]. intros C; contradiction C; reflexivity. Qed.

Lemma quiet_calls_nil f calls : ~ in_use (f_state f) -> quiet_calls f [] calls -> calls = [].
Proof.
  intros Hn [l [Hl [_ Hu]]]. cbn in Hl. subst l. destruct calls as [|c l]; [reflexivity|].
  exfalso. apply Hn, Hu. discriminate.
Qed.

Definition tx_app (f f' : fdl) (calls' : list call) (wire : bytes) : Prop :=
  exists cs i hp er, calls' = cs ++ [CallTransmit i hp (Some (wire, er))] /\
    (kind_of (f_state f) = KUseToken \/ kind_of (f_state f) = KAwaitDataResponse) /\
    (kind_of (f_state f') = KUseToken \/ kind_of (f_state f') = KAwaitDataResponse).

(* listening / idle, or about to start listening (first poll after set_online) *)
Definition idle_kind (f : fdl) : Prop :=
  kind_of (f_state f) = KListenToken \/ kind_of (f_state f) = KActiveIdle \/
  online_entry_kind (kind_of (f_state f)) = true.

Definition tx_token (f f' : fdl) (now : Z) (wire : bytes) : Prop :=
  exists da, wire = encode_token da (ts f) /\
    ((da = ts f /\
      ((f_state f' = ClaimToken StepSecondToken /\ (idle_kind f \/ f_state f = ClaimToken StepFirstToken)) \/
       (f_state f' = ClaimToken StepScan /\ f_state f = ClaimToken StepSecondToken))) \/
     ((f_state f' = UseToken now None false \/ exists att, f_state f' = CheckTokenPass att) /\
      (kind_of (f_state f) = KPassToken \/ kind_of (f_state f) = KAwaitStatusResponse \/
       kind_of (f_state f) = KCheckTokenPass \/ in_use (f_state f)))).

Definition tx_gap (f f' : fdl) (wire : bytes) : Prop :=
  exists a, wire = sr_wire a (ts f) /\ in_gap (ts f) (r_ns (f_ring f)) a /\
    (gap_cursor_ok f -> 0 <= a < p_hsa (f_p f)) /\
    f_ring f' = f_ring f /\ f_gap f' = GapDoPoll a /\
    ((f_state f' = AwaitStatusResponse a /\ gap_origin (f_state f)) \/
     (f_state f' = ClaimToken (StepScanAwaitResponse a) /\
      (f_state f = ClaimToken StepScan \/ exists a0, f_state f = ClaimToken (StepScanAwaitResponse a0)))).

Definition tx_reply (f f' : fdl) (wire : bytes) : Prop :=
  exists src st, wire = reply_wire src (ts f) st /\ reply_sent f f' src st.

Definition tx_class (f f' : fdl) (now : Z) (calls calls' : list call) (wire : bytes) : Prop :=
  tx_app f f' calls' wire \/
  (quiet_calls f calls calls' /\ (tx_token f f' now wire \/ tx_gap f f' wire \/ tx_reply f f' wire)).

(* when the GAP state may change *)
Definition gap_change (f f' : fdl) : Prop :=
  (gap_origin (f_state f) /\ gap_visit_step f = Ok (f_gap f')) \/
  kind_of (f_state f) = KClaimToken \/
  (f_state f' = ClaimToken StepSecondToken /\ f_gap f' = GapDoPoll (ts f)) \/
  (f_state f' = Offline /\ f_conn f' = ConnOffline).

(* ---- the GAP sweep as seen poll by poll (used by Proofs/C12OracleSound.v) ----
   pend s = 1: the next token transmission of a visit out of s is preceded by a GAP step of the visit;
   pend s = 0: the GAP step of this visit is done (AwaitStatusResponse, PassToken{do_gap: No}) or the
   station scans the GAP after a claim. *)
Definition pend (s : state) : Z :=
  match s with
  | AwaitStatusResponse _ | PassToken false _ | ClaimToken StepScan | ClaimToken (StepScanAwaitResponse _) => 0
  | _ => 1
  end.

Definition visit_state (s : state) : Prop :=
  kind_of s = KPassToken \/ kind_of s = KAwaitStatusResponse \/ in_use s.

Definition nosend_ext (calls calls' : list call) : Prop := exists l, calls' = calls ++ l /\ Forall no_send l.

(* a slot time shorter than the synchronisation pause: excluded by the parameter builder *)
Definition short_slot (f : fdl) : Prop := slot_time (f_p f) < p_bits_to_time (f_p f) sync_pause_bits.

(* steps after which nothing is claimed about the sweep: the station is (or was) offline, goes back to
   listening, or transmits its claim token *)
Definition sw_reset (f f' : fdl) (txb : option bytes) : Prop :=
  kind_of (f_state f) = KOffline \/ kind_of (f_state f) = KPassiveIdle \/
  kind_of (f_state f') = KOffline \/ kind_of (f_state f') = KListenToken \/
  (txb = Some (encode_token (ts f) (ts f)) /\
   (kind_of (f_state f) = KListenToken \/ kind_of (f_state f) = KActiveIdle \/ kind_of (f_state f) = KClaimToken) /\
   f_gap f' = GapDoPoll (ts f) /\ kind_of (f_state f') = KClaimToken) \/
  short_slot f.

(* the transmission of a step that is neither a GAP request nor the token of a visit *)
Definition sw_qtx (f : fdl) (calls' : list call) (txb : option bytes) : Prop :=
  txb = None \/
  (exists wire cs i hp er, txb = Some wire /\ calls' = cs ++ [CallTransmit i hp (Some (wire, er))]) \/
  (exists src st, txb = Some (reply_wire src (ts f) st) /\
     (kind_of (f_state f) = KListenToken \/ kind_of (f_state f) = KActiveIdle)) \/
  (exists da, txb = Some (encode_token da (ts f)) /\ kind_of (f_state f) = KCheckTokenPass).

Definition sw_rel (f f' : fdl) (calls calls' : list call) (txb : option bytes) : Prop :=
  sw_reset f f' txb \/
  (exists a, txb = Some (sr_wire a (ts f)) /\ nosend_ext calls calls' /\
     gap_visit_step f = Ok (GapDoPoll a) /\ f_gap f' = GapDoPoll a /\ pend (f_state f') = 0 /\ f_ring f' = f_ring f /\
     (kind_of (f_state f) = KClaimToken -> exists cur, f_gap f = GapDoPoll cur)) \/
  (exists da, txb = Some (encode_token da (ts f)) /\ nosend_ext calls calls' /\
     visit_state (f_state f) /\ pend (f_state f') = 1 /\
     ((pend (f_state f) = 1 /\ gap_visit_step f = Ok (f_gap f') /\ exists n, f_gap f' = GapWaiting n) \/
      (pend (f_state f) = 0 /\ f_gap f' = f_gap f))) \/
  (sw_qtx f calls' txb /\
   ((f_gap f' = f_gap f /\ pend (f_state f) <= pend (f_state f')) \/
    (pend (f_state f) = 0 /\ pend (f_state f') = 0 /\ gap_visit_step f = Ok (f_gap f') /\
     (exists cur, f_gap f = GapDoPoll cur) /\ (exists n, f_gap f' = GapWaiting n) /\ f_ring f' = f_ring f))).

Lemma sw_rel_pre f0 f f' calls0 calls calls' txb pre :
  f_p f = f_p f0 -> f_ring f = f_ring f0 -> f_state f = f_state f0 -> f_gap f = f_gap f0 ->
  calls = calls0 ++ pre -> Forall no_send pre ->
  sw_rel f f' calls calls' txb -> sw_rel f0 f' calls0 calls' txb.
Proof.
  intros Hp Hr Hs Hg -> Hpre.
  assert (Hn : nosend_ext (calls0 ++ pre) calls' -> nosend_ext calls0 calls').
  { intros [l [Hl Hf]]. exists (pre ++ l). split; [rewrite Hl, app_assoc; reflexivity|apply Forall_app; split; assumption]. }
  unfold sw_rel, sw_reset, sw_qtx, short_slot, visit_state, in_use.
  rewrite (gap_visit_step_ext f f0 Hp Hr Hg). unfold ts. rewrite Hp, Hr, Hs, Hg.
  intros [H|[[a H]|[[da H]|H]]].
  - left. exact H.
  - right. left. exists a. destruct H as [H1 [H2 H3]]. split; [exact H1|]. split; [exact (Hn H2)|exact H3].
  - right. right. left. exists da. destruct H as [H1 [H2 H3]]. split; [exact H1|]. split; [exact (Hn H2)|exact H3].
  - right. right. right. exact H.
Qed.

Lemma sw_rel_silent f f' calls calls' : f_state f' = f_state f -> f_gap f' = f_gap f -> sw_rel f f' calls calls' None.
Proof.
  intros Hs Hg. right. right. right. split; [left; reflexivity|]. left. split; [exact Hg|rewrite Hs; lia].
Qed.

Lemma sw_rel_quiet f f' calls calls' : pend (f_state f) <= pend (f_state f') -> f_gap f' = f_gap f -> sw_rel f f' calls calls' None.
Proof.
  intros Hs Hg. right. right. right. split; [left; reflexivity|]. left. split; assumption.
Qed.

Lemma nosend_ext_same calls calls' : calls' = calls -> nosend_ext calls calls'.
Proof. intros ->. exists []. split; [symmetry; apply app_nil_r|constructor]. Qed.

Lemma pend_range s : 0 <= pend s <= 1.
Proof. destruct s as [ | | | | |[ | | | ]| |[|] ?| | ]; cbn; lia. Qed.

Definition lba_le (f : fdl) (now : Z) : Prop := forall l, f_lba f = Some l -> l <= now.

Lemma mark_rx_lba f now : lba_le f now -> f_lba (mark_rx f now) = Some now.
Proof.
  unfold lba_le, mark_rx, mark_bus_activity, lba_get_or_insert. cbn [set_pending f_lba]. intros H.
  destruct (f_lba f) as [l|]; cbn; f_equal; [specialize (H l eq_refl)|]; lia.
Qed.

(* what a step (a do_* function, or a whole poll) can do, as far as C12 is concerned:
   its transmission, a newly pending status request (with the time stamp the pause is measured from:
   L is what is known about last_bus_activity before the step), the GAP state *)
Definition facts_l (L : Prop) (f f' : fdl) (w w' : W) (now : Z) : Prop :=
  f_p f' = f_p f /\
  (w_tx w = None -> w_tx w' = None \/ exists wire, w_tx w' = Some wire /\ tx_class f f' now (w_calls w) (w_calls w') wire) /\
  (forall src, marker (f_state f') = Some src ->
     marker (f_state f) = Some src \/
     (last_request (w_rx w) (ts f) src /\ w_rx w' = [] /\ f_pending f' = 0%nat /\ (L -> f_lba f' = Some now))) /\
  ((f_gap f' = f_gap f \/ gap_change f f') /\
   (w_tx w = None -> sw_rel f f' (w_calls w) (w_calls w') (w_tx w'))).

Definition facts (f f' : fdl) (w w' : W) (now : Z) : Prop := facts_l (lba_le f now) f f' w w' now.

(* transport of the facts along a prefix that changed only inessential fields *)
Lemma tx_class_pre f0 f f' now calls calls' wire :
  f_p f = f_p f0 -> f_ring f = f_ring f0 -> f_state f = f_state f0 -> f_gap f = f_gap f0 ->
  tx_class f f' now calls calls' wire -> tx_class f0 f' now calls calls' wire.
Proof.
  intros Hp Hr Hs Hg. unfold tx_class, quiet_calls, tx_app, tx_token, idle_kind, tx_gap, gap_origin, in_use, tx_reply, reply_sent, gap_cursor_ok, ts. rewrite Hp, Hr, Hs, Hg. tauto.
Qed.

Lemma gap_change_pre f0 f f' :
  f_p f = f_p f0 -> f_ring f = f_ring f0 -> f_state f = f_state f0 -> f_gap f = f_gap f0 ->
  gap_change f f' -> gap_change f0 f'.
Proof.
  intros Hp Hr Hs Hg. unfold gap_change, gap_origin, in_use. rewrite (gap_visit_step_ext f f0 Hp Hr Hg). unfold ts. rewrite Hp, Hs. tauto.
Qed.

Lemma facts_l_pre (L0 L : Prop) f0 f f' (w0 w w' : W) now :
  f_p f = f_p f0 -> f_ring f = f_ring f0 -> f_state f = f_state f0 -> f_gap f = f_gap f0 ->
  w_tx w = w_tx w0 -> w_calls w = w_calls w0 -> w_rx w = w_rx w0 -> (L0 -> L) ->
  facts_l L f f' w w' now -> facts_l L0 f0 f' w0 w' now.
Proof.
  intros Hp Hr Hs Hg Ht Hc Hx HL [F1 [F2 [F3 F4]]]. unfold facts_l.
  split; [rewrite F1; exact Hp|]. split.
  - intros Hn. rewrite <- Ht in Hn. destruct (F2 Hn) as [X|[wire [X Y]]]; [left; exact X|].
    right. exists wire. split; [exact X|]. rewrite <- Hc. exact (tx_class_pre _ _ _ _ _ _ _ Hp Hr Hs Hg Y).
  - split.
    + intros src Hm. rewrite <- Hs, <- Hx. unfold ts. rewrite <- Hp.
      destruct (F3 src Hm) as [X|[X1 [X2 [X3 X4]]]]; [left; exact X|right]. repeat (split; [assumption|]). intros H0. exact (X4 (HL H0)).
    + destruct F4 as [F4 F5]. split.
      * rewrite <- Hg. destruct F4 as [X|X]; [left; exact X|right; exact (gap_change_pre _ _ _ Hp Hr Hs Hg X)].
      * intros Hn. rewrite <- Ht in Hn. rewrite <- Hc. eapply sw_rel_pre; [exact Hp|exact Hr|exact Hs|exact Hg|symmetry; apply app_nil_r|constructor|exact (F5 Hn)].
Qed.

Lemma facts_pre f0 f f' (w0 w w' : W) now :
  f_p f = f_p f0 -> f_ring f = f_ring f0 -> f_state f = f_state f0 -> f_gap f = f_gap f0 ->
  w_tx w = w_tx w0 -> w_calls w = w_calls w0 -> w_rx w = w_rx w0 -> (lba_le f0 now -> lba_le f now) ->
  facts f f' w w' now -> facts f0 f' w0 w' now.
Proof. unfold facts. intros. eapply facts_l_pre; eassumption. Qed.

Lemma gap_visit_step_in_gap f a : gap_visit_step f = Ok (GapDoPoll a) ->
  in_gap (ts f) (r_ns (f_ring f)) a /\ (gap_cursor_ok f -> 0 <= a < p_hsa (f_p f)).
Proof.
  unfold gap_visit_step, gap_cursor_ok. intros H.
  destruct (f_gap f) as [rc|cur] eqn:Eg.
  - destruct (p_gap_wait (f_p f) <? rc).
    + apply next_gap_poll_in_gap in H. destruct H as [H1 [_ H3]]. split; [exact H1|]. intros [Ht _]. exact (H3 Ht).
    + destruct (u8_add rc 1); cbn [bind] in H; discriminate H.
  - apply next_gap_poll_in_gap in H. destruct H as [H1 [_ H3]]. split; [exact H1|]. intros [_ Hc]. exact (H3 (Hc cur eq_refl)).
Qed.

Lemma next_gap_poll_in_gap' f cur a : next_gap_poll f cur = Ok (GapDoPoll a) -> f_gap f = GapDoPoll cur ->
  in_gap (ts f) (r_ns (f_ring f)) a /\ (gap_cursor_ok f -> 0 <= a < p_hsa (f_p f)).
Proof.
  intros H Hg. apply next_gap_poll_in_gap in H. destruct H as [H1 [_ H3]]. split; [exact H1|].
  intros [_ Hc]. exact (H3 (Hc cur Hg)).
Qed.

(* ------------------------------------------------------------------------------------------ *)
(* the token-holding GAP functions                                                              *)

Lemma do_pass_token_facts f now (w : W) f' w' :
  do_pass_token A f now w = Ok (f', w') -> facts f f' w w' now.
Proof.
  intros H. apply do_pass_token_spec in H.
  destruct H as [dg [att [Es [Hp [Hc [Hca [Hap [Hrx Hcases]]]]]]]].
  unfold facts, facts_l. split; [exact Hp|].
  destruct Hcases as [[T [S [G R]]]|[[-> [a [Hstep [G [S [R [T0 T]]]]]]]|[G [T0 [T [Wi St]]]]]].
  - split; [intros Hn; left; rewrite T; exact Hn|]. split; [intros src Hm; left; rewrite <- S; exact Hm|].
    split; [left; exact G|]. intros Hn. rewrite T, Hn. apply sw_rel_silent; assumption.
  - split.
    + intros _. right. exists (sr_wire a (ts f)). split; [exact T|]. right. split; [apply quiet_calls_same; exact Hca|]. right. left.
      exists a. destruct (gap_visit_step_in_gap f a Hstep) as [I1 I2].
      repeat (split; [assumption || reflexivity|]). left. split; [exact S|left; exists att; exact Es].
    + split; [intros src Hm; rewrite S in Hm; discriminate Hm|].
      split; [right; left; split; [left; exists att; exact Es|]; rewrite G; exact Hstep|].
      intros _. rewrite T. right. left. exists a. split; [reflexivity|]. split; [apply nosend_ext_same; exact Hca|].
      split; [exact Hstep|]. split; [exact G|]. split; [rewrite S; reflexivity|]. split; [exact R|]. rewrite Es. intros C; discriminate C.
  - split.
    + intros _. right. eexists. split; [exact T|]. right. split; [apply quiet_calls_same; exact Hca|]. left.
      eexists. split; [reflexivity|]. right. split; [|left; rewrite Es; reflexivity].
      destruct St as [[_ S]|[_ S]]; [left; exact S|right; exists att; exact S].
    + split; [intros src Hm; destruct St as [[_ S]|[_ S]]; rewrite S in Hm; discriminate Hm|].
      assert (Hp1 : pend (f_state f') = 1) by (destruct St as [[_ S]|[_ S]]; rewrite S; reflexivity).
      destruct dg.
      * destruct G as [n [Hstep G]]. split; [right; left; split; [left; exists att; exact Es|]; rewrite G; exact Hstep|].
        intros _. rewrite T. right. right. left. eexists. split; [reflexivity|]. split; [apply nosend_ext_same; exact Hca|].
        split; [left; rewrite Es; reflexivity|]. split; [exact Hp1|]. left. split; [rewrite Es; reflexivity|]. split; [rewrite G; exact Hstep|exists n; exact G].
      * split; [left; exact G|].
        intros _. rewrite T. right. right. left. eexists. split; [reflexivity|]. split; [apply nosend_ext_same; exact Hca|].
        split; [left; rewrite Es; reflexivity|]. split; [exact Hp1|]. right. split; [rewrite Es; reflexivity|exact G].
Qed.

Lemma do_await_status_response_facts f now (w : W) f' w' :
  do_await_status_response A f now w = Ok (f', w') -> facts f f' w w' now.
Proof.
  intros H. apply do_await_status_response_spec in H.
  destruct H as [a0 [Es [Hne [Hg0 [Hp [Hc [Hca [Hap [Hg [rest [received [Hrcv [Hrx Hcases]]]]]]]]]]]]].
  unfold facts, facts_l. split; [exact Hp|].
  assert (HM : marker (f_state f) = None) by (rewrite Es; reflexivity).
  destruct Hcases as [[_ [T [S R]]]|[[t [_ [_ [T [S _]]]]]|[[t [_ [_ [T [S R]]]]]|[_ [[T [S R]]|[T0 [T [Wi St]]]]]]]].
  - split; [intros Hn; left; rewrite T; exact Hn|]. split; [intros src Hm; left; rewrite <- S; exact Hm|].
    split; [left; exact Hg|]. intros Hn. rewrite T, Hn. apply sw_rel_silent; assumption.
  - split; [intros Hn; left; rewrite T; exact Hn|]. split; [intros src Hm; rewrite S in Hm; discriminate Hm|].
    split; [left; exact Hg|]. intros Hn. rewrite T, Hn. apply sw_rel_quiet; [rewrite S, Es; cbn; lia|exact Hg].
  - split; [intros Hn; left; rewrite T; exact Hn|]. split; [intros src Hm; rewrite S in Hm; discriminate Hm|].
    split; [left; exact Hg|]. intros Hn. rewrite T, Hn. apply sw_rel_quiet; [rewrite S, Es; cbn; lia|exact Hg].
  - split; [intros Hn; left; rewrite T; exact Hn|]. split; [intros src Hm; rewrite S in Hm; discriminate Hm|].
    split; [left; exact Hg|]. intros Hn. rewrite T, Hn. apply sw_rel_quiet; [rewrite S, Es; cbn; lia|exact Hg].
  - split.
    + intros _. right. eexists. split; [exact T|]. right. split; [apply quiet_calls_same; exact Hca|]. left.
      eexists. split; [reflexivity|]. right. split; [|right; left; rewrite Es; reflexivity].
      destruct St as [[_ S]|[_ S]]; [left; exact S|right; exists AttFirst; exact S].
    + split; [intros src Hm; destruct St as [[_ S]|[_ S]]; rewrite S in Hm; discriminate Hm|].
      split; [left; exact Hg|]. intros _. rewrite T. right. right. left. eexists. split; [reflexivity|].
      split; [apply nosend_ext_same; exact Hca|]. split; [right; left; rewrite Es; reflexivity|].
      split; [destruct St as [[_ S]|[_ S]]; rewrite S; reflexivity|]. right. split; [rewrite Es; reflexivity|exact Hg].
Qed.

Lemma do_claim_token_facts f now (w : W) f' w' :
  do_claim_token A f now w = Ok (f', w') -> facts f f' w w' now.
Proof.
  intros H. apply do_claim_token_spec in H.
  destruct H as [st0 [Es [Hp [Hc [Hca [Hap Hcases]]]]]].
  unfold facts, facts_l. split; [exact Hp|].
  assert (HG : f_gap f' = f_gap f \/ gap_change f f') by (right; right; left; rewrite Es; reflexivity).
  assert (HSW : w_tx w = None -> sw_rel f f' (w_calls w) (w_calls w') (w_tx w')).
  { intros Hn.
    assert (Hstep : forall cur g, f_gap f = GapDoPoll cur -> next_gap_poll f cur = Ok g -> gap_visit_step f = Ok g)
      by (intros cur g E N; unfold gap_visit_step; rewrite E; exact N).
    assert (Hscan0 :
     ( (w_tx w' = w_tx w /\ f_state f' = f_state f /\ f_gap f' = f_gap f)
      \/ (w_tx w' = w_tx w /\ (exists n, f_gap f = GapWaiting n) /\ f_gap f' = f_gap f /\ f_state f' = PassToken false AttFirst)
      \/ (w_tx w' = w_tx w /\ exists cur, f_gap f = GapDoPoll cur /\ next_gap_poll f cur = Ok (GapWaiting 0) /\
            f_gap f' = GapWaiting 0 /\ f_state f' = f_state f)
      \/ (exists cur a, f_gap f = GapDoPoll cur /\ next_gap_poll f cur = Ok (GapDoPoll a) /\ f_gap f' = GapDoPoll a /\
            f_state f' = ClaimToken (StepScanAwaitResponse a) /\ w_tx w = None /\ w_tx w' = Some (sr_wire a (ts f))) ) ->
     f_ring f' = f_ring f -> pend (f_state f) = 0 ->
     sw_rel f f' (w_calls w) (w_calls w') (w_tx w')).
    { intros Hsc Hr Hp0.
      destruct Hsc as [[T [S G]]|[[T [_ [G S]]]|[[T [cur [G0 [N [G S]]]]]|[cur [a [G0 [N [G [S [T0 T]]]]]]]]]].
      - rewrite T, Hn. apply sw_rel_silent; assumption.
      - rewrite T, Hn. apply sw_rel_quiet; [rewrite S, Hp0; cbn; lia|exact G].
      - rewrite T, Hn. right. right. right. split; [left; reflexivity|]. right.
        split; [exact Hp0|]. split; [rewrite S; exact Hp0|]. split; [rewrite G; exact (Hstep _ _ G0 N)|].
        split; [exists cur; exact G0|]. split; [exists 0; exact G|exact Hr].
      - rewrite T. right. left. exists a. split; [reflexivity|]. split; [apply nosend_ext_same; exact Hca|].
        split; [exact (Hstep _ _ G0 N)|]. split; [exact G|]. split; [rewrite S; reflexivity|]. split; [exact Hr|]. intros _. exists cur. exact G0. }
    destruct st0 as [ | | |a0].
    - destruct Hcases as [Hrx [[T [S [G R]]]|[T0 [T [S [G R]]]]]].
      + rewrite T, Hn. apply sw_rel_silent; assumption.
      + rewrite T. left. right. right. right. right. left. split; [reflexivity|]. split; [right; right; rewrite Es; reflexivity|]. split; [exact G|rewrite S; reflexivity].
    - destruct Hcases as [Hrx [[T [S [G R]]]|[T0 [T [S [G R]]]]]].
      + rewrite T, Hn. apply sw_rel_silent; assumption.
      + rewrite T. left. right. right. right. right. left. split; [reflexivity|]. split; [right; right; rewrite Es; reflexivity|]. split; [exact G|rewrite S; reflexivity].
    - destruct Hcases as [Hr [Hrx Hsc]]. apply (Hscan0 Hsc Hr). rewrite Es. reflexivity.
    - destruct Hcases as [Hne [Hg0 [rest [received [Hrcv [Hrx Hcs]]]]]].
      assert (Hp0 : pend (f_state f) = 0) by (rewrite Es; reflexivity).
      destruct Hcs as [[_ [T [S [G R]]]]|[[t [_ [_ [T [S [G _]]]]]]|[[t [_ [_ [T [S [G _]]]]]]|[_ [R Hsc]]]]].
      + rewrite T, Hn. apply sw_rel_silent; assumption.
      + rewrite T, Hn. apply sw_rel_quiet; [rewrite S, Hp0; cbn; lia|exact G].
      + rewrite T, Hn. apply sw_rel_quiet; [rewrite S, Hp0; cbn; lia|exact G].
      + destruct Hsc as [[T [S G]]|[[T [N [G S]]]|[a [N [G [S [T0 T]]]]]]].
        * rewrite T, Hn. apply sw_rel_quiet; [rewrite S, Hp0; cbn; lia|exact G].
        * rewrite T, Hn. right. right. right. split; [left; reflexivity|]. right.
          split; [exact Hp0|]. split; [rewrite S; reflexivity|]. split; [rewrite G; exact (Hstep _ _ Hg0 N)|].
          split; [exists a0; exact Hg0|]. split; [exists 0; exact G|exact R].
        * rewrite T. right. left. exists a. split; [reflexivity|]. split; [apply nosend_ext_same; exact Hca|].
          split; [exact (Hstep _ _ Hg0 N)|]. split; [exact G|]. split; [rewrite S; reflexivity|]. split; [exact R|]. intros _. exists a0. exact Hg0. }
  assert (Hscan : forall (P : Prop),
     ( (w_tx w' = w_tx w /\ f_state f' = f_state f /\ f_gap f' = f_gap f)
      \/ (w_tx w' = w_tx w /\ (exists n, f_gap f = GapWaiting n) /\ f_gap f' = f_gap f /\ f_state f' = PassToken false AttFirst)
      \/ (w_tx w' = w_tx w /\ exists cur, f_gap f = GapDoPoll cur /\ next_gap_poll f cur = Ok (GapWaiting 0) /\
            f_gap f' = GapWaiting 0 /\ f_state f' = f_state f)
      \/ (exists cur a, f_gap f = GapDoPoll cur /\ next_gap_poll f cur = Ok (GapDoPoll a) /\ f_gap f' = GapDoPoll a /\
            f_state f' = ClaimToken (StepScanAwaitResponse a) /\ w_tx w = None /\ w_tx w' = Some (sr_wire a (ts f))) ) ->
     f_ring f' = f_ring f ->
     (f_state f = ClaimToken StepScan \/ exists a0, f_state f = ClaimToken (StepScanAwaitResponse a0)) ->
     (w_tx w = None -> w_tx w' = None \/ exists wire, w_tx w' = Some wire /\ tx_class f f' now (w_calls w) (w_calls w') wire) /\
     (forall src, marker (f_state f') = Some src -> marker (f_state f) = Some src)).
  { intros _ Hsc Hr Hst.
    destruct Hsc as [[T [S G]]|[[T [_ [G S]]]|[[T [cur [_ [_ [G S]]]]]|[cur [a [G0 [N [G [S [T0 T]]]]]]]]]].
    - split; [intros Hn; left; rewrite T; exact Hn|intros src Hm; rewrite <- S; exact Hm].
    - split; [intros Hn; left; rewrite T; exact Hn|intros src Hm; rewrite S in Hm; discriminate Hm].
    - split; [intros Hn; left; rewrite T; exact Hn|intros src Hm; rewrite <- S; exact Hm].
    - split; [|intros src Hm; rewrite S in Hm; discriminate Hm].
      intros _. right. eexists. split; [exact T|]. right. split; [apply quiet_calls_same; exact Hca|]. right. left.
      exists a. destruct (next_gap_poll_in_gap' f cur a N G0) as [I1 I2].
      repeat (split; [assumption || reflexivity|]). right. split; [exact S|exact Hst]. }
  destruct st0 as [ | | |a0].
  - destruct Hcases as [Hrx [[T [S [G R]]]|[T0 [T [S [G R]]]]]].
    + split; [intros Hn; left; rewrite T; exact Hn|]. split; [intros src Hm; left; rewrite <- S; exact Hm|exact (conj HG HSW)].
    + split; [|split; [intros src Hm; rewrite S in Hm; discriminate Hm|exact (conj HG HSW)]].
      intros _. right. eexists. split; [exact T|]. right. split; [apply quiet_calls_same; exact Hca|]. left.
      eexists. split; [reflexivity|]. left. split; [reflexivity|]. left. split; [exact S|right; exact Es].
  - destruct Hcases as [Hrx [[T [S [G R]]]|[T0 [T [S [G R]]]]]].
    + split; [intros Hn; left; rewrite T; exact Hn|]. split; [intros src Hm; left; rewrite <- S; exact Hm|exact (conj HG HSW)].
    + split; [|split; [intros src Hm; rewrite S in Hm; discriminate Hm|exact (conj HG HSW)]].
      intros _. right. eexists. split; [exact T|]. right. split; [apply quiet_calls_same; exact Hca|]. left.
      eexists. split; [reflexivity|]. left. split; [reflexivity|]. right. split; [exact S|exact Es].
  - destruct Hcases as [Hr [Hrx Hsc]]. destruct (Hscan True Hsc Hr (or_introl Es)) as [X Y]. split; [exact X|]. split; [intros src Hm; left; exact (Y src Hm)|exact (conj HG HSW)].
  - destruct Hcases as [Hne [Hg0 [rest [received [Hrcv [Hrx Hcs]]]]]].
    destruct Hcs as [[_ [T [S [G R]]]]|[[t [_ [_ [T [S _]]]]]|[[t [_ [_ [T [S _]]]]]|[_ [R Hsc]]]]].
    + split; [intros Hn; left; rewrite T; exact Hn|]. split; [intros src Hm; left; rewrite <- S; exact Hm|exact (conj HG HSW)].
    + split; [intros Hn; left; rewrite T; exact Hn|]. split; [intros src Hm; rewrite S in Hm; discriminate Hm|exact (conj HG HSW)].
    + split; [intros Hn; left; rewrite T; exact Hn|]. split; [intros src Hm; rewrite S in Hm; discriminate Hm|exact (conj HG HSW)].
    + destruct Hsc as [[T [S G]]|[[T [N [G S]]]|[a [N [G [S [T0 T]]]]]]].
      * split; [intros Hn; left; rewrite T; exact Hn|]. split; [intros src Hm; rewrite S in Hm; discriminate Hm|exact (conj HG HSW)].
      * split; [intros Hn; left; rewrite T; exact Hn|]. split; [intros src Hm; rewrite S in Hm; discriminate Hm|exact (conj HG HSW)].
      * split; [|split; [intros src Hm; rewrite S in Hm; discriminate Hm|exact (conj HG HSW)]].
        intros _. right. eexists. split; [exact T|]. right. split; [apply quiet_calls_same; exact Hca|]. right. left.
        exists a. destruct (next_gap_poll_in_gap' f a0 a N Hg0) as [I1 I2].
        repeat (split; [assumption || reflexivity|]). right. split; [exact S|right; exists a0; exact Es].
Qed.

(* ------------------------------------------------------------------------------------------ *)
(* handle_lost_token                                                                            *)

Lemma handle_lost_token_facts f now (w : W) f' w' d :
  handle_lost_token A f now w = Ok (f', w', d) ->
  kind_of (f_state f) = KListenToken \/ kind_of (f_state f) = KActiveIdle ->
  if d then facts f f' w w' now /\ marker (f_state f') = None
  else same_but_lba f f' /\ w' = w /\ (lba_le f now -> lba_le f' now).
Proof.
  unfold handle_lost_token. intros H Hkind.
  destruct (lba_get_or_insert f now) as [l f0] eqn:El.
  apply lba_get_or_insert_same in El. destruct El as [[Hp0 [Hr0 [Hc0 [Hg0 [Hs0 Hrest0]]]]] [Hl0 Hm0]].
  destruct (inst_diff now l); cbn [bind] in H; try discriminate H.
  match type of H with (if ?c then _ else _) = _ => destruct c end.
  - match type of H with context [trans A ?a ?b ?c] => destruct (trans A a b c) as [[f1 w1]| |] eqn:Et end; cbn [bind] in H; try discriminate H.
    apply trans_spec in Et. destruct Et as [s' [Ht [-> ->]]].
    unfold transition_claim_token in Ht. destruct (assert_kind _ _); cbn [bind] in Ht; try discriminate Ht. injection Ht as <-.
    destruct (do_claim_token A _ now _) as [[f2 w2]| |] eqn:Ed; cbn [bind] in H; try discriminate H.
    injection H as <- <- <-.
    apply do_claim_token_spec in Ed. destruct Ed as [st0 [Es [Hp [Hc [Hca [Hap Hcases]]]]]].
    cbn [set_st f_state] in Es. injection Es as <-.
    cbn [set_st f_p f_conn f_gap f_ring f_state note w_tx w_calls w_apps w_rx] in *.
    destruct Hcases as [Hrx [[T [S [G R]]]|[T0 [T [S [G R]]]]]].
    + split; [|rewrite S; reflexivity]. unfold facts, facts_l. split; [rewrite Hp; exact Hp0|].
      split; [intros Hn; left; rewrite T; exact Hn|]. split; [intros src Hm; rewrite S in Hm; discriminate Hm|].
      split; [left; rewrite G; exact Hg0|]. intros Hn. rewrite T, Hn. apply sw_rel_quiet; [|rewrite G; exact Hg0].
      rewrite S. destruct Hkind as [K|K]; destruct (f_state f); try discriminate K; cbn; lia.
    + split; [|rewrite S; reflexivity]. unfold facts, facts_l. split; [rewrite Hp; exact Hp0|].
      assert (Hts : ts (set_st f0 (ClaimToken StepFirstToken)) = ts f) by (unfold ts; cbn; rewrite Hp0; reflexivity).
      rewrite Hts in *.
      split; [|split; [intros src Hm; rewrite S in Hm; discriminate Hm|split; [right; right; right; left; split; [exact S|exact G]|]]].
      2:{ intros _. rewrite T. left. right. right. right. right. left. split; [reflexivity|]. split; [destruct Hkind as [K|K]; [left|right; left]; exact K|]. split; [exact G|rewrite S; reflexivity]. }
      intros _. right. eexists. split; [exact T|]. right. split; [apply quiet_calls_same; exact Hca|]. left.
      eexists. split; [reflexivity|]. left. split; [reflexivity|]. left. split; [exact S|]. left.
      unfold idle_kind. tauto.
  - injection H as <- <- <-. split; [unfold same_but_lba; tauto|]. split; [reflexivity|].
    intros Hle l' Hl'. rewrite Hl0 in Hl'. injection Hl' as <-. destruct (f_lba f) as [l0|] eqn:E0; [subst l; exact (Hle l0 E0)|lia].
Qed.

(* ------------------------------------------------------------------------------------------ *)
(* the receive loops of ListenToken / ActiveIdle / CheckTokenPass                               *)

(* where the receive callbacks can take the state: nowhere, or into a listening / idle / token-use state *)
Definition rx_kind (s : state) : Prop :=
  kind_of s = KListenToken \/ kind_of s = KOffline \/ kind_of s = KActiveIdle \/ kind_of s = KUseToken.

Lemma handle_telegram_kind now f (w : W) t il f' w' :
  handle_telegram A now f w t il = Ok (f', w') -> f_state f' = f_state f \/ rx_kind (f_state f').
Proof.
  unfold handle_telegram, rx_kind. intros H.
  destruct (f_state f) as [ | |sr0 cc0|sr nps cc| | | | | | ] eqn:Es; cbn [negb kind_of state_kind_eqb] in H; try discriminate H.
  - injection H as <- <-. left. exact Es.
  - destruct t as [h pdu|da sa|].
    + destruct (is_fdl_status_request h && (h_da h =? ts f) && il).
      * cbn [get_active_idle bind] in H. injection H as <- <-. right. cbn. tauto.
      * injection H as <- <-. left. exact Es.
    + cbn [get_active_idle bind] in H.
      destruct (sa =? ts f).
      * destruct (u8_add cc 1) as [cc'| |]; cbn [bind] in H; try discriminate H.
        destruct (cc' =? active_idle_collision_tolerated).
        -- injection H as <- <-. right. cbn. tauto.
        -- apply trans_spec in H. destruct H as [s' [Ht [-> ->]]]. cbn in Ht. injection Ht as <-. right. cbn. tauto.
      * match type of H with (if ?c then _ else _) = _ => destruct c end.
        -- destruct (witness _ _ _) as [r| |]; cbn [bind] in H; try discriminate H. injection H as <- <-. right. cbn. tauto.
        -- match type of H with (if ?c then _ else _) = _ => destruct c end.
           ++ apply trans_spec in H. destruct H as [s' [Ht [-> ->]]]. cbn in Ht. injection Ht as <-. right. cbn. tauto.
           ++ destruct nps as [address|].
              ** destruct (address =? sa).
                 --- destruct (witness _ _ _) as [r| |]; cbn [bind] in H; try discriminate H.
                     apply trans_spec in H. destruct H as [s' [Ht [-> ->]]]. cbn in Ht. injection Ht as <-. right. cbn. tauto.
                 --- injection H as <- <-. right. cbn. tauto.
              ** injection H as <- <-. right. cbn. tauto.
    + injection H as <- <-. left. exact Es.
Qed.

Lemma active_idle_telegram_kind now (f : fdl) (w : W) t il f' w' u :
  active_idle_telegram A now (f, w) t il = Ok (f', w', u) -> f_state f' = f_state f \/ rx_kind (f_state f').
Proof.
  unfold active_idle_telegram. intros H.
  destruct (handle_telegram A now (mark_rx f now) w t il) as [[f1 w1]| |] eqn:Eh; cbn [bind] in H; try discriminate H.
  injection H as <- <- _. apply handle_telegram_kind in Eh.
  destruct (mark_rx_frame f now) as [_ [_ [_ [Ms _]]]]. rewrite Ms in Eh. exact Eh.
Qed.

Lemma check_token_pass_telegram_kind now (f : fdl) (w : W) fi t il f' w' fi' u :
  check_token_pass_telegram A now (f, w, fi) t il = Ok (f', w', fi', u) -> f_state f' = f_state f \/ rx_kind (f_state f').
Proof.
  unfold check_token_pass_telegram. intros H.
  destruct (mark_rx_frame f now) as [_ [_ [_ [Ms _]]]].
  match type of H with bind ?x _ = _ => destruct x as [[f1 w1]| |] eqn:E1 end; cbn [bind] in H; try discriminate H.
  destruct (handle_telegram A now f1 w1 t il) as [[f2 w2]| |] eqn:Eh; cbn [bind] in H; try discriminate H.
  injection H as <- <- _ _. apply handle_telegram_kind in Eh.
  destruct fi.
  - apply trans_spec in E1. destruct E1 as [s' [Htr [-> ->]]].
    unfold transition_active_idle in Htr. destruct (assert_kind _ _); cbn [bind] in Htr; try discriminate Htr. injection Htr as <-.
    cbn in Eh. right. destruct Eh as [->|X]; [unfold rx_kind; cbn; tauto|exact X].
  - injection E1 as <- <-. rewrite Ms in Eh. exact Eh.
Qed.

Lemma listen_token_telegram_kind now (f : fdl) (w : W) t il f' w' u :
  listen_token_telegram A now (f, w) t il = Ok (f', w', u) -> f_state f' = f_state f \/ rx_kind (f_state f').
Proof.
  unfold listen_token_telegram. intros H.
  destruct (mark_rx_frame f now) as [_ [_ [_ [Ms _]]]].
  assert (Hrest : forall X : res (fdl * W * unit),
    X = Ok (f', w', u) ->
    X = (if opt_eqb (source_address t) (Some (ts (mark_rx f now)))
     then let* (sr, cc) := get_listen_token (f_state (mark_rx f now)) in
          let* cc0 := u8_add cc 1 in
          let f0 := set_st (mark_rx f now) (ListenToken sr cc0) in
          if cc0 =? listen_collision_tolerated then Ok (f0, note A w TLtCollisionFirst, tt)
          else let* f1 := set_offline f0 in Ok (f1, note A w TLtCollisionOffline, tt)
     else match t with
          | TData h _ =>
              if is_fdl_status_request h && (h_da h =? ts (mark_rx f now))
              then if il
                   then let* (_, cc) := get_listen_token (f_state (mark_rx f now)) in
                        Ok (set_st (mark_rx f now) (ListenToken (Some (h_sa h)) cc), note A w TLtStatusReqLast, tt)
                   else Ok (mark_rx f now, note A w TLtStatusReqNotLast, tt)
              else Ok (mark_rx f now, note A w TLtOther, tt)
          | TToken da sa => let* r := witness (f_ring (mark_rx f now)) sa da in Ok (set_ring (mark_rx f now) r, note A w TLtWitness, tt)
          | TShortConf => Ok (mark_rx f now, note A w TLtOther, tt)
          end) ->
    f_state f' = f_state f \/ rx_kind (f_state f')).
  { clear H. intros X HX ->. unfold rx_kind. destruct (opt_eqb _ _).
    - destruct (get_listen_token _) as [[sr cc]| |]; cbn [bind] in HX; try discriminate HX.
      destruct (u8_add cc 1) as [cc'| |]; cbn [bind] in HX; try discriminate HX.
      destruct (cc' =? listen_collision_tolerated).
      + injection HX as <- _ _. right. cbn. tauto.
      + unfold set_offline, set_state, fdl_new in HX.
        destruct (negb _); [discriminate HX|]. destruct (negb _); [discriminate HX|].
        destruct (ring_new _) as [r0| |]; cbn [bind] in HX; try discriminate HX.
        injection HX as <- _ _. right. cbn. tauto.
    - destruct t as [h pdu|da sa|].
      + destruct (is_fdl_status_request h && _).
        * destruct il.
          -- destruct (get_listen_token _) as [[sr cc]| |]; cbn [bind] in HX; try discriminate HX.
             injection HX as <- _ _. right. cbn. tauto.
          -- injection HX as <- _ _. left. exact Ms.
        * injection HX as <- _ _. left. exact Ms.
      + destruct (witness _ _ _) as [r0| |]; cbn [bind] in HX; try discriminate HX.
        injection HX as <- _ _. left. cbn. exact Ms.
      + injection HX as <- _ _. left. exact Ms. }
  destruct (f_conn (mark_rx f now)).
  - injection H as <- _ _. left. exact Ms.
  - exact (Hrest _ H eq_refl).
  - exact (Hrest _ H eq_refl).
Qed.

Definition cb_facts {St : Type} (now : Z) (fw : St -> fdl * W) (cb : St -> telegram -> bool -> res (St * unit)) : Prop :=
  forall s t il s' u, cb s t il = Ok (s', u) ->
  let f := fst (fw s) in let w := snd (fw s) in let f' := fst (fw s') in let w' := snd (fw s') in
  (f_state f' = f_state f \/ rx_kind (f_state f')) /\
  (f_lba f' = f_lba (mark_rx f now) \/ (f_lba f' = None /\ f_state f' = Offline)) /\
  f_p f' = f_p f /\ w_tx w' = w_tx w /\ w_calls w' = w_calls w /\ w_apps w' = w_apps w /\
  ((f_gap f' = f_gap f /\ f_conn f' = f_conn f) \/ (f_state f' = Offline /\ f_conn f' = ConnOffline)) /\
  (f_conn f = ConnOffline -> f_state f = Offline -> f_state f' = f_state f /\ f_gap f' = f_gap f) /\
  (forall src, marker (f_state f') = Some src ->
     marker (f_state f) = Some src \/ (il = true /\ is_status_request_to (ts f) src t)).

Lemma receive_all_cb_facts {St : Type} now (fw : St -> fdl * W) cb fuel s buf s' rest r :
  cb_facts now fw cb -> receive_all cb fuel s buf = Ok (s', rest, r) ->
  let f := fst (fw s) in let w := snd (fw s) in let f' := fst (fw s') in let w' := snd (fw s') in
  f_p f' = f_p f /\ w_tx w' = w_tx w /\ w_calls w' = w_calls w /\ w_apps w' = w_apps w /\
  (f_gap f' = f_gap f \/ (f_state f' = Offline /\ f_conn f' = ConnOffline)) /\
  (forall src, marker (f_state f') = Some src ->
     marker (f_state f) = Some src \/
     (last_request buf (ts f) src /\ rest = [] /\ (lba_le f now -> f_lba f' = Some now))).
Proof.
  intros Hcb H. cbv zeta.
  (* frame *)
  assert (Hfr : f_p (fst (fw s')) = f_p (fst (fw s)) /\ w_tx (snd (fw s')) = w_tx (snd (fw s)) /\
                w_calls (snd (fw s')) = w_calls (snd (fw s)) /\ w_apps (snd (fw s')) = w_apps (snd (fw s)) /\
                (f_gap (fst (fw s')) = f_gap (fst (fw s)) \/ (f_state (fst (fw s')) = Offline /\ f_conn (fst (fw s')) = ConnOffline))).
  { refine (receive_all_inv (fun x => f_p (fst (fw x)) = f_p (fst (fw s)) /\ w_tx (snd (fw x)) = w_tx (snd (fw s)) /\
                w_calls (snd (fw x)) = w_calls (snd (fw s)) /\ w_apps (snd (fw x)) = w_apps (snd (fw s)) /\
                (f_gap (fst (fw x)) = f_gap (fst (fw s)) \/ (f_state (fst (fw x)) = Offline /\ f_conn (fst (fw x)) = ConnOffline)))
              cb _ fuel s buf s' rest r _ H).
    - intros x t il x' u [I1 [I2 [I3 [I4 I5]]]] Hc. destruct (Hcb _ _ _ _ _ Hc) as [CK [_ [C1 [C2 [C3 [C4 [C5 [C6 _]]]]]]]].
      rewrite C1, C2, C3, C4. repeat (split; [assumption|]).
      destruct I5 as [I5|[I5 I6]].
      + destruct C5 as [[C5 _]|C5]; [left; rewrite C5; exact I5|right; exact C5].
      + right. destruct (C6 I6 I5) as [D1 D2]. split; [rewrite D1; exact I5|]. destruct C5 as [[_ C5]|[_ C5]]; [rewrite C5; exact I6|exact C5].
    - repeat (split; [reflexivity|]). left. reflexivity. }
  destruct Hfr as [F1 [F2 [F3 [F4 F5]]]]. repeat (split; [assumption|]).
  intros src Hm.
  assert (Hdec : marker (f_state (fst (fw s))) = Some src \/ marker (f_state (fst (fw s))) <> Some src).
  { destruct (marker (f_state (fst (fw s)))) as [m|]; [|right; discriminate].
    destruct (Z.eq_dec m src) as [->|Hne]; [left; reflexivity|right; intros Q; injection Q as Q; contradiction]. }
  destruct Hdec as [Hd|Hd]; [left; exact Hd|]. right.
  destruct (receive_all_last_inv
      (fun x => marker (f_state (fst (fw x))) <> Some src /\ f_p (fst (fw x)) = f_p (fst (fw s)) /\
                (lba_le (fst (fw s)) now -> lba_le (fst (fw x)) now))
      (fun x t => is_status_request_to (ts (fst (fw s))) src t /\ (lba_le (fst (fw s)) now -> f_lba (fst (fw x)) = Some now)) cb)
      with (fuel := fuel) (s := s) (buf := buf) (s' := s') (rest := rest) (r := r)
      as [[X _]|[pre [suf [t [Hb [Hdc [[Hq Hlb] Hrest]]]]]]]; try assumption.
  - intros x t x' u [I1 [I2 I3]] Hc. destruct (Hcb _ _ _ _ _ Hc) as [CK [C0 [C1 [_ [_ [_ [_ [_ C7]]]]]]]].
    split; [|split; [rewrite C1; exact I2|]].
    + intros Hx. destruct (C7 src Hx) as [Y|[Y _]]; [contradiction|discriminate Y].
    + intros Hs. specialize (I3 Hs). destruct C0 as [C0|[C0 _]].
      * intros l Hl. rewrite C0, (mark_rx_lba _ _ I3) in Hl. injection Hl as <-. lia.
      * intros l Hl. rewrite C0 in Hl. discriminate Hl.
  - intros x t x' u [I1 [I2 I3]] Hc. destruct (Hcb _ _ _ _ _ Hc) as [CK [C0 [C1 [_ [_ [_ [_ [_ C7]]]]]]]].
    assert (Hle : lba_le (fst (fw s)) now -> lba_le (fst (fw x')) now).
    { intros Hs. specialize (I3 Hs). destruct C0 as [C0|[C0 _]].
      - intros l Hl. rewrite C0, (mark_rx_lba _ _ I3) in Hl. injection Hl as <-. lia.
      - intros l Hl. rewrite C0 in Hl. discriminate Hl. }
    assert (Hdec' : marker (f_state (fst (fw x'))) = Some src \/ marker (f_state (fst (fw x'))) <> Some src).
    { destruct (marker (f_state (fst (fw x')))) as [m|]; [|right; discriminate].
      destruct (Z.eq_dec m src) as [->|Hne]; [left; reflexivity|right; intros Q; injection Q as Q; contradiction]. }
    destruct Hdec' as [Hm'|Hm'].
    + right. destruct (C7 src Hm') as [Y|[_ Y]]; [contradiction|]. split.
      * unfold ts in *. rewrite I2 in Y. exact Y.
      * intros Hs. destruct C0 as [C0|[_ C0]]; [rewrite C0; apply mark_rx_lba; exact (I3 Hs)|].
        rewrite C0 in Hm'. discriminate Hm'.
    + left. split; [exact Hm'|]. split; [rewrite C1; exact I2|exact Hle].
  - split; [exact Hd|]. split; [reflexivity|]. intros Hs. exact Hs.
  - contradiction.
  - split; [exists pre, suf, t; repeat split; assumption|]. split; assumption.
Qed.

Lemma listen_cb_facts now : cb_facts now (fun s : fdl * W => s) (listen_token_telegram A now).
Proof.
  intros [f w] t il [f' w'] u Hc. cbn [fst snd]. split; [exact (listen_token_telegram_kind _ _ _ _ _ _ _ _ Hc)|].
  split; [exact (listen_token_telegram_lba _ _ _ _ _ _ _ _ Hc)|].
  apply listen_token_telegram_facts in Hc.
  destruct Hc as [C1 [C2 [C3 [C4 [C5 [C6 C7]]]]]]. repeat (split; [assumption|]). split; [|exact C7].
  intros Hco _. exact (C6 Hco).
Qed.

Lemma handle_telegram_offline now f (w : W) t il : f_state f = Offline -> handle_telegram A now f w t il = Panic SiteAssert.
Proof. intros E. unfold handle_telegram. rewrite E. reflexivity. Qed.

Lemma active_idle_cb_facts now : cb_facts now (fun s : fdl * W => s) (active_idle_telegram A now).
Proof.
  intros [f w] t il [f' w'] u Hc. cbn [fst snd]. pose proof Hc as Hraw. split; [exact (active_idle_telegram_kind _ _ _ _ _ _ _ _ Hc)|].
  apply active_idle_telegram_facts in Hc.
  destruct Hc as [C1 [C2 [C3 [C4 [C5 [C6 [C0 C7]]]]]]]. split; [left; exact C0|]. repeat (split; [assumption|]).
  split; [left; split; assumption|]. split; [|exact C7].
  intros _ Hoff. exfalso. unfold active_idle_telegram in Hraw.
  rewrite handle_telegram_offline in Hraw; [discriminate Hraw|].
  destruct (mark_rx_frame f now) as [_ [_ [_ [Ms _]]]]. rewrite Ms. exact Hoff.
Qed.

Lemma check_cb_facts now : cb_facts now (fun s : fdl * W * bool => fst s) (check_token_pass_telegram A now).
Proof.
  intros [[f w] fi] t il [[f' w'] fi'] u Hc. cbn [fst snd]. pose proof Hc as Hraw. split; [exact (check_token_pass_telegram_kind _ _ _ _ _ _ _ _ _ _ Hc)|].
  apply check_token_pass_telegram_facts in Hc.
  destruct Hc as [C1 [C2 [C3 [C4 [C5 [C6 [C0 C7]]]]]]]. split; [left; exact C0|]. repeat (split; [assumption|]).
  split; [left; split; assumption|]. split; [|exact C7].
  intros _ Hoff. exfalso. unfold check_token_pass_telegram in Hraw.
  destruct (mark_rx_frame f now) as [_ [_ [_ [Ms _]]]].
  destruct fi.
  - unfold trans, transition_active_idle, assert_kind in Hraw. rewrite Ms, Hoff in Hraw. cbn in Hraw. discriminate Hraw.
  - cbn [bind] in Hraw. rewrite handle_telegram_offline in Hraw; [discriminate Hraw|]. rewrite Ms. exact Hoff.
Qed.

Lemma receive_all_cb_kind {St : Type} now (fw : St -> fdl * W) cb fuel s buf s' rest r :
  cb_facts now fw cb -> receive_all cb fuel s buf = Ok (s', rest, r) ->
  f_state (fst (fw s')) = f_state (fst (fw s)) \/ rx_kind (f_state (fst (fw s'))).
Proof.
  intros Hcb H.
  refine (receive_all_inv (fun x => f_state (fst (fw x)) = f_state (fst (fw s)) \/ rx_kind (f_state (fst (fw x))))
            cb _ fuel s buf s' rest r _ H).
  - intros x t il x' u I Hc. destruct (Hcb _ _ _ _ _ Hc) as [CK _].
    destruct CK as [CK|CK]; [rewrite CK; exact I|right; exact CK].
  - left. reflexivity.
Qed.

Lemma rx_kind_sw f f' calls calls' : rx_kind (f_state f') -> f_gap f' = f_gap f -> sw_rel f f' calls calls' None.
Proof.
  intros [K|[K|[K|K]]] Hg.
  - left. right. right. right. left. exact K.
  - left. right. right. left. exact K.
  - apply sw_rel_quiet; [|exact Hg]. pose proof (pend_range (f_state f)). destruct (f_state f'); try discriminate K. cbn. lia.
  - apply sw_rel_quiet; [|exact Hg]. pose proof (pend_range (f_state f)). destruct (f_state f'); try discriminate K. cbn. lia.
Qed.

Lemma facts_silent L f f' (w w' : W) now :
  f_p f' = f_p f -> f_state f' = f_state f -> f_gap f' = f_gap f -> w_tx w' = w_tx w -> facts_l L f f' w w' now.
Proof.
  intros Hp Hs Hg Ht. unfold facts_l. split; [exact Hp|]. split; [intros Hn; left; rewrite Ht; exact Hn|].
  split; [intros src Hm; left; rewrite <- Hs; exact Hm|]. split; [left; exact Hg|].
  intros Hn. rewrite Ht, Hn. apply sw_rel_silent; assumption.
Qed.

(* a step that neither transmits nor leaves a pending request nor touches the GAP state *)
Lemma facts_quiet L f f' (w w' : W) now :
  f_p f' = f_p f -> marker (f_state f') = None -> f_gap f' = f_gap f -> w_tx w' = w_tx w ->
  pend (f_state f) <= pend (f_state f') -> facts_l L f f' w w' now.
Proof.
  intros Hp Hs Hg Ht Hpd. unfold facts_l. split; [exact Hp|]. split; [intros Hn; left; rewrite Ht; exact Hn|].
  split; [intros src Hm; rewrite Hs in Hm; discriminate Hm|]. split; [left; exact Hg|].
  intros Hn. rewrite Ht, Hn. apply sw_rel_quiet; assumption.
Qed.

(* ------------------------------------------------------------------------------------------ *)
(* do_listen_token / do_active_idle                                                             *)

Lemma receive_all_telegrams_facts cb f now (w : W) f' w' :
  cb_facts now (fun s : fdl * W => s) cb ->
  receive_all_telegrams A cb f w = Ok (f', w') -> facts f f' w w' now.
Proof.
  intros Hcb. unfold receive_all_telegrams. intros H.
  destruct (receive_all cb _ (f, w) (w_rx w)) as [[[s1 rest] r]| |] eqn:Er; cbn [bind] in H; try discriminate H.
  destruct s1 as [f1 w1]. injection H as <- <-.
  pose proof (receive_all_cb_facts now (fun s : fdl * W => s) cb _ _ _ _ _ _ Hcb Er) as Hf. cbn [fst snd] in Hf.
  destruct Hf as [F1 [F2 [F3 [F4 [F5 F6]]]]].
  unfold facts, facts_l, sync_pending_bytes. cbn [set_pending set_rx f_p f_state f_gap f_conn f_lba f_pending w_tx w_calls w_rx].
  split; [exact F1|]. split; [intros Hn; left; rewrite F2; exact Hn|]. split.
  { intros src Hm. destruct (F6 src Hm) as [X|[X1 [-> X3]]]; [left; exact X|right].
    split; [exact X1|]. split; [reflexivity|]. split; [apply Nat.min_0_r|exact X3]. }
  pose proof (receive_all_cb_kind now (fun s : fdl * W => s) cb _ _ _ _ _ _ Hcb Er) as HK. cbn [fst snd] in HK.
  split; [destruct F5 as [F5|F5]; [left; exact F5|right; right; right; right; exact F5]|].
  intros Hn. rewrite F2, Hn. destruct F5 as [F5|[F5 _]].
  - destruct HK as [HK|HK]; [apply sw_rel_silent; assumption|apply rx_kind_sw; assumption].
  - left. right. right. left. cbn [set_pending f_state]. rewrite F5. reflexivity.
Qed.

Lemma do_listen_token_facts f now (w : W) f' w' :
  do_listen_token A f now w = Ok (f', w') -> facts f f' w w' now.
Proof.
  unfold do_listen_token, assert_entry. intros H.
  destruct (f_state f) as [ | |sr0 cc0| | | | | | | ] eqn:Es; cbn [kind_of do_fn_entry state_kind_eqb bind] in H; try discriminate H.
  destruct (handle_lost_token A f now w) as [[[f0 w0] d]| |] eqn:Eh; cbn [bind] in H; try discriminate H.
  apply handle_lost_token_facts in Eh; [|rewrite Es; cbn; tauto]. destruct d.
  - injection H as <- <-. exact (proj1 Eh).
  - destruct Eh as [[Hp0 [Hr0 [Hc0 [Hg0 [Hs0 _]]]]] [-> Hle0]].
    rewrite Hs0, Es in H. cbn [get_listen_token bind] in H.
    destruct sr0 as [src|].
    + destruct (wait_synchronization_pause f0 now) as [[f1 wait]| |] eqn:Ew; cbn [bind] in H; try discriminate H.
      apply wait_sync_same in Ew. destruct Ew as [[Hp1 [Hr1 [Hc1 [Hg1 [Hs1 _]]]]] _].
      destruct wait.
      * injection H as <- <-. apply facts_silent; cbn; congruence.
      * unfold status_response_header in H.
        destruct (phy_send A w _) as [[w1 n]| |] eqn:Ep; cbn [bind] in H; try discriminate H.
        apply phy_send_data_spec in Ep. destruct Ep as [Hn [_ ->]].
        assert (Hts : ts f1 = ts f) by (unfold ts; rewrite Hp1, Hp0; reflexivity).
        assert (Hring : f_ring f1 = f_ring f) by (rewrite Hr1; exact Hr0).
        rewrite Hts, Hring in H.
        match type of H with bind ?x _ = _ => destruct x as [[f2 w2]| |] eqn:Et end; cbn [bind] in H; try discriminate H.
        destruct (mark_tx f2 now n) as [f3| |] eqn:Em; cbn [bind] in H; try discriminate H.
        injection H as <- <-. apply mark_tx_same in Em. destruct Em as [Hp3 [Hr3 [Hc3 [Hg3 [Hs3 _]]]]].
        assert (H2 : f_p f2 = f_p f /\ f_gap f2 = f_gap f /\ w_calls w2 = w_calls w /\
                     w_tx w2 = Some (reply_wire src (ts f) (if ready_for_ring (f_ring f) && (src =? r_ps (f_ring f)) then listen_reply_ready else listen_reply_not_ready)) /\
                     f_state f2 = (if ready_for_ring (f_ring f) then ActiveIdle None None 0 else ListenToken None cc0)).
        { destruct (ready_for_ring (f_ring f)).
          - apply trans_spec in Et. destruct Et as [s' [Htr [-> ->]]]. rewrite Hs1, Hs0, Es in Htr. cbn in Htr. injection Htr as <-.
            cbn. repeat split; try congruence; try (destruct (src =? r_ps (f_ring f)); reflexivity).
          - rewrite Hs1, Hs0, Es in Et. cbn [get_listen_token bind] in Et. injection Et as <- <-. cbn. repeat split; congruence. }
        destruct H2 as [Hp2 [Hg2 [Hca2 [Htx2 Hs2]]]].
        unfold facts, facts_l. split; [congruence|]. split; [|split].
        -- intros _. right. eexists. split; [exact Htx2|]. right. split; [apply quiet_calls_same; exact Hca2|]. right. right.
           eexists; eexists. split; [reflexivity|]. left. exists cc0. split; [exact Es|]. split; [reflexivity|]. rewrite Hs3. exact Hs2.
        -- intros s Hm. rewrite Hs3, Hs2 in Hm. destruct (ready_for_ring (f_ring f)); discriminate Hm.
        -- split; [left; congruence|]. intros _. rewrite Htx2. right. right. right.
           split; [right; right; left; eexists; eexists; split; [reflexivity|left; rewrite Es; reflexivity]|].
           left. split; [congruence|]. rewrite Hs3, Hs2, Es. destruct (ready_for_ring (f_ring f)); cbn; lia.
    + apply receive_all_telegrams_facts with (now := now) in H; [|apply listen_cb_facts].
      apply (facts_pre f f0 f' w w w' now); try assumption; try reflexivity.
Qed.

Lemma do_active_idle_facts f now (w : W) f' w' :
  do_active_idle A f now w = Ok (f', w') -> facts f f' w w' now.
Proof.
  unfold do_active_idle, assert_entry. intros H.
  destruct (f_state f) as [ | | |sr0 nps0 cc0| | | | | | ] eqn:Es; cbn [kind_of do_fn_entry state_kind_eqb bind] in H; try discriminate H.
  destruct (handle_lost_token A f now w) as [[[f0 w0] d]| |] eqn:Eh; cbn [bind] in H; try discriminate H.
  apply handle_lost_token_facts in Eh; [|rewrite Es; cbn; tauto]. destruct d.
  - injection H as <- <-. exact (proj1 Eh).
  - destruct Eh as [[Hp0 [Hr0 [Hc0 [Hg0 [Hs0 _]]]]] [-> Hle0]].
    rewrite Hs0, Es in H. cbn [get_active_idle bind] in H.
    destruct sr0 as [src|].
    + destruct (wait_synchronization_pause f0 now) as [[f1 wait]| |] eqn:Ew; cbn [bind] in H; try discriminate H.
      apply wait_sync_same in Ew. destruct Ew as [[Hp1 [Hr1 [Hc1 [Hg1 [Hs1 _]]]]] _].
      destruct wait.
      * injection H as <- <-. apply facts_silent; cbn; congruence.
      * unfold status_response_header in H.
        destruct (phy_send A w _) as [[w1 n]| |] eqn:Ep; cbn [bind] in H; try discriminate H.
        apply phy_send_data_spec in Ep. destruct Ep as [Hn [_ ->]].
        assert (Hts : ts f1 = ts f) by (unfold ts; rewrite Hp1, Hp0; reflexivity).
        rewrite Hts in H.
        destruct (mark_tx _ now n) as [f3| |] eqn:Em; cbn [bind] in H; try discriminate H.
        injection H as <- <-. apply mark_tx_same in Em. destruct Em as [Hp3 [Hr3 [Hc3 [Hg3 [Hs3 _]]]]].
        cbn in Hp3, Hg3, Hs3.
        unfold facts, facts_l. split; [congruence|]. split; [|split].
        -- intros _. right. eexists. split; [reflexivity|]. right. split; [apply quiet_calls_same; reflexivity|]. right. right.
           eexists; eexists. split; [reflexivity|]. right. exists nps0, cc0. split; [exact Es|]. split; [reflexivity|]. exact Hs3.
        -- intros s Hm. rewrite Hs3 in Hm. discriminate Hm.
        -- split; [left; congruence|]. intros _. cbn [sent w_tx note]. right. right. right.
           split; [right; right; left; eexists; eexists; split; [reflexivity|right; rewrite Es; reflexivity]|].
           left. split; [congruence|]. rewrite Hs3, Es. cbn. lia.
    + apply receive_all_telegrams_facts with (now := now) in H; [|apply active_idle_cb_facts].
      apply (facts_pre f f0 f' w w w' now); try assumption; try reflexivity.
Qed.

(* ------------------------------------------------------------------------------------------ *)
(* do_check_token_pass                                                                          *)

Lemma check_slot_expired_lba f now f' b : check_slot_expired f now = Ok (f', b) -> lba_le f now -> lba_le f' now.
Proof.
  unfold check_slot_expired. destruct (lba_get_or_insert f now) as [l f1] eqn:E.
  apply lba_get_or_insert_same in E. destruct E as [_ [Hl Hm]].
  destruct (inst_add _ _); cbn [bind]; try discriminate. intros H. injection H as <- _.
  intros Hle l' Hl'. rewrite Hl in Hl'. injection Hl' as <-. destruct (f_lba f) as [l0|] eqn:E0; [subst l; exact (Hle l0 E0)|lia].
Qed.

(* do_pass_token stays in PassToken only while the synchronisation pause is not over *)
Lemma do_pass_token_wait_timing f now (w : W) f' w' l :
  do_pass_token A f now w = Ok (f', w') -> kind_of (f_state f') = KPassToken -> f_lba f = Some l ->
  now <= l + p_bits_to_time (f_p f) sync_pause_bits.
Proof.
  unfold do_pass_token, assert_entry. intros H Hk Hl.
  destruct (f_state f) as [ | | | | | | |dg att| | ] eqn:Es; cbn [kind_of do_fn_entry state_kind_eqb bind] in H; try discriminate H.
  unfold wait_synchronization_pause, lba_get_or_insert in H. rewrite Hl in H.
  destruct (inst_add l _) as [dl| |] eqn:Ed; cbn [bind] in H; try discriminate H.
  unfold inst_add in Ed. destruct (i64_ok _); [|discriminate Ed]. injection Ed as <-.
  destruct (Z.leb_spec now (l + p_bits_to_time (f_p f) sync_pause_bits)) as [Hle|Hgt]; [exact Hle|exfalso].
  rewrite Es in H. cbn [get_pass_token bind] in H.
  match type of H with bind ?x _ = _ => destruct x as [[[f2 w2] polled]| |] eqn:E2 end; cbn [bind] in H; try discriminate H.
  destruct polled as [pa|].
  - apply trans_spec in H. destruct H as [s' [Ht [-> _]]].
    unfold transition_await_status_response in Ht. destruct (assert_kind _ _); cbn [bind] in Ht; try discriminate Ht.
    injection Ht as <-. discriminate Hk.
  - apply pass_token_tail_state in H. destruct H as [[tk S]|[a S]]; rewrite S in Hk; discriminate Hk.
Qed.

Lemma check_slot_expired_timing f now f1 : check_slot_expired f now = Ok (f1, true) ->
  exists l, f_lba f1 = Some l /\ l + slot_time (f_p f) < now.
Proof.
  unfold check_slot_expired. destruct (lba_get_or_insert f now) as [l f0] eqn:E.
  apply lba_get_or_insert_same in E. destruct E as [[Hp _] [Hl _]].
  unfold inst_add. destruct (i64_ok _); cbn [bind]; [|discriminate].
  intros H. injection H as <- Hb. exists l. split; [exact Hl|]. apply Z.ltb_lt in Hb. rewrite Hp in Hb. exact Hb.
Qed.

Lemma do_check_token_pass_facts f now (w : W) f' w' :
  do_check_token_pass A f now w = Ok (f', w') -> facts f f' w w' now.
Proof.
  unfold do_check_token_pass, assert_entry. intros H.
  destruct (f_state f) as [ | | | | | | | |att0| ] eqn:Es; cbn [kind_of do_fn_entry state_kind_eqb bind] in H; try discriminate H.
  destruct (check_slot_expired f now) as [[f1 expired]| |] eqn:Ec; cbn [bind] in H; try discriminate H.
  pose proof (check_slot_expired_lba _ _ _ _ Ec) as Hle1.
  assert (Htm : expired = true -> exists l, f_lba f1 = Some l /\ l + slot_time (f_p f) < now)
    by (intros ->; eapply check_slot_expired_timing; exact Ec).
  apply check_slot_expired_same in Ec. destruct Ec as [Hp1 [Hr1 [Hc1 [Hg1 [Hs1 _]]]]].
  destruct expired.
  - rewrite Hs1, Es in H. cbn [get_check_token_pass_attempt bind] in H.
    match type of H with bind ?x _ = _ => destruct x as [[f2 w2]| |] eqn:E2 end; cbn [bind] in H; try discriminate H.
    assert (H2 : f_p f2 = f_p f /\ f_gap f2 = f_gap f /\ f_state f2 = f_state f /\ w_tx w2 = w_tx w /\ w_calls w2 = w_calls w /\ f_lba f2 = f_lba f1).
    { destruct (check_pass_removes att0).
      - destruct (remove_station _ _) as [r| |]; cbn [bind] in E2; try discriminate E2.
        injection E2 as <- <-. cbn. repeat split; assumption || reflexivity.
      - injection E2 as <- <-. cbn. repeat split; assumption || reflexivity. }
    destruct H2 as [Hp2 [Hg2 [Hs2 [Ht2 [Hca2 Hl2]]]]].
    match type of H with context [trans A ?a ?b ?c] => destruct (trans A a b c) as [[f3 w3]| |] eqn:Et end; cbn [bind] in H; try discriminate H.
    apply trans_spec in Et. destruct Et as [s' [Htr [-> ->]]]. rewrite Hs2, Es in Htr. cbn in Htr. injection Htr as <-.
    pose proof H as Hraw.
    apply do_pass_token_spec in H. destruct H as [dg [att [Hst [Hp [Hc [Hca [Hap [Hrx Hcases]]]]]]]].
    cbn [set_st f_state f_p f_conn f_gap f_ring note w_calls w_apps w_rx w_tx] in *. injection Hst as <- <-.
    assert (Hts : ts (set_st f2 (PassToken false (check_pass_next att0))) = ts f) by (unfold ts; cbn; rewrite Hp2; reflexivity).
    destruct Hcases as [[T [S [G R]]]|[[D _]|[G [T0 [T [Wi St]]]]]].
    + (* the pause is not over although the slot time is: only with a slot time below 33 bit *)
      destruct (Htm eq_refl) as [l [El Hlt]].
      assert (Hshort : short_slot f).
      { pose proof (do_pass_token_wait_timing _ _ _ _ _ l Hraw ltac:(rewrite S; reflexivity) ltac:(cbn; congruence)) as Hw.
        cbn [set_st f_p] in Hw. rewrite Hp2 in Hw. unfold short_slot. lia. }
      unfold facts, facts_l. split; [congruence|]. split; [intros Hn; left; congruence|].
      split; [intros src Hm; rewrite S in Hm; discriminate Hm|]. split; [left; congruence|].
      intros _. left. right. right. right. right. right. exact Hshort.
    + discriminate D.
    + unfold facts, facts_l. split; [congruence|]. split; [|split].
      * intros _. right. eexists. split; [exact T|]. right. split; [apply quiet_calls_same; congruence|]. left.
        eexists. split; [rewrite Hts; reflexivity|]. right. split; [|right; right; left; rewrite Es; reflexivity].
        destruct St as [[_ S]|[_ S]]; [left; exact S|right; eexists; exact S].
      * intros src Hm. destruct St as [[_ S]|[_ S]]; rewrite S in Hm; discriminate Hm.
      * split; [left; congruence|]. intros _. rewrite T. right. right. right.
        split; [right; right; right; eexists; split; [rewrite Hts; reflexivity|rewrite Es; reflexivity]|].
        left. split; [congruence|]. rewrite Es. destruct St as [[_ S]|[_ S]]; rewrite S; cbn; lia.
  - destruct (receive_all _ _ (f1, w, true) (w_rx w)) as [[[s1 rest] r]| |] eqn:Er; cbn [bind] in H; try discriminate H.
    destruct s1 as [[f2 w2] fi]. injection H as <- <-.
    pose proof (receive_all_cb_facts now (fun s : fdl * W * bool => fst s) _ _ _ _ _ _ _ (check_cb_facts now) Er) as Hf. cbn [fst snd] in Hf.
    destruct Hf as [F1 [F2 [F3 [F4 [F5 F6]]]]].
    unfold facts, facts_l, sync_pending_bytes. cbn [set_pending set_rx f_p f_state f_gap f_conn f_lba f_pending w_tx w_calls w_rx].
    split; [congruence|]. split; [|split].
    + intros Hn. left. destruct fi; cbn; rewrite F2; exact Hn.
    + intros src Hm. destruct (F6 src Hm) as [X|[X1 [-> X3]]]; [rewrite Hs1, Es in X; discriminate X|].
      right. unfold ts in *. rewrite Hp1 in X1. split; [exact X1|].
      split; [destruct fi; reflexivity|]. split; [apply Nat.min_0_r|]. intros Hle. exact (X3 (Hle1 Hle)).
    + pose proof (receive_all_cb_kind now (fun s : fdl * W * bool => fst s) _ _ _ _ _ _ _ (check_cb_facts now) Er) as HK. cbn [fst snd] in HK.
      split; [destruct F5 as [F5|F5]; [left; congruence|right; right; right; right; exact F5]|].
      intros Hn. assert (Htx : w_tx (if fi then note A w2 TCheckAwait else w2) = None) by (destruct fi; cbn; rewrite F2; exact Hn).
      rewrite Htx. destruct F5 as [F5|[F5 _]].
      * destruct HK as [HK|HK]; [apply sw_rel_silent; cbn [set_pending f_state f_gap]; congruence|apply rx_kind_sw; [exact HK|cbn [set_pending f_gap]; congruence]].
      * left. right. right. left. cbn [set_pending f_state]. rewrite F5. reflexivity.
Qed.

(* ------------------------------------------------------------------------------------------ *)
(* applications: do_use_token / do_await_data_response                                          *)

Lemma app_transmit_facts f now (w : W) idx app hp f' w' d :
  app_transmit_telegram A ops f now w idx app hp = Ok (f', w', d) ->
  kind_of (f_state f) = KUseToken -> w_tx w = None ->
  f_p f' = f_p f /\ f_gap f' = f_gap f /\
  (if d then exists wire er, w_tx w' = Some wire /\ w_calls w' = w_calls w ++ [CallTransmit idx hp (Some (wire, er))] /\
               (kind_of (f_state f') = KUseToken \/ kind_of (f_state f') = KAwaitDataResponse)
   else w_tx w' = None /\ f_state f' = f_state f).
Proof.
  unfold app_transmit_telegram. intros H Hk Hn.
  destruct (a_tx ops app now (f_p f) hp) as [[app' r]| |]; cbn [bind] in H; try discriminate H.
  destruct r as [[wire exp]|].
  - unfold phy_transmit in H. cbn [log_call set_app w_tx] in H. rewrite Hn in H. cbn [bind] in H.
    destruct exp as [addr|].
    + destruct (get_use_token (f_state f)) as [[[tk fa] fcd]| |]; cbn [bind] in H; try discriminate H.
      match type of H with context [trans A ?a ?b ?c] => destruct (trans A a b c) as [[f1 w1]| |] eqn:Et end; cbn [bind] in H; try discriminate H.
      apply trans_spec in Et. destruct Et as [s' [Htr [-> ->]]].
      unfold transition_await_data_response in Htr. destruct (assert_kind _ _); cbn [bind] in Htr; try discriminate Htr. injection Htr as <-.
      destruct (mark_tx _ now _) as [f2| |] eqn:Em; cbn [bind] in H; try discriminate H.
      injection H as <- <- <-. apply mark_tx_same in Em. destruct Em as [Hp [_ [_ [Hg [Hs _]]]]]. cbn in Hp, Hg, Hs.
      split; [exact Hp|]. split; [exact Hg|]. exists wire, (Some addr). cbn. split; [reflexivity|]. split; [reflexivity|].
      right. rewrite Hs. reflexivity.
    + cbn [bind] in H. destruct (mark_tx f now _) as [f2| |] eqn:Em; cbn [bind] in H; try discriminate H.
      injection H as <- <- <-. apply mark_tx_same in Em. destruct Em as [Hp [_ [_ [Hg [Hs _]]]]].
      split; [exact Hp|]. split; [exact Hg|]. exists wire, None. cbn. split; [reflexivity|]. split; [reflexivity|].
      left. rewrite Hs. exact Hk.
  - injection H as <- <- <-. cbn. repeat split; try reflexivity. exact Hn.
Qed.

Lemma apps_loop_facts n : forall f now (w : W) hp f' w' d,
  apps_transmit_loop A ops n f now w hp = Ok (f', w', d) ->
  kind_of (f_state f) = KUseToken -> w_tx w = None ->
  f_p f' = f_p f /\ f_gap f' = f_gap f /\
  (if d then exists wire cs i er, w_tx w' = Some wire /\ w_calls w' = cs ++ [CallTransmit i hp (Some (wire, er))] /\
               (kind_of (f_state f') = KUseToken \/ kind_of (f_state f') = KAwaitDataResponse)
   else w_tx w' = None /\ kind_of (f_state f') = KUseToken).
Proof.
  induction n as [|n IH]; intros f now w hp f' w' d H Hk Hn; cbn [apps_transmit_loop] in H.
  - injection H as <- <- <-. repeat split; try reflexivity; assumption.
  - destruct (nth_error (w_apps w) (f_next_app f)) as [app|]; [|discriminate H].
    destruct (app_transmit_telegram A ops f now w (f_next_app f) app hp) as [[[f1 w1] d1]| |] eqn:Ea; cbn [bind] in H; try discriminate H.
    apply app_transmit_facts in Ea; try assumption. destruct Ea as [Hp1 [Hg1 Hd1]].
    destruct d1.
    + injection H as <- <- <-. split; [exact Hp1|]. split; [exact Hg1|].
      destruct Hd1 as [wire [er [T [C K]]]]. exists wire, (w_calls w), (f_next_app f), er. repeat split; assumption.
    + destruct Hd1 as [T1 S1].
      unfold schedule_next_application in H.
      destruct (get_use_token (f_state f1)) as [[[tk fa] fcd]| |]; cbn [bind] in H; try discriminate H.
      destruct (Nat.eqb (length (w_apps w1)) 0); [discriminate H|]. cbn [bind] in H.
      match type of H with (if ?c then _ else _) = _ => destruct c end.
      * injection H as <- <- <-. cbn. repeat split; assumption || reflexivity.
      * apply IH in H; [|reflexivity|exact T1]. cbn [set_next_app set_st f_p f_gap] in H.
        destruct H as [Hp [Hg Hd]]. split; [congruence|]. split; [congruence|exact Hd].
Qed.

Definition use_facts (f f' : fdl) (w w' : W) : Prop :=
  f_p f' = f_p f /\ f_gap f' = f_gap f /\ (marker (f_state f') = None /\ pend (f_state f') = 1) /\
  (w_tx w = None -> w_tx w' = None \/ exists wire, w_tx w' = Some wire /\ tx_app f f' (w_calls w') wire).

Lemma use_facts_facts f f' (w w' : W) now : use_facts f f' w w' -> facts f f' w w' now.
Proof.
  intros [U1 [U2 [[U3 U3'] U4]]]. unfold facts, facts_l. split; [exact U1|]. split; [|split].
  - intros Hn. destruct (U4 Hn) as [X|[wire [X Y]]]; [left; exact X|right; exists wire; split; [exact X|left; exact Y]].
  - intros src Hm. rewrite U3 in Hm. discriminate Hm.
  - split; [left; exact U2|]. intros Hn. right. right. right. pose proof (pend_range (f_state f)).
    split; [|left; split; [exact U2|lia]].
    destruct (U4 Hn) as [X|[wire [X [cs [i [hp [er [C _]]]]]]]]; [left; exact X|].
    right. left. exists wire, cs, i, hp, er. split; assumption.
Qed.

Lemma do_use_token_head_use_facts f now (w : W) f' w' :
  do_use_token_head A ops f now w = Ok (f', w') -> use_facts f f' w w'.
Proof.
  unfold do_use_token_head, assert_entry. intros H.
  destruct (f_state f) as [ | | | |tk fa fcd| | | | | ] eqn:Es; cbn [kind_of do_fn_entry state_kind_eqb bind get_use_token] in H; try discriminate H.
  match type of H with bind ?x _ = _ => destruct x as [[f1 w1]| |] eqn:E1 end; cbn [bind] in H; try discriminate H.
  assert (H1 : f_p f1 = f_p f /\ f_gap f1 = f_gap f /\ f_state f1 = f_state f /\ w_tx w1 = w_tx w).
  { destruct (negb _).
    - destruct (inst_add _ _) as [e| |]; cbn [bind] in E1; try discriminate E1.
      destruct (f_gap f) eqn:Eg.
      + injection E1 as <- <-. repeat split; try reflexivity; cbn; congruence.
      + destruct (inst_sub_dur _ _) as [e2| |]; cbn [bind] in E1; try discriminate E1.
        injection E1 as <- <-. repeat split; try reflexivity; cbn; congruence.
    - injection E1 as <- <-. repeat split; reflexivity. }
  destruct H1 as [Hp1 [Hg1 [Hs1 Ht1]]].
  destruct (wait_synchronization_pause f1 now) as [[f2 wait]| |] eqn:Ew; cbn [bind] in H; try discriminate H.
  apply wait_sync_same in Ew. destruct Ew as [[Hp2 [_ [_ [Hg2 [Hs2 _]]]]] _].
  destruct wait.
  - injection H as <- <-. unfold use_facts. cbn. split; [congruence|]. split; [congruence|].
    split; [rewrite Hs2, Hs1, Es; split; reflexivity|]. intros Hn. left. congruence.
  - rewrite Hs2, Hs1, Es in H. cbn [get_use_token bind] in H.
    assert (Hloop : forall hp (wx : W) f3 w3 d, w_tx wx = w_tx w ->
      (let* f0 := set_first_cycle_done f2 in apps_transmit_telegram A ops f0 now wx hp) = Ok (f3, w3, d) ->
      (if d then Ok (f3, w3) else trans A f3 w3 (fun s : state => transition_pass_token s true first_attempt)) = Ok (f', w') ->
      use_facts f f' w w').
    { intros hp wx f3 w3 d Hwx Hl Hfin.
      unfold set_first_cycle_done in Hl. rewrite Hs2, Hs1, Es in Hl. cbn [get_use_token bind] in Hl.
      unfold use_facts.
      destruct (w_tx w) eqn:Htw.
      - (* the PHY was already used in this poll: no application can transmit *)
        assert (Hpf : f_p f' = f_p f /\ (marker (f_state f') = None /\ pend (f_state f') = 1) /\ f_gap f' = f_gap f).
        { unfold apps_transmit_telegram in Hl.
          revert Hl. generalize (length (w_apps wx)). intros n Hl.
          assert (G : forall n f4 (w4 : W) f5 w5 d5, apps_transmit_loop A ops n f4 now w4 hp = Ok (f5, w5, d5) ->
                      kind_of (f_state f4) = KUseToken -> w_tx w4 <> None ->
                      f_p f5 = f_p f4 /\ f_gap f5 = f_gap f4 /\ d5 = false /\ kind_of (f_state f5) = KUseToken).
          { clear. induction n as [|n IH]; intros f4 w4 f5 w5 d5 H Hk Hn; cbn [apps_transmit_loop] in H.
            - injection H as <- <- <-. repeat split; try reflexivity. exact Hk.
            - destruct (nth_error (w_apps w4) (f_next_app f4)) as [app|]; [|discriminate H].
              unfold app_transmit_telegram in H.
              destruct (a_tx ops app now (f_p f4) hp) as [[app' r]| |]; cbn [bind] in H; try discriminate H.
              destruct r as [[wire exp]|].
              + unfold phy_transmit in H. cbn [log_call set_app w_tx] in H. destruct (w_tx w4); [|contradiction Hn; reflexivity].
                cbn [bind] in H. discriminate H.
              + cbn [bind] in H. unfold schedule_next_application in H.
                destruct (get_use_token (f_state f4)) as [[[tk fa] fcd]| |]; cbn [bind] in H; try discriminate H.
                match type of H with context [if Nat.eqb ?a 0 then _ else _] => destruct (Nat.eqb a 0) end; [discriminate H|]. cbn [bind] in H.
                match type of H with (if ?c then _ else _) = _ => destruct c end.
                * injection H as <- <- <-. cbn. repeat split; reflexivity.
                * apply IH in H; [|reflexivity|exact Hn]. cbn in H. exact H. }
          apply G in Hl; [|reflexivity|rewrite Hwx; discriminate]. cbn [set_st f_p f_gap] in Hl.
          destruct Hl as [Q1 [Q2 [-> Q4]]].
          apply trans_spec in Hfin. destruct Hfin as [s' [Htr [-> ->]]].
          unfold transition_pass_token in Htr. destruct (assert_kind _ _); cbn [bind] in Htr; try discriminate Htr. injection Htr as <-.
          cbn. repeat split; congruence. }
        destruct Hpf as [Q1 [Q2 Q3]].
        split; [exact Q1|]. split; [exact Q3|]. split; [exact Q2|]. intros C; discriminate C.
      - apply apps_loop_facts in Hl; [|reflexivity|congruence]. cbn [set_st f_p f_gap] in Hl.
        destruct Hl as [Q1 [Q2 Q3]].
        destruct d.
        + injection Hfin as <- <-. destruct Q3 as [wire [cs [i [er [T [C K]]]]]].
          split; [congruence|]. split; [congruence|]. split.
          * destruct K as [K|K]; destruct (f_state f3); try discriminate K; split; reflexivity.
          * intros _. right. exists wire. split; [exact T|]. exists cs, i, hp, er. split; [exact C|]. split; [left; rewrite Es; reflexivity|exact K].
        + destruct Q3 as [T K].
          apply trans_spec in Hfin. destruct Hfin as [s' [Htr [-> ->]]].
          unfold transition_pass_token in Htr. destruct (assert_kind _ _); cbn [bind] in Htr; try discriminate Htr. injection Htr as <-.
          cbn. split; [congruence|]. split; [congruence|]. split; [split; reflexivity|]. intros _. left. exact T. }
    destruct (now <? f_end_tht f2).
    + match type of H with bind ?x _ = _ => destruct x as [[[f3 w3] d]| |] eqn:El end; cbn [bind] in H; try discriminate H.
      exact (Hloop false (note A w1 TUseLowPrio) f3 w3 d Ht1 El H).
    + destruct fcd; cbn [negb] in H.
      * cbn [bind] in H. apply trans_spec in H. destruct H as [s' [Htr [-> ->]]].
        unfold transition_pass_token in Htr. destruct (assert_kind _ _); cbn [bind] in Htr; try discriminate Htr. injection Htr as <-.
        unfold use_facts. cbn. split; [congruence|]. split; [congruence|]. split; [split; reflexivity|]. intros Hn. left. congruence.
      * match type of H with bind ?x _ = _ => destruct x as [[[f3 w3] d]| |] eqn:El end; cbn [bind] in H; try discriminate H.
        exact (Hloop true (note A w1 TUseHighPrioOnce) f3 w3 d Ht1 El H).
Qed.

(* The whole do_use_token (F20 repair): the head, then - when the head found nothing (more) to send -
   do_pass_token in the same poll.  What it transmits is an application's telegram, or (no application
   having sent anything) the GAP request / the token of do_pass_token; the GAP state is left alone or
   advanced by exactly the GAP step of the visit.  Stated without reference to the state of f, so that
   it can be transported along the time-out path of do_await_data_response. *)
Definition pass_token_tx (f f' : fdl) (now : Z) (wire : bytes) : Prop :=
  wire = encode_token (r_ns (f_ring f)) (ts f) /\
  (f_state f' = UseToken now None false \/ exists att, f_state f' = CheckTokenPass att).
Definition pass_gap_tx (f f' : fdl) (wire : bytes) : Prop :=
  exists a, wire = sr_wire a (ts f) /\ in_gap (ts f) (r_ns (f_ring f)) a /\
    (gap_cursor_ok f -> 0 <= a < p_hsa (f_p f)) /\
    f_ring f' = f_ring f /\ f_gap f' = GapDoPoll a /\ f_state f' = AwaitStatusResponse a.

Definition use_pass_facts (f f' : fdl) (calls : list call) (tx0 : option bytes) (w' : W) (now : Z) : Prop :=
  f_p f' = f_p f /\ marker (f_state f') = None /\
  (f_gap f' = f_gap f \/ gap_visit_step f = Ok (f_gap f')) /\
  (tx0 = None -> w_tx w' = None \/ exists wire, w_tx w' = Some wire /\
     ((exists cs i hp er, w_calls w' = cs ++ [CallTransmit i hp (Some (wire, er))] /\ in_use (f_state f')) \/
      ((exists l, w_calls w' = calls ++ l /\ Forall no_send l) /\
       (pass_token_tx f f' now wire \/ pass_gap_tx f f' wire)))) /\
  (tx0 = None -> forall f0, f_p f0 = f_p f -> f_ring f0 = f_ring f -> f_gap f0 = f_gap f -> in_use (f_state f0) ->
     sw_rel f0 f' calls (w_calls w') (w_tx w')).

Lemma use_pass_facts_pre f0 f f' calls0 calls tx0 tx1 (w' : W) now pre :
  f_p f = f_p f0 -> f_ring f = f_ring f0 -> f_gap f = f_gap f0 ->
  tx1 = tx0 -> calls = calls0 ++ pre -> Forall no_send pre ->
  use_pass_facts f f' calls tx1 w' now -> use_pass_facts f0 f' calls0 tx0 w' now.
Proof.
  intros Hp Hr Hg -> -> Hpre [U1 [U2 [U3 [U4 U5]]]]. unfold use_pass_facts.
  split; [congruence|]. split; [exact U2|]. split; [|split].
  - rewrite <- Hg, <- (gap_visit_step_ext f f0 Hp Hr Hg). exact U3.
  - intros Hn. destruct (U4 Hn) as [X|[wire [X Y]]]; [left; exact X|]. right. exists wire. split; [exact X|].
    destruct Y as [Y|[[l [Hl Hf]] Y]]; [left; exact Y|right]. split.
    + exists (pre ++ l). split; [rewrite Hl, app_assoc; reflexivity|apply Forall_app; split; assumption].
    + unfold pass_token_tx, pass_gap_tx, gap_cursor_ok, ts in *. rewrite <- Hp, <- Hr, <- Hg. exact Y.
  - intros Hn f00 Hp0 Hr0 Hg0 Hu0.
    eapply (sw_rel_pre f00 f00); [reflexivity|reflexivity|reflexivity|reflexivity|reflexivity|exact Hpre|].
    apply (U5 Hn); congruence.
Qed.

Lemma use_pass_facts_facts f f' (w w' : W) now :
  in_use (f_state f) -> use_pass_facts f f' (w_calls w) (w_tx w) w' now -> facts f f' w w' now.
Proof.
  intros Hu [U1 [U2 [U3 [U4 U5]]]]. unfold facts, facts_l. split; [exact U1|]. split; [|split].
  - intros Hn. destruct (U4 Hn) as [X|[wire [X Y]]]; [left; exact X|]. right. exists wire. split; [exact X|].
    destruct Y as [[cs [i [hp [er [C K]]]]]|[[l [Hl Hf]] Y]].
    + left. exists cs, i, hp, er. split; [exact C|]. split; [exact Hu|exact K].
    + right. split; [exists l; split; [exact Hl|]; split; [exact Hf|intros _; exact Hu]|].
      destruct Y as [[Hw St]|[a [Hw [Hin [Hr [Hring [Hg St]]]]]]].
      * left. exists (r_ns (f_ring f)). split; [exact Hw|]. right. split; [exact St|]. right. right. right. exact Hu.
      * right. left. exists a. repeat (split; [assumption|]). left. split; [exact St|right; exact Hu].
  - intros src Hm. rewrite U2 in Hm. discriminate Hm.
  - split; [destruct U3 as [X|X]; [left; exact X|right; left; split; [right; exact Hu|exact X]]|].
    intros Hn. apply (U5 Hn); try reflexivity. exact Hu.
Qed.

Lemma is_decline_no_send c : is_decline c -> no_send c.
Proof. intros [i [hp ->]]. exact I. Qed.

Lemma do_use_token_use_pass_facts f now (w : W) f' w' :
  do_use_token A ops f now w = Ok (f', w') -> use_pass_facts f f' (w_calls w) (w_tx w) w' now.
Proof.
  rewrite do_use_token_split. intros H.
  destruct (do_use_token_head A ops f now w) as [[f1 w1]| |] eqn:Eh; cbn [bind] in H; try discriminate H.
  pose proof (do_use_token_head_use_facts _ _ _ _ _ Eh) as [U1 [U2 [U3 U4]]].
  destruct (is_pass_token (f_state f1)) eqn:Ek.
  - destruct (do_use_token_head_pass _ _ _ _ _ _ _ Eh Ek) as [Es1 [Ekf [Hp1 [Hr1 [Hc1 [Hg1 [_ [Ht1 [Hx1 [l [Hl Hdl]]]]]]]]]]].
    assert (Hns : Forall no_send l) by (eapply Forall_impl; [|exact Hdl]; exact is_decline_no_send).
    assert (Hts : ts f1 = ts f) by (unfold ts; rewrite Hp1; reflexivity).
    apply do_pass_token_spec in H. destruct H as [dg [att [Est [Hp [Hc [Hca [Hap [Hrx Hcases]]]]]]]].
    rewrite Es1 in Est. injection Est as <- <-.
    rewrite (gap_visit_step_ext f1 f Hp1 Hr1 Hg1), Hts, Hr1 in Hcases.
    unfold use_pass_facts. split; [congruence|].
    destruct Hcases as [[T [S [G R]]]|[[_ [a [Hstep [G [S [R [T0 T]]]]]]]|[[n [Hstep G]] [T0 [T [Wi St]]]]]].
    + split; [rewrite S, Es1; reflexivity|]. split; [left; congruence|]. split; [intros Hn; left; congruence|].
      intros Hn f0 Hp0 Hr0 Hg0 Hu0. replace (w_tx w') with (@None bytes) by congruence.
      apply sw_rel_quiet; [rewrite S, Es1; pose proof (pend_range (f_state f0)); cbn; lia|congruence].
    + split; [rewrite S; reflexivity|]. split; [right; rewrite G; exact Hstep|]. split.
      * intros _. right. exists (sr_wire a (ts f)). split; [exact T|]. right.
        split; [exists l; split; [congruence|exact Hns]|]. right. exists a.
        destruct (gap_visit_step_in_gap f a Hstep) as [I1 I2].
        split; [reflexivity|]. split; [exact I1|]. split; [exact I2|]. split; [congruence|]. split; [exact G|exact S].
      * intros _ f0 Hp0 Hr0 Hg0 Hu0. rewrite T. right. left. exists a.
        split; [unfold ts; rewrite Hp0; reflexivity|]. split; [exists l; split; [congruence|exact Hns]|].
        split; [rewrite (gap_visit_step_ext f0 f Hp0 Hr0 Hg0); exact Hstep|]. split; [exact G|]. split; [rewrite S; reflexivity|]. split; [congruence|].
        intros C. exfalso. destruct Hu0 as [K|K]; destruct (f_state f0); try discriminate K; discriminate C.
    + split; [destruct St as [[_ S]|[_ S]]; rewrite S; reflexivity|]. split; [right; rewrite G; exact Hstep|]. split.
      * intros _. right. eexists. split; [exact T|]. right.
        split; [exists l; split; [congruence|exact Hns]|]. left. split; [reflexivity|].
        destruct St as [[_ S]|[_ S]]; [left; exact S|right; eexists; exact S].
      * intros _ f0 Hp0 Hr0 Hg0 Hu0. rewrite T. right. right. left. eexists.
        split; [unfold ts; rewrite Hp0; reflexivity|]. split; [exists l; split; [congruence|exact Hns]|].
        split; [right; right; exact Hu0|]. split; [destruct St as [[_ S]|[_ S]]; rewrite S; reflexivity|].
        left. split; [destruct Hu0 as [K|K]; destruct (f_state f0); try discriminate K; reflexivity|].
        split; [rewrite (gap_visit_step_ext f0 f Hp0 Hr0 Hg0), G; exact Hstep|exists n; exact G].
  - injection H as <- <-. unfold use_pass_facts. split; [exact U1|]. split; [exact (proj1 U3)|]. split; [left; exact U2|]. split.
    + intros Hn. destruct (U4 Hn) as [X|[wire [X [cs [i [hp [er [C [_ K]]]]]]]]]; [left; exact X|].
      right. exists wire. split; [exact X|]. left. exists cs, i, hp, er. split; [exact C|exact K].
    + intros Hn f0 Hp0 Hr0 Hg0 Hu0. right. right. right. pose proof (pend_range (f_state f0)).
      split; [|left; split; [congruence|rewrite (proj2 U3); lia]].
      destruct (U4 Hn) as [X|[wire [X [cs [i [hp [er [C _]]]]]]]]; [left; exact X|].
      right. left. exists wire, cs, i, hp, er. split; assumption.
Qed.

Lemma do_use_token_facts f now (w : W) f' w' :
  do_use_token A ops f now w = Ok (f', w') -> facts f f' w w' now.
Proof.
  intros H. apply use_pass_facts_facts; [|exact (do_use_token_use_pass_facts _ _ _ _ _ H)].
  left. unfold do_use_token, assert_entry in H. destruct (f_state f); cbn in H; try discriminate H. reflexivity.
Qed.

Lemma do_await_data_response_facts f now (w : W) f' w' :
  do_await_data_response A ops f now w = Ok (f', w') -> facts f f' w w' now.
Proof.
  unfold do_await_data_response, assert_entry. intros H.
  destruct (f_state f) as [ | | | | | |addr tk fa| | | ] eqn:Es; cbn [kind_of do_fn_entry state_kind_eqb bind get_await_data_response] in H; try discriminate H.
  destruct (nth_error (w_apps w) (f_next_app f)) as [app|]; [|discriminate H].
  destruct (receive_telegram (fun t => t) (w_rx w)) as [[rest received]| |]; cbn [bind] in H; try discriminate H.
  destruct received as [t|].
  - destruct (mark_rx_frame f now) as [Mp [Mr [Mg [Ms _]]]].
    destruct (is_valid_response (mark_rx f now) addr t).
    + destruct (a_rx ops app now _ addr t) as [app'| |]; cbn [bind] in H; try discriminate H.
      match type of H with context [trans A ?a ?b ?c] => destruct (trans A a b c) as [[f1 w1]| |] eqn:Et end; cbn [bind] in H; try discriminate H.
      apply trans_spec in Et. destruct Et as [s' [Htr [-> ->]]].
      unfold transition_use_token in Htr. destruct (assert_kind _ _); cbn [bind] in Htr; try discriminate Htr. injection Htr as <-.
      unfold set_first_cycle_done in H. cbn [set_st f_state get_use_token bind] in H. injection H as <- <-.
      apply facts_quiet; cbn; try congruence. rewrite Es. cbn. lia.
    + apply trans_spec in H. destruct H as [s' [Htr [-> ->]]].
      unfold transition_active_idle in Htr. destruct (assert_kind _ _); cbn [bind] in Htr; try discriminate Htr. injection Htr as <-.
      apply facts_quiet; cbn; try congruence. rewrite Es. cbn. lia.
  - destruct (check_slot_expired _ now) as [[f1 expired]| |] eqn:Ec; cbn [bind] in H; try discriminate H.
    apply check_slot_expired_same in Ec. destruct Ec as [Hp1 [Hr1 [_ [Hg1 [Hs1 _]]]]]. cbn in Hp1, Hr1, Hg1, Hs1.
    destruct expired.
    + destruct (a_to ops app now _ addr) as [app'| |]; cbn [bind] in H; try discriminate H.
      match type of H with context [trans A ?a ?b ?c] => destruct (trans A a b c) as [[f2 w2]| |] eqn:Et end; cbn [bind] in H; try discriminate H.
      apply trans_spec in Et. destruct Et as [s' [Htr [-> ->]]].
      unfold transition_use_token in Htr. destruct (assert_kind _ _); cbn [bind] in Htr; try discriminate Htr. injection Htr as <-.
      unfold set_first_cycle_done in H. cbn [set_st f_state get_use_token bind] in H.
      apply do_use_token_use_pass_facts in H.
      apply use_pass_facts_facts; [right; rewrite Es; reflexivity|].
      eapply (use_pass_facts_pre f _ f' (w_calls w) _ (w_tx w) _ w' now [CallHandleTimeout (f_next_app f) addr]); [| | | | | |exact H].
      * cbn. exact Hp1.
      * cbn. exact Hr1.
      * cbn. exact Hg1.
      * cbn [w_tx w_calls note log_call set_app set_rx]. destruct (Nat.ltb _ _); reflexivity.
      * cbn [w_tx w_calls note log_call set_app set_rx]. destruct (Nat.ltb _ _); reflexivity.
      * constructor; [exact I|constructor].
    + injection H as <- <-. apply facts_silent; cbn; try congruence.
      match goal with |- context [if ?c then _ else _] => destruct c end; reflexivity.
Qed.

(* ------------------------------------------------------------------------------------------ *)
(* poll_inner: the prologue, then one do_* function                                             *)

Definition dispatch (f : fdl) (now : Z) (w : W) : res (fdl * W) :=
  match poll_dispatch (kind_of (f_state f)) with
  | TgUnreachable => Panic SiteUnreachable
  | TgTodo => Panic SiteUnreachable
  | TgDo DoListenToken => do_listen_token A f now w
  | TgDo DoClaimToken => do_claim_token A f now w
  | TgDo DoUseToken => do_use_token A ops f now w
  | TgDo DoAwaitDataResponse => do_await_data_response A ops f now w
  | TgDo DoPassToken => do_pass_token A f now w
  | TgDo DoCheckTokenPass => do_check_token_pass A f now w
  | TgDo DoActiveIdle => do_active_idle A f now w
  | TgDo DoAwaitStatusResponse => do_await_status_response A f now w
  end.

(* what the prologue of poll_inner (connectivity, ongoing transmission, bus activity) may change *)
Definition pre_rel (f f3 : fdl) (w w3 : W) : Prop :=
  f_p f3 = f_p f /\ f_ring f3 = f_ring f /\ f_gap f3 = f_gap f /\ f_conn f3 = f_conn f /\
  w_tx w3 = w_tx w /\ w_calls w3 = w_calls w /\ w_rx w3 = w_rx w /\ w_apps w3 = w_apps w /\
  (f_state f3 = f_state f \/
   (online_entry_kind (kind_of (f_state f)) = true /\ f_state f3 = ListenToken None 0) \/
   (passive_entry_kind (kind_of (f_state f)) = true /\ f_state f3 = PassiveIdle)).

Lemma pre_rel_refl f (w : W) : pre_rel f f w w.
Proof. unfold pre_rel. repeat (split; [reflexivity|]). left. reflexivity. Qed.

Lemma poll_inner_cases f now busy (w : W) f' w' :
  poll_inner ops f now busy w = Ok (f', w') ->
  pre_rel f f' w w' \/ exists f3 w3, pre_rel f f3 w w3 /\ lba_le f3 now /\ dispatch f3 now w3 = Ok (f', w').
Proof.
  unfold poll_inner. intros E.
  match type of E with bind ?r _ = _ => destruct r as [[[f2 w2] off]| |] eqn:Ep end; cbn [bind] in E; try discriminate E.
  assert (Hpre : pre_rel f f2 w w2).
  { destruct (f_conn f).
    - destruct (f_state f); try discriminate Ep. injection Ep as <- <- _. apply pre_rel_refl.
    - destruct (passive_entry_kind _) eqn:Ek.
      + match type of Ep with context [trans A ?a ?b ?c] => destruct (trans A a b c) as [[f3 w3]| |] eqn:Et end; cbn [bind] in Ep; try discriminate Ep.
        injection Ep as <- <- _. apply trans_spec in Et. destruct Et as [s' [Htr [-> ->]]].
        unfold transition_passive_idle in Htr. destruct (assert_kind _ _); cbn [bind] in Htr; try discriminate Htr. injection Htr as <-.
        unfold pre_rel. cbn. repeat (split; [reflexivity|]). right. right. split; [exact Ek|reflexivity].
      + injection Ep as <- <- _. apply pre_rel_refl.
    - destruct (online_entry_kind _) eqn:Ek.
      + match type of Ep with context [trans A ?a ?b ?c] => destruct (trans A a b c) as [[f3 w3]| |] eqn:Et end; cbn [bind] in Ep; try discriminate Ep.
        injection Ep as <- <- _. apply trans_spec in Et. destruct Et as [s' [Htr [-> ->]]].
        unfold transition_listen_token in Htr. destruct (assert_kind _ _); cbn [bind] in Htr; try discriminate Htr. injection Htr as <-.
        unfold pre_rel. cbn. repeat (split; [reflexivity|]). right. left. split; [exact Ek|reflexivity].
      + injection Ep as <- <- _. apply pre_rel_refl. }
  destruct off; [injection E as <- <-; left; exact Hpre|].
  unfold check_for_ongoing_transmision in E.
  destruct Hpre as [P1 [P2 [P3 [P4 [P5 [P6 [P7 [P8 P9]]]]]]]].
  match type of E with context [if ?c then (_, _, true) else _] => destruct c eqn:Eb end.
  - injection E as <- <-. left. unfold pre_rel, mark_bus_activity, lba_get_or_insert. destruct (f_lba f2); cbn; repeat (split; [assumption|]); exact P9.
  - right. apply orb_false_iff in Eb. destruct Eb as [_ Eb].
    assert (Hle2 : lba_le f2 now).
    { intros l Hl. rewrite Hl in Eb. change ongoing_uses_predicted_end with true in Eb. cbn [andb] in Eb. apply Z.leb_gt in Eb. lia. }
    unfold check_for_bus_activity in E.
    match type of E with context [if Nat.ltb ?a ?b then _ else _] => destruct (Nat.ltb a b) end.
    + eexists; eexists. split; [|split; [|exact E]].
      * unfold pre_rel, mark_bus_activity, lba_get_or_insert. destruct (f_lba f2); cbn; repeat (split; [assumption|]); exact P9.
      * intros l Hl. unfold mark_bus_activity, lba_get_or_insert in Hl. destruct (f_lba f2) as [l2|] eqn:E2; cbn in Hl; injection Hl as <-; [specialize (Hle2 l2 E2)|]; lia.
    + exists f2, w2. split; [|split; [exact Hle2|exact E]]. unfold pre_rel. repeat (split; [assumption|]). exact P9.
Qed.

Lemma dispatch_facts f now (w : W) f' w' : dispatch f now w = Ok (f', w') -> facts f f' w w' now.
Proof.
  unfold dispatch. intros E.
  destruct (poll_dispatch (kind_of (f_state f))) as [ | |[ | | | | | | | ]]; try discriminate E;
    [eapply do_listen_token_facts|eapply do_active_idle_facts|eapply do_claim_token_facts|eapply do_use_token_facts
    |eapply do_await_data_response_facts|eapply do_pass_token_facts|eapply do_await_status_response_facts
    |eapply do_check_token_pass_facts]; exact E.
Qed.

Lemma facts_entry f f3 f' (w w3 w' : W) now :
  pre_rel f f3 w w3 -> lba_le f3 now -> f_state f3 <> PassiveIdle -> facts f3 f' w3 w' now -> facts_l True f f' w w' now.
Proof.
  intros [P1 [P2 [P3 [P4 [P5 [P6 [P7 [P8 P9]]]]]]]] Hle3 Hnp Hf.
  destruct P9 as [P9|P9].
  - exact (facts_l_pre True (lba_le f3 now) f f3 f' w w3 w' now P1 P2 P9 P3 P5 P6 P7 (fun _ => Hle3) Hf).
  - assert (Hst : f_state f3 = ListenToken None 0 \/ f_state f3 = PassiveIdle) by (destruct P9 as [[_ X]|[_ X]]; [left|right]; exact X).
    assert (Hidle : idle_kind f).
    { unfold idle_kind. destruct P9 as [[X _]|[X _]]; [right; right; exact X|].
      destruct (f_state f); cbn in X |- *; try discriminate X; tauto. }
    assert (Hent : online_entry_kind (kind_of (f_state f)) = true) by (destruct P9 as [[X _]|[_ X]]; [exact X|contradiction]).
    clear P9. destruct Hf as [F1 [F2 [F3 F4]]].
    assert (Hts : ts f3 = ts f) by (unfold ts; rewrite P1; reflexivity).
    unfold facts, facts_l. split; [congruence|]. split; [|split].
    + intros Hn. rewrite <- P5 in Hn. destruct (F2 Hn) as [X|[wire [X Y]]]; [left; exact X|]. right. exists wire. split; [exact X|].
      rewrite <- P6. destruct Y as [Y|[Yc [Y|[Y|Y]]]].
      * exfalso. destruct Y as [cs [i [hp [er [_ [[K|K] _]]]]]]; destruct Hst as [Q|Q]; rewrite Q in K; discriminate K.
      * right. split.
        { destruct Yc as [l [Hl [Hf Hu]]]. destruct l as [|c l]; [apply quiet_calls_same; rewrite Hl, app_nil_r; reflexivity|].
          exfalso. destruct (Hu ltac:(discriminate)) as [K|K]; destruct Hst as [Q|Q]; rewrite Q in K; discriminate K. }
        left. destruct Y as [da [Hw Y]]. exists da. rewrite <- Hts. split; [exact Hw|].
        destruct Y as [[Hda [[S _]|[_ S]]]|[_ [K|[K|[K|[K|K]]]]]].
        -- left. split; [exact Hda|]. left. split; [exact S|left; exact Hidle].
        -- exfalso. destruct Hst as [Q|Q]; rewrite Q in S; discriminate S.
        -- exfalso. destruct Hst as [Q|Q]; rewrite Q in K; discriminate K.
        -- exfalso. destruct Hst as [Q|Q]; rewrite Q in K; discriminate K.
        -- exfalso. destruct Hst as [Q|Q]; rewrite Q in K; discriminate K.
        -- exfalso. destruct Hst as [Q|Q]; rewrite Q in K; discriminate K.
        -- exfalso. destruct Hst as [Q|Q]; rewrite Q in K; discriminate K.
      * exfalso. destruct Y as [a [_ [_ [_ [_ [_ [[_ [[att S]|[S|S]]]|[_ [S|[a0 S]]]]]]]]]]; destruct Hst as [Q|Q]; rewrite Q in S; discriminate S.
      * exfalso. destruct Y as [src [st [_ [[cc [S _]]|[nps [cc [S _]]]]]]]; destruct Hst as [Q|Q]; rewrite Q in S; discriminate S.
    + intros src Hm. destruct (F3 src Hm) as [X|[X1 [X2 [X3 X4]]]].
      * exfalso. destruct Hst as [Q|Q]; rewrite Q in X; discriminate X.
      * right. rewrite <- P7, <- Hts. repeat (split; [assumption|]). intros _. exact (X4 Hle3).
    + destruct F4 as [F4 F5]. split.
      * rewrite <- P3. destruct F4 as [X|X]; [left; exact X|]. right.
        destruct X as [[[[att S]|[S|S]] _]|[S|[S|S]]].
        -- exfalso. destruct Hst as [Q|Q]; rewrite Q in S; discriminate S.
        -- exfalso. destruct Hst as [Q|Q]; rewrite Q in S; discriminate S.
        -- exfalso. destruct Hst as [Q|Q]; rewrite Q in S; discriminate S.
        -- exfalso. destruct Hst as [Q|Q]; rewrite Q in S; discriminate S.
        -- right. right. left. rewrite <- Hts. exact S.
        -- right. right. right. exact S.
      * intros _. left. unfold sw_reset. destruct (f_state f) eqn:Esf; cbn in Hent; try discriminate Hent; cbn [kind_of]; tauto.
Qed.

Lemma pre_rel_facts L f f' (w w' : W) now : pre_rel f f' w w' -> facts_l L f f' w w' now.
Proof.
  intros [P1 [P2 [P3 [P4 [P5 [P6 [P7 [P8 P9]]]]]]]].
  destruct P9 as [P9|[[_ P9]|[_ P9]]].
  - apply facts_silent; assumption.
  - apply facts_quiet; try assumption; [rewrite P9; reflexivity|]. rewrite P9. pose proof (pend_range (f_state f)). cbn. lia.
  - apply facts_quiet; try assumption; [rewrite P9; reflexivity|]. rewrite P9. pose proof (pend_range (f_state f)). cbn. lia.
Qed.

Lemma poll_inner_facts f now busy (w : W) f' w' :
  poll_inner ops f now busy w = Ok (f', w') -> facts_l True f f' w w' now.
Proof.
  intros H. apply poll_inner_cases in H. destruct H as [H|[f3 [w3 [Hpre [Hle Hd]]]]].
  - exact (pre_rel_facts _ _ _ _ _ _ H).
  - assert (Hnp : f_state f3 <> PassiveIdle) by (intros E; unfold dispatch in Hd; rewrite E in Hd; discriminate Hd).
    exact (facts_entry _ _ _ _ _ _ _ Hpre Hle Hnp (dispatch_facts _ _ _ _ _ Hd)).
Qed.

Lemma poll_unfold f now pin (apps : list A) f' o apps' calls :
  poll ops f now pin apps = Ok (f', o, apps', calls) ->
  exists w', poll_inner ops f now (tx_busy pin) (mkWorld (rx pin) None apps [] []) = Ok (f', w') /\
             o = mkPhyOut (w_tx w') (w_rx w') /\ apps' = w_apps w' /\ calls = w_calls w'.
Proof.
  unfold poll, poll_traced. intros H.
  destruct (poll_inner ops f now (tx_busy pin) _) as [[f1 w1]| |] eqn:E; cbn [bind] in H; try discriminate H.
  injection H as <- <- <- <-. exists w1. repeat split; reflexivity.
Qed.

(* ------------------------------------------------------------------------------------------ *)
(* whole-poll theorems                                                                          *)

(* Every transmission of a poll is an application's telegram, a token, a GAP status request, or
   a status reply - for every station state, every input and all applications. *)
Theorem poll_transmissions f now pin (apps : list A) f' o apps' calls wire :
  poll ops f now pin apps = Ok (f', o, apps', calls) -> tx o = Some wire ->
  tx_class f f' now [] calls wire.
Proof.
  intros H Htx. apply poll_unfold in H. destruct H as [w' [Hi [-> [_ ->]]]]. cbn [tx] in Htx.
  apply poll_inner_facts in Hi. destruct Hi as [_ [F2 _]]. cbn [w_tx w_calls] in F2.
  destruct (F2 eq_refl) as [X|[wire' [X Y]]]; [rewrite X in Htx; discriminate Htx|].
  rewrite X in Htx. injection Htx as <-. exact Y.
Qed.

(* A pending status request (the station will answer it) comes into being only by a status request
   addressed to this station that was the last telegram of the receive buffer of this poll. *)
Theorem poll_marks_last_request f now pin (apps : list A) f' o apps' calls src :
  poll ops f now pin apps = Ok (f', o, apps', calls) -> marker (f_state f') = Some src ->
  marker (f_state f) = Some src \/
  (last_request (rx pin) (ts f) src /\ rx_left o = [] /\ f_pending f' = 0%nat /\ f_lba f' = Some now).
Proof.
  intros H Hm. apply poll_unfold in H. destruct H as [w' [Hi [-> _]]]. cbn [rx_left].
  apply poll_inner_facts in Hi. destruct Hi as [_ [_ [F3 _]]].
  destruct (F3 src Hm) as [X|[X1 [X2 [X3 X4]]]]; [left; exact X|right]. repeat (split; [assumption|]). exact (X4 I).
Qed.

(* The GAP state changes only by the GAP step of a token visit (PassToken{do_gap}), during the
   post-claim phase, or by a reset (claim after time-out, address collision). *)
Theorem poll_gap_state_frame f now pin (apps : list A) f' o apps' calls :
  poll ops f now pin apps = Ok (f', o, apps', calls) -> f_gap f' = f_gap f \/ gap_change f f'.
Proof.
  intros H. apply poll_unfold in H. destruct H as [w' [Hi _]].
  apply poll_inner_facts in Hi. destruct Hi as [_ [_ [_ [F4 _]]]]. exact F4.
Qed.

(* The GAP sweep poll by poll: a poll resets the picture (offline, back to listening, claim token), or
   transmits a GAP request after exactly one GAP step, or transmits the token of the visit (after the GAP
   step of the visit if that was still due), or does neither and leaves the GAP state alone (except for the
   end of the sweep of the post-claim scan). *)
Theorem poll_sweep_rel f now pin (apps : list A) f' o apps' calls :
  poll ops f now pin apps = Ok (f', o, apps', calls) -> sw_rel f f' [] calls (tx o).
Proof.
  intros H. apply poll_unfold in H. destruct H as [w' [Hi [-> [_ ->]]]]. cbn [tx].
  apply poll_inner_facts in Hi. destruct Hi as [_ [_ [_ [_ F5]]]]. exact (F5 eq_refl).
Qed.

Theorem poll_keeps_parameters f now pin (apps : list A) f' o apps' calls :
  poll ops f now pin apps = Ok (f', o, apps', calls) -> f_p f' = f_p f.
Proof.
  intros H. apply poll_unfold in H. destruct H as [w' [Hi _]].
  apply poll_inner_facts in Hi. destruct Hi as [F1 _]. exact F1.
Qed.

(* a GAP request as seen from outside: the poll transmits and ends waiting for the reply *)
Definition gap_request (f' : fdl) (o : phy_out) (a : Z) : Prop :=
  tx o <> None /\ (f_state f' = AwaitStatusResponse a \/ f_state f' = ClaimToken (StepScanAwaitResponse a)).

(* C12_poll_in_gap, whole poll *)
Theorem poll_gap_request_in_gap f now pin (apps : list A) f' o apps' calls a :
  poll ops f now pin apps = Ok (f', o, apps', calls) -> gap_request f' o a ->
  in_gap (ts f) (r_ns (f_ring f)) a /\ a <> ts f /\ a <> r_ns (f_ring f) /\
  (gap_cursor_ok f -> 0 <= a < p_hsa (f_p f)) /\
  tx o = Some (sr_wire a (ts f)) /\ (Forall no_send calls /\ (calls <> [] -> in_use (f_state f))) /\
  f_ring f' = f_ring f /\ f_gap f' = GapDoPoll a /\
  ((f_state f' = AwaitStatusResponse a /\ gap_origin (f_state f)) \/
   (f_state f' = ClaimToken (StepScanAwaitResponse a) /\
    (f_state f = ClaimToken StepScan \/ exists a0, f_state f = ClaimToken (StepScanAwaitResponse a0)))).
Proof.
  intros H [Htx Hst]. destruct (tx o) as [wire|] eqn:Et; [|contradiction Htx; reflexivity].
  pose proof (poll_transmissions _ _ _ _ _ _ _ _ _ H Et) as Hc.
  destruct Hc as [Y|[Yc [Y|[Y|Y]]]].
  - exfalso. destruct Y as [cs [i [hp [er [_ [_ [K|K]]]]]]]; destruct Hst as [S|S]; rewrite S in K; discriminate K.
  - exfalso. destruct Y as [da [_ [[_ [[S' _]|[S' _]]]|[[S'|[att S']] _]]]]; destruct Hst as [S|S]; rewrite S in S'; discriminate S'.
  - destruct Y as [a' [Hw [Hin [Hr [Hring [Hg Hs]]]]]].
    assert (a' = a).
    { destruct Hs as [[S' _]|[S' _]]; destruct Hst as [S|S]; rewrite S in S'; try discriminate S'; injection S' as S'; symmetry; exact S'. }
    subst a'. split; [exact Hin|]. split; [exact (in_gap_not_self _ _ _ Hin)|]. split; [exact (in_gap_not_ns _ _ _ Hin)|].
    split; [exact Hr|]. split; [rewrite Hw; reflexivity|].
    split; [destruct Yc as [l [Hl [Hf Hu]]]; cbn in Hl; subst l; split; assumption|]. split; [exact Hring|]. split; [exact Hg|exact Hs].
  - exfalso. destruct Y as [src [st [_ [[cc [_ [_ S']]]|[nps [cc [_ [_ S']]]]]]]].
    + destruct (ready_for_ring (f_ring f)); destruct Hst as [S|S]; rewrite S in S'; discriminate S'.
    + destruct Hst as [S|S]; rewrite S in S'; discriminate S'.
Qed.

(* ------------------------------------------------------------------------------------------ *)
(* C12_one_per_visit                                                                            *)

Lemma pre_rel_state f f3 (w w3 : W) :
  pre_rel f f3 w w3 -> online_entry_kind (kind_of (f_state f)) = false ->
  passive_entry_kind (kind_of (f_state f)) = false -> f_state f3 = f_state f.
Proof.
  intros [_ [_ [_ [_ [_ [_ [_ [_ P9]]]]]]]] Ho Hp. destruct P9 as [P9|[[P9 _]|[P9 _]]]; [exact P9|congruence|congruence].
Qed.

(* the phase of a token visit after its GAP request: waiting for the reply, then passing the token *)
Definition gap_done (s : state) : bool :=
  match s with AwaitStatusResponse _ => true | PassToken false _ => true | _ => false end.

(* After the GAP request of a visit (and equally after the post-claim scan) the station transmits
   nothing but the token, to its NS; until then it stays in this phase, unless it gives the token up
   because of an unexpected telegram. *)
Theorem after_gap_request_step f now pin (apps : list A) f' o apps' calls :
  poll ops f now pin apps = Ok (f', o, apps', calls) -> gap_done (f_state f) = true ->
  calls = [] /\ f_gap f' = f_gap f /\
  ( (tx o = None /\
     (f_state f' = f_state f \/ f_state f' = PassToken false AttFirst \/ f_state f' = ActiveIdle None None 0))
  \/ (tx o = Some (encode_token (r_ns (f_ring f)) (ts f)) /\
      witness (f_ring f) (ts f) (r_ns (f_ring f)) = Ok (f_ring f') /\
      (f_state f' = UseToken now None false \/ exists att, f_state f' = CheckTokenPass att)) ).
Proof.
  intros H Hgd. apply poll_unfold in H. destruct H as [w' [Hi [-> [_ ->]]]]. cbn [tx].
  apply poll_inner_cases in Hi. destruct Hi as [Hpre|[f3 [w3 [Hpre [Hle3 Hd]]]]].
  - pose proof (pre_rel_state _ _ _ _ Hpre) as Hs.
    destruct Hpre as [P1 [P2 [P3 [P4 [P5 [P6 [P7 [P8 P9]]]]]]]]. cbn in P5, P6.
    split; [exact P6|]. split; [exact P3|]. left. split; [exact P5|]. left.
    apply Hs; destruct (f_state f) as [ | | | | | | |[|] ?| | ]; try discriminate Hgd; reflexivity.
  - pose proof (pre_rel_state _ _ _ _ Hpre) as Hs.
    destruct Hpre as [P1 [P2 [P3 [P4 [P5 [P6 [P7 [P8 P9]]]]]]]]. cbn in P5, P6.
    assert (Hs3 : f_state f3 = f_state f)
      by (apply Hs; destruct (f_state f) as [ | | | | | | |[|] ?| | ]; try discriminate Hgd; reflexivity).
    assert (Hts : ts f3 = ts f) by (unfold ts; rewrite P1; reflexivity).
    unfold dispatch in Hd. rewrite Hs3 in Hd.
    destruct (f_state f) as [ | | | | | | |[|] att| |a0] eqn:Es; try discriminate Hgd; cbn [kind_of poll_dispatch] in Hd.
    + apply do_pass_token_spec in Hd. destruct Hd as [dg [att' [Est [Hp [Hc [Hca [Hap [Hrx Hcases]]]]]]]].
      rewrite Hs3 in Est. injection Est as <- <-.
      split; [congruence|].
      destruct Hcases as [[T [S [G R]]]|[[D _]|[G [T0 [T [Wi St]]]]]].
      * split; [congruence|]. left. split; [congruence|]. left. congruence.
      * discriminate D.
      * split; [congruence|]. right. rewrite Hts, P2 in *. split; [exact T|]. split; [exact Wi|].
        destruct St as [[_ S]|[_ S]]; [left; exact S|right; exists att; exact S].
    + apply do_await_status_response_spec in Hd.
      destruct Hd as [a0' [Est [Hne [Hg0 [Hp [Hc [Hca [Hap [Hg [rest [received [Hrcv [Hrx Hcases]]]]]]]]]]]]].
      split; [congruence|]. split; [congruence|].
      destruct Hcases as [[_ [T [S R]]]|[[t [_ [_ [T [S _]]]]]|[[t [_ [_ [T [S R]]]]]|[_ [[T [S R]]|[T0 [T [Wi St]]]]]]]].
      * left. split; [congruence|]. left. congruence.
      * left. split; [congruence|]. right. left. exact S.
      * left. split; [congruence|]. right. right. exact S.
      * left. split; [congruence|]. right. left. exact S.
      * right. rewrite Hts, P2 in *. split; [exact T|]. split; [exact Wi|].
        destruct St as [[_ S]|[_ S]]; [left; exact S|right; exists AttFirst; exact S].
Qed.

(* ghost counter: GAP requests of the token-passing kind since the station last left the phase
   "after the GAP request" (which, by after_gap_request_step, it leaves only by transmitting the
   token or by giving it up) *)
Definition is_pass_gap_request (f' : fdl) (o : phy_out) : bool :=
  match tx o, f_state f' with Some _, AwaitStatusResponse _ => true | _, _ => false end.

Definition visit_count (c : nat) (f' : fdl) (o : phy_out) : nat :=
  if is_pass_gap_request f' o then S c else if gap_done (f_state f') then c else O.

Fixpoint gap_counters (f : fdl) (c : nat) (ins : list (Z * phy_in * list A)) : list nat :=
  match ins with
  | [] => []
  | (now, pin, apps) :: t =>
      match poll ops f now pin apps with
      | Ok (f', o, _, _) => let c' := visit_count c f' o in c' :: gap_counters f' c' t
      | _ => []
      end
  end.

Theorem one_gap_request_per_visit ins : forall f c,
  (c = 0%nat \/ (c = 1%nat /\ gap_done (f_state f) = true)) ->
  Forall (fun x => (x <= 1)%nat) (gap_counters f c ins).
Proof.
  induction ins as [|[[now pin] apps] t IH]; intros f c Hinv; cbn [gap_counters]; [constructor|].
  destruct (poll ops f now pin apps) as [[[[f' o] apps'] calls]| |] eqn:Ep; try constructor.
  - unfold visit_count. destruct (is_pass_gap_request f' o) eqn:Eg.
    + unfold is_pass_gap_request in Eg. destruct (tx o) as [wire|] eqn:Et; [|discriminate Eg].
      destruct (f_state f') as [ | | | | | | | | |a] eqn:Es'; try discriminate Eg.
      assert (Hgr : gap_request f' o a) by (split; [rewrite Et; discriminate|left; exact Es']).
      destruct (poll_gap_request_in_gap _ _ _ _ _ _ _ _ _ Ep Hgr) as [_ [_ [_ [_ [_ [_ [_ [_ Hst]]]]]]]].
      destruct Hst as [[_ Hor]|[S _]]; [|rewrite Es' in S; discriminate S].
      destruct Hinv as [->|[_ Hgd]]; [lia|]. exfalso.
      destruct Hor as [[att Hpt]|[Hu|Hu]]; [rewrite Hpt in Hgd; discriminate Hgd| |];
        destruct (f_state f); try discriminate Hu; discriminate Hgd.
    + destruct (gap_done (f_state f')); [|lia]. destruct Hinv as [->|[-> _]]; lia.
  - apply IH. unfold visit_count. destruct (is_pass_gap_request f' o) eqn:Eg.
    + unfold is_pass_gap_request in Eg. destruct (tx o) as [wire|] eqn:Et; [|discriminate Eg].
      destruct (f_state f') as [ | | | | | | | | |a] eqn:Es'; try discriminate Eg.
      assert (Hgr : gap_request f' o a) by (split; [rewrite Et; discriminate|left; exact Es']).
      destruct (poll_gap_request_in_gap _ _ _ _ _ _ _ _ _ Ep Hgr) as [_ [_ [_ [_ [_ [_ [_ [_ Hst]]]]]]]].
      destruct Hst as [[_ Hor]|[S _]]; [|rewrite Es' in S; discriminate S].
      destruct Hinv as [->|[_ Hgd]]; [right; split; reflexivity|]. exfalso.
      destruct Hor as [[att Hpt]|[Hu|Hu]]; [rewrite Hpt in Hgd; discriminate Hgd| |];
        destruct (f_state f); try discriminate Hu; discriminate Hgd.
    + destruct (gap_done (f_state f')) eqn:Egd; [|left; reflexivity].
      destruct Hinv as [->|[-> _]]; [left; reflexivity|right; split; reflexivity].
Qed.

(* the GAP step of a token visit: a poll in PassToken{do_gap: Yes} either waits (busy / pause) or
   performs exactly gap_visit_step, requests the status of the new address iff there is one, and
   passes the token otherwise *)
Theorem pass_token_performs_gap_step f now pin (apps : list A) f' o apps' calls att :
  poll ops f now pin apps = Ok (f', o, apps', calls) -> f_state f = PassToken true att ->
  (tx o = None /\ f_state f' = f_state f /\ f_gap f' = f_gap f /\ f_ring f' = f_ring f) \/
  (gap_visit_step f = Ok (f_gap f') /\
   ( (exists a, f_gap f' = GapDoPoll a /\ f_state f' = AwaitStatusResponse a /\ tx o = Some (sr_wire a (ts f)) /\ f_ring f' = f_ring f)
   \/ (exists n, f_gap f' = GapWaiting n /\ tx o = Some (encode_token (r_ns (f_ring f)) (ts f)) /\
         witness (f_ring f) (ts f) (r_ns (f_ring f)) = Ok (f_ring f') /\
         (f_state f' = UseToken now None false \/ f_state f' = CheckTokenPass att)) )).
Proof.
  intros H Es. apply poll_unfold in H. destruct H as [w' [Hi [-> [_ ->]]]]. cbn [tx].
  apply poll_inner_cases in Hi. destruct Hi as [Hpre|[f3 [w3 [Hpre [Hle3 Hd]]]]].
  - pose proof (pre_rel_state _ _ _ _ Hpre) as Hs. rewrite Es in Hs. specialize (Hs eq_refl eq_refl).
    destruct Hpre as [P1 [P2 [P3 [P4 [P5 [P6 [P7 [P8 P9]]]]]]]]. cbn in P5.
    left. rewrite Es. repeat split; assumption.
  - pose proof (pre_rel_state _ _ _ _ Hpre) as Hs. rewrite Es in Hs. specialize (Hs eq_refl eq_refl).
    destruct Hpre as [P1 [P2 [P3 [P4 [P5 [P6 [P7 [P8 P9]]]]]]]]. cbn in P5, P6.
    assert (Hts : ts f3 = ts f) by (unfold ts; rewrite P1; reflexivity).
    unfold dispatch in Hd. rewrite Hs in Hd. cbn [kind_of poll_dispatch] in Hd.
    apply do_pass_token_spec in Hd. destruct Hd as [dg [att' [Est [Hp [Hc [Hca [Hap [Hrx Hcases]]]]]]]].
    rewrite Hs in Est. injection Est as <- <-.
    unfold token_passed in Hcases. rewrite (gap_visit_step_ext f3 f P1 P2 P3), Hts, P2 in Hcases.
    destruct Hcases as [[T [S [G R]]]|[[_ [a [Hstep [G [S [R [T0 T]]]]]]]|[[n [Hstep G]] [T0 [T [Wi St]]]]]].
    + left. rewrite Es. repeat split; congruence.
    + right. split; [rewrite G; exact Hstep|]. left. exists a. repeat split; congruence.
    + right. split; [rewrite G; exact Hstep|]. right. exists n. split; [exact G|]. split; [exact T|]. split; [exact Wi|].
      destruct St as [[_ S]|[_ S]]; [left|right]; exact S.
Qed.

(* the post-claim scan: every transmission is a GAP request (back to back, one per slot time);
   the phase is left only with the GAP state Waiting, into PassToken{do_gap: No} - from where
   after_gap_request_step applies - or by giving the token up *)
Theorem claim_scan_step f now pin (apps : list A) f' o apps' calls :
  poll ops f now pin apps = Ok (f', o, apps', calls) ->
  (f_state f = ClaimToken StepScan \/ exists a0, f_state f = ClaimToken (StepScanAwaitResponse a0)) ->
  calls = [] /\
  ( (tx o = None /\
     (f_state f' = f_state f \/ f_state f' = ClaimToken StepScan \/ f_state f' = ActiveIdle None None 0 \/
      (f_state f' = PassToken false AttFirst /\ exists n, f_gap f' = GapWaiting n)))
  \/ (exists a, gap_request f' o a /\ tx o = Some (sr_wire a (ts f))) ).
Proof.
  intros H Hst. apply poll_unfold in H. destruct H as [w' [Hi [-> [_ ->]]]]. cbn [tx].
  assert (Hk : online_entry_kind (kind_of (f_state f)) = false /\ passive_entry_kind (kind_of (f_state f)) = false)
    by (destruct Hst as [S|[a0 S]]; rewrite S; split; reflexivity).
  apply poll_inner_cases in Hi. destruct Hi as [Hpre|[f3 [w3 [Hpre [Hle3 Hd]]]]].
  - pose proof (pre_rel_state _ _ _ _ Hpre (proj1 Hk) (proj2 Hk)) as Hs.
    destruct Hpre as [P1 [P2 [P3 [P4 [P5 [P6 [P7 [P8 P9]]]]]]]]. cbn in P5, P6.
    split; [exact P6|]. left. split; [exact P5|]. left. exact Hs.
  - pose proof (pre_rel_state _ _ _ _ Hpre (proj1 Hk) (proj2 Hk)) as Hs.
    destruct Hpre as [P1 [P2 [P3 [P4 [P5 [P6 [P7 [P8 P9]]]]]]]]. cbn in P5, P6.
    assert (Hts : ts f3 = ts f) by (unfold ts; rewrite P1; reflexivity).
    assert (Hdc : do_claim_token A f3 now w3 = Ok (f', w')).
    { unfold dispatch in Hd. rewrite Hs in Hd. destruct Hst as [S|[a0 S]]; rewrite S in Hd; exact Hd. }
    apply do_claim_token_spec in Hdc. destruct Hdc as [st0 [Est [Hp [Hc [Hca [Hap Hcases]]]]]].
    split; [congruence|]. rewrite Hs in Est.
    assert (Hscan : forall cur0,
      ( (w_tx w' = w_tx w3 /\ f_state f' = f_state f3 /\ f_gap f' = f_gap f3)
      \/ (w_tx w' = w_tx w3 /\ (exists n, f_gap f3 = GapWaiting n) /\ f_gap f' = f_gap f3 /\ f_state f' = PassToken false AttFirst)
      \/ (w_tx w' = w_tx w3 /\ exists cur, f_gap f3 = GapDoPoll cur /\ next_gap_poll f3 cur = Ok (GapWaiting 0) /\
            f_gap f' = GapWaiting 0 /\ f_state f' = f_state f3)
      \/ (exists cur a, f_gap f3 = GapDoPoll cur /\ next_gap_poll f3 cur = Ok (GapDoPoll a) /\ f_gap f' = GapDoPoll a /\
            f_state f' = ClaimToken (StepScanAwaitResponse a) /\ w_tx w3 = None /\ w_tx w' = Some (sr_wire a (ts f3))) ) ->
      f_state f3 = ClaimToken StepScan -> cur0 = 0 ->
      (w_tx w' = None /\
       (f_state f' = f_state f \/ f_state f' = ClaimToken StepScan \/ f_state f' = ActiveIdle None None 0 \/
        (f_state f' = PassToken false AttFirst /\ exists n, f_gap f' = GapWaiting n)))
      \/ (exists a, gap_request f' (mkPhyOut (w_tx w') (w_rx w')) a /\ w_tx w' = Some (sr_wire a (ts f)))).
    { intros _ Hsc Hs3 _.
      destruct Hsc as [[T [S G]]|[[T [[n G0] [G S]]]|[[T [cur [_ [_ [G S]]]]]|[cur [a [G0 [N [G [S [T0 T]]]]]]]]]].
      - left. split; [congruence|]. right. left. congruence.
      - left. split; [congruence|]. right. right. right. split; [exact S|]. exists n. congruence.
      - left. split; [congruence|]. right. left. congruence.
      - right. exists a. split; [|congruence]. split; [cbn; rewrite T; discriminate|right; exact S]. }
    destruct Hst as [S|[a0 S]]; rewrite S in Est; injection Est as <-.
    + destruct Hcases as [Hr [Hrx Hsc]]. apply (Hscan 0 Hsc); [congruence|reflexivity].
    + destruct Hcases as [Hne [Hg0 [rest [received [Hrcv [Hrx Hcs]]]]]].
      destruct Hcs as [[_ [T [S' [G R]]]]|[[t [_ [_ [T [S' _]]]]]|[[t [_ [_ [T [S' _]]]]]|[_ [R Hsc]]]]].
      * left. split; [congruence|]. left. congruence.
      * left. split; [congruence|]. right. left. exact S'.
      * left. split; [congruence|]. right. right. left. exact S'.
      * destruct Hsc as [[T [S' G]]|[[T [N [G S']]]|[a [N [G [S' [T0 T]]]]]]].
        -- left. split; [congruence|]. right. left. exact S'.
        -- left. split; [congruence|]. right. left. exact S'.
        -- right. exists a. split; [|congruence]. split; [cbn; rewrite T; discriminate|right; exact S'].
Qed.

(* ------------------------------------------------------------------------------------------ *)
(* C12_sweep_bound on the model                                                                 *)

Definition sweep_params_ok (f : fdl) : Prop :=
  0 <= ts f < p_hsa (f_p f) /\ 0 <= r_ns (f_ring f) < p_hsa (f_p f) /\ p_hsa (f_p f) <= 126 /\
  0 <= p_gap_wait (f_p f) <= 254.

Lemma gap_visit_step_pure f : sweep_params_ok f -> gap_wf (p_hsa (f_p f)) (p_gap_wait (f_p f)) (f_gap f) ->
  gap_visit_step f = Ok (gstep (ts f) (r_ns (f_ring f)) (p_hsa (f_p f)) (p_gap_wait (f_p f)) (f_gap f)).
Proof.
  intros [Ht [Hn [Hh Hgw]]] Hw.
  assert (Hnx : forall c, 0 <= c < p_hsa (f_p f) ->
    next_gap_poll f c = Ok (gnext (ts f) (r_ns (f_ring f)) (p_hsa (f_p f)) c)).
  { intros c Hc. unfold next_gap_poll, gnext, nxt, u8_sub, u8_add.
    destruct (Z.leb_spec 0 (p_hsa (f_p f) - 1)); [|lia]. cbn [bind].
    destruct (Z.eqb_spec c (p_hsa (f_p f) - 1)); cbn [bind].
    - destruct (in_gapb _ _ 0); reflexivity.
    - destruct (Z.leb_spec (c + 1) 255); [|lia]. cbn [bind]. destruct (in_gapb _ _ (c + 1)); reflexivity. }
  unfold gap_visit_step, gstep. destruct (f_gap f) as [rc|c]; cbn in Hw.
  - destruct (Z.ltb_spec (p_gap_wait (f_p f)) rc); [apply Hnx; exact Ht|].
    unfold u8_add. destruct (Z.leb_spec (rc + 1) 255); [reflexivity|lia].
  - apply Hnx. exact Hw.
Qed.

(* the GAP states after each of the next m token visits while NS does not change *)
Fixpoint visit_gaps (f : fdl) (m : nat) : res (list gap_state) :=
  match m with
  | O => Ok []
  | S m' => let* g := gap_visit_step f in let* l := visit_gaps (set_gap f g) m' in Ok (g :: l)
  end.

Lemma visit_gaps_pure m : forall f, sweep_params_ok f -> gap_wf (p_hsa (f_p f)) (p_gap_wait (f_p f)) (f_gap f) ->
  visit_gaps f m = Ok (giter (ts f) (r_ns (f_ring f)) (p_hsa (f_p f)) (p_gap_wait (f_p f)) (f_gap f) m).
Proof.
  induction m as [|m IH]; intros f Hok Hw; [reflexivity|].
  cbn [visit_gaps giter]. rewrite (gap_visit_step_pure f Hok Hw). cbn [bind].
  rewrite IH.
  - reflexivity.
  - exact Hok.
  - destruct Hok as [Ht [Hn _]]. exact (gstep_wf _ _ _ _ _ Ht Hn Hw).
Qed.

(* C12_sweep_bound: as long as NS does not change, every address of the GAP is polled within
   |GAP| + gap_wait_rotations + 2 token visits, from any GAP state *)
Theorem sweep_bound f a :
  sweep_params_ok f -> gap_wf (p_hsa (f_p f)) (p_gap_wait (f_p f)) (f_gap f) ->
  in_gap (ts f) (r_ns (f_ring f)) a -> 0 <= a < p_hsa (f_p f) ->
  exists m l, (1 <= m)%nat /\
    Z.of_nat m <= gap_size (ts f) (r_ns (f_ring f)) (p_hsa (f_p f)) + p_gap_wait (f_p f) + 2 /\
    visit_gaps f m = Ok (l ++ [GapDoPoll a]).
Proof.
  intros Hok Hw Hin Ha. pose proof Hok as [Ht [Hn [Hh Hgw]]].
  destruct (visits_until_step _ _ _ _ _ _ Ht Hn (proj1 Hgw) Ha Hin Hw) as [Hr _].
  set (v := visits_until (ts f) (r_ns (f_ring f)) (p_hsa (f_p f)) (p_gap_wait (f_p f)) a (f_gap f)) in *.
  destruct (sweep_bound_pure _ _ _ _ _ Ht Hn (proj1 Hgw) Ha Hin (Z.to_nat (v - 1)) (f_gap f) Hw) as [l Hl]; [fold v; lia|].
  exists (S (Z.to_nat (v - 1))), l. split; [lia|]. split; [lia|].
  rewrite (visit_gaps_pure _ f Hok Hw), Hl. reflexivity.
Qed.

(* gap_size is the number of GAP addresses: they correspond one to one to the offsets 1 .. gap_size *)
Lemma gap_offsets t n H x : 0 <= t < H -> 0 <= n < H -> 0 <= x < H ->
  (in_gap t n x <-> 1 <= off t H x <= gap_size t n H).
Proof.
  intros Ht Hn Hx. rewrite <- in_gapb_spec, (in_gapb_off t n H x Ht Hn Hx), andb_true_iff, !Z.leb_le. tauto.
Qed.

Lemma gap_offsets_onto t n H k : 0 <= t < H -> 0 <= n < H -> 1 <= k <= gap_size t n H ->
  exists x, 0 <= x < H /\ off t H x = k /\ in_gap t n x.
Proof.
  intros Ht Hn Hk. pose proof (gap_size_range t n H Ht Hn).
  exists (if t + k <? H then t + k else t + k - H).
  assert (Hx : 0 <= (if t + k <? H then t + k else t + k - H) < H) by (destruct (Z.ltb_spec (t + k) H); lia).
  assert (Ho : off t H (if t + k <? H then t + k else t + k - H) = k).
  { unfold off. destruct (Z.ltb_spec (t + k) H); [destruct (Z.leb_spec t (t + k)); lia|destruct (Z.leb_spec t (t + k - H)); lia]. }
  split; [exact Hx|]. split; [exact Ho|]. apply (gap_offsets t n H _ Ht Hn Hx). lia.
Qed.

(* ------------------------------------------------------------------------------------------ *)
(* C12_found_becomes_successor                                                                  *)

(* when the prologue of poll_inner lets the poll through to the state function *)
Lemma poll_inner_dispatches f now (w : W) :
  f_conn f = ConnOnline -> online_entry_kind (kind_of (f_state f)) = false ->
  (forall l, f_lba f = Some l -> l < now) ->
  poll_inner ops f now false w =
  dispatch (fst (check_for_bus_activity A f now w)) now (snd (check_for_bus_activity A f now w)).
Proof.
  intros Hc Hk Hl. unfold poll_inner. rewrite Hc, Hk. cbn [bind].
  unfold check_for_ongoing_transmision.
  assert (Hp : ongoing_uses_predicted_end && match f_lba f with Some l => now <=? l | None => false end = false).
  { destruct (f_lba f) as [l|]; [|apply andb_false_r]. specialize (Hl l eq_refl).
    destruct (Z.leb_spec now l); [lia|apply andb_false_r]. }
  rewrite Hp. cbn [orb].
  destruct (check_for_bus_activity A f now w) as [f3 w3]. reflexivity.
Qed.

Lemma check_for_bus_activity_pre f now (w : W) :
  pre_rel f (fst (check_for_bus_activity A f now w)) w (snd (check_for_bus_activity A f now w)).
Proof.
  unfold check_for_bus_activity. destruct (Nat.ltb _ _); cbn [fst snd]; [|apply pre_rel_refl].
  unfold pre_rel, mark_bus_activity, lba_get_or_insert. destruct (f_lba f); cbn; repeat (split; [reflexivity|]); left; reflexivity.
Qed.

Lemma receive_telegram_accept (buf : bytes) t n :
  decode buf = Ok (Accept t n) -> receive_telegram (fun t => t) buf = Ok (skipn n buf, Some t).
Proof. intros H. unfold receive_telegram. rewrite H. reflexivity. Qed.

Lemma receive_telegram_some (buf rest : bytes) t :
  receive_telegram (fun t => t) buf = Ok (rest, Some t) -> exists n, decode buf = Ok (Accept t n) /\ rest = skipn n buf.
Proof.
  unfold receive_telegram. destruct (decode buf) as [d| |]; cbn [bind]; try discriminate.
  destruct d as [ | |t' n]; try discriminate. intros H. injection H as <- <-. exists n. split; reflexivity.
Qed.

Lemma master_ready_is_reply tsa a t : is_master_ready_reply tsa a t -> is_reply_from tsa a t.
Proof. intros [h [pdu [st [Ht [Hfc [_ [Hs Hd]]]]]]]. exists h, pdu, st, StOk. repeat split; assumption. Qed.

(* a status reply "master ready / master in ring" from the polled address makes it the successor *)
Theorem found_becomes_successor f now pin (apps : list A) f' o apps' calls a0 t n :
  poll ops f now pin apps = Ok (f', o, apps', calls) ->
  (f_state f = AwaitStatusResponse a0 \/ f_state f = ClaimToken (StepScanAwaitResponse a0)) ->
  f_conn f = ConnOnline -> tx_busy pin = false -> (forall l, f_lba f = Some l -> l < now) ->
  decode (rx pin) = Ok (Accept t n) -> is_master_ready_reply (ts f) a0 t ->
  a0 <> ts f /\ set_next_station (f_ring f) a0 = Ok (f_ring f') /\ tx o = None /\ rx_left o = skipn n (rx pin) /\
  f_gap f' = f_gap f /\ calls = [] /\ f_p f' = f_p f /\
  (f_state f = AwaitStatusResponse a0 -> f_state f' = PassToken false AttFirst) /\
  (f_state f = ClaimToken (StepScanAwaitResponse a0) -> f_state f' = ClaimToken StepScan).
Proof.
  intros H Hst Hc Hb Hl Hd Hm. apply poll_unfold in H. destruct H as [w' [Hi [-> [_ ->]]]]. cbn [tx rx_left].
  rewrite Hb in Hi.
  assert (Hk : online_entry_kind (kind_of (f_state f)) = false) by (destruct Hst as [S|S]; rewrite S; reflexivity).
  rewrite (poll_inner_dispatches f now _ Hc Hk Hl) in Hi.
  pose proof (check_for_bus_activity_pre f now (mkWorld (rx pin) None apps [] [])) as Hpre.
  destruct (check_for_bus_activity A f now _) as [f3 w3]. cbn [fst snd] in Hi, Hpre.
  assert (Hs3 : f_state f3 = f_state f)
    by (apply (pre_rel_state _ _ _ _ Hpre); destruct Hst as [S|S]; rewrite S; reflexivity).
  destruct Hpre as [P1 [P2 [P3 [P4 [P5 [P6 [P7 [P8 _]]]]]]]]. cbn in P5, P6, P7.
  assert (Hts : ts f3 = ts f) by (unfold ts; rewrite P1; reflexivity).
  unfold dispatch in Hi. rewrite Hs3 in Hi.
  destruct Hst as [S|S]; rewrite S in Hi; cbn [kind_of poll_dispatch] in Hi.
  - apply do_await_status_response_spec in Hi.
    destruct Hi as [a0' [Est [Hne [Hg0 [Hp [Hc' [Hca [Hap [Hg [rest [received [Hrcv [Hrx Hcases]]]]]]]]]]]]].
    rewrite Hs3, S in Est. injection Est as <-.
    rewrite P7, (receive_telegram_accept _ _ _ Hd) in Hrcv. injection Hrcv as <- <-.
    rewrite Hts, P2 in Hcases.
    destruct Hcases as [[C _]|[[t' [C [_ [T [S' Hr]]]]]|[[t' [C [Hnf _]]]|[C _]]]]; try discriminate C.
    + injection C as <-. destruct Hr as [[_ Hr]|[Hn _]]; [|contradiction].
      split; [rewrite <- Hts; exact Hne|].
      split; [exact Hr|]. split; [congruence|]. split; [exact Hrx|]. split; [congruence|]. split; [congruence|]. split; [congruence|].
      split; [intros _; exact S'|intros X; rewrite S in X; discriminate X].
    + injection C as <-. exfalso. apply Hnf. apply master_ready_is_reply. exact Hm.
  - apply do_claim_token_spec in Hi. destruct Hi as [st0 [Est [Hp [Hc' [Hca [Hap Hcases]]]]]].
    rewrite Hs3, S in Est. injection Est as <-.
    destruct Hcases as [Hne [Hg0 [rest [received [Hrcv [Hrx Hcs]]]]]].
    rewrite P7, (receive_telegram_accept _ _ _ Hd) in Hrcv. injection Hrcv as <- <-.
    rewrite Hts, P2 in Hcs.
    destruct Hcs as [[C _]|[[t' [C [_ [T [S' [G Hr]]]]]]|[[t' [C [Hnf _]]]|[C _]]]]; try discriminate C.
    + injection C as <-. destruct Hr as [[_ Hr]|[Hn _]]; [|contradiction].
      split; [rewrite <- Hts; exact Hne|].
      split; [exact Hr|]. split; [congruence|]. split; [exact Hrx|]. split; [congruence|]. split; [congruence|]. split; [congruence|].
      split; [intros X; rewrite S in X; discriminate X|intros _; exact S'].
    + injection C as <-. exfalso. apply Hnf. apply master_ready_is_reply. exact Hm.
Qed.

(* any other reply, a reply from another address, a time-out, or a poll that does not get as far:
   the ring view is unchanged - except that a time-out in AwaitStatusResponse goes straight on to pass
   the token, to the unchanged NS, and records that pass *)
Theorem successor_unchanged_otherwise f now pin (apps : list A) f' o apps' calls a0 :
  poll ops f now pin apps = Ok (f', o, apps', calls) ->
  (f_state f = AwaitStatusResponse a0 \/ f_state f = ClaimToken (StepScanAwaitResponse a0)) ->
  ~ (exists t n, decode (rx pin) = Ok (Accept t n) /\ is_master_ready_reply (ts f) a0 t) ->
  f_ring f' = f_ring f \/
  (f_state f = AwaitStatusResponse a0 /\ tx o = Some (encode_token (r_ns (f_ring f)) (ts f)) /\
   witness (f_ring f) (ts f) (r_ns (f_ring f)) = Ok (f_ring f')).
Proof.
  intros H Hst Hno. apply poll_unfold in H. destruct H as [w' [Hi [-> [_ ->]]]]. cbn [tx].
  apply poll_inner_cases in Hi. destruct Hi as [Hpre|[f3 [w3 [Hpre [Hle3 Hd]]]]].
  - left. destruct Hpre as [_ [P2 _]]. exact P2.
  - assert (Hs3 : f_state f3 = f_state f)
      by (apply (pre_rel_state _ _ _ _ Hpre); destruct Hst as [S|S]; rewrite S; reflexivity).
    destruct Hpre as [P1 [P2 [P3 [P4 [P5 [P6 [P7 [P8 _]]]]]]]]. cbn in P5, P6, P7.
    assert (Hts : ts f3 = ts f) by (unfold ts; rewrite P1; reflexivity).
    unfold dispatch in Hd. rewrite Hs3 in Hd.
    destruct Hst as [S|S]; rewrite S in Hd; cbn [kind_of poll_dispatch] in Hd.
    + apply do_await_status_response_spec in Hd.
      destruct Hd as [a0' [Est [Hne [Hg0 [Hp [Hc' [Hca [Hap [Hg [rest [received [Hrcv [Hrx Hcases]]]]]]]]]]]]].
      rewrite Hs3, S in Est. injection Est as <-. rewrite P7 in Hrcv. rewrite Hts, P2 in Hcases.
      destruct Hcases as [[_ [_ [_ R]]]|[[t' [C [_ [_ [_ Hr]]]]]|[[t' [_ [_ [_ [_ R]]]]]|[_ [[_ [_ R]]|[T0 [T [Wi _]]]]]]]].
      * left. congruence.
      * destruct Hr as [[Hm _]|[_ R]]; [|left; congruence].
        exfalso. apply Hno. subst received. apply receive_telegram_some in Hrcv. destruct Hrcv as [n [Hd' _]].
        exists t', n. split; assumption.
      * left. congruence.
      * left. congruence.
      * right. split; [exact S|]. split; assumption.
    + apply do_claim_token_spec in Hd. destruct Hd as [st0 [Est [Hp [Hc' [Hca [Hap Hcases]]]]]].
      rewrite Hs3, S in Est. injection Est as <-.
      destruct Hcases as [Hne [Hg0 [rest [received [Hrcv [Hrx Hcs]]]]]]. rewrite P7 in Hrcv. rewrite Hts, P2 in Hcs.
      left.
      destruct Hcs as [[_ [_ [_ [_ R]]]]|[[t' [C [_ [_ [_ [_ Hr]]]]]]|[[t' [_ [_ [_ [_ [_ R]]]]]]|[_ [R _]]]]]; try congruence.
      destruct Hr as [[Hm _]|[_ R]]; [|congruence].
      exfalso. apply Hno. subst received. apply receive_telegram_some in Hrcv. destruct Hrcv as [n [Hd' _]].
      exists t', n. split; assumption.
Qed.

(* the found station gets the next token: after the accepted reply every transmission of the
   following polls (PassToken{do_gap: No}) is the token TS -> a0 *)
Theorem found_gets_next_token f now pin (apps : list A) f' o apps' calls a0 t n
        now2 pin2 (apps2 : list A) f'' o2 apps2' calls2 wire :
  poll ops f now pin apps = Ok (f', o, apps', calls) ->
  f_state f = AwaitStatusResponse a0 ->
  f_conn f = ConnOnline -> tx_busy pin = false -> (forall l, f_lba f = Some l -> l < now) ->
  decode (rx pin) = Ok (Accept t n) -> is_master_ready_reply (ts f) a0 t ->
  length (r_las (f_ring f)) = 128%nat -> r_ts (f_ring f) = ts f -> 0 <= ts f < 128 ->
  poll ops f' now2 pin2 apps2 = Ok (f'', o2, apps2', calls2) -> tx o2 = Some wire ->
  r_ns (f_ring f') = a0 /\ wire = encode_token a0 (ts f).
Proof.
  intros H Hst Hc Hb Hl Hd Hm HL Hrts Hts H2 Htx.
  destruct (found_becomes_successor _ _ _ _ _ _ _ _ _ _ _ H (or_introl Hst) Hc Hb Hl Hd Hm)
    as [Hne [Hset [_ [_ [_ [_ [Hp [Hs' _]]]]]]]].
  specialize (Hs' Hst).
  destruct (set_next_station_effect _ _ _ HL ltac:(rewrite Hrts; exact Hts) ltac:(rewrite Hrts; exact Hne) Hset) as [_ [Hns _]].
  split; [exact Hns|].
  destruct (after_gap_request_step _ _ _ _ _ _ _ _ H2 ltac:(rewrite Hs'; reflexivity)) as [_ [_ [[T _]|[T _]]]].
  - rewrite T in Htx. discriminate Htx.
  - rewrite T in Htx. injection Htx as <-. rewrite Hns. unfold ts. rewrite Hp. reflexivity.
Qed.

(* ------------------------------------------------------------------------------------------ *)
(* C12_status_reply_truth                                                                       *)

(* A listening or idle station transmits nothing but (a) the claim token after its silence time-out
   and (b) the status reply to the pending requester, with the state the code prescribes. *)
Theorem listen_idle_transmissions f now pin (apps : list A) f' o apps' calls wire :
  poll ops f now pin apps = Ok (f', o, apps', calls) ->
  kind_of (f_state f) = KListenToken \/ kind_of (f_state f) = KActiveIdle ->
  tx o = Some wire ->
  calls = [] /\
  ((wire = encode_token (ts f) (ts f) /\ f_state f' = ClaimToken StepSecondToken) \/
   (exists src st, marker (f_state f) = Some src /\ wire = reply_wire src (ts f) st /\ reply_sent f f' src st)).
Proof.
  intros H Hk Htx. pose proof (poll_transmissions _ _ _ _ _ _ _ _ _ H Htx) as Hc.
  assert (Hnu : ~ in_use (f_state f)) by (intros [K|K]; destruct Hk as [Q|Q]; rewrite Q in K; discriminate K).
  destruct Hc as [Y|[Yc [Y|[Y|Y]]]].
  - exfalso. destruct Y as [cs [i [hp [er [_ [[K|K] _]]]]]]; destruct Hk as [Q|Q]; rewrite Q in K; discriminate K.
  - split; [exact (quiet_calls_nil _ _ Hnu Yc)|]. left. destruct Y as [da [Hw [[Hda [[S _]|[_ S]]]|[_ [K|[K|[K|K]]]]]]].
    + subst da. split; assumption.
    + exfalso. destruct Hk as [Q|Q]; rewrite S in Q; discriminate Q.
    + exfalso. destruct Hk as [Q|Q]; rewrite Q in K; discriminate K.
    + exfalso. destruct Hk as [Q|Q]; rewrite Q in K; discriminate K.
    + exfalso. destruct Hk as [Q|Q]; rewrite Q in K; discriminate K.
    + exfalso. exact (Hnu K).
  - exfalso. destruct Y as [a [_ [_ [_ [_ [_ [[_ [[att S]|S]]|[_ [S|[a0 S]]]]]]]]]]; [| exact (Hnu S)| |];
      destruct Hk as [Q|Q]; rewrite S in Q; discriminate Q.
  - split; [exact (quiet_calls_nil _ _ Hnu Yc)|]. right. destruct Y as [src [st [Hw Hr]]]. exists src, st. split; [|split; assumption].
    destruct Hr as [[cc [S _]]|[nps [cc [S _]]]]; rewrite S; reflexivity.
Qed.

(* the reported state is truthful, as coded: "not ready" while the LAS is not valid (and also to
   anybody but the predecessor), "ready" iff the LAS is valid and the requester is PS, "in ring"
   exactly in the ring state ActiveIdle; never "slave" *)
Theorem reply_state_truth f f' src st : reply_sent f f' src st ->
  (st = RsMasterInRing <-> exists nps cc, f_state f = ActiveIdle (Some src) nps cc) /\
  (st = RsMasterWithoutToken <->
     (exists cc, f_state f = ListenToken (Some src) cc) /\ ready_for_ring (f_ring f) = true /\ src = r_ps (f_ring f)) /\
  (st = RsMasterNotReady <->
     (exists cc, f_state f = ListenToken (Some src) cc) /\ ~ (ready_for_ring (f_ring f) = true /\ src = r_ps (f_ring f))) /\
  st <> RsSlave.
Proof.
  intros [[cc [S [-> _]]]|[nps [cc [S [-> _]]]]].
  - unfold listen_reply_ready, listen_reply_not_ready.
    destruct (ready_for_ring (f_ring f)) eqn:Er; destruct (Z.eqb_spec src (r_ps (f_ring f))) as [E|E]; cbn [andb].
    + split; [split; [discriminate|intros [nps [cc' X]]; rewrite S in X; discriminate X]|].
      split; [split; [intros _; split; [exists cc; exact S|split; [reflexivity|exact E]]|reflexivity]|].
      split; [split; [discriminate|intros [_ N]; exfalso; apply N; split; [reflexivity|exact E]]|discriminate].
    + split; [split; [discriminate|intros [nps [cc' X]]; rewrite S in X; discriminate X]|].
      split; [split; [discriminate|intros [_ [_ X]]; contradiction]|].
      split; [split; [intros _; split; [exists cc; exact S|intros [_ X]; contradiction]|reflexivity]|discriminate].
    + split; [split; [discriminate|intros [nps [cc' X]]; rewrite S in X; discriminate X]|].
      split; [split; [discriminate|intros [_ [X _]]; discriminate X]|].
      split; [split; [intros _; split; [exists cc; exact S|intros [X _]; discriminate X]|reflexivity]|discriminate].
    + split; [split; [discriminate|intros [nps [cc' X]]; rewrite S in X; discriminate X]|].
      split; [split; [discriminate|intros [_ [X _]]; discriminate X]|].
      split; [split; [intros _; split; [exists cc; exact S|intros [X _]; discriminate X]|reflexivity]|discriminate].
  - unfold active_idle_reply.
    split; [split; [intros _; exists nps, cc; exact S|reflexivity]|].
    split; [split; [discriminate|intros [[cc' X] _]; rewrite S in X; discriminate X]|].
    split; [split; [discriminate|intros [[cc' X] _]; rewrite S in X; discriminate X]|discriminate].
Qed.

(* ------------------------------------------------------------------------------------------ *)
(* C12_status_reply_in_slot                                                                     *)

Definition idle_in : phy_in := mkPhyIn false [].
Definition t_sync (f : fdl) : Z := p_bits_to_time (f_p f) sync_pause_bits.

Definition reply_pending (f : fdl) (src : Z) : Prop :=
  (exists cc, f_state f = ListenToken (Some src) cc) \/ (exists nps cc, f_state f = ActiveIdle (Some src) nps cc).

Lemma t_sync_bounds f : 0 <= t_sync f <= 100000 * 1000000.
Proof. unfold t_sync, p_bits_to_time. apply bits_to_time_bounds. vm_compute. split; discriminate. Qed.

(* before the pause is over the station waits: nothing is transmitted, nothing changes *)
Lemma reply_waits f src l now (apps : list A) :
  f_conn f = ConnOnline -> reply_pending f src -> f_lba f = Some l -> time_ok l -> time_ok now ->
  l < now <= l + t_sync f -> now - l < token_lost_timeout (f_p f) ->
  poll ops f now idle_in apps = Ok (f, mkPhyOut None [], apps, []).
Proof.
  intros Hc Hst Hl Tl Tn Hnow Hto. pose proof (t_sync_bounds f) as Hb. unfold t_sync in *.
  unfold poll, poll_traced, poll_inner. rewrite Hc. cbn [tx_busy rx idle_in].
  assert (Hk : online_entry_kind (kind_of (f_state f)) = false)
    by (destruct Hst as [[cc ->]|[nps [cc ->]]]; reflexivity).
  rewrite Hk. cbn [bind].
  unfold check_for_ongoing_transmision. rewrite Hl.
  destruct (Z.leb_spec now l) as [C|_]; [lia|]. rewrite andb_false_r. cbn [orb].
  unfold check_for_bus_activity. cbn [w_rx length]. replace (Nat.ltb (f_pending f) 0) with false by (symmetry; apply Nat.ltb_ge; lia).
  assert (Hdiff : inst_diff now l = Ok (now - l)).
  { unfold inst_diff, time_ok in *. rewrite i64_ok_small by lia. rewrite Z.abs_eq by lia. reflexivity. }
  assert (Hadd : inst_add l (p_bits_to_time (f_p f) sync_pause_bits) = Ok (l + p_bits_to_time (f_p f) sync_pause_bits)).
  { unfold inst_add, time_ok in *. rewrite i64_ok_small by lia. reflexivity. }
  destruct Hst as [[cc Hs]|[nps [cc Hs]]]; rewrite Hs; cbn [kind_of poll_dispatch].
  - unfold do_listen_token, assert_entry. rewrite Hs. cbn [f_state kind_of do_fn_entry state_kind_eqb bind].
    unfold handle_lost_token, lba_get_or_insert. rewrite Hl, Hdiff. cbn [bind].
    destruct (Z.leb_spec (token_lost_timeout (f_p f)) (now - l)) as [C|_]; [lia|]. cbn [bind].
    rewrite Hs. cbn [get_listen_token bind].
    unfold wait_synchronization_pause, lba_get_or_insert. rewrite Hl, Hadd. cbn [bind].
    destruct (Z.leb_spec now (l + p_bits_to_time (f_p f) sync_pause_bits)) as [_|C]; [|lia]. reflexivity.
  - unfold do_active_idle, assert_entry. rewrite Hs. cbn [f_state kind_of do_fn_entry state_kind_eqb bind].
    unfold handle_lost_token, lba_get_or_insert. rewrite Hl, Hdiff. cbn [bind].
    destruct (Z.leb_spec (token_lost_timeout (f_p f)) (now - l)) as [C|_]; [lia|]. cbn [bind].
    rewrite Hs. cbn [get_active_idle bind].
    unfold wait_synchronization_pause, lba_get_or_insert. rewrite Hl, Hadd. cbn [bind].
    destruct (Z.leb_spec now (l + p_bits_to_time (f_p f) sync_pause_bits)) as [_|C]; [|lia]. reflexivity.
Qed.

(* the first poll later than the pause transmits the reply *)
Lemma reply_goes_out f src l now (apps : list A) :
  f_conn f = ConnOnline -> reply_pending f src -> f_lba f = Some l -> time_ok l -> time_ok now ->
  l + t_sync f < now -> now - l < token_lost_timeout (f_p f) ->
  exists f' st, poll ops f now idle_in apps = Ok (f', mkPhyOut (Some (reply_wire src (ts f) st)) [], apps, []) /\
                reply_sent f f' src st.
Proof.
  intros Hc Hst Hl Tl Tn Hnow Hto. pose proof (t_sync_bounds f) as Hb. unfold t_sync in *.
  pose proof (bits_to_time_bounds (p_baud (f_p f)) (bits_per_byte * 6) ltac:(vm_compute; split; discriminate)) as Hb2.
  unfold poll, poll_traced, poll_inner. rewrite Hc. cbn [tx_busy rx idle_in].
  assert (Hk : online_entry_kind (kind_of (f_state f)) = false)
    by (destruct Hst as [[cc ->]|[nps [cc ->]]]; reflexivity).
  rewrite Hk. cbn [bind].
  unfold check_for_ongoing_transmision. rewrite Hl.
  destruct (Z.leb_spec now l) as [C|_]; [lia|]. rewrite andb_false_r. cbn [orb].
  unfold check_for_bus_activity. cbn [w_rx length]. replace (Nat.ltb (f_pending f) 0) with false by (symmetry; apply Nat.ltb_ge; lia).
  assert (Hdiff : inst_diff now l = Ok (now - l)).
  { unfold inst_diff, time_ok in *. rewrite i64_ok_small by lia. rewrite Z.abs_eq by lia. reflexivity. }
  assert (Hadd : inst_add l (p_bits_to_time (f_p f) sync_pause_bits) = Ok (l + p_bits_to_time (f_p f) sync_pause_bits)).
  { unfold inst_add, time_ok in *. rewrite i64_ok_small by lia. reflexivity. }
  assert (Hmark : forall g, f_p g = f_p f -> mark_tx g now 6 = Ok (set_lba g (Some (now + bits_to_time (p_baud (f_p f)) (bits_per_byte * 6))))).
  { intros g Hg. unfold mark_tx. change (Z.of_nat 6) with 6.
    replace (4294967295 <? 6) with false by reflexivity. replace (4294967295 <? bits_per_byte * 6) with false by reflexivity.
    rewrite Hg. unfold inst_add, time_ok in *. rewrite i64_ok_small by lia. reflexivity. }
  destruct Hst as [[cc Hs]|[nps [cc Hs]]]; rewrite Hs; cbn [kind_of poll_dispatch].
  - unfold do_listen_token, assert_entry. rewrite Hs. cbn [f_state kind_of do_fn_entry state_kind_eqb bind].
    unfold handle_lost_token, lba_get_or_insert. rewrite Hl, Hdiff. cbn [bind].
    destruct (Z.leb_spec (token_lost_timeout (f_p f)) (now - l)) as [C|_]; [lia|]. cbn [bind].
    rewrite Hs. cbn [get_listen_token bind].
    unfold wait_synchronization_pause, lba_get_or_insert. rewrite Hl, Hadd. cbn [bind].
    destruct (Z.leb_spec now (l + p_bits_to_time (f_p f) sync_pause_bits)) as [C|_]; [lia|].
    unfold phy_send, transmit, status_response_header. rewrite encode_nosap. cbn [bind phy_transmit w_tx].
    destruct (ready_for_ring (f_ring f)) eqn:Er.
    + unfold trans, transition_active_idle, assert_kind. rewrite Hs. cbn [kind_of may_transition_active_idle bind]. rewrite encode_nosap_length.
      rewrite (Hmark (set_st f (ActiveIdle None None 0)) eq_refl). cbn [bind].
      eexists; eexists. split; [reflexivity|]. left. exists cc. split; [exact Hs|]. rewrite Er. split; reflexivity.
    + rewrite Hs. cbn [get_listen_token bind andb].
      rewrite encode_nosap_length, (Hmark (set_st f (ListenToken None cc)) eq_refl). cbn [bind].
      eexists; eexists. split; [reflexivity|]. left. exists cc. split; [exact Hs|]. rewrite Er. split; reflexivity.
  - unfold do_active_idle, assert_entry. rewrite Hs. cbn [f_state kind_of do_fn_entry state_kind_eqb bind].
    unfold handle_lost_token, lba_get_or_insert. rewrite Hl, Hdiff. cbn [bind].
    destruct (Z.leb_spec (token_lost_timeout (f_p f)) (now - l)) as [C|_]; [lia|]. cbn [bind].
    rewrite Hs. cbn [get_active_idle bind].
    unfold wait_synchronization_pause, lba_get_or_insert. rewrite Hl, Hadd. cbn [bind].
    destruct (Z.leb_spec now (l + p_bits_to_time (f_p f) sync_pause_bits)) as [C|_]; [lia|].
    unfold phy_send, transmit, status_response_header. rewrite encode_nosap. cbn [bind phy_transmit w_tx].
    rewrite encode_nosap_length, (Hmark (set_st f (ActiveIdle None nps cc)) eq_refl). cbn [bind].
    eexists; eexists. split; [reflexivity|]. right. exists nps, cc. split; [exact Hs|]. split; reflexivity.
Qed.

Lemma bits_to_time_up_nonneg b n : 0 <= n -> 0 <= bits_to_time_up b n.
Proof. intros H. unfold bits_to_time_up. pose proof (baud_rate_pos b). apply Z.div_pos; lia. Qed.

(* C12_status_reply_in_slot.  The station has a pending status request whose reception stamped
   last_bus_activity = l (poll_marks_last_request: l is the time of the poll that received it).
   It is polled at the times waits ++ [tk], at most P apart, with nothing further on the bus; tk is
   the first of these later than l + 33 bit.  Then all earlier polls do nothing at all, the poll at
   tk transmits the reply, tk <= l + 33 bit + P, and - when the request ended at t_end, at most one
   poll period before l - the first byte of the reply is complete (plus 1 us rounding slack) before
   t_end + Tslot, for every parameter set the builder accepts and every poll period P <= Tslot / 4. *)
Theorem status_reply_in_slot f src l P waits tk (apps : list A) :
  builder_valid (f_p f) -> f_conn f = ConnOnline -> reply_pending f src ->
  f_lba f = Some l -> time_ok l -> time_ok tk ->
  0 <= P -> 4 * P <= slot_time (f_p f) ->
  spaced l P (waits ++ [tk]) -> Forall (fun t => t <= l + t_sync f) waits -> l + t_sync f < tk ->
  (forall t, In t waits -> poll ops f t idle_in apps = Ok (f, mkPhyOut None [], apps, [])) /\
  (exists f' st, poll ops f tk idle_in apps = Ok (f', mkPhyOut (Some (reply_wire src (ts f) st)) [], apps, []) /\
                 reply_sent f f' src st) /\
  tk <= l + t_sync f + P /\
  (forall t_end, t_end <= l <= t_end + P ->
     tk <= t_end + 2 * P + t_sync f /\
     tk + bits_to_time_up (p_baud (f_p f)) bits_per_byte + 1 <= t_end + slot_time (f_p f)).
Proof.
  intros Hbv Hc Hst Hl Tl Tk HP H4 Hsp Hw Hk.
  pose proof (t_sync_bounds f) as Hb.
  destruct (spaced_first_after l P (t_sync f) waits tk (proj1 Hb) HP Hsp Hw) as [Hbound [Hafter Hlt]].
  pose proof (slot_time_covers_reply (f_p f) P Hbv HP H4) as Hslot. fold (t_sync f) in Hslot.
  pose proof (bits_to_time_up_nonneg (p_baud (f_p f)) bits_per_byte ltac:(vm_compute; discriminate)) as Hup.
  pose proof (token_lost_timeout_ge_slot (f_p f) Hbv) as Hlost.
  split; [|split; [|split]].
  - intros t Hin. rewrite Forall_forall in Hw, Hafter. specialize (Hw t Hin). specialize (Hafter t Hin).
    apply (reply_waits f src l t apps Hc Hst Hl Tl); [unfold time_ok in *; lia|lia|lia].
  - apply (reply_goes_out f src l tk apps Hc Hst Hl Tl Tk Hk). lia.
  - exact Hbound.
  - intros t_end Hend. split; lia.
Qed.

Lemma gap_size_counts t n H : 0 <= t < H -> 0 <= n < H ->
  (forall x, 0 <= x < H -> (in_gap t n x <-> 1 <= off t H x <= gap_size t n H)) /\
  (forall k, 1 <= k <= gap_size t n H -> exists x, 0 <= x < H /\ off t H x = k /\ in_gap t n x) /\
  (forall x y, 0 <= x < H -> 0 <= y < H -> off t H x = off t H y -> x = y).
Proof.
  intros Ht Hn. split; [intros x Hx; exact (gap_offsets t n H x Ht Hn Hx)|].
  split; [intros k Hk; exact (gap_offsets_onto t n H k Ht Hn Hk)|intros x y Hx Hy; exact (off_inj t H x y Ht Hx Hy)].
Qed.

(* ------------------------------------------------------------------------------------------ *)
(* the requester's side of "within the slot time": it looks for new bytes before it tests the     *)
(* slot timer                                                                                     *)

Lemma await_status_keeps_waiting f now (w : W) a0 l :
  f_state f = AwaitStatusResponse a0 -> f_gap f = GapDoPoll a0 -> a0 <> ts f ->
  f_lba f = Some l -> time_ok l -> 0 <= slot_time (f_p f) <= 100000 * 1000000 ->
  decode (w_rx w) = Ok NeedMore -> now <= l + slot_time (f_p f) ->
  exists f' w', do_await_status_response A f now w = Ok (f', w') /\ f_state f' = f_state f /\
                w_tx w' = w_tx w /\ w_rx w' = w_rx w /\ w_apps w' = w_apps w /\ w_calls w' = w_calls w.
Proof.
  intros Hs Hg Hne Hl Tl Hslot Hd Hnow.
  unfold do_await_status_response, assert_entry. rewrite Hs. cbn [kind_of do_fn_entry state_kind_eqb bind get_await_status_response_address].
  unfold await_gap_poll_response. destruct (Z.eqb_spec a0 (ts f)) as [E|_]; [contradiction|].
  rewrite Hg, Z.eqb_refl. cbn [negb]. unfold receive_telegram. rewrite Hd. cbn [bind].
  rewrite Nat.ltb_irrefl.
  unfold check_slot_expired, lba_get_or_insert, sync_pending_bytes. cbn [set_pending f_lba set_rx w_rx]. rewrite Hl.
  cbn [f_p set_pending]. unfold inst_add, time_ok in *. rewrite i64_ok_small by lia. cbn [bind].
  destruct (Z.ltb_spec (l + slot_time (f_p f)) now) as [C|_]; [lia|].
  eexists; eexists. split; [reflexivity|]. cbn. repeat split; try reflexivity; exact Hs.
Qed.

(* A station waiting for the status reply (AwaitStatusResponse) does not time out in a poll that finds new bytes in
   the receive buffer (however late the poll is), nor in a poll up to Tslot after its last_bus_activity: it keeps
   waiting, transmits nothing and consumes nothing (the reply is not complete yet). *)
Theorem requester_keeps_waiting f now pin (apps : list A) a0 l :
  f_conn f = ConnOnline -> f_state f = AwaitStatusResponse a0 -> f_gap f = GapDoPoll a0 -> a0 <> ts f ->
  tx_busy pin = false -> f_lba f = Some l -> time_ok l -> time_ok now -> l < now ->
  0 <= slot_time (f_p f) <= 100000 * 1000000 ->
  decode (rx pin) = Ok NeedMore ->
  ((f_pending f < length (rx pin))%nat \/ now <= l + slot_time (f_p f)) ->
  exists f', poll ops f now pin apps = Ok (f', mkPhyOut None (rx pin), apps, []) /\ f_state f' = f_state f.
Proof.
  intros Hc Hs Hg Hne Hb Hl Tl Tn Hlt Hslot Hd Hcase.
  unfold poll, poll_traced. rewrite Hb.
  rewrite (poll_inner_dispatches f now _ Hc ltac:(rewrite Hs; reflexivity) ltac:(intros l0 E; rewrite Hl in E; injection E as <-; exact Hlt)).
  unfold check_for_bus_activity. cbn [w_rx].
  destruct (Nat.ltb_spec (f_pending f) (length (rx pin))) as [Hnew|Hold]; cbn [fst snd].
  - set (f3 := set_pending (mark_bus_activity f now) (length (rx pin))).
    assert (Hl3 : f_lba f3 = Some now).
    { unfold f3, mark_bus_activity, lba_get_or_insert. rewrite Hl. cbn. f_equal. lia. }
    destruct (await_status_keeps_waiting f3 now (note A (mkWorld (rx pin) None apps [] []) TBusActivity) a0 now)
      as [f' [w' [Hd' [Hs' [Ht [Hr [Ha Hca]]]]]]]; try assumption.
    + unfold f3, mark_bus_activity, lba_get_or_insert. rewrite Hl. cbn. exact Hs.
    + unfold f3, mark_bus_activity, lba_get_or_insert. rewrite Hl. cbn. exact Hg.
    + unfold f3, mark_bus_activity, lba_get_or_insert, ts. rewrite Hl. cbn. exact Hne.
    + unfold f3, mark_bus_activity, lba_get_or_insert. rewrite Hl. cbn. exact Hslot.
    + unfold f3, mark_bus_activity, lba_get_or_insert. rewrite Hl. cbn. lia.
    + unfold dispatch. replace (f_state f3) with (f_state f)
        by (unfold f3, mark_bus_activity, lba_get_or_insert; rewrite Hl; reflexivity).
      rewrite Hs. cbn [kind_of poll_dispatch]. rewrite Hd'. cbn [bind].
      exists f'. cbn in Ht, Hr, Ha, Hca. rewrite Ht, Hr, Ha, Hca. split; [reflexivity|].
      rewrite Hs'. unfold f3, mark_bus_activity, lba_get_or_insert. rewrite Hl. cbn. exact Hs.
  - destruct Hcase as [Hnew|Hin]; [lia|].
    destruct (await_status_keeps_waiting f now (mkWorld (rx pin) None apps [] []) a0 l)
      as [f' [w' [Hd' [Hs' [Ht [Hr [Ha Hca]]]]]]]; try assumption.
    unfold dispatch. rewrite Hs. cbn [kind_of poll_dispatch]. rewrite Hd'. cbn [bind].
    exists f'. cbn in Ht, Hr, Ha, Hca. rewrite Ht, Hr, Ha, Hca. split; [reflexivity|rewrite Hs'; exact Hs].
Qed.

End WithApps.

(* ------------------------------------------------------------------------------------------ *)
(* non-vacuity: concrete polls that exercise the theorems                                       *)

Definition ex_params : params := mkParams 7 B19200 100 20000 10 16 3 11 None.
Definition ex_ring (st : las_state) (ns ps : Z) : ring := mkRing (set_nth (repeat false 128) 7 true) st 7 ns ps.
Definition ex_station (s : state) (g : gap_state) (ps : Z) : fdl :=
  mkFdl ex_params (ex_ring LasValid 7 ps) ConnOnline g s (Some 0) 0 0 0 0.

(* station 7 alone in the ring (NS = TS, HSA = 16), cursor at TS: the GAP step polls address 8 *)
Lemma example_gap_request :
  exists f' o, poll unit_app_ops (ex_station (PassToken true AttFirst) (GapDoPoll 7) 7) 10000 (mkPhyIn false []) [tt]
               = Ok (f', o, [tt], []) /\
    tx o = Some (sr_wire 8 7) /\ f_state f' = AwaitStatusResponse 8 /\ f_gap f' = GapDoPoll 8.
Proof. eexists; eexists. split; [vm_compute; reflexivity|]. repeat split; reflexivity. Qed.

(* cursor at HSA-1 = 15: wraps to 0, which is in the GAP of (7, 7) *)
Lemma example_gap_request_wrap :
  exists f' o, poll unit_app_ops (ex_station (PassToken true AttFirst) (GapDoPoll 15) 7) 10000 (mkPhyIn false []) [tt]
               = Ok (f', o, [tt], []) /\
    tx o = Some (sr_wire 0 7) /\ f_state f' = AwaitStatusResponse 0.
Proof. eexists; eexists. split; [vm_compute; reflexivity|]. repeat split; reflexivity. Qed.

(* cursor at TS-1 = 6: the sweep ends, the token goes to NS (= TS here) *)
Lemma example_sweep_end :
  exists f' o, poll unit_app_ops (ex_station (PassToken true AttFirst) (GapDoPoll 6) 7) 10000 (mkPhyIn false []) [tt]
               = Ok (f', o, [tt], []) /\
    tx o = Some (encode_token 7 7) /\ f_gap f' = GapWaiting 0.
Proof. eexists; eexists. split; [vm_compute; reflexivity|]. repeat split; reflexivity. Qed.

(* a listening station with a valid LAS answers its predecessor (3) "ready" and enters the ring *)
Lemma example_status_reply :
  exists f' o, poll unit_app_ops (ex_station (ListenToken (Some 3) 0) (GapDoPoll 7) 3) 10000 (mkPhyIn false []) [tt]
               = Ok (f', o, [tt], []) /\
    tx o = Some (reply_wire 3 7 RsMasterWithoutToken) /\ f_state f' = ActiveIdle None None 0.
Proof. eexists; eexists. split; [vm_compute; reflexivity|]. repeat split; reflexivity. Qed.

(* ... and anybody else "not ready" *)
Lemma example_status_reply_not_ready :
  exists f' o, poll unit_app_ops (ex_station (ListenToken (Some 4) 0) (GapDoPoll 7) 3) 10000 (mkPhyIn false []) [tt]
               = Ok (f', o, [tt], []) /\
    tx o = Some (reply_wire 4 7 RsMasterNotReady).
Proof. eexists; eexists. split; [vm_compute; reflexivity|]. repeat split; reflexivity. Qed.

(* a ready master at 9 answers the poll of 9: it becomes NS *)
Lemma example_found :
  exists f' o, poll unit_app_ops (ex_station (AwaitStatusResponse 9) (GapDoPoll 9) 7) 10000
                 (mkPhyIn false (encode (TData (status_response_header 7 9 RsMasterWithoutToken StOk) []))) [tt]
               = Ok (f', o, [tt], []) /\
    tx o = None /\ r_ns (f_ring f') = 9 /\ f_state f' = PassToken false AttFirst.
Proof. eexists; eexists. split; [vm_compute; reflexivity|]. repeat split; reflexivity. Qed.

Lemma example_params_builder_valid : builder_valid ex_params.
Proof. unfold builder_valid. vm_compute. repeat split; discriminate. Qed.

Arguments gap_counters {A}.
Arguments facts {A}.
Arguments facts_l {A}.
