(* FDL oracle soundness, part 8: R06_no_backoff (theorem C06_backoff against the second monitor; invariant UB:
   last_bus_activity is not later than the last poll or the predicted end of the last transmission the monitor
   knows). *)
From Coq Require Import Arith.
From PB Require Import Common Tables FdlTables Telegram Phy TokenRing Params Fdl FdlOracle FdlProofs FdlStepProofs.
From PB Require Import C05Proofs C01Proofs C11Proofs C15Proofs C13Proofs C12Proofs.
From PB Require Import FdlOracleSound1 FdlOracleSound2 FdlOracleSound3 FdlOracleSound4 FdlOracleSound5 FdlOracleSound6 FdlOracleSound7.
From PB Require C06Proofs.

(* ------------------------------------------------------------------------------------------ *)
(* C06: R06_no_backoff (theorem C06_backoff against the second monitor)                          *)

Section Backoff.
Variable A : Type.
Variable ops : app_ops A.
Variable p : params.
Variable n : nat.

(* the station's last_bus_activity is not later than the last poll or the predicted end of its last transmission
   as the second monitor keeps it *)
Definition UB (f : fdl) (tl : Z) (g : mon2) : Prop :=
  forall l, f_lba f = Some l -> l <= tl \/ exists e, l_txend g = Some e /\ l <= e.

Lemma ub_poll f apps buf tl m g now busy nb f' o apps' calls :
  Base A p n f apps buf tl m -> UB f tl g -> tl <= now ->
  poll ops f now (mkPhyIn busy (buf ++ nb)) apps = Ok (f', o, apps', calls) ->
  UB f' now (y_g' p n m g (poll_event now busy (buf ++ nb) f' o calls)).
Proof.
  intros HB HU Hle E. pose proof (b_p _ _ _ _ _ _ _ _ HB) as Hp.
  pose proof (poll_lba_case A ops _ _ _ _ _ _ _ _ _ E) as LC.
  intros l' El'. change (l_txend (y_g' p n m g (poll_event now busy (buf ++ nb) f' o calls))) with
    (y_txend p g (poll_event now busy (buf ++ nb) f' o calls)).
  unfold y_txend, y_tx_end, y_now. cbn [poll_event s_tx FdlOracle.s_now].
  destruct LC as [wire l Etx L' Hb0 Hng El Hlt|Etx L'|Etx L'|Etx M L'|Etx (S1 & C1 & P1 & L1) Hl1]; rewrite Etx.
  - right. eexists. split; [reflexivity|]. rewrite L' in El'. injection El' as <-. rewrite dur_is_prop, Hp. lia.
  - rewrite L' in El'. destruct (HU l' El') as [H|(e & He & H)]; [left; lia|right; exists e; split; assumption].
  - rewrite L' in El'. injection El' as <-. destruct (f_lba f) as [l|] eqn:El; cbn [gv]; [|left; lia].
    destruct (HU l El) as [H|(e & He & H)]; [left; lia|right; exists e; split; assumption].
  - rewrite L' in El'. injection El' as <-. destruct (f_lba f) as [l|] eqn:El; cbn [gv]; [|left; lia].
    destruct (HU l El) as [H|(e & He & H)]; [left; lia|].
    destruct (Z.le_ge_cases l now); [left; lia|right; exists e; split; [exact He|lia]].
  - destruct L1 as [L1|L1]; rewrite L1 in El'; [discriminate El'|injection El' as <-; left; lia].
Qed.

Lemma ub_api a f f' m g v tl : api_result p a f = Ok f' -> UB f tl g -> UB f' tl (snd (mon_after_api a v m g)).
Proof.
  intros E HU.
  assert (Hnew : forall p0 f1, fdl_new p0 = Ok f1 -> UB f1 tl mon2_reset).
  { intros p0 f1 E1 l El. destruct (fdl_new_fields _ _ E1) as (_ & _ & L1 & _). rewrite L1 in El. discriminate El. }
  destruct a; cbn [api_result mon_after_api snd] in *.
  - eapply Hnew. exact E.
  - unfold set_online, set_state in E. injection E as <-. exact HU.
  - unfold set_offline, set_state in E. eapply Hnew. exact E.
  - discriminate E.
Qed.

Lemma backoff_ok f apps buf tl m g c now busy nb f' o apps' calls :
  Base A p n f apps buf tl m -> VI p n f tl m g c -> GX f g -> UB f tl g -> tl < now ->
  poll ops f now (mkPhyIn busy (buf ++ nb)) apps = Ok (f', o, apps', calls) ->
  y_e_backoff p m g (poll_event now busy (buf ++ nb) f' o calls) = [].
Proof.
  intros HB HV [GW _] HU Hlt E. pose proof (x_k0_base A p n _ _ _ _ _ HB) as Hk0. change (x_k0 m) with (y_k0 m) in Hk0.
  destruct HB as [R Hp Hn Hv Hl Hpd Hb Htl].
  assert (Hts : y_ts p = ts f) by (unfold y_ts, ts; rewrite Hp; reflexivity).
  set (s := poll_event now busy (buf ++ nb) f' o calls).
  unfold y_e_backoff. destruct (y_looks g s) eqn:Elooks; [|reflexivity].
  cbn [s poll_event s_rx]. destruct (decode (buf ++ nb)) as [[ | |t k]| |] eqn:Ed; try reflexivity.
  cbv zeta.
  match goal with |- (if ?u then _ else _) = [] => destruct u eqn:Eu end; [|reflexivity].
  (* the poll looks at the buffer *)
  unfold y_looks, y_ongoing, y_now in Elooks. cbn [s poll_event s_busy FdlOracle.s_now] in Elooks.
  apply andb_true_iff in Elooks. destruct Elooks as (Hbusy & Hong).
  assert (Hb0 : busy = false) by (destruct busy; [discriminate Hbusy|reflexivity]).
  assert (Hpred : C11Proofs.predicted f now = false).
  { unfold C11Proofs.predicted. destruct (f_lba f) as [l|] eqn:El; [|reflexivity]. apply Z.leb_gt.
    destruct (HU l El) as [H|(e & He & H)]; [lia|]. rewrite He in Hong. apply negb_true_iff, Z.leb_gt in Hong. lia. }
  assert (Hdec : DecodeSpec.decode_spec (buf ++ nb) = Accept t k).
  { rewrite DecodeSpec.decode_is_spec in Ed. injection Ed as Ed. exact Ed. }
  assert (Hun : C06Proofs.unexpected_for f t).
  { unfold C06Proofs.unexpected_for. rewrite Hk0 in Eu. unfold y_waiting_c12 in Eu. rewrite Hk0 in Eu.
    unfold y_pre in Eu. rewrite Hv in Eu.
    destruct (f_state f) as [ | |sr cc|sr nps cc|tk fa fcd|st|a tk fa|dg att|att|a0] eqn:Es;
      cbn [kind_of state_kind_eqb orb andb view_of v_scan_await] in Eu; try discriminate Eu.
    - (* ClaimToken *) rewrite Es in Eu. destruct st as [ | | |a0]; try discriminate Eu.
      rewrite (GW a0 ltac:(right; reflexivity)) in Eu. rewrite Hts in Eu. apply negb_true_iff in Eu.
      unfold C06Proofs.gap_reply_from. destruct t as [h pdu|da sa| ]; try reflexivity.
      destruct h as [da sa ds ss fc]. cbn [h_fc h_sa h_da] in Eu. destruct fc; [reflexivity|exact Eu].
    - (* AwaitDataResponse *)
      destruct HV as [(_ & _ & Vst) Vout _ _ _ _ _]. unfold inv_st in Vst. rewrite Es in Vst. destruct Vst as (Vo & _).
      rewrite Vout, Vo in Eu. apply negb_true_iff in Eu. rewrite Hts in Eu.
      unfold is_valid_response. destruct t as [h pdu|da sa| ]; [|reflexivity|discriminate Eu].
      destruct (h_fc h); [rewrite andb_false_r; reflexivity|rewrite andb_true_r; exact Eu].
    - (* AwaitStatusResponse *)
      rewrite (GW a0 ltac:(left; reflexivity)) in Eu. rewrite Hts in Eu. apply negb_true_iff in Eu.
      unfold C06Proofs.gap_reply_from. destruct t as [h pdu|da sa| ]; try reflexivity.
      destruct h as [da sa ds ss fc]. cbn [h_fc h_sa h_da] in Eu. destruct fc; [reflexivity|exact Eu]. }
  rewrite Hb0 in E.
  destruct (C06Proofs.backoff A ops f now (mkPhyIn false (buf ++ nb)) apps t k f' o apps' calls Hun eq_refl Hpred Hdec E)
    as (Hs' & -> & -> & _).
  unfold y_k1, y_post. cbn [s poll_event s_view s_tx s_calls s_consumed s_rx view_of v_kind tx rx_left rx map]. rewrite Hs'.
  cbn [kind_of state_kind_eqb andb]. rewrite skipn_length.
  apply C16Proofs.decode_accept_bounds in Ed.
  replace (length (buf ++ nb) - (length (buf ++ nb) - k))%nat with k by lia. rewrite Nat.eqb_refl. reflexivity.
Qed.

End Backoff.
