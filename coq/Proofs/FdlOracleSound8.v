(* FDL oracle soundness, part 8: R06_no_backoff (theorem C06_backoff against the second monitor; invariant UB:
   last_bus_activity is not later than the last poll or the predicted end of the last transmission the monitor
   knows), and ALL rule groups treated so far in one induction: theorem fdl_oracle_sound - a rule reported on a
   transcript of the model is one of `open_rules` (the rules whose soundness is not proved yet). *)
From Coq Require Import Arith.
From PB Require Import Common Tables FdlTables Telegram Phy TokenRing Params Fdl FdlOracle FdlProofs FdlStepProofs.
From PB Require Import C05Proofs C01Proofs C11Proofs C15Proofs C13Proofs C12Proofs.
From PB Require Import FdlOracleSound1 FdlOracleSound2 FdlOracleSound3 FdlOracleSound4 FdlOracleSound5 FdlOracleSound6 FdlOracleSound7.
From PB Require C06Proofs.

(* ------------------------------------------------------------------------------------------ *)
(* C06: R06_no_backoff (theorem C06_backoff against the second monitor)                          *)

Section Backoff.
Variable A : Type.
Variable ops : app_ops A.
Variable p : params.
Variable n : nat.

(* the station's last_bus_activity is not later than the last poll or the predicted end of its last transmission
   as the second monitor keeps it *)
Definition UB (f : fdl) (tl : Z) (g : mon2) : Prop :=
  forall l, f_lba f = Some l -> l <= tl \/ exists e, l_txend g = Some e /\ l <= e.

Lemma ub_poll f apps buf tl m g now busy nb f' o apps' calls :
  Base A p n f apps buf tl m -> UB f tl g -> tl <= now ->
  poll ops f now (mkPhyIn busy (buf ++ nb)) apps = Ok (f', o, apps', calls) ->
  UB f' now (y_g' p n m g (poll_event now busy (buf ++ nb) f' o calls)).
Proof.
  intros HB HU Hle E. pose proof (b_p _ _ _ _ _ _ _ _ HB) as Hp.
  pose proof (poll_lba_case A ops _ _ _ _ _ _ _ _ _ E) as LC.
  intros l' El'. change (l_txend (y_g' p n m g (poll_event now busy (buf ++ nb) f' o calls))) with
    (y_txend p g (poll_event now busy (buf ++ nb) f' o calls)).
  unfold y_txend, y_tx_end, y_now. cbn [poll_event s_tx FdlOracle.s_now].
  destruct LC as [wire l Etx L' Hb0 Hng El Hlt|Etx L'|Etx L'|Etx M L'|Etx (S1 & C1 & P1 & L1) Hl1]; rewrite Etx.
  - right. eexists. split; [reflexivity|]. rewrite L' in El'. injection El' as <-. rewrite dur_is_prop, Hp. lia.
  - rewrite L' in El'. destruct (HU l' El') as [H|(e & He & H)]; [left; lia|right; exists e; split; assumption].
  - rewrite L' in El'. injection El' as <-. destruct (f_lba f) as [l|] eqn:El; cbn [gv]; [|left; lia].
    destruct (HU l El) as [H|(e & He & H)]; [left; lia|right; exists e; split; assumption].
  - rewrite L' in El'. injection El' as <-. destruct (f_lba f) as [l|] eqn:El; cbn [gv]; [|left; lia].
    destruct (HU l El) as [H|(e & He & H)]; [left; lia|].
    destruct (Z.le_ge_cases l now); [left; lia|right; exists e; split; [exact He|lia]].
  - destruct L1 as [L1|L1]; rewrite L1 in El'; [discriminate El'|injection El' as <-; left; lia].
Qed.

Lemma ub_api a f f' m g v tl : api_result p a f = Ok f' -> UB f tl g -> UB f' tl (snd (mon_after_api a v m g)).
Proof.
  intros E HU.
  assert (Hnew : forall p0 f1, fdl_new p0 = Ok f1 -> UB f1 tl mon2_reset).
  { intros p0 f1 E1 l El. destruct (fdl_new_fields _ _ E1) as (_ & _ & L1 & _). rewrite L1 in El. discriminate El. }
  destruct a; cbn [api_result mon_after_api snd] in *.
  - eapply Hnew. exact E.
  - unfold set_online, set_state in E. injection E as <-. exact HU.
  - unfold set_offline, set_state in E. eapply Hnew. exact E.
  - discriminate E.
Qed.

Lemma backoff_ok f apps buf tl m g c now busy nb f' o apps' calls :
  Base A p n f apps buf tl m -> VI p n f tl m g c -> GX f g -> UB f tl g -> tl < now ->
  poll ops f now (mkPhyIn busy (buf ++ nb)) apps = Ok (f', o, apps', calls) ->
  y_e_backoff p m g (poll_event now busy (buf ++ nb) f' o calls) = [].
Proof.
  intros HB HV [GW _] HU Hlt E. pose proof (x_k0_base A p n _ _ _ _ _ HB) as Hk0. change (x_k0 m) with (y_k0 m) in Hk0.
  destruct HB as [R Hp Hn Hv Hl Hpd Hb Htl].
  assert (Hts : y_ts p = ts f) by (unfold y_ts, ts; rewrite Hp; reflexivity).
  set (s := poll_event now busy (buf ++ nb) f' o calls).
  unfold y_e_backoff. destruct (y_looks g s) eqn:Elooks; [|reflexivity].
  cbn [s poll_event s_rx]. destruct (decode (buf ++ nb)) as [[ | |t k]| |] eqn:Ed; try reflexivity.
  cbv zeta.
  match goal with |- (if ?u then _ else _) = [] => destruct u eqn:Eu end; [|reflexivity].
  (* the poll looks at the buffer *)
  unfold y_looks, y_ongoing, y_now in Elooks. cbn [s poll_event s_busy FdlOracle.s_now] in Elooks.
  apply andb_true_iff in Elooks. destruct Elooks as (Hbusy & Hong).
  assert (Hb0 : busy = false) by (destruct busy; [discriminate Hbusy|reflexivity]).
  assert (Hpred : C11Proofs.predicted f now = false).
  { unfold C11Proofs.predicted. destruct (f_lba f) as [l|] eqn:El; [|reflexivity]. apply Z.leb_gt.
    destruct (HU l El) as [H|(e & He & H)]; [lia|]. rewrite He in Hong. apply negb_true_iff, Z.leb_gt in Hong. lia. }
  assert (Hdec : DecodeSpec.decode_spec (buf ++ nb) = Accept t k).
  { rewrite DecodeSpec.decode_is_spec in Ed. injection Ed as Ed. exact Ed. }
  assert (Hun : C06Proofs.unexpected_for f t).
  { unfold C06Proofs.unexpected_for. rewrite Hk0 in Eu. unfold y_waiting_c12 in Eu. rewrite Hk0 in Eu.
    unfold y_pre in Eu. rewrite Hv in Eu.
    destruct (f_state f) as [ | |sr cc|sr nps cc|tk fa fcd|st|a tk fa|dg att|att|a0] eqn:Es;
      cbn [kind_of state_kind_eqb orb andb view_of v_scan_await] in Eu; try discriminate Eu.
    - (* ClaimToken *) rewrite Es in Eu. destruct st as [ | | |a0]; try discriminate Eu.
      rewrite (GW a0 ltac:(right; reflexivity)) in Eu. rewrite Hts in Eu. apply negb_true_iff in Eu.
      unfold C06Proofs.gap_reply_from. destruct t as [h pdu|da sa| ]; try reflexivity.
      destruct h as [da sa ds ss fc]. cbn [h_fc h_sa h_da] in Eu. destruct fc; [reflexivity|exact Eu].
    - (* AwaitDataResponse *)
      destruct HV as [(_ & _ & Vst) Vout _ _ _ _ _]. unfold inv_st in Vst. rewrite Es in Vst. destruct Vst as (Vo & _).
      rewrite Vout, Vo in Eu. apply negb_true_iff in Eu. rewrite Hts in Eu.
      unfold is_valid_response. destruct t as [h pdu|da sa| ]; [|reflexivity|discriminate Eu].
      destruct (h_fc h); [rewrite andb_false_r; reflexivity|rewrite andb_true_r; exact Eu].
    - (* AwaitStatusResponse *)
      rewrite (GW a0 ltac:(left; reflexivity)) in Eu. rewrite Hts in Eu. apply negb_true_iff in Eu.
      unfold C06Proofs.gap_reply_from. destruct t as [h pdu|da sa| ]; try reflexivity.
      destruct h as [da sa ds ss fc]. cbn [h_fc h_sa h_da] in Eu. destruct fc; [reflexivity|exact Eu]. }
  rewrite Hb0 in E.
  destruct (C06Proofs.backoff A ops f now (mkPhyIn false (buf ++ nb)) apps t k f' o apps' calls Hun eq_refl Hpred Hdec E)
    as (Hs' & -> & -> & _).
  unfold y_k1, y_post. cbn [s poll_event s_view s_tx s_calls s_consumed s_rx view_of v_kind tx rx_left rx map]. rewrite Hs'.
  cbn [kind_of state_kind_eqb andb]. rewrite skipn_length.
  apply C16Proofs.decode_accept_bounds in Ed.
  replace (length (buf ++ nb) - (length (buf ++ nb) - k))%nat with k by lia. rewrite Nat.eqb_refl. reflexivity.
Qed.

End Backoff.

(* ------------------------------------------------------------------------------------------ *)
(* all rule groups treated so far in ONE induction: what may still be reported                   *)

(* rules whose soundness is NOT proved here (R05_panic: see c05_oracle_sound, a separate induction) *)
Definition open_rules : list rule :=
  [R05_panic;
   R11_accept_while_listening; R11_accept_without_token; R11_accept_from_stranger;
   R11_retry_too_early; R11_too_many_retries; R11_removed_too_early; R11_heard_but_supervising;
   R11_supervision_never_ends; R11_offer_changes_ring_view;
   R12_reply_without_request; R12_reply_untruthful; R12_reply_from_wrong_state;
   R12_sweep_bound; R12_post_claim_scan_incomplete; R12_gap_wait_never_ends;
   R15_no_reply_no_timeout].

Definition may_fire (r : rule) : Prop := In r open_rules.
Ltac in_leaf := unfold may_fire, open_rules; cbn; repeat (first [left; reflexivity | right]).

Section Master.
Variable A : Type.
Variable ops : app_ops A.
Variable p : params.
Hypothesis Happs : apps_total A ops.
Hypothesis Hbv : builder_valid p.
Hypothesis Hdata : app_sends_data A ops.

Definition J8 (n : nat) (f : fdl) (apps : list A) (buf : bytes) (tl : Z) (m : mon) (g : mon2) : Prop :=
  J7 A p n f apps buf tl m g /\ TI f tl m /\ UB f tl g.

Lemma x_e11a_open m s : onlyr may_fire (x_e11a p m s).
Proof. unfold x_e11a. cbv zeta. solve_onlyr in_leaf. Qed.
Lemma x_e11c_open m s : onlyr may_fire (x_e11c p m s).
Proof. unfold x_e11c. cbv zeta. solve_onlyr in_leaf. Qed.
Lemma x_e11b_open m s : onlyr may_fire (x_e11b p m s).
Proof. unfold x_e11b. cbv zeta. solve_onlyr in_leaf. Qed.
Lemma x_e12b_open m s : onlyr may_fire (x_e12b p m s).
Proof. unfold x_e12b. cbv zeta. solve_onlyr in_leaf. Qed.
Lemma y_e_sweep_open m g s : onlyr may_fire (y_e_sweep p m g s).
Proof. unfold y_e_sweep. cbv zeta. solve_onlyr in_leaf. Qed.
Lemma y_e_scan_open m g s : onlyr may_fire (y_e_scan p m g s).
Proof. unfold y_e_scan. cbv zeta. solve_onlyr in_leaf. Qed.
Lemma y_e_live_open m g s : onlyr may_fire (y_e_live p m g s).
Proof. unfold y_e_live. solve_onlyr in_leaf. Qed.

Theorem fdl_oracle_sound (apps : list A) (ins : list minput) :
  ins_ok 0 ins ->
  forall k r, In (k, r) (monitor p (length apps) (model_transcript A ops p apps ins)) -> In r open_rules.
Proof.
  intros Hok.
  apply (generic_sound_transcript A ops p (length apps) may_fire (J8 (length apps)) (fun _ => True)); try assumption; try reflexivity.
  - in_leaf.
  - intros a f apps0 buf tl m g f' ((((HB & c & HV) & HG) & HX) & HT & HU) E _. split; [split; [split|]|split].
    + split; [eapply base_api; eassumption|]. eapply vi_api; eassumption.
    + intros Hor. destruct a; cbn [mon_after_api fst]; try reflexivity.
      * unfold api_result, set_online, set_state in E. cbn in E. injection E as <-. exact (HG Hor).
      * discriminate E.
    + eapply gx_api; eassumption.
    + eapply ti_api; eassumption.
    + eapply ub_api; eassumption.
  - intros f apps0 buf tl m g now busy nb f' o apps' calls (((HJ & HG) & HX) & HT & HU) Hlt Hnow Hnb E _.
    pose proof HJ as (HB & c & HV). assert (Hle : tl <= now) by lia.
    destruct (J5_poll A ops p (length apps) Happs Hbv Hdata _ _ _ _ _ _ _ _ _ _ _ _ _ HJ Hlt Hnow Hnb E)
      as ((c' & Hf & H15 & H13 & Hrr & Hend & HV') & HB').
    destruct (gx_poll A ops p (length apps) Hdata _ _ _ _ _ _ _ _ _ _ _ _ _ HB HX E) as (Hfound & Htok & HX').
    pose proof (c01_ok A ops p (length apps) Hbv _ _ _ _ _ _ _ _ _ _ _ _ HB HT Hle Hnow Hnb E) as H01.
    pose proof (c06_ok A ops p (length apps) Hbv _ _ _ _ _ _ _ _ _ _ _ _ HB HT Hle Hnow Hnb E) as H06.
    pose proof (backoff_ok A ops p (length apps) _ _ _ _ _ _ _ _ _ _ _ _ _ _ HB HV HX HU Hlt E) as Hbo.
    split; [|split].
    + rewrite mon_poll_eq. cbn [snd].
      assert (H12a : x_e12a p m (poll_event now busy (buf ++ nb) f' o calls) = []) by (eapply e12a_ok; eassumption).
      rewrite H01, H06, H12a, Hf, H15. cbn [app]. rewrite app_nil_r.
      apply onlyr_app; [apply x_e11a_open|].
      apply onlyr_app; [apply x_e11c_open|].
      apply onlyr_app; [apply x_e11b_open|].
      apply x_e12b_open.
    + rewrite mon_poll2_eq. cbn [snd]. rewrite Hfound, Htok, H13, Hrr, Hend, Hbo. cbn [app]. rewrite app_nil_r.
      apply onlyr_app; [apply y_e_sweep_open|].
      apply onlyr_app; [apply y_e_scan_open|].
      apply y_e_live_open.
    + split; [split; [split|]|split].
      * split; [exact HB'|exists c'; rewrite fst_mon_poll, mon_poll2_eq; exact HV'].
      * rewrite fst_mon_poll. eapply gp_poll; eassumption.
      * rewrite mon_poll2_eq. cbn [fst]. exact HX'.
      * eapply ti_poll; eassumption.
      * rewrite mon_poll2_eq. cbn [fst]. eapply ub_poll; eassumption.
  - intros f0 apps0 E Hn _. split; [split; [split; [apply J5_init; assumption|intros _; reflexivity]|]|split].
    + split; [|intros a C; discriminate C].
      intros a Haw. exfalso. destruct (fdl_new_spec _ _ E) as ((S1 & _) & _). rewrite S1 in Haw. destruct Haw as [C|C]; discriminate C.
    + destruct (J1_init A p Hbv _ _ _ E Hn) as (_ & HT). exact HT.
    + intros l El. destruct (fdl_new_fields _ _ E) as (_ & _ & L1 & _). rewrite L1 in El. discriminate El.
  - apply transcript_ok_true.
Qed.

(* per property: what is left *)
Corollary c06_oracle_sound (apps : list A) (ins : list minput) :
  ins_ok 0 ins ->
  forall k r, In (k, r) (monitor p (length apps) (model_transcript A ops p apps ins)) -> rule_prop r <> PC06.
Proof.
  intros Hok k r Hin. pose proof (fdl_oracle_sound _ _ Hok _ _ Hin) as H. unfold open_rules in H. cbn in H.
  repeat (destruct H as [<-|H]; [discriminate|]). contradiction.
Qed.

Corollary c12_open (apps : list A) (ins : list minput) :
  ins_ok 0 ins ->
  forall k r, In (k, r) (monitor p (length apps) (model_transcript A ops p apps ins)) -> rule_prop r = PC12 ->
  In r [R12_reply_without_request; R12_reply_untruthful; R12_reply_from_wrong_state;
        R12_sweep_bound; R12_post_claim_scan_incomplete; R12_gap_wait_never_ends].
Proof.
  intros Hok k r Hin Hp. pose proof (fdl_oracle_sound _ _ Hok _ _ Hin) as H. unfold open_rules in H. cbn in H.
  repeat (destruct H as [<-|H]; [first [discriminate Hp | cbn; repeat (first [left; reflexivity | right])]|]). contradiction.
Qed.

End Master.
