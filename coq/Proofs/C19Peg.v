(* C19 - every pair tree the PEG model of pest (Model/Peg.v) returns for the GSD grammar has the shape that
   GsdShape.child_rx computes from the grammar.  Together with C19Proofs.interp_no_panic: for EVERY text, if the
   PEG model accepts it, the interpretation of the resulting pair tree cannot panic. *)
From PB Require Import Common GsdGrammar GsdTables GsdInterp GsdShape Peg C19Shape C19Proofs.

(* ------------------------------------------------------------------------------------------ well-formedness checks (computed) *)

(* the expression can be translated by rx_of with this much inlining fuel, and does not call the implicit rules *)
Fixpoint rx_wf (g : list (rule * modifier * expr)) (fuel : nat) : expr -> bool :=
  fix go (e : expr) : bool :=
    match e with
    | ERule r =>
        negb (is_implicit r) &&
        match lookup_rule r g with
        | Some (MSilent, body) => match fuel with S f => rx_wf g f body | O => false end
        | Some (MNormal, _) | Some (MAtomic, _) => true
        | _ => false
        end
    | ESeq a b | EChoice a b => go a && go b
    | EOpt a | ERep a | ERepPlus a => go a
    | _ => true
    end.

Definition rule_wf (g : list (rule * modifier * expr)) (x : rule * modifier * expr) : bool :=
  match x with
  | (r, MNormal, body) => negb (is_implicit r) && rx_wf g (length g) body
  | (r, MSilent, body) => is_implicit r || rx_wf g (length g) body
  | (r, MAtomic, _) => negb (is_implicit r)
  | _ => false
  end.

Definition grammar_wf (g : list (rule * modifier * expr)) : bool :=
  implicit_silent g && forallb (rule_wf g) g &&
  match lookup_rule R_EOI g with None => true | Some _ => false end.

Lemma grammar_is_wf : grammar_wf grammar = true.
Proof. vm_compute. reflexivity. Qed.

Lemma lookup_rule_in : forall r g md body, lookup_rule r g = Some (md, body) -> In (r, md, body) g.
Proof.
  intros r g md body. induction g as [| [[r' m'] e'] g IH]; cbn [lookup_rule]; intros H; [discriminate H |].
  destruct (rule_eqb r r') eqn:E.
  - apply rule_eqb_eq in E. subst r'. injection H as -> ->. left. reflexivity.
  - right. apply IH. exact H.
Qed.

Lemma lookup_wf : forall r md body, lookup_rule r grammar = Some (md, body) -> rule_wf grammar (r, md, body) = true.
Proof.
  intros r md body H. pose proof grammar_is_wf as W. unfold grammar_wf in W.
  apply andb_true_iff in W. destruct W as [W _]. apply andb_true_iff in W. destruct W as [_ W].
  rewrite forallb_forall in W. apply W. apply lookup_rule_in. exact H.
Qed.

Lemma eoi_not_a_rule : lookup_rule R_EOI grammar = None.
Proof. vm_compute. reflexivity. Qed.

(* ------------------------------------------------------------------------------------------ the pairs an expression can produce *)

Inductive Toks : expr -> list tree -> Prop :=
| T_str : forall s, Toks (EStr s) []
| T_insens : forall s, Toks (EInsens s) []
| T_range : forall a b, Toks (ERange a b) []
| T_builtin : forall b, b <> B_EOI -> Toks (EBuiltin b) []
| T_eoi : Toks (EBuiltin B_EOI) [Node R_EOI [] []]
| T_silent : forall r body l, lookup_rule r grammar = Some (MSilent, body) -> Toks body l -> Toks (ERule r) l
| T_normal : forall r body txt ks, lookup_rule r grammar = Some (MNormal, body) -> Toks body ks ->
    Toks (ERule r) [Node r txt ks]
| T_atomic : forall r body txt, lookup_rule r grammar = Some (MAtomic, body) -> Toks (ERule r) [Node r txt []]
| T_seq : forall a b l1 l2, Toks a l1 -> Toks b l2 -> Toks (ESeq a b) (l1 ++ l2)
| T_choice_l : forall a b l, Toks a l -> Toks (EChoice a b) l
| T_choice_r : forall a b l, Toks b l -> Toks (EChoice a b) l
| T_opt_some : forall a l, Toks a l -> Toks (EOpt a) l
| T_opt_none : forall a, Toks (EOpt a) []
| T_rep_nil : forall a, Toks (ERep a) []
| T_rep_cons : forall a l1 l2, Toks a l1 -> Toks (ERep a) l2 -> Toks (ERep a) (l1 ++ l2)
| T_plus : forall a l1 l2, Toks a l1 -> Toks (ERep a) l2 -> Toks (ERepPlus a) (l1 ++ l2)
| T_pos : forall a, Toks (EPos a) []
| T_neg : forall a, Toks (ENeg a) []
| T_implicit : forall r, is_implicit r = true -> Toks (ERule r) [].   (* WHITESPACE / COMMENT: bodies are atomic *)

(* smart constructors, forward direction *)
Lemma kids_rseq : forall a b l1 l2, Kids a l1 -> Kids b l2 -> Kids (rseq a b) (l1 ++ l2).
Proof.
  intros a b l1 l2 Ha Hb.
  destruct a; try (exfalso; exact (kids_none _ Ha));
    destruct b; try (exfalso; exact (kids_none _ Hb)); cbn [rseq];
    try (apply kids_eps_inv in Ha; subst l1; cbn [app]; exact Hb);
    try (apply kids_eps_inv in Hb; subst l2; rewrite app_nil_r; exact Ha);
    constructor; assumption.
Qed.

Lemma kids_ralt_l : forall a b l, Kids a l -> Kids (ralt a b) l.
Proof.
  intros a b l Ha. destruct a; try (exfalso; exact (kids_none _ Ha)); destruct b; cbn [ralt]; try exact Ha; apply K_altl; exact Ha.
Qed.

Lemma kids_ralt_r : forall a b l, Kids b l -> Kids (ralt a b) l.
Proof.
  intros a b l Hb. destruct b; try (exfalso; exact (kids_none _ Hb)); destruct a; cbn [ralt]; try exact Hb; apply K_altr; exact Hb.
Qed.

Lemma kids_rstar_nil : forall a, Kids (rstar a) [].
Proof. intros a. destruct a; cbn [rstar]; constructor. Qed.

Lemma kids_rstar_cons : forall a l1 l2, Kids a l1 -> Kids (rstar a) l2 -> Kids (rstar a) (l1 ++ l2).
Proof.
  intros a l1 l2 Ha Hs. destruct a; try (exfalso; exact (kids_none _ Ha)); cbn [rstar] in *;
    try (constructor; assumption).
  apply kids_eps_inv in Ha. apply kids_eps_inv in Hs. subst. constructor.
Qed.

Lemma rx_of_unfold : forall g fuel e,
  rx_of g fuel e =
  match e with
  | EStr _ | EInsens _ | ERange _ _ => REps
  | EBuiltin B_EOI => RSym R_EOI
  | EBuiltin _ => REps
  | ERule r =>
      match lookup_rule r g with
      | Some (MSilent, body) => match fuel with S f => rx_of g f body | O => RNone end
      | _ => RSym r
      end
  | ESeq a b => rseq (rx_of g fuel a) (rx_of g fuel b)
  | EChoice a b => ralt (rx_of g fuel a) (rx_of g fuel b)
  | EOpt a => ralt (rx_of g fuel a) REps
  | ERep a => rstar (rx_of g fuel a)
  | ERepPlus a => rseq (rx_of g fuel a) (rstar (rx_of g fuel a))
  | EPos _ | ENeg _ => REps
  end.
Proof. intros g fuel e. destruct fuel; destruct e; reflexivity. Qed.

Lemma rx_wf_unfold : forall g fuel e,
  rx_wf g fuel e =
  match e with
  | ERule r =>
      negb (is_implicit r) &&
      match lookup_rule r g with
      | Some (MSilent, body) => match fuel with S f => rx_wf g f body | O => false end
      | Some (MNormal, _) | Some (MAtomic, _) => true
      | _ => false
      end
  | ESeq a b | EChoice a b => rx_wf g fuel a && rx_wf g fuel b
  | EOpt a | ERep a | ERepPlus a => rx_wf g fuel a
  | _ => true
  end.
Proof. intros g fuel e. destruct fuel; destruct e; reflexivity. Qed.

(* a well-formed normal / atomic rule gives a well-shaped pair *)
Lemma toks_kids : forall e l, Toks e l -> forall n, rx_wf grammar n e = true -> Kids (rx_of grammar n e) l.
Proof.
  intros e l H. induction H; intros n W; rewrite rx_of_unfold; rewrite rx_wf_unfold in W.
  - constructor.
  - constructor.
  - constructor.
  - destruct b; try constructor. congruence.
  - constructor; [reflexivity |]. constructor. unfold child_rx, child_rx_in. rewrite eoi_not_a_rule. constructor.
  - rewrite H in *. apply andb_true_iff in W. destruct W as [_ W]. destruct n as [| n]; [discriminate W |].
    apply IHToks. exact W.
  - rewrite H. constructor; [reflexivity |]. constructor. unfold child_rx, child_rx_in. rewrite H.
    apply IHToks. pose proof (lookup_wf _ _ _ H) as R. cbn [rule_wf] in R.
    apply andb_true_iff in R. tauto.
  - rewrite H. constructor; [reflexivity |]. constructor. unfold child_rx, child_rx_in. rewrite H. constructor.
  - apply andb_true_iff in W. destruct W as [Wa Wb]. apply kids_rseq; auto.
  - apply andb_true_iff in W. destruct W as [Wa Wb]. apply kids_ralt_l; auto.
  - apply andb_true_iff in W. destruct W as [Wa Wb]. apply kids_ralt_r; auto.
  - apply kids_ralt_l; auto.
  - apply kids_ralt_r. constructor.
  - apply kids_rstar_nil.
  - apply kids_rstar_cons; [apply IHToks1; exact W |].
    specialize (IHToks2 n). rewrite rx_of_unfold, rx_wf_unfold in IHToks2. apply IHToks2. exact W.
  - apply kids_rseq; [apply IHToks1; exact W |].
    specialize (IHToks2 n). rewrite rx_of_unfold, rx_wf_unfold in IHToks2. apply IHToks2. exact W.
  - constructor.
  - constructor.
  - rewrite H in W. discriminate W.
Qed.

Lemma toks_rule_shape : forall r t, Toks (ERule r) [t] -> is_implicit r = false ->
  (forall md body, lookup_rule r grammar = Some (md, body) -> md <> MSilent) -> Shape t /\ root t = r.
Proof.
  intros r t H Hi Hns.
  inversion H as [| | | | | r0 body l L HT | r0 body txt ks L HT | r0 body txt L | | | | | | | | | | |]; subst.
  - exfalso. eapply Hns; [exact L | reflexivity].
  - split; [| reflexivity]. constructor. unfold child_rx, child_rx_in. rewrite L.
    apply toks_kids; [exact HT |]. pose proof (lookup_wf _ _ _ L) as R. cbn [rule_wf] in R.
    apply andb_true_iff in R. tauto.
  - split; [| reflexivity]. constructor. unfold child_rx, child_rx_in. rewrite L. constructor.
Qed.

(* ------------------------------------------------------------------------------------------ the interpreter produces such pairs *)

Definition quiet (m : mode) (la : bool) : bool := la || mode_is_atomic m.

Definition good (m : mode) (la : bool) (t : task) (toks : list tree) : Prop :=
  if quiet m la then toks = [] else
  match t with
  | TExpr e => Toks e toks
  | TCall r => if is_implicit r then toks = [] else Toks (ERule r) toks
  | TStep (LkBody a) => Toks a toks
  | TLoop (LkBody a) => Toks (ERep a) toks
  | _ => toks = []
  end.

Lemma then_inv : forall (x : pres) k i p t, then_ x k = Ok (Some (i, p, t)) ->
  exists i1 p1 t1 t2, x = Ok (Some (i1, p1, t1)) /\ k i1 p1 = Ok (Some (i, p, t2)) /\ t = t1 ++ t2.
Proof.
  intros x k i p t H. unfold then_ in H.
  destruct x as [[[[i1 p1] t1] |] | |]; try discriminate H.
  destruct (k i1 p1) as [[[[i2 p2] t2] |] | |] eqn:E; try discriminate H.
  injection H as <- <- <-. exists i1, p1, t1, t2. repeat split. exact E.
Qed.

Lemma match_range_nil : forall a b inp pos i p t, match_range a b inp pos = Some (i, p, t) -> t = [].
Proof.
  intros a b inp pos i p t H. unfold match_range in H. destruct inp as [| c r]; [discriminate H |].
  destruct ((a <=? c) && (c <=? b)); [| discriminate H]. injection H as _ _ <-. reflexivity.
Qed.

Lemma or_else_nil : forall x y i p t,
  (forall i p t, x = Some (i, p, t) -> t = []) -> (forall i p t, y = Some (i, p, t) -> t = []) ->
  or_else x y = Some (i, p, t) -> t = [].
Proof. intros x y i p t Hx Hy H. unfold or_else in H. destruct x as [[[? ?] ?] |]; [eapply Hx | eapply Hy]; eassumption. Qed.

Lemma match_builtin_nil : forall b inp pos i p t, match_builtin b inp pos = Some (i, p, t) -> t = [].
Proof.
  intros b inp pos i p t H. destruct b; cbn [match_builtin] in H;
    try (eapply match_range_nil; exact H); try discriminate H.
  - destruct inp; [discriminate H | injection H as _ _ <-; reflexivity].
  - destruct (pos =? 0); [injection H as _ _ <-; reflexivity | discriminate H].
  - destruct inp as [| c r]; [discriminate H |].
    destruct c as [| c | c]; try discriminate H.
    repeat (destruct c as [c | c |]; try discriminate H);
      try (injection H as _ _ <-; reflexivity);
      destruct r as [| c2 r2]; try (injection H as _ _ <-; reflexivity);
      destruct c2 as [| c2 | c2]; try (injection H as _ _ <-; reflexivity);
      repeat (destruct c2 as [c2 | c2 |]; try (injection H as _ _ <-; reflexivity)).
  - revert H. apply or_else_nil; [intros ? ? ?; apply match_range_nil |].
    intros ? ? ?. apply or_else_nil; intros ? ? ?; apply match_range_nil.
  - revert H. apply or_else_nil; intros ? ? ?; apply match_range_nil.
  - revert H. apply or_else_nil; [intros ? ? ?; apply match_range_nil |].
    intros ? ? ?. apply or_else_nil; intros ? ? ?; apply match_range_nil.
Qed.

Lemma good_nil_tasks : forall m la t toks,
  match t with TStep LkWs | TStep LkCm | TStep LkCmWs | TLoop LkWs | TLoop LkCm | TLoop LkCmWs | TSkip => True | _ => False end ->
  good m la t toks -> toks = [].
Proof.
  intros m la t toks Ht H. unfold good in H. destruct (quiet m la); [exact H |].
  destruct t as [e | r | k | k |]; try contradiction; try destruct k; try contradiction; exact H.
Qed.

Lemma implicit_ws : is_implicit R_WHITESPACE = true. Proof. reflexivity. Qed.
Lemma implicit_cm : is_implicit R_COMMENT = true. Proof. reflexivity. Qed.

Lemma good_call_implicit : forall m la r toks, is_implicit r = true -> good m la (TCall r) toks -> toks = [].
Proof. intros m la r toks Hi H. unfold good in H. destruct (quiet m la); [exact H |]. rewrite Hi in H. exact H. Qed.

Ltac ok_inv H := injection H as ? ? ?; subst.

Lemma good_quiet_nil : forall m la t, quiet m la = true -> good m la t [].
Proof. intros m la t Q. unfold good. rewrite Q. reflexivity. Qed.

Lemma good_expr_nil : forall m la e, Toks e [] -> good m la (TExpr e) [].
Proof. intros m la e H. unfold good. destruct (quiet m la); [reflexivity | exact H]. Qed.

Lemma skip_nil : forall f m la i1 p1 i p t,
  (forall m la t inp pos i p toks, run grammar f m la t inp pos = Ok (Some (i, p, toks)) -> good m la t toks) ->
  (if mode_is_nonatomic m then run grammar f m la TSkip i1 p1 else Ok (Some (i1, p1, []))) = Ok (Some (i, p, t)) ->
  t = [].
Proof.
  intros f m la i1 p1 i p t IH H. destruct (mode_is_nonatomic m).
  - apply IH in H. eapply good_nil_tasks; [| exact H]. exact I.
  - ok_inv H. reflexivity.
Qed.

Lemma ok_inj : forall (x y : option pout), @Ok (option pout) x = Ok y -> x = y.
Proof. intros x y H. injection H as H. exact H. Qed.

Lemma run_good : forall fuel m la t inp pos i p toks,
  run grammar fuel m la t inp pos = Ok (Some (i, p, toks)) -> good m la t toks.
Proof.
  induction fuel as [| f IH]; intros m la t inp pos i p toks H; [discriminate H |].
  cbn [run] in H.
  destruct t as [e | r | k | k |].
  - (* TExpr *)
    destruct e as [s | s | a b | r | b | a b | a b | a | a | a | a | a].
    + destruct (strip_prefix false s inp); [| discriminate H]. ok_inv H. apply good_expr_nil. constructor.
    + destruct (strip_prefix true s inp); [| discriminate H]. ok_inv H. apply good_expr_nil. constructor.
    + injection H as H. apply match_range_nil in H. subst. apply good_expr_nil. constructor.
    + (* rule *)
      apply IH in H. unfold good in *. destruct (quiet m la); [exact H |].
      destruct (is_implicit r) eqn:Ei; [subst; apply T_implicit; exact Ei | exact H].
    + (* builtin *)
      destruct b; try (apply ok_inj in H; apply match_builtin_nil in H; subst; apply good_expr_nil; constructor; discriminate).
      destruct inp; [| discriminate H]. ok_inv H. unfold good, quiet.
      destruct la; [reflexivity |]. destruct (mode_is_atomic m); cbn [negb andb orb]; [reflexivity | constructor].
    + (* seq *)
      apply then_inv in H. destruct H as [i1 [p1 [t1 [t' [H1 [H2 ->]]]]]].
      apply then_inv in H2. destruct H2 as [i2 [p2 [t2 [t3 [H2 [H3 ->]]]]]].
      apply (skip_nil f m la) in H2; [| exact IH]. subst t2. cbn [app].
      apply IH in H1. apply IH in H3. unfold good in *. destruct (quiet m la).
      * subst. reflexivity.
      * constructor; assumption.
    + (* choice *)
      destruct (run grammar f m la (TExpr a) inp pos) as [[[[i1 p1] t1] |] | |] eqn:E; try discriminate H.
      * ok_inv H. apply IH in E. unfold good in *. destruct (quiet m la); [exact E | apply T_choice_l; exact E].
      * apply IH in H. unfold good in *. destruct (quiet m la); [exact H | apply T_choice_r; exact H].
    + (* opt *)
      destruct (run grammar f m la (TExpr a) inp pos) as [[[[i1 p1] t1] |] | |] eqn:E; try discriminate H.
      * ok_inv H. apply IH in E. unfold good in *. destruct (quiet m la); [exact E | apply T_opt_some; exact E].
      * ok_inv H. apply good_expr_nil. apply T_opt_none.
    + (* rep *)
      destruct (run grammar f m la (TExpr a) inp pos) as [[[[i1 p1] t1] |] | |] eqn:E; try discriminate H.
      * apply then_inv in H. destruct H as [i2 [p2 [t2 [t3 [H1 [H2 ->]]]]]]. ok_inv H1.
        apply IH in E. apply IH in H2. unfold good in *. destruct (quiet m la).
        -- subst. reflexivity.
        -- apply T_rep_cons; assumption.
      * ok_inv H. apply good_expr_nil. apply T_rep_nil.
    + (* rep plus *)
      apply IH in H. unfold good in *. destruct (quiet m la); [exact H |].
      inversion H as [| | | | | | | | x y l1 l2 Ha Hb | | | | | | | | | |]; subst. apply T_plus; assumption.
    + (* positive predicate *)
      destruct (run grammar f m true (TExpr a) inp pos) as [[[[i1 p1] t1] |] | |] eqn:E; try discriminate H.
      ok_inv H. apply good_expr_nil. constructor.
    + (* negative predicate *)
      destruct (run grammar f m true (TExpr a) inp pos) as [[[[i1 p1] t1] |] | |] eqn:E; try discriminate H.
      ok_inv H. apply good_expr_nil. constructor.
  - (* TCall *)
    destruct (lookup_rule r grammar) as [[md body] |] eqn:L; [| discriminate H].
    pose proof (lookup_wf _ _ _ L) as W. cbn [rule_wf] in W.
    destruct md; try discriminate W.
    + (* normal *)
      apply andb_true_iff in W. destruct W as [Wi _]. apply negb_true_iff in Wi. rewrite Wi in H.
      destruct (run grammar f m la (TExpr body) inp pos) as [[[[i1 p1] t1] |] | |] eqn:E; try discriminate H.
      apply IH in E. unfold good in *. unfold quiet in *. rewrite Wi.
      destruct la; cbn [negb andb orb] in *.
      * ok_inv H. reflexivity.
      * destruct (mode_is_atomic m); cbn [negb] in H; ok_inv H; [reflexivity |].
        eapply T_normal; [exact L | exact E].
    + (* silent *)
      destruct (is_implicit r) eqn:Ei.
      * destruct (run grammar f MdAtomic la (TExpr body) inp pos) as [[[[i1 p1] t1] |] | |] eqn:E; try discriminate H.
        ok_inv H. apply IH in E. unfold good in E. unfold quiet in E. cbn [mode_is_atomic] in E. rewrite orb_true_r in E.
        subst. unfold good. rewrite Ei. destruct (quiet m la); reflexivity.
      * destruct (run grammar f m la (TExpr body) inp pos) as [[[[i1 p1] t1] |] | |] eqn:E; try discriminate H.
        ok_inv H. apply IH in E. unfold good in *. rewrite Ei. destruct (quiet m la); [exact E |].
        eapply T_silent; [exact L | exact E].
    + (* atomic *)
      apply negb_true_iff in W.
      destruct (run grammar f MdAtomic la (TExpr body) inp pos) as [[[[i1 p1] t1] |] | |] eqn:E; try discriminate H.
      apply IH in E. unfold good in E. unfold quiet in E. cbn [mode_is_atomic] in E. rewrite orb_true_r in E. subst t1.
      unfold good, quiet. rewrite W.
      destruct la; cbn [negb andb orb] in *.
      * ok_inv H. reflexivity.
      * destruct (mode_is_atomic m); cbn [negb] in H; ok_inv H; [reflexivity |].
        eapply T_atomic. exact L.
  - (* TStep *)
    destruct k as [a | | |].
    + apply then_inv in H. destruct H as [i1 [p1 [t1 [t2 [H1 [H2 ->]]]]]].
      apply (skip_nil f m la) in H1; [| exact IH]. subst t1. cbn [app].
      apply IH in H2. unfold good in *. destruct (quiet m la); exact H2.
    + apply IH in H. apply good_call_implicit in H; [| reflexivity]. subst. unfold good. destruct (quiet m la); reflexivity.
    + apply IH in H. apply good_call_implicit in H; [| reflexivity]. subst. unfold good. destruct (quiet m la); reflexivity.
    + apply then_inv in H. destruct H as [i1 [p1 [t1 [t2 [H1 [H2 ->]]]]]].
      apply IH in H1. apply good_call_implicit in H1; [| reflexivity].
      apply IH in H2. apply good_nil_tasks in H2; [| exact I]. subst. unfold good. destruct (quiet m la); reflexivity.
  - (* TLoop *)
    destruct (run grammar f m la (TStep k) inp pos) as [[[[i1 p1] t1] |] | |] eqn:E; try discriminate H.
    + apply then_inv in H. destruct H as [i2 [p2 [t2 [t3 [H1 [H2 ->]]]]]]. ok_inv H1.
      apply IH in E. apply IH in H2. unfold good in *. destruct (quiet m la).
      * subst. reflexivity.
      * destruct k as [a | | |]; [apply T_rep_cons; assumption | subst; reflexivity ..].
    + ok_inv H. unfold good. destruct (quiet m la); [reflexivity |]. destruct k; try reflexivity. constructor.
  - (* TSkip *)
    destruct (has_rule grammar R_WHITESPACE); destruct (has_rule grammar R_COMMENT).
    + apply then_inv in H. destruct H as [i1 [p1 [t1 [t2 [H1 [H2 ->]]]]]].
      apply IH in H1. apply good_nil_tasks in H1; [| exact I].
      apply IH in H2. apply good_nil_tasks in H2; [| exact I]. subst. unfold good. destruct (quiet m la); reflexivity.
    + apply IH in H. apply good_nil_tasks in H; [| exact I]. subst. unfold good. destruct (quiet m la); reflexivity.
    + apply IH in H. apply good_nil_tasks in H; [| exact I]. subst. unfold good. destruct (quiet m la); reflexivity.
    + ok_inv H. unfold good. destruct (quiet m la); reflexivity.
Qed.

Lemma gsd_rule_normal : exists body, lookup_rule R_gsd grammar = Some (MNormal, body).
Proof. eexists. vm_compute. reflexivity. Qed.

Theorem peg_tree_shape : forall text t, peg_parse text = Ok (Some t) -> Shape t /\ root t = R_gsd.
Proof.
  intros text t H. unfold peg_parse in H.
  destruct (run grammar (peg_fuel text) MdNonAtomic false (TCall R_gsd) text 0)
    as [[[[i p] toks] |] | |] eqn:E; try discriminate H.
  destruct toks as [| t0 [| t1 r]]; try discriminate H. injection H as ->.
  apply run_good in E. unfold good in E. cbn [quiet mode_is_atomic orb] in E.
  change (is_implicit R_gsd) with false in E. cbv iota in E.
  apply toks_rule_shape; [exact E | reflexivity |].
  intros md body L. destruct gsd_rule_normal as [b Lb]. rewrite Lb in L. injection L as <- _. discriminate.
Qed.

(* the two layers composed: whatever text the PEG model of pest accepts, the interpretation cannot panic *)
Theorem peg_then_interp_no_panic : forall text t, peg_parse text = Ok (Some t) -> no_panic (interp t).
Proof. intros text t H. apply interp_no_panic. apply (peg_tree_shape text t H). Qed.

(* ------------------------------------------------------------------------------------------ the PEG model itself has no panic outcome *)

Definition npr (x : pres) : Prop := forall s, x <> Panic s.

Lemma npr_ok : forall o, npr (Ok o). Proof. intros o s H. discriminate H. Qed.
Lemma npr_fuel : npr OutOfFuel. Proof. intros s H. discriminate H. Qed.

Lemma npr_then : forall x k, npr x -> (forall i p, npr (k i p)) -> npr (then_ x k).
Proof.
  intros x k Hx Hk s. unfold then_. destruct x as [[[[i1 p1] t1] |] | s' |]; try (intros H; discriminate H).
  - pose proof (Hk i1 p1 s) as N. destruct (k i1 p1) as [[[[i2 p2] t2] |] | s'' |]; try (intros H; discriminate H). exact N.
  - exact (Hx s).
Qed.

Lemma npr_pass : forall (x : pres) (f : pout -> pres) (y : pres),
  npr x -> (forall o, npr (f o)) -> npr y ->
  npr (match x with Ok (Some o) => f o | Ok None => y | Panic s => Panic s | OutOfFuel => OutOfFuel end).
Proof.
  intros x f y Hx Hf Hy s. destruct x as [[o |] | s' |]; [apply Hf | apply Hy | exact (Hx s) | apply npr_fuel].
Qed.

Lemma run_npr : forall fuel m la t inp pos, npr (run grammar fuel m la t inp pos).
Proof.
  induction fuel as [| f IH]; intros m la t inp pos; [apply npr_fuel |].
  assert (SK : forall i p, npr (if mode_is_nonatomic m then run grammar f m la TSkip i p else Ok (Some (i, p, [])))).
  { intros i p. destruct (mode_is_nonatomic m); [apply IH | apply npr_ok]. }
  cbn [run]. destruct t as [e | r | k | k |].
  - destruct e as [s | s | a b | r | b | a b | a b | a | a | a | a | a]; try apply npr_ok; try apply IH.
    + destruct b; try apply npr_ok. destruct inp; apply npr_ok.
    + apply npr_then; [apply IH | intros i1 p1]. apply npr_then; [apply SK | intros i2 p2; apply IH].
    + pose proof (IH m la (TExpr a) inp pos) as N. intros s.
      destruct (run grammar f m la (TExpr a) inp pos) as [[o |] | s' |]; try (intros H; discriminate H); [apply IH | exact (N s)].
    + pose proof (IH m la (TExpr a) inp pos) as N. intros s.
      destruct (run grammar f m la (TExpr a) inp pos) as [[o |] | s' |]; try (intros H; discriminate H). exact (N s).
    + pose proof (IH m la (TExpr a) inp pos) as N. intros s.
      destruct (run grammar f m la (TExpr a) inp pos) as [[[[i1 p1] t1] |] | s' |]; try (intros H; discriminate H); [| exact (N s)].
      apply npr_then; [apply npr_ok | intros; apply IH].
    + pose proof (IH m true (TExpr a) inp pos) as N. intros s.
      destruct (run grammar f m true (TExpr a) inp pos) as [[o |] | s' |]; try (intros H; discriminate H). exact (N s).
    + pose proof (IH m true (TExpr a) inp pos) as N. intros s.
      destruct (run grammar f m true (TExpr a) inp pos) as [[o |] | s' |]; try (intros H; discriminate H). exact (N s).
  - destruct (lookup_rule r grammar) as [[md body] |]; [| apply npr_ok].
    match goal with |- npr (match ?x with _ => _ end) => assert (N : npr x) by apply IH; intros s; destruct x as [[[[i1 p1] t1] |] | s' |] end;
      try (intros H; discriminate H); [| exact (N s)].
    destruct md; try (intros H; discriminate H); destruct (negb la && negb _); intros H; discriminate H.
  - destruct k as [a | | |]; try apply IH.
    + apply npr_then; [apply SK | intros; apply IH].
    + apply npr_then; [apply IH | intros; apply IH].
  - pose proof (IH m la (TStep k) inp pos) as N. intros s.
    destruct (run grammar f m la (TStep k) inp pos) as [[[[i1 p1] t1] |] | s' |]; try (intros H; discriminate H); [| exact (N s)].
    apply npr_then; [apply npr_ok | intros; apply IH].
  - destruct (has_rule grammar R_WHITESPACE); destruct (has_rule grammar R_COMMENT); try apply IH; try apply npr_ok.
    apply npr_then; [apply IH | intros; apply IH].
Qed.

(* the text-level model never has a panic outcome: description, error, or (unproved to be impossible) out of fuel *)
Theorem gsd_model_never_panics : forall text s, gsd_model text <> Panic s.
Proof.
  intros text s. unfold gsd_model.
  destruct (peg_parse text) as [[t |] | s' |] eqn:E; try (intros H; discriminate H).
  - pose proof (peg_then_interp_no_panic text t E) as N.
    destruct (interp t); cbn [to_res no_panic] in *; [intros H; discriminate H | intros H; discriminate H | contradiction].
  - exfalso. unfold peg_parse in E.
    pose proof (run_npr (peg_fuel text) MdNonAtomic false (TCall R_gsd) text 0) as N.
    destruct (run grammar (peg_fuel text) MdNonAtomic false (TCall R_gsd) text 0) as [[[[i p] toks] |] | s'' |];
      try discriminate E; [destruct toks as [| ? [| ? ?]]; discriminate E | exact (N s'' eq_refl)].
Qed.
