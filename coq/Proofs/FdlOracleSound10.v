(* FDL oracle soundness, part 10: the telegrams of a receive loop.  `delivered` of the monitors is what receive_all
   hands to the closure (receive_all_delivered, with the is_last flags); the loops of do_active_idle and
   do_check_token_pass as runs of handle_telegram (hrun) over the delivered telegrams, and what such a run can end in
   (hrun_result); whole polls from ActiveIdle / CheckTokenPass (active_idle_poll_run, check_pass_poll_run); the other
   states enter ActiveIdle without a pending offer (other_active_idle).  Monitor: the pending offer m_cand (CD);
   R11_accept_without_token, R11_accept_from_stranger, R11_offer_changes_ring_view never fire. *)
From Coq Require Import Arith.
From PB Require Import Common Tables FdlTables Telegram Phy TokenRing Params Fdl FdlOracle FdlProofs FdlStepProofs.
From PB Require Import C05Proofs C01Proofs C11Proofs C15Proofs C13Proofs C12Proofs.
From PB Require Import FdlOracleSound1 FdlOracleSound2 FdlOracleSound3 FdlOracleSound4 FdlOracleSound5 FdlOracleSound6
                       FdlOracleSound7 FdlOracleSound8 FdlOracleSound9.

(* ------------------------------------------------------------------------------------------ *)
(* the telegrams a receive loop delivers: `delivered` of the monitors against receive_all         *)

Section Fold.
Context {S R : Type}.

Fixpoint fold_cb (cb : S -> telegram -> bool -> res (S * R)) (s : S) (l : list (telegram * bool)) : res S :=
  match l with
  | [] => Ok s
  | (t, il) :: l' => let* (s1, _) := cb s t il in fold_cb cb s1 l'
  end.

(* only the last delivered telegram can carry is_last *)
Fixpoint flags_ok (l : list (telegram * bool)) : Prop :=
  match l with
  | [] => True
  | [_] => True
  | (_, il) :: l' => il = false /\ flags_ok l'
  end.

Definition collect (acc : list (telegram * bool)) (t : telegram) (l : bool) : res (list (telegram * bool) * unit) :=
  Ok (acc ++ [(t, l)], tt).

Lemma receive_all_fold (cb : S -> telegram -> bool -> res (S * R)) :
  forall fuel s buf s' rest r acc, receive_all cb fuel s buf = Ok (s', rest, r) ->
  exists l r', receive_all collect fuel acc buf = Ok (acc ++ l, rest, r') /\ fold_cb cb s l = Ok s' /\ flags_ok l /\
               (l = [] -> s' = s /\ (rest = buf \/ rest = [])) /\ (l <> [] -> (length rest < length buf)%nat).
Proof.
  induction fuel as [|fuel IH]; intros s buf s' rest r acc H; [discriminate H|].
  cbn [receive_all] in H |- *.
  destruct (decode buf) as [d| |] eqn:Ed; cbn [bind] in H |- *; try discriminate H.
  destruct d as [ | |t k].
  - injection H as <- <- _. exists [], None. rewrite app_nil_r. split; [reflexivity|]. split; [reflexivity|]. split; [exact I|].
    split; [intros _; split; [reflexivity|left; reflexivity]|intros C; contradiction C; reflexivity].
  - injection H as <- <- _. exists [], None. rewrite app_nil_r. split; [reflexivity|]. split; [reflexivity|]. split; [exact I|].
    split; [intros _; split; [reflexivity|right; reflexivity]|intros C; contradiction C; reflexivity].
  - cbv zeta in H |- *. pose proof (C16Proofs.decode_accept_bounds _ _ _ Ed) as Hk.
    destruct (cb s t (Nat.eqb k (length buf))) as [[s1 r1]| |] eqn:Ec; cbn [bind] in H; try discriminate H.
    unfold collect at 1. cbn [bind].
    destruct (Nat.eqb k (length buf)) eqn:El.
    + injection H as <- <- _. exists [(t, true)], (Some tt). split; [reflexivity|]. cbn [fold_cb]. rewrite Ec. cbn [bind].
      split; [reflexivity|]. split; [exact I|]. split; [intros C; discriminate C|]. intros _. rewrite skipn_length. lia.
    + destruct (IH _ _ _ _ _ (acc ++ [(t, false)]) H) as (l & r' & Hc & Hf & Hfl & Hnil & Hne).
      exists ((t, false) :: l), r'. rewrite <- app_assoc in Hc. cbn [app] in Hc.
      split; [exact Hc|]. cbn [fold_cb]. rewrite Ec. cbn [bind]. split; [exact Hf|].
      split; [destruct l as [|x l]; [exact I|split; [reflexivity|exact Hfl]]|].
      split; [intros C; discriminate C|]. intros _.
      destruct l as [|x l].
      * destruct (Hnil eq_refl) as (_ & [-> | ->]); [rewrite skipn_length; lia|cbn; lia].
      * specialize (Hne ltac:(discriminate)). rewrite skipn_length in Hne. lia.
Qed.

End Fold.

Lemma receive_all_delivered {S R} (cb : S -> telegram -> bool -> res (S * R)) s buf s' rest r :
  receive_all cb (receive_all_fuel buf) s buf = Ok (s', rest, r) ->
  fold_cb cb s (delivered buf) = Ok s' /\ flags_ok (delivered buf) /\
  (delivered buf = [] -> s' = s /\ (rest = buf \/ rest = [])) /\ (delivered buf <> [] -> (length rest < length buf)%nat).
Proof.
  intros H. destruct (receive_all_fold cb _ _ _ _ _ _ [] H) as (l & r' & Hc & Hf & Hfl & Hnil & Hne).
  unfold delivered. change (fun (acc : list (telegram * bool)) t l => Ok (acc ++ [(t, l)], tt)) with collect.
  rewrite Hc. cbn [app]. tauto.
Qed.

(* what the monitors read from the receive buffer of a poll *)
Lemma x_tels_delivered now busy rxb f' o calls :
  (delivered rxb = [] \/ (length (rx_left o) < length rxb)%nat) ->
  x_tels (poll_event now busy rxb f' o calls) = delivered rxb /\
  x_lastt (poll_event now busy rxb f' o calls) = last_delivered rxb.
Proof.
  intros H. unfold x_tels, x_lastt. cbn [poll_event s_consumed s_rx].
  destruct (Nat.eqb (length rxb - length (rx_left o)) 0) eqn:E; [|split; reflexivity].
  apply Nat.eqb_eq in E. destruct H as [H|H]; [|lia]. unfold last_delivered. rewrite H. split; reflexivity.
Qed.

Lemma x_tels_untouched now busy rxb f' o calls :
  rx_left o = rxb -> x_tels (poll_event now busy rxb f' o calls) = [] /\ x_lastt (poll_event now busy rxb f' o calls) = None.
Proof. intros H. unfold x_tels, x_lastt. cbn [poll_event s_consumed s_rx]. rewrite H, Nat.sub_diag. split; reflexivity. Qed.

(* ------------------------------------------------------------------------------------------ *)
(* handle_telegram over the delivered telegrams                                                  *)

Definition offer_of (tsa : Z) (t : telegram) (il : bool) : option Z :=
  match t with
  | TToken da sa => if (da =? tsa) && negb (sa =? tsa) && il then Some sa else None
  | _ => None
  end.

Definition cand_of (tsa : Z) (l : list (telegram * bool)) (nps : option Z) : option Z :=
  match rev l with
  | (t, il) :: _ => match offer_of tsa t il with Some sa => Some sa | None => nps end
  | [] => nps
  end.

Section Handle.
Variable A : Type.
Notation W := (world A).

(* one call of handle_telegram in ActiveIdle *)
Lemma ht_step now f (w : W) t il f' w' sr nps cc :
  f_state f = ActiveIdle sr nps cc -> handle_telegram A now f w t il = Ok (f', w') ->
  f_p f' = f_p f /\
  match offer_of (ts f) t il with
  | Some sa => (f_state f' = UseToken now None false /\ (sa = r_ps (f_ring f) \/ nps = Some sa)) \/
               (f_state f' = ActiveIdle sr (Some sa) 0 /\ f_ring f' = f_ring f)
  | None => (exists sr' cc', f_state f' = ActiveIdle sr' nps cc') \/ f_state f' = ListenToken None 0
  end.
Proof.
  intros Es H. split; [exact (proj1 (proj2 (proj2 (handle_telegram_heard A now f w t il f' w' ltac:(rewrite Es; exact I) H))))|].
  unfold handle_telegram in H. rewrite Es in H. cbn [kind_of state_kind_eqb negb get_active_idle bind] in H.
  destruct t as [h pdu|da sa| ]; cbn [offer_of].
  - left. destruct (is_fdl_status_request h && (h_da h =? ts f) && il); injection H as <- _; cbn; [eauto|rewrite Es; eauto].
  - destruct (Z.eqb_spec sa (ts f)) as [Esa|Esa].
    + rewrite andb_false_r. cbn [andb].
      unfold u8_add in H. destruct (cc + 1 <=? 255); cbn [bind] in H; [|discriminate H].
      destruct (cc + 1 =? active_idle_collision_tolerated).
      * injection H as <- _. left. cbn. eauto.
      * apply trans_spec in H. destruct H as (s' & Ht & -> & _). cbn [f_state set_st] in Ht |- *.
        unfold transition_listen_token in Ht. destruct (assert_kind _ _); cbn [bind] in Ht; try discriminate Ht.
        injection Ht as <-. right. reflexivity.
    + cbn [negb]. rewrite andb_true_r.
      replace (ts (set_st f (ActiveIdle sr nps 0))) with (ts f) in H by reflexivity.
      replace (f_ring (set_st f (ActiveIdle sr nps 0))) with (f_ring f) in H by reflexivity.
      destruct (da =? ts f) eqn:Eda; cbn [negb orb andb] in H |- *.
      * destruct il; cbn [negb] in H |- *.
        -- destruct (Z.eqb_spec sa (r_ps (f_ring f))) as [Eps|Eps].
           ++ apply trans_spec in H. destruct H as (s' & Ht & -> & _). cbn [f_state set_st] in Ht |- *.
              unfold transition_use_token in Ht. destruct (assert_kind _ _); cbn [bind] in Ht; try discriminate Ht.
              injection Ht as <-. left. split; [reflexivity|left; exact Eps].
           ++ destruct nps as [a|].
              ** destruct (Z.eqb_spec a sa) as [Ea|Ea].
                 --- destruct (witness _ _ _) as [r| |]; cbn [bind] in H; try discriminate H.
                     apply trans_spec in H. destruct H as (s' & Ht & -> & _). cbn [f_state set_st set_ring] in Ht |- *.
                     unfold transition_use_token in Ht. destruct (assert_kind _ _); cbn [bind] in Ht; try discriminate Ht.
                     injection Ht as <-. left. split; [reflexivity|right; rewrite Ea; reflexivity].
                 --- injection H as <- _. right. cbn. split; reflexivity.
              ** injection H as <- _. right. cbn. split; reflexivity.
        -- destruct (witness _ _ _) as [r| |]; cbn [bind] in H; try discriminate H. injection H as <- _. left. cbn. eauto.
      * destruct (witness _ _ _) as [r| |]; cbn [bind] in H; try discriminate H. injection H as <- _. left. cbn. eauto.
  - injection H as <- _. left. rewrite Es. eauto.
Qed.

(* a run of handle_telegram calls; before each the station may have been touched in its bookkeeping fields only *)
Inductive hrun (now : Z) : fdl -> list (telegram * bool) -> fdl -> Prop :=
| hr_nil f : hrun now f [] f
| hr_cons f fm (w w' : W) f1 t il l f2 :
    f_state fm = f_state f -> f_ring fm = f_ring f -> f_p fm = f_p f ->
    handle_telegram A now fm w t il = Ok (f1, w') -> hrun now f1 l f2 -> hrun now f ((t, il) :: l) f2.

Lemma hrun_listen now f l f' sr cc : hrun now f l f' -> f_state f = ListenToken sr cc -> f_state f' = ListenToken sr cc.
Proof.
  intros H. revert sr cc. induction H as [f|f fm w w' f1 t il l f2 Hs Hr Hp Hh _ IH]; intros sr cc Es; [exact Es|].
  apply (IH sr cc). unfold handle_telegram in Hh. rewrite Hs, Es in Hh. injection Hh as <- _. congruence.
Qed.

Lemma cand_of_cons tsa x l nps : l <> [] -> cand_of tsa (x :: l) nps = cand_of tsa l nps.
Proof.
  intros Hne. unfold cand_of. cbn [rev]. destruct (rev l) as [|y r] eqn:Er; [|reflexivity].
  exfalso. apply Hne. apply (f_equal (@rev _)) in Er. rewrite rev_involutive in Er. exact Er.
Qed.

Lemma hrun_result now f l f' : hrun now f l f' -> flags_ok l ->
  forall sr nps cc, f_state f = ActiveIdle sr nps cc ->
  f_p f' = f_p f /\
  match f_state f' with
  | UseToken tk fa fcd =>
      tk = now /\ exists l0 t sa, l = l0 ++ [(t, true)] /\ offer_of (ts f) t true = Some sa /\
        (l0 = [] -> sa = r_ps (f_ring f) \/ nps = Some sa)
  | ActiveIdle sr' nps' cc' =>
      nps' = cand_of (ts f) l nps /\
      (forall t sa, l = [(t, true)] -> offer_of (ts f) t true = Some sa -> f_ring f' = f_ring f)
  | ListenToken _ _ => True
  | _ => False
  end.
Proof.
  intros H. induction H as [f|f fm w w' f1 t il l f2 Hs Hr Hp Hh Hrun IH]; intros Hfl sr nps cc Es.
  - split; [reflexivity|]. rewrite Es. split; [reflexivity|]. intros t sa C. discriminate C.
  - assert (Esm : f_state fm = ActiveIdle sr nps cc) by congruence.
    assert (Htsm : ts fm = ts f) by (unfold ts; rewrite Hp; reflexivity).
    destruct (ht_step now fm w t il f1 w' sr nps cc Esm Hh) as (Hp1 & Hstep). rewrite Htsm, Hr in Hstep.
    assert (Hts1 : ts f1 = ts f) by (unfold ts; rewrite Hp1, Hp; reflexivity).
    destruct l as [|x l].
    + (* the last telegram *)
      inversion Hrun; subst. split; [congruence|].
      destruct (offer_of (ts f) t il) as [sa|] eqn:Eo.
      * assert (Hil : il = true).
        { destruct t as [h pdu|da sa0| ]; cbn in Eo; try discriminate Eo. destruct il; [reflexivity|rewrite andb_false_r in Eo; discriminate Eo]. }
        subst il.
        destruct Hstep as [(E1 & Hacc)|(E1 & Hring)]; rewrite E1.
        -- split; [reflexivity|]. exists [], t, sa. split; [reflexivity|]. split; [exact Eo|]. intros _. exact Hacc.
        -- split; [unfold cand_of; cbn [rev app]; rewrite Eo; reflexivity|]. intros t0 sa0 _ _. exact Hring.
      * destruct Hstep as [(sr' & cc' & E1)|E1]; rewrite E1; [|exact I].
        split; [unfold cand_of; cbn [rev app]; rewrite Eo; reflexivity|].
        intros t0 sa0 C Ho. injection C as -> ->. rewrite Eo in Ho. discriminate Ho.
    + (* not the last: is_last = false *)
      destruct Hfl as (-> & Hfl).
      assert (Eo : offer_of (ts f) t false = None) by (destruct t; cbn; try reflexivity; rewrite andb_false_r; reflexivity).
      rewrite Eo in Hstep.
      destruct Hstep as [(sr' & cc' & E1)|E1].
      * destruct (IH Hfl sr' nps cc' E1) as (Hp2 & Hres). split; [congruence|]. rewrite Hts1 in Hres.
        destruct (f_state f2) as [ | |sr2 cc2|sr2 nps2 cc2|tk fa fcd| | | | | ]; try exact Hres.
        -- destruct Hres as (Hn & Hsingle). split; [rewrite cand_of_cons by discriminate; exact Hn|].
           intros t0 sa0 C. discriminate C.
        -- destruct Hres as (Htk & l0 & t0 & sa & Hl & Ho & _). split; [exact Htk|].
           exists ((t, false) :: l0), t0, sa. split; [rewrite Hl; reflexivity|]. split; [exact Ho|]. intros C. discriminate C.
      * pose proof (hrun_listen _ _ _ _ _ _ Hrun E1) as E2. split; [|rewrite E2; exact I].
        assert (Hpp : forall fa l fb, hrun now fa l fb -> f_state fa = ListenToken None 0 -> f_p fb = f_p fa).
        { clear. intros fa l fb H. induction H as [fa|fa fm w w' fb1 t il l1 fb Hs Hr Hp Hh _ IH]; intros Es; [reflexivity|].
          unfold handle_telegram in Hh. rewrite Hs, Es in Hh. injection Hh as <- _. rewrite IH by congruence. exact Hp. }
        rewrite (Hpp _ _ _ Hrun E1). congruence.
Qed.

End Handle.

Section Loops.
Variable A : Type.
Variable ops : app_ops A.
Notation W := (world A).

Lemma ai_fold_hrun now : forall l f0 (w0 : W) f1 w1,
  fold_cb (active_idle_telegram A now) (f0, w0) l = Ok (f1, w1) -> hrun A now f0 l f1.
Proof.
  induction l as [|[t il] l IH]; intros f0 w0 f1 w1 H; cbn [fold_cb] in H.
  - injection H as <- _. constructor.
  - unfold active_idle_telegram in H at 1.
    destruct (handle_telegram A now (mark_rx f0 now) w0 t il) as [[fa wa]| |] eqn:Eh; cbn [bind] in H; try discriminate H.
    destruct (mark_rx_spec f0 now) as (_ & _ & Ms & Mp & _ & _ & Mr).
    eapply hr_cons; [exact Ms|exact Mr|exact Mp|exact Eh|]. eapply IH. exact H.
Qed.

Lemma ctp_fold_false now : forall l f0 (w0 : W) f1 w1 b1,
  fold_cb (check_token_pass_telegram A now) (f0, w0, false) l = Ok (f1, w1, b1) -> hrun A now f0 l f1.
Proof.
  induction l as [|[t il] l IH]; intros f0 w0 f1 w1 b1 H; cbn [fold_cb] in H.
  - injection H as <- _ _. constructor.
  - unfold check_token_pass_telegram in H at 1. cbn [bind] in H.
    destruct (handle_telegram A now (mark_rx f0 now) w0 t il) as [[fa wa]| |] eqn:Eh; cbn [bind] in H; try discriminate H.
    destruct (mark_rx_spec f0 now) as (_ & _ & Ms & Mp & _ & _ & Mr).
    eapply hr_cons; [exact Ms|exact Mr|exact Mp|exact Eh|]. eapply IH. exact H.
Qed.

Lemma ctp_fold_hrun now l f0 (w0 : W) f1 w1 b1 :
  fold_cb (check_token_pass_telegram A now) (f0, w0, true) l = Ok (f1, w1, b1) ->
  match l with
  | [] => f1 = f0 /\ b1 = true
  | _ :: _ => hrun A now (set_st f0 (ActiveIdle None None 0)) l f1
  end.
Proof.
  destruct l as [|[t il] l]; cbn [fold_cb]; intros H.
  - injection H as <- _ <-. split; reflexivity.
  - unfold check_token_pass_telegram in H at 1.
    match type of H with context [trans A ?a ?b ?c] => destruct (trans A a b c) as [[fa wa]| |] eqn:Et end; cbn [bind] in H; try discriminate H.
    apply trans_spec in Et. destruct Et as (s' & Ht & -> & ->).
    unfold transition_active_idle in Ht. destruct (assert_kind _ _); cbn [bind] in Ht; try discriminate Ht. injection Ht as <-.
    match type of H with context [handle_telegram A now ?a ?b t il] => destruct (handle_telegram A now a b t il) as [[fb wb]| |] eqn:Eh end;
      cbn [bind] in H; try discriminate H.
    destruct (mark_rx_spec f0 now) as (_ & _ & Ms & Mp & _ & _ & Mr).
    eapply hr_cons; [| | |exact Eh|eapply ctp_fold_false; exact H]; cbn; [reflexivity|exact Mr|exact Mp].
Qed.

End Loops.

Section PollRuns.
Variable A : Type.
Variable ops : app_ops A.
Notation W := (world A).

(* the receive loop of the poll, as a run of handle_telegram over what the monitors see delivered *)
Definition run_of (now : Z) (f0 f' : fdl) (rxb rxl : bytes) : Prop :=
  exists f1, hrun A now f0 (delivered rxb) f1 /\ f_state f' = f_state f1 /\ f_ring f' = f_ring f1 /\
    flags_ok (delivered rxb) /\ (delivered rxb = [] \/ (length rxl < length rxb)%nat).

Lemma hrun_start now fa fb l f1 :
  f_state fa = f_state fb -> f_ring fa = f_ring fb -> f_p fa = f_p fb -> hrun A now fa l f1 ->
  exists f1', hrun A now fb l f1' /\ f_state f1' = f_state f1 /\ f_ring f1' = f_ring f1.
Proof.
  intros Hs Hr Hp H. inversion H as [f|f fm w w' f2 t il l' f3 Hs' Hr' Hp' Hh Hrun]; subst.
  - exists fb. split; [constructor|]. split; congruence.
  - exists f1. split; [|split; reflexivity]. eapply hr_cons; [| | |exact Hh|exact Hrun]; congruence.
Qed.

Lemma active_idle_poll_run f now pin (apps : list A) f' o apps' calls sr nps cc k :
  poll ops f now pin apps = Ok (f', o, apps', calls) -> Rep k f -> f_state f = ActiveIdle sr nps cc ->
  (rx_left o = rx pin /\
   ((f_state f' = f_state f /\ f_ring f' = f_ring f) \/ (exists src, sr = Some src /\ tx o <> None /\ f_state f' = ActiveIdle None nps cc))) \/
  early_claim (f_state f') \/
  (tx o = None /\ sr = None /\ run_of now f f' (rx pin) (rx_left o)).
Proof.
  intros E R Es. pose proof E as E0. apply (C11Proofs.poll_inv A ops) in E. destruct E as (w' & Hb & -> & _ & _). cbn [tx rx_left].
  assert (Hc : f_conn f = ConnOnline) by (apply (Rep_online _ _ R); rewrite Es; discriminate).
  rewrite (C11Proofs.poll_inner_online A ops f now _ _ Hc ltac:(rewrite Es; reflexivity)) in Hb.
  unfold C11Proofs.body in Hb.
  destruct (tx_busy pin || C11Proofs.predicted f now).
  - injection Hb as <- <-. left. split; [reflexivity|]. left.
    destruct (mark_bus_activity_sblp f now) as (_ & Hr & _ & _ & Hs & _). split; assumption.
  - match type of Hb with context [check_for_bus_activity A f now ?w0] => destruct (check_for_bus_activity A f now w0) as [f1 w1] eqn:Ec end.
    apply cfba_spec in Ec. destruct Ec as ((Hp1 & Hr1 & _ & _ & Hs1 & _) & Htx1 & _ & Hrx1 & _). cbn [w_tx w_rx] in Htx1, Hrx1.
    unfold C11Proofs.dispatch in Hb. rewrite Hs1, Es in Hb. cbn [kind_of poll_dispatch] in Hb.
    unfold do_active_idle, assert_entry in Hb. rewrite Hs1, Es in Hb. cbn [kind_of do_fn_entry state_kind_eqb bind] in Hb.
    destruct (handle_lost_token A f1 now w1) as [[[f0 w0] d]| |] eqn:Eh; cbn [bind] in Hb; try discriminate Hb.
    destruct d.
    { injection Hb as <- <-. right. left. exact (handle_lost_token_claims A _ _ _ _ _ Eh). }
    pose proof (C11Proofs.handle_lost_token_entry A _ _ _ _ _ _ Htx1 Eh) as ((Hp0 & Hr0 & _ & _ & Hs0 & _) & ->).
    rewrite Hs0, Hs1, Es in Hb. cbn [get_active_idle bind] in Hb.
    destruct sr as [src|].
    + left. destruct (wait_synchronization_pause f0 now) as [[f2 wait]| |] eqn:Ew; cbn [bind] in Hb; try discriminate Hb.
      apply wait_sync_same in Ew. destruct Ew as ((Hp2 & Hr2 & _ & _ & Hs2 & _) & _).
      destruct wait.
      * injection Hb as <- <-. split; [exact Hrx1|]. left. split; congruence.
      * destruct (phy_send A w1 _) as [[w2 k2]| |] eqn:Eps; cbn [bind] in Hb; try discriminate Hb.
        destruct (mark_tx _ now k2) as [f3| |] eqn:Em; cbn [bind] in Hb; try discriminate Hb.
        injection Hb as <- <-. apply mark_tx_same in Em. destruct Em as (_ & _ & _ & _ & Hs3 & _).
        apply phy_send_tx in Eps. destruct Eps as (_ & (wire & Htx2) & _ & Hrx2 & _).
        split; [cbn; congruence|]. right. exists src. split; [reflexivity|]. split; [cbn; rewrite Htx2; discriminate|].
        rewrite Hs3. reflexivity.
    + right. right. unfold receive_all_telegrams in Hb.
      destruct (receive_all _ _ (f0, w1) (w_rx w1)) as [[[s1 rest] r]| |] eqn:Er; cbn [bind] in Hb; try discriminate Hb.
      destruct s1 as [f3 w3]. injection Hb as <- <-. cbn [w_tx w_rx set_rx].
      rewrite Hrx1 in Er. destruct (receive_all_delivered _ _ _ _ _ _ Er) as (Hfold & Hfl & Hnil & Hne).
      apply ai_fold_hrun in Hfold.
      destruct (hrun_start now f0 f _ _ ltac:(congruence) ltac:(congruence) ltac:(congruence) Hfold) as (f3' & Hrun & Hs3 & Hr3).
      assert (Hrun' : run_of now f (sync_pending_bytes A f3 (set_rx A w3 rest)) (rx pin) rest).
      { exists f3'. split; [exact Hrun|]. split; [cbn; congruence|]. split; [cbn; congruence|]. split; [exact Hfl|].
        destruct (delivered (rx pin)) as [|x l]; [left; reflexivity|right; apply Hne; discriminate]. }
      split; [|split; [reflexivity|exact Hrun']].
      (* nothing is transmitted: the station ends where handle_telegram leaves it *)
      destruct (w_tx w3) as [wire|] eqn:Etx; [exfalso|reflexivity].
      destruct (C12Proofs.listen_idle_transmissions A ops _ _ _ _ _ _ _ _ wire E0 ltac:(right; rewrite Es; reflexivity) ltac:(cbn; exact Etx))
        as (_ & [(_ & Hcl)|(src & st & Hm & _)]).
      * cbn in Hcl.
        assert (Hk : heard_kind (f_state f3)).
        { refine (receive_all_inv (fun s : fdl * W => heard_kind (f_state (fst s))) (active_idle_telegram A now) _ _ (f0, w1) _ (f3, w3) rest r _ Er).
          - intros s t il s' u Hp Hcb. exact (active_idle_telegram_heard A now s t il s' u Hp Hcb).
          - cbn [fst]. rewrite Hs0, Hs1, Es. exact I. }
        rewrite Hcl in Hk. exact Hk.
      * rewrite Es in Hm. discriminate Hm.
Qed.

Lemma check_pass_poll_run f now pin (apps : list A) f' o apps' calls att :
  poll ops f now pin apps = Ok (f', o, apps', calls) -> f_state f = CheckTokenPass att ->
  (in_pass (f_state f') = true /\ (delivered (rx pin) = [] \/ rx_left o = rx pin)) \/
  (tx o <> None /\ kind_of (f_state f') <> KActiveIdle) \/
  (tx o = None /\ delivered (rx pin) <> [] /\ run_of now (set_st f (ActiveIdle None None 0)) f' (rx pin) (rx_left o)).
Proof.
  intros E Es. apply (poll_in_pass_body A ops) in E; [|rewrite Es; reflexivity].
  destruct E as (w' & Hb & -> & _ & _). cbn [tx rx_left]. unfold C11Proofs.body in Hb.
  destruct (tx_busy pin || C11Proofs.predicted f now).
  - injection Hb as <- <-. left. destruct (mark_bus_activity_sblp f now) as (_ & _ & _ & _ & Hs & _).
    split; [rewrite Hs, Es; reflexivity|right; reflexivity].
  - match type of Hb with context [check_for_bus_activity A f now ?w0] => destruct (check_for_bus_activity A f now w0) as [f1 w1] eqn:Ec end.
    apply cfba_spec in Ec. destruct Ec as ((Hp1 & Hr1 & _ & _ & Hs1 & _) & Htx1 & _ & Hrx1 & _). cbn [w_tx w_rx] in Htx1, Hrx1.
    unfold C11Proofs.dispatch in Hb. rewrite Hs1, Es in Hb. cbn [kind_of poll_dispatch] in Hb.
    assert (Es1 : f_state f1 = CheckTokenPass att) by congruence.
    destruct (check_slot_expired f1 now) as [[f2 b]| |] eqn:Ecs;
      [|unfold do_check_token_pass, assert_entry in Hb; rewrite Es1 in Hb; cbn [kind_of do_fn_entry state_kind_eqb bind] in Hb; rewrite Ecs in Hb; discriminate Hb
       |unfold do_check_token_pass, assert_entry in Hb; rewrite Es1 in Hb; cbn [kind_of do_fn_entry state_kind_eqb bind] in Hb; rewrite Ecs in Hb; discriminate Hb].
    destruct b.
    + destruct (do_check_token_pass_expired A _ _ _ _ _ _ _ Es1 Ecs Hb) as (f3 & w3 & Hd & Es3 & _ & _ & _ & _ & _ & Htx3 & _ & Hrx3 & _).
      assert (Htx3' : w_tx w3 = None) by congruence.
      destruct (C11Proofs.do_pass_token_spec A _ _ _ _ _ _ _ Es3 Htx3' Hd) as [Hsame _ _ Hrx _|a C _ _ _ _ _ _ _ _|(r' & _ & _ & Htx & Hs' & _)].
      * left. destruct Hsame as (_ & _ & _ & _ & Hs & _). split; [rewrite Hs, Es3; reflexivity|right; congruence].
      * discriminate C.
      * right. left. split; [rewrite Htx; discriminate|]. rewrite Hs'. destruct (r_ns r' =? ts f3); discriminate.
    + pose proof (do_check_token_pass_waiting A _ _ _ _ _ _ _ Es1 Ecs Hb) as (Htx' & _).
      unfold do_check_token_pass, assert_entry in Hb. rewrite Es1 in Hb. cbn [kind_of do_fn_entry state_kind_eqb bind] in Hb.
      rewrite Ecs in Hb. cbn [bind] in Hb.
      apply cse_spec in Ecs. destruct Ecs as ((Hp2 & Hr2 & _ & _ & Hs2 & _) & _).
      destruct (receive_all _ _ (f2, w1, true) (w_rx w1)) as [[[s1 rest] r]| |] eqn:Er; cbn [bind] in Hb; try discriminate Hb.
      destruct s1 as [[f3 w3] b3]. injection Hb as <- <-. cbn [w_tx w_rx set_rx].
      rewrite Hrx1 in Er. destruct (receive_all_delivered _ _ _ _ _ _ Er) as (Hfold & Hfl & Hnil & Hne).
      apply ctp_fold_hrun in Hfold.
      destruct (delivered (rx pin)) as [|x l] eqn:Edel.
      * left. destruct Hfold as (-> & _). cbn. rewrite Hs2, Es1. split; [reflexivity|left; reflexivity].
      * right. right. split; [cbn in Htx'; destruct b3; cbn in Htx' |- *; congruence|]. split; [discriminate|].
        destruct (hrun_start now (set_st f2 (ActiveIdle None None 0)) (set_st f (ActiveIdle None None 0)) _ _ ltac:(reflexivity) ltac:(cbn; congruence) ltac:(cbn; congruence) Hfold)
          as (f3' & Hrun & Hs3 & Hr3).
        exists f3'. rewrite Edel. split; [exact Hrun|]. split; [cbn; congruence|]. split; [cbn; congruence|]. split; [exact Hfl|].
        right. apply Hne. discriminate.
Qed.

(* from the other states ActiveIdle is entered with no pending offer *)
Lemma do_listen_token_active_idle f now (w : W) f' w' sr nps cc :
  do_listen_token A f now w = Ok (f', w') -> f_state f' = ActiveIdle sr nps cc -> sr = None /\ nps = None.
Proof.
  intros H Es'. unfold do_listen_token in H.
  destruct (assert_entry DoListenToken f) eqn:Ea; cbn [bind] in H; try discriminate H.
  destruct (handle_lost_token A f now w) as [[[f0 w0] d]| |] eqn:Eh; cbn [bind] in H; try discriminate H.
  destruct d.
  - injection H as <- <-. exfalso. destruct (handle_lost_token_claims A _ _ _ _ _ Eh) as [C|C]; rewrite C in Es'; discriminate Es'.
  - destruct (get_listen_token (f_state f0)) as [[sr0 cc0]| |] eqn:Eg; cbn [bind] in H; try discriminate H.
    destruct sr0 as [src|].
    + destruct (wait_synchronization_pause f0 now) as [[f1 wait]| |] eqn:Ew; cbn [bind] in H; try discriminate H.
      apply wait_sync_same in Ew. destruct Ew as ((_ & _ & _ & _ & Hs1 & _) & _).
      destruct wait.
      * injection H as <- <-. exfalso. rewrite Hs1 in Es'. destruct (f_state f0); try discriminate Eg; discriminate Es'.
      * destruct (phy_send A w0 _) as [[w1 k]| |]; cbn [bind] in H; try discriminate H.
        match type of H with bind ?x _ = _ => destruct x as [[f2 w2]| |] eqn:E2 end; cbn [bind] in H; try discriminate H.
        destruct (mark_tx f2 now k) as [f3| |] eqn:Em; cbn [bind] in H; try discriminate H.
        injection H as <- <-. apply mark_tx_same in Em. destruct Em as (_ & _ & _ & _ & Hs3 & _). rewrite Hs3 in Es'.
        destruct (ready_for_ring (f_ring f1)).
        -- apply trans_spec in E2. destruct E2 as (s2 & Ht & -> & _). cbn in Es'.
           unfold transition_active_idle in Ht. destruct (assert_kind _ _); cbn [bind] in Ht; try discriminate Ht. injection Ht as <-.
           injection Es' as <- <- _. split; reflexivity.
        -- destruct (get_listen_token (f_state f1)) as [[sr1 cc1]| |]; cbn [bind] in E2; try discriminate E2.
           injection E2 as <- _. discriminate Es'.
    + exfalso. unfold receive_all_telegrams in H.
      destruct (receive_all _ _ (f0, w0) (w_rx w0)) as [[[s1 rest] r]| |] eqn:Er; cbn [bind] in H; try discriminate H.
      destruct s1 as [f1 w1]. injection H as <- _. cbn [f_state sync_pending_bytes set_pending] in Es'.
      assert (Hl : listening A (f1, w1)).
      { refine (receive_all_inv (listening A) _ _ _ (f0, w0) _ (f1, w1) rest r _ Er).
        - intros s t l s' u Hp Hc. exact (listen_token_telegram_listening A _ _ _ _ _ _ Hp Hc).
        - unfold listening. cbn [fst]. left. destruct (f_state f0); try discriminate Eg; reflexivity. }
      unfold listening in Hl. cbn [fst] in Hl. destruct Hl as [K|K]; rewrite Es' in K; discriminate K.
Qed.

Lemma other_active_idle f now pin (apps : list A) f' o apps' calls sr nps cc k :
  poll ops f now pin apps = Ok (f', o, apps', calls) -> Rep k f ->
  kind_in (kind_of (f_state f)) [KActiveIdle; KCheckTokenPass] = false ->
  f_state f' = ActiveIdle sr nps cc -> sr = None /\ nps = None.
Proof.
  intros E R Hk Es'.
  destruct (f_state f) as [ | |sr0 cc0|sr0 nps0 cc0|tk fa fcd|st|a1 tk fa|dg att|att|a0] eqn:Es; try discriminate Hk.
  - (* Offline *)
    apply (C11Proofs.poll_inv A ops) in E. destruct E as (w' & H & _).
    apply (C11Proofs.poll_inner_cases A ops) in H.
    destruct H as [(_ & _ & -> & _)|(_ & f0 & w0 & Hpro & Hb)]; [rewrite Es in Es'; discriminate Es'|].
    assert (Hf0 : f_state f0 = Offline \/ f_state f0 = ListenToken None 0 \/ f_state f0 = PassiveIdle).
    { destruct Hpro as [f1 w1|f1 w1 s' _ _ [(-> & _)| ->]]; [left; exact Es|right; left; reflexivity|right; right; reflexivity]. }
    unfold C11Proofs.body in Hb.
    destruct (tx_busy pin || C11Proofs.predicted f0 now).
    + injection Hb as <- _. destruct (mark_bus_activity_sblp f0 now) as (_ & _ & _ & _ & Hs & _). rewrite Hs in Es'.
      destruct Hf0 as [C|[C|C]]; rewrite C in Es'; discriminate Es'.
    + destruct (check_for_bus_activity A f0 now w0) as [f1 w1] eqn:Ec.
      apply cfba_spec in Ec. destruct Ec as ((_ & _ & _ & _ & Hs1 & _) & _).
      unfold C11Proofs.dispatch in Hb. rewrite Hs1 in Hb.
      destruct Hf0 as [C|[C|C]]; rewrite C in Hb; cbn [kind_of poll_dispatch] in Hb; try discriminate Hb.
      eapply do_listen_token_active_idle; eassumption.
  - exfalso. pose proof (rep_st _ _ R) as St. rewrite Es in St. exact St.
  - (* ListenToken *)
    apply (C11Proofs.poll_inv A ops) in E. destruct E as (w' & Hb & _).
    assert (Hc : f_conn f = ConnOnline) by (apply (Rep_online _ _ R); rewrite Es; discriminate).
    rewrite (C11Proofs.poll_inner_online A ops f now _ _ Hc ltac:(rewrite Es; reflexivity)) in Hb.
    unfold C11Proofs.body in Hb.
    destruct (tx_busy pin || C11Proofs.predicted f now).
    + injection Hb as <- _. destruct (mark_bus_activity_sblp f now) as (_ & _ & _ & _ & Hs & _). rewrite Hs, Es in Es'. discriminate Es'.
    + match type of Hb with context [check_for_bus_activity A f now ?w0] => destruct (check_for_bus_activity A f now w0) as [f1 w1] eqn:Ec end.
      apply cfba_spec in Ec. destruct Ec as ((_ & _ & _ & _ & Hs1 & _) & _).
      unfold C11Proofs.dispatch in Hb. rewrite Hs1, Es in Hb. cbn [kind_of poll_dispatch] in Hb.
      eapply do_listen_token_active_idle; eassumption.
  - (* UseToken *)
    destruct (poll_state_cases A ops _ _ _ _ _ _ _ _ E) as [(_ & _ & [R1|(_ & s3 & Hp & Hq & Hv)])|(tk0 & _ & Hto & _)].
    + destruct R1 as (C & _). rewrite C in Es'. discriminate Es'.
    + exfalso. assert (Hs3 : s3 = f_state f) by (destruct Hp as [-> |(C & _)]; [reflexivity|rewrite Es in C; discriminate C]).
      rewrite Hs3, Es in Hv. specialize (Hv eq_refl). rewrite Hv in Es'. discriminate Es'.
    + destruct Hto as [(C & _)|[(C & _)|[(fa' & C)|[(a' & fa' & C)|C]]]].
      * rewrite C, Es in Es'. discriminate Es'.
      * rewrite C in Es'. injection Es' as <- <- _. split; reflexivity.
      * rewrite C in Es'. discriminate Es'.
      * rewrite C in Es'. discriminate Es'.
      * exfalso. destruct C as [C|C]; [rewrite Es' in C; discriminate C|rewrite C in Es'; discriminate Es'].
  - (* ClaimToken *)
    destruct (token_poll_split A ops _ _ _ _ _ _ _ _ E ltac:(rewrite Es; reflexivity)) as [(-> & _)|(f1 & w1 & w' & Hs & _ & _ & _ & _ & _ & _ & _ & _ & _ & Hd)].
    + exfalso. destruct (mark_bus_activity_sblp f now) as (_ & _ & _ & _ & Hs & _). rewrite Hs, Es in Es'. discriminate Es'.
    + destruct Hs as (_ & _ & _ & _ & Hs1 & _). unfold C11Proofs.dispatch in Hd. rewrite Hs1, Es in Hd. cbn [kind_of poll_dispatch] in Hd.
      destruct (C12Proofs.do_claim_token_spec A _ _ _ _ _ Hd) as (st0 & Es0 & _ & _ & _ & _ & Hspec).
      rewrite Es0 in Hspec. destruct st0 as [ | | |a0].
      * exfalso. destruct Hspec as (_ & [(_ & C & _)|(_ & _ & C & _)]); rewrite C in Es'; discriminate Es'.
      * exfalso. destruct Hspec as (_ & [(_ & C & _)|(_ & _ & C & _)]); rewrite C in Es'; discriminate Es'.
      * exfalso. destruct Hspec as (_ & _ & [(_ & C & _)|[(_ & _ & _ & C)|[(_ & cur & _ & _ & _ & C)|(cur & a1 & _ & _ & _ & C & _)]]]); rewrite C in Es'; discriminate Es'.
      * destruct Hspec as (_ & _ & rest & received & _ & _ & Hcases).
        destruct Hcases as [(_ & _ & C & _)|[(t & _ & _ & _ & C & _)|[(t & _ & _ & _ & C & _)|(_ & _ & [(_ & C & _)|[(_ & _ & _ & C)|(a1 & _ & _ & C & _)]])]]];
          rewrite C in Es'; try discriminate Es'. injection Es' as <- <- _. split; reflexivity.
  - (* AwaitDataResponse *)
    destruct (poll_state_cases A ops _ _ _ _ _ _ _ _ E) as [(_ & _ & [R1|(_ & s3 & Hp & Hq & Hv)])|(tk0 & _ & Hto & _)].
    + destruct R1 as (C & _). rewrite C in Es'. discriminate Es'.
    + exfalso. assert (Hs3 : s3 = f_state f) by (destruct Hp as [-> |(C & _)]; [reflexivity|rewrite Es in C; discriminate C]).
      rewrite Hs3, Es in Hv. specialize (Hv eq_refl). rewrite Hv in Es'. discriminate Es'.
    + destruct Hto as [(C & _)|[(C & _)|[(fa' & C)|[(a' & fa' & C)|C]]]].
      * rewrite C, Es in Es'. discriminate Es'.
      * rewrite C in Es'. injection Es' as <- <- _. split; reflexivity.
      * rewrite C in Es'. discriminate Es'.
      * rewrite C in Es'. discriminate Es'.
      * exfalso. destruct C as [C|C]; [rewrite Es' in C; discriminate C|rewrite C in Es'; discriminate Es'].
  - (* PassToken *)
    exfalso. destruct (pass_token_poll A ops _ _ _ _ _ _ _ _ _ _ Es E) as (_ & _ & _ & _ & [(_ & C & _)|[(addr & _ & _ & C & _)|(r' & _ & _ & _ & C)]]);
      rewrite C in Es'; try discriminate Es'. destruct (r_ns r' =? ts f); discriminate Es'.
  - (* AwaitStatusResponse *)
    destruct (after_gap_request_step A ops _ _ _ _ _ _ _ _ E ltac:(rewrite Es; reflexivity)) as (_ & _ & [(_ & [C|[C|C]])|(_ & _ & [C|(att & C)])]);
      rewrite C in Es'; try rewrite Es in Es'; try discriminate Es'. injection Es' as <- <- _. split; reflexivity.
Qed.

End PollRuns.

(* ------------------------------------------------------------------------------------------ *)
(* C11: accepting the token (R11_accept_without_token, R11_accept_from_stranger,                 *)
(* R11_offer_changes_ring_view)                                                                  *)

Section AcceptMon.
Variable A : Type.
Variable ops : app_ops A.
Variable p : params.
Variable n : nat.

(* the pending first offer of a stranger, as the monitor keeps it *)
Definition CD (f : fdl) (m : mon) : Prop := forall sr nps cc, f_state f = ActiveIdle sr nps cc -> m_cand m = nps.

Lemma m_cand_x_m3 m s : m_cand (x_m3 p n m s) = x_cand p m s.
Proof. unfold x_m3. destruct (x_new_visit p m s); [reflexivity|]. destruct (state_kind_eqb _ _); reflexivity. Qed.

Lemma last_delivered_snoc rxb l0 t : delivered rxb = l0 ++ [(t, true)] -> last_delivered rxb = Some t.
Proof. intros H. unfold last_delivered. rewrite H, rev_app_distr. reflexivity. Qed.

Lemma cand_of_last tsa rxb nps :
  cand_of tsa (delivered rxb) nps =
  match last_delivered rxb with
  | Some (TToken da sa) => if (da =? tsa) && negb (sa =? tsa) then Some sa else nps
  | _ => nps
  end.
Proof.
  unfold cand_of, last_delivered. destruct (rev (delivered rxb)) as [|[t il] r]; [reflexivity|].
  destruct il.
  - destruct t as [h pdu|da sa| ]; cbn [offer_of]; try reflexivity. rewrite andb_true_r. destruct (_ && _); reflexivity.
  - destruct t as [h pdu|da sa| ]; cbn [offer_of]; try reflexivity. rewrite andb_false_r. reflexivity.
Qed.

(* the view of the ring *)
Lemma same_ring_view f f' : f_ring f' = f_ring f ->
  (v_ns (view_of f') =? v_ns (view_of f)) && (v_ps (view_of f') =? v_ps (view_of f)) &&
  Bool.eqb (v_las_valid (view_of f')) (v_las_valid (view_of f)) && bytes_eqb (v_active (view_of f')) (v_active (view_of f)) = true.
Proof. intros H. cbn [view_of v_ns v_ps v_las_valid v_active]. rewrite H, !Z.eqb_refl, Bool.eqb_reflx, bytes_eqb_refl. reflexivity. Qed.

(* what the accept rules need of one poll *)
Record acc_facts (f f' : fdl) (m : mon) (s : pstep) : Prop := mkAcc {
  af_use : x_accepted m s = true ->
           exists da sa, x_lastt s = Some (TToken da sa) /\ da = ts f /\ sa <> ts f /\
             (forall x, x_tels s = [x] -> sa = r_ps (f_ring f) \/ x_cand0 m = Some sa);
  af_idle : forall sr' nps' cc', f_state f' = ActiveIdle sr' nps' cc' ->
            x_cand p m s = nps' /\
            (kind_in (x_k0 m) [KActiveIdle; KCheckTokenPass] = true -> s_tx s = None ->
             forall da sa x, x_lastt s = Some (TToken da sa) -> x_tels s = [x] -> da = ts f -> sa <> ts f -> f_ring f' = f_ring f)
}.

Lemma acc_poll f apps buf tl m now busy nb f' o apps' calls :
  Base A p n f apps buf tl m -> CD f m ->
  poll ops f now (mkPhyIn busy (buf ++ nb)) apps = Ok (f', o, apps', calls) ->
  acc_facts f f' m (poll_event now busy (buf ++ nb) f' o calls).
Proof.
  intros HB HC E. pose proof (x_k0_base A p n _ _ _ _ _ HB) as Hk0.
  destruct HB as [R Hp Hn Hv Hl Hpd Hb Htl].
  assert (Hxts : x_ts p = ts f) by (unfold x_ts, ts; rewrite Hp; reflexivity).
  set (s := poll_event now busy (buf ++ nb) f' o calls).
  assert (Hk1 : x_k1 s = kind_of (f_state f')) by reflexivity.
  (* the analysis of a run of handle_telegram that the poll performed *)
  assert (Hrun : forall f0 sr nps cc, f_state f0 = ActiveIdle sr nps cc -> f_ring f0 = f_ring f -> f_p f0 = f_p f ->
            tx o = None -> run_of A now f0 f' (buf ++ nb) (rx_left o) -> x_cand0 m = nps ->
            kind_in (x_k0 m) [KActiveIdle; KCheckTokenPass] = true -> acc_facts f f' m s).
  { intros f0 sr nps cc Es0 Hr0 Hp0 Htx (f1 & Hh & Hs1 & Hr1 & Hfl & Hsh) Hc0 Hkin.
    destruct (x_tels_delivered now busy (buf ++ nb) f' o calls Hsh) as (Htels & Hlast). fold s in Htels, Hlast.
    assert (Hts0 : ts f0 = ts f) by (unfold ts; rewrite Hp0; reflexivity).
    destruct (hrun_result A now _ _ _ Hh Hfl sr nps cc Es0) as (_ & Hres). rewrite Hts0, Hr0 in Hres.
    split.
    - intros Hacc. unfold x_accepted in Hacc. apply andb_true_iff in Hacc. destruct Hacc as (Hacc & _).
      apply andb_true_iff in Hacc. destruct Hacc as (Hu & _). rewrite Hk1, Hs1 in Hu.
      destruct (f_state f1) as [ | | | |tk fa fcd| | | | | ]; try discriminate Hu.
      destruct Hres as (_ & l0 & t & sa & Hl0 & Ho & Hsingle).
      destruct t as [h pdu|da sa0| ]; cbn [offer_of] in Ho; try discriminate Ho.
      rewrite andb_true_r in Ho. destruct ((da =? ts f) && negb (sa0 =? ts f)) eqn:Ec; [|discriminate Ho]. injection Ho as <-.
      apply andb_true_iff in Ec. destruct Ec as (Ed & Es'). apply Z.eqb_eq in Ed. apply negb_true_iff, Z.eqb_neq in Es'.
      exists da, sa0. split; [rewrite Hlast; eapply last_delivered_snoc; exact Hl0|]. split; [exact Ed|]. split; [exact Es'|].
      intros x Hx. rewrite Htels, Hl0 in Hx. destruct l0 as [|y l0]; [|destruct l0; discriminate Hx].
      destruct (Hsingle eq_refl) as [H1|H1]; [left; exact H1|right; rewrite Hc0; exact H1].
    - intros sr' nps' cc' Es'. rewrite Hs1 in Es'. rewrite Es' in Hres. destruct Hres as (Hn' & Hring).
      split.
      + unfold x_cand. rewrite Hk1, Hs1, Es', Hkin. cbn [kind_of state_kind_eqb]. rewrite Hlast, Hc0, Hxts.
        rewrite Hn'. apply (eq_sym (cand_of_last _ _ _)).
      + intros _ _ da sa x Hl1 Hx Hda Hsa. rewrite Hr1.
        rewrite Htels in Hx. rewrite Hlast in Hl1. unfold last_delivered in Hl1. rewrite Hx in Hl1. cbn [rev app] in Hl1.
        destruct x as [t il]. destruct il; [|discriminate Hl1]. injection Hl1 as ->.
        eapply (Hring _ sa); [exact Hx|]. cbn [offer_of]. rewrite Hda, Z.eqb_refl. apply Z.eqb_neq in Hsa. rewrite Hsa. reflexivity. }
  (* a poll that does not read the receive buffer, or reads nothing: no telegram is seen *)
  assert (Hquiet : x_tels s = [] /\ x_lastt s = None -> (kind_of (f_state f') = KUseToken -> x_accepted m s = false) ->
            (forall sr' nps' cc', f_state f' = ActiveIdle sr' nps' cc' ->
               if kind_in (x_k0 m) [KActiveIdle; KCheckTokenPass] then x_cand0 m = nps' else nps' = None) ->
            acc_facts f f' m s).
  { intros (Ht & Hlst) Hna Hcand. split.
    - intros Hacc. exfalso. pose proof Hacc as Hacc0. unfold x_accepted in Hacc. apply andb_true_iff in Hacc. destruct Hacc as (Hacc & _).
      apply andb_true_iff in Hacc. destruct Hacc as (Hu & _). rewrite Hk1 in Hu.
      rewrite Hna in Hacc0; [discriminate Hacc0|]. destruct (f_state f'); try discriminate Hu; reflexivity.
    - intros sr' nps' cc' Es'. split.
      + unfold x_cand. rewrite Hk1, Es', Hlst. cbn [kind_of state_kind_eqb]. specialize (Hcand _ _ _ Es').
        destruct (kind_in (x_k0 m) [KActiveIdle; KCheckTokenPass]); [exact Hcand|symmetry; exact Hcand].
      + intros _ _ da sa x C. rewrite Hlst in C. discriminate C. }
  assert (Hother : kind_in (x_k0 m) [KActiveIdle; KCheckTokenPass] = false ->
            (forall sr' nps' cc', f_state f' = ActiveIdle sr' nps' cc' -> nps' = None) -> acc_facts f f' m s).
  { intros Hkin Hnone. split.
    - intros Hacc. exfalso. unfold x_accepted in Hacc. rewrite Hkin, andb_false_r in Hacc. discriminate Hacc.
    - intros sr' nps' cc' Es'. split.
      + unfold x_cand. rewrite Hk1, Es', Hkin. cbn [kind_of state_kind_eqb]. symmetry. exact (Hnone _ _ _ Es').
      + intros C. rewrite Hkin in C. discriminate C. }
  assert (Hnone : kind_of (f_state f') <> KUseToken -> kind_of (f_state f') <> KActiveIdle -> acc_facts f f' m s).
  { intros H1 H2. split.
    - intros Hacc. exfalso. unfold x_accepted in Hacc. apply andb_true_iff in Hacc. destruct Hacc as (Hacc & _).
      apply andb_true_iff in Hacc. destruct Hacc as (Hu & _). rewrite Hk1 in Hu. apply H1. destruct (f_state f'); try discriminate Hu; reflexivity.
    - intros sr' nps' cc' Es'. exfalso. apply H2. rewrite Es'. reflexivity. }
  rewrite Hk0 in Hrun, Hquiet, Hother. unfold x_cand0 in Hrun, Hquiet. rewrite Hk0 in Hrun, Hquiet.
  destruct (f_state f) as [ | |sr0 cc0|sr0 nps0 cc0|tk fa fcd|st|a1 tk fa|dg att|att|a0] eqn:Es.
  1-3,5-8,10: (apply Hother; [reflexivity|];
    intros sr' nps' cc' Es'; eapply (proj2 (other_active_idle A ops _ _ _ _ _ _ _ _ _ _ _ _ E R ltac:(rewrite Es; reflexivity) Es'))).
  - (* ActiveIdle *)
    cbn [kind_of kind_in existsb state_kind_eqb orb] in Hrun, Hquiet.
    destruct (active_idle_poll_run A ops _ _ _ _ _ _ _ _ _ _ _ _ E R Es) as [(Hrx & Hcase)|[Hcl|(Htx & -> & Hro)]]; cbn [rx] in *.
    + apply Hquiet.
      * exact (x_tels_untouched now busy (buf ++ nb) f' o calls Hrx).
      * intros Hu. exfalso. destruct Hcase as [(C & _)|(src & _ & _ & C)]; rewrite C in Hu; try rewrite Es in Hu; discriminate Hu.
      * intros sr' nps' cc' Es'. rewrite (HC _ _ _ Es). destruct Hcase as [(C & _)|(src & _ & _ & C)]; rewrite C in Es'; try rewrite Es in Es';
          injection Es' as _ <- _; reflexivity.
    + apply Hnone; destruct Hcl as [C|C]; rewrite C; discriminate.
    + eapply (Hrun f); [exact Es|reflexivity|reflexivity|exact Htx|exact Hro|exact (HC _ _ _ Es)|reflexivity].
  - (* CheckTokenPass *)
    cbn [kind_of kind_in existsb state_kind_eqb orb] in Hrun, Hquiet.
    destruct (check_pass_poll_run A ops _ _ _ _ _ _ _ _ _ E Es) as [(Hip & Hsh)|[(Htx & Hna)|(Htx & Hne & Hro)]]; cbn [rx] in *.
    + apply Hnone; destruct (f_state f'); cbn in Hip; try discriminate Hip; discriminate.
    + split.
      * intros Hacc. exfalso. unfold x_accepted in Hacc. apply andb_true_iff in Hacc. destruct Hacc as (_ & Hacc).
        cbn [s poll_event s_tx] in Hacc. destruct (tx o); [discriminate Hacc|contradiction Htx; reflexivity].
      * intros sr' nps' cc' Es'. exfalso. apply Hna. rewrite Es'. reflexivity.
    + eapply (Hrun (set_st f (ActiveIdle None None 0))); [reflexivity|reflexivity|reflexivity|exact Htx|exact Hro|reflexivity|reflexivity].
Qed.

Lemma e11a_ok f apps buf tl m now busy nb f' o apps' calls :
  Base A p n f apps buf tl m -> CD f m ->
  poll ops f now (mkPhyIn busy (buf ++ nb)) apps = Ok (f', o, apps', calls) ->
  x_e11a p m (poll_event now busy (buf ++ nb) f' o calls) = [].
Proof.
  intros HB HC E. pose proof (acc_poll _ _ _ _ _ _ _ _ _ _ _ _ HB HC E) as [Huse _].
  pose proof (listen_ok A ops p n _ _ _ _ _ _ _ _ _ _ _ _ HB E) as Hl.
  destruct HB as [R Hp Hn Hv Hl0 Hpd Hb Htl].
  assert (Hxts : x_ts p = ts f) by (unfold x_ts, ts; rewrite Hp; reflexivity).
  set (s := poll_event now busy (buf ++ nb) f' o calls) in *.
  unfold x_e11a. rewrite Hl. cbn [app].
  destruct (x_accepted m s) eqn:Ea; [|reflexivity].
  destruct (Huse eq_refl) as (da & sa & Hlast & Hda & Hsa & Hsingle).
  rewrite Hlast, Hxts, Hda, Z.eqb_refl. apply Z.eqb_neq in Hsa. rewrite Hsa. cbn [negb andb check app].
  destruct (x_tels s) as [|x [|y l]] eqn:Et; try reflexivity.
  destruct (Hsingle x eq_refl) as [H1|H1].
  - unfold x_pre. rewrite Hv. cbn [view_of v_ps]. rewrite H1, Z.eqb_refl. reflexivity.
  - rewrite H1. cbn [opt_eqb]. rewrite Z.eqb_refl, orb_true_r. reflexivity.
Qed.

Lemma e11c_ok f apps buf tl m now busy nb f' o apps' calls :
  Base A p n f apps buf tl m -> CD f m ->
  poll ops f now (mkPhyIn busy (buf ++ nb)) apps = Ok (f', o, apps', calls) ->
  x_e11c p m (poll_event now busy (buf ++ nb) f' o calls) = [].
Proof.
  intros HB HC E. pose proof (acc_poll _ _ _ _ _ _ _ _ _ _ _ _ HB HC E) as [_ Hidle].
  destruct HB as [R Hp Hn Hv Hl0 Hpd Hb Htl].
  assert (Hxts : x_ts p = ts f) by (unfold x_ts, ts; rewrite Hp; reflexivity).
  set (s := poll_event now busy (buf ++ nb) f' o calls) in *.
  unfold x_e11c.
  destruct (state_kind_eqb (x_k1 s) KActiveIdle) eqn:Ek1; [|reflexivity].
  destruct (kind_in (x_k0 m) [KActiveIdle; KCheckTokenPass]) eqn:Ek0; [|reflexivity].
  destruct (s_tx s) eqn:Etx; [reflexivity|]. cbn [andb].
  destruct (x_lastt s) as [[h pdu|da sa| ]|] eqn:El; try reflexivity.
  destruct (x_tels s) as [|x [|y l]] eqn:Et; try reflexivity.
  destruct ((da =? x_ts p) && negb (sa =? x_ts p)) eqn:Ec; [|reflexivity].
  apply andb_true_iff in Ec. destruct Ec as (Ed & Es'). rewrite Hxts in Ed, Es'. apply Z.eqb_eq in Ed. apply negb_true_iff, Z.eqb_neq in Es'.
  change (x_k1 s) with (kind_of (f_state f')) in Ek1.
  destruct (f_state f') as [ | | |sr' nps' cc'| | | | | | ] eqn:Es1; try discriminate Ek1.
  destruct (Hidle _ _ _ eq_refl) as (_ & Hring).
  pose proof (Hring eq_refl eq_refl da sa x eq_refl eq_refl Ed Es') as Hr.
  unfold x_post, x_pre. rewrite Hv. cbn [s poll_event s_view]. rewrite (same_ring_view _ _ Hr). reflexivity.
Qed.

Lemma cd_poll f apps buf tl m now busy nb f' o apps' calls :
  Base A p n f apps buf tl m -> CD f m ->
  poll ops f now (mkPhyIn busy (buf ++ nb)) apps = Ok (f', o, apps', calls) ->
  CD f' (x_m3 p n m (poll_event now busy (buf ++ nb) f' o calls)).
Proof.
  intros HB HC E. pose proof (acc_poll _ _ _ _ _ _ _ _ _ _ _ _ HB HC E) as [_ Hidle].
  intros sr' nps' cc' Es'. rewrite m_cand_x_m3. exact (proj1 (Hidle _ _ _ Es')).
Qed.

Lemma cd_api a f f' m g v : api_result p a f = Ok f' -> CD f m -> CD f' (fst (mon_after_api a v m g)).
Proof.
  intros E HC.
  assert (Hnew : forall p0 f1 m1, fdl_new p0 = Ok f1 -> CD f1 m1).
  { intros p0 f1 m1 E1 sr nps cc Es. destruct (fdl_new_fields _ _ E1) as (S1 & _). rewrite S1 in Es. discriminate Es. }
  destruct a; cbn [api_result mon_after_api fst] in *.
  - eapply Hnew. exact E.
  - unfold set_online, set_state in E. injection E as <-. exact HC.
  - unfold set_offline, set_state in E. eapply Hnew. exact E.
  - discriminate E.
Qed.

End AcceptMon.
