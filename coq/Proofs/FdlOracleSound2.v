(* FDL oracle soundness, part 2: the bus-activity bookkeeping of one poll, for ALL station states.
   What a poll does to last_bus_activity, pending_bytes and the receive buffer:
   - the buffer left behind is a suffix of the buffer the poll saw;
   - pending_bytes <= buffer length is kept (fix F12);
   - a poll that transmits `wire` leaves last_bus_activity = now + 11 bit * |wire|;
   - a poll that does not transmit leaves last_bus_activity as it was, or sets it to the value it had
     (or `now` if it had none), or to the maximum of that and `now` (`lba_moves`) - or the station
     re-created itself after an address collision (`rst`). *)
From Coq Require Import Arith.
From PB Require Import Common Tables FdlTables Telegram Phy TokenRing Params Fdl FdlOracle FdlProofs FdlStepProofs.
From PB Require Import C05Proofs C01Proofs FdlOracleSound1.
From PB Require C11Proofs C12Proofs C13Proofs C15Proofs.

Definition gv (now : Z) (v : option Z) : Z := match v with Some l => l | None => now end.

(* mk: bus activity may have been marked at `now` (PHY busy, or something in the receive buffer) *)
Definition lba_moves (mk : Prop) (now : Z) (v v' : option Z) : Prop :=
  v' = v \/ v' = Some (gv now v) \/ (mk /\ v' = Some (Z.max (gv now v) now)).

Lemma lba_moves_refl mk now v : lba_moves mk now v v.
Proof. left. reflexivity. Qed.

Lemma lba_moves_trans mk now v1 v2 v3 : lba_moves mk now v1 v2 -> lba_moves mk now v2 v3 -> lba_moves mk now v1 v3.
Proof.
  unfold lba_moves. intros [-> | [-> | (M1 & ->)]] [-> | [-> | (M2 & ->)]]; cbn [gv]; auto;
    right; right; (split; [assumption|]); f_equal; lia.
Qed.

Lemma lba_moves_weaken (mk mk' : Prop) now v v' : (mk -> mk') -> lba_moves mk now v v' -> lba_moves mk' now v v'.
Proof. unfold lba_moves. intros H [E|[E|(M & E)]]; auto. Qed.

Definition dur (p : params) (k : nat) : Z := bits_to_time (p_baud p) (bits_per_byte * Z.of_nat k).

(* the station re-created itself in this poll (second address collision while listening) *)
Definition rst (now : Z) (f' : fdl) : Prop :=
  f_state f' = Offline /\ f_conn f' = ConnOffline /\ f_pending f' = 0%nat /\ (f_lba f' = None \/ f_lba f' = Some now).

Section BK.
Variable A : Type.
Variable ops : app_ops A.
Notation W := (world A).

Lemma skipn_skipn' {X} (k2 : nat) : forall (k1 : nat) (l : list X), skipn k2 (skipn k1 l) = skipn (k1 + k2) l.
Proof.
  induction k1 as [|k1 IH]; intros l; [reflexivity|]. destruct l as [|x l]; [cbn; destruct k2; reflexivity|].
  cbn [skipn Nat.add]. apply IH.
Qed.

Definition suffix_rx (w w' : W) : Prop := exists k, w_rx w' = skipn k (w_rx w).

Lemma suffix_rx_refl (w : W) : suffix_rx w w.
Proof. exists 0%nat. reflexivity. Qed.
Lemma suffix_rx_trans (w1 w2 w3 : W) : suffix_rx w1 w2 -> suffix_rx w2 w3 -> suffix_rx w1 w3.
Proof. intros [k1 E1] [k2 E2]. exists (k1 + k2)%nat. rewrite E2, E1, skipn_skipn'. reflexivity. Qed.
Lemma suffix_rx_eq (w w' : W) : w_rx w' = w_rx w -> suffix_rx w w'.
Proof. intros E. exists 0%nat. exact E. Qed.

(* a step that transmits nothing and does not re-create the station *)
Definition bk0 (now : Z) (f : fdl) (w : W) (f' : fdl) (w' : W) : Prop :=
  w_tx w' = w_tx w /\ suffix_rx w w' /\
  ((f_pending f <= length (w_rx w))%nat -> (f_pending f' <= length (w_rx w'))%nat) /\
  f_p f' = f_p f /\ lba_moves (w_rx w <> []) now (f_lba f) (f_lba f').

(* a whole state function, entered with nothing transmitted yet *)
Definition bk (now : Z) (f : fdl) (w : W) (f' : fdl) (w' : W) : Prop :=
  suffix_rx w w' /\
  ((f_pending f <= length (w_rx w))%nat -> (f_pending f' <= length (w_rx w'))%nat) /\
  f_p f' = f_p f /\
  match w_tx w' with
  | Some wire => f_lba f' = Some (now + dur (f_p f) (length wire))
  | None => lba_moves (w_rx w <> []) now (f_lba f) (f_lba f') \/ rst now f'
  end.

Lemma suffix_nonempty (w w' : W) : suffix_rx w w' -> w_rx w' <> [] -> w_rx w <> [].
Proof. intros [k E] H C. apply H. rewrite E, C. destruct k; reflexivity. Qed.

Lemma bk0_refl now f w : bk0 now f w f w.
Proof.
  split; [reflexivity|]. split; [apply suffix_rx_refl|]. split; [auto|]. split; [reflexivity|]. apply lba_moves_refl.
Qed.

Lemma bk0_trans now f w f1 w1 f2 w2 : bk0 now f w f1 w1 -> bk0 now f1 w1 f2 w2 -> bk0 now f w f2 w2.
Proof.
  intros (T1 & S1 & P1 & Q1 & L1) (T2 & S2 & P2 & Q2 & L2).
  split; [congruence|]. split; [eapply suffix_rx_trans; eassumption|]. split; [auto|]. split; [congruence|].
  eapply lba_moves_trans; [exact L1|]. eapply lba_moves_weaken; [|exact L2]. apply suffix_nonempty; exact S1.
Qed.

Lemma bk0_frame now f (w : W) f' w' :
  w_tx w' = w_tx w -> w_rx w' = w_rx w -> f_lba f' = f_lba f -> f_pending f' = f_pending f -> f_p f' = f_p f ->
  bk0 now f w f' w'.
Proof.
  intros T R L P Q. split; [exact T|]. split; [apply suffix_rx_eq; exact R|]. split; [rewrite P, R; auto|].
  split; [exact Q|]. rewrite L. apply lba_moves_refl.
Qed.

Lemma bk0_lba now f (w : W) f' w' :
  w_tx w' = w_tx w -> w_rx w' = w_rx w -> lba_moves (w_rx w <> []) now (f_lba f) (f_lba f') -> f_pending f' = f_pending f -> f_p f' = f_p f ->
  bk0 now f w f' w'.
Proof.
  intros T R L P Q. split; [exact T|]. split; [apply suffix_rx_eq; exact R|]. split; [rewrite P, R; auto|].
  split; [exact Q|]. exact L.
Qed.

Lemma bk0_bk now f w f' w' : w_tx w = None -> bk0 now f w f' w' -> bk now f w f' w'.
Proof. intros Hw (T & S & P & Q & L). unfold bk. rewrite T, Hw. tauto. Qed.

Lemma bk_after_bk0 now f w f1 w1 f2 w2 : bk0 now f w f1 w1 -> bk now f1 w1 f2 w2 -> bk now f w f2 w2.
Proof.
  intros (T1 & S1 & P1 & Q1 & L1) (S2 & P2 & Q2 & L2).
  split; [eapply suffix_rx_trans; eassumption|]. split; [auto|]. split; [congruence|].
  destruct (w_tx w2) as [wire|]; [rewrite <- Q1; exact L2|].
  destruct L2 as [L2|R2]; [left|right; exact R2].
  eapply lba_moves_trans; [exact L1|]. eapply lba_moves_weaken; [|exact L2]. apply suffix_nonempty; exact S1.
Qed.

(* ---- primitives ---- *)

Lemma goi_bk0 now f l f1 (w : W) : lba_get_or_insert f now = (l, f1) -> bk0 now f w f1 w /\ f_state f1 = f_state f /\ f_lba f1 = Some l.
Proof.
  intros E. apply lba_get_or_insert_same in E. destruct E as ((Hp & _ & _ & _ & Hs & Hpd & _) & Hl & Hm).
  split; [|split; [exact Hs|exact Hl]].
  apply bk0_lba; try reflexivity; try assumption.
  right. left. rewrite Hl. unfold gv. destruct (f_lba f); subst; reflexivity.
Qed.

Lemma wait_sync_bk0 now f f1 b (w : W) : wait_synchronization_pause f now = Ok (f1, b) ->
  bk0 now f w f1 w /\ same_but_lba f f1.
Proof.
  intros E. apply wait_sync_same in E. destruct E as (Hsame & l & Hl & Hm & _). split; [|exact Hsame].
  destruct Hsame as (Hp & _ & _ & Hg & Hs & Hpd & _).
  apply bk0_lba; try reflexivity; try assumption.
  right. left. rewrite Hl. unfold gv. destruct (f_lba f); subst; reflexivity.
Qed.

Lemma check_slot_bk0 now f f1 b (w : W) : check_slot_expired f now = Ok (f1, b) ->
  bk0 now f w f1 w /\ same_but_lba f f1.
Proof.
  intros E. pose proof (check_slot_expired_same _ _ _ _ E) as Hsame. split; [|exact Hsame].
  unfold check_slot_expired in E. destruct (lba_get_or_insert f now) as [l f0] eqn:E0.
  destruct (inst_add _ _); cbn [bind] in E; try discriminate. injection E as <- _.
  exact (proj1 (goi_bk0 now f l f0 w E0)).
Qed.

Lemma trans_bk0 now f (w : W) t f' w' : trans A f w t = Ok (f', w') ->
  bk0 now f w f' w' /\ exists s', t (f_state f) = Ok s' /\ f' = set_st f s'.
Proof.
  intros H. apply trans_spec in H. destruct H as (s' & Ht & -> & ->).
  split; [apply bk0_frame; reflexivity|]. exists s'. split; [exact Ht|reflexivity].
Qed.

Lemma mark_tx_spec f now k f' : mark_tx f now k = Ok f' -> f' = set_lba f (Some (now + dur (f_p f) k)).
Proof.
  unfold mark_tx. destruct (4294967295 <? Z.of_nat k); [discriminate|].
  destruct (4294967295 <? bits_per_byte * Z.of_nat k); [discriminate|].
  unfold inst_add. destruct (i64_ok _); cbn [bind]; [|discriminate].
  intros H. injection H as <-. reflexivity.
Qed.

Lemma phy_send_spec (w : W) rq w' k : phy_send A w rq = Ok (w', k) ->
  w_tx w = None /\ exists wire, w_tx w' = Some wire /\ k = length wire /\ w_rx w' = w_rx w /\
    w_calls w' = w_calls w /\ w_apps w' = w_apps w.
Proof.
  unfold phy_send. destruct (transmit tx_buffer_size rq) as [[wire e]| |]; cbn [bind]; try discriminate.
  unfold phy_transmit. destruct (w_tx w) eqn:E; cbn [bind]; [discriminate|].
  intros H. injection H as <- <-. cbn. split; [reflexivity|]. exists wire. repeat split; reflexivity.
Qed.

Lemma next_gap_bk0 now f (w : W) cur f' w' : next_gap_poll_traced A f w cur = Ok (f', w') ->
  bk0 now f w f' w' /\ f_state f' = f_state f.
Proof.
  unfold next_gap_poll_traced. destruct (next_gap_poll f cur) as [g| |]; cbn [bind]; try discriminate.
  intros H. injection H as <- <-. split; [apply bk0_frame; reflexivity|reflexivity].
Qed.

(* a transmitting step: the telegram handed to the PHY, then mark_tx *)
Definition txs (now : Z) (f : fdl) (w : W) (f' : fdl) (w' : W) : Prop :=
  w_tx w = None /\ exists wire, w_tx w' = Some wire /\ w_rx w' = w_rx w /\
    f_lba f' = Some (now + dur (f_p f) (length wire)) /\ f_pending f' = f_pending f /\ f_p f' = f_p f.

Lemma txs_bk now f w f' w' : txs now f w f' w' -> bk now f w f' w'.
Proof.
  intros (_ & wire & T & R & L & P & Q). split; [apply suffix_rx_eq; exact R|]. split; [rewrite P, R; auto|].
  split; [exact Q|]. rewrite T. exact L.
Qed.

Lemma bk0_txs now f w f1 w1 f2 w2 : bk0 now f w f1 w1 -> txs now f1 w1 f2 w2 -> bk now f w f2 w2.
Proof. intros H1 H2. eapply bk_after_bk0; [exact H1|apply txs_bk; exact H2]. Qed.

(* phy_send ... then mark_tx on a station whose bookkeeping fields were not touched in between *)
Lemma send_mark now f (w : W) rq w1 k f1 f2 w2 :
  phy_send A w rq = Ok (w1, k) -> mark_tx f1 now k = Ok f2 ->
  f_pending f1 = f_pending f -> f_p f1 = f_p f -> w_tx w2 = w_tx w1 -> w_rx w2 = w_rx w1 ->
  txs now f w f2 w2.
Proof.
  intros Ep Em P Q T R. apply phy_send_spec in Ep. destruct Ep as (Hn & wire & Ht & -> & Hr & _).
  apply mark_tx_spec in Em. subst f2. split; [exact Hn|]. exists wire. cbn.
  split; [congruence|]. split; [congruence|]. split; [rewrite Q; reflexivity|]. split; assumption.
Qed.

Lemma mark_rx_spec f now :
  f_lba (mark_rx f now) = Some (Z.max (gv now (f_lba f)) now) /\ f_pending (mark_rx f now) = 0%nat /\
  f_state (mark_rx f now) = f_state f /\ f_p (mark_rx f now) = f_p f /\ f_conn (mark_rx f now) = f_conn f /\
  f_gap (mark_rx f now) = f_gap f /\ f_ring (mark_rx f now) = f_ring f.
Proof. unfold mark_rx, mark_bus_activity, lba_get_or_insert. cbn. destruct (f_lba f); cbn; repeat split; reflexivity. Qed.

Lemma mark_bus_activity_spec f now :
  f_lba (mark_bus_activity f now) = Some (Z.max (gv now (f_lba f)) now) /\
  f_pending (mark_bus_activity f now) = f_pending f /\
  f_state (mark_bus_activity f now) = f_state f /\ f_p (mark_bus_activity f now) = f_p f /\
  f_conn (mark_bus_activity f now) = f_conn f.
Proof. unfold mark_bus_activity, lba_get_or_insert. destruct (f_lba f); cbn; repeat split; reflexivity. Qed.

Lemma receive_telegram_suffix {R} (g : telegram -> R) buf rest r :
  receive_telegram g buf = Ok (rest, r) -> exists k, rest = skipn k buf.
Proof.
  unfold receive_telegram. destruct (decode buf) as [d| |]; cbn [bind]; try discriminate.
  destruct d as [ | |t n]; intros H; injection H as <- _.
  - exists 0%nat. reflexivity.
  - exists (length buf). symmetry. apply skipn_all.
  - exists n. reflexivity.
Qed.

Lemma transmit_gap_bk now f (w : W) f' w' polled :
  transmit_gap_poll_if_pending A f now w = Ok (f', w', polled) ->
  f_state f' = f_state f /\
  match polled with
  | None => f' = f /\ w' = w
  | Some _ => txs now f w f' w'
  end.
Proof.
  unfold transmit_gap_poll_if_pending. destruct (f_gap f) as [rc|cur].
  - intros H. injection H as <- <- <-. split; [reflexivity|split; reflexivity].
  - destruct (cur =? ts f); [discriminate|].
    destruct (phy_send A w _) as [[w1 k]| |] eqn:Ep; cbn [bind]; try discriminate.
    destruct (mark_tx f now k) as [f1| |] eqn:Em; cbn [bind]; try discriminate.
    intros H. injection H as <- <- <-. split; [exact (mark_tx_state _ _ _ _ Em)|].
    eapply send_mark; try eassumption; reflexivity.
Qed.

(* the station after a received telegram was noted: last_bus_activity := max (...) now, pending := 0 *)
Lemma bk0_received now f (w : W) fx wx k :
  w_rx w <> [] -> w_tx wx = w_tx w -> w_rx wx = skipn k (w_rx w) ->
  f_lba fx = f_lba (mark_rx f now) -> f_pending fx = 0%nat -> f_p fx = f_p f -> bk0 now f w fx wx.
Proof.
  intros Hne T R L P Q. destruct (mark_rx_spec f now) as (ML & _).
  split; [exact T|]. split; [exists k; exact R|]. split; [intros _; rewrite P; lia|].
  split; [exact Q|]. right. right. split; [exact Hne|]. rewrite L. exact ML.
Qed.

Lemma decode_nil : decode [] = Ok NeedMore.
Proof. reflexivity. Qed.

Lemma receive_telegram_some {R} (g : telegram -> R) buf rest r :
  receive_telegram g buf = Ok (rest, Some r) -> buf <> [].
Proof. intros H ->. unfold receive_telegram in H. rewrite decode_nil in H. cbn in H. discriminate H. Qed.

Lemma await_gap_bk0 now f (w : W) pa f' w' r :
  await_gap_poll_response A f now w pa = Ok (f', w', r) ->
  bk0 now f w f' w' /\ f_state f' = f_state f.
Proof.
  unfold await_gap_poll_response.
  destruct (pa =? ts f); [discriminate|]. destruct (negb _); [discriminate|].
  destruct (receive_telegram (fun t => t) (w_rx w)) as [[rest received]| |] eqn:Er; cbn [bind]; try discriminate.
  destruct (receive_telegram_suffix _ _ _ _ Er) as [k Ek].
  destruct (mark_rx_spec f now) as (ML & MP & MS & MQ & _).
  destruct received as [t|].
  - pose proof (receive_telegram_some _ _ _ _ Er) as Hne.
    assert (Hdone : forall fx t0, f_lba fx = f_lba (mark_rx f now) -> f_pending fx = 0%nat -> f_p fx = f_p f ->
              f_state fx = f_state f -> bk0 now f w fx (note A (set_rx A w rest) t0) /\ f_state fx = f_state f).
    { intros fx t0 L P Q S. split; [|exact S]. eapply bk0_received with (k := k); try eassumption; try reflexivity. }
    destruct t as [[da sa dsap ssap fc] pdu|da sa|]; [destruct fc as [fb rq|st status]| |];
      try (intros H; injection H as <- <- _; apply Hdone; assumption || reflexivity).
    destruct ((sa =? pa) && (da =? ts (mark_rx f now))); [|intros H; injection H as <- <- _; apply Hdone; assumption || reflexivity].
    destruct (resp_status_eqb status gap_reply_status && gap_reply_state_is_master st);
      [|intros H; injection H as <- <- _; apply Hdone; assumption || reflexivity].
    destruct (set_next_station _ _) as [r'| |]; cbn [bind]; try discriminate.
    intros H; injection H as <- <- _; apply Hdone; assumption || reflexivity.
  - match goal with |- context [check_slot_expired ?fx now] => destruct (check_slot_expired fx now) as [[f1 expired]| |] eqn:Ec end;
      cbn [bind]; try discriminate.
    match type of Ec with check_slot_expired ?fx now = _ => set (f0 := fx) in * end.
    match goal with |- context [set_rx A ?wx rest] => set (w0 := set_rx A wx rest) in * end.
    destruct (check_slot_bk0 now f0 f1 expired w0 Ec) as (Hb & Hsame).
    assert (H0 : bk0 now f w f0 w0).
    { split; [subst w0; destruct (Nat.ltb _ _); reflexivity|]. split; [exists k; subst w0; cbn; exact Ek|].
      split; [intros _; subst f0 w0; cbn; apply Nat.le_min_r|]. split; [reflexivity|]. apply lba_moves_refl. }
    assert (Hfin : forall t, bk0 now f w f1 (note A w0 t) /\ f_state f1 = f_state f).
    { intros t. split.
      - eapply bk0_trans; [exact H0|]. eapply bk0_trans; [exact Hb|apply bk0_frame; reflexivity].
      - destruct Hsame as (_ & _ & _ & _ & Hs & _). rewrite Hs. reflexivity. }
    destruct expired; intros H; injection H as <- <- _; apply Hfin.
Qed.

Lemma txs_frame now f (w : W) f1 w1 f2 w2 : txs now f w f1 w1 ->
  f_lba f2 = f_lba f1 -> f_pending f2 = f_pending f1 -> f_p f2 = f_p f1 -> w_tx w2 = w_tx w1 -> w_rx w2 = w_rx w1 ->
  txs now f w f2 w2.
Proof.
  intros (Hn & wire & T & R & L & P & Q) L2 P2 Q2 T2 R2. split; [exact Hn|]. exists wire.
  repeat split; congruence.
Qed.

Lemma set_claim_step_spec' f s f' : set_claim_step f s = Ok f' -> f' = set_st f (ClaimToken s).
Proof. unfold set_claim_step. destruct (get_claim_token_step _); cbn [bind]; try discriminate. intros H; injection H as <-; reflexivity. Qed.

Lemma do_claim_token_scan_bk now f (w : W) f' w' :
  do_claim_token_scan A f now w = Ok (f', w') -> w_tx w = None -> bk now f w f' w'.
Proof.
  unfold do_claim_token_scan. intros H Hw.
  destruct (wait_synchronization_pause f now) as [[f1 wait]| |] eqn:Ew; cbn [bind] in H; try discriminate H.
  destruct (wait_sync_bk0 now f f1 wait w Ew) as (B1 & _).
  destruct wait.
  { injection H as <- <-. apply bk0_bk; [exact Hw|]. eapply bk0_trans; [exact B1|apply bk0_frame; reflexivity]. }
  destruct (f_gap f1) as [rc|cur].
  - match type of H with bind ?x _ = _ => destruct x as [[f2 w2]| |] eqn:Et end; cbn [bind] in H; try discriminate H.
    injection H as <- <-. apply trans_bk0 with (now := now) in Et. destruct Et as (B2 & _).
    apply bk0_bk; [exact Hw|]. eapply bk0_trans; [exact B1|]. eapply bk0_trans; [|exact B2]. apply bk0_frame; reflexivity.
  - destruct (next_gap_poll_traced A f1 w cur) as [[f2 w2]| |] eqn:En; cbn [bind] in H; try discriminate H.
    destruct (next_gap_bk0 now _ _ _ _ _ En) as (B2 & _).
    destruct (transmit_gap_poll_if_pending A f2 now w2) as [[[f3 w3] polled]| |] eqn:Eg; cbn [bind] in H; try discriminate H.
    destruct (transmit_gap_bk now _ _ _ _ _ Eg) as (_ & Hg).
    assert (B12 : bk0 now f w f2 w2) by (eapply bk0_trans; eassumption).
    destruct polled as [a|].
    + destruct (set_claim_step f3 _) as [f4| |] eqn:Es; cbn [bind] in H; try discriminate H.
      injection H as <- <-. apply set_claim_step_spec' in Es. subst f4.
      eapply bk0_txs; [exact B12|]. eapply txs_frame; [exact Hg| | | | |]; reflexivity.
    + destruct Hg as (-> & ->). injection H as <- <-. apply bk0_bk; [exact Hw|].
      eapply bk0_trans; [exact B12|apply bk0_frame; reflexivity].
Qed.

Lemma do_claim_token_bk now f (w : W) f' w' :
  do_claim_token A f now w = Ok (f', w') -> w_tx w = None -> bk now f w f' w'.
Proof.
  unfold do_claim_token. intros H Hw.
  destruct (assert_entry DoClaimToken f); cbn [bind] in H; try discriminate H.
  destruct (get_claim_token_step (f_state f)) as [step| |]; cbn [bind] in H; try discriminate H.
  assert (Htok : forall nxt,
    (let* (f0, wait) := wait_synchronization_pause f now in
     if wait then Ok (f0, note A w TSyncWait)
     else let* (w0, n) := phy_send A w (TxToken (ts f0) (ts f0)) in
          let f1 := set_ring f0 (claim_token (f_ring f0)) in
          let* f2 := set_claim_step f1 nxt in
          let f3 := set_gap f2 (GapDoPoll (ts f2)) in
          let* f4 := mark_tx f3 now n in Ok (f4, note A w0 TClaimSendToken)) = Ok (f', w') -> bk now f w f' w').
  { intros nxt H0.
    destruct (wait_synchronization_pause f now) as [[f1 wait]| |] eqn:Ew; cbn [bind] in H0; try discriminate H0.
    destruct (wait_sync_bk0 now f f1 wait w Ew) as (B1 & _).
    destruct wait.
    { injection H0 as <- <-. apply bk0_bk; [exact Hw|]. eapply bk0_trans; [exact B1|apply bk0_frame; reflexivity]. }
    destruct (phy_send A w _) as [[w1 k]| |] eqn:Ep; cbn [bind] in H0; try discriminate H0.
    destruct (set_claim_step _ nxt) as [f2| |] eqn:Es; cbn [bind] in H0; try discriminate H0.
    apply set_claim_step_spec' in Es. subst f2.
    match type of H0 with bind (mark_tx ?fx now k) _ = _ => destruct (mark_tx fx now k) as [f4| |] eqn:Em end; cbn [bind] in H0; try discriminate H0.
    injection H0 as <- <-. eapply bk0_txs; [exact B1|].
    eapply send_mark; try eassumption; reflexivity. }
  destruct step as [ | | |a0].
  - exact (Htok _ H).
  - exact (Htok _ H).
  - exact (do_claim_token_scan_bk now _ _ _ _ H Hw).
  - destruct (await_gap_poll_response A f now w a0) as [[[f1 w1] r]| |] eqn:Ea; cbn [bind] in H; try discriminate H.
    destruct (await_gap_bk0 now _ _ _ _ _ _ Ea) as (B1 & _).
    assert (Hw1 : w_tx w1 = None) by (destruct B1 as (T & _); congruence).
    destruct r.
    + injection H as <- <-. apply bk0_bk; assumption.
    + destruct (set_claim_step f1 StepScan) as [f2| |] eqn:Es; cbn [bind] in H; try discriminate H.
      apply set_claim_step_spec' in Es. subst f2.
      eapply bk_after_bk0; [exact B1|]. eapply bk_after_bk0; [|exact (do_claim_token_scan_bk now _ _ _ _ H Hw1)].
      apply bk0_frame; reflexivity.
    + destruct (set_claim_step f1 StepScan) as [f2| |] eqn:Es; cbn [bind] in H; try discriminate H.
      apply set_claim_step_spec' in Es. subst f2. injection H as <- <-.
      apply bk0_bk; [exact Hw|]. eapply bk0_trans; [exact B1|apply bk0_frame; reflexivity].
    + apply trans_bk0 with (now := now) in H. destruct H as (B2 & _).
      apply bk0_bk; [exact Hw|]. eapply bk0_trans; eassumption.
Qed.

Lemma handle_lost_token_bk now f (w : W) f' w' d :
  handle_lost_token A f now w = Ok (f', w', d) -> w_tx w = None ->
  if d then bk now f w f' w' else bk0 now f w f' w' /\ f_state f' = f_state f.
Proof.
  unfold handle_lost_token. intros H Hw.
  destruct (lba_get_or_insert f now) as [l f0] eqn:El. destruct (goi_bk0 now f l f0 w El) as (B0 & Hs0 & _).
  destruct (inst_diff now l); cbn [bind] in H; try discriminate H.
  match type of H with (if ?c then _ else _) = _ => destruct c end.
  - match type of H with context [trans A ?a ?b ?c] => destruct (trans A a b c) as [[f1 w1]| |] eqn:Et end; cbn [bind] in H; try discriminate H.
    apply trans_bk0 with (now := now) in Et. destruct Et as (B1 & _).
    destruct (do_claim_token A f1 now w1) as [[f2 w2]| |] eqn:Ed; cbn [bind] in H; try discriminate H.
    injection H as <- <- <-.
    assert (Hw1 : w_tx w1 = None) by (destruct B1 as (T & _); cbn in T; congruence).
    eapply bk_after_bk0; [exact B0|]. eapply bk_after_bk0; [|exact (do_claim_token_bk now _ _ _ _ Ed Hw1)].
    eapply bk0_trans; [|exact B1]. apply bk0_frame; reflexivity.
  - injection H as <- <- <-. split; assumption.
Qed.

(* ---- the receive loops ---- *)

Lemma receive_all_suffix {S R} (cb : S -> telegram -> bool -> res (S * R)) :
  forall fuel s buf s' rest r, receive_all cb fuel s buf = Ok (s', rest, r) -> exists k, rest = skipn k buf.
Proof.
  induction fuel as [|fuel IH]; intros s buf s' rest r H; [discriminate H|].
  cbn [receive_all] in H.
  destruct (decode buf) as [d| |]; cbn [bind] in H; try discriminate H.
  destruct d as [ | |t n].
  - injection H as _ <- _. exists 0%nat. reflexivity.
  - injection H as _ <- _. exists (length buf). symmetry. apply skipn_all.
  - destruct (cb s t (Nat.eqb n (length buf))) as [[s1 r1]| |]; cbn [bind] in H; try discriminate H.
    destruct (Nat.eqb n (length buf)).
    + injection H as _ <- _. exists n. reflexivity.
    + apply IH in H. destruct H as [k ->]. exists (n + k)%nat. apply skipn_skipn'.
Qed.

Lemma fdl_new_fields p f : fdl_new p = Ok f ->
  f_state f = Offline /\ f_conn f = ConnOffline /\ f_lba f = None /\ f_pending f = 0%nat /\ f_p f = p.
Proof.
  unfold fdl_new. destruct (negb _); [discriminate|]. destruct (negb _); [discriminate|].
  destruct (ring_new _) as [r| |]; cbn [bind]; try discriminate. intros H. injection H as <-. cbn. tauto.
Qed.

(* a step on the station alone that leaves the bookkeeping fields as they are *)
Definition frm (f : fdl) (w : W) (f' : fdl) (w' : W) : Prop :=
  w_tx w' = w_tx w /\ w_rx w' = w_rx w /\ f_lba f' = f_lba f /\ f_pending f' = f_pending f /\ f_p f' = f_p f.

Lemma frm_refl f w : frm f w f w. Proof. unfold frm. tauto. Qed.
Lemma frm_trans f w f1 w1 f2 w2 : frm f w f1 w1 -> frm f1 w1 f2 w2 -> frm f w f2 w2.
Proof. unfold frm. intuition congruence. Qed.
Lemma frm_bk0 now f w f' w' : frm f w f' w' -> bk0 now f w f' w'.
Proof. intros (T & R & L & P & Q). apply bk0_frame; assumption. Qed.
Lemma trans_frm f (w : W) t f' w' : trans A f w t = Ok (f', w') -> frm f w f' w'.
Proof. intros H. apply trans_spec in H. destruct H as (s' & _ & -> & ->). unfold frm. cbn. tauto. Qed.

Lemma handle_telegram_frm now f (w : W) t il f' w' :
  handle_telegram A now f w t il = Ok (f', w') -> frm f w f' w'.
Proof.
  unfold handle_telegram. intros H.
  destruct (f_state f) eqn:Es; cbn [negb kind_of state_kind_eqb] in H; try discriminate H;
    try (injection H as <- <-; unfold frm; cbn; tauto).
  destruct t as [h pdu|da sa|].
  - destruct (is_fdl_status_request h && (h_da h =? ts f) && il).
    + cbn [get_active_idle bind] in H. injection H as <- <-. unfold frm; cbn; tauto.
    + injection H as <- <-. unfold frm; cbn; tauto.
  - cbn [get_active_idle bind] in H.
    destruct (sa =? ts f).
    + destruct (u8_add _ _); cbn [bind] in H; try discriminate H.
      match type of H with (if ?c then _ else _) = _ => destruct c end.
      * injection H as <- <-. unfold frm; cbn; tauto.
      * apply trans_frm in H. destruct H as (T & R & L & P & Q). unfold frm. cbn in *. tauto.
    + match type of H with (if ?c then _ else _) = _ => destruct c end.
      * destruct (witness _ _ _); cbn [bind] in H; try discriminate H. injection H as <- <-. unfold frm; cbn; tauto.
      * match type of H with (if ?c then _ else _) = _ => destruct c end.
        -- apply trans_frm in H. destruct H as (T & R & L & P & Q). unfold frm. cbn in *. tauto.
        -- destruct new_previous_station as [address|].
           ++ destruct (address =? sa).
              ** destruct (witness _ _ _); cbn [bind] in H; try discriminate H.
                 apply trans_frm in H. destruct H as (T & R & L & P & Q). unfold frm. cbn in *. tauto.
              ** injection H as <- <-. unfold frm; cbn; tauto.
           ++ injection H as <- <-. unfold frm; cbn; tauto.
  - injection H as <- <-. unfold frm; cbn; tauto.
Qed.

(* loop invariant of the receive closures, relative to the station and world the loop started with *)
Definition rstL (now : Z) (fc : fdl) : Prop :=
  f_state fc = Offline /\ f_conn fc = ConnOffline /\ f_pending fc = 0%nat /\ (f_lba fc = None \/ f_lba fc = Some now).

Definition LI (now : Z) (f : fdl) (w : W) (s : fdl * W) : Prop :=
  w_tx (snd s) = w_tx w /\ w_rx (snd s) = w_rx w /\ f_p (fst s) = f_p f /\
  (lba_moves True now (f_lba f) (f_lba (fst s)) \/ rstL now (fst s)).

Lemma LI_mark_rx now f w fc wc : LI now f w (fc, wc) -> LI now f w (mark_rx fc now, wc).
Proof.
  unfold LI. cbn [fst snd]. intros (T & R & Q & L). destruct (mark_rx_spec fc now) as (ML & MP & MS & MQ & MC & _).
  split; [exact T|]. split; [exact R|]. split; [congruence|].
  destruct L as [L|(S1 & C1 & P1 & L1)].
  - left. eapply lba_moves_trans; [exact L|]. right. right. split; [exact I|exact ML].
  - right. split; [congruence|]. split; [congruence|]. split; [exact MP|]. right. rewrite ML.
    destruct L1 as [-> | ->]; cbn [gv]; f_equal; lia.
Qed.

Lemma LI_frm now f w fc wc f' w' : LI now f w (fc, wc) -> frm fc wc f' w' -> f_conn fc <> ConnOffline -> LI now f w (f', w').
Proof.
  unfold LI. cbn [fst snd]. intros (T & R & Q & L) (T' & R' & L' & P' & Q') Hs.
  split; [congruence|]. split; [congruence|]. split; [congruence|].
  destruct L as [L|(_ & C1 & _)]; [left; rewrite L'; exact L|contradiction].
Qed.

Lemma listen_token_telegram_LI now f w s t il s' u :
  LI now f w s -> listen_token_telegram A now s t il = Ok (s', u) -> LI now f w s'.
Proof.
  destruct s as [fc wc]. intros HI. apply LI_mark_rx in HI. unfold listen_token_telegram.
  set (fm := mark_rx fc now) in *.
  assert (Hfr : forall f1 w1, frm fm wc f1 w1 -> f_conn fm <> ConnOffline -> LI now f w (f1, w1))
    by (intros f1 w1 Hf Hc; exact (LI_frm _ _ _ _ _ _ _ HI Hf Hc)).
  destruct (f_conn fm) eqn:Ec.
  1:{ intros H. injection H as <- _. destruct HI as (T & R & Q & L). split; [exact T|]. split; [exact R|]. split; [exact Q|exact L]. }
  all: intros H;
    (destruct (opt_eqb (source_address t) (Some (ts fm)));
     [ destruct (get_listen_token (f_state fm)) as [[sr cc]| |]; cbn [bind] in H; try discriminate H;
       destruct (u8_add cc 1) as [cc'| |]; cbn [bind] in H; try discriminate H;
       destruct (cc' =? listen_collision_tolerated);
       [ injection H as <- _; apply Hfr; [unfold frm; cbn; tauto|discriminate]
       | match type of H with bind (set_offline ?fx) _ = _ => destruct (set_offline fx) as [fo| |] eqn:Eo end;
         cbn [bind] in H; try discriminate H; injection H as <- _;
         unfold set_offline, set_state in Eo; apply fdl_new_fields in Eo; cbn [f_p set_st] in Eo;
         destruct Eo as (S1 & C1 & L1 & P1 & Q1); destruct HI as (T & R & Q & L);
         unfold LI; cbn [fst snd] in *;
         (split; [exact T|]); (split; [exact R|]); (split; [congruence|]);
         right; split; [exact S1|]; split; [exact C1|]; split; [exact P1|]; left; exact L1 ]
     | destruct t as [h pdu|da sa|];
       [ destruct (is_fdl_status_request h && (h_da h =? ts fm));
         [ destruct il;
           [ destruct (get_listen_token (f_state fm)) as [[sr cc]| |]; cbn [bind] in H; try discriminate H;
             injection H as <- _; apply Hfr; [unfold frm; cbn; tauto|discriminate]
           | injection H as <- _; apply Hfr; [unfold frm; cbn; tauto|discriminate] ]
         | injection H as <- _; apply Hfr; [unfold frm; cbn; tauto|discriminate] ]
       | destruct (witness _ _ _); cbn [bind] in H; try discriminate H;
         injection H as <- _; apply Hfr; [unfold frm; cbn; tauto|discriminate]
       | injection H as <- _; apply Hfr; [unfold frm; cbn; tauto|discriminate] ] ]).
Qed.

(* the loops that cannot re-create the station *)
Definition LI0 (now : Z) (f : fdl) (w : W) (fc : fdl) (wc : W) : Prop :=
  w_tx wc = w_tx w /\ w_rx wc = w_rx w /\ f_p fc = f_p f /\ lba_moves True now (f_lba f) (f_lba fc).

Lemma LI0_refl now f w : LI0 now f w f w.
Proof. unfold LI0. repeat split; try reflexivity. apply lba_moves_refl. Qed.

Lemma LI0_mark_rx now f w fc wc : LI0 now f w fc wc -> LI0 now f w (mark_rx fc now) wc.
Proof.
  intros (T & R & Q & L). destruct (mark_rx_spec fc now) as (ML & MP & MS & MQ & _).
  split; [exact T|]. split; [exact R|]. split; [congruence|].
  eapply lba_moves_trans; [exact L|]. right. right. split; [exact I|exact ML].
Qed.

Lemma LI0_frm now f w fc wc f' w' : LI0 now f w fc wc -> frm fc wc f' w' -> LI0 now f w f' w'.
Proof.
  intros (T & R & Q & L) (T' & R' & L' & P' & Q'). split; [congruence|]. split; [congruence|]. split; [congruence|].
  rewrite L'. exact L.
Qed.

Lemma active_idle_telegram_LI0 now f w s t il s' u :
  LI0 now f w (fst s) (snd s) -> active_idle_telegram A now s t il = Ok (s', u) -> LI0 now f w (fst s') (snd s').
Proof.
  destruct s as [fc wc]. cbn [fst snd]. intros HI. apply LI0_mark_rx in HI. unfold active_idle_telegram.
  destruct (handle_telegram A now (mark_rx fc now) wc t il) as [[f1 w1]| |] eqn:Eh; cbn [bind]; try discriminate.
  intros H. injection H as <- _. cbn [fst snd].
  eapply LI0_frm; [exact HI|exact (handle_telegram_frm _ _ _ _ _ _ _ Eh)].
Qed.

Lemma check_token_pass_telegram_LI0 now f w s t il s' u :
  LI0 now f w (fst (fst s)) (snd (fst s)) -> check_token_pass_telegram A now s t il = Ok (s', u) ->
  LI0 now f w (fst (fst s')) (snd (fst s')).
Proof.
  destruct s as [[fc wc] fi]. cbn [fst snd]. intros HI. apply LI0_mark_rx in HI. unfold check_token_pass_telegram.
  match goal with |- bind ?x _ = _ -> _ => destruct x as [[f1 w1]| |] eqn:E1 end; cbn [bind]; try discriminate.
  assert (H1 : LI0 now f w f1 w1).
  { destruct fi.
    - apply trans_frm in E1. eapply LI0_frm; [exact HI|].
      destruct E1 as (T & R & L & P & Q). unfold frm. cbn in *. tauto.
    - injection E1 as <- <-. exact HI. }
  destruct (handle_telegram A now f1 w1 t il) as [[f2 w2]| |] eqn:Eh; cbn [bind]; try discriminate.
  intros H. injection H as <- _. cbn [fst snd].
  eapply LI0_frm; [exact H1|exact (handle_telegram_frm _ _ _ _ _ _ _ Eh)].
Qed.

(* the end of a receive loop: the rest of the buffer is set, pending_bytes is synchronised *)
Lemma receive_all_inv_ne {S R : Type} (P : S -> Prop) (cb : S -> telegram -> bool -> res (S * R)) :
  (forall s t l s' r, P s -> cb s t l = Ok (s', r) -> P s') ->
  forall fuel s buf s' rest r, P s -> receive_all cb fuel s buf = Ok (s', rest, r) ->
  (buf = [] /\ s' = s) \/ (buf <> [] /\ P s').
Proof.
  intros Hcb fuel s buf s' rest r Hp H. destruct buf as [|b buf].
  - left. split; [reflexivity|]. destruct fuel; [discriminate H|]. cbn [receive_all] in H. rewrite decode_nil in H.
    cbn [bind] in H. injection H as <- _ _. reflexivity.
  - right. split; [discriminate|]. exact (receive_all_inv P cb Hcb _ _ _ _ _ _ Hp H).
Qed.

Lemma loop_end_bk0 now f (w : W) fc wc rest k :
  (w_rx w = [] /\ (fc, wc) = (f, w)) \/ (w_rx w <> [] /\ LI0 now f w fc wc) -> rest = skipn k (w_rx w) ->
  bk0 now f w (sync_pending_bytes A fc (set_rx A wc rest)) (set_rx A wc rest).
Proof.
  intros [(E & Es)|(Hne & T & R & Q & L)] ->.
  - injection Es as -> ->. split; [reflexivity|]. split; [exists k; reflexivity|].
    split; [intros _; cbn; apply Nat.le_min_r|]. split; [reflexivity|apply lba_moves_refl].
  - split; [exact T|]. split; [exists k; reflexivity|].
    split; [intros _; cbn; apply Nat.le_min_r|]. split; [exact Q|].
    eapply lba_moves_weaken; [|exact L]. intros _. exact Hne.
Qed.

Lemma receive_all_telegrams_listen_bk now f (w : W) f' w' :
  receive_all_telegrams A (listen_token_telegram A now) f w = Ok (f', w') -> w_tx w = None -> bk now f w f' w'.
Proof.
  unfold receive_all_telegrams. intros H Hw.
  destruct (receive_all _ _ (f, w) (w_rx w)) as [[[s1 rest] r]| |] eqn:Er; cbn [bind] in H; try discriminate H.
  destruct s1 as [f1 w1]. injection H as <- <-.
  destruct (receive_all_suffix _ _ _ _ _ _ _ Er) as [k Ek].
  assert (HI : (w_rx w = [] /\ (f1, w1) = (f, w)) \/ (w_rx w <> [] /\ LI now f w (f1, w1))).
  { refine (receive_all_inv_ne (LI now f w) _ _ _ (f, w) _ (f1, w1) rest r _ Er).
    - intros s t l s' u Hp Hc. exact (listen_token_telegram_LI _ _ _ _ _ _ _ _ Hp Hc).
    - unfold LI. cbn. repeat split; try reflexivity. left. apply lba_moves_refl. }
  destruct HI as [(E & Es)|(Hne & T & R & Q & L)].
  { injection Es as -> ->. apply bk0_bk; [exact Hw|].
    apply (loop_end_bk0 now f w f w rest k); [left; split; [exact E|reflexivity]|exact Ek]. }
  cbn [fst snd] in *.
  split; [exists k; cbn; exact Ek|]. split; [intros _; cbn; apply Nat.le_min_r|]. split; [exact Q|].
  cbn [w_tx set_rx]. rewrite T, Hw. cbn [f_lba sync_pending_bytes set_pending].
  destruct L as [L|(S1 & C1 & P1 & L1)]; [left; eapply lba_moves_weaken; [|exact L]; intros _; exact Hne|right].
  split; [exact S1|]. split; [exact C1|]. split; [cbn; rewrite P1; reflexivity|exact L1].
Qed.

Lemma receive_all_telegrams_idle_bk0 now f (w : W) f' w' :
  receive_all_telegrams A (active_idle_telegram A now) f w = Ok (f', w') -> bk0 now f w f' w'.
Proof.
  unfold receive_all_telegrams. intros H.
  destruct (receive_all _ _ (f, w) (w_rx w)) as [[[s1 rest] r]| |] eqn:Er; cbn [bind] in H; try discriminate H.
  destruct s1 as [f1 w1]. injection H as <- <-.
  destruct (receive_all_suffix _ _ _ _ _ _ _ Er) as [k Ek].
  assert (HI : (w_rx w = [] /\ (f1, w1) = (f, w)) \/ (w_rx w <> [] /\ LI0 now f w (fst (f1, w1)) (snd (f1, w1)))).
  { refine (receive_all_inv_ne (fun s => LI0 now f w (fst s) (snd s)) _ _ _ (f, w) _ (f1, w1) rest r _ Er).
    - intros s t l s' u Hp Hc. exact (active_idle_telegram_LI0 _ _ _ _ _ _ _ _ Hp Hc).
    - apply LI0_refl. }
  exact (loop_end_bk0 now f w f1 w1 rest k HI Ek).
Qed.

(* ---- do_listen_token / do_active_idle ---- *)

Lemma do_listen_token_bk now f (w : W) f' w' :
  do_listen_token A f now w = Ok (f', w') -> w_tx w = None -> bk now f w f' w'.
Proof.
  unfold do_listen_token. intros H Hw.
  destruct (assert_entry DoListenToken f); cbn [bind] in H; try discriminate H.
  destruct (handle_lost_token A f now w) as [[[f0 w0] d]| |] eqn:Eh; cbn [bind] in H; try discriminate H.
  pose proof (handle_lost_token_bk now _ _ _ _ _ Eh Hw) as Hh.
  destruct d; [injection H as <- <-; exact Hh|]. destruct Hh as (B0 & _).
  assert (Hw0 : w_tx w0 = None) by (destruct B0 as (T & _); congruence).
  destruct (get_listen_token (f_state f0)) as [[sr cc]| |]; cbn [bind] in H; try discriminate H.
  destruct sr as [src|].
  - destruct (wait_synchronization_pause f0 now) as [[f1 wait]| |] eqn:Ew; cbn [bind] in H; try discriminate H.
    destruct (wait_sync_bk0 now f0 f1 wait w0 Ew) as (B1 & _).
    destruct wait.
    { injection H as <- <-. apply bk0_bk; [exact Hw|]. eapply bk0_trans; [exact B0|].
      eapply bk0_trans; [exact B1|apply bk0_frame; reflexivity]. }
    destruct (phy_send A w0 _) as [[w1 k]| |] eqn:Ep; cbn [bind] in H; try discriminate H.
    match type of H with bind ?x _ = _ => destruct x as [[f2 w2]| |] eqn:E2 end; cbn [bind] in H; try discriminate H.
    destruct (mark_tx f2 now k) as [f3| |] eqn:Em; cbn [bind] in H; try discriminate H.
    injection H as <- <-.
    eapply bk_after_bk0; [eapply bk0_trans; [exact B0|exact B1]|]. apply txs_bk.
    assert (H2 : frm f1 (note A w1 (if ready_for_ring (f_ring f1) && (src =? r_ps (f_ring f1)) then TLtReplyReady else TLtReplyNotReady)) f2 w2).
    { destruct (ready_for_ring (f_ring f1)).
      - apply trans_frm in E2. exact E2.
      - destruct (get_listen_token (f_state f1)) as [[sr1 cc1]| |]; cbn [bind] in E2; try discriminate E2.
        injection E2 as <- <-. unfold frm. cbn. tauto. }
    destruct H2 as (T2 & R2 & L2 & P2 & Q2). cbn [w_tx w_rx note] in T2, R2.
    eapply send_mark; try eassumption.
  - exact (bk_after_bk0 _ _ _ _ _ _ _ B0 (receive_all_telegrams_listen_bk now _ _ _ _ H Hw0)).
Qed.

Lemma do_active_idle_bk now f (w : W) f' w' :
  do_active_idle A f now w = Ok (f', w') -> w_tx w = None -> bk now f w f' w'.
Proof.
  unfold do_active_idle. intros H Hw.
  destruct (assert_entry DoActiveIdle f); cbn [bind] in H; try discriminate H.
  destruct (handle_lost_token A f now w) as [[[f0 w0] d]| |] eqn:Eh; cbn [bind] in H; try discriminate H.
  pose proof (handle_lost_token_bk now _ _ _ _ _ Eh Hw) as Hh.
  destruct d; [injection H as <- <-; exact Hh|]. destruct Hh as (B0 & _).
  assert (Hw0 : w_tx w0 = None) by (destruct B0 as (T & _); congruence).
  destruct (get_active_idle (f_state f0)) as [[[sr nps] cc]| |]; cbn [bind] in H; try discriminate H.
  destruct sr as [src|].
  - destruct (wait_synchronization_pause f0 now) as [[f1 wait]| |] eqn:Ew; cbn [bind] in H; try discriminate H.
    destruct (wait_sync_bk0 now f0 f1 wait w0 Ew) as (B1 & _).
    destruct wait.
    { injection H as <- <-. apply bk0_bk; [exact Hw|]. eapply bk0_trans; [exact B0|].
      eapply bk0_trans; [exact B1|apply bk0_frame; reflexivity]. }
    destruct (phy_send A w0 _) as [[w1 k]| |] eqn:Ep; cbn [bind] in H; try discriminate H.
    match type of H with bind (mark_tx ?fx now k) _ = _ => destruct (mark_tx fx now k) as [f3| |] eqn:Em end; cbn [bind] in H; try discriminate H.
    injection H as <- <-.
    eapply bk_after_bk0; [eapply bk0_trans; [exact B0|exact B1]|]. apply txs_bk.
    eapply send_mark; try eassumption; reflexivity.
  - apply bk0_bk; [exact Hw|]. eapply bk0_trans; [exact B0|]. exact (receive_all_telegrams_idle_bk0 now _ _ _ _ H).
Qed.

(* ---- token passing ---- *)

Lemma frm_txs now f (w : W) f1 w1 f2 w2 : frm f w f1 w1 -> txs now f1 w1 f2 w2 -> txs now f w f2 w2.
Proof.
  intros (T & R & L & P & Q) (Hn & wire & T2 & R2 & L2 & P2 & Q2). split; [congruence|]. exists wire.
  split; [exact T2|]. split; [congruence|]. split; [rewrite <- Q; exact L2|]. split; congruence.
Qed.

Lemma txs_frm now f (w : W) f1 w1 f2 w2 : txs now f w f1 w1 -> frm f1 w1 f2 w2 -> txs now f w f2 w2.
Proof. intros H (T & R & L & P & Q). eapply txs_frame; eassumption. Qed.

Lemma do_pass_token_bk now f (w : W) f' w' :
  do_pass_token A f now w = Ok (f', w') -> w_tx w = None -> bk now f w f' w'.
Proof.
  unfold do_pass_token. intros H Hw.
  destruct (assert_entry DoPassToken f); cbn [bind] in H; try discriminate H.
  destruct (wait_synchronization_pause f now) as [[f1 wait]| |] eqn:Ew; cbn [bind] in H; try discriminate H.
  destruct (wait_sync_bk0 now f f1 wait w Ew) as (B1 & _).
  destruct wait.
  { injection H as <- <-. apply bk0_bk; [exact Hw|]. eapply bk0_trans; [exact B1|apply bk0_frame; reflexivity]. }
  destruct (get_pass_token (f_state f1)) as [[do_gap att]| |]; cbn [bind] in H; try discriminate H.
  match type of H with bind ?x _ = _ => destruct x as [[[f2 w2] polled]| |] eqn:Eg end; cbn [bind] in H; try discriminate H.
  (* the GAP step: frame steps, then possibly the request *)
  assert (Hg : match polled with
               | Some _ => exists fa wa, frm f1 w fa wa /\ txs now fa wa f2 w2
               | None => frm f1 w f2 w2
               end).
  { destruct do_gap.
    - match type of Eg with bind ?x _ = _ => destruct x as [[fa wa]| |] eqn:Ea end; cbn [bind] in Eg; try discriminate Eg.
      assert (Hfa : frm f1 w fa wa).
      { destruct (f_gap f1) as [rc|cur].
        - destruct (p_gap_wait (f_p f1) <? rc).
          + unfold next_gap_poll_traced in Ea. destruct (next_gap_poll f1 (ts f1)); cbn [bind] in Ea; try discriminate Ea.
            injection Ea as <- <-. unfold frm. cbn. tauto.
          + destruct (u8_add rc 1); cbn [bind] in Ea; try discriminate Ea. injection Ea as <- <-. unfold frm. cbn. tauto.
        - unfold next_gap_poll_traced in Ea. destruct (next_gap_poll f1 cur); cbn [bind] in Ea; try discriminate Ea.
          injection Ea as <- <-. unfold frm. cbn. tauto. }
      destruct (transmit_gap_bk now _ _ _ _ _ Eg) as (_ & Ht). destruct polled.
      + exists fa, wa. split; assumption.
      + destruct Ht as (-> & ->). exact Hfa.
    - injection Eg as <- <- <-. apply frm_refl. }
  destruct polled as [pa|].
  - destruct Hg as (fa & wa & Hfa & Htx).
    apply trans_frm in H. eapply bk_after_bk0; [exact B1|]. apply txs_bk.
    eapply txs_frm; [eapply frm_txs; eassumption|exact H].
  - destruct (phy_send A w2 _) as [[w3 k]| |] eqn:Ep; cbn [bind] in H; try discriminate H.
    destruct (witness _ _ _) as [r| |]; cbn [bind] in H; try discriminate H.
    match type of H with bind ?x _ = _ => destruct x as [[f4 w4]| |] eqn:E4 end; cbn [bind] in H; try discriminate H.
    destruct (mark_tx f4 now k) as [f5| |] eqn:Em; cbn [bind] in H; try discriminate H.
    injection H as <- <-.
    assert (H4 : exists t0, frm (set_ring f2 r) (note A w3 t0) f4 w4).
    { destruct (r_ns (f_ring (set_ring f2 r)) =? ts (set_ring f2 r)).
      - eexists. apply trans_frm in E4. exact E4.
      - destruct (get_pass_token _) as [[g2 a2]| |]; cbn [bind] in E4; try discriminate E4.
        eexists. apply trans_frm in E4. exact E4. }
    destruct H4 as (t0 & T4 & R4 & L4 & P4 & Q4). cbn in T4, R4, L4, P4, Q4.
    eapply bk_after_bk0; [exact B1|]. apply txs_bk. eapply frm_txs; [exact Hg|].
    eapply send_mark; try eassumption.
Qed.

Lemma do_await_status_response_bk now f (w : W) f' w' :
  do_await_status_response A f now w = Ok (f', w') -> w_tx w = None -> bk now f w f' w'.
Proof.
  unfold do_await_status_response. intros H Hw.
  destruct (assert_entry DoAwaitStatusResponse f); cbn [bind] in H; try discriminate H.
  destruct (get_await_status_response_address (f_state f)) as [a0| |]; cbn [bind] in H; try discriminate H.
  destruct (await_gap_poll_response A f now w a0) as [[[f1 w1] r]| |] eqn:Ea; cbn [bind] in H; try discriminate H.
  destruct (await_gap_bk0 now _ _ _ _ _ _ Ea) as (B1 & _).
  assert (Hw1 : w_tx w1 = None) by (destruct B1 as (T & _); congruence).
  destruct r.
  - injection H as <- <-. apply bk0_bk; assumption.
  - destruct (trans A f1 w1 _) as [[f2 w2]| |] eqn:Et; cbn [bind] in H; try discriminate H.
    apply trans_frm in Et.
    assert (Hw2 : w_tx w2 = None) by (destruct Et as (T & _); congruence).
    eapply bk_after_bk0; [exact B1|]. eapply bk_after_bk0; [apply frm_bk0; exact Et|].
    exact (do_pass_token_bk now _ _ _ _ H Hw2).
  - apply trans_frm in H. apply bk0_bk; [exact Hw|]. eapply bk0_trans; [exact B1|apply frm_bk0; exact H].
  - apply trans_frm in H. apply bk0_bk; [exact Hw|]. eapply bk0_trans; [exact B1|apply frm_bk0; exact H].
Qed.

Lemma do_check_token_pass_bk now f (w : W) f' w' :
  do_check_token_pass A f now w = Ok (f', w') -> w_tx w = None -> bk now f w f' w'.
Proof.
  unfold do_check_token_pass. intros H Hw.
  destruct (assert_entry DoCheckTokenPass f); cbn [bind] in H; try discriminate H.
  destruct (check_slot_expired f now) as [[f1 expired]| |] eqn:Ec; cbn [bind] in H; try discriminate H.
  destruct (check_slot_bk0 now f f1 expired w Ec) as (B1 & _).
  destruct expired.
  - destruct (get_check_token_pass_attempt (f_state f1)) as [att| |]; cbn [bind] in H; try discriminate H.
    match type of H with bind ?x _ = _ => destruct x as [[f2 w2]| |] eqn:E2 end; cbn [bind] in H; try discriminate H.
    assert (H2 : frm f1 w f2 w2).
    { destruct (check_pass_removes att).
      - destruct (remove_station _ _); cbn [bind] in E2; try discriminate E2. injection E2 as <- <-. unfold frm. cbn. tauto.
      - injection E2 as <- <-. unfold frm. cbn. tauto. }
    destruct (trans A f2 w2 _) as [[f3 w3]| |] eqn:Et; cbn [bind] in H; try discriminate H.
    apply trans_frm in Et.
    assert (Hw3 : w_tx w3 = None) by (destruct Et as (T & _); destruct H2 as (T2 & _); congruence).
    eapply bk_after_bk0; [exact B1|]. eapply bk_after_bk0; [apply frm_bk0; eapply frm_trans; eassumption|].
    exact (do_pass_token_bk now _ _ _ _ H Hw3).
  - destruct (receive_all _ _ (f1, w, true) (w_rx w)) as [[[s1 rest] r]| |] eqn:Er; cbn [bind] in H; try discriminate H.
    destruct s1 as [[f2 w2] fi]. injection H as <- <-.
    destruct (receive_all_suffix _ _ _ _ _ _ _ Er) as [k Ek].
    assert (HI : (w_rx w = [] /\ (f2, w2, fi) = (f1, w, true)) \/
                 (w_rx w <> [] /\ LI0 now f1 w (fst (fst (f2, w2, fi))) (snd (fst (f2, w2, fi))))).
    { refine (receive_all_inv_ne (fun s => LI0 now f1 w (fst (fst s)) (snd (fst s))) _ _ _ (f1, w, true) _ (f2, w2, fi) rest r _ Er).
      - intros s t l s' u Hp Hc. exact (check_token_pass_telegram_LI0 _ _ _ _ _ _ _ _ Hp Hc).
      - apply LI0_refl. }
    cbn [fst snd] in HI. apply bk0_bk; [exact Hw|]. eapply bk0_trans; [exact B1|].
    destruct HI as [(E & Es)|(Hne & HI)].
    + injection Es as -> -> ->.
      eapply bk0_trans; [|apply (loop_end_bk0 now f1 (note A w TCheckAwait) f1 (note A w TCheckAwait) rest k);
                           [left; split; [exact E|reflexivity]|exact Ek]].
      apply bk0_frame; reflexivity.
    + assert (HI' : LI0 now f1 w f2 (if fi then note A w2 TCheckAwait else w2)).
      { destruct fi; [|exact HI]. destruct HI as (T & R & Q & L). split; [exact T|]. split; [exact R|]. split; assumption. }
      apply (loop_end_bk0 now f1 w f2 _ rest k); [right; split; assumption|exact Ek].
Qed.

(* ---- applications and token use ---- *)

Lemma app_transmit_bk now f (w : W) idx app hp f' w' d :
  app_transmit_telegram A ops f now w idx app hp = Ok (f', w', d) ->
  if d then w_tx w = None -> txs now f w f' w' else frm f w f' w'.
Proof.
  unfold app_transmit_telegram.
  destruct (a_tx ops app now (f_p f) hp) as [[app' r]| |]; cbn [bind]; try discriminate.
  destruct r as [[wire er]|].
  - match goal with |- bind (phy_transmit A ?wx wire) _ = _ -> _ => set (w1 := wx) end.
    unfold phy_transmit. destruct (w_tx w1) eqn:Et1; cbn [bind]; [discriminate|].
    match goal with |- bind ?x _ = _ -> _ => destruct x as [[f1 w3]| |] eqn:E1 end; cbn [bind]; try discriminate.
    destruct (mark_tx f1 now (length wire)) as [f2| |] eqn:Em; cbn [bind]; try discriminate.
    intros H. injection H as <- <- <-. intros Hw. apply mark_tx_spec in Em. subst f2.
    assert (H1 : f_lba f1 = f_lba f /\ f_pending f1 = f_pending f /\ f_p f1 = f_p f /\ w_tx w3 = Some wire /\ w_rx w3 = w_rx w).
    { destruct er as [addr|].
      - destruct (get_use_token (f_state f)) as [[[tk fa] fcd]| |]; cbn [bind] in E1; try discriminate E1.
        apply trans_frm in E1. destruct E1 as (T & R & L & P & Q). cbn in T, R. subst w1. cbn in R. tauto.
      - injection E1 as <- <-. subst w1. cbn. tauto. }
    destruct H1 as (L1 & P1 & Q1 & T3 & R3).
    split; [exact Hw|]. exists wire. cbn. rewrite Q1. tauto.
  - intros H. injection H as <- <- <-. unfold frm. cbn. tauto.
Qed.

Lemma schedule_next_frm f k f' c (w : W) : schedule_next_application f k = Ok (f', c) -> frm f w f' w.
Proof.
  unfold schedule_next_application. destruct (get_use_token (f_state f)) as [[[tk fa] fcd]| |]; cbn [bind]; try discriminate.
  destruct (Nat.eqb k 0); [discriminate|]. intros H. injection H as <- _. unfold frm. cbn. tauto.
Qed.

Lemma apps_loop_bk now : forall k f (w : W) hp f' w' d,
  apps_transmit_loop A ops k f now w hp = Ok (f', w', d) ->
  if d then w_tx w = None -> txs now f w f' w' else frm f w f' w'.
Proof.
  induction k as [|k IH]; intros f w hp f' w' d H; cbn [apps_transmit_loop] in H.
  - injection H as <- <- <-. apply frm_refl.
  - destruct (nth_error (w_apps w) (f_next_app f)) as [app|]; [|discriminate H].
    destruct (app_transmit_telegram A ops f now w (f_next_app f) app hp) as [[[f1 w1] d1]| |] eqn:Ea; cbn [bind] in H; try discriminate H.
    pose proof (app_transmit_bk now _ _ _ _ _ _ _ _ Ea) as Ha.
    destruct d1; [injection H as <- <- <-; exact Ha|].
    destruct (schedule_next_application f1 _) as [[f2 c]| |] eqn:Es; cbn [bind] in H; try discriminate H.
    pose proof (schedule_next_frm _ _ _ _ w1 Es) as Hs.
    destruct c.
    + injection H as <- <- <-. eapply frm_trans; [exact Ha|]. eapply frm_trans; [exact Hs|]. unfold frm. cbn. tauto.
    + apply IH in H. destruct d.
      * intros Hw. eapply frm_txs; [eapply frm_trans; eassumption|]. apply H.
        destruct Ha as (T & _). destruct Hs as (T2 & _). congruence.
      * eapply frm_trans; [exact Ha|]. eapply frm_trans; eassumption.
Qed.

Lemma set_first_cycle_done_frm f f' (w : W) : set_first_cycle_done f = Ok f' -> frm f w f' w.
Proof.
  unfold set_first_cycle_done. destruct (get_use_token (f_state f)) as [[[tk fa] fcd]| |]; cbn [bind]; try discriminate.
  intros H. injection H as <-. unfold frm. cbn. tauto.
Qed.

Lemma do_use_token_bk now f (w : W) f' w' :
  do_use_token A ops f now w = Ok (f', w') -> w_tx w = None -> bk now f w f' w'.
Proof.
  unfold do_use_token. intros H Hw.
  destruct (assert_entry DoUseToken f); cbn [bind] in H; try discriminate H.
  destruct (get_use_token (f_state f)) as [[[tk fa] fcd]| |]; cbn [bind] in H; try discriminate H.
  match type of H with bind ?x _ = _ => destruct x as [[f1 w1]| |] eqn:E1 end; cbn [bind] in H; try discriminate H.
  assert (H1 : frm f w f1 w1).
  { destruct (negb _).
    - destruct (inst_add _ _) as [e| |]; cbn [bind] in E1; try discriminate E1.
      destruct (f_gap f).
      + injection E1 as <- <-. unfold frm. cbn. tauto.
      + destruct (inst_sub_dur _ _) as [e2| |]; cbn [bind] in E1; try discriminate E1.
        injection E1 as <- <-. unfold frm. cbn. tauto.
    - injection E1 as <- <-. apply frm_refl. }
  destruct (wait_synchronization_pause f1 now) as [[f2 wait]| |] eqn:Ew; cbn [bind] in H; try discriminate H.
  destruct (wait_sync_bk0 now f1 f2 wait w1 Ew) as (B2 & _).
  assert (B12 : bk0 now f w f2 w1) by (eapply bk0_trans; [apply frm_bk0; exact H1|exact B2]).
  assert (Hw1 : w_tx w1 = None) by (destruct H1 as (T & _); congruence).
  destruct wait.
  { injection H as <- <-. apply bk0_bk; [exact Hw|]. eapply bk0_trans; [exact B12|apply bk0_frame; reflexivity]. }
  destruct (get_use_token (f_state f2)) as [[[tk2 fa2] fcd2]| |]; cbn [bind] in H; try discriminate H.
  match type of H with bind ?x _ = _ => destruct x as [[[f3 w3] done]| |] eqn:E3 end; cbn [bind] in H; try discriminate H.
  assert (H3 : if done then txs now f2 w1 f3 w3 else frm f2 w1 f3 w3).
  { destruct (now <? f_end_tht f2).
    - destruct (set_first_cycle_done f2) as [f2'| |] eqn:Es; cbn [bind] in E3; try discriminate E3.
      pose proof (set_first_cycle_done_frm _ _ w1 Es) as Hs.
      unfold apps_transmit_telegram in E3. apply apps_loop_bk in E3. destruct done.
      + eapply frm_txs; [eapply frm_trans; [exact Hs|]|apply E3; exact Hw1]. unfold frm. cbn. tauto.
      + eapply frm_trans; [exact Hs|]. eapply frm_trans; [|exact E3]. unfold frm. cbn. tauto.
    - destruct (negb fcd2).
      + destruct (set_first_cycle_done f2) as [f2'| |] eqn:Es; cbn [bind] in E3; try discriminate E3.
        pose proof (set_first_cycle_done_frm _ _ w1 Es) as Hs.
        unfold apps_transmit_telegram in E3. apply apps_loop_bk in E3. destruct done.
        * eapply frm_txs; [eapply frm_trans; [exact Hs|]|apply E3; exact Hw1]. unfold frm. cbn. tauto.
        * eapply frm_trans; [exact Hs|]. eapply frm_trans; [|exact E3]. unfold frm. cbn. tauto.
      + injection E3 as <- <- <-. unfold frm. cbn. tauto. }
  destruct done.
  - injection H as <- <-. eapply bk0_txs; eassumption.
  - destruct (trans A f3 w3 _) as [[f4 w4]| |] eqn:Et; cbn [bind] in H; try discriminate H.
    apply trans_frm in Et.
    assert (Hw4 : w_tx w4 = None) by (destruct Et as (T & _); destruct H3 as (T3 & _); congruence).
    eapply bk_after_bk0; [exact B12|]. eapply bk_after_bk0; [apply frm_bk0; eapply frm_trans; eassumption|].
    exact (do_pass_token_bk now _ _ _ _ H Hw4).
Qed.

Lemma do_await_data_response_bk now f (w : W) f' w' :
  do_await_data_response A ops f now w = Ok (f', w') -> w_tx w = None -> bk now f w f' w'.
Proof.
  unfold do_await_data_response. intros H Hw.
  destruct (assert_entry DoAwaitDataResponse f); cbn [bind] in H; try discriminate H.
  destruct (get_await_data_response (f_state f)) as [[[addr tk] fa]| |]; cbn [bind] in H; try discriminate H.
  destruct (nth_error (w_apps w) (f_next_app f)) as [app|]; [|discriminate H].
  destruct (receive_telegram (fun t => t) (w_rx w)) as [[rest received]| |] eqn:Er; cbn [bind] in H; try discriminate H.
  destruct (receive_telegram_suffix _ _ _ _ Er) as [k Ek].
  destruct (mark_rx_spec f now) as (ML & MP & MS & MQ & _).
  destruct received as [t|].
  - pose proof (receive_telegram_some _ _ _ _ Er) as Hne.
    destruct (is_valid_response (mark_rx f now) addr t).
    + destruct (a_rx ops app now _ addr t) as [app'| |]; cbn [bind] in H; try discriminate H.
      match type of H with bind ?x _ = _ => destruct x as [[f2 w2]| |] eqn:E2 end; cbn [bind] in H; try discriminate H.
      destruct (set_first_cycle_done f2) as [f3| |] eqn:Es; cbn [bind] in H; try discriminate H.
      injection H as <- <-. apply trans_frm in E2. pose proof (set_first_cycle_done_frm _ _ w2 Es) as Hs.
      destruct E2 as (T & R & L & P & Q). destruct Hs as (_ & _ & L3 & P3 & Q3). cbn in T, R, L, P, Q.
      apply bk0_bk; [exact Hw|]. eapply bk0_received with (k := k).
      * exact Hne.
      * rewrite T. reflexivity.
      * rewrite R. exact Ek.
      * rewrite L3, L. reflexivity.
      * rewrite P3, P, MP. reflexivity.
      * rewrite Q3, Q, MQ. reflexivity.
    + apply trans_frm in H. destruct H as (T & R & L & P & Q). cbn in T, R.
      apply bk0_bk; [exact Hw|]. eapply bk0_received with (k := k).
      * exact Hne.
      * rewrite T. reflexivity.
      * rewrite R. exact Ek.
      * exact L.
      * rewrite P. exact MP.
      * rewrite Q. exact MQ.
  - match type of H with context [check_slot_expired ?fx now] => destruct (check_slot_expired fx now) as [[f1 expired]| |] eqn:Ec end;
      cbn [bind] in H; try discriminate H.
    match type of Ec with check_slot_expired ?fx now = _ => set (f0 := fx) in * end.
    match type of H with context [set_rx A ?wx rest] => set (w0 := set_rx A wx rest) in * end.
    destruct (check_slot_bk0 now f0 f1 expired w0 Ec) as (Hb & _).
    assert (H0 : bk0 now f w f0 w0).
    { split; [subst w0; destruct (Nat.ltb _ _); reflexivity|]. split; [exists k; subst w0; cbn; exact Ek|].
      split; [intros _; subst f0 w0; cbn; apply Nat.le_min_r|]. split; [reflexivity|]. apply lba_moves_refl. }
    assert (Hw0 : w_tx w0 = None) by (subst w0; destruct (Nat.ltb _ _); exact Hw).
    assert (B01 : bk0 now f w f1 w0) by (eapply bk0_trans; eassumption).
    clearbody w0 f0.
    destruct expired.
    + destruct (a_to ops app now _ addr) as [app'| |]; cbn [bind] in H; try discriminate H.
      match type of H with bind ?x _ = _ => destruct x as [[f2 w2]| |] eqn:E2 end; cbn [bind] in H; try discriminate H.
      destruct (set_first_cycle_done f2) as [f3| |] eqn:Es; cbn [bind] in H; try discriminate H.
      apply trans_frm in E2. pose proof (set_first_cycle_done_frm _ _ w2 Es) as Hs.
      assert (Hw2 : w_tx w2 = None) by (destruct E2 as (T & _); cbn in T; congruence).
      eapply bk_after_bk0; [exact B01|]. eapply bk_after_bk0; [|exact (do_use_token_bk now _ _ _ _ H Hw2)].
      eapply bk0_trans; [|apply frm_bk0; exact Hs]. eapply bk0_trans; [|apply frm_bk0; exact E2].
      apply bk0_frame; reflexivity.
    + injection H as <- <-. apply bk0_bk; [exact Hw|]. eapply bk0_trans; [exact B01|apply bk0_frame; reflexivity].
Qed.

(* ---- the dispatch, poll_inner, poll ---- *)

Lemma dispatch_bk now f (w : W) f' w' :
  dispatch A ops f now w = Ok (f', w') -> w_tx w = None -> bk now f w f' w'.
Proof.
  unfold dispatch. intros H Hw.
  destruct (poll_dispatch (kind_of (f_state f))) as [ | |[ | | | | | | | ]]; try discriminate H.
  - exact (do_listen_token_bk now _ _ _ _ H Hw).
  - exact (do_active_idle_bk now _ _ _ _ H Hw).
  - exact (do_claim_token_bk now _ _ _ _ H Hw).
  - exact (do_use_token_bk now _ _ _ _ H Hw).
  - exact (do_await_data_response_bk now _ _ _ _ H Hw).
  - exact (do_pass_token_bk now _ _ _ _ H Hw).
  - exact (do_await_status_response_bk now _ _ _ _ H Hw).
  - exact (do_check_token_pass_bk now _ _ _ _ H Hw).
Qed.

Definition saw_activity (f : fdl) (busy : bool) (w : W) : Prop :=
  busy = true \/ (f_pending f < length (w_rx w))%nat.

(* what a whole poll does to the bookkeeping; mk = the PHY was busy or the receive buffer was not empty *)
Definition pbk (now : Z) (busy : bool) (f : fdl) (w : W) (f' : fdl) (w' : W) : Prop :=
  suffix_rx w w' /\
  ((f_pending f <= length (w_rx w))%nat -> (f_pending f' <= length (w_rx w'))%nat) /\
  f_p f' = f_p f /\
  match w_tx w' with
  | Some wire => f_lba f' = Some (now + dur (f_p f) (length wire))
  | None => lba_moves (busy = true \/ w_rx w <> []) now (f_lba f) (f_lba f') \/
            (rst now f' /\ forall l, f_lba f = Some l -> l < now)
  end.

Lemma poll_inner_bk now f busy (w : W) f' w' :
  poll_inner ops f now busy w = Ok (f', w') -> w_tx w = None ->
  pbk now busy f w f' w' /\
  (w_tx w' <> None -> busy = false /\ (length (w_rx w) <= f_pending f)%nat /\ lba_ok f now) /\
  (f_conn f <> ConnOffline -> saw_activity f busy w ->
     w_tx w' = None /\ (f_lba f' = Some (Z.max (gv now (f_lba f)) now) \/ rst now f')).
Proof.
  unfold poll_inner. intros E Hw.
  match type of E with bind ?r _ = _ => destruct r as [[[f2 w2] off]| |] eqn:Ep end; cbn [bind] in E; try discriminate E.
  assert (Hp : frm f w f2 w2 /\ f_conn f2 = f_conn f /\ (off = true -> f_conn f = ConnOffline)).
  { destruct (f_conn f) eqn:Ec.
    - destruct (f_state f); try discriminate Ep. injection Ep as <- <- <-. split; [apply frm_refl|]. split; [exact Ec|reflexivity].
    - destruct (passive_entry_kind _).
      + match type of Ep with context [trans A ?a ?b ?c] => destruct (trans A a b c) as [[fx wx]| |] eqn:Et end; cbn [bind] in Ep; try discriminate Ep.
        injection Ep as <- <- <-. pose proof (trans_frm _ _ _ _ _ Et) as Hf. apply trans_spec in Et. destruct Et as (s' & _ & -> & _).
        split; [exact Hf|]. split; [exact Ec|discriminate].
      + injection Ep as <- <- <-. split; [apply frm_refl|]. split; [exact Ec|discriminate].
    - destruct (online_entry_kind _).
      + match type of Ep with context [trans A ?a ?b ?c] => destruct (trans A a b c) as [[fx wx]| |] eqn:Et end; cbn [bind] in Ep; try discriminate Ep.
        injection Ep as <- <- <-. pose proof (trans_frm _ _ _ _ _ Et) as Hf. apply trans_spec in Et. destruct Et as (s' & _ & -> & _).
        split; [exact Hf|]. split; [exact Ec|discriminate].
      + injection Ep as <- <- <-. split; [apply frm_refl|]. split; [exact Ec|discriminate]. }
  destruct Hp as (Hf2 & Hc2 & Hoff). pose proof Hf2 as (T2 & R2 & L2 & P2 & Q2).
  assert (Hw2 : w_tx w2 = None) by congruence.
  (* from a dispatch-level bk to pbk *)
  assert (Hlift : forall f3 w3, w_tx w3 = None -> suffix_rx w w3 ->
            ((f_pending f <= length (w_rx w))%nat -> (f_pending f3 <= length (w_rx w3))%nat) -> f_p f3 = f_p f ->
            lba_moves (busy = true \/ w_rx w <> []) now (f_lba f) (f_lba f3) ->
            (forall l, f_lba f = Some l -> l < now) ->
            bk now f3 w3 f' w' -> pbk now busy f w f' w').
  { intros f3 w3 T3 S3 P3 Q3 L3 Hpr (S & P & Q & L). split; [eapply suffix_rx_trans; eassumption|]. split; [auto|].
    split; [congruence|]. destruct (w_tx w') as [wire|]; [rewrite <- Q3; exact L|].
    destruct L as [L|R]; [left|right; split; [exact R|exact Hpr]].
    eapply lba_moves_trans; [exact L3|]. eapply lba_moves_weaken; [|exact L].
    intros Hne. right. exact (suffix_nonempty _ _ S3 Hne). }
  destruct off.
  { injection E as <- <-. split.
    - split; [apply suffix_rx_eq; exact R2|]. split; [rewrite P2, R2; auto|]. split; [exact Q2|].
      rewrite Hw2. left. rewrite L2. apply lba_moves_refl.
    - split; [intros C; rewrite Hw2 in C; contradiction|]. intros C. exfalso. exact (C (Hoff eq_refl)). }
  unfold check_for_ongoing_transmision in E.
  destruct (mark_bus_activity_spec f2 now) as (ML & MP & MS & MQ & MC).
  assert (HML : f_lba (mark_bus_activity f2 now) = Some (Z.max (gv now (f_lba f)) now)) by (rewrite ML, L2; reflexivity).
  match type of E with context [if ?c then (_, _, true) else _] => destruct c eqn:Eong end.
  { injection E as <- <-. split.
    - split; [apply suffix_rx_eq; exact R2|]. split; [rewrite MP, P2; cbn [w_rx note]; rewrite R2; auto|].
      split; [congruence|]. cbn [w_tx note]. rewrite Hw2. left. rewrite HML.
      destruct busy; [right; right; split; [left; reflexivity|reflexivity]|].
      cbn [orb] in Eong. apply andb_prop in Eong. destruct Eong as (_ & Eong). rewrite L2 in Eong.
      destruct (f_lba f) as [l|]; [|discriminate Eong]. apply Z.leb_le in Eong. right. left. cbn [gv]. f_equal. lia.
    - split; [intros C; cbn in C; rewrite Hw2 in C; contradiction|].
      intros _ _. split; [cbn; exact Hw2|left; exact HML]. }
  apply orb_false_iff in Eong. destruct Eong as (Hbusy & Hpred).
  assert (Hpr : forall l, f_lba f = Some l -> l < now).
  { intros l El. rewrite L2, El in Hpred. cbn in Hpred. apply Z.leb_gt in Hpred. exact Hpred. }
  unfold check_for_bus_activity in E.
  destruct (Nat.ltb (f_pending f2) (length (w_rx w2))) eqn:Eact.
  - set (f3 := set_pending (mark_bus_activity f2 now) (length (w_rx w2))) in *.
    set (w3 := note A w2 TBusActivity) in *.
    apply Nat.ltb_lt in Eact.
    assert (Hne : w_rx w <> []) by (rewrite <- R2; intros C; rewrite C in Eact; cbn in Eact; lia).
    assert (Hw3 : w_tx w3 = None) by exact Hw2.
    assert (Hd : dispatch A ops f3 now w3 = Ok (f', w')) by exact E.
    pose proof (dispatch_bk now _ _ _ _ Hd Hw3) as Bd.
    assert (Hl3 : f_lba f3 = Some (Z.max (gv now (f_lba f)) now)) by (subst f3; cbn; exact HML).
    assert (Hntx : w_tx w' = None).
    { destruct (w_tx w') as [wire|] eqn:Et; [|reflexivity]. exfalso.
      assert (Hs : sends A w3 w') by (split; [exact Hw3|rewrite Et; discriminate]).
      destruct (dispatch_sync A ops _ _ _ _ _ Hd Hs) as (l3 & El3 & Hlt). rewrite Hl3 in El3. injection El3 as <-.
      pose proof (sync_nonneg f3). lia. }
    split.
    + apply (Hlift f3 w3 Hw3); [apply suffix_rx_eq; exact R2| | | |exact Hpr|exact Bd].
      * intros _. subst f3 w3. cbn. lia.
      * subst f3. cbn. congruence.
      * rewrite Hl3. right. right. split; [right; exact Hne|reflexivity].
    + split; [intros C; rewrite Hntx in C; contradiction|].
      intros _ _. split; [exact Hntx|].
      destruct Bd as (_ & _ & _ & Bl). rewrite Hntx in Bl. destruct Bl as [Bl|Br]; [left|right; exact Br].
      rewrite Hl3 in Bl. unfold lba_moves in Bl. cbn [gv] in Bl.
      destruct Bl as [-> | [-> | (_ & ->)]]; f_equal; lia.
  - assert (Hd : dispatch A ops f2 now w2 = Ok (f', w')) by exact E.
    pose proof (dispatch_bk now _ _ _ _ Hd Hw2) as Bd.
    apply Nat.ltb_ge in Eact.
    split.
    + apply (Hlift f2 w2 Hw2); [apply suffix_rx_eq; exact R2| | | |exact Hpr|exact Bd].
      * rewrite P2, R2. auto.
      * exact Q2.
      * rewrite L2. apply lba_moves_refl.
    + split.
      * intros C. split; [exact Hbusy|]. split; [rewrite <- R2, <- P2; exact Eact|].
        assert (Hs : sends A w2 w') by (split; assumption).
        destruct (dispatch_sync A ops _ _ _ _ _ Hd Hs) as (l2 & El2 & Hlt). exists l2. rewrite <- L2, <- Q2. split; assumption.
      * intros _ [C|C]; [rewrite C in Hbusy; discriminate|]. exfalso. rewrite R2, P2 in Eact. lia.
Qed.

Theorem poll_bk now f pin (apps : list A) f' o apps' calls :
  poll ops f now pin apps = Ok (f', o, apps', calls) ->
  (exists k, rx_left o = skipn k (rx pin)) /\
  ((f_pending f <= length (rx pin))%nat -> (f_pending f' <= length (rx_left o))%nat) /\
  f_p f' = f_p f /\
  match tx o with
  | Some wire => f_lba f' = Some (now + dur (f_p f) (length wire)) /\ tx_busy pin = false /\
                 (length (rx pin) <= f_pending f)%nat /\ lba_ok f now
  | None => lba_moves (tx_busy pin = true \/ rx pin <> []) now (f_lba f) (f_lba f') \/
            (rst now f' /\ forall l, f_lba f = Some l -> l < now)
  end /\
  (f_conn f <> ConnOffline -> tx_busy pin = true \/ (f_pending f < length (rx pin))%nat ->
     tx o = None /\ (f_lba f' = Some (Z.max (gv now (f_lba f)) now) \/ rst now f')).
Proof.
  unfold poll, poll_traced. intros H.
  destruct (poll_inner ops f now (tx_busy pin) (mkWorld (rx pin) None apps [] [])) as [[f1 w1]| |] eqn:E; cbn [bind] in H; try discriminate H.
  injection H as <- <- <- <-. cbn [tx rx_left].
  destruct (poll_inner_bk now _ _ _ _ _ E eq_refl) as ((S & P & Q & L) & Htx & Hact). cbn [w_rx w_tx] in *.
  split; [exact S|]. split; [exact P|]. split; [exact Q|]. split; [|exact Hact].
  destruct (w_tx w1) as [wire|] eqn:Et; [|exact L].
  destruct (Htx ltac:(discriminate)) as (H1 & H2 & H3). tauto.
Qed.

(* ---- a station that comes online records its first instant of bus activity ---- *)

Lemma goi_idem f now l f0 : lba_get_or_insert f now = (l, f0) -> lba_get_or_insert f0 now = (l, f0).
Proof.
  unfold lba_get_or_insert. destruct (f_lba f) as [l0|] eqn:E; intros H; injection H as <- <-.
  - rewrite E. reflexivity.
  - cbn. reflexivity.
Qed.

Lemma do_listen_token_goi f now (w : W) l f0 :
  lba_get_or_insert f now = (l, f0) -> do_listen_token A f0 now w = do_listen_token A f now w.
Proof.
  intros E. pose proof (goi_idem _ _ _ _ E) as E0. pose proof (lba_get_or_insert_same _ _ _ _ E) as ((_ & _ & _ & _ & Hs & _) & _).
  unfold do_listen_token, assert_entry, handle_lost_token. rewrite E, E0, Hs. reflexivity.
Qed.

Lemma do_listen_token_lba_some now f (w : W) f' w' :
  do_listen_token A f now w = Ok (f', w') -> w_tx w = None -> f_lba f' <> None \/ rst now f'.
Proof.
  intros H Hw. destruct (lba_get_or_insert f now) as [l f0] eqn:E.
  rewrite <- (do_listen_token_goi _ _ _ _ _ E) in H.
  pose proof (lba_get_or_insert_same _ _ _ _ E) as (_ & Hl & _).
  destruct (do_listen_token_bk now _ _ _ _ H Hw) as (_ & _ & _ & L).
  destruct (w_tx w') as [wire|]; [left; rewrite L; discriminate|].
  destruct L as [L|R]; [left|right; exact R]. rewrite Hl in L.
  destruct L as [-> | [-> | (_ & ->)]]; discriminate.
Qed.

Lemma poll_online_lba_some now f pin (apps : list A) f' o apps' calls :
  poll ops f now pin apps = Ok (f', o, apps', calls) ->
  f_conn f = ConnOnline -> f_state f = Offline -> f_lba f = None ->
  f_lba f' <> None \/ rst now f'.
Proof.
  unfold poll, poll_traced. intros H Hc Hs Hl.
  destruct (poll_inner ops f now (tx_busy pin) (mkWorld (rx pin) None apps [] [])) as [[f1 w1]| |] eqn:E; cbn [bind] in H; try discriminate H.
  injection H as <- _ _ _. revert E. set (w := mkWorld (rx pin) None apps [] []).
  unfold poll_inner. rewrite Hc, Hs. cbn [kind_of online_entry_kind].
  unfold trans, transition_listen_token. rewrite Hs. unfold assert_kind. cbn [kind_of].
  change (may_transition_listen_token KOffline) with true. cbn [bind kind_of].
  set (f2 := set_st f (ListenToken None 0)). set (w2 := note A w _).
  unfold check_for_ongoing_transmision.
  destruct (mark_bus_activity_spec f2 now) as (ML & _ & MS & _).
  assert (Hl2 : f_lba f2 = None) by exact Hl. rewrite Hl2. rewrite andb_false_r, orb_false_r.
  destruct (tx_busy pin).
  { intros E. injection E as <- _. left. rewrite ML. discriminate. }
  unfold check_for_bus_activity.
  destruct (Nat.ltb (f_pending f2) (length (w_rx w2))).
  - cbn [kind_of f_state set_pending]. rewrite MS.
    cbn [f2 f_state set_st kind_of poll_dispatch]. intros E.
    destruct (do_listen_token_bk now _ _ _ _ E eq_refl) as (_ & _ & _ & L).
    destruct (w_tx w1) as [wire|]; [left; rewrite L; discriminate|].
    destruct L as [L|R]; [left|right; exact R]. cbn [f_lba set_pending] in L. rewrite ML in L.
    destruct L as [-> | [-> | (_ & ->)]]; discriminate.
  - cbn [f2 f_state set_st kind_of poll_dispatch]. intros E. exact (do_listen_token_lba_some now _ _ _ _ E eq_refl).
Qed.

End BK.

(* ------------------------------------------------------------------------------------------ *)
(* a poll of a station that is online ends in state Offline only by the re-creation (`rst`)      *)

Section OfflineEnd.
Variable A : Type.
Variable ops : app_ops A.
Notation W := (world A).

Definition early_claim (s : state) : Prop := s = ClaimToken StepFirstToken \/ s = ClaimToken StepSecondToken.

Lemma do_claim_token_first_state f now (w : W) f' w' :
  do_claim_token A f now w = Ok (f', w') -> f_state f = ClaimToken StepFirstToken -> early_claim (f_state f').
Proof.
  unfold do_claim_token, assert_entry. intros H Es. rewrite Es in H.
  cbn [kind_of do_fn_entry state_kind_eqb bind get_claim_token_step] in H.
  destruct (wait_synchronization_pause f now) as [[f1 wait]| |] eqn:Ew; cbn [bind] in H; try discriminate H.
  apply wait_sync_same in Ew. destruct Ew as ((_ & _ & _ & _ & Hs1 & _) & _).
  destruct wait; [injection H as <- <-; left; rewrite Hs1; exact Es|].
  destruct (phy_send A w _) as [[w1 k]| |]; cbn [bind] in H; try discriminate H.
  destruct (set_claim_step _ _) as [f2| |] eqn:Es2; cbn [bind] in H; try discriminate H.
  apply set_claim_step_spec' in Es2. subst f2.
  match type of H with bind (mark_tx ?fx now k) _ = _ => destruct (mark_tx fx now k) as [f4| |] eqn:Em end; cbn [bind] in H; try discriminate H.
  injection H as <- <-. apply mark_tx_same in Em. destruct Em as (_ & _ & _ & _ & Hs4 & _). right. rewrite Hs4. reflexivity.
Qed.

Lemma handle_lost_token_claims f now (w : W) f' w' :
  handle_lost_token A f now w = Ok (f', w', true) -> early_claim (f_state f').
Proof.
  unfold handle_lost_token. intros H.
  destruct (lba_get_or_insert f now) as [l f0]. destruct (inst_diff now l); cbn [bind] in H; try discriminate H.
  match type of H with (if ?c then _ else _) = _ => destruct c end; [|discriminate H].
  match type of H with context [trans A ?a ?b ?c] => destruct (trans A a b c) as [[f1 w1]| |] eqn:Et end; cbn [bind] in H; try discriminate H.
  apply trans_spec in Et. destruct Et as (s1 & Ht & -> & ->).
  unfold transition_claim_token in Ht. destruct (assert_kind _ _); cbn [bind] in Ht; try discriminate Ht. injection Ht as <-.
  destruct (do_claim_token A _ now _) as [[f2 w2]| |] eqn:Ed; cbn [bind] in H; try discriminate H.
  injection H as <- <- . eapply do_claim_token_first_state; [exact Ed|reflexivity].
Qed.

Lemma handle_lost_token_keeps f now (w : W) f' w' :
  handle_lost_token A f now w = Ok (f', w', false) -> f_state f' = f_state f.
Proof.
  unfold handle_lost_token. intros Eh.
  destruct (lba_get_or_insert f now) as [l fx] eqn:El. destruct (inst_diff now l); cbn [bind] in Eh; try discriminate Eh.
  match type of Eh with (if ?c then _ else _) = _ => destruct c end.
  - match type of Eh with context [trans A ?a ?b ?c] => destruct (trans A a b c) as [[fy wy]| |] end; cbn [bind] in Eh; try discriminate Eh.
    destruct (do_claim_token A fy now wy) as [[fz wz]| |]; cbn [bind] in Eh; discriminate Eh.
  - injection Eh as <- _. apply lba_get_or_insert_same in El. destruct El as ((_ & _ & _ & _ & Hsx & _) & _). exact Hsx.
Qed.

(* the listen loop: the station is in state Offline only after its re-creation *)
Definition LS (now : Z) (s : fdl * W) : Prop := f_state (fst s) = Offline -> rstL now (fst s).

Lemma listen_token_telegram_LS now s t il s' u :
  LS now s -> listen_token_telegram A now s t il = Ok (s', u) -> LS now s'.
Proof.
  destruct s as [fc wc]. unfold LS. cbn [fst]. intros HI.
  destruct (mark_rx_spec fc now) as (ML & MP & MS & MQ & MC & _).
  assert (HI' : f_state (mark_rx fc now) = Offline -> rstL now (mark_rx fc now)).
  { rewrite MS. intros C. destruct (HI C) as (S1 & C1 & P1 & L1).
    split; [congruence|]. split; [congruence|]. split; [exact MP|]. right. rewrite ML.
    destruct L1 as [-> | ->]; cbn [gv]; f_equal; lia. }
  clear HI. unfold listen_token_telegram. set (fm := mark_rx fc now) in *.
  assert (Hsame : forall f1 : fdl, f_state f1 = f_state fm -> f_conn f1 = f_conn fm -> f_pending f1 = f_pending fm -> f_lba f1 = f_lba fm ->
            f_state f1 = Offline -> rstL now f1).
  { intros f1 E1 E2 E3 E4 C. rewrite E1 in C. destruct (HI' C) as (S1 & C1 & P1 & L1).
    split; [congruence|]. split; [congruence|]. split; [congruence|]. rewrite E4. exact L1. }
  destruct (f_conn fm) eqn:Ec.
  1:{ intros H. injection H as <- _. cbn [fst]. exact HI'. }
  all: intros H;
    (destruct (opt_eqb (source_address t) (Some (ts fm)));
     [ destruct (get_listen_token (f_state fm)) as [[sr cc]| |]; cbn [bind] in H; try discriminate H;
       destruct (u8_add cc 1) as [cc'| |]; cbn [bind] in H; try discriminate H;
       destruct (cc' =? listen_collision_tolerated);
       [ injection H as <- _; cbn [fst f_state set_st]; intros C; discriminate C
       | match type of H with bind (set_offline ?fx) _ = _ => destruct (set_offline fx) as [fo| |] eqn:Eo end;
         cbn [bind] in H; try discriminate H; injection H as <- _;
         unfold set_offline, set_state in Eo; apply fdl_new_fields in Eo;
         destruct Eo as (S1 & C1 & L1 & P1 & Q1); cbn [fst]; intros _;
         split; [exact S1|]; split; [exact C1|]; split; [exact P1|]; left; exact L1 ]
     | destruct t as [h pdu|da sa|];
       [ destruct (is_fdl_status_request h && (h_da h =? ts fm));
         [ destruct il;
           [ destruct (get_listen_token (f_state fm)) as [[sr cc]| |]; cbn [bind] in H; try discriminate H;
             injection H as <- _; cbn [fst f_state set_st]; intros C; discriminate C
           | injection H as <- _; cbn [fst]; exact HI' ]
         | injection H as <- _; cbn [fst]; exact HI' ]
       | destruct (witness _ _ _); cbn [bind] in H; try discriminate H;
         injection H as <- _; cbn [fst]; apply Hsame; [reflexivity|exact Ec|reflexivity|reflexivity]
       | injection H as <- _; cbn [fst]; exact HI' ] ]).
Qed.

Lemma do_listen_token_offline now f (w : W) f' w' :
  do_listen_token A f now w = Ok (f', w') -> f_state f' = Offline -> rst now f'.
Proof.
  unfold do_listen_token, assert_entry. intros H Hoff.
  destruct (f_state f) as [ | |sr0 cc0| | | | | | | ] eqn:Es; cbn [kind_of do_fn_entry state_kind_eqb bind] in H; try discriminate H.
  destruct (handle_lost_token A f now w) as [[[f0 w0] d]| |] eqn:Eh; cbn [bind] in H; try discriminate H.
  destruct d.
  - injection H as <- <-. exfalso. destruct (handle_lost_token_claims _ _ _ _ _ Eh) as [C|C]; rewrite C in Hoff; discriminate Hoff.
  - pose proof (handle_lost_token_keeps _ _ _ _ _ Eh) as Hs0. rewrite Hs0, Es in H. cbn [get_listen_token bind] in H.
    destruct sr0 as [src|].
    + exfalso. destruct (wait_synchronization_pause f0 now) as [[f1 wait]| |] eqn:Ew; cbn [bind] in H; try discriminate H.
      apply wait_sync_same in Ew. destruct Ew as ((_ & _ & _ & _ & Hs1 & _) & _).
      destruct wait; [injection H as <- <-; rewrite Hs1, Hs0, Es in Hoff; discriminate Hoff|].
      destruct (phy_send A w0 _) as [[w1 k]| |]; cbn [bind] in H; try discriminate H.
      match type of H with bind ?x _ = _ => destruct x as [[f2 w2]| |] eqn:E2 end; cbn [bind] in H; try discriminate H.
      destruct (mark_tx f2 now k) as [f3| |] eqn:Em; cbn [bind] in H; try discriminate H.
      injection H as <- <-. apply mark_tx_same in Em. destruct Em as (_ & _ & _ & _ & Hs3 & _). rewrite Hs3 in Hoff.
      destruct (ready_for_ring (f_ring f1)).
      * apply trans_spec in E2. destruct E2 as (s2 & Ht & -> & _). cbn in Hoff.
        unfold transition_active_idle in Ht. destruct (assert_kind _ _); cbn [bind] in Ht; try discriminate Ht. injection Ht as <-. discriminate Hoff.
      * destruct (get_listen_token (f_state f1)) as [[sr1 cc1]| |]; cbn [bind] in E2; try discriminate E2.
        injection E2 as <- _. discriminate Hoff.
    + unfold receive_all_telegrams in H.
      destruct (receive_all _ _ (f0, w0) (w_rx w0)) as [[[s1 rest] r]| |] eqn:Er; cbn [bind] in H; try discriminate H.
      destruct s1 as [f1 w1]. injection H as <- _. cbn [f_state sync_pending_bytes set_pending] in Hoff.
      assert (Hl : LS now (f1, w1)).
      { refine (receive_all_inv (LS now) _ _ _ (f0, w0) _ (f1, w1) rest r _ Er).
        - intros s t l s' u Hp Hc. exact (listen_token_telegram_LS _ _ _ _ _ _ Hp Hc).
        - unfold LS. cbn [fst]. rewrite Hs0, Es. intros C. discriminate C. }
      destruct (Hl Hoff) as (S1 & C1 & P1 & L1). cbn [fst] in *.
      split; [exact S1|]. split; [exact C1|]. split; [cbn; rewrite P1; reflexivity|exact L1].
Qed.

(* the other state functions do not end in state Offline *)
Lemma do_claim_token_not_off f now (w : W) f' w' : do_claim_token A f now w = Ok (f', w') -> f_state f' <> Offline.
Proof.
  intros H C. destruct (C12Proofs.do_claim_token_spec A _ _ _ _ _ H) as (st0 & Es0 & _ & _ & _ & _ & Hspec).
  rewrite Es0 in Hspec. destruct st0 as [ | | |a0].
  - destruct Hspec as (_ & [(_ & E & _)|(_ & _ & E & _)]); rewrite E in C; discriminate C.
  - destruct Hspec as (_ & [(_ & E & _)|(_ & _ & E & _)]); rewrite E in C; discriminate C.
  - destruct Hspec as (_ & _ & [(_ & E & _)|[(_ & _ & _ & E)|[(_ & cur & _ & _ & _ & E)|(cur & a1 & _ & _ & _ & E & _)]]]); rewrite E in C; discriminate C.
  - destruct Hspec as (_ & _ & rest & received & _ & _ & Hcases).
    destruct Hcases as [(_ & _ & E & _)|[(t & _ & _ & _ & E & _)|[(t & _ & _ & _ & E & _)|(_ & _ & [(_ & E & _)|[(_ & _ & _ & E)|(a1 & _ & _ & E & _)]])]]];
      rewrite E in C; discriminate C.
Qed.

Lemma squiet_not_off now f (w : W) f' w' : C15Proofs.squiet A now f w f' w' -> f_state f <> Offline -> f_state f' <> Offline.
Proof. intros (_ & _ & Hq) Hn C. rewrite C in Hq. cbn in Hq. apply Hn. symmetry. exact Hq. Qed.

Lemma do_use_token_not_off f now (w : W) f' w' : do_use_token A ops f now w = Ok (f', w') -> f_state f' <> Offline.
Proof.
  intros H C.
  assert (Hst : exists tk fa fcd, f_state f = UseToken tk fa fcd).
  { unfold do_use_token, assert_entry in H. destruct (f_state f); cbn in H; try discriminate H. eauto. }
  destruct Hst as (tk & fa & fcd & Es).
  destruct (C13Proofs.do_use_token_state A ops _ _ _ _ _ _ _ _ H Es) as (_ & _ & [(E & _)|[(fa' & E)|[(a & fa' & E)|[E|E]]]]);
    try (rewrite E in C; try rewrite Es in C; discriminate C).
  rewrite C in E. discriminate E.
Qed.

Lemma do_await_data_not_off f now (w : W) f' w' : do_await_data_response A ops f now w = Ok (f', w') -> f_state f' <> Offline.
Proof.
  intros H C. apply (C15Proofs.do_await_data_response_split A ops) in H.
  destruct H as (a1 & tk1 & fa1 & ap & Es & _ & [(t & ap' & _ & _ & _ & _ & _ & E)|[(_ & _ & E)|[(_ & _ & E)|(ap' & f3 & w3 & _ & _ & _ & _ & _ & Hdo)]]]);
    try (rewrite E in C; try rewrite Es in C; discriminate C).
  exact (do_use_token_not_off _ _ _ _ _ Hdo C).
Qed.

Lemma do_active_idle_not_off f now (w : W) f' w' : do_active_idle A f now w = Ok (f', w') -> f_state f' <> Offline.
Proof.
  intros H C. unfold do_active_idle, assert_entry in H.
  destruct (f_state f) as [ | | |sr nps cc| | | | | | ] eqn:Es; cbn [kind_of do_fn_entry state_kind_eqb bind] in H; try discriminate H.
  destruct (handle_lost_token A f now w) as [[[f0 w0] d]| |] eqn:Eh; cbn [bind] in H; try discriminate H.
  destruct d.
  - injection H as <- <-. destruct (handle_lost_token_claims _ _ _ _ _ Eh) as [E|E]; rewrite E in C; discriminate C.
  - pose proof (handle_lost_token_keeps _ _ _ _ _ Eh) as Hs0. rewrite Hs0, Es in H. cbn [get_active_idle bind] in H.
    destruct sr as [src|].
    + destruct (wait_synchronization_pause f0 now) as [[f1 wait]| |] eqn:Ew; cbn [bind] in H; try discriminate H.
      apply wait_sync_same in Ew. destruct Ew as [[_ [_ [_ [_ [Hs1 _]]]]] _].
      destruct wait; [injection H as <- <-; rewrite Hs1, Hs0, Es in C; discriminate C|].
      destruct (phy_send A w0 _) as [[w1 k]| |]; cbn [bind] in H; try discriminate H.
      destruct (mark_tx _ now k) as [f2| |] eqn:Em; cbn [bind] in H; try discriminate H.
      injection H as <- <-. apply mark_tx_same in Em. destruct Em as [_ [_ [_ [_ [Hs2 _]]]]].
      rewrite Hs2 in C. cbn in C. discriminate C.
    + unfold receive_all_telegrams in H.
      destruct (receive_all _ _ _ _) as [[[s1 rest] r]| |] eqn:Er; cbn [bind] in H; try discriminate H.
      destruct s1 as [f1 w1]. injection H as <- _.
      assert (Hk : C11Proofs.heard_kind (f_state (fst (f1, w1)))).
      { refine (receive_all_inv (fun s : fdl * W => C11Proofs.heard_kind (f_state (fst s))) (active_idle_telegram A now) _ _ (f0, w0) _ (f1, w1) rest r _ Er).
        - intros s t il s' u Hp Hc. exact (C11Proofs.active_idle_telegram_heard A now s t il s' u Hp Hc).
        - cbn [fst]. rewrite Hs0, Es. exact I. }
      cbn [fst] in Hk. cbn in C. rewrite C in Hk. exact Hk.
Qed.

Lemma poll_offline_rst f now pin (apps : list A) f' o apps' calls :
  poll ops f now pin apps = Ok (f', o, apps', calls) -> f_conn f = ConnOnline -> f_state f' = Offline -> rst now f'.
Proof.
  intros H Hc Hoff. apply (C11Proofs.poll_inv A ops) in H. destruct H as (w' & H & _).
  unfold poll_inner in H. rewrite Hc in H.
  assert (Hb : exists f0 w0, f_state f0 <> Offline /\ C11Proofs.body A ops f0 now (tx_busy pin) w0 = Ok (f', w')).
  { destruct (online_entry_kind (kind_of (f_state f))) eqn:Ek.
    - unfold trans, transition_listen_token, assert_kind in H.
      destruct (may_transition_listen_token (kind_of (f_state f))); cbn [bind] in H; [|discriminate H].
      rewrite C11Proofs.body_eq in H. eexists. eexists. split; [|exact H]. cbn. discriminate.
    - cbn [bind] in H. rewrite C11Proofs.body_eq in H. exists f. eexists. split; [|exact H].
      intros C. rewrite C in Ek. discriminate Ek. }
  destruct Hb as (f0 & w0 & Hn0 & Hb). unfold C11Proofs.body in Hb.
  destruct (tx_busy pin || C11Proofs.predicted f0 now).
  - injection Hb as <- _. exfalso. apply Hn0. destruct (mark_bus_activity_spec f0 now) as (_ & _ & Hs & _). rewrite <- Hs. exact Hoff.
  - destruct (check_for_bus_activity A f0 now w0) as [f1 w1] eqn:Ecf.
    apply C11Proofs.cfba_spec in Ecf. destruct Ecf as ((_ & _ & _ & _ & Hs1 & _) & _).
    rewrite <- Hs1 in Hn0. unfold C11Proofs.dispatch in Hb.
    destruct (f_state f1) eqn:Es1; cbn [kind_of poll_dispatch] in Hb; try discriminate Hb; try (exfalso; apply Hn0; reflexivity).
    + eapply do_listen_token_offline; eassumption.
    + exfalso. exact (do_active_idle_not_off _ _ _ _ _ Hb Hoff).
    + exfalso. exact (do_use_token_not_off _ _ _ _ _ Hb Hoff).
    + exfalso. exact (do_claim_token_not_off _ _ _ _ _ Hb Hoff).
    + exfalso. exact (do_await_data_not_off _ _ _ _ _ Hb Hoff).
    + exfalso. refine (squiet_not_off now _ _ _ _ (C15Proofs.do_pass_token_squiet A _ _ _ _ _ Hb) _ Hoff). rewrite Es1. discriminate.
    + exfalso. refine (squiet_not_off now _ _ _ _ (C15Proofs.do_check_token_pass_squiet A _ _ _ _ _ Hb) _ Hoff). rewrite Es1. discriminate.
    + exfalso. refine (squiet_not_off now _ _ _ _ (C15Proofs.do_await_status_response_squiet A _ _ _ _ _ Hb) _ Hoff). rewrite Es1. discriminate.
Qed.

End OfflineEnd.
