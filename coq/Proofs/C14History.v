(* C14 history theorems: the DP master refines "visit the occupied slots in index order, one turn each, report
   cycle_completed once per pass"; exact event accounting; life cycle of every peripheral; global control.

   Set-up.
   - `gent`: ghost log entries.  The instrumented copies `tx_loop_g dp_transmit_g dp_receive_reply_g` of the
     model functions additionally return the list of calls made to Peripheral::transmit_telegram /
     Peripheral::receive_reply (slot, peripheral before and after, result) and a mark for a global control
     broadcast.  `*_erase`: forgetting the log gives back the model functions exactly.
   - `cb`: the callbacks of a history (the three FdlApplication callbacks, take_last_events and the user API
     calls that may be interleaved anywhere); `run_g auto`: the history executor, with `auto = true` the
     application calls take_last_events() after every FdlApplication callback.  A Panic ends the run, so every
     theorem about `run_g .. = Ok tr` speaks about every prefix of every execution up to a panic.
   - monitors over the trace: `cycle_item` (turns / cycle_completed), `life_item` (life-cycle automaton
     DpOracle.l_step), `gc_item` (global control interval), `pend_item` (the FdlApplication contract).
   Proof structure: `tx_rel` characterises one call of the slot loop as a sequence of turns; every monitor
   has a one-step lemma from every state satisfying its invariant, and the lift is by induction over the
   callback list. *)
From PB Require Import DpMaster DpOracle DpStepProofs C14Proofs.

(* ------------------------------------------------------------------ ghost log *)

Inductive gent : Set :=
| GSend (i : nat) (p p' : periph) (h : header) (pdu : bytes)       (* slot i sent a request (first or repeated) *)
| GSkip (i : nat) (p p' : periph) (ev : option pevent)             (* slot i had nothing to send: its turn is over *)
| GReply (i : nat) (p p' : periph) (t : telegram) (ev : option pevent) (* slot i got the reply: its turn is over *)
| GGc.                                                             (* a global control broadcast was written *)

Definition opt_pair (hd : handle) (ev : option pevent) : option (handle * pevent) :=
  match ev with Some e => Some (hd, e) | None => None end.

(* dp_tx_loop with the log *)
Fixpoint tx_loop_g (fuel : nat) (pa : params) (bufsize : nat) (m : dpm) (pev : option (handle * pevent))
  : res (dpm * txout * list gent) :=
  match fuel with
  | O => OutOfFuel
  | S fuel' =>
      match dm_cycle m with
      | CyCompleted =>
          Ok (set_events (set_cycle m (CyDataExchange 0)) (mkEvents false pev), None, [])
      | CyDataExchange index =>
          let* g := get_at_index (dm_slots m) index in
          match g with
          | Some (hd, p) =>
              let* (p1, r) := p_transmit pa (dm_op m) p in
              let m1 := set_slots m (put_slot (dm_slots m) (hd_index hd) p1) in
              match r with
              | PtxSend h pdu =>
                  let* o := send_data bufsize h pdu in
                  Ok (set_events m1 (mkEvents false pev), Some o, [GSend (hd_index hd) p p1 h pdu])
              | PtxSkip ev =>
                  let* pev1 :=
                    (match ev with
                     | Some e =>
                         match pev with
                         | Some _ => Panic SiteAssert
                         | None => Ok (Some (hd, e))
                         end
                     | None => Ok pev
                     end) in
                  let* (m2, completed) := increment_cycle m1 index in
                  if completed then
                    Ok (set_events (set_cycle m2 (CyDataExchange 0)) (mkEvents true pev1), None,
                        [GSkip (hd_index hd) p p1 ev])
                  else
                    match pev1 with
                    | Some _ => Ok (set_events m2 (mkEvents false pev1), None, [GSkip (hd_index hd) p p1 ev])
                    | None =>
                        let* (x, log) := tx_loop_g fuel' pa bufsize m2 pev1 in
                        Ok (x, GSkip (hd_index hd) p p1 ev :: log)
                    end
              end
          | None =>
              Ok (set_events (set_cycle m (CyDataExchange 0)) (mkEvents true pev), None, [])
          end
      end
  end.

Definition dp_transmit_g (pa : params) (bufsize : nat) (m : dpm) (now : Z) (high_prio_only : bool)
  : res (dpm * txout * list gent) :=
  if opstate_eqb (dm_op m) OpStop then Ok (set_events m events_default, None, []) else
  let* due := (if high_prio_only then Ok false else gc_due pa m now) in
  if due then
    let m1 := set_events (set_last_gc m (Some now)) events_default in
    let* b := (match dm_op m with
               | OpClear => Ok dp_gc_clear
               | OpOperate => Ok dp_gc_operate
               | OpStop => Panic SiteUnreachable
               end) in
    let* o := send_data bufsize (gc_header pa) [b; dp_gc_groups] in
    Ok (m1, Some o, [GGc])
  else tx_loop_g (dp_tx_fuel m) pa bufsize m None.

Definition dp_receive_reply_g (m : dpm) (addr : Z) (t : telegram) : res (dpm * list gent) :=
  match dm_cycle m with
  | CyCompleted => Panic SiteUnreachable
  | CyDataExchange index =>
      let* g := get_at_index (dm_slots m) index in
      match g with
      | Some (hd, p) =>
          if addr =? pe_addr p then
            let* (p1, ev) := p_receive_reply p t in
            let m1 := set_slots m (put_slot (dm_slots m) (hd_index hd) p1) in
            let* (m2, completed) := increment_cycle m1 index in
            Ok (set_events m2 (mkEvents completed (opt_pair hd ev)), [GReply (hd_index hd) p p1 t ev])
          else Panic SiteUnreachable
      | None => Panic SiteUnreachable
      end
  end.

Definition drop_log {A} (r : res (A * list gent)) : res A :=
  match r with Ok (x, _) => Ok x | Panic s => Panic s | OutOfFuel => OutOfFuel end.

Lemma tx_loop_erase : forall fuel pa bufsize m pev,
  drop_log (tx_loop_g fuel pa bufsize m pev) = dp_tx_loop fuel pa bufsize m pev.
Proof.
  induction fuel as [|fuel IH]; intros pa bufsize m pev; [reflexivity|].
  cbn [tx_loop_g dp_tx_loop].
  destruct (dm_cycle m) as [index|]; [|reflexivity].
  destruct (get_at_index (dm_slots m) index) as [[[hd p]|]| |]; cbn [bind]; try reflexivity.
  destruct (p_transmit pa (dm_op m) p) as [[p1 r]| |]; cbn [bind]; try reflexivity.
  destruct r as [h pdu|ev].
  - destruct (send_data bufsize h pdu); reflexivity.
  - destruct (match ev with
              | Some e => match pev with Some _ => Panic SiteAssert | None => Ok (Some (hd, e)) end
              | None => Ok pev
              end) as [pev1| |]; cbn [bind]; try reflexivity.
    destruct (increment_cycle _ index) as [[m2 completed]| |]; cbn [bind]; try reflexivity.
    destruct completed; [reflexivity|].
    destruct pev1; [reflexivity|].
    rewrite <- IH.
    destruct (tx_loop_g fuel pa bufsize m2 None) as [[x log]| |]; reflexivity.
Qed.

Lemma dp_transmit_erase : forall pa bufsize m now hp,
  drop_log (dp_transmit_g pa bufsize m now hp) = dp_transmit pa bufsize m now hp.
Proof.
  intros. unfold dp_transmit_g, dp_transmit.
  destruct (opstate_eqb (dm_op m) OpStop); [reflexivity|].
  destruct (if hp then Ok false else gc_due pa m now) as [due| |]; cbn [bind]; try reflexivity.
  destruct due.
  - destruct (match dm_op m with OpStop => Panic SiteUnreachable | OpClear => Ok dp_gc_clear | OpOperate => Ok dp_gc_operate end);
      cbn [bind]; try reflexivity.
    destruct (send_data _ _ _); reflexivity.
  - apply tx_loop_erase.
Qed.

Lemma dp_receive_reply_erase : forall m addr t,
  drop_log (dp_receive_reply_g m addr t) = dp_receive_reply m addr t.
Proof.
  intros. unfold dp_receive_reply_g, dp_receive_reply.
  destruct (dm_cycle m) as [index|]; [|reflexivity].
  destruct (get_at_index (dm_slots m) index) as [[[hd p]|]| |]; cbn [bind]; try reflexivity.
  destruct (addr =? pe_addr p); [|reflexivity].
  destruct (p_receive_reply p t) as [[p1 ev]| |]; cbn [bind]; try reflexivity.
  destruct (increment_cycle _ index) as [[m2 completed]| |]; cbn [bind]; reflexivity.
Qed.

(* ------------------------------------------------------------------ the slot vector *)

(* the slots that still have to get their turn in the current pass, in order: the spec's view of the
   cycle position *)
Definition pos_rem (m : dpm) : list nat :=
  match dm_cycle m with
  | CyDataExchange i => occupied_from (skipn i (dm_slots m)) i
  | CyCompleted => occupied m
  end.

Definition mask (m : dpm) : list bool := map occ (dm_slots m).

Lemma find_occupied_from : forall l j i p,
  find_occupied l j = Some (i, p) -> exists r, occupied_from l j = i :: r.
Proof.
  induction l as [|x l IH]; intros j i p H; [discriminate H|].
  destruct x as [q|]; cbn in H |- *.
  - inversion H; subst. eexists; reflexivity.
  - exact (IH _ _ _ H).
Qed.

Lemma find_occupied_none : forall l j, find_occupied l j = None -> occupied_from l j = [].
Proof.
  induction l as [|x l IH]; intros j H; [reflexivity|].
  destruct x as [q|]; cbn in H |- *; [discriminate H|exact (IH _ H)].
Qed.

Lemma get_at_index_spec : forall l index hd p,
  get_at_index l index = Ok (Some (hd, p)) ->
  exists r, occupied_from (skipn index l) index = hd_index hd :: r /\
            nth_error l (hd_index hd) = Some (Some p) /\ hd_addr hd = pe_addr p.
Proof.
  intros l index hd p H. pose proof (get_at_index_some _ _ _ _ H) as Hn.
  unfold get_at_index in H.
  destruct (find_occupied (skipn index l) index) as [[i q]|] eqn:Hf; [|discriminate H].
  unfold bind, u8_index in H. destruct (Nat.ltb 255 i); [discriminate H|].
  inversion H; subst. cbn [hd_index hd_addr] in *.
  destruct (find_occupied_from _ _ _ _ Hf) as [r Hr]. exists r. auto.
Qed.

Lemma get_at_index_none : forall l index,
  get_at_index l index = Ok None -> occupied_from (skipn index l) index = [].
Proof.
  intros l index H. unfold get_at_index in H.
  destruct (find_occupied (skipn index l) index) as [[i q]|] eqn:Hf.
  - unfold bind, u8_index in H. destruct (Nat.ltb 255 i); discriminate H.
  - apply find_occupied_none. exact Hf.
Qed.

Lemma increment_spec : forall m index a r m2 c,
  occupied_from (skipn index (dm_slots m)) index = a :: r ->
  increment_cycle m index = Ok (m2, c) ->
  if c then m2 = set_cycle m CyCompleted /\ r = []
  else exists b, m2 = set_cycle m (CyDataExchange b) /\ occupied_from (skipn b (dm_slots m)) b = r /\ r <> [].
Proof.
  intros m index a r m2 c Ho H. unfold increment_cycle, get_next_index in H. rewrite Ho in H.
  destruct r as [|b r'].
  - cbn [bind] in H. inversion H; subst. split; reflexivity.
  - unfold bind, u8_index in H. destruct (Nat.ltb 255 b); [discriminate H|].
    inversion H; subst. exists b. split; [reflexivity|].
    destruct (occupied_second _ _ _ _ _ Ho) as (k & Hk & Hs).
    rewrite skipn_skipn' in Hs. replace (index + k)%nat with b in Hs by lia.
    split; [exact Hs|discriminate].
Qed.

Lemma put_slot_length : forall l i p, length (put_slot l i p) = length l.
Proof. induction l as [|x l IH]; intros [|i] p; cbn; auto. Qed.

Lemma put_slot_same : forall l i p q, nth_error l i = Some q -> nth_error (put_slot l i p) i = Some (Some p).
Proof.
  induction l as [|x l IH]; intros [|i] p q H; cbn in *; try discriminate H; [reflexivity|].
  exact (IH _ _ _ H).
Qed.

Lemma put_slot_other : forall l i j p, i <> j -> nth_error (put_slot l i p) j = nth_error l j.
Proof.
  induction l as [|x l IH]; intros [|i] [|j] p H; cbn; try reflexivity; [now elim H|].
  apply IH. intro; subst; now elim H.
Qed.

Lemma slot_put_same : forall m i p q, slot m i = Some q -> slot (set_slots m (put_slot (dm_slots m) i p)) i = Some p.
Proof.
  intros m i p q H. unfold slot in *. cbn [dm_slots set_slots].
  destruct (nth_error (dm_slots m) i) as [[q'|]|] eqn:Hn; try discriminate H.
  rewrite (put_slot_same _ _ p _ Hn). reflexivity.
Qed.

Lemma slot_put_other : forall m i j p, i <> j -> slot (set_slots m (put_slot (dm_slots m) i p)) j = slot m j.
Proof. intros. unfold slot. cbn [dm_slots set_slots]. rewrite put_slot_other by assumption. reflexivity. Qed.

Lemma slot_of_nth : forall m i p, nth_error (dm_slots m) i = Some (Some p) -> slot m i = Some p.
Proof. intros m i p H. unfold slot. rewrite H. reflexivity. Qed.

Lemma mask_put : forall m i p q, slot m i = Some q -> mask (set_slots m (put_slot (dm_slots m) i p)) = mask m.
Proof.
  intros m i p q H. unfold mask. cbn [dm_slots set_slots]. unfold slot in H.
  destruct (nth_error (dm_slots m) i) as [[q'|]|] eqn:Hn; try discriminate H.
  apply (put_slot_mask _ _ _ _ Hn).
Qed.

Lemma occupied_of_mask : forall m m', mask m = mask m' -> occupied m = occupied m'.
Proof. intros. unfold occupied. apply occupied_mask. assumption. Qed.

Lemma occupied_from_mask_skip : forall m m' n, mask m = mask m' ->
  occupied_from (skipn n (dm_slots m)) n = occupied_from (skipn n (dm_slots m')) n.
Proof. intros m m' n H. apply occupied_mask. rewrite !map_skipn. unfold mask in H. rewrite H. reflexivity. Qed.

(* ------------------------------------------------------------------ one call of the slot loop as a sequence of turns *)

Section Rel.
Variables (pa : params) (bufsize : nat).

Definition put_cur (m : dpm) (hd : handle) (p1 : periph) : dpm :=
  set_slots m (put_slot (dm_slots m) (hd_index hd) p1).

Inductive tx_rel : dpm -> dpm -> txout -> list gent -> Prop :=
| TxCompleted : forall m,
    dm_cycle m = CyCompleted ->
    tx_rel m (set_events (set_cycle m (CyDataExchange 0)) (mkEvents false None)) None []
| TxEmpty : forall m index,
    dm_cycle m = CyDataExchange index -> get_at_index (dm_slots m) index = Ok None ->
    tx_rel m (set_events (set_cycle m (CyDataExchange 0)) (mkEvents true None)) None []
| TxSend : forall m index hd p p1 h pdu o,
    dm_cycle m = CyDataExchange index -> get_at_index (dm_slots m) index = Ok (Some (hd, p)) ->
    p_transmit pa (dm_op m) p = Ok (p1, PtxSend h pdu) -> send_data bufsize h pdu = Ok o ->
    tx_rel m (set_events (put_cur m hd p1) (mkEvents false None)) (Some o) [GSend (hd_index hd) p p1 h pdu]
| TxSkipLast : forall m index hd p p1 ev m2,
    dm_cycle m = CyDataExchange index -> get_at_index (dm_slots m) index = Ok (Some (hd, p)) ->
    p_transmit pa (dm_op m) p = Ok (p1, PtxSkip ev) ->
    increment_cycle (put_cur m hd p1) index = Ok (m2, true) ->
    tx_rel m (set_events (set_cycle m2 (CyDataExchange 0)) (mkEvents true (opt_pair hd ev))) None
           [GSkip (hd_index hd) p p1 ev]
| TxSkipEvent : forall m index hd p p1 e m2,
    dm_cycle m = CyDataExchange index -> get_at_index (dm_slots m) index = Ok (Some (hd, p)) ->
    p_transmit pa (dm_op m) p = Ok (p1, PtxSkip (Some e)) ->
    increment_cycle (put_cur m hd p1) index = Ok (m2, false) ->
    tx_rel m (set_events m2 (mkEvents false (Some (hd, e)))) None [GSkip (hd_index hd) p p1 (Some e)]
| TxSkipNext : forall m index hd p p1 m2 m' o log,
    dm_cycle m = CyDataExchange index -> get_at_index (dm_slots m) index = Ok (Some (hd, p)) ->
    p_transmit pa (dm_op m) p = Ok (p1, PtxSkip None) ->
    increment_cycle (put_cur m hd p1) index = Ok (m2, false) ->
    tx_rel m2 m' o log ->
    tx_rel m m' o (GSkip (hd_index hd) p p1 None :: log).

Lemma tx_loop_rel : forall fuel m m' o log,
  tx_loop_g fuel pa bufsize m None = Ok (m', o, log) -> tx_rel m m' o log.
Proof.
  induction fuel as [|fuel IH]; intros m m' o log H; [discriminate H|].
  cbn [tx_loop_g] in H.
  destruct (dm_cycle m) as [index|] eqn:Hc.
  2:{ inversion H; subst. apply TxCompleted; assumption. }
  destruct (get_at_index (dm_slots m) index) as [[[hd p]|]| |] eqn:Hg; cbn [bind] in H; try discriminate H.
  2:{ inversion H; subst. eapply TxEmpty; eassumption. }
  destruct (p_transmit pa (dm_op m) p) as [[p1 r]| |] eqn:Hp; cbn [bind] in H; try discriminate H.
  destruct r as [h pdu|ev].
  - destruct (send_data bufsize h pdu) as [o1| |] eqn:Hs; cbn [bind] in H; try discriminate H.
    inversion H; subst. eapply TxSend; eassumption.
  - destruct ev as [e|]; cbn [bind] in H.
    + destruct (increment_cycle _ index) as [[m2 completed]| |] eqn:Hi; cbn [bind] in H; try discriminate H.
      destruct completed; inversion H; subst.
      * eapply (TxSkipLast m index hd p p1 (Some e)); eassumption.
      * eapply TxSkipEvent; eassumption.
    + destruct (increment_cycle _ index) as [[m2 completed]| |] eqn:Hi; cbn [bind] in H; try discriminate H.
      destruct completed.
      * inversion H; subst. eapply (TxSkipLast m index hd p p1 None); eassumption.
      * destruct (tx_loop_g fuel pa bufsize m2 None) as [[[m3 o3] log3]| |] eqn:Hl; cbn [bind] in H; try discriminate H.
        inversion H; subst. eapply TxSkipNext; try eassumption. apply IH. exact Hl.
Qed.

End Rel.

(* ------------------------------------------------------------------ histories *)

Inductive cb : Set :=
| CTx (now : Z) (hp : bool)              (* FdlApplication::transmit_telegram *)
| CRx (addr : Z) (t : telegram)          (* FdlApplication::receive_reply *)
| CTo (addr : Z)                         (* FdlApplication::handle_timeout *)
| CTake                                  (* take_last_events() *)
| CReqDiag (h : handle)                  (* get_mut(h).request_diagnostics() *)
| CWriteQ (h : handle) (q : bytes)       (* get_mut(h).pi_q_mut().copy_from_slice(q) *)
| CEnter (s : opstate).                  (* enter_state(s), a todo!() unwinding caught *)

Inductive cout : Set :=
| OTx (o : txout)
| OUnit
| OEvents (e : dpevents).

(* one callback on the model *)
Definition cstep (pa : params) (bufsize : nat) (m : dpm) (c : cb) : res (dpm * cout) :=
  match c with
  | CTx now hp => let* (m1, o) := dp_transmit pa bufsize m now hp in Ok (m1, OTx o)
  | CRx a t => let* m1 := dp_receive_reply m a t in Ok (m1, OUnit)
  | CTo a => let* m1 := dp_handle_timeout m a in Ok (m1, OUnit)
  | CTake => let (m1, e) := dp_take_last_events m in Ok (m1, OEvents e)
  | CReqDiag h => let* m1 := dp_request_diagnostics m h in Ok (m1, OUnit)
  | CWriteQ h q => let* m1 := dp_write_q m h q in Ok (m1, OUnit)
  | CEnter s => Ok (dp_enter_state_unwound m s, OUnit)
  end.

(* the same with the ghost log *)
Definition cstep_g (pa : params) (bufsize : nat) (m : dpm) (c : cb) : res (dpm * cout * list gent) :=
  match c with
  | CTx now hp => let* (x, log) := dp_transmit_g pa bufsize m now hp in Ok (fst x, OTx (snd x), log)
  | CRx a t => let* (m1, log) := dp_receive_reply_g m a t in Ok (m1, OUnit, log)
  | _ => let* (m1, o) := cstep pa bufsize m c in Ok (m1, o, [])
  end.

Lemma cstep_erase : forall pa bufsize m c, drop_log (cstep_g pa bufsize m c) = cstep pa bufsize m c.
Proof.
  intros pa bufsize m c. destruct c as [now hp|a t|a| |h|h q|s]; cbn [cstep_g cstep].
  - rewrite <- dp_transmit_erase. destruct (dp_transmit_g pa bufsize m now hp) as [[[m1 o] log]| |]; reflexivity.
  - rewrite <- dp_receive_reply_erase. destruct (dp_receive_reply_g m a t) as [[m1 log]| |]; reflexivity.
  - reflexivity.
  - reflexivity.
  - destruct (dp_request_diagnostics m h); reflexivity.
  - destruct (dp_write_q m h q); reflexivity.
  - reflexivity.
Qed.

Definition is_bus (c : cb) : bool := match c with CTx _ _ | CRx _ _ | CTo _ => true | _ => false end.

Record item : Set := mkItem {
  it_cb : cb;
  it_out : cout;
  it_log : list gent;
  it_pre : dpm;                   (* the master when the callback is made *)
  it_post : dpm;                  (* the master when the callback returns *)
  it_taken : option dpevents;     (* result of the take_last_events() that follows it (auto mode) *)
  it_m : dpm }.                   (* the master when the next callback is made *)

Definition auto_take_m (auto : bool) (c : cb) (m : dpm) : dpm * option dpevents :=
  if auto && is_bus c then (fst (dp_take_last_events m), Some (snd (dp_take_last_events m))) else (m, None).

Fixpoint run_g (auto : bool) (pa : params) (bufsize : nat) (m : dpm) (cbs : list cb) : res (list item) :=
  match cbs with
  | [] => Ok []
  | c :: r =>
      let* (x, log) := cstep_g pa bufsize m c in
      let m1 := fst x in
      let m2 := fst (auto_take_m auto c m1) in
      let* tr := run_g auto pa bufsize m2 r in
      Ok (mkItem c (snd x) log m m1 (snd (auto_take_m auto c m1)) m2 :: tr)
  end.

(* the plain run of the model: callbacks, outputs, taken events *)
Fixpoint run (auto : bool) (pa : params) (bufsize : nat) (m : dpm) (cbs : list cb)
  : res (list (cb * cout * option dpevents) * dpm) :=
  match cbs with
  | [] => Ok ([], m)
  | c :: r =>
      let* (m1, o) := cstep pa bufsize m c in
      let* (tr, mf) := run auto pa bufsize (fst (auto_take_m auto c m1)) r in
      Ok ((c, o, snd (auto_take_m auto c m1)) :: tr, mf)
  end.

Definition final (m0 : dpm) (tr : list item) : dpm := fold_left (fun _ it => it_m it) tr m0.

Definition strip (it : item) : cb * cout * option dpevents := (it_cb it, it_out it, it_taken it).

Lemma run_erase : forall auto pa bufsize cbs m,
  match run_g auto pa bufsize m cbs with
  | Ok tr => run auto pa bufsize m cbs = Ok (map strip tr, final m tr)
  | Panic s => run auto pa bufsize m cbs = Panic s
  | OutOfFuel => run auto pa bufsize m cbs = OutOfFuel
  end.
Proof.
  intros auto pa bufsize. induction cbs as [|c r IH]; intro m; [reflexivity|].
  cbn [run_g run]. rewrite <- cstep_erase.
  destruct (cstep_g pa bufsize m c) as [[[m1 o] log]| |]; cbn [drop_log bind fst snd]; try reflexivity.
  specialize (IH (fst (auto_take_m auto c m1))).
  destruct (run_g auto pa bufsize (fst (auto_take_m auto c m1)) r) as [tr| |]; cbn [bind]; rewrite IH; try reflexivity.
Qed.

(* what a callback reports in DpMaster.last_events: both transmit_telegram and receive_reply overwrite it
   completely on every path; the other calls report nothing *)
Definition reported (it : item) : dpevents :=
  match it_cb it with
  | CTx _ _ | CRx _ _ => dm_events (it_post it)
  | _ => events_default
  end.

(* items of a run are chained *)
Fixpoint chained (m : dpm) (tr : list item) : Prop :=
  match tr with
  | [] => True
  | it :: r => it_pre it = m /\ chained (it_m it) r
  end.

Lemma run_g_chained : forall auto pa bufsize cbs m tr, run_g auto pa bufsize m cbs = Ok tr -> chained m tr.
Proof.
  intros auto pa bufsize. induction cbs as [|c r IH]; intros m tr H; cbn [run_g] in H.
  - inversion H; subst. exact I.
  - destruct (cstep_g pa bufsize m c) as [[[m1 o] log]| |]; cbn [bind fst snd] in H; try discriminate H.
    destruct (run_g auto pa bufsize _ r) as [tr'| |] eqn:Hr; cbn [bind] in H; try discriminate H.
    inversion H; subst. cbn [chained it_pre it_m]. split; [reflexivity|]. apply IH. exact Hr.
Qed.

(* ------------------------------------------------------------------ lifting a one-step lemma to histories *)

Section Lift.
Variables (auto : bool) (pa : params) (bufsize : nat).

Definition mk_item (m : dpm) (c : cb) (x : dpm * cout) (log : list gent) : item :=
  mkItem c (snd x) log m (fst x) (snd (auto_take_m auto c (fst x))) (fst (auto_take_m auto c (fst x))).

Variable St : Type.
Variable I : dpm -> St -> Prop.
Variable mon : St -> item -> option St.

(* the monitor accepts the trace, and the invariant links its state to the master before every callback
   and at the end *)
Fixpoint accepts (s : St) (m : dpm) (tr : list item) : Prop :=
  match tr with
  | [] => I m s
  | it :: r => I m s /\ it_pre it = m /\ exists s', mon s it = Some s' /\ accepts s' (it_m it) r
  end.

Hypothesis Hstep : forall m s c x log,
  I m s -> cstep_g pa bufsize m c = Ok (x, log) ->
  exists s', mon s (mk_item m c x log) = Some s' /\ I (it_m (mk_item m c x log)) s'.

Lemma lift : forall cbs m s tr, I m s -> run_g auto pa bufsize m cbs = Ok tr -> accepts s m tr.
Proof.
  induction cbs as [|c r IH]; intros m s tr HI H; cbn [run_g] in H.
  - inversion H; subst. exact HI.
  - destruct (cstep_g pa bufsize m c) as [[x log]| |] eqn:Hc; cbn [bind] in H; try discriminate H.
    destruct (run_g auto pa bufsize _ r) as [tr'| |] eqn:Hr; cbn [bind] in H; try discriminate H.
    inversion H; subst. cbn [accepts it_pre it_m].
    destruct (Hstep _ _ _ _ _ HI Hc) as (s' & Hm & HI').
    split; [exact HI|]. split; [reflexivity|]. exists s'. split; [exact Hm|].
    apply IH; [exact HI'|exact Hr].
Qed.

End Lift.

Lemma accepts_weaken : forall St (I I' : dpm -> St -> Prop) mon,
  (forall m s, I m s -> I' m s) ->
  forall tr s m, accepts St I mon s m tr -> accepts St I' mon s m tr.
Proof.
  intros St I I' mon HW. induction tr as [|it r IH]; intros s m H; cbn [accepts] in *.
  - apply HW; exact H.
  - destruct H as (HI & Hp & s' & Hm & Ha). split; [apply HW; exact HI|]. split; [exact Hp|].
    exists s'. split; [exact Hm|apply IH; exact Ha].
Qed.

(* ------------------------------------------------------------------ what the callbacks other than transmit / reply do *)

(* a user call changes one peripheral and leaves its bus-side control state alone *)
Definition same_ctrl (p p' : periph) : Prop :=
  pe_addr p' = pe_addr p /\ pe_state p' = pe_state p /\ pe_retry p' = pe_retry p /\ pe_fcb p' = pe_fcb p /\
  pe_pi_i p' = pe_pi_i p /\ pe_diag_in_flight p' = pe_diag_in_flight p /\ pe_opts p' = pe_opts p /\
  length (pe_pi_q p') = length (pe_pi_q p).

Definition user_upd (m m1 : dpm) : Prop :=
  exists i p p', slot m i = Some p /\ m1 = set_slots m (put_slot (dm_slots m) i p') /\ same_ctrl p p'.

Lemma dp_get_mut_slot : forall m h p, dp_get_mut m h = Ok p -> slot m (hd_index h) = Some p.
Proof.
  intros m h p H. unfold dp_get_mut in H. unfold slot.
  destruct (nth_error (dm_slots m) (hd_index h)) as [[q|]|]; try discriminate H. inversion H; reflexivity.
Qed.

Lemma other_cases : forall pa bufsize m c x log,
  cstep_g pa bufsize m c = Ok (x, log) ->
  match c with
  | CTx _ _ | CRx _ _ => True
  | _ => log = [] /\
         (fst x = m \/ fst x = set_events m events_default \/ user_upd m (fst x) \/
          exists s, fst x = dp_enter_state_unwound m s)
  end.
Proof.
  intros pa bufsize m c x log H. destruct c as [now hp|a t|a| |h|h q|s]; try exact I; cbn [cstep_g cstep] in H.
  - cbn in H. inversion H; subst. split; [reflexivity|]. left; reflexivity.
  - cbn in H. inversion H; subst. split; [reflexivity|]. right; left; reflexivity.
  - unfold dp_request_diagnostics, dp_update in H.
    destruct (dp_get_mut m h) as [p| |] eqn:Hg; cbn [bind] in H; try discriminate H.
    inversion H; subst. split; [reflexivity|]. right; right; left.
    exists (hd_index h), p, (p_request_diagnostics p). split; [apply dp_get_mut_slot; exact Hg|].
    split; [reflexivity|]. unfold same_ctrl. cbn. repeat split; reflexivity.
  - unfold dp_write_q in H.
    destruct (dp_get_mut m h) as [p| |] eqn:Hg; cbn [bind] in H; try discriminate H.
    unfold copy_from_slice in H. destruct (Nat.eqb (length (pe_pi_q p)) (length q)) eqn:Hl; cbn [bind] in H; try discriminate H.
    inversion H; subst. split; [reflexivity|]. right; right; left.
    exists (hd_index h), p, (set_pi_q p q). split; [apply dp_get_mut_slot; exact Hg|].
    split; [reflexivity|]. unfold same_ctrl. cbn. repeat split; try reflexivity.
    symmetry. apply Nat.eqb_eq. exact Hl.
  - cbn in H. inversion H; subst. split; [reflexivity|]. right; right; right. exists s. reflexivity.
Qed.

Lemma other_cases_exact : forall pa bufsize m c x log,
  cstep_g pa bufsize m c = Ok (x, log) ->
  match c with
  | CTx _ _ | CRx _ _ => True
  | CTo _ => log = [] /\ fst x = m /\ snd x = OUnit
  | CTake => log = [] /\ fst x = set_events m events_default /\ snd x = OEvents (dm_events m)
  | CReqDiag _ | CWriteQ _ _ => log = [] /\ user_upd m (fst x) /\ snd x = OUnit
  | CEnter s => log = [] /\ fst x = dp_enter_state_unwound m s /\ snd x = OUnit
  end.
Proof.
  intros pa bufsize m c x log H. destruct c as [now hp|a t|a| |h|h q|s]; try exact I; cbn [cstep_g cstep] in H.
  - cbn in H. inversion H; subst. repeat split; reflexivity.
  - cbn in H. inversion H; subst. repeat split; reflexivity.
  - unfold dp_request_diagnostics, dp_update in H.
    destruct (dp_get_mut m h) as [p| |] eqn:Hg; cbn [bind] in H; try discriminate H.
    inversion H; subst. split; [reflexivity|]. split; [|reflexivity].
    exists (hd_index h), p, (p_request_diagnostics p). split; [apply dp_get_mut_slot; exact Hg|].
    split; [reflexivity|]. unfold same_ctrl. cbn. repeat split; reflexivity.
  - unfold dp_write_q in H.
    destruct (dp_get_mut m h) as [p| |] eqn:Hg; cbn [bind] in H; try discriminate H.
    unfold copy_from_slice in H. destruct (Nat.eqb (length (pe_pi_q p)) (length q)) eqn:Hl; cbn [bind] in H; try discriminate H.
    inversion H; subst. split; [reflexivity|]. split; [|reflexivity].
    exists (hd_index h), p, (set_pi_q p q). split; [apply dp_get_mut_slot; exact Hg|].
    split; [reflexivity|]. unfold same_ctrl. cbn. repeat split; try reflexivity.
    symmetry. apply Nat.eqb_eq. exact Hl.
  - cbn in H. inversion H; subst. repeat split; reflexivity.
Qed.

Lemma user_upd_mask : forall m m1, user_upd m m1 -> mask m1 = mask m /\ dm_cycle m1 = dm_cycle m /\
  dm_events m1 = dm_events m /\ dm_op m1 = dm_op m /\ dm_last_gc m1 = dm_last_gc m.
Proof.
  intros m m1 (i & p & p' & Hs & -> & _). split; [eapply mask_put; eassumption|]. repeat split; reflexivity.
Qed.

(* ------------------------------------------------------------------ C14_one_turn_each / C14_cycle_completed_once *)

(* The spec: `rem` = the occupied slots that still have to get their turn in this pass.  A request may only
   be sent by the head of rem (its turn is in progress); a turn ends (nothing to send / reply handled) only
   for the head of rem, which is then removed. *)
Definition turn_entry (rem : list nat) (e : gent) : option (list nat) :=
  match e with
  | GSend i _ _ _ _ =>
      match rem with j :: _ => if Nat.eqb i j then Some rem else None | [] => None end
  | GSkip i _ _ _ | GReply i _ _ _ _ =>
      match rem with j :: r => if Nat.eqb i j then Some r else None | [] => None end
  | GGc => Some rem
  end.

Fixpoint turn_entries (rem : list nat) (log : list gent) : option (list nat) :=
  match log with
  | [] => Some rem
  | e :: r => match turn_entry rem e with Some rem' => turn_entries rem' r | None => None end
  end.

Definition is_gc (e : gent) : bool := match e with GGc => true | _ => false end.

(* did the slot scheduler run in this callback?  (receive_reply always; transmit_telegram unless the master
   is stopped or used the call for a global control broadcast) *)
Definition sched_ran (it : item) : bool :=
  match it_cb it with
  | CRx _ _ => true
  | CTx _ _ => negb (opstate_eqb (dm_op (it_pre it)) OpStop) && negb (existsb is_gc (it_log it))
  | _ => false
  end.

Definition is_nil {A} (l : list A) : bool := match l with [] => true | _ => false end.

(* cycle_completed is reported by exactly the callback in which the last turn of the pass ends (for an
   empty master: by every callback in which the scheduler runs); the next pass starts with all of occ *)
Definition cycle_item (occ : list nat) (rem : list nat) (it : item) : option (list nat) :=
  match turn_entries rem (it_log it) with
  | None => None
  | Some rem' =>
      if sched_ran it && is_nil rem'
      then (if ev_cycle_completed (reported it) then Some occ else None)
      else (if ev_cycle_completed (reported it) then None else Some rem')
  end.

Definition cycle_inv (occ : list nat) (m : dpm) (rem : list nat) : Prop :=
  rem = pos_rem m /\ occupied m = occ /\ (dm_cycle m = CyCompleted -> occ <> []).

Lemma occ_skip_nil : forall i l j, occupied_from l j = [] -> occupied_from (skipn i l) (i + j) = [].
Proof.
  induction i as [|i IH]; intros l j H; [exact H|].
  destruct l as [|x l]; [reflexivity|]. destruct x as [q|]; cbn [occupied_from] in H; [discriminate H|].
  cbn [skipn]. replace (S i + j)%nat with (i + S j)%nat by lia. apply IH. exact H.
Qed.

Lemma pos_rem_occupied : forall m i a r,
  occupied_from (skipn i (dm_slots m)) i = a :: r -> occupied m <> [].
Proof.
  intros m i a r H Hn. unfold occupied in Hn. pose proof (occ_skip_nil i _ _ Hn) as H0.
  rewrite Nat.add_0_r in H0. rewrite H0 in H. discriminate H.
Qed.

Lemma pos_rem_mask : forall m m', mask m' = mask m -> dm_cycle m' = dm_cycle m -> pos_rem m' = pos_rem m.
Proof.
  intros m m' Hm Hc. unfold pos_rem. rewrite Hc. destruct (dm_cycle m).
  - apply occupied_from_mask_skip. exact Hm.
  - apply occupied_of_mask. exact Hm.
Qed.

Lemma nat_eqb_refl' : forall n, Nat.eqb n n = true.
Proof. intro n. apply Nat.eqb_eq. reflexivity. Qed.

(* what the current slot and the cycle increment look like in terms of pos_rem *)
Lemma cur_slot : forall m index hd p,
  dm_cycle m = CyDataExchange index -> get_at_index (dm_slots m) index = Ok (Some (hd, p)) ->
  exists r, pos_rem m = hd_index hd :: r /\ slot m (hd_index hd) = Some p /\ hd_addr hd = pe_addr p.
Proof.
  intros m index hd p Hc Hg. destruct (get_at_index_spec _ _ _ _ Hg) as (r & Ho & Hn & Ha).
  exists r. unfold pos_rem. rewrite Hc. split; [exact Ho|]. split; [apply slot_of_nth; exact Hn|exact Ha].
Qed.

Lemma put_cur_facts : forall m hd p p1,
  slot m (hd_index hd) = Some p ->
  mask (put_cur m hd p1) = mask m /\ dm_cycle (put_cur m hd p1) = dm_cycle m /\
  pos_rem (put_cur m hd p1) = pos_rem m /\ occupied (put_cur m hd p1) = occupied m.
Proof.
  intros m hd p p1 Hs. pose proof (mask_put m (hd_index hd) p1 p Hs) as Hm.
  split; [exact Hm|]. split; [reflexivity|]. split; [apply pos_rem_mask; [exact Hm|reflexivity]|].
  apply occupied_of_mask. exact Hm.
Qed.

Lemma increment_pos : forall m index a r m2 c,
  dm_cycle m = CyDataExchange index -> pos_rem m = a :: r ->
  increment_cycle m index = Ok (m2, c) ->
  dm_slots m2 = dm_slots m /\ dm_op m2 = dm_op m /\ dm_last_gc m2 = dm_last_gc m /\ dm_events m2 = dm_events m /\
  if c then dm_cycle m2 = CyCompleted /\ r = []
  else r <> [] /\ pos_rem m2 = r /\ exists b, dm_cycle m2 = CyDataExchange b.
Proof.
  intros m index a r m2 c Hc Hp Hi. unfold pos_rem in Hp. rewrite Hc in Hp.
  pose proof (increment_spec _ _ _ _ _ _ Hp Hi) as Hs. destruct c.
  - destruct Hs as [-> ->]. repeat split; reflexivity.
  - destruct Hs as (b & -> & Hb & Hne).
    split; [reflexivity|]. split; [reflexivity|]. split; [reflexivity|]. split; [reflexivity|].
    split; [exact Hne|]. split; [unfold pos_rem; cbn; exact Hb|]. exists b. reflexivity.
Qed.

(* the outcome of one call of the slot loop, in the words of the spec *)
Definition cyc_post (m m' : dpm) (rem' : list nat) : Prop :=
  mask m' = mask m /\ dm_cycle m' <> CyCompleted /\
  if ev_cycle_completed (dm_events m') then rem' = [] /\ pos_rem m' = occupied m'
  else rem' <> [] /\ pos_rem m' = rem'.

Lemma pos_rem_zero : forall m, dm_cycle m = CyDataExchange 0 -> pos_rem m = occupied m.
Proof. intros m H. unfold pos_rem. rewrite H. reflexivity. Qed.

Lemma tx_rel_cycle : forall pa bufsize m m' o log,
  tx_rel pa bufsize m m' o log ->
  (dm_cycle m = CyCompleted -> occupied m <> []) ->
  exists rem', turn_entries (pos_rem m) log = Some rem' /\ cyc_post m m' rem'.
Proof.
  intros pa bufsize m m' o log H. induction H as
    [m Hc|m index Hc Hg|m index hd p p1 h pdu o Hc Hg Hp Hs|m index hd p p1 ev m2 Hc Hg Hp Hi
    |m index hd p p1 e m2 Hc Hg Hp Hi|m index hd p p1 m2 m' o log Hc Hg Hp Hi Hrel IH]; intro Hinv.
  - exists (pos_rem m). split; [reflexivity|]. unfold cyc_post. cbn.
    split; [reflexivity|]. split; [discriminate|].
    unfold pos_rem at 1. rewrite Hc. split; [apply Hinv; exact Hc|].
    unfold pos_rem. cbn. rewrite Hc. reflexivity.
  - exists []. unfold pos_rem at 1. rewrite Hc. rewrite (get_at_index_none _ _ Hg).
    split; [reflexivity|]. unfold cyc_post. cbn. split; [reflexivity|]. split; [discriminate|].
    split; reflexivity.
  - destruct (cur_slot _ _ _ _ Hc Hg) as (r & Hr & Hsl & _).
    exists (hd_index hd :: r). rewrite Hr. cbn [turn_entries turn_entry]. rewrite nat_eqb_refl'.
    split; [reflexivity|].
    destruct (put_cur_facts m hd p p1 Hsl) as (Hm & Hcy & Hpr & _).
    unfold cyc_post. cbn [dm_events set_events ev_cycle_completed].
    split; [exact Hm|]. split; [cbn; rewrite Hc; discriminate|]. split; [discriminate|].
    rewrite <- Hr. rewrite <- Hpr. apply pos_rem_mask; reflexivity.
  - destruct (cur_slot _ _ _ _ Hc Hg) as (r & Hr & Hsl & _).
    destruct (put_cur_facts m hd p p1 Hsl) as (Hm & Hcy & Hpr & _).
    rewrite Hc in Hcy. rewrite Hr in Hpr.
    destruct (increment_pos _ _ _ _ _ _ Hcy Hpr Hi) as (Hsl2 & _ & _ & _ & Hc2 & ->).
    exists []. rewrite Hr. cbn [turn_entries turn_entry]. rewrite nat_eqb_refl'.
    split; [reflexivity|]. unfold cyc_post. cbn [dm_events set_events ev_cycle_completed].
    split; [unfold mask; cbn; rewrite Hsl2; exact Hm|]. split; [discriminate|]. split; [reflexivity|].
    apply pos_rem_zero. reflexivity.
  - destruct (cur_slot _ _ _ _ Hc Hg) as (r & Hr & Hsl & _).
    destruct (put_cur_facts m hd p p1 Hsl) as (Hm & Hcy & Hpr & _).
    rewrite Hc in Hcy. rewrite Hr in Hpr.
    destruct (increment_pos _ _ _ _ _ _ Hcy Hpr Hi) as (Hsl2 & _ & _ & _ & Hne & Hp2 & b & Hb).
    exists r. rewrite Hr. cbn [turn_entries turn_entry]. rewrite nat_eqb_refl'.
    split; [reflexivity|]. unfold cyc_post. cbn [dm_events set_events ev_cycle_completed].
    split; [unfold mask; cbn; rewrite Hsl2; exact Hm|]. split; [cbn; rewrite Hb; discriminate|].
    split; [exact Hne|]. rewrite <- Hp2. apply pos_rem_mask; reflexivity.
  - destruct (cur_slot _ _ _ _ Hc Hg) as (r & Hr & Hsl & _).
    destruct (put_cur_facts m hd p p1 Hsl) as (Hm & Hcy & Hpr & _).
    rewrite Hc in Hcy. rewrite Hr in Hpr.
    destruct (increment_pos _ _ _ _ _ _ Hcy Hpr Hi) as (Hsl2 & _ & _ & _ & Hne & Hp2 & b & Hb).
    destruct IH as (rem' & Ht & Hm' & Hcp); [rewrite Hb; discriminate|].
    exists rem'. rewrite Hr. cbn [turn_entries turn_entry]. rewrite nat_eqb_refl'.
    rewrite Hp2 in Ht. split; [exact Ht|].
    unfold cyc_post. split; [|exact Hcp].
    rewrite Hm'. unfold mask. rewrite Hsl2. exact Hm.
Qed.

(* ------------------------------------------------------------------ case analysis of transmit / reply *)

Lemma opstate_eqb_true : forall a b, opstate_eqb a b = true <-> a = b.
Proof. intros a b. destruct a, b; cbn; split; intro H; try reflexivity; try discriminate H. Qed.

Lemma tx_rel_no_gc : forall pa bufsize m m' o log, tx_rel pa bufsize m m' o log -> existsb is_gc log = false.
Proof. intros pa bufsize m m' o log H. induction H; cbn; auto. Qed.

Lemma dp_transmit_g_cases : forall pa bufsize m now hp m' o log,
  dp_transmit_g pa bufsize m now hp = Ok (m', o, log) ->
  (dm_op m = OpStop /\ m' = set_events m events_default /\ o = None /\ log = []) \/
  (dm_op m <> OpStop /\ hp = false /\ gc_due pa m now = Ok true /\
   m' = set_events (set_last_gc m (Some now)) events_default /\ log = [GGc] /\
   exists b w, (b = dp_gc_clear /\ dm_op m = OpClear \/ b = dp_gc_operate /\ dm_op m = OpOperate) /\
             send_data bufsize (gc_header pa) [b; dp_gc_groups] = Ok (w, None) /\ o = Some (w, None)) \/
  (dm_op m <> OpStop /\ (hp = true \/ gc_due pa m now = Ok false) /\ tx_rel pa bufsize m m' o log).
Proof.
  intros pa bufsize m now hp m' o log H. unfold dp_transmit_g in H.
  destruct (opstate_eqb (dm_op m) OpStop) eqn:Hop.
  - left. apply opstate_eqb_true in Hop. inversion H; subst. auto.
  - right. assert (Hne : dm_op m <> OpStop).
    { intro E. apply opstate_eqb_true in E. rewrite E in Hop. discriminate Hop. }
    destruct hp.
    + cbn [bind] in H. right. split; [exact Hne|]. split; [left; reflexivity|].
      eapply tx_loop_rel. exact H.
    + destruct (gc_due pa m now) as [due| |] eqn:Hd; cbn [bind] in H; try discriminate H.
      destruct due.
      * left. split; [exact Hne|]. split; [reflexivity|]. split; [reflexivity|].
        destruct (dm_op m) eqn:Hopm; cbn [bind] in H; try discriminate H.
        -- destruct (send_data bufsize (gc_header pa) [dp_gc_clear; dp_gc_groups]) as [[w e]| |] eqn:Hs;
             cbn [bind] in H; try discriminate H.
           assert (He : e = None).
           { unfold send_data in Hs. destruct (encode_data_in _ _ _); cbn [bind] in Hs; try discriminate Hs.
             inversion Hs; reflexivity. }
           subst e. inversion H; subst. split; [reflexivity|]. split; [reflexivity|].
           exists dp_gc_clear, w. split; [left; split; reflexivity|]. split; [exact Hs|reflexivity].
        -- destruct (send_data bufsize (gc_header pa) [dp_gc_operate; dp_gc_groups]) as [[w e]| |] eqn:Hs;
             cbn [bind] in H; try discriminate H.
           assert (He : e = None).
           { unfold send_data in Hs. destruct (encode_data_in _ _ _); cbn [bind] in Hs; try discriminate Hs.
             inversion Hs; reflexivity. }
           subst e. inversion H; subst. split; [reflexivity|]. split; [reflexivity|].
           exists dp_gc_operate, w. split; [right; split; reflexivity|]. split; [exact Hs|reflexivity].
      * right. split; [exact Hne|]. split; [right; reflexivity|]. eapply tx_loop_rel. exact H.
Qed.

Lemma rx_cases : forall m a t m' log,
  dp_receive_reply_g m a t = Ok (m', log) ->
  exists index hd p p1 ev m2 c,
    dm_cycle m = CyDataExchange index /\ get_at_index (dm_slots m) index = Ok (Some (hd, p)) /\
    a = pe_addr p /\ p_receive_reply p t = Ok (p1, ev) /\
    increment_cycle (put_cur m hd p1) index = Ok (m2, c) /\
    m' = set_events m2 (mkEvents c (opt_pair hd ev)) /\ log = [GReply (hd_index hd) p p1 t ev].
Proof.
  intros m a t m' log H. unfold dp_receive_reply_g in H.
  destruct (dm_cycle m) as [index|] eqn:Hc; [|discriminate H].
  destruct (get_at_index (dm_slots m) index) as [[[hd p]|]| |] eqn:Hg; cbn [bind] in H; try discriminate H.
  destruct (a =? pe_addr p) eqn:Ha; [|discriminate H]. apply Z.eqb_eq in Ha.
  destruct (p_receive_reply p t) as [[p1 ev]| |] eqn:Hr; cbn [bind] in H; try discriminate H.
  destruct (increment_cycle _ index) as [[m2 c]| |] eqn:Hi; cbn [bind] in H; try discriminate H.
  inversion H; subst. exists index, hd, p, p1, ev, m2, c. repeat split; try reflexivity; assumption.
Qed.

Lemma cstep_tx : forall pa bufsize m now hp x log,
  cstep_g pa bufsize m (CTx now hp) = Ok (x, log) ->
  exists o, snd x = OTx o /\ dp_transmit_g pa bufsize m now hp = Ok (fst x, o, log).
Proof.
  intros pa bufsize m now hp x log H. cbn [cstep_g] in H.
  destruct (dp_transmit_g pa bufsize m now hp) as [[[m1 o] lg]| |]; cbn [bind fst snd] in H; try discriminate H.
  inversion H; subst. exists o. split; reflexivity.
Qed.

Lemma cstep_rx : forall pa bufsize m a t x log,
  cstep_g pa bufsize m (CRx a t) = Ok (x, log) ->
  snd x = OUnit /\ dp_receive_reply_g m a t = Ok (fst x, log).
Proof.
  intros pa bufsize m a t x log H. cbn [cstep_g] in H.
  destruct (dp_receive_reply_g m a t) as [[m1 lg]| |]; cbn [bind] in H; try discriminate H.
  inversion H; subst. split; reflexivity.
Qed.

(* ------------------------------------------------------------------ the cycle monitor accepts every history *)

Lemma pos_rem_events : forall m e, pos_rem (set_events m e) = pos_rem m.
Proof. reflexivity. Qed.

Lemma cycle_inv_take : forall auto occ c m rem,
  cycle_inv occ m rem -> cycle_inv occ (fst (auto_take_m auto c m)) rem.
Proof.
  intros auto occ c m rem H. unfold auto_take_m. destruct (auto && is_bus c); [|exact H].
  cbn. exact H.
Qed.

Lemma cycle_step : forall auto pa bufsize occ m rem c x log,
  cycle_inv occ m rem -> cstep_g pa bufsize m c = Ok (x, log) ->
  exists rem', cycle_item occ rem (mk_item auto m c x log) = Some rem' /\
               cycle_inv occ (it_m (mk_item auto m c x log)) rem'.
Proof.
  intros auto pa bufsize occ m rem c x log (Hrem & Hocc & Hcc) H.
  unfold mk_item. cbn [it_m]. unfold cycle_item, sched_ran, reported. cbn [it_cb it_log it_pre it_post].
  destruct c as [now hp|a t|a| |h|h q|s].
  - destruct (cstep_tx _ _ _ _ _ _ _ H) as (o & _ & Hg).
    destruct (dp_transmit_g_cases _ _ _ _ _ _ _ _ Hg) as
      [(Hop & Hm & _ & ->)|[(Hop & _ & _ & Hm & -> & _)|(Hop & _ & Hrel)]].
    + rewrite Hop. cbn [turn_entries opstate_eqb opstate_code Z.eqb negb andb]. rewrite Hm.
      cbn [dm_events set_events ev_cycle_completed events_default]. exists rem. split; [reflexivity|].
      apply cycle_inv_take. rewrite <- Hm. rewrite Hm. split; [exact Hrem|]. split; assumption.
    + cbn [turn_entries turn_entry existsb is_gc orb negb]. rewrite Bool.andb_false_r. cbn [andb].
      rewrite Hm. cbn [dm_events set_events ev_cycle_completed events_default]. exists rem.
      split; [reflexivity|]. apply cycle_inv_take. split; [exact Hrem|]. split; assumption.
    + assert (Hinv : dm_cycle m = CyCompleted -> occupied m <> []) by (rewrite Hocc; exact Hcc).
      destruct (tx_rel_cycle _ _ _ _ _ _ Hrel Hinv) as (rem' & Ht & Hmask & Hncc & Hpost).
      rewrite Hrem, Ht. rewrite (tx_rel_no_gc _ _ _ _ _ _ Hrel).
      assert (Hs : opstate_eqb (dm_op m) OpStop = false).
      { destruct (opstate_eqb (dm_op m) OpStop) eqn:E; [|reflexivity]. apply opstate_eqb_true in E. now elim Hop. }
      rewrite Hs. cbn [negb andb].
      assert (Hocc' : occupied (fst x) = occ) by (rewrite <- Hocc; apply occupied_of_mask; exact Hmask).
      destruct (ev_cycle_completed (dm_events (fst x))).
      * destruct Hpost as [-> Hp]. cbn [is_nil]. exists occ. split; [reflexivity|].
        apply cycle_inv_take. split; [rewrite Hp; symmetry; exact Hocc'|]. split; [exact Hocc'|].
        intro E. now elim Hncc.
      * destruct Hpost as [Hne Hp]. destruct rem' as [|a r]; [now elim Hne|]. cbn [is_nil].
        exists (a :: r). split; [reflexivity|]. apply cycle_inv_take. split; [symmetry; exact Hp|].
        split; [exact Hocc'|]. intro E. now elim Hncc.
  - destruct (cstep_rx _ _ _ _ _ _ _ H) as (_ & Hg).
    destruct (rx_cases _ _ _ _ _ Hg) as (index & hd & p & p1 & ev & m2 & cc & Hc & Hgi & _ & _ & Hi & Hm & ->).
    destruct (cur_slot _ _ _ _ Hc Hgi) as (r & Hr & Hsl & _).
    destruct (put_cur_facts m hd p p1 Hsl) as (Hmk & Hcy & Hpr & Hoc).
    rewrite Hc in Hcy. pose proof Hpr as Hpr'. rewrite Hr in Hpr'.
    destruct (increment_pos _ _ _ _ _ _ Hcy Hpr' Hi) as (Hsl2 & _ & _ & _ & Hcase).
    rewrite Hrem, Hr. cbn [turn_entries turn_entry]. rewrite nat_eqb_refl'. cbn [andb].
    assert (Hocc' : occupied (fst x) = occ).
    { rewrite Hm. rewrite <- Hocc, <- Hoc. apply occupied_of_mask. unfold mask. cbn. rewrite Hsl2. reflexivity. }
    rewrite Hm. cbn [dm_events set_events ev_cycle_completed]. destruct cc.
    + destruct Hcase as [Hc2 ->]. cbn [is_nil]. exists occ. split; [reflexivity|].
      apply cycle_inv_take. split; [|split].
      * unfold pos_rem. cbn [dm_cycle set_events]. rewrite Hc2. rewrite <- Hm. symmetry; exact Hocc'.
      * rewrite <- Hm. exact Hocc'.
      * intros _. rewrite <- Hocc. unfold pos_rem in Hr. rewrite Hc in Hr. eapply pos_rem_occupied. exact Hr.
    + destruct Hcase as (Hne & Hp2 & b & Hb). destruct r as [|a' r']; [now elim Hne|]. cbn [is_nil].
      exists (a' :: r'). split; [reflexivity|]. apply cycle_inv_take. split; [|split].
      * rewrite pos_rem_events. symmetry; exact Hp2.
      * rewrite <- Hm. exact Hocc'.
      * cbn [dm_cycle set_events]. rewrite Hb. discriminate.
  - pose proof (other_cases _ _ _ _ _ _ H) as Ho. cbn beta iota in Ho. destruct Ho as [-> Ho].
    cbn [turn_entries andb ev_cycle_completed events_default]. exists rem. split; [reflexivity|].
    apply cycle_inv_take.
    destruct Ho as [->|[->|[Hu|[s' ->]]]]; try (split; [exact Hrem|split; assumption]).
    destruct (user_upd_mask _ _ Hu) as (Hmk & Hcy & _).
    split; [rewrite Hrem; symmetry; apply pos_rem_mask; assumption|].
    split; [rewrite <- Hocc; apply occupied_of_mask; exact Hmk|]. rewrite Hcy. exact Hcc.
  - pose proof (other_cases _ _ _ _ _ _ H) as Ho. cbn beta iota in Ho. destruct Ho as [-> Ho].
    cbn [turn_entries andb ev_cycle_completed events_default]. exists rem. split; [reflexivity|].
    apply cycle_inv_take.
    destruct Ho as [->|[->|[Hu|[s' ->]]]]; try (split; [exact Hrem|split; assumption]).
    destruct (user_upd_mask _ _ Hu) as (Hmk & Hcy & _).
    split; [rewrite Hrem; symmetry; apply pos_rem_mask; assumption|].
    split; [rewrite <- Hocc; apply occupied_of_mask; exact Hmk|]. rewrite Hcy. exact Hcc.
  - pose proof (other_cases _ _ _ _ _ _ H) as Ho. cbn beta iota in Ho. destruct Ho as [-> Ho].
    cbn [turn_entries andb ev_cycle_completed events_default]. exists rem. split; [reflexivity|].
    apply cycle_inv_take.
    destruct Ho as [->|[->|[Hu|[s' ->]]]]; try (split; [exact Hrem|split; assumption]).
    destruct (user_upd_mask _ _ Hu) as (Hmk & Hcy & _).
    split; [rewrite Hrem; symmetry; apply pos_rem_mask; assumption|].
    split; [rewrite <- Hocc; apply occupied_of_mask; exact Hmk|]. rewrite Hcy. exact Hcc.
  - pose proof (other_cases _ _ _ _ _ _ H) as Ho. cbn beta iota in Ho. destruct Ho as [-> Ho].
    cbn [turn_entries andb ev_cycle_completed events_default]. exists rem. split; [reflexivity|].
    apply cycle_inv_take.
    destruct Ho as [->|[->|[Hu|[s' ->]]]]; try (split; [exact Hrem|split; assumption]).
    destruct (user_upd_mask _ _ Hu) as (Hmk & Hcy & _).
    split; [rewrite Hrem; symmetry; apply pos_rem_mask; assumption|].
    split; [rewrite <- Hocc; apply occupied_of_mask; exact Hmk|]. rewrite Hcy. exact Hcc.
  - pose proof (other_cases _ _ _ _ _ _ H) as Ho. cbn beta iota in Ho. destruct Ho as [-> Ho].
    cbn [turn_entries andb ev_cycle_completed events_default]. exists rem. split; [reflexivity|].
    apply cycle_inv_take.
    destruct Ho as [->|[->|[Hu|[s' ->]]]]; try (split; [exact Hrem|split; assumption]).
    destruct (user_upd_mask _ _ Hu) as (Hmk & Hcy & _).
    split; [rewrite Hrem; symmetry; apply pos_rem_mask; assumption|].
    split; [rewrite <- Hocc; apply occupied_of_mask; exact Hmk|]. rewrite Hcy. exact Hcc.
Qed.

Theorem one_turn_each_history : forall auto pa bufsize m0 cbs tr,
  (dm_cycle m0 = CyCompleted -> occupied m0 <> []) ->
  run_g auto pa bufsize m0 cbs = Ok tr ->
  accepts (list nat) (cycle_inv (occupied m0)) (cycle_item (occupied m0)) (pos_rem m0) m0 tr.
Proof.
  intros auto pa bufsize m0 cbs tr Hinv H.
  eapply (lift auto pa bufsize); [|split; [reflexivity|split; [reflexivity|exact Hinv]]|exact H].
  intros m s c x log HI Hc. eapply cycle_step; eassumption.
Qed.

(* ------------------------------------------------------------------ lifting per-item properties *)

Section LiftP.
Variables (auto : bool) (pa : params) (bufsize : nat).
Variable I : dpm -> Prop.
Variable P : item -> Prop.
Hypothesis Hstep : forall m c x log,
  I m -> cstep_g pa bufsize m c = Ok (x, log) ->
  P (mk_item auto m c x log) /\ I (it_m (mk_item auto m c x log)).

Lemma liftP : forall cbs m tr, I m -> run_g auto pa bufsize m cbs = Ok tr -> Forall P tr /\ I (final m tr).
Proof.
  induction cbs as [|c r IH]; intros m tr HI H; cbn [run_g] in H.
  - inversion H; subst. split; [constructor|exact HI].
  - destruct (cstep_g pa bufsize m c) as [[x log]| |] eqn:Hc; cbn [bind] in H; try discriminate H.
    destruct (run_g auto pa bufsize _ r) as [tr'| |] eqn:Hr; cbn [bind] in H; try discriminate H.
    inversion H; subst. destruct (Hstep _ _ _ _ HI Hc) as [HP HI'].
    destruct (IH _ _ HI' Hr) as [HF Hfin]. split; [constructor; assumption|exact Hfin].
Qed.
End LiftP.

(* ------------------------------------------------------------------ C14_no_event_lost *)

Definition opt_list {A} (o : option A) : list A := match o with Some x => [x] | None => [] end.

(* events the peripherals produced in this callback: the Some(event) results of
   Peripheral::transmit_telegram / Peripheral::receive_reply, with the handle of the slot *)
Definition entry_event (e : gent) : list (handle * pevent) :=
  match e with
  | GSkip i p _ (Some ev) => [(mkHandle i (pe_addr p), ev)]
  | GReply i p _ _ (Some ev) => [(mkHandle i (pe_addr p), ev)]
  | _ => []
  end.
Definition produced (it : item) : list (handle * pevent) := flat_map entry_event (it_log it).

(* events the application collected at this item: an explicit take_last_events() and the one that follows
   every FdlApplication callback in auto mode *)
Definition taken_events (it : item) : list dpevents :=
  (match it_out it with OEvents e => [e] | _ => [] end) ++ opt_list (it_taken it).
Definition collected (it : item) : list (handle * pevent) :=
  flat_map (fun e => opt_list (ev_peripheral e)) (taken_events it).
Definition collected_cc (it : item) : nat :=
  length (filter ev_cycle_completed (taken_events it)).

Definition bool_nat (b : bool) : nat := if b then 1%nat else 0%nat.

Definition accounted (it : item) : Prop :=
  collected it = produced it /\ collected_cc it = bool_nat (ev_cycle_completed (reported it)).

Lemma handle_eta : forall hd p, hd_addr hd = pe_addr p -> mkHandle (hd_index hd) (pe_addr p) = hd.
Proof. intros [i a] p H. cbn in *. subst. reflexivity. Qed.

Lemma entry_event_skip : forall hd p p1 ev, hd_addr hd = pe_addr p ->
  entry_event (GSkip (hd_index hd) p p1 ev) = opt_list (opt_pair hd ev).
Proof. intros hd p p1 [e|] H; cbn; [rewrite (handle_eta _ _ H)|]; reflexivity. Qed.

Lemma tx_rel_events : forall pa bufsize m m' o log,
  tx_rel pa bufsize m m' o log -> flat_map entry_event log = opt_list (ev_peripheral (dm_events m')).
Proof.
  intros pa bufsize m m' o log H. induction H as
    [m Hc|m index Hc Hg|m index hd p p1 h pdu o Hc Hg Hp Hs|m index hd p p1 ev m2 Hc Hg Hp Hi
    |m index hd p p1 e m2 Hc Hg Hp Hi|m index hd p p1 m2 m' o log Hc Hg Hp Hi Hrel IH];
    try reflexivity.
  - destruct (cur_slot _ _ _ _ Hc Hg) as (r & _ & _ & Ha).
    cbn [flat_map]. rewrite (entry_event_skip _ _ _ _ Ha). rewrite app_nil_r. reflexivity.
  - destruct (cur_slot _ _ _ _ Hc Hg) as (r & _ & _ & Ha).
    cbn [flat_map]. rewrite (entry_event_skip _ _ _ _ Ha). rewrite app_nil_r. reflexivity.
  - cbn [flat_map entry_event app]. exact IH.
Qed.

Lemma accounted_step : forall pa bufsize m c x log,
  dm_events m = events_default -> cstep_g pa bufsize m c = Ok (x, log) ->
  accounted (mk_item true m c x log) /\ dm_events (it_m (mk_item true m c x log)) = events_default.
Proof.
  intros pa bufsize m c x log He H.
  unfold accounted, collected, collected_cc, taken_events, produced, reported, mk_item.
  cbn [it_out it_taken it_log it_cb it_post it_m].
  destruct c as [now hp|a t|a| |h|h q|s].
  - destruct (cstep_tx _ _ _ _ _ _ _ H) as (o & Ho & Hg). rewrite Ho.
    unfold auto_take_m. cbn [andb is_bus fst snd dp_take_last_events opt_list app flat_map filter].
    split; [|reflexivity]. rewrite app_nil_r.
    destruct (dp_transmit_g_cases _ _ _ _ _ _ _ _ Hg) as
      [(_ & Hm & _ & ->)|[(_ & _ & _ & Hm & -> & _)|(_ & _ & Hrel)]].
    + rewrite Hm. split; reflexivity.
    + rewrite Hm. split; reflexivity.
    + rewrite (tx_rel_events _ _ _ _ _ _ Hrel). split; [reflexivity|].
      destruct (ev_cycle_completed (dm_events (fst x))); reflexivity.
  - destruct (cstep_rx _ _ _ _ _ _ _ H) as (Ho & Hg). rewrite Ho.
    unfold auto_take_m. cbn [andb is_bus fst snd dp_take_last_events opt_list app flat_map filter].
    split; [|reflexivity]. rewrite app_nil_r.
    destruct (rx_cases _ _ _ _ _ Hg) as (index & hd & p & p1 & ev & m2 & cc & Hc & Hgi & _ & _ & Hi & Hm & ->).
    destruct (cur_slot _ _ _ _ Hc Hgi) as (r & _ & _ & Ha).
    rewrite Hm. cbn [dm_events set_events ev_peripheral ev_cycle_completed flat_map entry_event].
    split; [|destruct cc; reflexivity].
    destruct ev as [e|]; cbn; [rewrite (handle_eta _ _ Ha)|]; reflexivity.
  - cbn in H. inversion H; subst. cbn. rewrite He. cbn. split; [split; reflexivity|reflexivity].
  - cbn in H. inversion H; subst. cbn. rewrite He. cbn. split; [split; reflexivity|reflexivity].
  - pose proof (other_cases _ _ _ _ _ _ H) as Ho. cbn beta iota in Ho. destruct Ho as [-> Ho].
    assert (Hx : snd x = OUnit).
    { cbn [cstep_g cstep] in H. destruct (dp_request_diagnostics m h); cbn [bind] in H; try discriminate H.
      inversion H; reflexivity. }
    rewrite Hx. cbn. split; [split; reflexivity|].
    destruct Ho as [->|[->|[Hu|[s' ->]]]]; try assumption; try reflexivity.
    destruct (user_upd_mask _ _ Hu) as (_ & _ & Hev & _). rewrite Hev. exact He.
  - pose proof (other_cases _ _ _ _ _ _ H) as Ho. cbn beta iota in Ho. destruct Ho as [-> Ho].
    assert (Hx : snd x = OUnit).
    { cbn [cstep_g cstep] in H. destruct (dp_write_q m h q); cbn [bind] in H; try discriminate H.
      inversion H; reflexivity. }
    rewrite Hx. cbn. split; [split; reflexivity|].
    destruct Ho as [->|[->|[Hu|[s' ->]]]]; try assumption; try reflexivity.
    destruct (user_upd_mask _ _ Hu) as (_ & _ & Hev & _). rewrite Hev. exact He.
  - cbn in H. inversion H; subst. cbn. split; [split; reflexivity|exact He].
Qed.

Theorem no_event_lost_history : forall pa bufsize m0 cbs tr,
  dm_events m0 = events_default ->
  run_g true pa bufsize m0 cbs = Ok tr ->
  Forall accounted tr /\
  flat_map collected tr = flat_map produced tr /\
  fold_right (fun it n => (collected_cc it + n)%nat) 0%nat tr =
  fold_right (fun it n => (bool_nat (ev_cycle_completed (reported it)) + n)%nat) 0%nat tr.
Proof.
  intros pa bufsize m0 cbs tr He H.
  destruct (liftP true pa bufsize (fun m => dm_events m = events_default) accounted
              (accounted_step pa bufsize) cbs m0 tr He H) as [HF _].
  split; [exact HF|]. clear H. induction HF as [|it r [Hc Hn] _ [IH1 IH2]]; [split; reflexivity|].
  cbn [flat_map fold_right]. rewrite Hc, IH1, Hn, IH2. split; reflexivity.
Qed.

(* ------------------------------------------------------------------ C14_lifecycle *)

(* which (state, event, next state) triples Peripheral::receive_reply can produce *)
Definition rx_allowed (s : pstate) (ev : option pevent) (s1 : pstate) : bool :=
  match s, ev, s1 with
  | PsOffline, Some EvOnline, PsWaitForParam => true
  | PsOffline, None, PsOffline => true
  | PsWaitForParam, None, PsWaitForConfig => true
  | PsWaitForParam, None, PsWaitForParam => true
  | PsWaitForConfig, None, PsValidateConfig => true
  | PsWaitForConfig, None, PsWaitForConfig => true
  | PsValidateConfig, Some EvParameterError, PsOffline => true
  | PsValidateConfig, Some EvConfigError, PsOffline => true
  | PsValidateConfig, None, PsWaitForParam => true
  | PsValidateConfig, Some EvConfigured, PsPreDataExchange => true
  | PsValidateConfig, None, PsValidateConfig => true
  | PsPreDataExchange, Some EvDiagnostics, PsPreDataExchange => true
  | PsPreDataExchange, Some EvDiagnostics, PsWaitForParam => true
  | PsPreDataExchange, None, PsPreDataExchange => true
  | PsPreDataExchange, Some EvDataExchanged, PsDataExchange => true
  | PsPreDataExchange, None, PsValidateConfig => true
  | PsDataExchange, Some EvDiagnostics, PsDataExchange => true
  | PsDataExchange, Some EvDiagnostics, PsWaitForParam => true
  | PsDataExchange, None, PsDataExchange => true
  | PsDataExchange, Some EvDataExchanged, PsDataExchange => true
  | PsDataExchange, None, PsValidateConfig => true
  | _, _, _ => false
  end.

Lemma validate_outcome_allowed : forall f,
  rx_allowed PsValidateConfig (snd (validate_outcome f)) (fst (validate_outcome f)) = true.
Proof.
  intro f. unfold validate_outcome.
  repeat match goal with |- context [if ?c then _ else _] => destruct c end; reflexivity.
Qed.

Lemma receive_dx_outcome : forall p t p1 ev,
  p_receive_dx p t = Ok (p1, ev) ->
  (ev = Some EvDataExchanged /\ pe_state p1 = PsDataExchange) \/
  (ev = None /\ (pe_state p1 = pe_state p \/ pe_state p1 = PsValidateConfig)).
Proof.
  intros p t p1 ev H. unfold p_receive_dx in H.
  destruct t as [h pdu| |].
  - destruct (h_fc h) as [|st s]; [discriminate|].
    destruct s; cbn [fst snd] in H;
    repeat match type of H with
           | context [if ?c then _ else _] => destruct c eqn:?
           end;
    unfold copy_from_slice, bind in H;
    repeat match type of H with
           | context [if ?c then _ else _] => destruct c eqn:?
           end;
    try discriminate; inversion H; subst; cbn; auto.
  - discriminate.
  - destruct (negb (length (pe_pi_i p) =? 0)%nat); inversion H; subst; cbn; auto.
Qed.

Lemma receive_reply_outcome : forall p t p1 ev,
  p_receive_reply p t = Ok (p1, ev) ->
  rx_allowed (pe_state p) ev (pe_state p1) = true /\
  (pe_state p1 = PsOffline -> pe_state p = PsOffline /\ pe_retry p1 = pe_retry p \/ pe_retry p1 = 0) /\
  pe_addr p1 = pe_addr p.
Proof.
  intros p t p1 ev H. unfold p_receive_reply in H.
  destruct (pe_state p) eqn:Hst.
  - unfold bind in H. destruct (p_handle_diag p t) as [[p2 d]| |] eqn:Hd; try discriminate.
    apply handle_diag_frame in Hd. destruct Hd as (Ha & Hs & Hr & _ & _ & _ & _ & _ & Hn & _).
    destruct d; inversion H; subst; cbn.
    + split; [reflexivity|]. split; [discriminate|exact Ha].
    + rewrite (Hn eq_refl). rewrite Hst. split; [reflexivity|]. split; [left; split; reflexivity|reflexivity].
  - destruct (is_sc t); unfold bind in H.
    + destruct (fcb_cycle (pe_fcb p)); try discriminate. inversion H; subst. cbn.
      split; [reflexivity|]. split; [discriminate|reflexivity].
    + inversion H; subst. rewrite Hst. split; [reflexivity|]. split; [discriminate|reflexivity].
  - destruct (is_sc t); unfold bind in H.
    + destruct (fcb_cycle (pe_fcb p)); try discriminate. inversion H; subst. cbn.
      split; [reflexivity|]. split; [discriminate|reflexivity].
    + inversion H; subst. rewrite Hst. split; [reflexivity|]. split; [discriminate|reflexivity].
  - unfold bind in H. destruct (p_handle_diag (set_retry p 0) t) as [[p2 d]| |] eqn:Hd; try discriminate.
    apply handle_diag_frame in Hd. destruct Hd as (Ha & Hs & Hr & _).
    destruct d.
    + pose proof (validate_outcome_allowed (d_flags d)) as Hv.
      destruct (validate_outcome (d_flags d)) as [s e]. inversion H; subst; cbn in *.
      split; [exact Hv|]. split; [intros _; right; exact Hr|exact Ha].
    + inversion H; subst; cbn. split; [reflexivity|]. split; [discriminate|exact Ha].
  - destruct (pe_diag_in_flight p) eqn:Hfl; unfold bind in H.
    + destruct (p_handle_diag p t) as [[p2 d]| |] eqn:Hd; try discriminate.
      apply handle_diag_frame in Hd. destruct Hd as (Ha & Hs & Hr & _ & _ & _ & _ & _ & Hn & _).
      destruct d.
      * destruct (flags_contains (d_flags d) DF_PARAMETER_REQUIRED); inversion H; subst; cbn;
          rewrite ?Hs, ?Hst; (split; [reflexivity|]); (split; [discriminate|exact Ha]).
      * inversion H; subst. rewrite (Hn eq_refl), Hst. split; [reflexivity|]. split; [discriminate|reflexivity].
    + destruct (p_receive_dx p t) as [[p2 e1]| |] eqn:Hdx; try discriminate.
      pose proof (receive_dx_outcome _ _ _ _ Hdx) as Ho.
      apply receive_dx_frame in Hdx. destruct Hdx as (_ & _ & _ & Ha & _).
      destruct (fcb_cycle (pe_fcb (set_retry p2 0))); try discriminate.
      inversion H; subst. cbn. rewrite Hst in Ho.
      destruct Ho as [[-> ->]|[-> [->| ->]]]; (split; [reflexivity|]); (split; [discriminate|exact Ha]).
  - destruct (pe_diag_in_flight p) eqn:Hfl; unfold bind in H.
    + destruct (p_handle_diag p t) as [[p2 d]| |] eqn:Hd; try discriminate.
      apply handle_diag_frame in Hd. destruct Hd as (Ha & Hs & Hr & _ & _ & _ & _ & _ & Hn & _).
      destruct d.
      * destruct (flags_contains (d_flags d) DF_PARAMETER_REQUIRED); inversion H; subst; cbn;
          rewrite ?Hs, ?Hst; (split; [reflexivity|]); (split; [discriminate|exact Ha]).
      * inversion H; subst. rewrite (Hn eq_refl), Hst. split; [reflexivity|]. split; [discriminate|reflexivity].
    + destruct (p_receive_dx p t) as [[p2 e1]| |] eqn:Hdx; try discriminate.
      pose proof (receive_dx_outcome _ _ _ _ Hdx) as Ho.
      apply receive_dx_frame in Hdx. destruct Hdx as (_ & _ & _ & Ha & _).
      destruct (fcb_cycle (pe_fcb (set_retry p2 0))); try discriminate.
      inversion H; subst. cbn. rewrite Hst in Ho.
      destruct Ho as [[-> ->]|[-> [->| ->]]]; (split; [reflexivity|]); (split; [discriminate|exact Ha]).
Qed.

(* the automaton state a peripheral state is compatible with: Off = not live; Cfg is required in the two
   data exchange states; On or Cfg otherwise (Cfg remains after a re-validation / re-parameterisation) *)
Definition agree_b (l : lstate) (s : pstate) : bool :=
  match s with
  | PsOffline => lstate_eqb l LOff
  | PsPreDataExchange | PsDataExchange => lstate_eqb l LCfg
  | _ => negb (lstate_eqb l LOff)
  end.

Lemma rx_allowed_life : forall l s ev s1,
  agree_b l s = true -> rx_allowed s ev s1 = true ->
  match ev with
  | Some e => match l_step l e with Some l' => agree_b l' s1 | None => false end
  | None => agree_b l s1
  end = true.
Proof.
  intros l s ev s1. destruct l, s, ev as [[]|], s1; cbn; intros H1 H2; try reflexivity; try discriminate.
Qed.

Definition agree (l : lstate) (p : periph) : Prop :=
  agree_b l (pe_state p) = true /\ (pe_state p = PsOffline -> pe_retry p <= 1).

(* the public reading: is_live / is_running *)
Lemma agree_public : forall l p, agree l p ->
  is_live p = negb (lstate_eqb l LOff) /\ (is_running p = true -> l = LCfg) /\
  (l = LOff <-> pe_state p = PsOffline).
Proof.
  intros l p [H _]. unfold is_live, is_running. destruct l, (pe_state p); cbn in *; try discriminate H;
    repeat split; try reflexivity; try discriminate; intros; discriminate.
Qed.

Lemma rx_agree : forall l p t p1 ev,
  agree l p -> p_receive_reply p t = Ok (p1, ev) ->
  match ev with
  | Some e => exists l', l_step l e = Some l' /\ agree l' p1
  | None => agree l p1
  end.
Proof.
  intros l p t p1 ev [Ha Hr] H. destruct (receive_reply_outcome _ _ _ _ H) as (Hal & Hoff & _).
  pose proof (rx_allowed_life _ _ _ _ Ha Hal) as Hl.
  assert (Hretry : pe_state p1 = PsOffline -> pe_retry p1 <= 1).
  { intro E. destruct (Hoff E) as [[E1 E2]|E2]; [rewrite E2; apply Hr; exact E1|lia]. }
  destruct ev as [e|].
  - destruct (l_step l e) as [l'|]; [|discriminate Hl]. exists l'. split; [reflexivity|]. split; assumption.
  - split; assumption.
Qed.

Lemma offline_send_retry : forall pa op p p' h pdu,
  p_transmit pa op p = Ok (p', PtxSend h pdu) -> pe_state p = PsOffline -> pe_retry p = 0.
Proof.
  intros pa op p p' h pdu H Hst. unfold p_transmit in H.
  destruct (opstate_eqb op OpStop); [discriminate|].
  unfold p_transmit_select in H. rewrite Hst in H.
  destruct (dp_retry_exhausted (pe_retry p) (p_max_retry pa)); [discriminate|].
  destruct (pe_retry p =? dp_offline_probe_retry) eqn:E; [|discriminate].
  apply Z.eqb_eq in E. exact E.
Qed.

Lemma tx_agree : forall pa op l p p1 r,
  1 <= p_max_retry pa -> agree l p -> p_transmit pa op p = Ok (p1, r) ->
  match r with
  | PtxSkip (Some e) => exists l', l_step l e = Some l' /\ agree l' p1
  | _ => agree l p1
  end.
Proof.
  intros pa op l p p1 r Hmax [Ha Hr] H. pose proof (transmit_spec _ _ _ _ _ H) as Hs.
  destruct r as [h pdu|[e|]].
  - destruct Hs as (_ & _ & _ & _ & _ & Hre & Hst). split; [rewrite Hst; exact Ha|].
    intro E. rewrite Hst in E. rewrite Hre. rewrite (offline_send_retry _ _ _ _ _ _ H E). lia.
  - destruct Hs as (-> & Hex & _ & Hst & Hre).
    assert (Hlive : pe_state p <> PsOffline).
    { intro E. specialize (Hr E). unfold dp_retry_exhausted in Hex. apply Z.ltb_lt in Hex. lia. }
    destruct l; destruct (pe_state p); cbn in Ha; try discriminate Ha; try (now elim Hlive);
      (eexists; split; [reflexivity|]; split; [rewrite Hst; reflexivity|intros _; rewrite Hre; lia]).
  - destruct Hs as (_ & Hre & Hst & _). split; [rewrite Hst; exact Ha|]. intros _. rewrite Hre. lia.
Qed.

(* the monitor: per slot the state of the life-cycle automaton DpOracle.l_step *)
Definition upd (f : nat -> lstate) (i : nat) (l : lstate) : nat -> lstate :=
  fun j => if Nat.eqb j i then l else f j.

Fixpoint life_events (life : nat -> lstate) (evs : list (handle * pevent)) : option (nat -> lstate) :=
  match evs with
  | [] => Some life
  | (h, ev) :: r =>
      match l_step (life (hd_index h)) ev with
      | Some l' => life_events (upd life (hd_index h) l') r
      | None => None
      end
  end.

Definition life_item (life : nat -> lstate) (it : item) : option (nat -> lstate) :=
  life_events life (produced it).

Definition life_inv (m : dpm) (life : nat -> lstate) : Prop :=
  forall i p, slot m i = Some p -> agree (life i) p.

Lemma life_inv_put : forall m life i p p1 l',
  life_inv m life -> slot m i = Some p -> agree l' p1 ->
  life_inv (set_slots m (put_slot (dm_slots m) i p1)) (upd life i l').
Proof.
  intros m life i p p1 l' HI Hs Ha j q Hq. unfold upd.
  destruct (Nat.eqb j i) eqn:E.
  - apply Nat.eqb_eq in E. subst j. rewrite (slot_put_same _ _ p1 _ Hs) in Hq. inversion Hq; subst. exact Ha.
  - apply Nat.eqb_neq in E. rewrite slot_put_other in Hq by (intro; subst; now elim E). apply HI. exact Hq.
Qed.

Lemma life_inv_put_same : forall m life i p p1,
  life_inv m life -> slot m i = Some p -> agree (life i) p1 ->
  life_inv (set_slots m (put_slot (dm_slots m) i p1)) life.
Proof.
  intros m life i p p1 HI Hs Ha j q Hq.
  destruct (Nat.eqb j i) eqn:E.
  - apply Nat.eqb_eq in E. subst j. rewrite (slot_put_same _ _ p1 _ Hs) in Hq. inversion Hq; subst. exact Ha.
  - apply Nat.eqb_neq in E. rewrite slot_put_other in Hq by (intro; subst; now elim E). apply HI. exact Hq.
Qed.

Lemma life_inv_slots : forall m m' life, dm_slots m' = dm_slots m -> life_inv m life -> life_inv m' life.
Proof. intros m m' life H HI i p Hs. apply HI. unfold slot in *. rewrite <- H. exact Hs. Qed.

Lemma tx_rel_life : forall pa bufsize m m' o log,
  1 <= p_max_retry pa ->
  tx_rel pa bufsize m m' o log -> forall life, life_inv m life ->
  exists life', life_events life (flat_map entry_event log) = Some life' /\ life_inv m' life'.
Proof.
  intros pa bufsize m m' o log Hmax H. induction H as
    [m Hc|m index Hc Hg|m index hd p p1 h pdu o Hc Hg Hp Hs|m index hd p p1 ev m2 Hc Hg Hp Hi
    |m index hd p p1 e m2 Hc Hg Hp Hi|m index hd p p1 m2 m' o log Hc Hg Hp Hi Hrel IH]; intros life HI.
  - exists life. split; [reflexivity|]. eapply life_inv_slots; [|exact HI]. reflexivity.
  - exists life. split; [reflexivity|]. eapply life_inv_slots; [|exact HI]. reflexivity.
  - destruct (cur_slot _ _ _ _ Hc Hg) as (r & _ & Hsl & _).
    exists life. split; [reflexivity|].
    pose proof (tx_agree _ _ _ _ _ _ Hmax (HI _ _ Hsl) Hp) as Ha. cbn beta iota in Ha.
    eapply life_inv_slots; [|eapply life_inv_put_same; eassumption]. reflexivity.
  - destruct (cur_slot _ _ _ _ Hc Hg) as (r & Hr & Hsl & Hadr).
    destruct (put_cur_facts m hd p p1 Hsl) as (_ & Hcy & Hpr & _). rewrite Hc in Hcy. rewrite Hr in Hpr.
    destruct (increment_pos _ _ _ _ _ _ Hcy Hpr Hi) as (Hsl2 & _).
    pose proof (tx_agree _ _ _ _ _ _ Hmax (HI _ _ Hsl) Hp) as Ha.
    cbn [flat_map]. rewrite app_nil_r. rewrite (entry_event_skip _ _ _ _ Hadr).
    destruct ev as [e|]; cbn [opt_pair opt_list life_events].
    + destruct Ha as (l' & Hl & Ha). rewrite Hl. eexists. split; [reflexivity|].
      eapply life_inv_slots; [|eapply life_inv_put; eassumption]. cbn. rewrite Hsl2. reflexivity.
    + eexists. split; [reflexivity|].
      eapply life_inv_slots; [|eapply life_inv_put_same; eassumption]. cbn. rewrite Hsl2. reflexivity.
  - destruct (cur_slot _ _ _ _ Hc Hg) as (r & Hr & Hsl & Hadr).
    destruct (put_cur_facts m hd p p1 Hsl) as (_ & Hcy & Hpr & _). rewrite Hc in Hcy. rewrite Hr in Hpr.
    destruct (increment_pos _ _ _ _ _ _ Hcy Hpr Hi) as (Hsl2 & _).
    pose proof (tx_agree _ _ _ _ _ _ Hmax (HI _ _ Hsl) Hp) as Ha.
    cbn [flat_map]. rewrite app_nil_r. rewrite (entry_event_skip _ _ _ _ Hadr).
    cbn [opt_pair opt_list life_events].
    destruct Ha as (l' & Hl & Ha). rewrite Hl. eexists. split; [reflexivity|].
    eapply life_inv_slots; [|eapply life_inv_put; eassumption]. cbn. rewrite Hsl2. reflexivity.
  - destruct (cur_slot _ _ _ _ Hc Hg) as (r & Hr & Hsl & Hadr).
    destruct (put_cur_facts m hd p p1 Hsl) as (_ & Hcy & Hpr & _). rewrite Hc in Hcy. rewrite Hr in Hpr.
    destruct (increment_pos _ _ _ _ _ _ Hcy Hpr Hi) as (Hsl2 & _).
    pose proof (tx_agree _ _ _ _ _ _ Hmax (HI _ _ Hsl) Hp) as Ha. cbn beta iota in Ha.
    cbn [flat_map entry_event app]. apply IH.
    eapply life_inv_slots; [|eapply life_inv_put_same; eassumption]. rewrite Hsl2. reflexivity.
Qed.

Lemma life_inv_events : forall m life e, life_inv m life -> life_inv (set_events m e) life.
Proof. intros. eapply life_inv_slots; [|eassumption]. reflexivity. Qed.

Lemma life_inv_take : forall auto c m life,
  life_inv m life -> life_inv (fst (auto_take_m auto c m)) life.
Proof.
  intros auto c m life H. unfold auto_take_m. destruct (auto && is_bus c); [|exact H].
  cbn. apply life_inv_events. exact H.
Qed.

Lemma same_ctrl_agree : forall l p p', same_ctrl p p' -> agree l p -> agree l p'.
Proof.
  intros l p p' (_ & Hs & Hr & _) [Ha Hb]. unfold agree. rewrite Hs, Hr. split; assumption.
Qed.

Lemma life_step : forall auto pa bufsize m life c x log,
  1 <= p_max_retry pa ->
  life_inv m life -> cstep_g pa bufsize m c = Ok (x, log) ->
  exists life', life_item life (mk_item auto m c x log) = Some life' /\
                life_inv (it_m (mk_item auto m c x log)) life'.
Proof.
  intros auto pa bufsize m life c x log Hmax HI H.
  unfold life_item, produced, mk_item. cbn [it_log it_m].
  destruct c as [now hp|a t|a| |h|h q|s].
  - destruct (cstep_tx _ _ _ _ _ _ _ H) as (o & _ & Hg).
    destruct (dp_transmit_g_cases _ _ _ _ _ _ _ _ Hg) as
      [(_ & Hm & _ & ->)|[(_ & _ & _ & Hm & -> & _)|(_ & _ & Hrel)]].
    + exists life. split; [reflexivity|]. apply life_inv_take. rewrite Hm. apply life_inv_events. exact HI.
    + exists life. split; [reflexivity|]. apply life_inv_take. rewrite Hm.
      eapply life_inv_slots; [|exact HI]. reflexivity.
    + destruct (tx_rel_life _ _ _ _ _ _ Hmax Hrel life HI) as (life' & Hl & HI').
      exists life'. split; [exact Hl|]. apply life_inv_take. exact HI'.
  - destruct (cstep_rx _ _ _ _ _ _ _ H) as (_ & Hg).
    destruct (rx_cases _ _ _ _ _ Hg) as (index & hd & p & p1 & ev & m2 & cc & Hc & Hgi & _ & Hrx & Hi & Hm & ->).
    destruct (cur_slot _ _ _ _ Hc Hgi) as (r & Hr & Hsl & Hadr).
    destruct (put_cur_facts m hd p p1 Hsl) as (_ & Hcy & Hpr & _). rewrite Hc in Hcy. rewrite Hr in Hpr.
    destruct (increment_pos _ _ _ _ _ _ Hcy Hpr Hi) as (Hsl2 & _).
    pose proof (rx_agree _ _ _ _ _ (HI _ _ Hsl) Hrx) as Ha.
    cbn [flat_map entry_event]. rewrite app_nil_r.
    destruct ev as [e|]; cbn [life_events hd_index].
    + destruct Ha as (l' & Hl & Ha). rewrite Hl. eexists. split; [reflexivity|].
      apply life_inv_take. rewrite Hm. apply life_inv_events.
      eapply life_inv_slots; [|eapply life_inv_put; eassumption]. cbn. rewrite Hsl2. reflexivity.
    + eexists. split; [reflexivity|]. apply life_inv_take. rewrite Hm. apply life_inv_events.
      eapply life_inv_slots; [|eapply life_inv_put_same; eassumption]. cbn. rewrite Hsl2. reflexivity.
  - cbn in H. inversion H; subst. exists life. split; [reflexivity|]. apply life_inv_take. exact HI.
  - cbn in H. inversion H; subst. exists life. split; [reflexivity|]. apply life_inv_take.
    apply life_inv_events. exact HI.
  - pose proof (other_cases _ _ _ _ _ _ H) as Ho. cbn beta iota in Ho. destruct Ho as [-> Ho].
    exists life. split; [reflexivity|]. apply life_inv_take.
    destruct Ho as [->|[->|[Hu|[s' ->]]]]; try exact HI; try (apply life_inv_events; exact HI).
    destruct Hu as (i & p & p' & Hs & -> & Hsc). eapply life_inv_put_same; try eassumption.
    eapply same_ctrl_agree; [exact Hsc|]. apply HI. exact Hs.
  - pose proof (other_cases _ _ _ _ _ _ H) as Ho. cbn beta iota in Ho. destruct Ho as [-> Ho].
    exists life. split; [reflexivity|]. apply life_inv_take.
    destruct Ho as [->|[->|[Hu|[s' ->]]]]; try exact HI; try (apply life_inv_events; exact HI).
    destruct Hu as (i & p & p' & Hs & -> & Hsc). eapply life_inv_put_same; try eassumption.
    eapply same_ctrl_agree; [exact Hsc|]. apply HI. exact Hs.
  - cbn in H. inversion H; subst. exists life. split; [reflexivity|]. apply life_inv_take.
    eapply life_inv_slots; [|exact HI]. reflexivity.
Qed.

Theorem lifecycle_history : forall auto pa bufsize m0 life0 cbs tr,
  1 <= p_max_retry pa -> life_inv m0 life0 ->
  run_g auto pa bufsize m0 cbs = Ok tr ->
  accepts (nat -> lstate) life_inv life_item life0 m0 tr.
Proof.
  intros auto pa bufsize m0 life0 cbs tr Hmax HI H.
  eapply (lift auto pa bufsize); [|exact HI|exact H].
  intros m s c x log HI' Hc. eapply life_step; eassumption.
Qed.

(* fresh peripherals (what Peripheral::new produces) start with the automaton in Off *)
Definition fresh (p : periph) : Prop := pe_state p = PsOffline /\ pe_retry p = 0 /\ pe_fcb p <> FcbInactive.

Lemma fresh_life_inv : forall m, (forall i p, slot m i = Some p -> fresh p) -> life_inv m (fun _ => LOff).
Proof.
  intros m H i p Hs. destruct (H _ _ Hs) as (Hst & Hr & _). split; [rewrite Hst; reflexivity|]. intros _. lia.
Qed.

(* ------------------------------------------------------------------ C14_gc_interleaving *)

(* the slot loop leaves operating state and global control time alone *)
Lemma tx_rel_frame : forall pa bufsize m m' o log,
  tx_rel pa bufsize m m' o log -> dm_op m' = dm_op m /\ dm_last_gc m' = dm_last_gc m /\ dm_owned m' = dm_owned m.
Proof.
  intros pa bufsize m m' o log H. induction H as
    [m Hc|m index Hc Hg|m index hd p p1 h pdu o Hc Hg Hp Hs|m index hd p p1 ev m2 Hc Hg Hp Hi
    |m index hd p p1 e m2 Hc Hg Hp Hi|m index hd p p1 m2 m' o log Hc Hg Hp Hi Hrel IH];
    try (repeat split; reflexivity).
  - unfold increment_cycle, bind in Hi. destruct (get_next_index _ _) as [[n|]| |]; inversion Hi; subst.
    repeat split; reflexivity.
  - unfold increment_cycle, bind in Hi. destruct (get_next_index _ _) as [[n|]| |]; inversion Hi; subst.
    repeat split; reflexivity.
  - unfold increment_cycle, bind in Hi. destruct (get_next_index _ _) as [[n|]| |]; inversion Hi; subst.
    destruct IH as (-> & -> & ->). repeat split; reflexivity.
Qed.

Lemma gc_due_spec : forall pa m now,
  gc_due pa m now = Ok true ->
  match dm_last_gc m with
  | None => True
  | Some t0 => slot_time pa * dp_gc_interval_slots <= Z.abs (now - t0)
  end.
Proof.
  intros pa m now H. unfold gc_due in H. destruct (dm_last_gc m) as [t0|]; [|exact I].
  unfold instant_diff, bind in H. destruct (_ || _); [discriminate H|].
  inversion H as [H1]. apply Z.leb_le in H1. exact H1.
Qed.

(* a global control broadcast: only in a transmit call with HighPrioOnly::No of a master that is not
   stopped, when due; it is an SDN request (expects no reply, so nothing will be routed back), the cycle
   position and all peripherals are untouched, the event slot is emptied *)
Lemma gc_broadcast : forall pa bufsize m now hp m' o log,
  dp_transmit_g pa bufsize m now hp = Ok (m', o, log) ->
  existsb is_gc log = true ->
  log = [GGc] /\ hp = false /\ dm_op m <> OpStop /\ gc_due pa m now = Ok true /\
  (exists b w, (b = dp_gc_clear /\ dm_op m = OpClear \/ b = dp_gc_operate /\ dm_op m = OpOperate) /\
               send_data bufsize (gc_header pa) [b; dp_gc_groups] = Ok (w, None) /\ o = Some (w, None)) /\
  dm_cycle m' = dm_cycle m /\ dm_slots m' = dm_slots m /\ pos_rem m' = pos_rem m /\
  dm_events m' = events_default /\ dm_last_gc m' = Some now /\ dm_op m' = dm_op m.
Proof.
  intros pa bufsize m now hp m' o log H Hgc.
  destruct (dp_transmit_g_cases _ _ _ _ _ _ _ _ H) as
    [(_ & _ & _ & ->)|[(Hop & Hhp & Hd & Hm & -> & Hb)|(_ & _ & Hrel)]].
  - discriminate Hgc.
  - subst m'. repeat split; try assumption; try reflexivity.
  - rewrite (tx_rel_no_gc _ _ _ _ _ _ Hrel) in Hgc. discriminate Hgc.
Qed.

(* ... and whenever one is due it is sent, whatever the cycle position *)
Lemma gc_when_due : forall pa bufsize m now,
  dm_op m <> OpStop -> gc_due pa m now = Ok true ->
  match dp_transmit_g pa bufsize m now false with
  | Ok (_, _, log) => log = [GGc]
  | Panic _ => True
  | OutOfFuel => False
  end.
Proof.
  intros pa bufsize m now Hop Hd. unfold dp_transmit_g.
  destruct (opstate_eqb (dm_op m) OpStop) eqn:E; [apply opstate_eqb_true in E; now elim Hop|].
  rewrite Hd. cbn [bind]. destruct (dm_op m); cbn [bind]; try exact I;
    destruct (send_data _ _ _) as [o1| |] eqn:Hs; cbn [bind]; auto; exact (nf_send_data _ _ _ Hs).
Qed.

(* at most one broadcast per interval: monitor state = time of the last broadcast since the last
   enter_state *)
Definition gc_item (pa : params) (last : option Z) (it : item) : option (option Z) :=
  match it_cb it with
  | CEnter _ => Some None
  | CTx now _ =>
      if existsb is_gc (it_log it) then
        match last with
        | Some t0 => if slot_time pa * dp_gc_interval_slots <=? Z.abs (now - t0) then Some (Some now) else None
        | None => Some (Some now)
        end
      else Some last
  | _ => Some last
  end.

Definition gc_inv (m : dpm) (last : option Z) : Prop := dm_last_gc m = last.

Lemma gc_inv_take : forall auto c m last, gc_inv m last -> gc_inv (fst (auto_take_m auto c m)) last.
Proof. intros auto c m last H. unfold auto_take_m. destruct (auto && is_bus c); exact H. Qed.

Lemma gc_step : forall auto pa bufsize m last c x log,
  gc_inv m last -> cstep_g pa bufsize m c = Ok (x, log) ->
  exists last', gc_item pa last (mk_item auto m c x log) = Some last' /\
                gc_inv (it_m (mk_item auto m c x log)) last'.
Proof.
  intros auto pa bufsize m last c x log HI H. unfold gc_item, mk_item. cbn [it_cb it_log it_m].
  destruct c as [now hp|a t|a| |h|h q|s].
  - destruct (cstep_tx _ _ _ _ _ _ _ H) as (o & _ & Hg).
    destruct (dp_transmit_g_cases _ _ _ _ _ _ _ _ Hg) as
      [(_ & Hm & _ & ->)|[(_ & _ & Hd & Hm & -> & _)|(_ & _ & Hrel)]].
    + exists last. split; [reflexivity|]. apply gc_inv_take. rewrite Hm. exact HI.
    + cbn [existsb is_gc orb]. pose proof (gc_due_spec _ _ _ Hd) as Hs. unfold gc_inv in HI. rewrite HI in Hs.
      exists (Some now). split.
      * destruct last as [t0|]; [|reflexivity]. apply Z.leb_le in Hs. rewrite Hs. reflexivity.
      * apply gc_inv_take. rewrite Hm. reflexivity.
    + rewrite (tx_rel_no_gc _ _ _ _ _ _ Hrel). exists last. split; [reflexivity|]. apply gc_inv_take.
      destruct (tx_rel_frame _ _ _ _ _ _ Hrel) as (_ & Hl & _). unfold gc_inv. rewrite Hl. exact HI.
  - destruct (cstep_rx _ _ _ _ _ _ _ H) as (_ & Hg).
    destruct (rx_cases _ _ _ _ _ Hg) as (index & hd & p & p1 & ev & m2 & cc & Hc & Hgi & _ & _ & Hi & Hm & ->).
    exists last. split; [reflexivity|]. apply gc_inv_take. rewrite Hm.
    unfold increment_cycle, bind in Hi. destruct (get_next_index _ _) as [[n|]| |]; inversion Hi; subst; exact HI.
  - cbn in H. inversion H; subst. exists last. split; [reflexivity|]. apply gc_inv_take. exact HI.
  - cbn in H. inversion H; subst. exists last. split; [reflexivity|]. apply gc_inv_take. exact HI.
  - destruct (other_cases_exact _ _ _ _ _ _ H) as (-> & Hu & _).
    exists last. split; [reflexivity|]. apply gc_inv_take.
    destruct (user_upd_mask _ _ Hu) as (_ & _ & _ & _ & Hl). unfold gc_inv. rewrite Hl. exact HI.
  - destruct (other_cases_exact _ _ _ _ _ _ H) as (-> & Hu & _).
    exists last. split; [reflexivity|]. apply gc_inv_take.
    destruct (user_upd_mask _ _ Hu) as (_ & _ & _ & _ & Hl). unfold gc_inv. rewrite Hl. exact HI.
  - destruct (other_cases_exact _ _ _ _ _ _ H) as (-> & Hx & _).
    exists None. split; [reflexivity|]. apply gc_inv_take. rewrite Hx. reflexivity.
Qed.

Theorem gc_interval_history : forall auto pa bufsize m0 cbs tr,
  run_g auto pa bufsize m0 cbs = Ok tr ->
  accepts (option Z) gc_inv (gc_item pa) (dm_last_gc m0) m0 tr.
Proof.
  intros auto pa bufsize m0 cbs tr H.
  eapply (lift auto pa bufsize); [|reflexivity|exact H].
  intros m s c x log HI Hc. eapply gc_step; eassumption.
Qed.

(* ------------------------------------------------------------------ C14_zero_peripherals *)

Lemma find_none_of_occ : forall l j j', occupied_from l j = [] -> find_occupied l j' = None.
Proof.
  induction l as [|x l IH]; intros j j' H; [reflexivity|].
  destruct x as [q|]; cbn in H |- *; [discriminate H|]. eapply IH. exact H.
Qed.

Lemma empty_get_at_index : forall m i, occupied m = [] -> get_at_index (dm_slots m) i = Ok None.
Proof.
  intros m i H. unfold get_at_index. unfold occupied in H.
  pose proof (occ_skip_nil i _ _ H) as H0. rewrite (find_none_of_occ _ _ i H0). reflexivity.
Qed.

(* an empty master (no slot occupied; in particular no slots at all): transmit_telegram returns None at
   once, having reported cycle_completed -- unless it is stopped or a global control broadcast is due *)
Lemma zero_peripherals_tx : forall pa bufsize m now hp index,
  occupied m = [] -> dm_cycle m = CyDataExchange index -> dm_op m <> OpStop ->
  (hp = true \/ gc_due pa m now = Ok false) ->
  dp_transmit pa bufsize m now hp =
    Ok (set_events (set_cycle m (CyDataExchange 0)) (mkEvents true None), None).
Proof.
  intros pa bufsize m now hp index Hocc Hc Hop Hgc. unfold dp_transmit.
  destruct (opstate_eqb (dm_op m) OpStop) eqn:E; [apply opstate_eqb_true in E; now elim Hop|].
  assert (Hd : (if hp then Ok false else gc_due pa m now) = Ok false).
  { destruct Hgc as [->|Hg]; [reflexivity|]. destruct hp; [reflexivity|exact Hg]. }
  rewrite Hd. cbn [bind]. unfold dp_tx_fuel. rewrite Nat.add_comm. cbn [Nat.add dp_tx_loop].
  rewrite Hc. rewrite (empty_get_at_index _ _ Hocc). reflexivity.
Qed.

Definition empty_inv (m : dpm) : Prop := occupied m = [] /\ dm_cycle m <> CyCompleted.

(* in a history of an empty master every transmit call returns None (reporting cycle_completed unless
   stopped) or writes a global control broadcast; a reply is never processed *)
Definition empty_item (it : item) : Prop :=
  match it_cb it with
  | CTx _ _ =>
      (it_out it = OTx None /\ it_log it = [] /\
       (dm_op (it_pre it) = OpStop /\ reported it = events_default \/
        dm_op (it_pre it) <> OpStop /\ reported it = mkEvents true None)) \/
      (exists w, it_out it = OTx (Some (w, None)) /\ it_log it = [GGc] /\ reported it = events_default)
  | CRx _ _ => False
  | _ => True
  end.

Lemma tx_rel_empty : forall pa bufsize m m' o log,
  empty_inv m -> tx_rel pa bufsize m m' o log ->
  m' = set_events (set_cycle m (CyDataExchange 0)) (mkEvents true None) /\ o = None /\ log = [].
Proof.
  intros pa bufsize m m' o log [Hocc Hnc] H.
  assert (Hno : forall index hd p, dm_cycle m = CyDataExchange index ->
                  get_at_index (dm_slots m) index = Ok (Some (hd, p)) -> False).
  { intros index hd p Hc Hg. rewrite (empty_get_at_index _ _ Hocc) in Hg. discriminate Hg. }
  inversion H; subst; try (exfalso; eapply Hno; eassumption).
  - now elim Hnc.
  - repeat split; reflexivity.
Qed.

Lemma empty_inv_take : forall auto c m, empty_inv m -> empty_inv (fst (auto_take_m auto c m)).
Proof. intros auto c m H. unfold auto_take_m. destruct (auto && is_bus c); exact H. Qed.

Lemma empty_step : forall auto pa bufsize m c x log,
  empty_inv m -> cstep_g pa bufsize m c = Ok (x, log) ->
  empty_item (mk_item auto m c x log) /\ empty_inv (it_m (mk_item auto m c x log)).
Proof.
  intros auto pa bufsize m c x log HI H. unfold empty_item, reported, mk_item.
  cbn [it_cb it_out it_log it_pre it_post it_m].
  destruct c as [now hp|a t|a| |h|h q|s].
  - destruct (cstep_tx _ _ _ _ _ _ _ H) as (o & Ho & Hg). rewrite Ho.
    destruct (dp_transmit_g_cases _ _ _ _ _ _ _ _ Hg) as
      [(Hop & Hm & -> & ->)|[(Hop & _ & _ & Hm & -> & b & w & _ & _ & ->)|(Hop & _ & Hrel)]].
    + split; [|apply empty_inv_take; rewrite Hm; exact HI].
      left. split; [reflexivity|]. split; [reflexivity|]. left. split; [exact Hop|rewrite Hm; reflexivity].
    + split; [|apply empty_inv_take; rewrite Hm; exact HI].
      right. exists w. split; [reflexivity|]. split; [reflexivity|]. rewrite Hm. reflexivity.
    + destruct (tx_rel_empty _ _ _ _ _ _ HI Hrel) as (Hm & -> & ->).
      split; [|apply empty_inv_take; rewrite Hm; destruct HI as [Ho' _]; split; [exact Ho'|discriminate]].
      left. split; [reflexivity|]. split; [reflexivity|]. right. split; [exact Hop|rewrite Hm; reflexivity].
  - exfalso. destruct (cstep_rx _ _ _ _ _ _ _ H) as (_ & Hg).
    destruct (rx_cases _ _ _ _ _ Hg) as (index & hd & p & p1 & ev & m2 & cc & Hc & Hgi & _).
    destruct HI as [Hocc _]. rewrite (empty_get_at_index _ _ Hocc) in Hgi. discriminate Hgi.
  - destruct (other_cases_exact _ _ _ _ _ _ H) as (_ & -> & _). split; [exact I|apply empty_inv_take; exact HI].
  - destruct (other_cases_exact _ _ _ _ _ _ H) as (_ & -> & _). split; [exact I|apply empty_inv_take; exact HI].
  - destruct (other_cases_exact _ _ _ _ _ _ H) as (_ & Hu & _). split; [exact I|]. apply empty_inv_take.
    destruct (user_upd_mask _ _ Hu) as (Hmk & Hcy & _). destruct HI as [Ho' Hn].
    split; [rewrite <- Ho'; apply occupied_of_mask; exact Hmk|rewrite Hcy; exact Hn].
  - destruct (other_cases_exact _ _ _ _ _ _ H) as (_ & Hu & _). split; [exact I|]. apply empty_inv_take.
    destruct (user_upd_mask _ _ Hu) as (Hmk & Hcy & _). destruct HI as [Ho' Hn].
    split; [rewrite <- Ho'; apply occupied_of_mask; exact Hmk|rewrite Hcy; exact Hn].
  - destruct (other_cases_exact _ _ _ _ _ _ H) as (_ & -> & _). split; [exact I|apply empty_inv_take; exact HI].
Qed.

Theorem zero_peripherals_history : forall auto pa bufsize m0 cbs tr,
  occupied m0 = [] -> dm_cycle m0 <> CyCompleted ->
  run_g auto pa bufsize m0 cbs = Ok tr -> Forall empty_item tr.
Proof.
  intros auto pa bufsize m0 cbs tr Ho Hc H.
  destruct (liftP auto pa bufsize empty_inv empty_item (empty_step auto pa bufsize) cbs m0 tr (conj Ho Hc) H)
    as [HF _]. exact HF.
Qed.

(* ------------------------------------------------------------------ a turn = one request plus its retransmissions *)

(* monitor state: number of transmissions in the turn in progress and the frame count bit they carried.
   Every transmission of a turn carries the same frame count bit as the one before (for the FDL peer: a
   repetition of the same request) and there are at most 1 + max_retry of them. *)
Definition sends_entry (maxr : Z) (s : nat * option fcbit) (e : gent) : option (nat * option fcbit) :=
  match e with
  | GSend _ _ _ h _ =>
      match req_fcbit h with
      | Some f =>
          if (Z.of_nat (fst s) <=? maxr) &&
             (match snd s with Some f0 => fcbit_eqb f0 f | None => true end)
          then Some (S (fst s), Some f) else None
      | None => None
      end
  | GSkip _ _ _ _ | GReply _ _ _ _ _ => Some (0%nat, None)
  | GGc => Some s
  end.

Fixpoint sends_entries (maxr : Z) (s : nat * option fcbit) (log : list gent) : option (nat * option fcbit) :=
  match log with
  | [] => Some s
  | e :: r => match sends_entry maxr s e with Some s' => sends_entries maxr s' r | None => None end
  end.

Definition sends_item (maxr : Z) (s : nat * option fcbit) (it : item) : option (nat * option fcbit) :=
  sends_entries maxr s (it_log it).

Definition sends_inv (m : dpm) (s : nat * option fcbit) : Prop :=
  (forall i p, slot m i = Some p -> 0 <= pe_retry p) /\
  (forall i r p, pos_rem m = i :: r -> slot m i = Some p ->
     Z.of_nat (fst s) <= pe_retry p /\ (forall f, snd s = Some f -> pe_fcb p = f)) /\
  (pos_rem m = [] -> s = (0%nat, None)).

Lemma fcbit_eqb_refl : forall f, fcbit_eqb f f = true.
Proof. destruct f; reflexivity. Qed.

Lemma sends_inv_reset : forall m, (forall i p, slot m i = Some p -> 0 <= pe_retry p) -> sends_inv m (0%nat, None).
Proof.
  intros m H. split; [exact H|]. split; [|reflexivity].
  intros i r p _ Hs. split; [cbn; apply (H _ _ Hs)|]. intros f Hf. discriminate Hf.
Qed.

Lemma retry_nonneg_put : forall m i p p1,
  (forall j q, slot m j = Some q -> 0 <= pe_retry q) -> slot m i = Some p -> 0 <= pe_retry p1 ->
  forall j q, slot (set_slots m (put_slot (dm_slots m) i p1)) j = Some q -> 0 <= pe_retry q.
Proof.
  intros m i p p1 H Hs Hp j q Hq. destruct (Nat.eq_dec i j) as [->|Hne].
  - rewrite (slot_put_same _ _ p1 _ Hs) in Hq. inversion Hq; subst. exact Hp.
  - rewrite slot_put_other in Hq by exact Hne. eapply H; exact Hq.
Qed.

Lemma retry_nonneg_slots : forall m m',
  dm_slots m' = dm_slots m -> (forall j q, slot m j = Some q -> 0 <= pe_retry q) ->
  forall j q, slot m' j = Some q -> 0 <= pe_retry q.
Proof. intros m m' H HI j q Hq. apply (HI j). unfold slot in *. rewrite <- H. exact Hq. Qed.

Lemma tx_rel_sends : forall pa bufsize m m' o log,
  tx_rel pa bufsize m m' o log -> forall s, sends_inv m s ->
  exists s', sends_entries (p_max_retry pa) s log = Some s' /\ sends_inv m' s'.
Proof.
  intros pa bufsize m m' o log H. induction H as
    [m Hc|m index Hc Hg|m index hd p p1 h pdu o Hc Hg Hp Hs|m index hd p p1 ev m2 Hc Hg Hp Hi
    |m index hd p p1 e m2 Hc Hg Hp Hi|m index hd p p1 m2 m' o log Hc Hg Hp Hi Hrel IH];
    intros s (Hnn & Hhead & Hnil).
  - exists s. split; [reflexivity|]. split; [exact Hnn|]. split.
    + intros i r p Hpr Hs. apply (Hhead i r p); [|exact Hs].
      unfold pos_rem in *. cbn in Hpr. rewrite Hc. exact Hpr.
    + intro Hpr. apply Hnil. unfold pos_rem in *. cbn in Hpr. rewrite Hc. exact Hpr.
  - exists s. split; [reflexivity|].
    assert (Hs0 : s = (0%nat, None)).
    { apply Hnil. unfold pos_rem. rewrite Hc. apply get_at_index_none. exact Hg. }
    subst s. apply sends_inv_reset. exact Hnn.
  - destruct (cur_slot _ _ _ _ Hc Hg) as (r & Hr & Hsl & _).
    destruct (Hhead _ _ _ Hr Hsl) as (Hn & Hf).
    pose proof (transmit_spec _ _ _ _ _ Hp) as Hts. cbn beta iota in Hts.
    destruct Hts as (Hex & (rq & Hfc) & _ & _ & Hfcb & Hre & _).
    unfold dp_retry_exhausted in Hex. apply Z.ltb_ge in Hex.
    cbn [sends_entries sends_entry]. unfold req_fcbit. rewrite Hfc.
    assert (Hle : (Z.of_nat (fst s) <=? p_max_retry pa) = true) by (apply Z.leb_le; lia).
    rewrite Hle. cbn [andb].
    assert (Hfe : match snd s with Some f0 => fcbit_eqb f0 (pe_fcb p) | None => true end = true).
    { destruct (snd s) as [f0|] eqn:E; [|reflexivity]. rewrite (Hf f0 eq_refl). apply fcbit_eqb_refl. }
    rewrite Hfe. eexists. split; [reflexivity|].
    destruct (put_cur_facts m hd p p1 Hsl) as (_ & _ & Hpr & _).
    split; [|split].
    + apply retry_nonneg_slots with (m := put_cur m hd p1); [reflexivity|].
      eapply retry_nonneg_put; try eassumption. specialize (Hnn _ _ Hsl). lia.
    + intros i r' q Hpr' Hq. rewrite pos_rem_events in Hpr'. rewrite Hpr, Hr in Hpr'.
      inversion Hpr'; subst i r'.
      assert (Hq' : slot (put_cur m hd p1) (hd_index hd) = Some q) by exact Hq.
      unfold put_cur in Hq'. rewrite (slot_put_same _ _ p1 _ Hsl) in Hq'. inversion Hq'; subst q.
      cbn [fst snd]. split; [lia|]. intros f E. inversion E; subst. exact Hfcb.
    + intro E. rewrite pos_rem_events in E. rewrite Hpr, Hr in E. discriminate E.
  - destruct (cur_slot _ _ _ _ Hc Hg) as (r & Hr & Hsl & _).
    destruct (put_cur_facts m hd p p1 Hsl) as (_ & Hcy & Hpr & _). rewrite Hc in Hcy. rewrite Hr in Hpr.
    destruct (increment_pos _ _ _ _ _ _ Hcy Hpr Hi) as (Hsl2 & _).
    cbn [sends_entries sends_entry]. eexists. split; [reflexivity|]. apply sends_inv_reset.
    apply retry_nonneg_slots with (m := put_cur m hd p1); [cbn; exact Hsl2|].
    eapply retry_nonneg_put; try eassumption.
    pose proof (transmit_spec _ _ _ _ _ Hp) as Hts. cbn beta iota in Hts.
    destruct ev; [destruct Hts as (_ & _ & _ & _ & ->)|destruct Hts as (_ & -> & _)]; lia.
  - destruct (cur_slot _ _ _ _ Hc Hg) as (r & Hr & Hsl & _).
    destruct (put_cur_facts m hd p p1 Hsl) as (_ & Hcy & Hpr & _). rewrite Hc in Hcy. rewrite Hr in Hpr.
    destruct (increment_pos _ _ _ _ _ _ Hcy Hpr Hi) as (Hsl2 & _).
    cbn [sends_entries sends_entry]. eexists. split; [reflexivity|]. apply sends_inv_reset.
    apply retry_nonneg_slots with (m := put_cur m hd p1); [cbn; exact Hsl2|].
    eapply retry_nonneg_put; try eassumption.
    pose proof (transmit_spec _ _ _ _ _ Hp) as Hts. cbn beta iota in Hts.
    destruct Hts as (_ & _ & _ & _ & ->). lia.
  - destruct (cur_slot _ _ _ _ Hc Hg) as (r & Hr & Hsl & _).
    destruct (put_cur_facts m hd p p1 Hsl) as (_ & Hcy & Hpr & _). rewrite Hc in Hcy. rewrite Hr in Hpr.
    destruct (increment_pos _ _ _ _ _ _ Hcy Hpr Hi) as (Hsl2 & _).
    cbn [sends_entries sends_entry]. apply IH. apply sends_inv_reset.
    apply retry_nonneg_slots with (m := put_cur m hd p1); [exact Hsl2|].
    eapply retry_nonneg_put; try eassumption.
    pose proof (transmit_spec _ _ _ _ _ Hp) as Hts. cbn beta iota in Hts.
    destruct Hts as (_ & -> & _). lia.
Qed.

Lemma sends_inv_events : forall m s e, sends_inv m s -> sends_inv (set_events m e) s.
Proof. intros m s e H. exact H. Qed.

Lemma sends_inv_take : forall auto c m s, sends_inv m s -> sends_inv (fst (auto_take_m auto c m)) s.
Proof. intros auto c m s H. unfold auto_take_m. destruct (auto && is_bus c); exact H. Qed.

Lemma sends_inv_user : forall m m1 s, user_upd m m1 -> sends_inv m s -> sends_inv m1 s.
Proof.
  intros m m1 s Hu (Hnn & Hhead & Hnil). pose proof (user_upd_mask _ _ Hu) as (Hmk & Hcy & _).
  destruct Hu as (i & p & p' & Hs & -> & (_ & _ & Hre & Hfc & _)).
  assert (Hpr : pos_rem (set_slots m (put_slot (dm_slots m) i p')) = pos_rem m)
    by (apply pos_rem_mask; assumption).
  split; [|split].
  - eapply retry_nonneg_put; try eassumption. rewrite Hre. apply (Hnn _ _ Hs).
  - intros j r q Hprj Hq. rewrite Hpr in Hprj. destruct (Nat.eq_dec i j) as [<-|Hne].
    + rewrite (slot_put_same _ _ p' _ Hs) in Hq. inversion Hq; subst q. rewrite Hre, Hfc.
      apply (Hhead _ _ _ Hprj Hs).
    + rewrite slot_put_other in Hq by exact Hne. apply (Hhead _ _ _ Hprj Hq).
  - intro E. rewrite Hpr in E. apply Hnil. exact E.
Qed.

Lemma sends_step : forall auto pa bufsize m s c x log,
  sends_inv m s -> cstep_g pa bufsize m c = Ok (x, log) ->
  exists s', sends_item (p_max_retry pa) s (mk_item auto m c x log) = Some s' /\
             sends_inv (it_m (mk_item auto m c x log)) s'.
Proof.
  intros auto pa bufsize m s c x log HI H. unfold sends_item, mk_item. cbn [it_log it_m].
  destruct c as [now hp|a t|a| |h|h q|st].
  - destruct (cstep_tx _ _ _ _ _ _ _ H) as (o & _ & Hg).
    destruct (dp_transmit_g_cases _ _ _ _ _ _ _ _ Hg) as
      [(_ & Hm & _ & ->)|[(_ & _ & _ & Hm & -> & _)|(_ & _ & Hrel)]].
    + exists s. split; [reflexivity|]. apply sends_inv_take. rewrite Hm. exact HI.
    + exists s. split; [reflexivity|]. apply sends_inv_take. rewrite Hm. exact HI.
    + destruct (tx_rel_sends _ _ _ _ _ _ Hrel s HI) as (s' & Hs & HI'). exists s'. split; [exact Hs|].
      apply sends_inv_take. exact HI'.
  - destruct (cstep_rx _ _ _ _ _ _ _ H) as (_ & Hg).
    destruct (rx_cases _ _ _ _ _ Hg) as (index & hd & p & p1 & ev & m2 & cc & Hc & Hgi & _ & Hrx & Hi & Hm & ->).
    destruct (cur_slot _ _ _ _ Hc Hgi) as (r & Hr & Hsl & _).
    destruct (put_cur_facts m hd p p1 Hsl) as (_ & Hcy & Hpr & _). rewrite Hc in Hcy. rewrite Hr in Hpr.
    destruct (increment_pos _ _ _ _ _ _ Hcy Hpr Hi) as (Hsl2 & _).
    cbn [sends_entries sends_entry]. eexists. split; [reflexivity|]. apply sends_inv_take. rewrite Hm.
    apply sends_inv_reset. destruct HI as (Hnn & _).
    apply retry_nonneg_slots with (m := put_cur m hd p1); [cbn; exact Hsl2|].
    eapply retry_nonneg_put; try eassumption.
    destruct (fcb_after_reply _ _ _ _ Hrx) as [[_ ->]|[_ ->]]; [apply (Hnn _ _ Hsl)|lia].
  - destruct (other_cases_exact _ _ _ _ _ _ H) as (-> & -> & _).
    exists s. split; [reflexivity|]. apply sends_inv_take. exact HI.
  - destruct (other_cases_exact _ _ _ _ _ _ H) as (-> & -> & _).
    exists s. split; [reflexivity|]. apply sends_inv_take. exact HI.
  - destruct (other_cases_exact _ _ _ _ _ _ H) as (-> & Hu & _).
    exists s. split; [reflexivity|]. apply sends_inv_take. eapply sends_inv_user; eassumption.
  - destruct (other_cases_exact _ _ _ _ _ _ H) as (-> & Hu & _).
    exists s. split; [reflexivity|]. apply sends_inv_take. eapply sends_inv_user; eassumption.
  - destruct (other_cases_exact _ _ _ _ _ _ H) as (-> & -> & _).
    exists s. split; [reflexivity|]. apply sends_inv_take. exact HI.
Qed.

Theorem turn_sends_history : forall auto pa bufsize m0 cbs tr,
  (forall i p, slot m0 i = Some p -> pe_retry p = 0) ->
  run_g auto pa bufsize m0 cbs = Ok tr ->
  accepts (nat * option fcbit) sends_inv (sends_item (p_max_retry pa)) (0%nat, None) m0 tr.
Proof.
  intros auto pa bufsize m0 cbs tr H0 H.
  eapply (lift auto pa bufsize); [| |exact H].
  - intros m s c x log HI Hc. eapply sends_step; eassumption.
  - apply sends_inv_reset. intros i p Hs. rewrite (H0 _ _ Hs). lia.
Qed.

(* ------------------------------------------------------------------ the FdlApplication contract and the unreachable!() sites *)

(* the contract (C15) as a monitor over the trace: `pend` = the station a reply is outstanding from.
   receive_reply(a, t) / handle_timeout(a) only for the outstanding request, t only what the FDL admits
   (DpOracle.admissible: SC, or a response from a to this master); a request may also be dropped without
   any callback (token given up), so transmit_telegram is always allowed. *)
Definition pend_item (own : Z) (pend : option Z) (it : item) : option (option Z) :=
  match it_cb it with
  | CTx _ _ => match it_out it with OTx (Some (_, exp)) => Some exp | _ => Some None end
  | CRx a t =>
      match pend with
      | Some da => if (a =? da) && admissible own da t then Some None else None
      | None => None
      end
  | CTo a => match pend with Some da => if a =? da then Some None else None | None => None end
  | _ => Some pend
  end.

Fixpoint pend_run (own : Z) (pend : option Z) (tr : list item) : option (option Z) :=
  match tr with
  | [] => Some pend
  | it :: r => match pend_item own pend it with Some p' => pend_run own p' r | None => None end
  end.

Definition safe_inv (m : dpm) (pend : option Z) : Prop :=
  (forall i p, slot m i = Some p -> pe_fcb p <> FcbInactive) /\
  (length (dm_slots m) <= 256)%nat /\
  (forall da, pend = Some da ->
     exists index hd p, dm_cycle m = CyDataExchange index /\
                        get_at_index (dm_slots m) index = Ok (Some (hd, p)) /\ pe_addr p = da).

Lemma find_of_occupied : forall l j i r,
  occupied_from l j = i :: r -> exists q, find_occupied l j = Some (i, q).
Proof.
  induction l as [|x l IH]; intros j i r H; [discriminate H|].
  destruct x as [q|]; cbn in H |- *.
  - inversion H; subst. exists q. reflexivity.
  - eapply IH. exact H.
Qed.

Lemma get_at_index_of_occ : forall l index i r p,
  occupied_from (skipn index l) index = i :: r -> nth_error l i = Some (Some p) -> (i <= 255)%nat ->
  get_at_index l index = Ok (Some (mkHandle i (pe_addr p), p)).
Proof.
  intros l index i r p Ho Hn Hi. unfold get_at_index.
  destruct (find_of_occupied _ _ _ _ Ho) as (q & Hf). rewrite Hf.
  destruct (find_occupied_nth _ _ _ _ Hf) as (k & Hk & Hq). rewrite nth_error_skipn' in Hq.
  subst i. rewrite Hn in Hq. inversion Hq; subst q.
  unfold bind, u8_index. destruct (Nat.ltb 255 (index + k)) eqn:E; [apply Nat.ltb_lt in E; lia|]. reflexivity.
Qed.

Lemma occupied_from_bound : forall l j i, In i (occupied_from l j) -> (i < j + length l)%nat.
Proof.
  induction l as [|x l IH]; intros j i H; [destruct H|].
  destruct x as [q|]; cbn in H |- *.
  - destruct H as [<-|H]; [lia|]. specialize (IH _ _ H). lia.
  - specialize (IH _ _ H). lia.
Qed.

Lemma pos_bound : forall l index i, In i (occupied_from (skipn index l) index) -> (i < Nat.max index (length l))%nat.
Proof.
  intros l index i H. apply occupied_from_bound in H. rewrite skipn_length in H. lia.
Qed.

(* the current slot survives a replacement of any peripheral by one with the same address *)
Lemma cur_after_put : forall m index hd p j q q',
  dm_cycle m = CyDataExchange index -> get_at_index (dm_slots m) index = Ok (Some (hd, p)) ->
  slot m j = Some q -> pe_addr q' = pe_addr q ->
  exists hd' p', get_at_index (put_slot (dm_slots m) j q') index = Ok (Some (hd', p')) /\ pe_addr p' = pe_addr p.
Proof.
  intros m index hd p j q q' Hc Hg Hs Ha.
  destruct (get_at_index_spec _ _ _ _ Hg) as (r & Ho & Hn & _).
  assert (Hi : (hd_index hd <= 255)%nat).
  { unfold get_at_index in Hg. destruct (find_occupied _ _) as [[i0 q0]|]; [|discriminate Hg].
    unfold bind, u8_index in Hg. destruct (Nat.ltb 255 i0) eqn:E; [discriminate Hg|].
    inversion Hg; subst. cbn. apply Nat.ltb_ge in E. exact E. }
  assert (Hmk : map occ (put_slot (dm_slots m) j q') = map occ (dm_slots m)).
  { unfold slot in Hs. destruct (nth_error (dm_slots m) j) as [[q0|]|] eqn:Hq; try discriminate Hs.
    eapply put_slot_mask. exact Hq. }
  assert (Ho' : occupied_from (skipn index (put_slot (dm_slots m) j q')) index = hd_index hd :: r).
  { rewrite <- Ho. apply occupied_mask. rewrite !map_skipn. rewrite Hmk. reflexivity. }
  destruct (Nat.eq_dec j (hd_index hd)) as [->|Hne].
  - assert (Hn' : nth_error (put_slot (dm_slots m) (hd_index hd) q') (hd_index hd) = Some (Some q'))
      by (eapply put_slot_same; exact Hn).
    eexists; eexists. split; [eapply get_at_index_of_occ; eassumption|].
    rewrite Ha. unfold slot in Hs. rewrite Hn in Hs. inversion Hs; reflexivity.
  - assert (Hn' : nth_error (put_slot (dm_slots m) j q') (hd_index hd) = Some (Some p))
      by (rewrite put_slot_other by exact Hne; exact Hn).
    eexists; eexists. split; [eapply get_at_index_of_occ; eassumption|reflexivity].
Qed.

Lemma fcb_ok_put : forall m i p p1,
  (forall j q, slot m j = Some q -> pe_fcb q <> FcbInactive) -> slot m i = Some p -> pe_fcb p1 <> FcbInactive ->
  forall j q, slot (set_slots m (put_slot (dm_slots m) i p1)) j = Some q -> pe_fcb q <> FcbInactive.
Proof.
  intros m i p p1 H Hs Hp j q Hq. destruct (Nat.eq_dec i j) as [->|Hne].
  - rewrite (slot_put_same _ _ p1 _ Hs) in Hq. inversion Hq; subst. exact Hp.
  - rewrite slot_put_other in Hq by exact Hne. eapply H; exact Hq.
Qed.

Lemma fcb_ok_slots : forall m m',
  dm_slots m' = dm_slots m -> (forall j q, slot m j = Some q -> pe_fcb q <> FcbInactive) ->
  forall j q, slot m' j = Some q -> pe_fcb q <> FcbInactive.
Proof. intros m m' H HI j q Hq. apply (HI j). unfold slot in *. rewrite <- H. exact Hq. Qed.

Lemma transmit_fcb_ok : forall pa op p p1 r,
  p_transmit pa op p = Ok (p1, r) -> pe_fcb p <> FcbInactive -> pe_fcb p1 <> FcbInactive.
Proof.
  intros pa op p p1 r H Hf. pose proof (transmit_spec _ _ _ _ _ H) as Hs.
  destruct r as [h pdu|[e|]].
  - destruct Hs as (_ & _ & _ & _ & -> & _). exact Hf.
  - destruct Hs as (_ & _ & -> & _). discriminate.
  - destruct Hs as (_ & _ & _ & [->|[_ ->]]); [exact Hf|discriminate].
Qed.

Lemma reply_fcb_ok : forall p t p1 ev,
  p_receive_reply p t = Ok (p1, ev) -> pe_fcb p <> FcbInactive -> pe_fcb p1 <> FcbInactive.
Proof.
  intros p t p1 ev H Hf. destruct (fcb_after_reply _ _ _ _ H) as [[-> _]|[Hc _]]; [exact Hf|].
  destruct (pe_fcb p); inversion Hc; discriminate.
Qed.

(* Peripheral::transmit_telegram changes nothing but state, retry counter, frame count bit and the latch *)
Lemma select_keeps : forall pa op p,
  let p1 := fst (p_transmit_select pa op p) in
  pe_addr p1 = pe_addr p /\ pe_pi_i p1 = pe_pi_i p /\ pe_pi_q p1 = pe_pi_q p /\ pe_opts p1 = pe_opts p /\
  pe_diag_needed p1 = pe_diag_needed p /\ pe_diag p1 = pe_diag p /\ pe_ext p1 = pe_ext p.
Proof.
  intros pa op p. unfold p_transmit_select.
  repeat match goal with
         | |- context [if ?c then _ else _] => destruct c
         | |- context [match ?x with _ => _ end] => destruct x
         end; cbn; repeat split; reflexivity.
Qed.

Lemma transmit_keeps : forall pa op p p1 r,
  p_transmit pa op p = Ok (p1, r) ->
  pe_addr p1 = pe_addr p /\ pe_pi_i p1 = pe_pi_i p /\ pe_pi_q p1 = pe_pi_q p /\ pe_opts p1 = pe_opts p /\
  pe_diag_needed p1 = pe_diag_needed p /\ pe_diag p1 = pe_diag p /\ pe_ext p1 = pe_ext p.
Proof.
  intros pa op p p1 r H. unfold p_transmit in H. destruct (opstate_eqb op OpStop); [discriminate H|].
  pose proof (select_keeps pa op p) as Hk. destruct (p_transmit_select pa op p) as [p2 r2]. cbn [fst] in Hk.
  destruct r2; [destruct (255 <=? pe_retry p2); [discriminate H|]|]; inversion H; subst; exact Hk.
Qed.

(* fcb / length part of safe_inv through one call of the slot loop; and a request that expects a reply is
   addressed to the peripheral that stays current *)
Lemma tx_rel_safe : forall pa bufsize m m' o log,
  tx_rel pa bufsize m m' o log ->
  (forall i p, slot m i = Some p -> pe_fcb p <> FcbInactive) ->
  (forall i p, slot m' i = Some p -> pe_fcb p <> FcbInactive) /\
  length (dm_slots m') = length (dm_slots m) /\
  (forall w da, o = Some (w, Some da) ->
     exists index hd p, dm_cycle m' = CyDataExchange index /\
                        get_at_index (dm_slots m') index = Ok (Some (hd, p)) /\ pe_addr p = da).
Proof.
  intros pa bufsize m m' o log H. induction H as
    [m Hc|m index Hc Hg|m index hd p p1 h pdu o Hc Hg Hp Hs|m index hd p p1 ev m2 Hc Hg Hp Hi
    |m index hd p p1 e m2 Hc Hg Hp Hi|m index hd p p1 m2 m' o log Hc Hg Hp Hi Hrel IH]; intro Hf.
  - split; [exact Hf|]. split; [reflexivity|]. intros w da E. discriminate E.
  - split; [exact Hf|]. split; [reflexivity|]. intros w da E. discriminate E.
  - destruct (cur_slot _ _ _ _ Hc Hg) as (r & Hr & Hsl & _).
    pose proof (transmit_fcb_ok _ _ _ _ _ Hp (Hf _ _ Hsl)) as Hf1.
    split; [|split].
    + apply fcb_ok_slots with (m := put_cur m hd p1); [reflexivity|]. eapply fcb_ok_put; eassumption.
    + cbn. apply put_slot_length.
    + intros w da E. inversion E; subst o. clear E.
      pose proof (transmit_spec _ _ _ _ _ Hp) as Hts. cbn beta iota in Hts.
      destruct Hts as (_ & (rq & Hfc) & Hda & _ & _ & _ & Hst).
      unfold send_data in Hs. destruct (encode_data_in bufsize h pdu); cbn [bind] in Hs; try discriminate Hs.
      inversion Hs as [[Hw He]]. unfold tx_expects_reply in He. rewrite Hfc in He.
      destruct (req_expects_reply rq); [|discriminate He]. inversion He as [Hd].
      assert (Hadr : pe_addr p1 = pe_addr p) by (apply (transmit_keeps _ _ _ _ _ Hp)).
      destruct (cur_after_put m index hd p (hd_index hd) p p1 Hc Hg Hsl Hadr) as (hd' & p' & Hg' & Ha').
      exists index, hd', p'. split; [exact Hc|]. split; [exact Hg'|]. congruence.
  - destruct (cur_slot _ _ _ _ Hc Hg) as (r & Hr & Hsl & _).
    pose proof (transmit_fcb_ok _ _ _ _ _ Hp (Hf _ _ Hsl)) as Hf1.
    destruct (put_cur_facts m hd p p1 Hsl) as (_ & Hcy & Hpr & _). rewrite Hc in Hcy. rewrite Hr in Hpr.
    destruct (increment_pos _ _ _ _ _ _ Hcy Hpr Hi) as (Hsl2 & _).
    split; [|split].
    + apply fcb_ok_slots with (m := put_cur m hd p1); [cbn; exact Hsl2|]. eapply fcb_ok_put; eassumption.
    + cbn. rewrite Hsl2. apply put_slot_length.
    + intros w da E. discriminate E.
  - destruct (cur_slot _ _ _ _ Hc Hg) as (r & Hr & Hsl & _).
    pose proof (transmit_fcb_ok _ _ _ _ _ Hp (Hf _ _ Hsl)) as Hf1.
    destruct (put_cur_facts m hd p p1 Hsl) as (_ & Hcy & Hpr & _). rewrite Hc in Hcy. rewrite Hr in Hpr.
    destruct (increment_pos _ _ _ _ _ _ Hcy Hpr Hi) as (Hsl2 & _).
    split; [|split].
    + apply fcb_ok_slots with (m := put_cur m hd p1); [cbn; exact Hsl2|]. eapply fcb_ok_put; eassumption.
    + cbn. rewrite Hsl2. apply put_slot_length.
    + intros w da E. discriminate E.
  - destruct (cur_slot _ _ _ _ Hc Hg) as (r & Hr & Hsl & _).
    pose proof (transmit_fcb_ok _ _ _ _ _ Hp (Hf _ _ Hsl)) as Hf1.
    destruct (put_cur_facts m hd p p1 Hsl) as (_ & Hcy & Hpr & _). rewrite Hc in Hcy. rewrite Hr in Hpr.
    destruct (increment_pos _ _ _ _ _ _ Hcy Hpr Hi) as (Hsl2 & _).
    assert (Hf2 : forall i q, slot m2 i = Some q -> pe_fcb q <> FcbInactive).
    { apply fcb_ok_slots with (m := put_cur m hd p1); [exact Hsl2|]. eapply fcb_ok_put; eassumption. }
    destruct (IH Hf2) as (Hf' & Hlen & Hreq). split; [exact Hf'|]. split; [|exact Hreq].
    rewrite Hlen, Hsl2. cbn. apply put_slot_length.
Qed.

Lemma safe_inv_take : forall auto c m pend, safe_inv m pend -> safe_inv (fst (auto_take_m auto c m)) pend.
Proof. intros auto c m pend H. unfold auto_take_m. destruct (auto && is_bus c); exact H. Qed.

Lemma safe_inv_user : forall m m1 pend, user_upd m m1 -> safe_inv m pend -> safe_inv m1 pend.
Proof.
  intros m m1 pend (i & p & p' & Hs & -> & (Ha & _ & _ & Hfc & _)) (Hf & Hlen & Hp).
  split; [|split].
  - eapply fcb_ok_put; try eassumption. rewrite Hfc. apply (Hf _ _ Hs).
  - cbn. rewrite put_slot_length. exact Hlen.
  - intros da E. destruct (Hp da E) as (index & hd & q & Hc & Hg & Hq).
    destruct (cur_after_put m index hd q i p p' Hc Hg Hs Ha) as (hd' & q' & Hg' & Ha').
    exists index, hd', q'. split; [exact Hc|]. split; [exact Hg'|]. congruence.
Qed.

Lemma safe_step : forall auto pa bufsize m pend c x log pend',
  safe_inv m pend -> cstep_g pa bufsize m c = Ok (x, log) ->
  pend_item (p_address pa) pend (mk_item auto m c x log) = Some pend' ->
  safe_inv (it_m (mk_item auto m c x log)) pend'.
Proof.
  intros auto pa bufsize m pend c x log pend' (Hf & Hlen & Hp) H Hpi.
  unfold pend_item, mk_item in Hpi. cbn [it_cb it_out it_m] in *. unfold mk_item. cbn [it_m].
  apply safe_inv_take.
  destruct c as [now hp|a t|a| |h|h q|st].
  - destruct (cstep_tx _ _ _ _ _ _ _ H) as (o & Ho & Hg). rewrite Ho in Hpi.
    destruct (dp_transmit_g_cases _ _ _ _ _ _ _ _ Hg) as
      [(_ & Hm & -> & _)|[(_ & _ & _ & Hm & _ & b & w & _ & _ & ->)|(_ & _ & Hrel)]].
    + inversion Hpi; subst pend'. rewrite Hm. split; [exact Hf|]. split; [exact Hlen|]. intros da E; discriminate E.
    + inversion Hpi; subst pend'. rewrite Hm. split; [exact Hf|]. split; [exact Hlen|]. intros da E; discriminate E.
    + destruct (tx_rel_safe _ _ _ _ _ _ Hrel Hf) as (Hf' & Hlen' & Hreq).
      split; [exact Hf'|]. split; [rewrite Hlen'; exact Hlen|].
      destruct o as [[w exp]|]; inversion Hpi; subst pend'.
      * intros da E. subst exp. eapply Hreq. reflexivity.
      * intros da E. discriminate E.
  - destruct (cstep_rx _ _ _ _ _ _ _ H) as (_ & Hg).
    destruct (rx_cases _ _ _ _ _ Hg) as (index & hd & p & p1 & ev & m2 & cc & Hc & Hgi & _ & Hrx & Hi & Hm & _).
    destruct (cur_slot _ _ _ _ Hc Hgi) as (r & Hr & Hsl & _).
    destruct (put_cur_facts m hd p p1 Hsl) as (_ & Hcy & Hpr & _). rewrite Hc in Hcy. rewrite Hr in Hpr.
    destruct (increment_pos _ _ _ _ _ _ Hcy Hpr Hi) as (Hsl2 & _).
    assert (E : pend' = None).
    { destruct pend as [da|]; [|discriminate Hpi]. destruct ((a =? da) && admissible (p_address pa) da t);
        inversion Hpi; reflexivity. }
    subst pend'. rewrite Hm. split; [|split].
    + apply fcb_ok_slots with (m := put_cur m hd p1); [cbn; exact Hsl2|].
      eapply fcb_ok_put; try eassumption. eapply reply_fcb_ok; [exact Hrx|]. apply (Hf _ _ Hsl).
    + cbn. rewrite Hsl2. cbn. rewrite put_slot_length. exact Hlen.
    + intros da E; discriminate E.
  - destruct (other_cases_exact _ _ _ _ _ _ H) as (_ & -> & _).
    assert (E : pend' = None).
    { destruct pend as [da|]; [|discriminate Hpi]. destruct (a =? da); inversion Hpi; reflexivity. }
    subst pend'. split; [exact Hf|]. split; [exact Hlen|]. intros da E; discriminate E.
  - destruct (other_cases_exact _ _ _ _ _ _ H) as (_ & -> & _). inversion Hpi; subst pend'.
    split; [exact Hf|]. split; [exact Hlen|]. exact Hp.
  - destruct (other_cases_exact _ _ _ _ _ _ H) as (_ & Hu & _). inversion Hpi; subst pend'.
    eapply safe_inv_user; [exact Hu|]. split; [exact Hf|]. split; [exact Hlen|]. exact Hp.
  - destruct (other_cases_exact _ _ _ _ _ _ H) as (_ & Hu & _). inversion Hpi; subst pend'.
    eapply safe_inv_user; [exact Hu|]. split; [exact Hf|]. split; [exact Hlen|]. exact Hp.
  - destruct (other_cases_exact _ _ _ _ _ _ H) as (_ & -> & _). inversion Hpi; subst pend'.
    split; [exact Hf|]. split; [exact Hlen|]. exact Hp.
Qed.

Lemma safe_run : forall auto pa bufsize cbs m pend tr pend',
  safe_inv m pend -> run_g auto pa bufsize m cbs = Ok tr ->
  pend_run (p_address pa) pend tr = Some pend' -> safe_inv (final m tr) pend'.
Proof.
  intros auto pa bufsize. induction cbs as [|c r IH]; intros m pend tr pend' HI H Hp; cbn [run_g] in H.
  - inversion H; subst. cbn in Hp. inversion Hp; subst. exact HI.
  - destruct (cstep_g pa bufsize m c) as [[x log]| |] eqn:Hc; cbn [bind] in H; try discriminate H.
    destruct (run_g auto pa bufsize _ r) as [tr'| |] eqn:Hr; cbn [bind] in H; try discriminate H.
    inversion H; subst. cbn [pend_run] in Hp.
    destruct (pend_item _ pend _) as [p1|] eqn:Hpi; [|discriminate Hp].
    pose proof (safe_step auto _ _ _ _ _ _ _ _ HI Hc Hpi) as HI'.
    unfold final. cbn [fold_left]. eapply IH; eassumption.
Qed.

(* ---- within the contract the handlers of a reply are total *)

Lemma handle_diag_total : forall p t, pe_fcb p <> FcbInactive -> exists r, p_handle_diag p t = Ok r.
Proof.
  intros p t Hf. unfold p_handle_diag. destruct t as [h pdu| |]; try (eexists; reflexivity).
  destruct (negb (opt_eqb (h_dsap h) dp_diag_reply_dsap)); [eexists; reflexivity|].
  destruct (negb (opt_eqb (h_ssap h) dp_diag_reply_ssap)); [eexists; reflexivity|].
  destruct (Nat.ltb (length pdu) dp_diag_min_len) eqn:El; [eexists; reflexivity|].
  apply Nat.ltb_ge in El. unfold dp_diag_min_len in El.
  destruct pdu as [|b0 [|b1 [|b2 [|b3 [|b4 [|b5 rest]]]]]]; cbn in El; try lia.
  cbn [get nth_error bind dp_diag_master_pos].
  assert (Hc : exists f, fcb_cycle (pe_fcb p) = Ok f).
  { unfold fcb_cycle. destruct (pe_fcb p); cbn; try (eexists; reflexivity). now elim Hf. }
  destruct Hc as (f & Hc).
  destruct (flags_contains _ DF_EXT_DIAG).
  - unfold slice_from. cbn [length Nat.leb bind]. rewrite Hc. cbn [bind]. eexists; reflexivity.
  - cbn [bind]. rewrite Hc. cbn [bind]. eexists; reflexivity.
Qed.

Definition reply_shape (t : telegram) : Prop :=
  t = TShortConf \/ exists h pdu st s, t = TData h pdu /\ h_fc h = FcResponse st s.

Lemma admissible_shape : forall own da t, admissible own da t = true -> reply_shape t.
Proof.
  intros own da t H. destruct t as [h pdu| |]; cbn in H; [|discriminate H|left; reflexivity].
  right. destruct (h_fc h) as [|st s] eqn:E; [rewrite Bool.andb_false_r in H; discriminate H|].
  exists h, pdu, st, s. split; [reflexivity|exact E].
Qed.

Lemma receive_dx_total : forall p t, reply_shape t -> exists r, p_receive_dx p t = Ok r.
Proof.
  intros p t [->|(h & pdu & st & s & -> & Hfc)]; unfold p_receive_dx.
  - destruct (negb _); eexists; reflexivity.
  - rewrite Hfc. destruct s; cbn [fst snd];
      repeat match goal with |- context [if ?c then _ else _] => destruct c eqn:? end;
      unfold copy_from_slice, bind;
      repeat match goal with |- context [if ?c then _ else _] => destruct c eqn:? end;
      try (eexists; reflexivity).
  all: exfalso;
    repeat match goal with
           | H : Nat.eqb _ _ = true |- _ => apply Nat.eqb_eq in H
           | H : Nat.eqb _ _ = false |- _ => apply Nat.eqb_neq in H
           end; cbn in *; lia.
Qed.

Lemma receive_reply_total : forall p t,
  pe_fcb p <> FcbInactive -> reply_shape t -> exists r, p_receive_reply p t = Ok r.
Proof.
  intros p t Hf Hsh.
  assert (Hc : forall q, pe_fcb q = pe_fcb p -> exists f, fcb_cycle (pe_fcb q) = Ok f).
  { intros q ->. unfold fcb_cycle. destruct (pe_fcb p); cbn; try (eexists; reflexivity). now elim Hf. }
  unfold p_receive_reply. destruct (pe_state p).
  - destruct (handle_diag_total p t Hf) as ([p1 d] & ->). cbn [bind]. destruct d; eexists; reflexivity.
  - destruct (is_sc t); [|eexists; reflexivity]. destruct (Hc p eq_refl) as (f & ->). eexists; reflexivity.
  - destruct (is_sc t); [|eexists; reflexivity]. destruct (Hc p eq_refl) as (f & ->). eexists; reflexivity.
  - destruct (handle_diag_total (set_retry p 0) t Hf) as ([p1 d] & ->). cbn [bind].
    destruct d; [destruct (validate_outcome _)|]; eexists; reflexivity.
  - destruct (pe_diag_in_flight p).
    + destruct (handle_diag_total p t Hf) as ([p1 d] & ->). cbn [bind]. destruct d; eexists; reflexivity.
    + destruct (receive_dx_total p t Hsh) as ([p1 e] & Hd). rewrite Hd. cbn [bind].
      apply receive_dx_frame in Hd. destruct Hd as (Hfc & _).
      destruct (Hc (set_retry p1 0) Hfc) as (f & ->). eexists; reflexivity.
  - destruct (pe_diag_in_flight p).
    + destruct (handle_diag_total p t Hf) as ([p1 d] & ->). cbn [bind]. destruct d; eexists; reflexivity.
    + destruct (receive_dx_total p t Hsh) as ([p1 e] & Hd). rewrite Hd. cbn [bind].
      apply receive_dx_frame in Hd. destruct Hd as (Hfc & _).
      destruct (Hc (set_retry p1 0) Hfc) as (f & ->). eexists; reflexivity.
Qed.

Lemma increment_total : forall m index a r,
  occupied_from (skipn index (dm_slots m)) index = a :: r -> (index <= 255)%nat ->
  (length (dm_slots m) <= 256)%nat -> exists x, increment_cycle m index = Ok x.
Proof.
  intros m index a r Ho Hi Hlen. unfold increment_cycle, get_next_index. rewrite Ho.
  destruct r as [|b r']; [eexists; reflexivity|].
  assert (Hb : (b < Nat.max index (length (dm_slots m)))%nat).
  { apply pos_bound. rewrite Ho. right; left; reflexivity. }
  unfold bind, u8_index. destruct (Nat.ltb 255 b) eqn:E; [apply Nat.ltb_lt in E; lia|]. eexists; reflexivity.
Qed.

(* a reply within the contract is processed without panic *)
Lemma reply_total : forall m a t own,
  safe_inv m (Some a) -> admissible own a t = true -> exists m', dp_receive_reply m a t = Ok m'.
Proof.
  intros m a t own (Hf & Hlen & Hp) Ha. destruct (Hp a eq_refl) as (index & hd & p & Hc & Hg & Hadr).
  unfold dp_receive_reply. rewrite Hc, Hg. cbn [bind].
  assert (E : (a =? pe_addr p) = true) by (apply Z.eqb_eq; symmetry; exact Hadr). rewrite E.
  destruct (cur_slot _ _ _ _ Hc Hg) as (r & Hr & Hsl & _).
  destruct (receive_reply_total p t (Hf _ _ Hsl) (admissible_shape _ _ _ Ha)) as ([p1 ev] & ->). cbn [bind].
  assert (Hidx : (index <= 255)%nat).
  { destruct (get_at_index_spec _ _ _ _ Hg) as (r' & Ho & _).
    destruct (Nat.le_gt_cases (length (dm_slots m)) index) as [Hle|Hgt]; [|lia].
    rewrite (skipn_all2 _ Hle) in Ho. discriminate Ho. }
  destruct (put_cur_facts m hd p p1 Hsl) as (_ & _ & Hpr & _).
  unfold pos_rem in Hpr. cbn [dm_cycle put_cur set_slots] in Hpr. rewrite Hc in Hpr.
  unfold pos_rem in Hr. rewrite Hc in Hr. rewrite Hr in Hpr.
  destruct (increment_total (put_cur m hd p1) index _ _ Hpr Hidx) as ([m2 c] & Hi).
  { cbn. rewrite put_slot_length. exact Hlen. }
  unfold put_cur in Hi. rewrite Hi. cbn [bind]. eexists; reflexivity.
Qed.

Definition safe_init (m : dpm) : Prop :=
  (forall i p, slot m i = Some p -> pe_fcb p <> FcbInactive) /\ (length (dm_slots m) <= 256)%nat.

Theorem contract_safe_history : forall auto pa bufsize m0 cbs tr a t,
  safe_init m0 -> run_g auto pa bufsize m0 cbs = Ok tr ->
  pend_run (p_address pa) None tr = Some (Some a) -> admissible (p_address pa) a t = true ->
  exists m', dp_receive_reply (final m0 tr) a t = Ok m'.
Proof.
  intros auto pa bufsize m0 cbs tr a t [Hf Hlen] H Hp Ha.
  eapply reply_total; [|exact Ha].
  eapply safe_run; [|exact H|exact Hp].
  split; [exact Hf|]. split; [exact Hlen|]. intros da E; discriminate E.
Qed.

(* ------------------------------------------------------------------ the shape of one transmit call (F11) *)

(* zero or more turns that end silently (nothing to send, no event), then: a request (the call returns
   Some), or a turn that ends with the Offline event (the call returns None: with the fix for F11 the call
   ends after the first event, the next call continues with the next slot), or the end of the pass *)
Fixpoint call_shape (log : list gent) (o : txout) : Prop :=
  match log with
  | [] => o = None
  | e :: r =>
      match e with
      | GSend _ _ _ h _ => r = [] /\ exists w, o = Some (w, tx_expects_reply h)
      | GSkip _ _ _ (Some ev) => r = [] /\ o = None /\ ev = EvOffline
      | GSkip _ _ _ None => call_shape r o
      | _ => False
      end
  end.

Lemma tx_rel_shape : forall pa bufsize m m' o log, tx_rel pa bufsize m m' o log -> call_shape log o.
Proof.
  intros pa bufsize m m' o log H. induction H as
    [m Hc|m index Hc Hg|m index hd p p1 h pdu o Hc Hg Hp Hs|m index hd p p1 ev m2 Hc Hg Hp Hi
    |m index hd p p1 e m2 Hc Hg Hp Hi|m index hd p p1 m2 m' o log Hc Hg Hp Hi Hrel IH]; cbn [call_shape];
    try reflexivity.
  - split; [reflexivity|]. unfold send_data in Hs. destruct (encode_data_in bufsize h pdu) as [w| |]; cbn [bind] in Hs;
      try discriminate Hs. inversion Hs; subst. exists w. reflexivity.
  - destruct ev as [e|]; [|reflexivity]. split; [reflexivity|]. split; [reflexivity|].
    pose proof (transmit_spec _ _ _ _ _ Hp) as Hts. cbn beta iota in Hts. destruct Hts as [-> _]. reflexivity.
  - split; [reflexivity|]. split; [reflexivity|].
    pose proof (transmit_spec _ _ _ _ _ Hp) as Hts. cbn beta iota in Hts. destruct Hts as [-> _]. reflexivity.
  - exact IH.
Qed.

Lemma call_shape_transmit : forall pa bufsize m now hp m' o log,
  dp_transmit_g pa bufsize m now hp = Ok (m', o, log) -> existsb is_gc log = false -> call_shape log o.
Proof.
  intros pa bufsize m now hp m' o log H Hgc.
  destruct (dp_transmit_g_cases _ _ _ _ _ _ _ _ H) as
    [(_ & _ & -> & ->)|[(_ & _ & _ & _ & -> & _)|(_ & _ & Hrel)]].
  - reflexivity.
  - discriminate Hgc.
  - eapply tx_rel_shape. exact Hrel.
Qed.

(* ------------------------------------------------------------------ cycle_item spelled out *)

Lemma cycle_item_spec : forall occ rem it rem2,
  cycle_item occ rem it = Some rem2 ->
  exists rem', turn_entries rem (it_log it) = Some rem' /\
    (ev_cycle_completed (reported it) = true <-> (sched_ran it = true /\ rem' = [])) /\
    rem2 = (if ev_cycle_completed (reported it) then occ else rem').
Proof.
  intros occ rem it rem2 H. unfold cycle_item in H.
  destruct (turn_entries rem (it_log it)) as [rem'|]; [|discriminate H].
  exists rem'. split; [reflexivity|].
  destruct (sched_ran it); destruct rem' as [|a r]; cbn [andb is_nil] in H;
    destruct (ev_cycle_completed (reported it)); try discriminate H; inversion H; subst;
    (split; [split; [intro E; try discriminate E; split; reflexivity|intros [E1 E2]; try discriminate E1; try discriminate E2; reflexivity]|reflexivity]).
Qed.

Lemma cycle_completed_once_step : forall auto pa bufsize occ m rem c x log,
  cycle_inv occ m rem -> cstep_g pa bufsize m c = Ok (x, log) ->
  let it := mk_item auto m c x log in
  exists rem',
    turn_entries rem (it_log it) = Some rem' /\
    (ev_cycle_completed (reported it) = true <-> (sched_ran it = true /\ rem' = [])) /\
    cycle_inv occ (it_m it) (if ev_cycle_completed (reported it) then occ else rem').
Proof.
  intros auto pa bufsize occ m rem c x log HI H it.
  destruct (cycle_step auto pa bufsize occ m rem c x log HI H) as (rem2 & Hm & HI').
  destruct (cycle_item_spec _ _ _ _ Hm) as (rem' & Ht & Hiff & ->).
  exists rem'. split; [exact Ht|]. split; [exact Hiff|exact HI'].
Qed.
