(* FDL oracle soundness, part 9: supervision of the token pass (C11).  With builder-valid parameters a poll in
   CheckTokenPass never falls back to PassToken (the slot time covers the synchronisation pause: check_pass_no_wait);
   how a poll ends in CheckTokenPass (check_pass_entry: the token went to NS of the new ring view); the invariant PS
   between the attempt label of the code and the monitor's record m_pass; R11_retry_too_early, R11_too_many_retries,
   R11_removed_too_early, R11_heard_but_supervising and R11_accept_while_listening never fire. *)
From Coq Require Import Arith.
From PB Require Import Common Tables FdlTables Telegram Phy TokenRing Params Fdl FdlOracle FdlProofs FdlStepProofs.
From PB Require Import LasRep C02Proofs C05Proofs C01Proofs C11Proofs C15Proofs C13Proofs C12Proofs.
From PB Require Import FdlOracleSound1 FdlOracleSound2 FdlOracleSound3 FdlOracleSound4 FdlOracleSound5 FdlOracleSound6 FdlOracleSound7 FdlOracleSound8.

(* ------------------------------------------------------------------------------------------ *)
(* C11: supervision of the token pass (R11_retry_too_early, R11_too_many_retries,                *)
(* R11_removed_too_early, R11_heard_but_supervising)                                             *)

Lemma sync_le_slot p : builder_valid p -> p_bits_to_time p sync_pause_bits <= slot_time p.
Proof.
  intros B. destruct B as (_ & (Hmin & _) & _).
  unfold slot_time, p_bits_to_time. apply btt_mono.
  assert (100 <= p_slot_bits p) by (destruct (p_baud p); cbn in Hmin; lia). unfold sync_pause_bits. lia.
Qed.

(* removing NS from the ring view changes NS (unless the station is alone) *)
Lemma remove_ns_changes r a r1 :
  ring_ok r a -> 0 <= a < 128 -> r_ns r <> a -> remove_station r (r_ns r) = Ok r1 -> r_ns r1 <> r_ns r.
Proof.
  intros R Ha Hne E. pose proof (ring_ok_ns _ _ R Ha) as Hns. destruct R as (W & Ht & Hn & _).
  rewrite remove_station_ok in E by exact Hns. injection E as <-.
  unfold update_next_previous. cbn [r_ns r_las r_ts]. rewrite Ht. intros C.
  destruct (next_of_in (las_ones (set_nth (r_las r) (Z.to_nat (r_ns r)) false)) a) as [E1|E1].
  - rewrite E1 in C. apply Hne. symmetry. exact C.
  - rewrite C in E1. apply In_las_ones in E1. unfold LasOracle.active, LasOracle.activeb in E1. apply andb_true_iff in E1. destruct E1 as (_ & E1).
    rewrite nth_set_nth_eq in E1; [discriminate E1|]. unfold wf in W. rewrite W. lia.
Qed.

Section Retry.
Variable A : Type.
Variable ops : app_ops A.
Notation W := (world A).

(* after the synchronisation pause do_pass_token does not stay in PassToken *)
Lemma do_pass_token_nowait f now (w : W) f' w' l :
  do_pass_token A f now w = Ok (f', w') -> f_lba f = Some l -> l + p_bits_to_time (f_p f) sync_pause_bits < now ->
  kind_of (f_state f') <> KPassToken.
Proof.
  unfold do_pass_token. intros H El Hlt.
  destruct (assert_entry DoPassToken f); cbn [bind] in H; try discriminate H.
  destruct (wait_synchronization_pause f now) as [[f1 wait]| |] eqn:Ew; cbn [bind] in H; try discriminate H.
  assert (Hw : wait = false).
  { unfold wait_synchronization_pause, lba_get_or_insert in Ew. rewrite El in Ew.
    unfold inst_add in Ew. destruct (i64_ok _); cbn [bind] in Ew; try discriminate Ew. injection Ew as _ <-.
    apply Z.leb_gt. exact Hlt. }
  subst wait.
  destruct (get_pass_token (f_state f1)) as [[dg att]| |]; cbn [bind] in H; try discriminate H.
  match type of H with bind ?x _ = _ => destruct x as [[[f2 w2] polled]| |] end; cbn [bind] in H; try discriminate H.
  destruct polled as [pa|].
  - apply trans_spec in H. destruct H as (s' & Ht & -> & _). cbn [f_state set_st].
    unfold transition_await_status_response in Ht. destruct (assert_kind _ _); cbn [bind] in Ht; try discriminate Ht.
    injection Ht as <-. discriminate.
  - cbv zeta in H.
    destruct (phy_send A w2 _) as [[w3 k]| |]; cbn [bind] in H; try discriminate H.
    destruct (witness _ _ _) as [r| |]; cbn [bind] in H; try discriminate H.
    match type of H with bind ?x _ = _ => destruct x as [[f3 w4]| |] eqn:E3 end; cbn [bind] in H; try discriminate H.
    destruct (mark_tx f3 now k) as [f4| |] eqn:Em; cbn [bind] in H; try discriminate H.
    injection H as <- _. apply mark_tx_same in Em. destruct Em as (_ & _ & _ & _ & Hs4 & _). rewrite Hs4.
    match type of E3 with (if ?c then _ else _) = _ => destruct c end.
    + apply trans_spec in E3. destruct E3 as (s' & Ht & -> & _). cbn [f_state set_st].
      unfold transition_use_token in Ht. destruct (assert_kind _ _); cbn [bind] in Ht; try discriminate Ht.
      injection Ht as <-. discriminate.
    + destruct (get_pass_token _) as [[dg' att']| |]; cbn [bind] in E3; try discriminate E3.
      apply trans_spec in E3. destruct E3 as (s' & Ht & -> & _). cbn [f_state set_st].
      unfold transition_check_token_pass in Ht. destruct (assert_kind _ _); cbn [bind] in Ht; try discriminate Ht.
      injection Ht as <-. discriminate.
Qed.

(* a poll in CheckTokenPass never ends in PassToken: when the slot time has run out the synchronisation pause is
   over as well (builder-valid parameters) and the retry goes out in this poll *)
Lemma check_pass_no_wait f now pin (apps : list A) f' o a c att :
  f_state f = CheckTokenPass att -> builder_valid (f_p f) ->
  poll ops f now pin apps = Ok (f', o, a, c) -> kind_of (f_state f') <> KPassToken.
Proof.
  intros Hst Hbv H. apply (poll_in_pass_body A ops) in H; [|rewrite Hst; reflexivity].
  destruct H as (w' & H & _). unfold C11Proofs.body in H.
  destruct (tx_busy pin || C11Proofs.predicted f now).
  - injection H as <- _. destruct (mark_bus_activity_sblp f now) as (_ & _ & _ & _ & Hs & _). rewrite Hs, Hst. discriminate.
  - destruct (check_for_bus_activity A f now _) as [f1 w1] eqn:Ec. apply cfba_spec in Ec.
    destruct Ec as ((Hp1 & _ & _ & _ & Hs1 & _) & _).
    unfold C11Proofs.dispatch in H. rewrite Hs1, Hst in H. cbn [kind_of poll_dispatch] in H.
    assert (Hst1 : f_state f1 = CheckTokenPass att) by congruence.
    destruct (check_slot_expired f1 now) as [[f1' b]| |] eqn:Ecs.
    + destruct b.
      * destruct (do_check_token_pass_expired A _ _ _ _ _ _ _ Hst1 Ecs H) as (f2 & w2 & Hd & _ & _ & Hp2 & _ & _ & Hl2 & _).
        apply cse_spec in Ecs. destruct Ecs as (_ & l & _ & El & Hb). symmetry in Hb. apply Z.ltb_lt in Hb.
        rewrite El in Hl2. eapply do_pass_token_nowait; [exact Hd|exact Hl2|].
        rewrite Hp2. pose proof (sync_le_slot (f_p f1)) as Hss. rewrite Hp1 in Hss. specialize (Hss Hbv). rewrite Hp1 in *. lia.
      * pose proof (do_check_token_pass_waiting A _ _ _ _ _ _ _ Hst1 Ecs H) as (_ & _ & _ & _ & _ & _ & Hm).
        destruct (DecodeSpec.decode_spec (w_rx w1)).
        -- destruct Hm as (E & _). rewrite E. discriminate.
        -- destruct Hm as (E & _). rewrite E. discriminate.
        -- intros C. destruct (f_state f'); cbn in C; try discriminate C. exact Hm.
    + unfold do_check_token_pass, assert_entry in H. rewrite Hst1 in H.
      cbn [kind_of do_fn_entry state_kind_eqb bind] in H. rewrite Ecs in H. discriminate H.
    + unfold do_check_token_pass, assert_entry in H. rewrite Hst1 in H.
      cbn [kind_of do_fn_entry state_kind_eqb bind] in H. rewrite Ecs in H. discriminate H.
Qed.

Lemma do_active_idle_kinds f now (w : W) f' w' :
  do_active_idle A f now w = Ok (f', w') -> early_claim (f_state f') \/ heard_kind (f_state f').
Proof.
  intros H. unfold do_active_idle, assert_entry in H.
  destruct (f_state f) as [ | | |sr nps cc| | | | | | ] eqn:Es; cbn [kind_of do_fn_entry state_kind_eqb bind] in H; try discriminate H.
  destruct (handle_lost_token A f now w) as [[[f0 w0] d]| |] eqn:Eh; cbn [bind] in H; try discriminate H.
  destruct d.
  - injection H as <- <-. left. exact (handle_lost_token_claims A _ _ _ _ _ Eh).
  - right. pose proof (handle_lost_token_keeps A _ _ _ _ _ Eh) as Hs0. rewrite Hs0, Es in H. cbn [get_active_idle bind] in H.
    destruct sr as [src|].
    + destruct (wait_synchronization_pause f0 now) as [[f1 wait]| |] eqn:Ew; cbn [bind] in H; try discriminate H.
      apply wait_sync_same in Ew. destruct Ew as [[_ [_ [_ [_ [Hs1 _]]]]] _].
      destruct wait; [injection H as <- <-; rewrite Hs1, Hs0, Es; exact I|].
      destruct (phy_send A w0 _) as [[w1 k]| |]; cbn [bind] in H; try discriminate H.
      destruct (mark_tx _ now k) as [f2| |] eqn:Em; cbn [bind] in H; try discriminate H.
      injection H as <- <-. apply mark_tx_same in Em. destruct Em as [_ [_ [_ [_ [Hs2 _]]]]].
      rewrite Hs2. exact I.
    + unfold receive_all_telegrams in H.
      destruct (receive_all _ _ _ _) as [[[s1 rest] r]| |] eqn:Er; cbn [bind] in H; try discriminate H.
      destruct s1 as [f1 w1]. injection H as <- _.
      assert (Hk : heard_kind (f_state (fst (f1, w1)))).
      { refine (receive_all_inv (fun s : fdl * W => heard_kind (f_state (fst s))) (active_idle_telegram A now) _ _ (f0, w0) _ (f1, w1) rest r _ Er).
        - intros s t il s' u Hp Hc. exact (active_idle_telegram_heard A now s t il s' u Hp Hc).
        - cbn [fst]. rewrite Hs0, Es. exact I. }
      exact Hk.
Qed.

(* the token of a pass out of a token-use state goes to NS, which the own pass does not change *)
Lemma do_use_token_pass_ns f now (w : W) f' w' att :
  do_use_token A ops f now w = Ok (f', w') -> w_tx w = None -> ring_ok (f_ring f) (ts f) -> 0 <= ts f <= 125 ->
  f_state f' = CheckTokenPass att ->
  att = AttFirst /\ w_tx w' = Some (encode_token (r_ns (f_ring f')) (ts f)) /\ r_ns (f_ring f') <> ts f /\
  r_ns (f_ring f') = r_ns (f_ring f).
Proof.
  intros H Hw Hring Hts Es'. pose proof H as H0. rewrite do_use_token_split in H.
  destruct (do_use_token_head A ops f now w) as [[f2 w2]| |] eqn:Eh; cbn [bind] in H; try discriminate H.
  assert (Hst : exists tk fa fcd, f_state f = UseToken tk fa fcd).
  { unfold do_use_token, assert_entry in H0. destruct (f_state f); cbn in H0; try discriminate H0. eauto. }
  destruct Hst as (tk & fa & fcd & Es).
  destruct (is_pass_token (f_state f2)) eqn:Ep.
  - destruct (do_use_token_head_pass A ops _ _ _ _ _ Eh Ep) as (Es2 & _ & (Hpp & Hr2 & Hc2 & Hg2 & Hpd2 & Ht2 & _)).
    assert (Hw2 : w_tx w2 = None) by congruence.
    destruct (C11Proofs.do_pass_token_spec A _ _ _ _ _ _ _ Es2 Hw2 H) as [Hsame _ _ _ _|a _ Hs' _ _ _ _ _ _ _|(r' & Hwit & Hr' & Htx & Hs' & _)].
    + destruct Hsame as (_ & _ & _ & _ & Hs & _). rewrite Hs, Es2 in Es'. discriminate Es'.
    + rewrite Hs' in Es'. discriminate Es'.
    + assert (Hts2 : ts f2 = ts f) by (unfold ts; rewrite Hpp; reflexivity).
      rewrite Hts2, Hr2 in *. pose proof (witness_own_pass_ns _ _ _ Hring Hts Hwit) as Hns.
      rewrite Hs' in Es'. destruct (r_ns r' =? ts f) eqn:En; [discriminate Es'|]. apply Z.eqb_neq in En.
      injection Es' as <-. rewrite Hr'. split; [reflexivity|]. split; [rewrite Hns; exact Htx|]. split; [exact En|exact Hns].
  - injection H as <- <-. exfalso.
    destruct (do_use_token_head_state A ops _ _ _ _ _ _ _ _ Eh Es) as (_ & _ & [(E & _)|[(fa' & E)|[(a & fa' & E)|E]]]);
      rewrite E in Es'; try rewrite Es in Es'; discriminate Es'.
Qed.

Lemma do_use_token_calls f now (w : W) f' w' :
  do_use_token A ops f now w = Ok (f', w') -> exists l, w_calls w' = w_calls w ++ l.
Proof.
  intros H. rewrite do_use_token_split in H.
  destruct (do_use_token_head A ops f now w) as [[f2 w2]| |] eqn:Eh; cbn [bind] in H; try discriminate H.
  destruct (do_use_token_head_results A ops _ _ _ _ _ Eh) as (l & Hl & _).
  destruct (is_pass_token (f_state f2)).
  - destruct (C12Proofs.do_pass_token_spec A _ _ _ _ _ H) as (dg & att & _ & _ & _ & Hc & _). exists l. congruence.
  - injection H as <- <-. exists l. exact Hl.
Qed.

Lemma visit_pass_token f now pin (apps : list A) f' o apps' calls tk att n :
  poll ops f now pin apps = Ok (f', o, apps', calls) -> Rep n f -> visit_tk (f_state f) = Some tk ->
  f_state f' = CheckTokenPass att ->
  att = AttFirst /\ tx o = Some (encode_token (r_ns (f_ring f')) (ts f)) /\ r_ns (f_ring f') <> ts f /\
  r_ns (f_ring f') = r_ns (f_ring f).
Proof.
  intros H R Htk Es'.
  assert (Hht : have_token (f_state f) = true) by (destruct (f_state f); cbn in Htk; try discriminate Htk; reflexivity).
  pose proof (Rep_ts _ _ R) as (Hts & _).
  destruct (token_poll_split A ops _ _ _ _ _ _ _ _ H Hht) as [(-> & _)|(f1 & w1 & w' & Hs & Htx1 & _ & _ & _ & -> & _ & _ & _ & _ & Hd)].
  - exfalso. destruct (mark_bus_activity_sblp f now) as (_ & _ & _ & _ & Hs & _). rewrite Hs in Es'.
    rewrite Es' in Htk. discriminate Htk.
  - cbn [tx]. pose proof (sblp_ring_ok _ _ Hs (rep_ring _ _ R)) as Hring1. pose proof (sblp_ts _ _ Hs) as Hts1.
    destruct Hs as (_ & Hr1 & _ & _ & Hs1 & _). unfold C11Proofs.dispatch in Hd.
    rewrite <- Hts1, <- Hr1.
    destruct (f_state f) eqn:Es; cbn in Htk; try discriminate Htk; rewrite Hs1 in Hd; cbn [kind_of poll_dispatch] in Hd.
    + eapply do_use_token_pass_ns; try eassumption. rewrite Hts1. exact Hts.
    + destruct (await_timeout_start A ops _ _ _ _ _ Hd) as [Hno|(a1 & tk1 & fa1 & f3 & w3 & _ & Htx3 & _ & _ & (Hp3 & _) & Hr3 & _ & _ & Hdo)].
      * exfalso. apply (do_await_data_response_split A ops) in Hd.
        destruct Hd as (a1 & tk1 & fa1 & ap & _ & _ & [(t & ap' & _ & _ & _ & _ & _ & E)|[(_ & _ & E)|[(_ & _ & E)|(ap' & f3 & w3 & _ & Hc3 & _ & _ & _ & Hdo)]]]);
          try (rewrite E in Es'; try rewrite Hs1 in Es'; discriminate Es').
        eapply Hno. destruct (do_use_token_calls _ _ _ _ _ Hdo) as (l & Hl). exists l. rewrite Hl, Hc3, <- app_assoc. reflexivity.
      * assert (Hts3 : ts f3 = ts f1) by (unfold ts; rewrite Hp3; reflexivity).
        rewrite <- Hts3, <- Hr3. eapply do_use_token_pass_ns; try eassumption; [congruence|rewrite Hr3, Hts3; exact Hring1|rewrite Hts3, Hts1; exact Hts].
Qed.

Lemma idle_poll_not_in_pass f now pin (apps : list A) f' o apps' calls :
  poll ops f now pin apps = Ok (f', o, apps', calls) -> have_token (f_state f) = false -> in_pass (f_state f) = false ->
  in_pass (f_state f') = false.
Proof.
  intros H Hht Hip. apply (C11Proofs.poll_inv A ops) in H. destruct H as (w' & H & _).
  apply (C11Proofs.poll_inner_cases A ops) in H.
  destruct H as [(_ & Hs & -> & _)|(_ & f0 & w0 & Hpro & Hb)]; [exact Hip|].
  assert (Hk0 : have_token (f_state f0) = false /\ in_pass (f_state f0) = false).
  { destruct Hpro as [f1 w1|f1 w1 s' _ _ [(-> & _)| ->]]; [split; assumption|split; reflexivity|split; reflexivity]. }
  unfold C11Proofs.body in Hb.
  destruct (tx_busy pin || C11Proofs.predicted f0 now).
  - injection Hb as <- _. destruct (mark_bus_activity_sblp f0 now) as (_ & _ & _ & _ & Hs & _). rewrite Hs. tauto.
  - destruct (check_for_bus_activity A f0 now w0) as [f1 w1] eqn:Ec.
    apply cfba_spec in Ec. destruct Ec as ((_ & _ & _ & _ & Hs1 & _) & _).
    unfold C11Proofs.dispatch in Hb. rewrite <- Hs1 in Hk0. destruct Hk0 as (Hk0 & Hk1).
    destruct (f_state f1) eqn:Es1; cbn in Hk0, Hk1; try discriminate Hk0; try discriminate Hk1; cbn [kind_of poll_dispatch] in Hb; try discriminate Hb.
    + eapply do_listen_token_entry; exact Hb.
    + destruct (do_active_idle_kinds _ _ _ _ _ Hb) as [[E|E]|Hk]; [rewrite E; reflexivity|rewrite E; reflexivity|exact (heard_not_in_pass _ Hk)].
Qed.

Lemma do_claim_token_not_in_pass f now (w : W) f' w' att : do_claim_token A f now w = Ok (f', w') -> f_state f' <> CheckTokenPass att.
Proof.
  intros H C. destruct (C12Proofs.do_claim_token_spec A _ _ _ _ _ H) as (st0 & Es0 & _ & _ & _ & _ & Hspec).
  rewrite Es0 in Hspec. destruct st0 as [ | | |a0].
  - destruct Hspec as (_ & [(_ & E & _)|(_ & _ & E & _)]); rewrite E in C; discriminate C.
  - destruct Hspec as (_ & [(_ & E & _)|(_ & _ & E & _)]); rewrite E in C; discriminate C.
  - destruct Hspec as (_ & _ & [(_ & E & _)|[(_ & _ & _ & E)|[(_ & cur & _ & _ & _ & E)|(cur & a1 & _ & _ & _ & E & _)]]]); rewrite E in C; discriminate C.
  - destruct Hspec as (_ & _ & rest & received & _ & _ & Hcases).
    destruct Hcases as [(_ & _ & E & _)|[(t & _ & _ & _ & E & _)|[(t & _ & _ & _ & E & _)|(_ & _ & [(_ & E & _)|[(_ & _ & _ & E)|(a1 & _ & _ & E & _)]])]]];
      rewrite E in C; discriminate C.
Qed.

(* how a poll ends in CheckTokenPass: it waits on, or the token went out in this poll - to NS *)
Lemma check_pass_entry f now pin (apps : list A) f' o apps' calls att' n :
  poll ops f now pin apps = Ok (f', o, apps', calls) -> Rep n f ->
  (forall dg att, f_state f = PassToken dg att -> att = AttFirst) ->
  f_state f' = CheckTokenPass att' ->
  (tx o = None /\ f_state f = CheckTokenPass att' /\ f_ring f' = f_ring f) \/
  (tx o = Some (encode_token (r_ns (f_ring f')) (ts f)) /\ r_ns (f_ring f') <> ts f /\
   ((exists att, f_state f = CheckTokenPass att /\ att' = check_pass_next att /\ rx_left o = rx pin /\
       (if check_pass_removes att then r_ns (f_ring f') <> r_ns (f_ring f) else r_ns (f_ring f') = r_ns (f_ring f))) \/
    (kind_of (f_state f) <> KCheckTokenPass /\ att' = AttFirst))).
Proof.
  intros H R Hfirst Es'. pose proof (Rep_ts _ _ R) as (Hts & _). pose proof (rep_ring _ _ R) as Hring.
  destruct (f_state f) as [ | |sr cc|sr nps cc|tk fa fcd|st|a1 tk fa|dg att|att|a0] eqn:Es.
  - exfalso. pose proof (idle_poll_not_in_pass _ _ _ _ _ _ _ _ H ltac:(rewrite Es; reflexivity) ltac:(rewrite Es; reflexivity)) as C. rewrite Es' in C. discriminate C.
  - exfalso. pose proof (idle_poll_not_in_pass _ _ _ _ _ _ _ _ H ltac:(rewrite Es; reflexivity) ltac:(rewrite Es; reflexivity)) as C. rewrite Es' in C. discriminate C.
  - exfalso. pose proof (idle_poll_not_in_pass _ _ _ _ _ _ _ _ H ltac:(rewrite Es; reflexivity) ltac:(rewrite Es; reflexivity)) as C. rewrite Es' in C. discriminate C.
  - exfalso. pose proof (idle_poll_not_in_pass _ _ _ _ _ _ _ _ H ltac:(rewrite Es; reflexivity) ltac:(rewrite Es; reflexivity)) as C. rewrite Es' in C. discriminate C.
  - destruct (visit_pass_token _ _ _ _ _ _ _ _ tk att' n H R ltac:(rewrite Es; reflexivity) Es') as (-> & Htx & Hne & _).
    right. split; [exact Htx|]. split; [exact Hne|]. right. split; [discriminate|reflexivity].
  - exfalso.
    destruct (token_poll_split A ops _ _ _ _ _ _ _ _ H ltac:(rewrite Es; reflexivity)) as [(-> & _)|(f1 & w1 & w' & Hs & _ & _ & _ & _ & _ & _ & _ & _ & _ & Hd)].
    + destruct (mark_bus_activity_sblp f now) as (_ & _ & _ & _ & Hs & _). rewrite Hs, Es in Es'. discriminate Es'.
    + destruct Hs as (_ & _ & _ & _ & Hs1 & _). unfold C11Proofs.dispatch in Hd. rewrite Hs1, Es in Hd. cbn [kind_of poll_dispatch] in Hd.
      exact (do_claim_token_not_in_pass _ _ _ _ _ _ Hd Es').
  - destruct (visit_pass_token _ _ _ _ _ _ _ _ tk att' n H R ltac:(rewrite Es; reflexivity) Es') as (-> & Htx & Hne & _).
    right. split; [exact Htx|]. split; [exact Hne|]. right. split; [discriminate|reflexivity].
  - destruct (pass_token_poll A ops _ _ _ _ _ _ _ _ _ _ Es H) as (_ & _ & _ & _ & [(_ & E & _)|[(addr & _ & _ & E & _)|(r' & Hwit & Hr' & Htx & E)]]);
      try (rewrite E in Es'; discriminate Es').
    rewrite E in Es'. destruct (r_ns r' =? ts f) eqn:En; [discriminate Es'|]. apply Z.eqb_neq in En. injection Es' as <-.
    pose proof (witness_own_pass_ns _ _ _ Hring Hts Hwit) as Hns.
    right. rewrite Hr'. split; [rewrite Hns; exact Htx|]. split; [exact En|]. right. split; [discriminate|exact (Hfirst _ _ eq_refl)].
  - destruct (check_pass_poll A ops _ _ _ _ _ _ _ _ _ Es H) as (_ & _ & _ & Hc).
    destruct (slot_expired f now pin).
    + destruct Hc as (Hrx & r1 & Hrm & [(_ & E & _)|(r' & Hwit & Hr' & Htx & E)]); [rewrite E in Es'; discriminate Es'|].
      rewrite E in Es'. destruct (r_ns r' =? ts f) eqn:En; [discriminate Es'|]. apply Z.eqb_neq in En. injection Es' as <-.
      assert (Hring1 : ring_ok r1 (ts f)).
      { destruct (check_pass_removes att); [|subst r1; exact Hring].
        destruct (remove_station_ring_ok _ _ (r_ns (f_ring f)) Hring ltac:(lia) (ring_ok_ns _ _ Hring ltac:(lia))) as (r2 & E2 & R2).
        rewrite Hrm in E2. injection E2 as <-. exact R2. }
      pose proof (witness_own_pass_ns _ _ _ Hring1 Hts Hwit) as Hns.
      right. rewrite Hr'. split; [rewrite Hns; exact Htx|]. split; [exact En|]. left. exists att.
      split; [reflexivity|]. split; [reflexivity|]. split; [exact Hrx|].
      destruct (check_pass_removes att).
      * rewrite Hns. destruct (Z.eq_dec (r_ns (f_ring f)) (ts f)) as [E0|E0].
        -- rewrite E0. rewrite <- Hns. exact En.
        -- exact (remove_ns_changes _ _ _ Hring ltac:(lia) E0 Hrm).
      * subst r1. exact Hns.
    + destruct Hc as (Htx & _ & Hc). left. split; [exact Htx|].
      destruct (tx_busy pin || predicted f now).
      * destruct Hc as (E & Hr & _). rewrite E in Es'. injection Es' as <-. split; [reflexivity|exact Hr].
      * destruct (DecodeSpec.decode_spec (rx pin)).
        -- destruct Hc as (E & Hr & _). rewrite E in Es'. injection Es' as <-. split; [reflexivity|exact Hr].
        -- destruct Hc as (E & Hr & _). rewrite E in Es'. injection Es' as <-. split; [reflexivity|exact Hr].
        -- exfalso. rewrite Es' in Hc. exact Hc.
  - destruct (token_poll_split A ops _ _ _ _ _ _ _ _ H ltac:(rewrite Es; reflexivity)) as [(-> & _)|(f1 & w1 & w' & Hs & Htx1 & _ & _ & _ & -> & _ & _ & _ & _ & Hd)].
    + exfalso. destruct (mark_bus_activity_sblp f now) as (_ & _ & _ & _ & Hs & _). rewrite Hs, Es in Es'. discriminate Es'.
    + cbn [tx]. pose proof (sblp_ring_ok _ _ Hs Hring) as Hring1. pose proof (sblp_ts _ _ Hs) as Hts1.
      destruct Hs as (_ & Hr1 & _ & _ & Hs1 & _). unfold C11Proofs.dispatch in Hd. rewrite Hs1, Es in Hd. cbn [kind_of poll_dispatch] in Hd.
      destruct (do_await_status_response_spec A _ _ _ _ _ Hd) as (a1 & _ & _ & _ & _ & _ & _ & _ & _ & rest & received & _ & _ & Hcases).
      destruct Hcases as [(_ & _ & E & _)|[(t & _ & _ & _ & E & _)|[(t & _ & _ & _ & E & _)|(_ & [(_ & E & _)|(_ & Htx & Hwit & [(_ & E)|(Hne & E)])])]]];
        try (rewrite E in Es'; try rewrite Hs1 in Es'; try rewrite Es in Es'; discriminate Es').
      rewrite E in Es'. injection Es' as <-. rewrite Hts1 in *.
      pose proof (witness_own_pass_ns _ _ _ Hring1 Hts Hwit) as Hns.
      right. split; [rewrite Hns; exact Htx|]. split; [exact Hne|]. right. split; [discriminate|reflexivity].
Qed.

End Retry.

Section RetryMon.
Variable A : Type.
Variable ops : app_ops A.
Variable p : params.
Variable n : nat.
Hypothesis Hbv : builder_valid p.
Hypothesis Hdata : app_sends_data A ops.

(* the monitor's record of the current token pass, against the attempt label of the code *)
Record PS (f : fdl) (m : mon) : Prop := mkPS {
  ps_check : forall att, f_state f = CheckTokenPass att -> m_pass m = Some (r_ns (f_ring f), att_index att);
  ps_pass : forall dg att, f_state f = PassToken dg att -> att = AttFirst
}.

Lemma m_pass_x_m3 m s : m_pass (x_m3 p n m s) = x_pass p m s.
Proof. unfold x_m3. destruct (x_new_visit p m s); [reflexivity|]. destruct (state_kind_eqb _ _); reflexivity. Qed.

Lemma delivered_reject rxb : DecodeSpec.decode_spec rxb = Reject -> delivered rxb = [].
Proof. intros H. unfold delivered, receive_all_fuel. rewrite C16Proofs.receive_all_step, H. reflexivity. Qed.

Lemma silent_from_e01 m s w :
  x_e01 p m s = [] -> s_tx s = Some w -> x_k0 m = KCheckTokenPass -> x_silent m s (x_slot p) = true.
Proof.
  unfold x_e01. intros H Etx Hk. rewrite Etx, Hk in H. cbn [kind_in existsb state_kind_eqb orb] in H.
  apply app_eq_nil in H. destruct H as (_ & H). apply app_eq_nil in H. destruct H as (_ & H).
  unfold check in H. destruct (x_silent m s (x_slot p)); [reflexivity|discriminate H].
Qed.

Lemma encode_token_inj a b c d : encode_token a b = encode_token c d -> a = c /\ b = d.
Proof. intros H. pose proof (decode_one_token a b) as H1. rewrite H, decode_one_token in H1. injection H1 as <- <-. split; reflexivity. Qed.

Lemma x_token_of_wire now busy rxb f' o calls da sa :
  tx o = Some (encode_token da sa) -> x_token_tx (poll_event now busy rxb f' o calls) = Some (da, sa).
Proof. intros H. unfold x_token_tx. rewrite (x_txt_tx _ (encode_token da sa)) by (cbn; exact H). rewrite decode_one_token. reflexivity. Qed.

Lemma x_token_none now busy rxb f' o calls : tx o = None -> x_token_tx (poll_event now busy rxb f' o calls) = None.
Proof. intros H. unfold x_token_tx, x_txt. cbn [poll_event s_tx]. rewrite H. reflexivity. Qed.

Lemma e11b_ok f apps buf tl m now busy nb f' o apps' calls :
  Base A p n f apps buf tl m -> PS f m ->
  poll ops f now (mkPhyIn busy (buf ++ nb)) apps = Ok (f', o, apps', calls) ->
  x_e01 p m (poll_event now busy (buf ++ nb) f' o calls) = [] ->
  x_e11b p m (poll_event now busy (buf ++ nb) f' o calls) = [].
Proof.
  intros HB [PC PP] E H01. pose proof (x_k0_base A p n _ _ _ _ _ HB) as Hk0.
  destruct HB as [R Hp Hn Hv Hl Hpd Hb Htl].
  pose proof (Rep_ts _ _ R) as (Hts & _). pose proof (rep_ring _ _ R) as Hring.
  assert (Hxts : x_ts p = ts f) by (unfold x_ts, ts; rewrite Hp; reflexivity).
  set (s := poll_event now busy (buf ++ nb) f' o calls) in *.
  unfold x_e11b. rewrite Hk0.
  destruct (state_kind_eqb (kind_of (f_state f)) KCheckTokenPass) eqn:Ek.
  2:{ destruct (x_token_tx s) as [[da sa]|]; [rewrite andb_false_r|]; reflexivity. }
  cbn [andb].
  destruct (f_state f) as [ | |sr cc|sr nps cc|tk fa fcd|st|a1 tk fa|dg att0|att|a0] eqn:Es; try discriminate Ek.
  pose proof (PC att eq_refl) as Hpass.
  destruct (check_pass_poll A ops _ _ _ _ _ _ _ _ _ Es E) as (_ & _ & _ & Hc). cbn [rx tx_busy] in Hc.
  destruct (slot_expired f now _).
  - (* the slot time has run out: the retry (or, after the third, the pass to the next station) *)
    destruct Hc as (Hrx & r1 & Hrm & [(_ & Es' & _)|(r' & Hwit & Hr' & Htx & Es')]).
    { exfalso. apply (check_pass_no_wait A ops _ _ _ _ _ _ _ _ _ Es ltac:(rewrite Hp; exact Hbv) E). rewrite Es'. reflexivity. }
    assert (Hcons : s_consumed s = 0%nat) by (cbn [s poll_event s_consumed]; rewrite Hrx; apply Nat.sub_diag).
    unfold x_heard. rewrite Hcons. cbn [Nat.eqb negb andb]. rewrite app_nil_r.
    rewrite (x_token_of_wire _ _ _ _ _ _ _ _ Htx : x_token_tx s = _). rewrite Hxts, Z.eqb_refl. cbn [andb].
    destruct (r_ns r1 =? ts f) eqn:Eda; [reflexivity|]. cbn [negb]. apply Z.eqb_neq in Eda.
    rewrite Hpass.
    assert (Hsil : x_silent m s (x_slot p) = true).
    { eapply silent_from_e01; [exact H01|cbn; exact Htx|rewrite Hk0; reflexivity]. }
    rewrite Hsil.
    destruct att; cbn [check_pass_removes] in Hrm.
    + subst r1. rewrite Z.eqb_refl. reflexivity.
    + subst r1. rewrite Z.eqb_refl. reflexivity.
    + assert (Hne : r_ns (f_ring f) <> r_ns r1).
      { destruct (Z.eq_dec (r_ns (f_ring f)) (ts f)) as [E0|E0]; [rewrite E0; intros C; apply Eda; symmetry; exact C|].
        intros C. exact (remove_ns_changes _ _ _ Hring ltac:(lia) E0 Hrm (eq_sym C)). }
      apply Z.eqb_neq in Hne. rewrite Hne. cbn [att_index Nat.eqb andb check].
      destruct (_ && _); reflexivity.
  - destruct Hc as (Htx & _ & Hc).
    rewrite (x_token_none _ _ _ _ _ _ Htx : x_token_tx s = None). cbn [app].
    destruct (x_heard s) eqn:Eh; [|reflexivity].
    unfold x_heard, x_tels in Eh. apply andb_true_iff in Eh. destruct Eh as (Hcons & Htels).
    apply negb_true_iff in Hcons. rewrite Hcons in Htels. cbn [s poll_event s_rx s_consumed] in Hcons, Htels.
    cbn [s poll_event s_tx]. rewrite Htx.
    match type of Hc with (if ?c then _ else _) => destruct c end.
    + exfalso. destruct Hc as (_ & _ & Hrx). rewrite Hrx, Nat.sub_diag in Hcons. discriminate Hcons.
    + destruct (DecodeSpec.decode_spec (buf ++ nb)) eqn:Ed.
      * exfalso. destruct Hc as (_ & _ & Hrx). cbn [rx] in Hrx. rewrite Hrx, Nat.sub_diag in Hcons. discriminate Hcons.
      * exfalso. rewrite (delivered_reject _ Ed) in Htels. discriminate Htels.
      * unfold x_k1, x_post. cbn [s poll_event s_view view_of v_kind].
        destruct (f_state f'); cbn in Hc; try contradiction; reflexivity.
Qed.

Lemma ps_poll f apps buf tl m now busy nb f' o apps' calls :
  Base A p n f apps buf tl m -> PS f m ->
  poll ops f now (mkPhyIn busy (buf ++ nb)) apps = Ok (f', o, apps', calls) ->
  PS f' (x_m3 p n m (poll_event now busy (buf ++ nb) f' o calls)).
Proof.
  intros HB [PC PP] E. pose proof (x_k0_base A p n _ _ _ _ _ HB) as Hk0.
  destruct HB as [R Hp Hn Hv Hl Hpd Hb Htl].
  assert (Hxts : x_ts p = ts f) by (unfold x_ts, ts; rewrite Hp; reflexivity).
  set (s := poll_event now busy (buf ++ nb) f' o calls) in *.
  split.
  - intros att' Es'. rewrite m_pass_x_m3. unfold x_pass.
    destruct (check_pass_entry A ops _ _ _ _ _ _ _ _ att' _ E R PP Es') as [(Htx & Es & Hr)|(Htx & Hne & Horig)].
    + rewrite (x_token_none _ _ _ _ _ _ Htx : x_token_tx s = None).
      unfold x_k1, x_post. cbn [s poll_event s_view view_of v_kind]. rewrite Es'. cbn [kind_of kind_in existsb state_kind_eqb orb].
      rewrite Hr. exact (PC _ Es).
    + rewrite (x_token_of_wire _ _ _ _ _ _ _ _ Htx : x_token_tx s = _). rewrite Hxts, Z.eqb_refl. cbn [andb].
      replace (r_ns (f_ring f') =? ts f) with false by (symmetry; apply Z.eqb_neq; exact Hne). cbn [negb].
      destruct Horig as [(att & Es & -> & _ & Hns)|(Hk & ->)].
      * rewrite (PC _ Es), Hk0, Es. cbn [kind_of state_kind_eqb]. rewrite andb_true_r.
        destruct att; cbn [check_pass_removes check_pass_next att_index] in *.
        -- rewrite Hns, Z.eqb_refl. reflexivity.
        -- rewrite Hns, Z.eqb_refl. reflexivity.
        -- replace (r_ns (f_ring f) =? r_ns (f_ring f')) with false by (symmetry; apply Z.eqb_neq; intros C; apply Hns; symmetry; exact C).
           reflexivity.
      * rewrite Hk0. replace (state_kind_eqb (kind_of (f_state f)) KCheckTokenPass) with false
          by (destruct (f_state f); cbn in Hk |- *; try reflexivity; contradiction Hk; reflexivity).
        destruct (m_pass m) as [[da' k]|]; [rewrite andb_false_r|]; reflexivity.
  - intros dg att' Es'.
    destruct (in_pass (f_state f)) eqn:Ep.
    + destruct (f_state f) as [ | | | | | | |dg0 att0|att0| ] eqn:Es; try discriminate Ep.
      * destruct (pass_token_poll A ops _ _ _ _ _ _ _ _ _ _ Es E) as (_ & _ & _ & _ & [(_ & E1 & _)|[(addr & _ & _ & E1 & _)|(r' & _ & _ & _ & E1)]]).
        -- rewrite E1 in Es'. injection Es' as _ <-. exact (PP _ _ eq_refl).
        -- rewrite E1 in Es'. discriminate Es'.
        -- rewrite E1 in Es'. destruct (r_ns r' =? ts f); discriminate Es'.
      * exfalso. apply (check_pass_no_wait A ops _ _ _ _ _ _ _ _ _ Es ltac:(rewrite Hp; exact Hbv) E). rewrite Es'. reflexivity.
    + pose proof (poll_entry A ops _ _ _ _ _ _ _ _ Ep E) as He. rewrite Es' in He. destruct He as (-> & _). reflexivity.
Qed.

Lemma ps_api a f f' m g v : api_result p a f = Ok f' -> PS f m -> PS f' (fst (mon_after_api a v m g)).
Proof.
  intros E [PC PP].
  assert (Hnew : forall p0 f1 m1, fdl_new p0 = Ok f1 -> PS f1 m1).
  { intros p0 f1 m1 E1. destruct (fdl_new_fields _ _ E1) as (S1 & _). split; intros; rewrite S1 in *; discriminate. }
  destruct a; cbn [api_result mon_after_api fst] in *.
  - eapply Hnew. exact E.
  - unfold set_online, set_state in E. injection E as <-. split; [exact PC|exact PP].
  - unfold set_offline, set_state in E. eapply Hnew. exact E.
  - discriminate E.
Qed.

End RetryMon.

(* ------------------------------------------------------------------------------------------ *)
(* C11: R11_accept_while_listening                                                               *)

Section Listening.
Variable A : Type.
Variable ops : app_ops A.
Variable p : params.
Variable n : nat.

Lemma listen_poll_kinds f now pin (apps : list A) f' o apps' calls k :
  poll ops f now pin apps = Ok (f', o, apps', calls) -> Rep k f -> kind_of (f_state f) = KListenToken ->
  kind_in (kind_of (f_state f')) [KListenToken; KActiveIdle; KClaimToken; KOffline] = true.
Proof.
  intros H R Hk. apply (C11Proofs.poll_inv A ops) in H. destruct H as (w' & Hb & _).
  assert (Hc : f_conn f = ConnOnline) by (apply (Rep_online _ _ R); rewrite Hk; discriminate).
  rewrite (C11Proofs.poll_inner_online A ops f now _ _ Hc ltac:(rewrite Hk; reflexivity)) in Hb.
  unfold C11Proofs.body in Hb.
  destruct (tx_busy pin || C11Proofs.predicted f now).
  - injection Hb as <- _. destruct (mark_bus_activity_sblp f now) as (_ & _ & _ & _ & Hs & _). rewrite Hs, Hk. reflexivity.
  - match type of Hb with context [check_for_bus_activity A f now ?w0] => destruct (check_for_bus_activity A f now w0) as [f1 w1] eqn:Ec end.
    apply cfba_spec in Ec. destruct Ec as ((_ & _ & _ & _ & Hs1 & _) & _).
    unfold C11Proofs.dispatch in Hb. rewrite Hs1, Hk in Hb. cbn [poll_dispatch] in Hb.
    apply do_listen_token_never_accepts in Hb. destruct Hb as [K|[K|[K|(K & _)]]]; rewrite K; reflexivity.
Qed.

Lemma listen_ok f apps buf tl m now busy nb f' o apps' calls :
  Base A p n f apps buf tl m ->
  poll ops f now (mkPhyIn busy (buf ++ nb)) apps = Ok (f', o, apps', calls) ->
  (if state_kind_eqb (x_k0 m) KListenToken
   then check (kind_in (x_k1 (poll_event now busy (buf ++ nb) f' o calls)) [KListenToken; KActiveIdle; KClaimToken; KOffline])
              R11_accept_while_listening
   else []) = [].
Proof.
  intros HB E. rewrite (x_k0_base A p n _ _ _ _ _ HB).
  destruct (state_kind_eqb (kind_of (f_state f)) KListenToken) eqn:Ek; [|reflexivity].
  assert (Hk : kind_of (f_state f) = KListenToken) by (destruct (f_state f); cbn in Ek; try discriminate Ek; reflexivity).
  change (x_k1 (poll_event now busy (buf ++ nb) f' o calls)) with (kind_of (f_state f')).
  rewrite (listen_poll_kinds _ _ _ _ _ _ _ _ _ E (b_rep _ _ _ _ _ _ _ _ HB) Hk). reflexivity.
Qed.

End Listening.
