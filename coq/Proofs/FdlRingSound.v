(* Soundness of the ring-view monitor of C11 (Model/FdlRing.v: rmonitor, ring_poll, rule
   P11_removal_passes_to_next): it never rejects a transcript of the MODEL.

   ring_poll is stateless apart from the previous view, so the core is a ONE-STEP theorem over ALL station
   states (ring_step_sound): whenever a poll of the model returns, the rule is silent on the event that the
   driver builds from it (FdlOracleSound1.poll_event) against the view of the state before the poll
   (FdlOracleSound1.view_of).  The only hypothesis on the state is that the ring bookkeeping runs under the
   station's own address (r_ts (f_ring f) = ts f, a conjunct of C05Proofs.ring_ok / Rep): this_station of the
   TokenRing is what update_next_previous searches from, p.address is what the token telegram carries as SA.
   The arithmetic heart: clearing bit a of the LAS filters a out of the ascending list of active stations
   (las_ones_remove, for EVERY length of the bit list), and the new NS that remove_station computes is
   TokenRing.next_of over that list - literally the monitor's next_after_removal.  A poll in CheckTokenPass
   transmits only when the slot timer has run out (C11Proofs.check_pass_poll): the token goes to NS of the ring
   view after the removal (third attempt) or to the unchanged NS (first and second attempt: the rule does not
   look at it).

   The lift to transcripts (ring_monitor_sound) is the induction of FdlOracleSound1.generic_sound specialised to
   this monitor (its state is the previous view only): invariant = C05's representation invariant Rep (kept by
   every returning call: C05Proofs.poll_rep_step, Rep_set_online, fdl_new_rep) + the parameters + the PHY buffer
   holds bytes.  No hypothesis on the parameters is needed: rmonitor itself only runs for parameters the builder
   can produce (builder_validb), and that is all Rep needs. *)
From Coq Require Import Arith.
From PB Require Import Common Tables FdlTables Telegram Phy TokenRing Params Fdl FdlOracle FdlRing FdlProofs FdlStepProofs.
From PB Require Import LasRep C02Proofs C05Proofs C11Proofs.
From PB Require Import FdlOracleSound1 FdlOracleSound2 FdlOracleSound3.

(* ------------------------------------------------------------------------------------------ *)
(* the LAS after clearing one bit                                                               *)

Lemma set_nth_beyond (l : list bool) : forall i v, (length l <= i)%nat -> set_nth l i v = l.
Proof.
  induction l as [|x t IH]; intros i v H; [destruct i; reflexivity|].
  destruct i as [|i]; cbn [length] in H; [lia|]. cbn [set_nth]. rewrite IH by lia. reflexivity.
Qed.

Lemma filter_all_true {X} (g : X -> bool) (l : list X) : (forall x, In x l -> g x = true) -> filter g l = l.
Proof.
  induction l as [|x t IH]; intros H; [reflexivity|]. cbn [filter].
  rewrite (H x (or_introl eq_refl)). rewrite IH; [reflexivity|]. intros y Hy. apply H. right. exact Hy.
Qed.

(* for every bit list (whatever its length) and every index a station address can be *)
Lemma las_ones_remove (las : list bool) (a : Z) : 0 <= a ->
  las_ones (set_nth las (Z.to_nat a) false) = remove_z a (las_ones las).
Proof.
  intros Ha. unfold remove_z. destruct (Z.lt_ge_cases a (Z.of_nat (length las))) as [Hlt|Hge].
  - apply ones_set_false. lia.
  - rewrite set_nth_beyond by lia. symmetry. apply filter_all_true.
    intros x Hx. apply In_las_ones, active_range in Hx. apply negb_true_iff, Z.eqb_neq. lia.
Qed.

(* remove_station: the new NS is the cyclic successor of this_station in the filtered list *)
Lemma remove_station_ns (r : ring) (a : Z) (r1 : ring) :
  remove_station r a = Ok r1 -> r_ns r1 = next_of (remove_z a (las_ones (r_las r))) (r_ts r).
Proof.
  unfold remove_station, las_set. intros H.
  destruct ((0 <=? a) && (a <? 128)) eqn:Er; cbn [bind] in H; [|discriminate H].
  apply andb_true_iff in Er. destruct Er as (H0 & _). apply Z.leb_le in H0.
  injection H as <-. unfold update_next_previous. cbn [r_ns r_las r_ts].
  rewrite las_ones_remove by exact H0. reflexivity.
Qed.

(* ------------------------------------------------------------------------------------------ *)
(* ONE STEP                                                                                     *)

Section Step.
Variable A : Type.
Variable ops : app_ops A.

Theorem ring_step_sound (f : fdl) (now : Z) (busy : bool) (rxb : bytes) (apps : list A)
    (f' : fdl) (o : phy_out) (apps' : list A) (calls : list call) :
  r_ts (f_ring f) = ts f ->
  poll ops f now (mkPhyIn busy rxb) apps = Ok (f', o, apps', calls) ->
  ring_poll (ts f) (view_of f) (poll_event now busy rxb f' o calls) = [].
Proof.
  intros Hts E. unfold ring_poll. cbn [view_of v_kind v_ns v_active poll_event s_consumed s_tx].
  destruct (f_state f) as [ | |sr cc|sr nps cc|tk fa fcd|st|a1 tk fa|dg att0|att|a0] eqn:Es;
    cbn [kind_of state_kind_eqb andb]; try reflexivity.
  destruct (Nat.eqb _ 0); [|reflexivity].
  destruct (check_pass_poll A ops _ _ _ _ _ _ _ _ _ Es E) as (_ & _ & _ & Hc).
  destruct (slot_expired f now _).
  - destruct Hc as (_ & r1 & Hrm & [(Htx & _)|(r' & _ & _ & Htx & _)]); rewrite Htx; [reflexivity|].
    rewrite decode_one_token, Z.eqb_refl. cbn [andb].
    destruct (check_pass_removes att).
    + (* third attempt: NS is removed, the token goes to the successor in what is left *)
      rewrite (remove_station_ns _ _ _ Hrm), Hts. unfold next_after_removal. cbn [v_ns v_active].
      rewrite Z.eqb_refl. destruct (negb _); reflexivity.
    + (* first / second attempt: the retry goes to the unchanged NS *)
      subst r1. rewrite Z.eqb_refl. reflexivity.
  - destruct Hc as (Htx & _). rewrite Htx. reflexivity.
Qed.

(* the same under the representation invariant of C05 *)
Corollary ring_step_sound_rep (n : nat) (f : fdl) (now : Z) (busy : bool) (rxb : bytes) (apps : list A)
    (f' : fdl) (o : phy_out) (apps' : list A) (calls : list call) :
  Rep n f ->
  poll ops f now (mkPhyIn busy rxb) apps = Ok (f', o, apps', calls) ->
  ring_poll (ts f) (view_of f) (poll_event now busy rxb f' o calls) = [].
Proof. intros R. apply ring_step_sound. destruct (rep_ring _ _ R) as (_ & Ht & _). exact Ht. Qed.

End Step.

(* ------------------------------------------------------------------------------------------ *)
(* TRANSCRIPTS                                                                                  *)

Lemma builder_validb_valid p : builder_validb p = true -> builder_valid p.
Proof.
  unfold builder_validb, builder_valid. intros H.
  repeat (apply andb_true_iff in H; destruct H as (H & ?)).
  repeat match goal with
         | H : (_ <=? _) = true |- _ => apply Z.leb_le in H
         | H : (_ <? _) = true |- _ => apply Z.ltb_lt in H
         end.
  repeat split; assumption.
Qed.

Section Transcripts.
Variable A : Type.
Variable ops : app_ops A.
Variable p : params.
Hypothesis Happs : apps_total A ops.
Hypothesis Hbv : builder_valid p.

(* invariant: station, applications, PHY buffer *)
Definition RJ (f : fdl) (apps : list A) (buf : bytes) : Prop :=
  Rep (length apps) f /\ f_p f = p /\ all_bytes buf.

Lemma rj_new f0 (apps : list A) buf : fdl_new p = Ok f0 -> all_bytes buf -> RJ f0 apps buf.
Proof.
  intros E Hb. destruct (fdl_new_rep (length apps) p Hbv) as (f1 & E1 & R1 & _ & _ & P1).
  rewrite E in E1. injection E1 as <-. split; [exact R1|]. split; [exact P1|exact Hb].
Qed.

Lemma rj_api a f (apps : list A) buf f' : RJ f apps buf -> api_result p a f = Ok f' -> RJ f' apps buf.
Proof.
  intros (R & Hp & Hb) E. destruct a; cbn [api_result] in E.
  - exact (rj_new _ _ _ E Hb).
  - destruct (Rep_set_online _ f R) as (f1 & E1 & R1). rewrite E in E1. injection E1 as <-.
    unfold set_online, set_state in E. injection E as <-. split; [exact R1|]. split; [exact Hp|exact Hb].
  - unfold set_offline, set_state in E. rewrite Hp in E. exact (rj_new _ _ _ E Hb).
  - discriminate E.
Qed.

Lemma rj_poll f (apps : list A) buf now busy nb f' o apps' calls :
  RJ f apps buf -> time_ok now -> all_bytes nb ->
  poll ops f now (mkPhyIn busy (buf ++ nb)) apps = Ok (f', o, apps', calls) ->
  RJ f' apps' (rx_left o).
Proof.
  intros (R & Hp & Hb) Hnow Hnb E.
  assert (Hrx : all_bytes (buf ++ nb)) by (unfold all_bytes in *; apply Forall_app; split; assumption).
  destruct (poll_rep_step A ops Happs f now (mkPhyIn busy (buf ++ nb)) apps R Hnow Hrx) as (f'' & o'' & apps'' & c'' & E' & R' & L').
  rewrite E in E'. injection E' as <- <- <- <-.
  destruct (poll_bk A ops now _ _ _ _ _ _ _ E) as ((k & Ek) & _ & Pp & _). cbn [rx] in Ek.
  split; [rewrite L'; exact R'|]. split; [congruence|]. rewrite Ek. apply all_bytes_skipn. exact Hrx.
Qed.

Theorem rmonitor_from_sound : forall ins f apps buf tl i,
  RJ f apps buf -> ins_ok tl ins ->
  rmonitor_from (p_address p) i (Some (view_of f)) (model_events A ops p f apps buf ins) = [].
Proof.
  induction ins as [|x ins IH]; intros f apps buf tl i HJ Hok; [reflexivity|].
  destruct x as [a|now busy nb]; cbn [model_events]; cbn [ins_ok] in Hok.
  - destruct (api_result p a f) as [f'| |] eqn:Ea; try reflexivity.
    cbn [rmonitor_from]. exact (IH _ _ _ _ _ (rj_api _ _ _ _ _ HJ Ea) Hok).
  - destruct Hok as (_ & Hnow & Hnb & Hok).
    destruct (poll ops f now (mkPhyIn busy (buf ++ nb)) apps) as [[[[f' o] apps'] calls]| |] eqn:Ep; try reflexivity.
    cbn [rmonitor_from]. cbn [poll_event s_view].
    change (mkPStep now busy (buf ++ nb) (tx o) (length (buf ++ nb) - length (rx_left o)) (map (conv_call (tx o)) calls) (view_of f'))
      with (poll_event now busy (buf ++ nb) f' o calls).
    assert (Hts : p_address p = ts f) by (destruct HJ as (_ & Hp & _); unfold ts; rewrite Hp; reflexivity).
    rewrite Hts, (ring_step_sound_rep A ops _ _ _ _ _ _ _ _ _ _ (proj1 HJ) Ep). cbn [map app].
    rewrite <- Hts. exact (IH _ _ _ _ _ (rj_poll _ _ _ _ _ _ _ _ _ _ HJ Hnow Hnb Ep) Hok).
Qed.

End Transcripts.

(* the monitor as the check runs it: for all parameters (it only looks at builder-valid ones) *)
Theorem ring_monitor_sound (A : Type) (ops : app_ops A) (p : params) :
  apps_total A ops ->
  forall (apps : list A) (ins : list minput), ins_ok 0 ins ->
  rmonitor p (model_transcript A ops p apps ins) = [].
Proof.
  intros Happs apps ins Hok. unfold rmonitor. destruct (builder_validb p) eqn:Eb; [|reflexivity].
  apply builder_validb_valid in Eb. unfold model_transcript.
  destruct (fdl_new p) as [f0| |] eqn:E0; try reflexivity.
  cbn [rmonitor_from].
  apply (rmonitor_from_sound A ops p Happs Eb ins f0 apps [] 0 1%nat); [|exact Hok].
  apply rj_new; [exact Eb|exact E0|constructor].
Qed.

(* ------------------------------------------------------------------------------------------ *)
(* NON-VACUITY: station 7 with ring view {2, 7, 15} supervises its third pass to 15; the poll after the slot
   time removes 15 and transmits the token 7 -> 2 (the wrap-around); the monitor accepts this event and rejects
   the same event with the token 7 -> 7 (the seeded remove_station without the wrap-around) and 7 -> 15. *)

Definition ex_ring_params : params := mkParams 7 B19200 100 80000 1 16 1 11 None.
Definition ex_ring_view : ring :=
  mkRing (set_nth (set_nth (set_nth (repeat false 128) 2 true) 7 true) 15 true) LasValid 7 15 2.
Definition ex_ring_station : fdl :=
  mkFdl ex_ring_params ex_ring_view ConnOnline (GapWaiting 0) (CheckTokenPass AttThird) (Some 0) 0 0 0 0.

Lemma ex_ring_station_rep : Rep 0 ex_ring_station.
Proof.
  constructor.
  - apply builder_validb_valid. vm_compute. reflexivity.
  - split; [reflexivity|]. split; [reflexivity|]. split; vm_compute; reflexivity.
  - reflexivity.
  - vm_compute. intuition discriminate.
  - exact I.
  - vm_compute. intuition discriminate.
  - vm_compute. intuition discriminate.
  - right. reflexivity.
Qed.

Lemma ring_example :
  builder_validb ex_ring_params = true /\ Rep 0 ex_ring_station /\
  kind_of (f_state ex_ring_station) = KCheckTokenPass /\
  v_active (view_of ex_ring_station) = [2; 7; 15] /\ v_ns (view_of ex_ring_station) = 15 /\
  match poll unit_app_ops ex_ring_station 100000 (mkPhyIn false []) [] with
  | Ok (f', o, _, calls) =>
      tx o = Some (encode_token 2 7) /\ f_state f' = CheckTokenPass AttFirst /\
      v_active (view_of f') = [2; 7] /\ v_ns (view_of f') = 2 /\
      ring_poll 7 (view_of ex_ring_station) (poll_event 100000 false [] f' o calls) = [] /\
      ring_poll 7 (view_of ex_ring_station)
        (mkPStep 100000 false [] (Some (encode_token 7 7)) 0 [] (view_of f')) = [P11_removal_passes_to_next] /\
      ring_poll 7 (view_of ex_ring_station)
        (mkPStep 100000 false [] (Some (encode_token 15 7)) 0 [] (view_of f')) = []
  | _ => False
  end.
Proof.
  split; [vm_compute; reflexivity|]. split; [exact ex_ring_station_rep|].
  vm_compute. repeat split; reflexivity.
Qed.
