(* C15, oracle soundness of the liveness rule R15_no_reply_no_timeout (Model/FdlOracle.v, mon_poll2):
   "in AwaitDataResponse, when the bus has brought nothing new for more than one slot time after the
   monitor's reference instant, the poll must deliver the reply or the time-out (or otherwise act)".
   The rule never fires on a transcript of the model.

   The relation between the monitor and the station while the station waits for a data reply (WA below):
     - last_bus_activity = Some l and the reference instant l_ref = Some r satisfy l <= r
       (on entry l = r = predicted end of the request; l moves to `now` only in polls in which the monitor
       sees something happen: PHY busy, RX growth, bytes the station had not counted yet - l_spur);
     - the predicted end of the last transmission the monitor keeps (l_txend) is not later than l, so the
       monitor's "the poll looks at the receive buffer" coincides with the station's
       check_for_ongoing_transmision;
     - bytes in the PHY buffer that pending_bytes does not cover are announced by l_spur.
   With these, a poll in AwaitDataResponse that is quiet for the monitor takes the `None` branch of
   do_await_data_response with last_bus_activity = l unchanged, and check_slot_expired compares exactly
   l + Tslot < now; as r + Tslot < now and l <= r, the time-out callback is made - the rule's `acted`. *)
From Coq Require Import Arith.
From PB Require Import Common Tables FdlTables Telegram Phy TokenRing Params Fdl FdlOracle FdlProofs FdlStepProofs.
From PB Require Import C05Proofs C01Proofs C11Proofs C15Proofs C13Proofs C12Proofs.
From PB Require Import FdlOracleSound1 FdlOracleSound2 FdlOracleSound3 FdlOracleSound4 FdlOracleSound5 FdlOracleSound8.

Section Model.
Variable A : Type.
Variable ops : app_ops A.
Notation W := (world A).

(* ------------------------------------------------------------------------------------------ *)
(* do_use_token ends in AwaitDataResponse only by transmitting a request                        *)

Lemma do_use_token_into_adr f now (w : W) f' w' :
  do_use_token A ops f now w = Ok (f', w') -> w_tx w = None ->
  kind_of (f_state f') = KAwaitDataResponse ->
  exists wire, w_tx w' = Some wire /\ w_rx w' = w_rx w /\ f_pending f' = f_pending f /\
               f_lba f' = Some (now + dur (f_p f) (length wire)) /\ f_p f' = f_p f.
Proof.
  unfold do_use_token, assert_entry. intros H Hw Hk.
  destruct (f_state f) as [ | | | |tk fa fcd| | | | | ] eqn:Es; cbn [kind_of do_fn_entry state_kind_eqb bind get_use_token] in H; try discriminate H.
  match type of H with bind ?x _ = _ => destruct x as [[f1 w1]| |] eqn:E1 end; cbn [bind] in H; try discriminate H.
  assert (H1 : frm A f w f1 w1 /\ f_state f1 = f_state f).
  { destruct (negb _).
    - destruct (inst_add _ _) as [e| |]; cbn [bind] in E1; try discriminate E1.
      destruct (f_gap f).
      + injection E1 as <- <-. unfold frm. cbn. tauto.
      + destruct (inst_sub_dur _ _) as [e2| |]; cbn [bind] in E1; try discriminate E1.
        injection E1 as <- <-. unfold frm. cbn. tauto.
    - injection E1 as <- <-. split; [apply frm_refl|reflexivity]. }
  destruct H1 as ((T1 & R1 & L1 & P1 & Q1) & S1).
  destruct (wait_synchronization_pause f1 now) as [[f2 wait]| |] eqn:Ew; cbn [bind] in H; try discriminate H.
  apply wait_sync_same in Ew. destruct Ew as ((Hp2 & _ & _ & _ & Hs2 & Hpd2 & _) & _).
  destruct wait.
  { injection H as <- <-. rewrite Hs2, S1, Es in Hk. discriminate Hk. }
  rewrite Hs2, S1, Es in H. cbn [get_use_token bind] in H.
  match type of H with bind ?x _ = _ => destruct x as [[[f3 w3] done]| |] eqn:E3 end; cbn [bind] in H; try discriminate H.
  assert (Hw1 : w_tx w1 = None) by congruence.
  assert (H3 : if done then txs A now f2 w1 f3 w3 else True).
  { destruct done; [|exact I].
    destruct (now <? f_end_tht f2).
    - destruct (set_first_cycle_done f2) as [f2'| |] eqn:Esf; cbn [bind] in E3; try discriminate E3.
      pose proof (set_first_cycle_done_frm A _ _ w1 Esf) as Hs.
      unfold apps_transmit_telegram in E3. apply apps_loop_bk in E3.
      eapply frm_txs; [eapply frm_trans; [exact Hs|]|apply E3; exact Hw1]. unfold frm. cbn. tauto.
    - destruct (negb fcd).
      + destruct (set_first_cycle_done f2) as [f2'| |] eqn:Esf; cbn [bind] in E3; try discriminate E3.
        pose proof (set_first_cycle_done_frm A _ _ w1 Esf) as Hs.
        unfold apps_transmit_telegram in E3. apply apps_loop_bk in E3.
        eapply frm_txs; [eapply frm_trans; [exact Hs|]|apply E3; exact Hw1]. unfold frm. cbn. tauto.
      + discriminate E3. }
  destruct done.
  - injection H as <- <-. destruct H3 as (_ & wire & T3 & R3 & L3 & P3 & Q3).
    exists wire. split; [exact T3|]. split; [congruence|]. split; [congruence|]. split; [rewrite L3, Hp2, Q1; reflexivity|congruence].
  - destruct (trans A f3 w3 _) as [[f4 w4]| |] eqn:Et; cbn [bind] in H; try discriminate H.
    apply trans_spec in Et. destruct Et as (s' & Ht & -> & _).
    unfold transition_pass_token in Ht. destruct (assert_kind _ _); cbn [bind] in Ht; try discriminate Ht. injection Ht as <-.
    apply do_pass_token_squiet in H. destruct H as (_ & _ & Hq). cbn [set_st f_state] in Hq.
    destruct (f_state f'); try discriminate Hk. cbn in Hq. discriminate Hq.
Qed.

(* ------------------------------------------------------------------------------------------ *)
(* do_await_data_response with the exact bookkeeping                                           *)

Lemma inst_add_val a b e : inst_add a b = Ok e -> e = a + b.
Proof. unfold inst_add. destruct (i64_ok _); [|discriminate]. intros H. injection H as <-. reflexivity. Qed.

Lemma adr_exact f now (w : W) f' w' a tk fa l :
  do_await_data_response A ops f now w = Ok (f', w') -> w_tx w = None ->
  f_state f = AwaitDataResponse a tk fa -> f_lba f = Some l ->
  (* still waiting: nothing complete in the buffer (or undecodable bytes, discarded), slot time not over *)
  (w_tx w' = None /\ w_calls w' = w_calls w /\ f_state f' = f_state f /\ f_lba f' = Some l /\
   f_pending f' = Nat.min (f_pending f) (length (w_rx w')) /\ ~ (l + slot_time (f_p f) < now) /\
   (w_rx w' = w_rx w \/ (w_rx w' = [] /\ w_rx w <> [])))
  \/ (* a telegram was received: reply delivered (UseToken) or token given up (ActiveIdle) *)
  (kind_of (f_state f') <> KAwaitDataResponse /\ exists t k, decode (w_rx w) = Ok (Accept t k))
  \/ (* slot time over: time-out callback, then do_use_token *)
  ((exists cl, w_calls w' = w_calls w ++ CallHandleTimeout (f_next_app f) a :: cl) /\
   (kind_of (f_state f') = KAwaitDataResponse ->
    exists wire, w_tx w' = Some wire /\ f_lba f' = Some (now + dur (f_p f) (length wire)) /\
                 f_pending f' = Nat.min (f_pending f) (length (w_rx w')))).
Proof.
  unfold do_await_data_response, assert_entry. intros H Hw Es El. rewrite Es in H.
  cbn [f_state kind_of do_fn_entry state_kind_eqb bind get_await_data_response] in H.
  destruct (nth_error (w_apps w) (f_next_app f)) as [app|]; [|discriminate H].
  destruct (receive_telegram (fun t => t) (w_rx w)) as [[rest received]| |] eqn:Er; cbn [bind] in H; try discriminate H.
  destruct received as [t|].
  - right. left.
    assert (Hdec : exists t0 k, decode (w_rx w) = Ok (Accept t0 k)).
    { unfold receive_telegram in Er. destruct (decode (w_rx w)) as [[ | |t0 k]| |]; cbn [bind] in Er; try discriminate Er.
      exists t0, k. reflexivity. }
    split; [|exact Hdec]. clear Hdec. destruct (is_valid_response (mark_rx f now) a t).
    + destruct (a_rx ops app now _ a t) as [app'| |]; cbn [bind] in H; try discriminate H.
      match type of H with bind ?x _ = _ => destruct x as [[f2 w2]| |] eqn:E2 end; cbn [bind] in H; try discriminate H.
      apply trans_spec in E2. destruct E2 as (s' & Ht & -> & _).
      unfold transition_use_token in Ht. destruct (assert_kind _ _); cbn [bind] in Ht; try discriminate Ht. injection Ht as <-.
      unfold set_first_cycle_done in H. cbn [set_st f_state get_use_token bind] in H. injection H as <- _. discriminate.
    + apply trans_spec in H. destruct H as (s' & Ht & -> & _).
      unfold transition_active_idle in Ht. destruct (assert_kind _ _); cbn [bind] in Ht; try discriminate Ht. injection Ht as <-. discriminate.
  - (* nothing delivered: rest = the buffer (NeedMore) or [] (Reject) *)
    assert (Hrest : rest = w_rx w \/ (rest = [] /\ w_rx w <> [])).
    { unfold receive_telegram in Er. destruct (decode (w_rx w)) as [[ | |t n]| |] eqn:Ed; cbn [bind] in Er; try discriminate Er.
      - injection Er as <-. left. reflexivity.
      - injection Er as <-. right. split; [reflexivity|]. intros C. rewrite C, decode_nil in Ed. discriminate Ed. }
    set (w0 := set_rx A (if Nat.ltb (length rest) (length (w_rx w)) then note A w TReplyRxDiscard else w) rest) in *.
    assert (Hw0 : w_tx w0 = None /\ w_calls w0 = w_calls w /\ w_rx w0 = rest)
      by (subst w0; destruct (Nat.ltb _ _); cbn; tauto).
    destruct Hw0 as (T0 & C0 & R0). clearbody w0.
    set (f0 := sync_pending_bytes A f w0) in *.
    assert (Hf0 : f_lba f0 = Some l /\ f_pending f0 = Nat.min (f_pending f) (length rest) /\ f_state f0 = f_state f /\ f_p f0 = f_p f)
      by (subst f0; unfold sync_pending_bytes; cbn [f_lba f_pending f_state f_p set_pending]; rewrite R0; tauto).
    destruct Hf0 as (L0 & P0 & S0 & Q0). clearbody f0.
    destruct (check_slot_expired f0 now) as [[f1 expired]| |] eqn:Ec; cbn [bind] in H; try discriminate H.
    pose proof (check_slot_expired_same _ _ _ _ Ec) as (Q1 & _ & _ & _ & S1 & P1 & _).
    assert (Hexp : f_lba f1 = Some l /\ expired = (l + slot_time (f_p f) <? now)).
    { unfold check_slot_expired, lba_get_or_insert in Ec. rewrite L0 in Ec.
      destruct (inst_add l (slot_time (f_p f0))) as [d| |] eqn:Ed; cbn [bind] in Ec; try discriminate Ec.
      apply inst_add_val in Ed. injection Ec as <- <-. split; [exact L0|]. rewrite Ed, Q0. reflexivity. }
    destruct Hexp as (L1 & Hexp).
    destruct expired.
    + right. right.
      destruct (a_to ops app now _ a) as [app'| |]; cbn [bind] in H; try discriminate H.
      match type of H with bind ?x _ = _ => destruct x as [[f2 w2]| |] eqn:E2 end; cbn [bind] in H; try discriminate H.
      apply trans_spec in E2. destruct E2 as (s' & Ht & -> & ->).
      destruct (set_first_cycle_done _) as [f3| |] eqn:Esf; cbn [bind] in H; try discriminate H.
      pose proof (set_first_cycle_done_frm A _ _ w0 Esf) as (_ & _ & L3 & P3 & Q3). cbn in L3, P3, Q3.
      match type of H with do_use_token A ops f3 now ?wx = _ => set (w2 := wx) in * end.
      assert (Hw2 : w_tx w2 = None /\ w_rx w2 = rest /\ w_calls w2 = w_calls w ++ [CallHandleTimeout (f_next_app f) a])
        by (subst w2; cbn; rewrite T0, R0, C0; tauto).
      destruct Hw2 as (T2 & R2 & C2).
      split.
      * pose proof (do_use_token_results A ops _ _ _ _ _ H) as (cl & Hc & _). rewrite C2 in Hc.
        exists cl. rewrite Hc, <- app_assoc. reflexivity.
      * intros Hk. destruct (do_use_token_into_adr _ _ _ _ _ H T2 Hk) as (wire & T' & R' & P' & L' & Q').
        exists wire. split; [exact T'|]. split; [rewrite L', Q3, Q1, Q0; reflexivity|].
        rewrite P', P3, P1, P0, R', R2. reflexivity.
    + left. injection H as <- <-. cbn. split; [exact T0|]. split; [exact C0|]. split; [congruence|]. split; [exact L1|].
      split; [rewrite P1, P0, R0; reflexivity|]. split; [symmetry in Hexp; apply Z.ltb_ge in Hexp; lia|].
      rewrite R0. exact Hrest.
Qed.

(* ------------------------------------------------------------------------------------------ *)
(* one poll that begins in AwaitDataResponse, with the exact bookkeeping                        *)

Lemma adr_poll f now busy rxb (apps : list A) f' o apps' calls a tk fa l :
  poll ops f now (mkPhyIn busy rxb) apps = Ok (f', o, apps', calls) ->
  f_state f = AwaitDataResponse a tk fa -> f_conn f = ConnOnline -> f_lba f = Some l ->
  (f_pending f <= length rxb)%nat ->
  (* the PHY is busy or the own transmission is not over: bus activity is marked, nothing else *)
  ((busy = true \/ now <= l) /\ tx o = None /\ calls = [] /\ rx_left o = rxb /\ f_state f' = f_state f /\
   f_lba f' = Some (Z.max l now) /\ f_pending f' = f_pending f)
  \/
  (busy = false /\ l < now /\
   let l1 := if Nat.ltb (f_pending f) (length rxb) then now else l in
   ((tx o = None /\ calls = [] /\ f_state f' = f_state f /\ f_lba f' = Some l1 /\
     f_pending f' = length (rx_left o) /\ ~ (l1 + slot_time (f_p f) < now) /\
     (rx_left o = rxb \/ (rx_left o = [] /\ rxb <> [])))
    \/ (kind_of (f_state f') <> KAwaitDataResponse /\ exists t k, decode rxb = Ok (Accept t k))
    \/ ((exists cl, calls = CallHandleTimeout (f_next_app f) a :: cl) /\
        (kind_of (f_state f') = KAwaitDataResponse ->
         exists wire, tx o = Some wire /\ f_lba f' = Some (now + dur (f_p f) (length wire)) /\
                      f_pending f' = length (rx_left o))))).
Proof.
  unfold poll, poll_traced. intros H Es Ec El Hpd.
  destruct (poll_inner ops f now (tx_busy (mkPhyIn busy rxb)) (mkWorld (Fdl.rx (mkPhyIn busy rxb)) None apps [] [])) as [[f1 w1]| |] eqn:E;
    cbn [bind] in H; try discriminate H.
  injection H as <- <- <- <-. cbn [tx_busy Fdl.rx tx rx_left] in *.
  apply C11Proofs.poll_inner_cases in E. destruct E as [(C & _)|(_ & f0 & w0 & Hpro & Hb)]; [congruence|].
  assert (Hpro' : f0 = f /\ w0 = mkWorld rxb None apps [] []).
  { inversion Hpro as [|fx wx s' Hip Hht Hs']; subst; [split; reflexivity|]. rewrite Es in Hht. discriminate Hht. }
  destruct Hpro' as (-> & ->).
  unfold C11Proofs.body, C11Proofs.predicted in Hb. rewrite El in Hb.
  destruct (Z.leb_spec now l) as [Hnl|Hnl].
  - left. rewrite orb_true_r in Hb. injection Hb as <- <-.
    destruct (mark_bus_activity_spec f now) as (ML & MP & MS & _). rewrite El in ML. cbn [gv] in ML.
    split; [right; exact Hnl|]. cbn. repeat split; assumption.
  - rewrite orb_false_r in Hb. destruct busy.
    + left. injection Hb as <- <-.
      destruct (mark_bus_activity_spec f now) as (ML & MP & MS & _). rewrite El in ML. cbn [gv] in ML.
      split; [left; reflexivity|]. cbn. repeat split; assumption.
    + right. split; [reflexivity|]. split; [exact Hnl|]. cbv zeta.
      unfold check_for_bus_activity in Hb. cbn [w_rx] in Hb.
      (* the station before the dispatch: pending_bytes = |rxb| in both cases *)
      set (l1 := if Nat.ltb (f_pending f) (length rxb) then now else l).
      assert (Hpre : exists f3 w3, C11Proofs.dispatch A ops f3 now w3 = Ok (f1, w1) /\
                f_state f3 = f_state f /\ f_lba f3 = Some l1 /\ f_pending f3 = length rxb /\ f_p f3 = f_p f /\
                w_tx w3 = None /\ w_rx w3 = rxb /\ w_calls w3 = [] /\ f_next_app f3 = f_next_app f).
      { subst l1. destruct (Nat.ltb_spec (f_pending f) (length rxb)) as [Hlt|Hge].
        - eexists. eexists. split; [exact Hb|].
          destruct (mark_bus_activity_spec f now) as (ML & MP & MS & MQ & _). rewrite El in ML. cbn [gv] in ML.
          pose proof (keepf_mark_bus_activity f now) as (_ & KN & _).
          cbn. rewrite MS, MQ, ML, KN. repeat split; try reflexivity. f_equal. lia.
        - eexists. eexists. split; [exact Hb|]. cbn. repeat split; try reflexivity; try assumption. lia. }
      destruct Hpre as (f3 & w3 & Hd & S3 & L3 & P3 & Q3 & T3 & R3 & C3 & N3).
      unfold C11Proofs.dispatch in Hd. rewrite S3, Es in Hd. cbn [kind_of poll_dispatch] in Hd.
      assert (Es3 : f_state f3 = AwaitDataResponse a tk fa) by congruence.
      destruct (adr_exact _ _ _ _ _ _ _ _ _ Hd T3 Es3 L3) as [(T' & C' & S' & L' & P' & Hne & Hrx)|[(Hk & Hdec)|((cl & Hc) & Hadr)]].
      * left. rewrite P3, R3 in *. rewrite Q3 in Hne.
        assert (Hlen : (length (w_rx w1) <= length rxb)%nat) by (destruct Hrx as [-> |(-> & _)]; cbn; lia).
        split; [exact T'|]. split; [congruence|]. split; [congruence|]. split; [exact L'|].
        split; [rewrite P'; lia|]. split; [exact Hne|exact Hrx].
      * right. left. split; [exact Hk|rewrite <- R3; exact Hdec].
      * right. right. split; [exists cl; rewrite Hc, C3, N3; reflexivity|]. intros Hk.
        destruct (Hadr Hk) as (wire & T' & L' & P'). exists wire. split; [exact T'|]. split; [rewrite L', Q3; reflexivity|].
        rewrite P', P3.
        assert (Hsuf : (length (w_rx w1) <= length rxb)%nat).
        { pose proof (do_await_data_response_bk A ops now _ _ _ _ Hd T3) as ((k & Ek) & _). rewrite Ek, R3, skipn_length. lia. }
        lia.
Qed.

(* a poll that begins in UseToken and ends in AwaitDataResponse has transmitted a request, and the
   station has counted every byte of the receive buffer *)
Lemma use_poll_into_adr f now busy rxb (apps : list A) f' o apps' calls :
  poll ops f now (mkPhyIn busy rxb) apps = Ok (f', o, apps', calls) ->
  kind_of (f_state f) = KUseToken -> f_conn f = ConnOnline -> (f_pending f <= length rxb)%nat ->
  kind_of (f_state f') = KAwaitDataResponse ->
  exists wire, tx o = Some wire /\ f_lba f' = Some (now + dur (f_p f) (length wire)) /\
               f_pending f' = length (rx_left o).
Proof.
  unfold poll, poll_traced. intros H Hk0 Ec Hpd Hk.
  destruct (poll_inner ops f now (tx_busy (mkPhyIn busy rxb)) (mkWorld (Fdl.rx (mkPhyIn busy rxb)) None apps [] [])) as [[f1 w1]| |] eqn:E;
    cbn [bind] in H; try discriminate H.
  injection H as <- <- <- <-. cbn [tx_busy Fdl.rx tx rx_left] in *.
  apply C11Proofs.poll_inner_cases in E. destruct E as [(C & _)|(_ & f0 & w0 & Hpro & Hb)]; [congruence|].
  assert (Hpro' : f0 = f /\ w0 = mkWorld rxb None apps [] []).
  { inversion Hpro as [|fx wx s' Hip Hht Hs']; subst; [split; reflexivity|].
    destruct (f_state f); try discriminate Hk0. discriminate Hht. }
  destruct Hpro' as (-> & ->).
  unfold C11Proofs.body in Hb.
  destruct (busy || C11Proofs.predicted f now).
  { injection Hb as <- <-. destruct (mark_bus_activity_spec f now) as (_ & _ & MS & _). rewrite MS in Hk. congruence. }
  unfold check_for_bus_activity in Hb. cbn [w_rx] in Hb.
  assert (Hpre : exists f3 w3, C11Proofs.dispatch A ops f3 now w3 = Ok (f1, w1) /\
            f_state f3 = f_state f /\ f_pending f3 = length rxb /\ f_p f3 = f_p f /\ w_tx w3 = None /\ w_rx w3 = rxb).
  { destruct (Nat.ltb_spec (f_pending f) (length rxb)) as [Hlt|Hge].
    - eexists. eexists. split; [exact Hb|].
      destruct (mark_bus_activity_spec f now) as (_ & _ & MS & MQ & _). cbn. rewrite MS, MQ. repeat split; reflexivity.
    - eexists. eexists. split; [exact Hb|]. cbn. repeat split; try reflexivity. lia. }
  destruct Hpre as (f3 & w3 & Hd & S3 & P3 & Q3 & T3 & R3).
  unfold C11Proofs.dispatch in Hd. rewrite S3 in Hd.
  destruct (f_state f) eqn:Es; try discriminate Hk0. cbn [kind_of poll_dispatch] in Hd.
  destruct (do_use_token_into_adr _ _ _ _ _ Hd T3 Hk) as (wire & T' & R' & P' & L' & Q').
  exists wire. split; [exact T'|]. split; [rewrite L', Q3; reflexivity|]. rewrite P', P3, R', R3. reflexivity.
Qed.

(* AwaitDataResponse is entered only from the token-use states *)
Lemma into_adr_from f now pin (apps : list A) f' o apps' calls :
  poll ops f now pin apps = Ok (f', o, apps', calls) ->
  kind_of (f_state f') = KAwaitDataResponse ->
  kind_of (f_state f) = KUseToken \/ kind_of (f_state f) = KAwaitDataResponse.
Proof.
  intros H Hk. apply C15Proofs.poll_calls_cases in H.
  destruct H as [(_ & _ & _ & [R|(_ & s3 & Hp & Hq & _)])|(f3 & w3 & w' & _ & Hs3 & _ & _ & _ & _ & [Hd|Hd])].
  - destruct R as (R & _). rewrite R in Hk. discriminate Hk.
  - destruct (f_state f') eqn:Es'; try discriminate Hk. cbn in Hq. subst s3.
    destruct Hp as [Hp|(_ & [Hp|Hp])]; [right; rewrite <- Hp; reflexivity|discriminate Hp|discriminate Hp].
  - left. unfold do_use_token, assert_entry in Hd. rewrite <- Hs3.
    destruct (f_state f3); cbn [kind_of do_fn_entry state_kind_eqb bind] in Hd; try discriminate Hd. reflexivity.
  - right. unfold do_await_data_response, assert_entry in Hd. rewrite <- Hs3.
    destruct (f_state f3); cbn [kind_of do_fn_entry state_kind_eqb bind] in Hd; try discriminate Hd. reflexivity.
Qed.

End Model.

(* ------------------------------------------------------------------------------------------ *)
(* the monitor side                                                                            *)

Section Sound.
Variable A : Type.
Variable ops : app_ops A.
Variable p : params.
Variable n : nat.

(* The relation between the second monitor and a station that waits for a data reply; buf = the PHY
   receive buffer between the polls. *)
Definition WA (f : fdl) (buf : bytes) (g : mon2) : Prop :=
  kind_of (f_state f) = KAwaitDataResponse ->
  exists l r, f_lba f = Some l /\ l_ref g = Some r /\ l <= r /\
    (forall e, l_txend g = Some e -> e <= l) /\
    ((f_pending f < length buf)%nat -> l_spur g = true).

Lemma ref1_facts m g s r : l_ref g = Some r ->
  exists r1, y_ref1 m g s = Some r1 /\ r <= r1 /\ (y_happened m g s = true -> y_now s <= r1).
Proof.
  intros Hr. unfold y_ref1. rewrite Hr. destruct (y_happened m g s); cbn [zmax_opt].
  - eexists. split; [reflexivity|]. split; [lia|]. intros _. lia.
  - exists r. split; [reflexivity|]. split; [lia|]. discriminate.
Qed.

Lemma WA_enter m g now busy rxb f' o calls wire l :
  tx o = Some wire -> f_lba f' = Some l -> l = now + dur p (length wire) ->
  f_pending f' = length (rx_left o) ->
  WA f' (rx_left o) (y_g' p n m g (poll_event now busy rxb f' o calls)).
Proof.
  intros Etx El Hl Hpd _. set (s := poll_event now busy rxb f' o calls).
  change (l_ref (y_g' p n m g s)) with (y_ref2 p m g s).
  change (l_txend (y_g' p n m g s)) with (y_txend p g s).
  change (l_spur (y_g' p n m g s)) with (y_spur m g s).
  assert (Hte : y_tx_end p s = Some l).
  { unfold y_tx_end, y_now. cbn [s poll_event s_tx FdlOracle.s_now]. rewrite Etx, dur_is_prop, Hl. reflexivity. }
  unfold y_ref2, y_txend. rewrite Hte.
  exists l, (zmax_opt (y_ref1 m g s) l). split; [exact El|]. split; [reflexivity|].
  split; [destruct (y_ref1 m g s); cbn; lia|]. split; [intros e He; injection He as <-; lia|]. lia.
Qed.

Section Poll.
Variables (f : fdl) (apps : list A) (buf : bytes) (tl : Z) (m : mon) (g : mon2).
Variables (now : Z) (busy : bool) (nb : bytes) (f' : fdl) (o : phy_out) (apps' : list A) (calls : list call).
Hypothesis HB : Base A p n f apps buf tl m.
Hypothesis HU : UB f tl g.
Hypothesis HW : WA f buf g.
Hypothesis Hlt : tl < now.
Hypothesis E : poll ops f now (mkPhyIn busy (buf ++ nb)) apps = Ok (f', o, apps', calls).

Let s := poll_event now busy (buf ++ nb) f' o calls.

Lemma s_facts :
  y_now s = now /\ s_busy s = busy /\ s_rx s = buf ++ nb /\ s_tx s = tx o /\
  y_k0 m = kind_of (f_state f) /\ y_k1 s = kind_of (f_state f') /\
  y_grew m s = Nat.ltb (length buf) (length (buf ++ nb)) /\ f_p f = p /\ (f_pending f <= length (buf ++ nb))%nat.
Proof.
  pose proof (x_k0_base A p n _ _ _ _ _ HB) as Hk0. destruct HB as [R Hp Hn Hv Hl Hpd Hb Htl].
  repeat split; try reflexivity; try assumption.
  - unfold y_grew. rewrite Hl. reflexivity.
  - rewrite app_length. lia.
Qed.

(* while the monitor thinks the station's own transmission may still be going on, or the PHY is busy,
   the poll does not get as far as the receive buffer: the two notions of "looks" agree in AwaitDataResponse *)
Lemma predicted_not_looks l : f_lba f = Some l -> now <= l -> y_looks g s = false.
Proof.
  intros El Hle. unfold y_looks, y_ongoing. destruct s_facts as (Hn & _).
  destruct (HU l El) as [H|(e & He & H)]; [lia|]. rewrite He, Hn.
  destruct (Z.leb_spec now e); [apply andb_false_r|lia].
Qed.

Lemma looks_when l : f_lba f = Some l -> (forall e, l_txend g = Some e -> e <= l) -> busy = false -> l < now ->
  y_looks g s = true.
Proof.
  intros El Ht Hb Hl. unfold y_looks, y_ongoing. destruct s_facts as (Hn & Hbs & _). rewrite Hbs, Hb, Hn.
  destruct (l_txend g) as [e|]; [|reflexivity]. specialize (Ht e eq_refl).
  destruct (Z.leb_spec now e); [lia|reflexivity].
Qed.

(* bytes the station has not counted yet are something the monitor sees happen *)
Lemma uncounted_happened l : f_lba f = Some l -> (forall e, l_txend g = Some e -> e <= l) ->
  ((f_pending f < length buf)%nat -> l_spur g = true) -> busy = false -> l < now ->
  (f_pending f < length (buf ++ nb))%nat -> y_grew m s = true \/ y_spur_now g s = true.
Proof.
  intros El Ht Hsp Hb Hl Hun. destruct s_facts as (_ & _ & Hrx & _ & _ & _ & Hg & _).
  destruct (Nat.ltb_spec (length buf) (length (buf ++ nb))) as [Hgr|Hng]; [left; exact Hg|].
  right. unfold y_spur_now. rewrite (looks_when l El Ht Hb Hl), Hrx, Hsp by lia.
  destruct (buf ++ nb); [cbn in Hun; lia|reflexivity].
Qed.

Lemma calls_nil_map : s_calls s = [] -> calls = [].
Proof. cbn [s poll_event s_calls]. destruct calls; [reflexivity|discriminate]. Qed.

(* (1) the liveness rule of C15 does not fire *)
Lemma live_ok : ~ In R15_no_reply_no_timeout (y_e_live p m g s).
Proof.
  intros Hin. unfold y_e_live in Hin.
  destruct (y_quiet m g s && y_expired p g s && negb (y_acted m s)) eqn:Ec; [|contradiction].
  apply in_app_or in Hin. destruct Hin as [Hin|Hin].
  { destruct (y_waiting_c12 m); [destruct Hin as [C|[]]; discriminate C|contradiction]. }
  apply in_app_or in Hin. destruct Hin as [Hin|Hin].
  { destruct (state_kind_eqb (y_k0 m) KCheckTokenPass); [destruct Hin as [C|[]]; discriminate C|contradiction]. }
  destruct (state_kind_eqb (y_k0 m) KAwaitDataResponse) eqn:Ek; [|contradiction]. clear Hin.
  destruct s_facts as (Hn & Hbs & Hrx & Htx & Hk0 & Hk1 & Hg & Hp & Hpd).
  rewrite Hk0 in Ek.
  destruct (f_state f) as [ | | | | | |a tk fa| | | ] eqn:Es; try discriminate Ek.
  destruct (HW ltac:(rewrite Es; reflexivity)) as (l & r & El & Er & Hlr & Ht & Hsp).
  assert (Hconn : f_conn f = ConnOnline).
  { pose proof (rep_conn _ _ (b_rep _ _ _ _ _ _ _ _ HB)) as C. rewrite Es in C. exact C. }
  apply andb_true_iff in Ec. destruct Ec as (Ec & Hact). apply andb_true_iff in Ec. destruct Ec as (Hq & Hexp).
  unfold y_quiet in Hq. apply andb_true_iff in Hq. destruct Hq as (Hq & Hnsp). apply andb_true_iff in Hq. destruct Hq as (Hlooks & Hngr).
  apply negb_true_iff in Hnsp, Hngr, Hact.
  unfold y_expired in Hexp. rewrite Er, Hn in Hexp. apply Z.ltb_lt in Hexp.
  unfold y_acted in Hact. apply orb_false_iff in Hact. destruct Hact as (Hact & _).
  apply orb_false_iff in Hact. destruct Hact as (Hact & Hcalls).
  apply orb_false_iff in Hact. destruct Hact as (Hact & Htxn).
  apply orb_false_iff in Hact. destruct Hact as (Hcons & Hkk).
  apply negb_false_iff in Hkk. rewrite Hk0, Hk1 in Hkk. cbn [kind_of] in Hkk.
  assert (Hcalls' : calls = []) by (apply calls_nil_map; destruct (s_calls s); [reflexivity|discriminate Hcalls]).
  assert (Hbusy : busy = false).
  { unfold y_looks in Hlooks. rewrite Hbs in Hlooks. destruct busy; [discriminate Hlooks|reflexivity]. }
  destruct (adr_poll A ops _ _ _ _ _ _ _ _ _ _ _ _ _ E Es Hconn El Hpd) as [([Hb|Hb] & _)|(_ & Hl & Hcase)].
  - congruence.
  - rewrite (predicted_not_looks l El Hb) in Hlooks. discriminate Hlooks.
  - cbv zeta in Hcase. destruct Hcase as [(_ & _ & _ & _ & _ & Hne & _)|[(Hk & _)|((cl & Hc) & _)]].
    + destruct (Nat.ltb_spec (f_pending f) (length (buf ++ nb))) as [Hun|_].
      * destruct (uncounted_happened l El Ht Hsp Hbusy Hl Hun); congruence.
      * rewrite Hp in Hne. lia.
    + apply Hk. destruct (f_state f'); try discriminate Hkk. reflexivity.
    + rewrite Hcalls' in Hc. discriminate Hc.
Qed.

(* (2) the relation is kept *)
Lemma wa_poll : WA f' (rx_left o) (y_g' p n m g s).
Proof.
  intros Hk'.
  destruct s_facts as (Hn & Hbs & Hrx & Htx & Hk0 & Hk1 & Hg & Hp & Hpd).
  pose proof (b_rep _ _ _ _ _ _ _ _ HB) as R.
  destruct (into_adr_from A ops _ _ _ _ _ _ _ _ E Hk') as [Hu|Ha].
  - assert (Hconn : f_conn f = ConnOnline).
    { pose proof (rep_conn _ _ R) as C. destruct (f_state f); try discriminate Hu. exact C. }
    destruct (use_poll_into_adr A ops _ _ _ _ _ _ _ _ _ E Hu Hconn Hpd Hk') as (wire & Etx & El' & Hpd').
    eapply (WA_enter m g now busy (buf ++ nb) f' o calls wire); [exact Etx|exact El'|rewrite Hp; reflexivity|exact Hpd'|exact Hk'].
  - destruct (f_state f) as [ | | | | | |a tk fa| | | ] eqn:Es; try discriminate Ha.
    destruct (HW ltac:(rewrite Es; reflexivity)) as (l & r & El & Er & Hlr & Ht & Hsp).
    assert (Hconn : f_conn f = ConnOnline) by (pose proof (rep_conn _ _ R) as C; rewrite Es in C; exact C).
    change (l_ref (y_g' p n m g s)) with (y_ref2 p m g s).
    change (l_txend (y_g' p n m g s)) with (y_txend p g s).
    change (l_spur (y_g' p n m g s)) with (y_spur m g s).
    destruct (ref1_facts m g s r Er) as (r1 & Er1 & Hr1 & Hhap). rewrite Hn in Hhap.
    destruct (adr_poll A ops _ _ _ _ _ _ _ _ _ _ _ _ _ E Es Hconn El Hpd)
      as [(Hb & Etx & Hc & Hrl & Hs' & El' & Hpd')|(Hbusy & Hl & Hcase)].
    + (* bus activity marked, nothing else *)
      assert (Hte : y_tx_end p s = None) by (unfold y_tx_end; rewrite Htx, Etx; reflexivity).
      unfold y_ref2, y_txend. rewrite Hte, Er1.
      exists (Z.max l now), r1. split; [exact El'|]. split; [reflexivity|].
      assert (Hnl : y_looks g s = false).
      { destruct Hb as [Hb|Hb]; [unfold y_looks; rewrite Hbs, Hb; reflexivity|exact (predicted_not_looks l El Hb)]. }
      split; [|split].
      * destruct Hb as [Hb|Hb]; [|lia].
        assert (Hh : y_happened m g s = true) by (unfold y_happened; rewrite Hbs, Hb; rewrite !orb_true_r; reflexivity).
        specialize (Hhap Hh). lia.
      * intros e He. specialize (Ht e He). lia.
      * intros Hun. rewrite Hrl, Hpd' in Hun. unfold y_spur, y_consumed.
        cbn [s poll_event s_consumed]. rewrite Hrl, Nat.sub_diag. cbn [Nat.eqb negb]. fold s. rewrite Hnl.
        destruct (Nat.ltb_spec (f_pending f) (length buf)) as [H1|H1]; [rewrite (Hsp H1); reflexivity|].
        rewrite Hg. replace (Nat.ltb (length buf) (length (buf ++ nb))) with true by (symmetry; apply Nat.ltb_lt; lia).
        apply orb_true_r.
    + cbv zeta in Hcase. destruct Hcase as [(Etx & Hc & Hs' & El' & Hpd' & Hne & Hrl)|[(Hk & _)|(_ & Hadr)]].
      * assert (Hte : y_tx_end p s = None) by (unfold y_tx_end; rewrite Htx, Etx; reflexivity).
        unfold y_ref2, y_txend. rewrite Hte, Er1.
        eexists. exists r1. split; [exact El'|]. split; [reflexivity|]. split; [|split].
        -- destruct (Nat.ltb_spec (f_pending f) (length (buf ++ nb))) as [Hun|_]; [|lia].
           assert (Hh : y_happened m g s = true).
           { unfold y_happened. destruct (uncounted_happened l El Ht Hsp Hbusy Hl Hun) as [X|X]; rewrite X; rewrite ?orb_true_r; reflexivity. }
           exact (Hhap Hh).
        -- intros e He. specialize (Ht e He). destruct (Nat.ltb (f_pending f) (length (buf ++ nb))); lia.
        -- lia.
      * contradiction.
      * destruct (Hadr Hk') as (wire & Etx & El' & Hpd').
        eapply (WA_enter m g now busy (buf ++ nb) f' o calls wire); [exact Etx|exact El'|rewrite Hp; reflexivity|exact Hpd'|exact Hk'].
Qed.

End Poll.

Lemma wa_api a f f' buf m g v : api_result p a f = Ok f' -> WA f buf g -> WA f' buf (snd (mon_after_api a v m g)).
Proof.
  intros E HW.
  assert (Hnew : forall p0 f1 g1, fdl_new p0 = Ok f1 -> WA f1 buf g1).
  { intros p0 f1 g1 E1 Hk. destruct (fdl_new_fields _ _ E1) as (S1 & _). rewrite S1 in Hk. discriminate Hk. }
  destruct a; cbn [api_result mon_after_api snd] in *.
  - eapply Hnew. exact E.
  - unfold set_online, set_state in E. injection E as <-. exact HW.
  - unfold set_offline, set_state in E. eapply Hnew. exact E.
  - discriminate E.
Qed.

End Sound.

(* ------------------------------------------------------------------------------------------ *)
(* the theorem                                                                                 *)

Section Thm.
Variable A : Type.
Variable ops : app_ops A.
Variable p : params.
Hypothesis Happs : apps_total A ops.
Hypothesis Hbv : builder_valid p.
Hypothesis Hdata : app_sends_data A ops.

Definition JL (n : nat) (f : fdl) (apps : list A) (buf : bytes) (tl : Z) (m : mon) (g : mon2) : Prop :=
  J5 A p n f apps buf tl m g /\ UB f tl g /\ WA f buf g.

(* C15, FULL: no rule of C15 fires on a transcript of the model, for ALL input histories - the liveness rule
   R15_no_reply_no_timeout included *)
Theorem c15_oracle_sound (apps : list A) (ins : list minput) :
  ins_ok 0 ins ->
  forall k r, In (k, r) (monitor p (length apps) (model_transcript A ops p apps ins)) -> rule_prop r <> PC15.
Proof.
  intros Hok.
  apply (generic_sound_transcript A ops p (length apps) (fun r => rule_prop r <> PC15) (JL (length apps)) (fun _ => True));
    try assumption; try reflexivity.
  - discriminate.
  - intros a f apps0 buf tl m g f' ((HB & c & HV) & HU & HW) E _. split; [split; [eapply base_api; eassumption|]|split].
    + eapply vi_api; eassumption.
    + eapply ub_api; eassumption.
    + eapply wa_api; eassumption.
  - intros f apps0 buf tl m g now busy nb f' o apps' calls (HJ & HU & HW) Hlt Hnow Hnb E _.
    pose proof HJ as (HB & _).
    destruct (J5_poll A ops p (length apps) Happs Hbv Hdata _ _ _ _ _ _ _ _ _ _ _ _ _ HJ Hlt Hnow Hnb E)
      as ((c' & Hf & H15 & H13 & Hrr & Hend & HV') & HB').
    split; [|split; [|split; [split; [exact HB'|exists c'; rewrite fst_mon_poll, mon_poll2_eq; exact HV']|split]]].
    + apply (mon_poll_errs_other PC15); try discriminate; [rewrite Hf; apply onlyp_nil|intros _; exact H15].
    + intros r Hr Hp15. rewrite mon_poll2_eq in Hr. cbn [snd] in Hr.
      apply in_app_or in Hr; destruct Hr as [Hr|Hr]; [pose proof (y_e_found_only _ _ _ _ r Hr) as C; rewrite Hp15 in C; discriminate C|].
      apply in_app_or in Hr; destruct Hr as [Hr|Hr]; [pose proof (y_e_tok_only _ _ _ r Hr) as C; rewrite Hp15 in C; discriminate C|].
      apply in_app_or in Hr; destruct Hr as [Hr|Hr]; [pose proof (y_e_sweep_only _ _ _ _ r Hr) as C; rewrite Hp15 in C; discriminate C|].
      apply in_app_or in Hr; destruct Hr as [Hr|Hr]; [rewrite H13 in Hr; contradiction|].
      apply in_app_or in Hr; destruct Hr as [Hr|Hr]; [pose proof (y_e_scan_only _ _ _ _ r Hr) as C; rewrite Hp15 in C; discriminate C|].
      apply in_app_or in Hr; destruct Hr as [Hr|Hr]; [rewrite Hrr in Hr; contradiction|].
      apply in_app_or in Hr; destruct Hr as [Hr|Hr]; [rewrite Hend in Hr; contradiction|].
      apply in_app_or in Hr; destruct Hr as [Hr|Hr]; [|pose proof (y_e_backoff_only _ _ _ _ r Hr) as C; rewrite Hp15 in C; discriminate C].
      (* the liveness group *)
      assert (Hr15 : r = R15_no_reply_no_timeout).
      { unfold y_e_live in Hr.
        destruct (y_quiet m g _ && y_expired p g _ && negb (y_acted m _)); [|contradiction].
        apply in_app_or in Hr; destruct Hr as [Hr|Hr].
        { destruct (y_waiting_c12 m); [destruct Hr as [<-|[]]; discriminate Hp15|contradiction]. }
        apply in_app_or in Hr; destruct Hr as [Hr|Hr].
        { destruct (state_kind_eqb _ _); [destruct Hr as [<-|[]]; discriminate Hp15|contradiction]. }
        destruct (state_kind_eqb _ _); [destruct Hr as [<-|[]]; reflexivity|contradiction]. }
      subst r. exact (live_ok A ops p (length apps) _ _ _ _ _ _ _ _ _ _ _ _ _ HB HU HW Hlt E Hr).
    + rewrite mon_poll2_eq. cbn [fst]. eapply ub_poll; try eassumption. lia.
    + rewrite mon_poll2_eq. cbn [fst]. exact (wa_poll A ops p (length apps) _ _ _ _ _ _ _ _ _ _ _ _ _ HB HU HW Hlt E).
  - intros f0 apps0 E Hn _. split; [apply J5_init; assumption|]. destruct (fdl_new_fields _ _ E) as (S1 & _ & L1 & _). split.
    + intros l El. rewrite L1 in El. discriminate El.
    + intros Hk. rewrite S1 in Hk. discriminate Hk.
  - unfold transcript_ok. destruct (fdl_new p); [split; [exact I|apply run_ok_true]|exact I|exact I].
Qed.

End Thm.
