(* C03: bring-up order and request contents, history theorems (on top of DpHistory.v).
   - the bring-up monitors as stand-alone functions of the wire trace: `bringup_phase` (the text monitor:
     wire part and event part of DpOracle.c03_step) and `strict_phase` (wire only, with two more resets);
     both are proved equal to the ghost fields the invariant of DpHistory.v talks about;
   - C03_order and the stronger "every request is the one the phase calls for";
   - SAP numbers and PDU contents of every request of every history, with literal values. *)
From PB Require Import Peripheral DpOracle DpStepProofs DpHistory.

(* ------------------------------------------------------------------ the monitors, stand-alone *)

(* monitor state: phase and the service of the last request (SvOther: none) *)
Record bu : Set := mkBu { bu_phase : phase; bu_sv : service }.
Definition bu0 : bu := mkBu PhNeedDiag SvOther.

(* TEXT monitor = DpOracle.c03_step per peripheral: an accepted reply moves the phase as text_phase says
   (Prm_Req -> DiagAnswered from everywhere; NeedDiag -> DiagAnswered; DiagAnswered -Set_Prm acked-> PrmAcked
   -Chk_Cfg acked-> CfgAcked -diagnostics without Prm_Fault/Cfg_Fault/Station_Not_Ready-> Ready); the events
   Offline, ParameterError, ConfigError ("considered offline") reset it to NeedDiag *)
Definition bu_step (b : bu) (e : wev) : bu :=
  match e with
  | WReq h _ => mkBu (bu_phase b) (classify h)
  | WReply t ev =>
      let ph := if reply_accepted (bu_sv b) t then text_phase (bu_phase b) (bu_sv b) t else bu_phase b in
      mkBu (if offline_event ev then PhNeedDiag else ph) (bu_sv b)
  | WEvent ev =>
      mkBu (if offline_event (Some ev) then PhNeedDiag else bu_phase b)
           (match ev with EvOffline => SvOther | _ => bu_sv b end)
  | _ => b
  end.
Definition bringup_phase (tr : list wev) : phase := bu_phase (fold_left bu_step tr bu0).

(* STRICT monitor: the wire and the Offline event only (parameter / configuration faults are read from the
   diagnostics flags), see DpHistory.next_phase *)
Definition su_step (b : bu) (e : wev) : bu :=
  match e with
  | WReq h _ => mkBu (bu_phase b) (classify h)
  | WReply t _ =>
      if reply_accepted (bu_sv b) t then mkBu (next_phase (bu_phase b) (bu_sv b) t) (bu_sv b) else b
  | WEvent EvOffline => mkBu PhNeedDiag SvOther
  | _ => b
  end.
Definition strict_phase (tr : list wev) : phase := bu_phase (fold_left su_step tr bu0).

Definition last_sv (g : ghost) : service := match gh_last g with Some h => classify h | None => SvOther end.

Lemma bringup_is_ghost : forall tr,
  fold_left bu_step tr bu0 = mkBu (gh_text (ghost_of tr)) (last_sv (ghost_of tr)).
Proof.
  induction tr as [|e tr IH] using rev_ind; [reflexivity|].
  unfold ghost_of in *. rewrite !fold_left_app. cbn [fold_left]. rewrite IH.
  set (g := fold_left gstep tr ghost0).
  destruct e as [h pdu| |ev|t ev| |]; unfold last_sv; cbn [bu_step gstep bu_phase bu_sv]; try reflexivity.
  - destruct ev; reflexivity.
  - fold (last_sv g). destruct (reply_accepted (last_sv g) t); reflexivity.
Qed.

Lemma strict_is_ghost : forall tr,
  fold_left su_step tr bu0 = mkBu (gh_phase (ghost_of tr)) (last_sv (ghost_of tr)).
Proof.
  induction tr as [|e tr IH] using rev_ind; [reflexivity|].
  unfold ghost_of in *. rewrite !fold_left_app. cbn [fold_left]. rewrite IH.
  set (g := fold_left gstep tr ghost0).
  destruct e as [h pdu| |ev|t ev| |]; unfold last_sv; cbn [su_step gstep bu_phase bu_sv]; try reflexivity.
  - destruct ev; reflexivity.
  - fold (last_sv g). destruct (reply_accepted (last_sv g) t); reflexivity.
Qed.

Lemma bringup_phase_ghost : forall tr, bringup_phase tr = gh_text (ghost_of tr).
Proof. intro tr. unfold bringup_phase. rewrite bringup_is_ghost. reflexivity. Qed.
Lemma strict_phase_ghost : forall tr, strict_phase tr = gh_phase (ghost_of tr).
Proof. intro tr. unfold strict_phase. rewrite strict_is_ghost. reflexivity. Qed.

(* ------------------------------------------------------------------ every request of every history *)

Lemma request_facts : forall pa a o tr,
  1 <= p_max_retry pa -> history pa a o tr ->
  forall pre h pdu post,
  tr = pre ++ WReq h pdu :: post ->
  (exists f, std_request pa a o f (classify h) h pdu) /\
  phase_service_ok (strict_phase pre) (classify h) /\
  (classify h = SvDx -> bringup_phase pre = PhReady).
Proof.
  intros pa a o tr Hmax Hh pre h pdu post Htr.
  pose proof (history_new pa a o tr Hmax Hh _ _ _ Htr) as Hok.
  cbn [ev_ok] in Hok. destruct Hok as (f & Hstd & _ & _ & _ & _ & _ & Hord & Htxt).
  rewrite strict_phase_ghost, bringup_phase_ghost. split; [exists f; exact Hstd|]. split; assumption.
Qed.

(* a request on the default SAP is a Data_Exchange request *)
Lemma default_sap_is_dx : forall pa a o f h pdu,
  std_request pa a o f (classify h) h pdu -> h_dsap h = None -> classify h = SvDx.
Proof.
  intros pa a o f h pdu Hstd Hd. destruct (classify h) eqn:Hc; cbn in Hstd; try contradiction; try reflexivity.
  - destruct Hstd as (-> & _). discriminate Hd.
  - destruct Hstd as (u & _ & -> & _). discriminate Hd.
  - destruct Hstd as (u & _ & -> & _). discriminate Hd.
Qed.

(* C03_order *)
Lemma order : forall pa a o tr,
  1 <= p_max_retry pa -> history pa a o tr ->
  forall pre h pdu post,
  tr = pre ++ WReq h pdu :: post ->
  h_dsap h = None ->
  bringup_phase pre = PhReady /\ strict_phase pre = PhReady /\
  h = mkHeader a (p_address pa) None None (h_fc h) /\ (exists f, h_fc h = FcRequest f RqSrdHigh).
Proof.
  intros pa a o tr Hmax Hh pre h pdu post Htr Hd.
  destruct (request_facts pa a o tr Hmax Hh _ _ _ _ Htr) as ((f & Hstd) & Hord & Htxt).
  pose proof (default_sap_is_dx _ _ _ _ _ _ Hstd Hd) as Hdx.
  rewrite Hdx in Hstd, Hord. cbn in Hstd, Hord.
  split; [apply Htxt; exact Hdx|]. split; [exact Hord|].
  rewrite Hstd. cbn. split; [reflexivity|exists f; reflexivity].
Qed.

(* every request is the one the strict phase calls for *)
Lemma each_request_in_order : forall pa a o tr,
  1 <= p_max_retry pa -> history pa a o tr ->
  forall pre h pdu post,
  tr = pre ++ WReq h pdu :: post ->
  match h_dsap h with
  | None => strict_phase pre = PhReady
  | Some d =>
      (d = 60 /\ (strict_phase pre = PhNeedDiag \/ strict_phase pre = PhCfgAcked \/ strict_phase pre = PhReady)) \/
      (d = 61 /\ strict_phase pre = PhDiagAnswered) \/
      (d = 62 /\ strict_phase pre = PhPrmAcked)
  end.
Proof.
  intros pa a o tr Hmax Hh pre h pdu post Htr.
  destruct (request_facts pa a o tr Hmax Hh _ _ _ _ Htr) as ((f & Hstd) & Hord & _).
  destruct (classify h) eqn:Hc; cbn in Hstd, Hord; try contradiction.
  - destruct Hstd as (-> & _). cbn. left. auto.
  - destruct Hstd as (u & _ & -> & _). cbn. right. left. auto.
  - destruct Hstd as (u & _ & -> & _). cbn. right. right. auto.
  - rewrite Hstd. cbn. exact Hord.
Qed.

(* C03_requests_use_standard_saps, history form *)
Lemma history_saps : forall pa a o tr,
  1 <= p_max_retry pa -> history pa a o tr ->
  forall pre h pdu post,
  tr = pre ++ WReq h pdu :: post ->
  h_da h = a /\ h_sa h = p_address pa /\
  exists f,
    (h_dsap h = Some 60 /\ h_ssap h = Some 62 /\ h_fc h = FcRequest f RqSrdLow /\ pdu = []) \/
    (h_dsap h = Some 61 /\ h_ssap h = Some 62 /\ h_fc h = FcRequest f RqSrdLow) \/
    (h_dsap h = Some 62 /\ h_ssap h = Some 62 /\ h_fc h = FcRequest f RqSrdLow) \/
    (h_dsap h = None /\ h_ssap h = None /\ h_fc h = FcRequest f RqSrdHigh).
Proof.
  intros pa a o tr Hmax Hh pre h pdu post Htr.
  destruct (request_facts pa a o tr Hmax Hh _ _ _ _ Htr) as ((f & Hstd) & _ & _).
  destruct (std_request_classify _ _ _ _ _ _ _ Hstd) as (_ & Hda & Hsa & _).
  split; [exact Hda|]. split; [exact Hsa|]. exists f.
  destruct (classify h); cbn in Hstd; try contradiction.
  - destruct Hstd as (-> & ->). left. cbn. auto.
  - destruct Hstd as (u & _ & -> & _). right. left. cbn. auto.
  - destruct Hstd as (u & _ & -> & _). right. right. left. cbn. auto.
  - rewrite Hstd. right. right. right. cbn. auto.
Qed.

(* C03_requests_use_standard_saps, one-step form over ALL peripheral states (reachable or not) *)
Lemma transmit_saps : forall pa op p p' h pdu,
  p_transmit pa op p = Ok (p', PtxSend h pdu) ->
  h_da h = pe_addr p /\ h_sa h = p_address pa /\
  match pe_state p with
  | PsOffline | PsValidateConfig =>
      h_dsap h = Some 60 /\ h_ssap h = Some 62 /\ h_fc h = FcRequest (pe_fcb p) RqSrdLow /\ pdu = []
  | PsWaitForParam => h_dsap h = Some 61 /\ h_ssap h = Some 62 /\ h_fc h = FcRequest (pe_fcb p) RqSrdLow
  | PsWaitForConfig => h_dsap h = Some 62 /\ h_ssap h = Some 62 /\ h_fc h = FcRequest (pe_fcb p) RqSrdLow
  | PsPreDataExchange | PsDataExchange =>
      (h_dsap h = Some 60 /\ h_ssap h = Some 62 /\ h_fc h = FcRequest (pe_fcb p) RqSrdLow /\ pdu = []) \/
      (h_dsap h = None /\ h_ssap h = None /\ h_fc h = FcRequest (pe_fcb p) RqSrdHigh)
  end.
Proof.
  intros pa op p p' h pdu H.
  destruct (transmit_facts _ _ _ _ _ H) as (_ & _ & _ & Hs & _ & _ & _ & _ & Hstd).
  destruct (std_request_classify _ _ _ _ _ _ _ Hstd) as (_ & Hda & Hsa & _).
  split; [exact Hda|]. split; [exact Hsa|].
  unfold state_service in Hstd. rewrite Hs in Hstd.
  destruct (pe_state p); cbn in Hstd.
  - destruct Hstd as (-> & ->). cbn. auto.
  - destruct Hstd as (u & _ & -> & _). cbn. auto.
  - destruct Hstd as (u & _ & -> & _). cbn. auto.
  - destruct Hstd as (-> & ->). cbn. auto.
  - destruct (pe_diag_in_flight p'); cbn in Hstd.
    + destruct Hstd as (-> & ->). left. cbn. auto.
    + rewrite Hstd. right. cbn. auto.
  - destruct (pe_diag_in_flight p'); cbn in Hstd.
    + destruct Hstd as (-> & ->). left. cbn. auto.
    + rewrite Hstd. right. cbn. auto.
Qed.

(* Global_Control: broadcast to DSAP 58 from SSAP 62, unacknowledged *)
Lemma gc_saps : forall pa,
  gc_header pa = mkHeader 127 (p_address pa) (Some 58) (Some 62) (FcRequest FcbInactive RqSdnLow).
Proof. reflexivity. Qed.

(* a diagnostics reply is only accepted from SSAP 60 to DSAP 62 with at least 6 bytes *)
Lemma diag_reply_saps : forall p t p1 d,
  p_handle_diag p t = Ok (p1, Some d) ->
  exists h pdu, t = TData h pdu /\ h_dsap h = Some 62 /\ h_ssap h = Some 60 /\ (6 <= length pdu)%nat.
Proof.
  intros p t p1 d H. apply handle_diag_facts in H.
  destruct H as (_ & _ & _ & _ & _ & Hacc & _ & h & pdu & -> & _).
  exists h, pdu. split; [reflexivity|]. cbn in Hacc.
  apply andb_true_iff in Hacc. destruct Hacc as (Hacc & Hlen).
  apply andb_true_iff in Hacc. destruct Hacc as (Hd & Hs).
  unfold opt_eqb in Hd, Hs.
  destruct (h_dsap h) as [x|]; [|discriminate Hd]. destruct (h_ssap h) as [y|]; [|discriminate Hs].
  apply Z.eqb_eq in Hd. apply Z.eqb_eq in Hs. subst. repeat split. apply Nat.leb_le. exact Hlen.
Qed.

(* ------------------------------------------------------------------ C03_options_faithful *)

(* the Set_Prm PDU for ALL parameter and option values *)
Lemma set_prm_layout : forall pa o user,
  set_prm_pdu pa o user =
  [128 + (if o_sync o then 32 else 0) + (if o_freeze o then 16 else 0)
       + (match p_watchdog pa with Some _ => 8 | None => 0 end);
   match p_watchdog pa with Some (f1, _) => f1 | None => 0 end;
   match p_watchdog pa with Some (_, f2) => f2 | None => 0 end;
   p_min_tsdr_bits pa; o_ident o / 256; o_ident o mod 256; o_groups o] ++ user.
Proof. intros. rewrite set_prm_std. reflexivity. Qed.

Lemma options_faithful : forall pa a o tr,
  1 <= p_max_retry pa -> history pa a o tr ->
  forall pre h pdu post,
  tr = pre ++ WReq h pdu :: post ->
  (h_dsap h = Some 61 ->
     exists user, o_user_prm o = Some user /\
       pdu = [128 + (if o_sync o then 32 else 0) + (if o_freeze o then 16 else 0)
                  + (match p_watchdog pa with Some _ => 8 | None => 0 end);
              match p_watchdog pa with Some (f1, _) => f1 | None => 0 end;
              match p_watchdog pa with Some (_, f2) => f2 | None => 0 end;
              p_min_tsdr_bits pa; o_ident o / 256; o_ident o mod 256; o_groups o] ++ user) /\
  (h_dsap h = Some 62 -> exists cfg, o_config o = Some cfg /\ pdu = cfg) /\
  (h_dsap h = Some 60 -> pdu = []).
Proof.
  intros pa a o tr Hmax Hh pre h pdu post Htr.
  destruct (request_facts pa a o tr Hmax Hh _ _ _ _ Htr) as ((f & Hstd) & _ & _).
  destruct (classify h); cbn in Hstd; try contradiction.
  - destruct Hstd as (-> & ->). cbn. repeat split; intro Hx; try discriminate Hx; reflexivity.
  - destruct Hstd as (u & Hu & -> & ->). cbn. repeat split; intro Hx; try discriminate Hx.
    exists u. split; [exact Hu|reflexivity].
  - destruct Hstd as (c & Hc & -> & ->). cbn. repeat split; intro Hx; try discriminate Hx.
    exists c. split; [exact Hc|reflexivity].
  - rewrite Hstd. cbn. repeat split; intro Hx; discriminate Hx.
Qed.

(* the PDU is a byte string whenever the options and parameters are in their documented ranges *)
Lemma set_prm_is_bytes : forall pa o user,
  0 <= o_ident o < 65536 -> is_byte (o_groups o) -> is_byte (p_min_tsdr_bits pa) ->
  match p_watchdog pa with Some (f1, f2) => is_byte f1 /\ is_byte f2 | None => True end ->
  all_bytes user ->
  all_bytes (set_prm_pdu pa o user).
Proof.
  intros pa o user Hid Hg Ht Hw Hu. rewrite set_prm_layout. unfold all_bytes.
  assert (H1 : is_byte (o_ident o / 256)).
  { unfold is_byte. split; [apply Z.div_pos; lia|apply Z.div_lt_upper_bound; lia]. }
  assert (H2 : is_byte (o_ident o mod 256)) by (unfold is_byte; apply Z.mod_pos_bound; lia).
  repeat (apply Forall_cons); try assumption.
  - unfold is_byte. destruct (o_sync o); destruct (o_freeze o); destruct (p_watchdog pa); lia.
  - destruct (p_watchdog pa) as [[f1 f2]|]; [apply Hw|unfold is_byte; lia].
  - destruct (p_watchdog pa) as [[f1 f2]|]; [apply Hw|unfold is_byte; lia].
Qed.

(* ------------------------------------------------------------------ at the master level *)
From PB Require Import DpMaster DpMasterHistory.

Lemma order_master : forall pa bufsize m0 cs m' outs log,
  1 <= p_max_retry pa ->
  d_run pa bufsize m0 cs [] = Ok (m', outs, log) ->
  contract_m None outs = true ->
  forall k a o i q d, slot m0 k = Some (periph_new a o i q d) ->
  forall pre h pdu post,
  proj k log = pre ++ WReq h pdu :: post ->
  h_dsap h = None ->
  bringup_phase pre = PhReady /\ strict_phase pre = PhReady /\
  h = mkHeader a (p_address pa) None None (h_fc h) /\ (exists f, h_fc h = FcRequest f RqSrdHigh).
Proof.
  intros pa bufsize m0 cs m' outs log Hm H C k a o i q d Hk.
  apply (order pa a o (proj k log) Hm). apply (master_history pa bufsize m0 cs m' outs log H C k a o i q d Hk).
Qed.

Lemma monitors_are_ghost : forall tr,
  bringup_phase tr = gh_text (ghost_of tr) /\ strict_phase tr = gh_phase (ghost_of tr).
Proof. intro tr. split; [apply bringup_phase_ghost|apply strict_phase_ghost]. Qed.

Lemma state_phase_invariant : forall pa a o p g,
  Inv pa a o p g ->
  gh_phase g = match pe_state p with
               | PsOffline => PhNeedDiag
               | PsWaitForParam => PhDiagAnswered
               | PsWaitForConfig => PhPrmAcked
               | PsValidateConfig => PhCfgAcked
               | PsPreDataExchange | PsDataExchange => PhReady
               end /\
  (gh_text g = gh_phase g \/ (gh_phase g = PhCfgAcked /\ gh_text g = PhReady)).
Proof. intros pa a o p g I. split; [exact (inv_phase _ _ _ _ _ I)|exact (inv_text _ _ _ _ _ I)]. Qed.
