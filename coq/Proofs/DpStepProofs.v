(* One-step theorems about the peripheral model (Peripheral.v): they hold for EVERY value of the
   peripheral record, reachable or not.  Used by Properties/C03.v C04.v C07.v C08.v. *)
From PB Require Import Peripheral.

(* ------------------------------------------------------------------ small facts *)

Lemma opstate_eqb_stop : forall op, op <> OpStop -> opstate_eqb op OpStop = false.
Proof. intros op H. destruct op; try reflexivity. now elim H. Qed.

Lemma fcbit_cycle_toggles : forall f f',
  fcbit_cycle f = Some f' -> fcbit_fcv f' = true /\ fcbit_fcb f' = negb (fcbit_fcb f).
Proof. intros f f' H. destruct f; inversion H; subst; split; reflexivity. Qed.

Lemma fcb_cycle_ok : forall f f', fcb_cycle f = Ok f' -> fcbit_cycle f = Some f'.
Proof. intros f f'. unfold fcb_cycle. destruct (fcbit_cycle f); intro H; inversion H; reflexivity. Qed.

(* ------------------------------------------------------------------ C03: request contents *)

Lemma set_prm_bytes : forall pa op p user,
  op <> OpStop ->
  dp_retry_exhausted (pe_retry p) (p_max_retry pa) = false ->
  pe_retry p < 255 ->
  pe_state p = PsWaitForParam ->
  o_user_prm (pe_opts p) = Some user ->
  p_transmit pa op p =
    Ok (set_retry p (pe_retry p + 1),
        PtxSend (mkHeader (pe_addr p) (p_address pa) (Some 61) (Some 62) (FcRequest (pe_fcb p) RqSrdLow))
                ([128 + (if o_sync (pe_opts p) then 32 else 0) + (if o_freeze (pe_opts p) then 16 else 0)
                      + (match p_watchdog pa with Some _ => 8 | None => 0 end);
                  match p_watchdog pa with Some (f1, _) => f1 | None => 0 end;
                  match p_watchdog pa with Some (_, f2) => f2 | None => 0 end;
                  p_min_tsdr_bits pa; o_ident (pe_opts p) / 256; o_ident (pe_opts p) mod 256;
                  o_groups (pe_opts p)] ++ user)).
Proof.
  intros pa op p user Hop Hex Hr Hst Hprm.
  unfold p_transmit. rewrite (opstate_eqb_stop op Hop).
  unfold p_transmit_select. rewrite Hex, Hst, Hprm.
  unfold prm_request. cbv iota beta.
  assert (Hle : (255 <=? pe_retry p) = false) by (apply Z.leb_gt; exact Hr).
  cbn [pe_retry]. rewrite Hle.
  unfold set_prm_pdu.
  destruct (o_sync (pe_opts p)); destruct (o_freeze (pe_opts p)); destruct (p_watchdog pa) as [[f1 f2]|];
    reflexivity.
Qed.

Lemma chk_cfg_bytes : forall pa op p cfg,
  op <> OpStop ->
  dp_retry_exhausted (pe_retry p) (p_max_retry pa) = false ->
  pe_retry p < 255 ->
  pe_state p = PsWaitForConfig ->
  o_config (pe_opts p) = Some cfg ->
  p_transmit pa op p =
    Ok (set_retry p (pe_retry p + 1),
        PtxSend (mkHeader (pe_addr p) (p_address pa) (Some 62) (Some 62) (FcRequest (pe_fcb p) RqSrdLow)) cfg).
Proof.
  intros pa op p cfg Hop Hex Hr Hst Hcfg.
  unfold p_transmit. rewrite (opstate_eqb_stop op Hop).
  unfold p_transmit_select. rewrite Hex, Hst, Hcfg.
  unfold cfg_request. cbv iota beta.
  assert (Hle : (255 <=? pe_retry p) = false) by (apply Z.leb_gt; exact Hr).
  cbn [pe_retry]. rewrite Hle. reflexivity.
Qed.

(* a Data_Exchange request is only produced in the two data exchange states, with no diagnostics
   request latched, and carries the output image (Operate) or zeros (Clear) *)
Lemma dx_request_only_when_ready : forall pa op p p' h pdu,
  p_transmit pa op p = Ok (p', PtxSend h pdu) ->
  h_dsap h = None ->
  (pe_state p = PsPreDataExchange \/ pe_state p = PsDataExchange) /\
  pe_diag_in_flight p' = false /\
  h = mkHeader (pe_addr p) (p_address pa) None None (FcRequest (pe_fcb p) RqSrdHigh) /\
  pdu = (if opstate_eqb op OpOperate then pe_pi_q p else repeat 0 (length (pe_pi_q p))).
Proof.
  intros pa op p p' h pdu H Hd.
  unfold p_transmit in H.
  destruct (opstate_eqb op OpStop); [discriminate|].
  unfold p_transmit_select in H.
  destruct (dp_retry_exhausted (pe_retry p) (p_max_retry pa)); [discriminate|].
  destruct (pe_state p) eqn:Hst.
  - destruct (pe_retry p =? dp_offline_probe_retry); [|discriminate].
    unfold diag_request in H. destruct (255 <=? pe_retry p); [discriminate|].
    inversion H; subst. discriminate Hd.
  - destruct (o_user_prm (pe_opts p)); [|discriminate].
    unfold prm_request in H. destruct (255 <=? pe_retry p); [discriminate|].
    inversion H; subst. discriminate Hd.
  - destruct (o_config (pe_opts p)); [|discriminate].
    unfold cfg_request in H. destruct (255 <=? pe_retry p); [discriminate|].
    inversion H; subst. discriminate Hd.
  - unfold diag_request in H. destruct (255 <=? pe_retry p); [discriminate|].
    inversion H; subst. discriminate Hd.
  - split; [left; reflexivity|].
    destruct (pe_retry p =? 0); cbn [pe_diag_in_flight set_diag_in_flight] in H.
    + destruct (pe_diag_needed p) eqn:Hn.
      * unfold diag_request in H. cbn [pe_retry set_diag_in_flight] in H.
        destruct (255 <=? pe_retry p); [discriminate|]. inversion H; subst. discriminate Hd.
      * unfold dx_request, dx_pdu in H. cbn [pe_retry set_diag_in_flight pe_addr pe_fcb pe_pi_q] in H.
        destruct (255 <=? pe_retry p); [discriminate|]. inversion H; subst.
        cbn [pe_diag_in_flight set_retry set_diag_in_flight]; repeat split; try reflexivity; try assumption.
    + destruct (pe_diag_in_flight p) eqn:Hn.
      * unfold diag_request in H. destruct (255 <=? pe_retry p); [discriminate|].
        inversion H; subst. discriminate Hd.
      * unfold dx_request, dx_pdu in H. destruct (255 <=? pe_retry p); [discriminate|].
        inversion H; subst. cbn [pe_diag_in_flight set_retry set_diag_in_flight]; repeat split; try reflexivity; try assumption.
  - split; [right; reflexivity|].
    destruct (pe_retry p =? 0); cbn [pe_diag_in_flight set_diag_in_flight] in H.
    + destruct (pe_diag_needed p) eqn:Hn.
      * unfold diag_request in H. cbn [pe_retry set_diag_in_flight] in H.
        destruct (255 <=? pe_retry p); [discriminate|]. inversion H; subst. discriminate Hd.
      * unfold dx_request, dx_pdu in H. cbn [pe_retry set_diag_in_flight pe_addr pe_fcb pe_pi_q] in H.
        destruct (255 <=? pe_retry p); [discriminate|]. inversion H; subst.
        cbn [pe_diag_in_flight set_retry set_diag_in_flight]; repeat split; try reflexivity; try assumption.
    + destruct (pe_diag_in_flight p) eqn:Hn.
      * unfold diag_request in H. destruct (255 <=? pe_retry p); [discriminate|].
        inversion H; subst. discriminate Hd.
      * unfold dx_request, dx_pdu in H. destruct (255 <=? pe_retry p); [discriminate|].
        inversion H; subst. cbn [pe_diag_in_flight set_retry set_diag_in_flight]; repeat split; try reflexivity; try assumption.
Qed.

(* ------------------------------------------------------------------ reply handling *)

Ltac crunch H :=
  repeat (match type of H with
          | context [match ?x with _ => _ end] => destruct x eqn:?; try discriminate
          end).

(* handle_diagnostics_response touches only the frame count bit and the diagnostics storage *)
Lemma handle_diag_frame : forall p t p1 d,
  p_handle_diag p t = Ok (p1, d) ->
  pe_addr p1 = pe_addr p /\ pe_state p1 = pe_state p /\ pe_retry p1 = pe_retry p /\
  pe_pi_i p1 = pe_pi_i p /\ pe_pi_q p1 = pe_pi_q p /\ pe_diag_needed p1 = pe_diag_needed p /\
  pe_diag_in_flight p1 = pe_diag_in_flight p /\ pe_opts p1 = pe_opts p /\
  (d = None -> p1 = p) /\
  (d <> None -> fcbit_cycle (pe_fcb p) = Some (pe_fcb p1)).
Proof.
  intros p t p1 d H.
  unfold p_handle_diag in H. unfold bind in H.
  crunch H; inversion H; subst; cbn;
    repeat split; try reflexivity; try (intro Hd; discriminate Hd); try (intro Hd; now elim Hd).
  all: try (intros _; apply fcb_cycle_ok; assumption).
Qed.

(* ------------------------------------------------------------------ C04 / C08: what receive_reply may change *)

Lemma receive_dx_frame : forall p t p1 ev,
  p_receive_dx p t = Ok (p1, ev) ->
  pe_fcb p1 = pe_fcb p /\ pe_pi_q p1 = pe_pi_q p /\ pe_retry p1 = pe_retry p /\ pe_addr p1 = pe_addr p /\
  pe_diag_in_flight p1 = pe_diag_in_flight p /\
  (pe_pi_i p1 = pe_pi_i p \/
   exists h pdu st s, t = TData h pdu /\ h_fc h = FcResponse st s /\
     (s = StOk \/ s = StDataLow \/ s = StDataHigh) /\
     length pdu = length (pe_pi_i p) /\ pe_pi_i p1 = pdu /\ ev = Some EvDataExchanged).
Proof.
  intros p t p1 ev H. unfold p_receive_dx in H.
  destruct t as [h pdu| |].
  - destruct (h_fc h) as [|st s] eqn:Hfc; [discriminate|].
    destruct s; cbn [fst snd] in H;
    repeat match type of H with
           | context [if ?c then _ else _] => destruct c eqn:?
           end;
    unfold copy_from_slice, bind in H;
    repeat match type of H with
           | context [if ?c then _ else _] => destruct c eqn:?
           end;
    try discriminate; inversion H; subst; cbn;
    repeat split; try reflexivity; try (left; reflexivity).
    all: right; exists h, pdu, st; eexists; repeat split; try eassumption; try reflexivity; auto.
    all: try (apply Nat.eqb_eq; assumption).
  - discriminate.
  - destruct (negb (length (pe_pi_i p) =? 0)%nat); inversion H; subst; cbn; repeat split; try reflexivity; left; reflexivity.
Qed.

(* C04: the input image changes only through a well-formed Data_Exchange reply *)
Lemma pi_i_frame : forall p t p' ev,
  p_receive_reply p t = Ok (p', ev) ->
  pe_pi_i p' = pe_pi_i p \/
  ((pe_state p = PsPreDataExchange \/ pe_state p = PsDataExchange) /\ pe_diag_in_flight p = false /\
   exists h pdu st s, t = TData h pdu /\ h_fc h = FcResponse st s /\
     (s = StOk \/ s = StDataLow \/ s = StDataHigh) /\
     length pdu = length (pe_pi_i p) /\ pe_pi_i p' = pdu /\ ev = Some EvDataExchanged).
Proof.
  intros p t p' ev H. unfold p_receive_reply in H.
  destruct (pe_state p) eqn:Hst.
  - unfold bind in H. destruct (p_handle_diag p t) as [[p1 d]| |] eqn:Hd; try discriminate.
    apply handle_diag_frame in Hd. destruct Hd as (_ & _ & _ & Hi & _).
    destruct d; inversion H; subst; cbn; left; assumption.
  - destruct (is_sc t); unfold bind in H.
    + destruct (fcb_cycle (pe_fcb p)); try discriminate. inversion H; subst. left; reflexivity.
    + inversion H; subst. left; reflexivity.
  - destruct (is_sc t); unfold bind in H.
    + destruct (fcb_cycle (pe_fcb p)); try discriminate. inversion H; subst. left; reflexivity.
    + inversion H; subst. left; reflexivity.
  - unfold bind in H. destruct (p_handle_diag (set_retry p 0) t) as [[p1 d]| |] eqn:Hd; try discriminate.
    apply handle_diag_frame in Hd. destruct Hd as (_ & _ & _ & Hi & _).
    destruct d.
    + destruct (validate_outcome (d_flags d)). inversion H; subst; cbn; left; assumption.
    + inversion H; subst; cbn; left; assumption.
  - destruct (pe_diag_in_flight p) eqn:Hfl; unfold bind in H.
    + destruct (p_handle_diag p t) as [[p1 d]| |] eqn:Hd; try discriminate.
      apply handle_diag_frame in Hd. destruct Hd as (_ & _ & _ & Hi & _).
      destruct d.
      * destruct (flags_contains (d_flags d) DF_PARAMETER_REQUIRED); inversion H; subst; cbn; left; assumption.
      * inversion H; subst; left; assumption.
    + destruct (p_receive_dx p t) as [[p1 e1]| |] eqn:Hdx; try discriminate.
      apply receive_dx_frame in Hdx. destruct Hdx as (_ & _ & _ & _ & _ & Hi).
      destruct (fcb_cycle (pe_fcb (set_retry p1 0))); try discriminate.
      inversion H; subst. cbn.
      destruct Hi as [Hi|Hi]; [left; assumption|].
      right. split; [left; reflexivity|]. split; [reflexivity|]. exact Hi.
  - destruct (pe_diag_in_flight p) eqn:Hfl; unfold bind in H.
    + destruct (p_handle_diag p t) as [[p1 d]| |] eqn:Hd; try discriminate.
      apply handle_diag_frame in Hd. destruct Hd as (_ & _ & _ & Hi & _).
      destruct d.
      * destruct (flags_contains (d_flags d) DF_PARAMETER_REQUIRED); inversion H; subst; cbn; left; assumption.
      * inversion H; subst; left; assumption.
    + destruct (p_receive_dx p t) as [[p1 e1]| |] eqn:Hdx; try discriminate.
      apply receive_dx_frame in Hdx. destruct Hdx as (_ & _ & _ & _ & _ & Hi).
      destruct (fcb_cycle (pe_fcb (set_retry p1 0))); try discriminate.
      inversion H; subst. cbn.
      destruct Hi as [Hi|Hi]; [left; assumption|].
      right. split; [right; reflexivity|]. split; [reflexivity|]. exact Hi.
Qed.

(* C08: a reply either leaves frame count bit and retry counter alone (rejected) or cycles the bit
   and clears the counter (accepted) *)
Lemma fcb_after_reply : forall p t p' ev,
  p_receive_reply p t = Ok (p', ev) ->
  (pe_fcb p' = pe_fcb p /\ pe_retry p' = pe_retry p) \/
  (fcbit_cycle (pe_fcb p) = Some (pe_fcb p') /\ pe_retry p' = 0).
Proof.
  intros p t p' ev H. unfold p_receive_reply in H.
  destruct (pe_state p) eqn:Hst.
  - unfold bind in H. destruct (p_handle_diag p t) as [[p1 d]| |] eqn:Hd; try discriminate.
    apply handle_diag_frame in Hd. destruct Hd as (_ & _ & Hr & _ & _ & _ & _ & _ & Hn & Hs).
    destruct d; inversion H; subst; cbn.
    + right. split; [apply Hs; discriminate|reflexivity].
    + left. rewrite (Hn eq_refl). split; reflexivity.
  - destruct (is_sc t); unfold bind in H.
    + destruct (fcb_cycle (pe_fcb p)) eqn:Hc; try discriminate. inversion H; subst. cbn.
      right. split; [apply fcb_cycle_ok; assumption|reflexivity].
    + inversion H; subst. left; split; reflexivity.
  - destruct (is_sc t); unfold bind in H.
    + destruct (fcb_cycle (pe_fcb p)) eqn:Hc; try discriminate. inversion H; subst. cbn.
      right. split; [apply fcb_cycle_ok; assumption|reflexivity].
    + inversion H; subst. left; split; reflexivity.
  - unfold bind in H. destruct (p_handle_diag (set_retry p 0) t) as [[p1 d]| |] eqn:Hd; try discriminate.
    apply handle_diag_frame in Hd. destruct Hd as (_ & _ & Hr & _ & _ & _ & _ & _ & Hn & Hs).
    destruct d.
    + destruct (validate_outcome (d_flags d)). inversion H; subst; cbn. right.
      split; [apply Hs; discriminate| exact Hr].
    + inversion H; subst; cbn. left. rewrite (Hn eq_refl). cbn. split; reflexivity.
  - destruct (pe_diag_in_flight p) eqn:Hfl; unfold bind in H.
    + destruct (p_handle_diag p t) as [[p1 d]| |] eqn:Hd; try discriminate.
      apply handle_diag_frame in Hd. destruct Hd as (_ & _ & Hr & _ & _ & _ & _ & _ & Hn & Hs).
      destruct d.
      * destruct (flags_contains (d_flags d) DF_PARAMETER_REQUIRED); inversion H; subst; cbn;
          right; (split; [apply Hs; discriminate|reflexivity]).
      * inversion H; subst. left. rewrite (Hn eq_refl). split; reflexivity.
    + destruct (p_receive_dx p t) as [[p1 e1]| |] eqn:Hdx; try discriminate.
      apply receive_dx_frame in Hdx. destruct Hdx as (Hf & _).
      destruct (fcb_cycle (pe_fcb (set_retry p1 0))) eqn:Hc; try discriminate.
      inversion H; subst. cbn. right. cbn in Hc. rewrite Hf in Hc.
      split; [apply fcb_cycle_ok; assumption|reflexivity].
  - destruct (pe_diag_in_flight p) eqn:Hfl; unfold bind in H.
    + destruct (p_handle_diag p t) as [[p1 d]| |] eqn:Hd; try discriminate.
      apply handle_diag_frame in Hd. destruct Hd as (_ & _ & Hr & _ & _ & _ & _ & _ & Hn & Hs).
      destruct d.
      * destruct (flags_contains (d_flags d) DF_PARAMETER_REQUIRED); inversion H; subst; cbn;
          right; (split; [apply Hs; discriminate|reflexivity]).
      * inversion H; subst. left. rewrite (Hn eq_refl). split; reflexivity.
    + destruct (p_receive_dx p t) as [[p1 e1]| |] eqn:Hdx; try discriminate.
      apply receive_dx_frame in Hdx. destruct Hdx as (Hf & _).
      destruct (fcb_cycle (pe_fcb (set_retry p1 0))) eqn:Hc; try discriminate.
      inversion H; subst. cbn. right. cbn in Hc. rewrite Hf in Hc.
      split; [apply fcb_cycle_ok; assumption|reflexivity].
Qed.

(* C08: what transmit_telegram does with the frame count bit and the retry counter *)
Lemma transmit_spec : forall pa op p p' r,
  p_transmit pa op p = Ok (p', r) ->
  match r with
  | PtxSend h pdu =>
      dp_retry_exhausted (pe_retry p) (p_max_retry pa) = false /\
      (exists rq, h_fc h = FcRequest (pe_fcb p) rq) /\ h_da h = pe_addr p /\ h_sa h = p_address pa /\
      pe_fcb p' = pe_fcb p /\ pe_retry p' = pe_retry p + 1 /\ pe_state p' = pe_state p
  | PtxSkip (Some ev) =>
      ev = EvOffline /\ dp_retry_exhausted (pe_retry p) (p_max_retry pa) = true /\
      pe_fcb p' = FcbFirst /\ pe_state p' = PsOffline /\ pe_retry p' = 0
  | PtxSkip None =>
      dp_retry_exhausted (pe_retry p) (p_max_retry pa) = false /\ pe_retry p' = 0 /\
      pe_state p' = pe_state p /\ (pe_fcb p' = pe_fcb p \/ (pe_state p = PsOffline /\ pe_fcb p' = FcbFirst))
  end.
Proof.
  intros pa op p p' r H. unfold p_transmit in H.
  destruct (opstate_eqb op OpStop); [discriminate|].
  unfold p_transmit_select in H.
  destruct (dp_retry_exhausted (pe_retry p) (p_max_retry pa)) eqn:Hex.
  - inversion H; subst. cbn. repeat split; reflexivity.
  - destruct (pe_state p) eqn:Hst.
    + destruct (pe_retry p =? dp_offline_probe_retry).
      * unfold diag_request in H. destruct (255 <=? pe_retry p); [discriminate|]. inversion H; subst; cbn.
        repeat split; try reflexivity; try assumption. eexists; reflexivity.
      * inversion H; subst; cbn. repeat split; try reflexivity; try assumption. right; split; reflexivity.
    + destruct (o_user_prm (pe_opts p)).
      * unfold prm_request in H. destruct (255 <=? pe_retry p); [discriminate|]. inversion H; subst; cbn.
        repeat split; try reflexivity; try assumption. eexists; reflexivity.
      * inversion H; subst; cbn. repeat split; try reflexivity; try assumption. left; reflexivity.
    + destruct (o_config (pe_opts p)).
      * unfold cfg_request in H. destruct (255 <=? pe_retry p); [discriminate|]. inversion H; subst; cbn.
        repeat split; try reflexivity; try assumption. eexists; reflexivity.
      * inversion H; subst; cbn. repeat split; try reflexivity; try assumption. left; reflexivity.
    + unfold diag_request in H. destruct (255 <=? pe_retry p); [discriminate|]. inversion H; subst; cbn.
      repeat split; try reflexivity; try assumption. eexists; reflexivity.
    + destruct (pe_retry p =? 0);
      match type of H with context [if pe_diag_in_flight ?q then _ else _] => destruct (pe_diag_in_flight q) end;
      unfold diag_request, dx_request in H; cbn [pe_retry set_diag_in_flight pe_addr pe_fcb] in H;
      (destruct (255 <=? pe_retry p); [discriminate|]); inversion H; subst; cbn;
      repeat split; try reflexivity; try assumption; eexists; reflexivity.
    + destruct (pe_retry p =? 0);
      match type of H with context [if pe_diag_in_flight ?q then _ else _] => destruct (pe_diag_in_flight q) end;
      unfold diag_request, dx_request in H; cbn [pe_retry set_diag_in_flight pe_addr pe_fcb] in H;
      (destruct (255 <=? pe_retry p); [discriminate|]); inversion H; subst; cbn;
      repeat split; try reflexivity; try assumption; eexists; reflexivity.
Qed.

(* ------------------------------------------------------------------ corollaries in the shape of the property files *)

(* C08_first, first half: retry exhaustion raises Offline, resets the bit, the peripheral is not live *)
Lemma offline_declared : forall pa op p,
  op <> OpStop ->
  dp_retry_exhausted (pe_retry p) (p_max_retry pa) = true ->
  exists p', p_transmit pa op p = Ok (p', PtxSkip (Some EvOffline)) /\
             pe_fcb p' = FcbFirst /\ is_live p' = false /\ pe_retry p' = 0.
Proof.
  intros pa op p Hop Hex. unfold p_transmit. rewrite (opstate_eqb_stop op Hop).
  unfold p_transmit_select. rewrite Hex. eexists. split; [reflexivity|]. cbn. repeat split; reflexivity.
Qed.

(* C08_first, second half: a peripheral that is not live sends nothing but Slave_Diag requests, and with the
   bit First they carry FCV=0/FCB=1 (function code byte 0x6C) *)
Lemma offline_probe : forall pa op p p' h pdu,
  pe_state p = PsOffline ->
  p_transmit pa op p = Ok (p', PtxSend h pdu) ->
  h = mkHeader (pe_addr p) (p_address pa) (Some 60) (Some 62) (FcRequest (pe_fcb p) RqSrdLow) /\ pdu = [] /\
  (pe_fcb p = FcbFirst -> fc_to_byte (h_fc h) = 108).
Proof.
  intros pa op p p' h pdu Hst H. unfold p_transmit in H.
  destruct (opstate_eqb op OpStop); [discriminate|].
  unfold p_transmit_select in H. rewrite Hst in H.
  destruct (dp_retry_exhausted (pe_retry p) (p_max_retry pa)); [discriminate|].
  destruct (pe_retry p =? dp_offline_probe_retry); [|discriminate].
  unfold diag_request in H. destruct (255 <=? pe_retry p); [discriminate|].
  inversion H; subst. repeat split; try reflexivity. intro Hf. cbn. rewrite Hf. reflexivity.
Qed.

(* C08_toggle_after_accept *)
Lemma toggle_after_accept : forall p t p' ev,
  p_receive_reply p t = Ok (p', ev) ->
  (pe_fcb p' = pe_fcb p /\ pe_retry p' = pe_retry p) \/
  (fcbit_fcv (pe_fcb p') = true /\ fcbit_fcb (pe_fcb p') = negb (fcbit_fcb (pe_fcb p)) /\ pe_retry p' = 0).
Proof.
  intros p t p' ev H. destruct (fcb_after_reply _ _ _ _ H) as [Hl|[Hc Hr]]; [left; exact Hl|].
  right. destruct (fcbit_cycle_toggles _ _ Hc). auto.
Qed.
