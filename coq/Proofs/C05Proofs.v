(* C05: poll is total under the representation invariant `Rep`.
   Structure: (1) weakest-precondition combinators for `res`, (2) the invariant, field by field, and
   its setter lemmas, (3) one lemma per helper and per `do_*` function of Model/Fdl.v:
   `Rep f -> <entry state> -> w_tx w = None -> the call is Ok and Rep holds afterwards`,
   (4) poll_inner / poll, (5) histories of polls and API calls by induction. *)
From PB Require Import Common Tables FdlTables Telegram Phy TokenRing Params Fdl FdlProofs FdlStepProofs.
From PB Require Import LasOracle LasRep C02Proofs C09Proofs C10Proofs C16Proofs.

Ltac splits := repeat match goal with |- _ /\ _ => split end.

(* ------------------------------------------------------------------------------------------ *)
(* weakest preconditions over `res`                                                             *)

Definition wp {X : Type} (r : res X) (Q : X -> Prop) : Prop :=
  match r with Ok x => Q x | _ => False end.

Lemma wp_bind {X Y : Type} (r : res X) (k : X -> res Y) (P : X -> Prop) (Q : Y -> Prop) :
  wp r P -> (forall x, P x -> wp (k x) Q) -> wp (bind r k) Q.
Proof. destruct r as [x| |]; cbn; intros H K; try contradiction. apply K, H. Qed.

Lemma wp_mono {X : Type} (r : res X) (P Q : X -> Prop) : wp r P -> (forall x, P x -> Q x) -> wp r Q.
Proof. destruct r as [x| |]; cbn; intros H K; try contradiction. apply K, H. Qed.

Lemma wp_ok {X : Type} (r : res X) (Q : X -> Prop) : wp r Q -> exists x, r = Ok x /\ Q x.
Proof. destruct r as [x| |]; cbn; intros H; try contradiction. exists x. split; [reflexivity|exact H]. Qed.

Lemma wp_of_eq {X : Type} (r : res X) (x : X) (Q : X -> Prop) : r = Ok x -> Q x -> wp r Q.
Proof. intros -> H. exact H. Qed.

(* ------------------------------------------------------------------------------------------ *)
(* time and duration ranges                                                                     *)

Definition T62 : Z := 4611686018427387904.                 (* 2^62 *)
Definition DMAX : Z := 33554432000000.                     (* 2^25 bit times at 1 bit/s, in microseconds *)

Definition lba_rng (l : Z) : Prop := 0 <= l <= T62 + DMAX.
Definition lba_okR (o : option Z) : Prop := match o with Some l => lba_rng l | None => True end.

Lemma time_ok_T62 t : time_ok t <-> 0 <= t < T62.
Proof. unfold time_ok, T62. tauto. Qed.

Lemma btt_bound b n : 0 <= n <= 33554432 -> 0 <= bits_to_time b n <= DMAX.
Proof.
  intros Hn. unfold bits_to_time, DMAX.
  assert (Hr : 1 <= baud_to_rate b) by (destruct b; cbn; lia).
  split.
  - apply Z.div_pos; lia.
  - apply Z.div_le_upper_bound; [lia|]. nia.
Qed.

Lemma inst_add_ok i d : -DMAX <= i <= T62 + DMAX -> 0 <= d <= DMAX -> inst_add i d = Ok (i + d).
Proof.
  intros Hi Hd. unfold inst_add, i64_ok, T62, DMAX in *.
  destruct (Z.leb_spec (-9223372036854775808) (i + d)); [|lia].
  destruct (Z.leb_spec (i + d) 9223372036854775807); [|lia]. reflexivity.
Qed.

Lemma inst_sub_dur_ok i d : 0 <= i <= T62 + 2 * DMAX -> 0 <= d <= DMAX -> inst_sub_dur i d = Ok (i - d).
Proof.
  intros Hi Hd. unfold inst_sub_dur, i64_ok, T62, DMAX in *.
  destruct (Z.leb_spec (-9223372036854775808) (i - d)); [|lia].
  destruct (Z.leb_spec (i - d) 9223372036854775807); [|lia]. reflexivity.
Qed.

Lemma inst_diff_ok a b : 0 <= a <= T62 + DMAX -> 0 <= b <= T62 + DMAX -> inst_diff a b = Ok (Z.abs (a - b)).
Proof.
  intros Ha Hb. unfold inst_diff, i64_ok, T62, DMAX in *.
  destruct (Z.leb_spec (-9223372036854775808) (a - b)); [|lia].
  destruct (Z.leb_spec (a - b) 9223372036854775807); [|lia]. reflexivity.
Qed.

(* ------------------------------------------------------------------------------------------ *)
(* the token ring part of the invariant                                                         *)

Definition ring_ok (r : ring) (a : Z) : Prop := wf r /\ r_ts r = a /\ nsps_ok r.

Lemma next_of_in l t : next_of l t = t \/ In (next_of l t) l.
Proof.
  unfold next_of. destruct (find (fun a => t <? a) l) as [x|] eqn:E.
  - right. apply find_some in E. tauto.
  - destruct l as [|x l]; [left; reflexivity|right; left; reflexivity].
Qed.

Lemma ring_ok_ns r a : ring_ok r a -> 0 <= a < 128 -> 0 <= r_ns r < 128.
Proof.
  intros (W & Ht & Hn & _) Ha. rewrite Hn, Ht.
  destruct (next_of_in (las_ones (r_las r)) a) as [->|H]; [exact Ha|].
  apply In_las_ones, active_range in H. unfold wf in W. rewrite W in H. exact H.
Qed.

Lemma ring_ok_step r a o : ring_ok r a -> 0 <= a < 128 ->
  match o with
  | OpW sa da => 0 <= sa /\ 0 <= da
  | OpC => True
  | OpN x | OpR x => 0 <= x < 128
  end ->
  exists r', step r o = Ok r' /\ ring_ok r' a.
Proof.
  intros (W & Ht & Hn) Ha Ho.
  destruct (step_total r o W) as [r' [E [W' T']]]; [rewrite Ht; exact Ha|exact Ho|].
  exists r'. split; [exact E|]. split; [exact W'|]. split; [congruence|].
  exact (step_nsps _ _ _ Hn E).
Qed.

Lemma witness_ring_ok r a sa da : ring_ok r a -> 0 <= a < 128 -> 0 <= sa -> 0 <= da ->
  exists r', witness r sa da = Ok r' /\ ring_ok r' a.
Proof. intros R Ha Hs Hd. exact (ring_ok_step r a (OpW sa da) R Ha (conj Hs Hd)). Qed.

Lemma set_next_station_ring_ok r a x : ring_ok r a -> 0 <= a < 128 -> 0 <= x < 128 ->
  exists r', set_next_station r x = Ok r' /\ ring_ok r' a.
Proof. intros R Ha Hx. exact (ring_ok_step r a (OpN x) R Ha Hx). Qed.

Lemma remove_station_ring_ok r a x : ring_ok r a -> 0 <= a < 128 -> 0 <= x < 128 ->
  exists r', remove_station r x = Ok r' /\ ring_ok r' a.
Proof. intros R Ha Hx. exact (ring_ok_step r a (OpR x) R Ha Hx). Qed.

Lemma claim_token_ring_ok r a : ring_ok r a -> ring_ok (claim_token r) a.
Proof. intros (W & Ht & Hn). split; [exact W|]. split; [exact Ht|exact Hn]. Qed.

Lemma ring_new_ring_ok a : 0 <= a < 128 -> exists r, ring_new a = Ok r /\ ring_ok r a.
Proof.
  intros Ha. destruct (ring_new_ok a Ha) as [r [E [W [T [S [N [P O]]]]]]].
  exists r. split; [exact E|]. split; [exact W|]. split; [exact T|].
  unfold nsps_ok. rewrite O, N, P, T. unfold next_of, prev_of. cbn.
  destruct (Z.ltb_spec a a); [lia|]. split; reflexivity.
Qed.

(* ------------------------------------------------------------------------------------------ *)
(* the representation invariant                                                                 *)

Definition gap_ok (p : params) (g : gap_state) : Prop :=
  match g with
  | GapWaiting rc => 0 <= rc <= p_gap_wait p + 1
  | GapDoPoll c => 0 <= c < p_hsa p
  end.

Definition sr_ok (o : option Z) : Prop := match o with Some a => 0 <= a < 128 | None => True end.

(* payload of the state, relative to the parameters, the GAP state, the application cursor and the
   number of applications *)
Definition st_ok (n : nat) (p : params) (g : gap_state) (na : nat) (s : state) : Prop :=
  match s with
  | Offline => True
  | PassiveIdle => False                                  (* set_passive is todo!() *)
  | ListenToken sr cc => sr_ok sr /\ 0 <= cc <= 1
  | ActiveIdle sr _ cc => sr_ok sr /\ 0 <= cc <= 1
  | UseToken tk _ _ => time_ok tk
  | ClaimToken (StepScanAwaitResponse a) => g = GapDoPoll a /\ a <> p_address p
  | ClaimToken _ => True
  | AwaitDataResponse _ tk _ => time_ok tk /\ (na < n)%nat
  | PassToken _ _ => True
  | CheckTokenPass _ => True
  | AwaitStatusResponse a => g = GapDoPoll a /\ a <> p_address p
  end.

(* connectivity against the state: the legality of the prologue of poll_inner *)
Definition conn_ok (c : conn_state) (s : state) : Prop :=
  match s with
  | Offline => c <> ConnPassive
  | PassiveIdle => False
  | _ => c = ConnOnline
  end.

Record Rep (n : nat) (f : fdl) : Prop := mkRep {
  rep_p : builder_valid (f_p f);
  rep_ring : ring_ok (f_ring f) (ts f);
  rep_conn : conn_ok (f_conn f) (f_state f);
  rep_gap : gap_ok (f_p f) (f_gap f);
  rep_st : st_ok n (f_p f) (f_gap f) (f_next_app f) (f_state f);
  rep_lba : lba_okR (f_lba f);
  rep_ltt : time_ok (f_last_token_time f);
  rep_na : (f_next_app f < n)%nat \/ n = 0%nat
}.

Lemma bv_ranges p : builder_valid p ->
  0 <= p_address p <= 125 /\ p_address p < p_hsa p <= 126 /\ 0 <= p_slot_bits p < 65536 /\
  0 <= p_ttr_bits p <= 16777960 /\ 1 <= p_gap_wait p <= 100.
Proof.
  unfold builder_valid, builder_max_address, builder_max_hsa, builder_min_ttr, builder_max_ttr,
    builder_min_gap, builder_max_gap.
  intros (Ha & Hs & Ht & Hg & Hh & _).
  assert (0 <= min_slot_bits (p_baud p)) by (destruct (p_baud p); cbn; lia).
  lia.
Qed.

Lemma Rep_ts n f : Rep n f -> 0 <= ts f <= 125 /\ ts f < p_hsa (f_p f) <= 126.
Proof. intros R. pose proof (bv_ranges _ (rep_p _ _ R)). unfold ts. lia. Qed.

Lemma Rep_set_st n f s : Rep n f -> conn_ok (f_conn f) s -> st_ok n (f_p f) (f_gap f) (f_next_app f) s ->
  Rep n (set_st f s).
Proof. intros [] C S. constructor; cbn; assumption. Qed.

Lemma Rep_set_ring n f r : Rep n f -> ring_ok r (ts f) -> Rep n (set_ring f r).
Proof. intros [] H. constructor; cbn; assumption. Qed.

Lemma Rep_set_gap n f g : Rep n f -> gap_ok (f_p f) g -> st_ok n (f_p f) g (f_next_app f) (f_state f) ->
  Rep n (set_gap f g).
Proof. intros [] G S. constructor; cbn; assumption. Qed.

Lemma Rep_set_lba n f o : Rep n f -> lba_okR o -> Rep n (set_lba f o).
Proof. intros [] H. constructor; cbn; assumption. Qed.

Lemma Rep_set_pending n f k : Rep n f -> Rep n (set_pending f k).
Proof. intros []. constructor; cbn; assumption. Qed.

Lemma Rep_set_hold n f a b : Rep n f -> time_ok a -> Rep n (set_hold f a b).
Proof. intros [] H. constructor; cbn; assumption. Qed.

Lemma Rep_set_next_app n f k : Rep n f -> (k < n)%nat ->
  kind_of (f_state f) <> KAwaitDataResponse -> Rep n (set_next_app f k).
Proof.
  intros [] H K. constructor; cbn; try assumption; [|left; exact H].
  destruct (f_state f); cbn in *; try assumption. contradiction K. reflexivity.
Qed.

(* what a frame change of last_bus_activity / pending_bytes keeps *)
Lemma Rep_same n f f' : Rep n f -> same_but_lba f f' -> lba_okR (f_lba f') -> Rep n f'.
Proof.
  intros [] (Hp & Hr & Hc & Hg & Hs & _ & Hl & _ & Hn) L.
  constructor; unfold ts in *; rewrite ?Hp, ?Hr, ?Hc, ?Hg, ?Hs, ?Hl, ?Hn; assumption.
Qed.

Lemma Rep_online n f : Rep n f -> kind_of (f_state f) <> KOffline -> f_conn f = ConnOnline.
Proof.
  intros R K. pose proof (rep_conn _ _ R) as C. destruct (f_state f); cbn in *; try assumption; try contradiction.
Qed.

(* "same but last_bus_activity and pending_bytes" *)
Definition sb (f f' : fdl) : Prop :=
  f_p f' = f_p f /\ f_ring f' = f_ring f /\ f_conn f' = f_conn f /\ f_gap f' = f_gap f /\
  f_state f' = f_state f /\ f_last_token_time f' = f_last_token_time f /\
  f_end_tht f' = f_end_tht f /\ f_next_app f' = f_next_app f.

Lemma sb_refl f : sb f f.
Proof. unfold sb. repeat split; reflexivity. Qed.
Lemma sb_trans f g h : sb f g -> sb g h -> sb f h.
Proof. unfold sb. intuition congruence. Qed.
Lemma sb_of_same f f' : same_but_lba f f' -> sb f f'.
Proof. unfold same_but_lba, sb. intuition. Qed.
Lemma sb_state f f' : sb f f' -> f_state f' = f_state f.
Proof. unfold sb. tauto. Qed.
Lemma sb_gap f f' : sb f f' -> f_gap f' = f_gap f.
Proof. unfold sb. tauto. Qed.
Lemma sb_p f f' : sb f f' -> f_p f' = f_p f.
Proof. unfold sb. tauto. Qed.
Lemma sb_ts f f' : sb f f' -> ts f' = ts f.
Proof. unfold sb, ts. intros (-> & _). reflexivity. Qed.
Lemma sb_ring f f' : sb f f' -> f_ring f' = f_ring f.
Proof. unfold sb. tauto. Qed.
Lemma sb_conn f f' : sb f f' -> f_conn f' = f_conn f.
Proof. unfold sb. tauto. Qed.
Lemma sb_na f f' : sb f f' -> f_next_app f' = f_next_app f.
Proof. unfold sb. tauto. Qed.
Lemma sb_ltt f f' : sb f f' -> f_last_token_time f' = f_last_token_time f.
Proof. unfold sb. tauto. Qed.
Lemma sb_tht f f' : sb f f' -> f_end_tht f' = f_end_tht f.
Proof. unfold sb. tauto. Qed.

Lemma Rep_sb n f f' : Rep n f -> sb f f' -> lba_okR (f_lba f') -> Rep n f'.
Proof.
  intros [] (Hp & Hr & Hc & Hg & Hs & Hl & _ & Hn) L.
  constructor; unfold ts in *; rewrite ?Hp, ?Hr, ?Hc, ?Hg, ?Hs, ?Hl, ?Hn; assumption.
Qed.

Lemma time_ok_lba t : time_ok t -> lba_rng t.
Proof. unfold time_ok, lba_rng, T62, DMAX. lia. Qed.

(* ------------------------------------------------------------------------------------------ *)
(* bus activity bookkeeping                                                                     *)

Lemma goi_rep n f now l f1 : Rep n f -> time_ok now -> lba_get_or_insert f now = (l, f1) ->
  Rep n f1 /\ sb f f1 /\ f_lba f1 = Some l /\ lba_rng l.
Proof.
  intros R Tn E. apply lba_get_or_insert_same in E. destruct E as (S & L & M).
  assert (Hl : lba_rng l).
  { pose proof (rep_lba _ _ R) as B. destruct (f_lba f) as [l0|]; subst l; [exact B|apply time_ok_lba, Tn]. }
  apply sb_of_same in S. split; [|tauto].
  apply (Rep_sb n f f1 R S). rewrite L. exact Hl.
Qed.

Lemma mark_bus_activity_rep n f now : Rep n f -> time_ok now ->
  Rep n (mark_bus_activity f now) /\ sb f (mark_bus_activity f now).
Proof.
  intros R Tn. unfold mark_bus_activity. destruct (lba_get_or_insert f now) as [l f1] eqn:E.
  destruct (goi_rep n f now l f1 R Tn E) as (R1 & S1 & L1 & B1).
  split.
  - apply Rep_set_lba; [exact R1|]. cbn. pose proof (time_ok_lba _ Tn). unfold lba_rng in *. lia.
  - eapply sb_trans; [exact S1|]. unfold sb. cbn. repeat split; reflexivity.
Qed.

Lemma mark_rx_rep n f now : Rep n f -> time_ok now -> Rep n (mark_rx f now) /\ sb f (mark_rx f now).
Proof.
  intros R Tn. unfold mark_rx.
  destruct (mark_bus_activity_rep n (set_pending f 0) now (Rep_set_pending _ _ _ R) Tn) as (R1 & S1).
  split; [exact R1|]. eapply sb_trans; [|exact S1]. unfold sb. cbn. repeat split; reflexivity.
Qed.

Lemma sync_pending_rep n A f (w : world A) : Rep n f -> Rep n (sync_pending_bytes A f w) /\ sb f (sync_pending_bytes A f w).
Proof.
  intros R. unfold sync_pending_bytes. split; [apply Rep_set_pending, R|]. unfold sb. cbn. repeat split; reflexivity.
Qed.

Lemma bv_sync n f : Rep n f -> 0 <= p_bits_to_time (f_p f) sync_pause_bits <= DMAX.
Proof. intros _. apply btt_bound. unfold sync_pause_bits. lia. Qed.

Lemma bv_slot n f : Rep n f -> 0 <= slot_time (f_p f) <= DMAX.
Proof. intros R. pose proof (bv_ranges _ (rep_p _ _ R)). apply btt_bound. lia. Qed.

Lemma wait_sync_wp n f now : Rep n f -> time_ok now ->
  wp (wait_synchronization_pause f now) (fun x => Rep n (fst x) /\ sb f (fst x)).
Proof.
  intros R Tn. unfold wait_synchronization_pause. destruct (lba_get_or_insert f now) as [l f1] eqn:E.
  destruct (goi_rep n f now l f1 R Tn E) as (R1 & S1 & L1 & B1).
  rewrite inst_add_ok; [|unfold lba_rng, DMAX in *; lia|apply (bv_sync n), R1].
  cbn. tauto.
Qed.

Lemma check_slot_wp n f now : Rep n f -> time_ok now ->
  wp (check_slot_expired f now) (fun x => Rep n (fst x) /\ sb f (fst x)).
Proof.
  intros R Tn. unfold check_slot_expired. destruct (lba_get_or_insert f now) as [l f1] eqn:E.
  destruct (goi_rep n f now l f1 R Tn E) as (R1 & S1 & L1 & B1).
  rewrite inst_add_ok; [|unfold lba_rng, DMAX in *; lia|apply (bv_slot n), R1].
  cbn. tauto.
Qed.

Lemma mark_tx_wp n f now k : Rep n f -> time_ok now -> Z.of_nat k <= 65536 ->
  wp (mark_tx f now k) (fun f1 => Rep n f1 /\ sb f f1).
Proof.
  intros R Tn Hk. unfold mark_tx, bits_per_byte.
  destruct (Z.ltb_spec 4294967295 (Z.of_nat k)); [lia|].
  destruct (Z.ltb_spec 4294967295 (11 * Z.of_nat k)); [lia|].
  pose proof (btt_bound (p_baud (f_p f)) (11 * Z.of_nat k) ltac:(lia)) as B.
  rewrite inst_add_ok; [|unfold time_ok, T62, DMAX in *; lia|exact B].
  cbn [bind wp]. split.
  - apply Rep_set_lba; [exact R|]. cbn [lba_okR]. unfold lba_rng, time_ok, T62 in *. lia.
  - unfold sb. cbn. repeat split; reflexivity.
Qed.

(* ------------------------------------------------------------------------------------------ *)
(* the world                                                                                    *)

Section WithApps.
Variable A : Type.
Variable ops : app_ops A.
Variable n : nat.
Notation W := (world A).

Definition Winv (w : W) : Prop := all_bytes (w_rx w) /\ length (w_apps w) = n.
Definition wkeep (w w1 : W) : Prop := w_tx w1 = w_tx w /\ w_rx w1 = w_rx w /\ w_apps w1 = w_apps w.

Lemma wkeep_refl w : wkeep w w. Proof. unfold wkeep. tauto. Qed.
Lemma wkeep_trans a b c : wkeep a b -> wkeep b c -> wkeep a c.
Proof. unfold wkeep. intuition congruence. Qed.
Lemma wkeep_note w t : wkeep w (note A w t). Proof. unfold wkeep. cbn. tauto. Qed.
Lemma wkeep_Winv w w1 : wkeep w w1 -> Winv w -> Winv w1.
Proof. unfold wkeep, Winv. intros (_ & -> & ->). tauto. Qed.
Lemma wkeep_tx w w1 : wkeep w w1 -> w_tx w = None -> w_tx w1 = None.
Proof. unfold wkeep. intros (-> & _). tauto. Qed.
Lemma Winv_note w t : Winv w -> Winv (note A w t). Proof. exact (wkeep_Winv _ _ (wkeep_note w t)). Qed.

Lemma trans_ok (f : fdl) (w : W) t s' : t (f_state f) = Ok s' ->
  trans A f w t = Ok (set_st f s', note A w (TTrans (kind_of (f_state f)) (kind_of s'))).
Proof. unfold trans. intros ->. reflexivity. Qed.

(* sending: status requests / replies (no SAPs, empty PDU) and tokens *)
Lemma phy_send_data_wp (w : W) h : w_tx w = None -> Winv w -> wf_header h -> h_dsap h = None -> h_ssap h = None ->
  wp (phy_send A w (TxData h [])) (fun x => Winv (fst x) /\ Z.of_nat (snd x) <= 65536).
Proof.
  intros Hw Wi Hh Hd Hs. unfold phy_send, transmit.
  assert (Hlb : length_byte h (@length Z []) = 3%nat) by (unfold length_byte; rewrite Hd, Hs; reflexivity).
  assert (Htl : telegram_len_data h (@length Z []) = 6%nat) by (unfold telegram_len_data; rewrite Hlb; reflexivity).
  rewrite encode_data_in_spec; [|exact Hh|rewrite Hlb; lia|rewrite Htl; unfold tx_buffer_size; lia].
  cbn [bind]. unfold phy_transmit. rewrite Hw. cbn [bind wp fst snd].
  split; [exact Wi|]. rewrite frame_spec_length, Htl. lia.
Qed.

Lemma phy_send_token_wp (w : W) da sa : w_tx w = None -> Winv w ->
  wp (phy_send A w (TxToken da sa)) (fun x => Winv (fst x) /\ Z.of_nat (snd x) <= 65536).
Proof.
  intros Hw Wi. unfold phy_send, transmit.
  replace (Nat.ltb tx_buffer_size 3) with false by reflexivity. cbn [bind].
  unfold phy_transmit. rewrite Hw. cbn. split; [exact Wi|lia].
Qed.

Lemma all_bytes_skipn k (l : bytes) : all_bytes l -> all_bytes (skipn k l).
Proof. intros H. unfold all_bytes in *. rewrite <- (firstn_skipn k l) in H. apply Forall_app in H. tauto. Qed.

(* ------------------------------------------------------------------------------------------ *)
(* GAP polling                                                                                  *)

Definition gap_fresh (f : fdl) : Prop :=
  match f_gap f with GapDoPoll a => a <> ts f | GapWaiting _ => True end.

Lemma ngp_wp f (w : W) cur : Rep n f -> 0 <= cur < p_hsa (f_p f) ->
  (forall g, st_ok n (f_p f) g (f_next_app f) (f_state f)) ->
  wp (next_gap_poll_traced A f w cur)
     (fun x => (exists g, fst x = set_gap f g) /\ Rep n (fst x) /\ gap_fresh (fst x) /\ wkeep w (snd x)).
Proof.
  intros R Hc Hst. unfold next_gap_poll_traced.
  pose proof (Rep_ts n f R) as Hts.
  destruct (next_gap_poll_total f cur) as [g E]; [lia|exact Hc|]. rewrite E. cbn [bind wp fst snd].
  split; [exists g; reflexivity|]. split; [|split].
  - apply Rep_set_gap; [exact R| |apply Hst]. destruct g as [k|a]; cbn.
    + apply next_gap_poll_waiting in E. subst k. pose proof (bv_ranges _ (rep_p _ _ R)). lia.
    + apply next_gap_poll_in_gap in E. destruct E as (_ & _ & E). apply E, Hc.
  - unfold gap_fresh. cbn. destruct g as [k|a]; [exact I|].
    apply next_gap_poll_in_gap in E. tauto.
  - apply wkeep_note.
Qed.

Lemma tgp_wp f now (w : W) : Rep n f -> time_ok now -> w_tx w = None -> Winv w -> gap_fresh f ->
  wp (transmit_gap_poll_if_pending A f now w)
     (fun x => let '(f1, w1, polled) := x in Rep n f1 /\ sb f f1 /\ Winv w1 /\
        match polled with Some a => f_gap f = GapDoPoll a /\ a <> ts f | None => w_tx w1 = None end).
Proof.
  intros R Tn Hw Wi Hf. unfold transmit_gap_poll_if_pending. unfold gap_fresh in Hf.
  pose proof (rep_gap _ _ R) as G. pose proof (Rep_ts n f R) as Hts.
  destruct (f_gap f) as [k|c] eqn:Eg.
  - cbn. split; [exact R|]. split; [apply sb_refl|]. tauto.
  - cbn in G. destruct (Z.eqb_spec c (ts f)) as [C|_]; [contradiction|].
    eapply wp_bind.
    + apply phy_send_data_wp; [exact Hw|exact Wi| |reflexivity|reflexivity].
      unfold wf_header, is_addr7, wf_sap. cbn. lia.
    + intros [w1 k] (Wi1 & Hk). cbn [fst snd] in *.
      eapply wp_bind; [apply (mark_tx_wp n); [exact R|exact Tn|exact Hk]|].
      intros f1 (R1 & S1). cbn. tauto.
Qed.

Lemma agp_wp f now (w : W) a : Rep n f -> time_ok now -> Winv w -> f_gap f = GapDoPoll a -> a <> ts f ->
  wp (await_gap_poll_response A f now w a)
     (fun x => let '(f1, w1, r) := x in
        Rep n f1 /\ f_state f1 = f_state f /\ f_gap f1 = GapDoPoll a /\ w_tx w1 = w_tx w /\ Winv w1).
Proof.
  intros R Tn Wi Eg Ha. unfold await_gap_poll_response.
  pose proof (Rep_ts n f R) as Hts.
  destruct (Z.eqb_spec a (ts f)) as [C|_]; [contradiction|].
  rewrite Eg, Z.eqb_refl. cbn [negb].
  unfold receive_telegram. destruct (decode_total (w_rx w)) as [d D]. rewrite D. cbn [bind].
  destruct Wi as (Wb & Wa).
  destruct d as [ | |t k]; cbn [bind].
  - (* NeedMore *)
    match goal with |- context [sync_pending_bytes A f ?w'] => set (w1 := w') end.
    destruct (sync_pending_rep n A f w1 R) as (R1 & S1).
    eapply wp_bind; [apply (check_slot_wp n); [exact R1|exact Tn]|].
    intros [f2 ex] (R2 & S2). cbn [fst] in *.
    assert (Hst : f_state f2 = f_state f) by (rewrite (sb_state _ _ S2), (sb_state _ _ S1); reflexivity).
    assert (Hg : f_gap f2 = GapDoPoll a) by (rewrite (sb_gap _ _ S2), (sb_gap _ _ S1); exact Eg).
    assert (Hw1 : w_tx w1 = w_tx w /\ Winv w1).
    { subst w1. destruct (Nat.ltb (length (w_rx w)) (length (w_rx w))); cbn; (split; [reflexivity|split; assumption]). }
    clearbody w1. destruct Hw1 as (Hw1 & Hw2). destruct ex; cbn [wp]; (splits; try assumption; apply Winv_note, Hw2).
  - (* Reject *)
    match goal with |- context [sync_pending_bytes A f ?w'] => set (w1 := w') end.
    destruct (sync_pending_rep n A f w1 R) as (R1 & S1).
    eapply wp_bind; [apply (check_slot_wp n); [exact R1|exact Tn]|].
    intros [f2 ex] (R2 & S2). cbn [fst] in *.
    assert (Hst : f_state f2 = f_state f) by (rewrite (sb_state _ _ S2), (sb_state _ _ S1); reflexivity).
    assert (Hg : f_gap f2 = GapDoPoll a) by (rewrite (sb_gap _ _ S2), (sb_gap _ _ S1); exact Eg).
    assert (Hw1 : w_tx w1 = w_tx w /\ Winv w1).
    { subst w1. destruct (Nat.ltb (@length Z []) (length (w_rx w))); cbn; (split; [reflexivity|split; [constructor|assumption]]). }
    clearbody w1. destruct Hw1 as (Hw1 & Hw2). destruct ex; cbn [wp]; (splits; try assumption; apply Winv_note, Hw2).
  - (* Accept *)
    destruct (mark_rx_rep n f now R Tn) as (R1 & S1).
    assert (Wi1 : forall tg, Winv (note A (set_rx A w (skipn k (w_rx w))) tg)).
    { intros tg. split; cbn; [apply all_bytes_skipn, Wb|exact Wa]. }
    assert (Hst : f_state (mark_rx f now) = f_state f) by exact (sb_state _ _ S1).
    assert (Hg : f_gap (mark_rx f now) = GapDoPoll a) by (rewrite (sb_gap _ _ S1); exact Eg).
    destruct t as [[da sa ds ss fc] pdu|da sa|]; try (cbn [wp]; splits; try assumption; try reflexivity; apply Wi1).
    destruct fc as [fb rq|st status]; try (cbn [wp]; splits; try assumption; try reflexivity; apply Wi1).
    destruct ((sa =? a) && (da =? ts (mark_rx f now))); try (cbn [wp]; splits; try assumption; try reflexivity; apply Wi1).
    destruct (resp_status_eqb status gap_reply_status && gap_reply_state_is_master st);
      try (cbn [wp]; splits; try assumption; try reflexivity; apply Wi1).
    destruct (set_next_station_ring_ok (f_ring (mark_rx f now)) (ts (mark_rx f now)) a) as [r' [Er Rr]];
      [exact (rep_ring _ _ R1)|rewrite (sb_ts _ _ S1); lia|pose proof (rep_gap _ _ R) as G; rewrite Eg in G; cbn in G; lia|].
    rewrite Er. cbn [bind wp]. splits; try assumption; try reflexivity; [apply Rep_set_ring; assumption|apply Wi1].
Qed.


(* ------------------------------------------------------------------------------------------ *)
(* do_claim_token, handle_lost_token                                                            *)

Lemma set_claim_step_ok f s0 s : f_state f = ClaimToken s0 -> set_claim_step f s = Ok (set_st f (ClaimToken s)).
Proof. unfold set_claim_step. intros ->. reflexivity. Qed.

Definition PostRW (x : fdl * W) : Prop := Rep n (fst x) /\ Winv (snd x).

Lemma do_claim_token_scan_wp f now (w : W) : Rep n f -> time_ok now -> w_tx w = None -> Winv w ->
  f_state f = ClaimToken StepScan ->
  wp (do_claim_token_scan A f now w) PostRW.
Proof.
  intros R Tn Hw Wi Hs. unfold do_claim_token_scan, PostRW.
  eapply wp_bind; [apply (wait_sync_wp n); assumption|].
  intros [f1 wait] (R1 & S1). cbn [fst] in *.
  assert (Hs1 : f_state f1 = ClaimToken StepScan) by (rewrite (sb_state _ _ S1); exact Hs).
  assert (Hon : f_conn f1 = ConnOnline) by (apply (Rep_online n); [exact R1|rewrite Hs1; discriminate]).
  destruct wait; [cbn; split; [exact R1|apply Winv_note, Wi]|].
  destruct (f_gap f1) as [rc|cur] eqn:G.
  - rewrite (trans_ok f1 _ _ (PassToken false AttFirst)) by (rewrite Hs1; reflexivity).
    cbn [bind wp fst snd]. split; [|apply Winv_note, Winv_note, Wi].
    apply Rep_set_st; [exact R1|exact Hon|exact I].
  - eapply wp_bind.
    + apply ngp_wp; [exact R1|pose proof (rep_gap _ _ R1) as G1; rewrite G in G1; exact G1|].
      intros g. rewrite Hs1. exact I.
    + intros [f2 w2] ((g & E) & R2 & F2 & K2). cbn [fst snd] in *.
      eapply wp_bind.
      * apply tgp_wp; [exact R2|exact Tn|exact (wkeep_tx _ _ K2 Hw)|exact (wkeep_Winv _ _ K2 Wi)|exact F2].
      * intros [[f3 w3] polled] (R3 & S3 & W3 & P).
        assert (Hs3 : f_state f3 = ClaimToken StepScan) by (rewrite (sb_state _ _ S3), E; exact Hs1).
        destruct polled as [a|].
        -- rewrite (set_claim_step_ok f3 StepScan) by exact Hs3. cbn [bind wp fst snd].
           split; [|apply Winv_note, W3].
           apply Rep_set_st; [exact R3|rewrite (sb_conn _ _ S3), E; exact Hon|].
           cbn. rewrite (sb_gap _ _ S3), (sb_p _ _ S3). destruct P as (P1 & P2). split; [exact P1|exact P2].
        -- cbn. split; [exact R3|apply Winv_note, W3].
Qed.

Lemma do_claim_token_wp f now (w : W) : Rep n f -> time_ok now -> w_tx w = None -> Winv w ->
  kind_of (f_state f) = KClaimToken ->
  wp (do_claim_token A f now w) PostRW.
Proof.
  intros R Tn Hw Wi Hk. destruct (f_state f) as [| | | | |step| | | |] eqn:Hs; try discriminate Hk.
  unfold do_claim_token, assert_entry. rewrite Hs. cbn [kind_of do_fn_entry state_kind_eqb bind get_claim_token_step].
  pose proof (Rep_ts n f R) as Hts.
  assert (Hon : f_conn f = ConnOnline) by (apply (Rep_online n); [exact R|rewrite Hs; discriminate]).
  assert (First : forall nxt, nxt = StepSecondToken \/ nxt = StepScan ->
    wp (let* (f0, wait) := wait_synchronization_pause f now in
        if wait then Ok (f0, note A w TSyncWait) else
        let* (w0, n0) := phy_send A w (TxToken (ts f0) (ts f0)) in
        let* f1 := set_claim_step (set_ring f0 (claim_token (f_ring f0))) nxt in
        let* f2 := mark_tx (set_gap f1 (GapDoPoll (ts f1))) now n0 in
        Ok (f2, note A w0 TClaimSendToken)) PostRW).
  { intros nxt Hn. unfold PostRW.
    eapply wp_bind; [apply (wait_sync_wp n); assumption|].
    intros [f1 wait] (R1 & S1). cbn [fst] in *.
    assert (Hs1 : f_state f1 = ClaimToken step) by (rewrite (sb_state _ _ S1); exact Hs).
    destruct wait; [cbn; split; [exact R1|apply Winv_note, Wi]|].
    eapply wp_bind; [apply phy_send_token_wp; assumption|].
    intros [w1 k] (W1 & Hk1). cbn [fst snd] in *.
    rewrite (set_claim_step_ok _ step) by exact Hs1. cbn [bind].
    eapply wp_bind.
    - apply (mark_tx_wp n); [|exact Tn|exact Hk1].
      apply Rep_set_gap.
      + apply Rep_set_st; [apply Rep_set_ring; [exact R1|apply claim_token_ring_ok, (rep_ring _ _ R1)]| |].
        * cbn. rewrite (sb_conn _ _ S1). exact Hon.
        * destruct Hn as [-> | ->]; exact I.
      + cbn. rewrite (sb_p _ _ S1). unfold ts. cbn. rewrite (sb_p _ _ S1). unfold ts in Hts. lia.
      + destruct Hn as [-> | ->]; exact I.
    - intros f2 (R2 & S2). cbn. split; [exact R2|apply Winv_note, W1]. }
  destruct step as [ | | |a].
  - apply First. left. reflexivity.
  - apply First. right. reflexivity.
  - apply do_claim_token_scan_wp; assumption.
  - pose proof (rep_st _ _ R) as St. rewrite Hs in St. cbn in St. destruct St as (Eg & Ha).
    eapply wp_bind; [apply agp_wp; [exact R|exact Tn|exact Wi|exact Eg|exact Ha]|].
    intros [[f1 w1] r] (R1 & St1 & G1 & Tx1 & W1). rewrite Hs in St1.
    assert (Hon1 : f_conn f1 = ConnOnline) by (apply (Rep_online n); [exact R1|rewrite St1; discriminate]).
    destruct r.
    + cbn. split; assumption.
    + rewrite (set_claim_step_ok f1 (StepScanAwaitResponse a)) by exact St1. cbn [bind].
      apply do_claim_token_scan_wp; [|exact Tn|cbn; congruence|exact W1|reflexivity].
      apply Rep_set_st; [exact R1|exact Hon1|exact I].
    + rewrite (set_claim_step_ok f1 (StepScanAwaitResponse a)) by exact St1. cbn [bind wp].
      split; [|exact W1]. apply Rep_set_st; [exact R1|exact Hon1|exact I].
    + rewrite (trans_ok f1 _ _ (ActiveIdle None None 0)) by (rewrite St1; reflexivity).
      cbn [wp]. split; [|apply Winv_note, W1].
      apply Rep_set_st; [exact R1|exact Hon1|cbn; lia].
Qed.

Lemma handle_lost_token_wp f now (w : W) : Rep n f -> time_ok now -> w_tx w = None -> Winv w ->
  kind_of (f_state f) = KListenToken \/ kind_of (f_state f) = KActiveIdle ->
  wp (handle_lost_token A f now w)
     (fun x => let '(f1, w1, done) := x in Rep n f1 /\ Winv w1 /\ (done = false -> sb f f1 /\ w1 = w)).
Proof.
  intros R Tn Hw Wi Hk. unfold handle_lost_token.
  destruct (lba_get_or_insert f now) as [l f1] eqn:E.
  destruct (goi_rep n f now l f1 R Tn E) as (R1 & S1 & L1 & B1).
  rewrite inst_diff_ok; [|apply time_ok_lba, Tn|exact B1]. cbn [bind].
  destruct (token_lost_timeout (f_p f1) <=? Z.abs (now - l)).
  - assert (Hk1 : kind_of (f_state f1) = KListenToken \/ kind_of (f_state f1) = KActiveIdle)
      by (rewrite (sb_state _ _ S1); exact Hk).
    assert (Hon : f_conn f1 = ConnOnline)
      by (apply (Rep_online n); [exact R1|destruct Hk1 as [-> | ->]; discriminate]).
    rewrite (trans_ok f1 _ _ (ClaimToken StepFirstToken)).
    2:{ unfold transition_claim_token, assert_kind. destruct Hk1 as [-> | ->]; reflexivity. }
    cbn [bind].
    eapply wp_bind.
    + apply do_claim_token_wp; [|exact Tn|exact Hw|apply Winv_note, Winv_note, Wi|reflexivity].
      apply Rep_set_st; [exact R1|exact Hon|exact I].
    + intros [f2 w2] (R2 & W2). cbn. split; [exact R2|]. split; [exact W2|discriminate].
  - cbn. split; [exact R1|]. split; [exact Wi|]. intros _. split; [exact S1|reflexivity].
Qed.


(* ------------------------------------------------------------------------------------------ *)
(* receive_all over a byte buffer: invariant I while more telegrams follow, J after the last    *)

Definition wf_tel (t : telegram) : Prop :=
  match t with
  | TData h _ => wf_header h
  | TToken da sa => 0 <= da < 256 /\ 0 <= sa < 256
  | TShortConf => True
  end.

Lemma decode_wf_tel buf t k : all_bytes buf -> decode buf = Ok (Accept t k) -> wf_tel t.
Proof.
  intros Hb D. destruct t as [h pdu|da sa|]; cbn.
  - apply (accept_criterion buf h pdu k Hb D).
  - apply decode_view', view_accept_token in D. destruct D as (_ & tl & ->).
    pose proof (Forall_inv (Forall_inv_tail Hb)) as B1.
    pose proof (Forall_inv (Forall_inv_tail (Forall_inv_tail Hb))) as B2.
    unfold is_byte in *. lia.
  - exact I.
Qed.

Lemma receive_all_wp {S R : Type} (cb : S -> telegram -> bool -> res (S * R)) (I J : S -> Prop) :
  (forall s t, I s -> wf_tel t -> wp (cb s t false) (fun x => I (fst x))) ->
  (forall s t, I s -> wf_tel t -> wp (cb s t true) (fun x => J (fst x))) ->
  (forall s, I s -> J s) ->
  forall fuel buf s, (length buf < fuel)%nat -> all_bytes buf -> I s ->
  wp (receive_all cb fuel s buf) (fun x => J (fst (fst x)) /\ all_bytes (snd (fst x))).
Proof.
  intros Hf Ht HIJ. induction fuel as [|fuel IH]; intros buf s Hl Hb Hi; [lia|].
  cbn [receive_all]. destruct (decode_total buf) as [d D]. rewrite D. cbn [bind].
  destruct d as [ | |t k].
  - cbn. split; [apply HIJ, Hi|exact Hb].
  - cbn. split; [apply HIJ, Hi|constructor].
  - pose proof (decode_wf_tel buf t k Hb D) as Wt.
    pose proof (decode_accept_bounds _ _ _ D) as Bk.
    destruct (Nat.eqb k (length buf)).
    + eapply wp_bind; [apply Ht; assumption|]. intros [s' r] Hj. cbn in *.
      split; [exact Hj|apply all_bytes_skipn, Hb].
    + eapply wp_bind; [apply Hf; assumption|]. intros [s' r] Hi'. cbn [fst] in Hi'.
      apply IH; [rewrite skipn_length; lia|apply all_bytes_skipn, Hb|exact Hi'].
Qed.

(* ------------------------------------------------------------------------------------------ *)
(* do_listen_token                                                                              *)

Lemma fdl_new_rep p : builder_valid p ->
  exists f0, fdl_new p = Ok f0 /\ Rep n f0 /\ f_conn f0 = ConnOffline /\ f_state f0 = Offline /\ f_p f0 = p.
Proof.
  intros B. pose proof (bv_ranges _ B) as Hr. unfold fdl_new.
  destruct (Z.leb_spec (p_address p) 127); [|lia]. destruct (Z.leb_spec (p_hsa p) 126); [|lia]. cbn [negb].
  destruct (ring_new_ring_ok (p_address p)) as [r [E Rr]]; [lia|]. rewrite E. cbn [bind].
  eexists. split; [reflexivity|]. split; [|cbn; tauto].
  constructor; cbn; try assumption; try discriminate; try exact I.
  - lia.
  - unfold time_ok. lia.
  - destruct n; [right; reflexivity|left; lia].
Qed.

Definition I_listen (s : fdl * W) : Prop :=
  Rep n (fst s) /\ Winv (snd s) /\ (f_conn (fst s) = ConnOffline \/ kind_of (f_state (fst s)) = KListenToken).

Lemma listen_token_telegram_wp now s t il : time_ok now -> I_listen s -> wf_tel t ->
  wp (listen_token_telegram A now s t il) (fun x => I_listen (fst x)).
Proof.
  intros Tn (R & Wi & Hk) Wt. destruct s as [f w]. cbn [fst snd] in *. unfold listen_token_telegram.
  destruct (mark_rx_rep n f now R Tn) as (R1 & S1).
  assert (Hk1 : f_conn (mark_rx f now) = ConnOffline \/ kind_of (f_state (mark_rx f now)) = KListenToken)
    by (rewrite (sb_conn _ _ S1), (sb_state _ _ S1); exact Hk).
  set (f1 := mark_rx f now) in *. clearbody f1.
  pose proof (Rep_ts n f1 R1) as Hts.
  destruct (f_conn f1) eqn:Ec.
  - cbn. split; [exact R1|]. split; [apply Winv_note, Wi|left; exact Ec].
  - exfalso. pose proof (rep_conn _ _ R1) as C. rewrite Ec in C. destruct (f_state f1); cbn in C; congruence.
  - destruct Hk1 as [Hk1|Hk1]; [discriminate Hk1|].
    destruct (f_state f1) as [| |sr cc| | | | | | |] eqn:Hs; try discriminate Hk1.
    pose proof (rep_st _ _ R1) as St. rewrite Hs in St. cbn in St. destruct St as (Hsr & Hcc).
    destruct (opt_eqb (source_address t) (Some (ts f1))).
    + cbn [get_listen_token bind]. unfold u8_add. destruct (Z.leb_spec (cc + 1) 255); [|lia]. cbn [bind].
      destruct (cc + 1 =? listen_collision_tolerated) eqn:Ecc.
      * cbn. split; [|split; [apply Winv_note, Wi|right; reflexivity]].
        apply Rep_set_st; [exact R1|exact Ec|]. cbn. split; [exact Hsr|].
        apply Z.eqb_eq in Ecc. unfold listen_collision_tolerated in Ecc. lia.
      * unfold set_offline, set_state. cbn [f_p set_st].
        destruct (fdl_new_rep (f_p f1) (rep_p _ _ R1)) as [f0 (E0 & R0 & C0 & _)].
        rewrite E0. cbn. split; [exact R0|]. split; [apply Winv_note, Wi|left; exact C0].
    + destruct t as [h pdu|da sa|].
      * destruct (is_fdl_status_request h && (h_da h =? ts f1)).
        -- destruct il.
           ++ cbn. split; [|split; [apply Winv_note, Wi|right; reflexivity]].
              apply Rep_set_st; [exact R1|exact Ec|]. cbn. split; [|exact Hcc].
              destruct Wt as (_ & Hsa & _). exact Hsa.
           ++ cbn. split; [exact R1|]. split; [apply Winv_note, Wi|right; cbn; rewrite ?Hs; reflexivity].
        -- cbn. split; [exact R1|]. split; [apply Winv_note, Wi|right; cbn; rewrite ?Hs; reflexivity].
      * cbn in Wt.
        destruct (witness_ring_ok (f_ring f1) (ts f1) sa da (rep_ring _ _ R1)) as [r' [Er Rr]]; try lia.
        rewrite Er. cbn. split; [apply Rep_set_ring; assumption|].
        split; [apply Winv_note, Wi|right; cbn; rewrite ?Hs; reflexivity].
      * cbn. split; [exact R1|]. split; [apply Winv_note, Wi|right; cbn; rewrite ?Hs; reflexivity].
Qed.

Lemma receive_all_telegrams_wp cb (I J : fdl * W -> Prop) f (w : W) :
  (forall s t, I s -> wf_tel t -> wp (cb s t false) (fun x => I (fst x))) ->
  (forall s t, I s -> wf_tel t -> wp (cb s t true) (fun x => J (fst x))) ->
  (forall s, I s -> J s) ->
  (forall f1 w1, J (f1, w1) -> Rep n f1 /\ Winv w1) ->
  I (f, w) ->
  wp (receive_all_telegrams A cb f w) PostRW.
Proof.
  intros Hf Ht HIJ HJ Hi. unfold receive_all_telegrams.
  assert (Hb : all_bytes (w_rx w)) by (apply HIJ, HJ in Hi; destruct Hi as (_ & Hb & _); exact Hb).
  eapply wp_bind.
  - apply (receive_all_wp cb I J Hf Ht HIJ (receive_all_fuel (w_rx w)) (w_rx w) (f, w)); [unfold receive_all_fuel; lia|exact Hb|exact Hi].
  - intros [[[f1 w1] rest] r] (Hj & Hrest). cbn [fst snd] in *. apply HJ in Hj. destruct Hj as (R1 & (_ & Wa1)).
    cbn. split; [apply sync_pending_rep, R1|]. split; cbn; assumption.
Qed.

Lemma do_listen_token_wp f now (w : W) : Rep n f -> time_ok now -> w_tx w = None -> Winv w ->
  kind_of (f_state f) = KListenToken ->
  wp (do_listen_token A f now w) PostRW.
Proof.
  intros R Tn Hw Wi Hk. unfold do_listen_token, assert_entry. rewrite Hk. cbn [do_fn_entry state_kind_eqb bind].
  eapply wp_bind; [apply handle_lost_token_wp; try assumption; left; exact Hk|].
  intros [[f1 w1] done] (R1 & W1 & Hd). destruct done; [cbn; split; assumption|].
  destruct (Hd eq_refl) as (S1 & ->). clear Hd.
  destruct (f_state f) as [| |sr cc| | | | | | |] eqn:Hs; try discriminate Hk.
  assert (Hs1 : f_state f1 = ListenToken sr cc) by (rewrite (sb_state _ _ S1); exact Hs).
  rewrite Hs1. cbn [get_listen_token bind].
  pose proof (rep_st _ _ R1) as St. rewrite Hs1 in St. cbn in St. destruct St as (Hsr & Hcc).
  assert (Hon : f_conn f1 = ConnOnline) by (apply (Rep_online n); [exact R1|rewrite Hs1; discriminate]).
  destruct sr as [src|].
  - eapply wp_bind; [apply (wait_sync_wp n); assumption|].
    intros [f2 wait] (R2 & S2). cbn [fst] in *.
    destruct wait; [cbn; split; [exact R2|apply Winv_note, Wi]|].
    pose proof (Rep_ts n f2 R2) as Hts.
    eapply wp_bind.
    + apply phy_send_data_wp; [exact Hw|exact Wi| |reflexivity|reflexivity].
      unfold wf_header, is_addr7, wf_sap. cbn in *. lia.
    + intros [w2 k] (W2 & Hk2). cbn [fst snd] in *.
      assert (Hs2 : f_state f2 = ListenToken (Some src) cc) by (rewrite (sb_state _ _ S2); exact Hs1).
      assert (Hon2 : f_conn f2 = ConnOnline) by (rewrite (sb_conn _ _ S2); exact Hon).
      eapply wp_bind with (P := PostRW).
      * destruct (ready_for_ring (f_ring f2)).
        -- rewrite (trans_ok f2 _ _ (ActiveIdle None None 0)) by (rewrite Hs2; reflexivity).
           cbn. split; [|apply Winv_note, Winv_note, W2].
           apply Rep_set_st; [exact R2|exact Hon2|cbn; lia].
        -- rewrite Hs2. cbn. split; [|apply Winv_note, W2].
           apply Rep_set_st; [exact R2|exact Hon2|cbn; lia].
      * intros [f3 w3] (R3 & W3). cbn [fst snd] in *.
        eapply wp_bind; [apply (mark_tx_wp n); [exact R3|exact Tn|exact Hk2]|].
        intros f4 (R4 & S4). cbn. split; assumption.
  - apply (receive_all_telegrams_wp _ I_listen I_listen).
    + intros s t Hi Wt. apply listen_token_telegram_wp; assumption.
    + intros s t Hi Wt. apply listen_token_telegram_wp; assumption.
    + tauto.
    + intros f2 w2 (R2 & W2 & _). cbn in *. tauto.
    + split; [exact R1|]. split; [exact Wi|]. right. cbn. rewrite Hs1. reflexivity.
Qed.


(* ------------------------------------------------------------------------------------------ *)
(* handle_telegram, do_active_idle                                                              *)

Definition idleish (f : fdl) : Prop :=
  kind_of (f_state f) = KActiveIdle \/ kind_of (f_state f) = KListenToken.

Lemma handle_telegram_wp now f (w : W) t il : time_ok now -> Rep n f -> Winv w -> idleish f -> wf_tel t ->
  wp (handle_telegram A now f w t il)
     (fun x => Rep n (fst x) /\ Winv (snd x) /\ (il = false -> idleish (fst x))).
Proof.
  intros Tn R Wi Hk Wt. unfold handle_telegram.
  pose proof (Rep_ts n f R) as Hts.
  destruct (f_state f) as [| |lsr lcc|sr nps cc| | | | | |] eqn:Hs;
    try (destruct Hk as [Hk|Hk]; rewrite Hs in Hk; discriminate Hk).
  - cbn. split; [exact R|]. split; [apply Winv_note, Wi|]. intros _. right. rewrite Hs. reflexivity.
  - cbn [kind_of state_kind_eqb negb].
    assert (Hon : f_conn f = ConnOnline) by (apply (Rep_online n); [exact R|rewrite Hs; discriminate]).
    pose proof (rep_st _ _ R) as St. rewrite Hs in St. cbn in St. destruct St as (Hsr & Hcc).
    assert (AI : forall sr' nps' cc', sr_ok sr' -> 0 <= cc' <= 1 -> Rep n (set_st f (ActiveIdle sr' nps' cc'))).
    { intros. apply Rep_set_st; [exact R|exact Hon|cbn; tauto]. }
    destruct t as [h pdu|da sa|].
    + destruct (is_fdl_status_request h && (h_da h =? ts f) && il).
      * cbn. split; [apply AI; [destruct Wt as (_ & Hsa & _); exact Hsa|exact Hcc]|].
        split; [apply Winv_note, Wi|]. intros _. left. reflexivity.
      * cbn. split; [exact R|]. split; [apply Winv_note, Wi|]. intros _. left. rewrite Hs. reflexivity.
    + cbn [get_active_idle bind]. cbn in Wt.
      destruct (sa =? ts f).
      * unfold u8_add. destruct (Z.leb_spec (cc + 1) 255); [|lia]. cbn [bind].
        destruct (cc + 1 =? active_idle_collision_tolerated) eqn:Ecc.
        -- apply Z.eqb_eq in Ecc. unfold active_idle_collision_tolerated in Ecc.
           cbn. split; [apply AI; [exact Hsr|lia]|]. split; [apply Winv_note, Wi|]. intros _. left. reflexivity.
        -- rewrite (trans_ok _ _ _ (ListenToken None 0)) by reflexivity. cbn.
           split; [|split; [apply Winv_note, Winv_note, Wi|intros _; right; reflexivity]].
           apply (Rep_set_st n f (ListenToken None 0)); [exact R|exact Hon|cbn; lia].
      * cbn zeta.
        pose proof (AI sr nps 0 Hsr ltac:(lia)) as R0.
        assert (Wit : wp (witness (f_ring f) sa da) (fun r => ring_ok r (ts f))).
        { destruct (witness_ring_ok (f_ring f) (ts f) sa da (rep_ring _ _ R)) as [r' [Er Rr]]; try lia.
          rewrite Er. exact Rr. }
        assert (Use : forall f' w', Rep n f' -> f_conn f' = ConnOnline -> Winv w' -> kind_of (f_state f') = KActiveIdle ->
                      il = true ->
                      wp (trans A f' w' (fun s => transition_use_token s now None))
                         (fun x => Rep n (fst x) /\ Winv (snd x) /\ (il = false -> idleish (fst x)))).
        { intros f' w' R' C' W' K' Hil.
          rewrite (trans_ok f' _ _ (UseToken now None false))
            by (unfold transition_use_token, assert_kind; rewrite K'; reflexivity).
          cbn. split; [apply Rep_set_st; [exact R'|exact C'|exact Tn]|]. split; [apply Winv_note, W'|].
          intros C. rewrite Hil in C. discriminate C. }
        destruct (negb (da =? ts (set_st f (ActiveIdle sr nps 0))) || negb il) eqn:Ew.
        -- eapply wp_bind; [exact Wit|]. intros r Rr. cbn.
           split; [apply Rep_set_ring; [exact R0|exact Rr]|]. split; [apply Winv_note, Wi|]. intros _. left. reflexivity.
        -- assert (Hil : il = true) by (destruct il; [reflexivity|rewrite orb_true_r in Ew; discriminate Ew]).
           destruct (sa =? r_ps (f_ring (set_st f (ActiveIdle sr nps 0)))).
           ++ apply Use; [exact R0|exact Hon|apply Winv_note, Wi|reflexivity|exact Hil].
           ++ destruct nps as [address|].
              ** destruct (address =? sa).
                 --- eapply wp_bind; [exact Wit|]. intros r Rr.
                     apply Use; [apply Rep_set_ring; [exact R0|exact Rr]|exact Hon|apply Winv_note, Wi|reflexivity|exact Hil].
                 --- cbn. split; [apply (AI sr (Some sa) 0 Hsr); lia|]. split; [apply Winv_note, Wi|]. intros _. left. reflexivity.
              ** cbn. split; [apply (AI sr (Some sa) 0 Hsr); lia|]. split; [apply Winv_note, Wi|]. intros _. left. reflexivity.
    + cbn. split; [exact R|]. split; [apply Winv_note, Wi|]. intros _. left. rewrite Hs. reflexivity.
Qed.

Definition I_ai (s : fdl * W) : Prop := Rep n (fst s) /\ Winv (snd s) /\ idleish (fst s).
Definition J_rw (s : fdl * W) : Prop := Rep n (fst s) /\ Winv (snd s).

Lemma active_idle_telegram_wp now s t il : time_ok now -> I_ai s -> wf_tel t ->
  wp (active_idle_telegram A now s t il) (fun x => J_rw (fst x) /\ (il = false -> I_ai (fst x))).
Proof.
  intros Tn (R & Wi & Hk) Wt. destruct s as [f w]. cbn [fst snd] in *. unfold active_idle_telegram.
  destruct (mark_rx_rep n f now R Tn) as (R1 & S1).
  assert (Hk1 : idleish (mark_rx f now)) by (unfold idleish; rewrite (sb_state _ _ S1); exact Hk).
  eapply wp_bind; [apply handle_telegram_wp; [exact Tn|exact R1|exact Wi|exact Hk1|exact Wt]|].
  intros [f2 w2] (R2 & W2 & K2). cbn [fst snd] in *. cbn. unfold J_rw, I_ai. cbn. tauto.
Qed.

Lemma do_active_idle_wp f now (w : W) : Rep n f -> time_ok now -> w_tx w = None -> Winv w ->
  kind_of (f_state f) = KActiveIdle ->
  wp (do_active_idle A f now w) PostRW.
Proof.
  intros R Tn Hw Wi Hk. unfold do_active_idle, assert_entry. rewrite Hk. cbn [do_fn_entry state_kind_eqb bind].
  eapply wp_bind; [apply handle_lost_token_wp; try assumption; right; exact Hk|].
  intros [[f1 w1] done] (R1 & W1 & Hd). destruct done; [cbn; split; assumption|].
  destruct (Hd eq_refl) as (S1 & ->). clear Hd.
  destruct (f_state f) as [| | |sr nps cc| | | | | |] eqn:Hs; try discriminate Hk.
  assert (Hs1 : f_state f1 = ActiveIdle sr nps cc) by (rewrite (sb_state _ _ S1); exact Hs).
  rewrite Hs1. cbn [get_active_idle bind].
  pose proof (rep_st _ _ R1) as St. rewrite Hs1 in St. cbn in St. destruct St as (Hsr & Hcc).
  assert (Hon : f_conn f1 = ConnOnline) by (apply (Rep_online n); [exact R1|rewrite Hs1; discriminate]).
  destruct sr as [src|].
  - eapply wp_bind; [apply (wait_sync_wp n); assumption|].
    intros [f2 wait] (R2 & S2). cbn [fst] in *.
    destruct wait; [cbn; split; [exact R2|apply Winv_note, Wi]|].
    pose proof (Rep_ts n f2 R2) as Hts.
    eapply wp_bind.
    + apply phy_send_data_wp; [exact Hw|exact Wi| |reflexivity|reflexivity].
      unfold wf_header, is_addr7, wf_sap. cbn in *. lia.
    + intros [w2 k] (W2 & Hk2). cbn [fst snd] in *.
      eapply wp_bind.
      * apply (mark_tx_wp n); [|exact Tn|exact Hk2].
        apply Rep_set_st; [exact R2|rewrite (sb_conn _ _ S2); exact Hon|cbn; lia].
      * intros f4 (R4 & S4). cbn. split; [exact R4|apply Winv_note, W2].
  - apply (receive_all_telegrams_wp _ I_ai J_rw).
    + intros s t Hi Wt. eapply wp_mono; [apply active_idle_telegram_wp; assumption|]. cbn beta. intros x (_ & Hx). apply Hx. reflexivity.
    + intros s t Hi Wt. eapply wp_mono; [apply active_idle_telegram_wp; assumption|]. cbn beta. tauto.
    + unfold I_ai, J_rw. tauto.
    + intros f2 w2 (R2 & W2). cbn in *. tauto.
    + split; [exact R1|]. split; [exact Wi|]. left. cbn. rewrite Hs1. reflexivity.
Qed.


(* ------------------------------------------------------------------------------------------ *)
(* do_pass_token, do_await_status_response, do_check_token_pass                                 *)

Lemma do_pass_token_wp f now (w : W) : Rep n f -> time_ok now -> w_tx w = None -> Winv w ->
  kind_of (f_state f) = KPassToken ->
  wp (do_pass_token A f now w) PostRW.
Proof.
  intros R Tn Hw Wi Hk. unfold do_pass_token, assert_entry. rewrite Hk. cbn [do_fn_entry state_kind_eqb bind].
  destruct (f_state f) as [| | | | | | |dg att| |] eqn:Hs; try discriminate Hk.
  eapply wp_bind; [apply (wait_sync_wp n); assumption|].
  intros [f1 wait] (R1 & S1). cbn [fst] in *.
  destruct wait; [cbn; split; [exact R1|apply Winv_note, Wi]|].
  assert (Hs1 : f_state f1 = PassToken dg att) by (rewrite (sb_state _ _ S1); exact Hs).
  assert (Hon : f_conn f1 = ConnOnline) by (apply (Rep_online n); [exact R1|rewrite Hs1; discriminate]).
  rewrite Hs1. cbn [get_pass_token bind].
  pose proof (Rep_ts n f1 R1) as Hts. pose proof (bv_ranges _ (rep_p _ _ R1)) as Hbv.
  assert (Hgi : forall g, st_ok n (f_p f1) g (f_next_app f1) (f_state f1)) by (intros g; rewrite Hs1; exact I).
  eapply wp_bind with (P := fun x => let '(f2, w2, polled) := x in
     Rep n f2 /\ Winv w2 /\ f_state f2 = PassToken dg att /\ f_conn f2 = ConnOnline /\
     match polled with Some a => f_gap f2 = GapDoPoll a /\ a <> ts f2 | None => w_tx w2 = None end).
  - destruct dg.
    + eapply wp_bind with (P := fun x => Rep n (fst x) /\ gap_fresh (fst x) /\ wkeep w (snd x) /\
                                         f_state (fst x) = PassToken true att /\ f_conn (fst x) = ConnOnline).
      * destruct (f_gap f1) as [rc|cur] eqn:G.
        -- pose proof (rep_gap _ _ R1) as G1. rewrite G in G1. cbn in G1.
           destruct (Z.ltb_spec (p_gap_wait (f_p f1)) rc).
           ++ eapply wp_mono; [apply ngp_wp; [exact R1|unfold ts in *; lia|exact Hgi]|].
              intros [f2 w2] ((g & E) & R2 & F2 & K2). cbn [fst snd] in *. subst f2.
              split; [exact R2|]. split; [exact F2|]. split; [eapply wkeep_trans; [apply wkeep_note|exact K2]|].
              split; [exact Hs1|exact Hon].
           ++ unfold u8_add. destruct (Z.leb_spec (rc + 1) 255); [|lia]. cbn.
              split; [apply Rep_set_gap; [exact R1|cbn; lia|apply Hgi]|]. split; [unfold gap_fresh; cbn; exact I|].
              split; [apply wkeep_note|]. split; [exact Hs1|exact Hon].
        -- pose proof (rep_gap _ _ R1) as G1. rewrite G in G1. cbn in G1.
           eapply wp_mono; [apply ngp_wp; [exact R1|exact G1|exact Hgi]|].
           intros [f2 w2] ((g & E) & R2 & F2 & K2). cbn [fst snd] in *. subst f2.
           split; [exact R2|]. split; [exact F2|]. split; [exact K2|]. split; [exact Hs1|exact Hon].
      * intros [f2 w2] (R2 & F2 & K2 & Hs2 & Hon2). cbn [fst snd] in *.
        eapply wp_mono; [apply tgp_wp; [exact R2|exact Tn|exact (wkeep_tx _ _ K2 Hw)|exact (wkeep_Winv _ _ K2 Wi)|exact F2]|].
        intros [[f3 w3] polled] (R3 & S3 & W3 & P). split; [exact R3|]. split; [exact W3|].
        split; [rewrite (sb_state _ _ S3); exact Hs2|]. split; [rewrite (sb_conn _ _ S3); exact Hon2|].
        destruct polled as [a|]; [|exact P]. rewrite (sb_gap _ _ S3), (sb_ts _ _ S3). exact P.
    + cbn. tauto.
  - intros [[f2 w2] polled] (R2 & W2 & Hs2 & Hon2 & P).
    destruct polled as [a|].
    + rewrite (trans_ok f2 _ _ (AwaitStatusResponse a)) by (rewrite Hs2; reflexivity).
      cbn. split; [|apply Winv_note, W2]. apply Rep_set_st; [exact R2|exact Hon2|]. cbn. exact P.
    + pose proof (Rep_ts n f2 R2) as Hts2.
      eapply wp_bind; [apply phy_send_token_wp; assumption|].
      intros [w3 k] (W3 & Hk3). cbn [fst snd] in *.
      pose proof (ring_ok_ns _ _ (rep_ring _ _ R2) ltac:(lia)) as Hns.
      destruct (witness_ring_ok (f_ring f2) (ts f2) (ts f2) (r_ns (f_ring f2)) (rep_ring _ _ R2)) as [r' [Er Rr]]; try lia.
      rewrite Er. cbn [bind].
      pose proof (Rep_set_ring n f2 r' R2 Rr) as R3.
      eapply wp_bind with (P := PostRW).
      * destruct (r_ns (f_ring (set_ring f2 r')) =? ts (set_ring f2 r')).
        -- rewrite (trans_ok _ _ _ (UseToken now None false)) by (cbn [f_state set_ring]; rewrite Hs2; reflexivity).
           cbn. split; [|apply Winv_note, Winv_note, W3].
           apply (Rep_set_st n (set_ring f2 r')); [exact R3|exact Hon2|exact Tn].
        -- cbn [f_state set_ring]. rewrite Hs2. cbn [get_pass_token bind].
           rewrite (trans_ok _ _ _ (CheckTokenPass att)) by (cbn [f_state set_ring]; rewrite Hs2; reflexivity).
           cbn. split; [|apply Winv_note, Winv_note, W3].
           apply (Rep_set_st n (set_ring f2 r')); [exact R3|exact Hon2|exact I].
      * intros [f4 w4] (R4 & W4). cbn [fst snd] in *.
        eapply wp_bind; [apply (mark_tx_wp n); [exact R4|exact Tn|exact Hk3]|].
        intros f5 (R5 & S5). cbn. split; assumption.
Qed.

Lemma do_await_status_response_wp f now (w : W) : Rep n f -> time_ok now -> w_tx w = None -> Winv w ->
  kind_of (f_state f) = KAwaitStatusResponse ->
  wp (do_await_status_response A f now w) PostRW.
Proof.
  intros R Tn Hw Wi Hk. unfold do_await_status_response, assert_entry. rewrite Hk. cbn [do_fn_entry state_kind_eqb bind].
  destruct (f_state f) as [| | | | | | | | |a] eqn:Hs; try discriminate Hk.
  cbn [get_await_status_response_address bind].
  pose proof (rep_st _ _ R) as St. rewrite Hs in St. cbn in St. destruct St as (Eg & Ha).
  eapply wp_bind; [apply agp_wp; [exact R|exact Tn|exact Wi|exact Eg|exact Ha]|].
  intros [[f1 w1] r] (R1 & St1 & G1 & Tx1 & W1). rewrite Hs in St1.
  assert (Hon1 : f_conn f1 = ConnOnline) by (apply (Rep_online n); [exact R1|rewrite St1; discriminate]).
  destruct r.
  - cbn. split; assumption.
  - rewrite (trans_ok f1 _ _ (PassToken false AttFirst)) by (rewrite St1; reflexivity). cbn [bind].
    apply do_pass_token_wp; [|exact Tn|cbn; congruence|apply Winv_note, W1|reflexivity].
    apply Rep_set_st; [exact R1|exact Hon1|exact I].
  - rewrite (trans_ok f1 _ _ (PassToken false AttFirst)) by (rewrite St1; reflexivity). cbn [wp].
    split; [|apply Winv_note, W1]. apply Rep_set_st; [exact R1|exact Hon1|exact I].
  - rewrite (trans_ok f1 _ _ (ActiveIdle None None 0)) by (rewrite St1; reflexivity). cbn [wp].
    split; [|apply Winv_note, W1]. apply Rep_set_st; [exact R1|exact Hon1|cbn; lia].
Qed.

Definition I_ck (s : fdl * W * bool) : Prop :=
  Rep n (fst (fst s)) /\ Winv (snd (fst s)) /\
  (if snd s then kind_of (f_state (fst (fst s))) = KCheckTokenPass else idleish (fst (fst s))).
Definition J_ck (s : fdl * W * bool) : Prop := Rep n (fst (fst s)) /\ Winv (snd (fst s)).

Lemma check_token_pass_telegram_wp now s t il : time_ok now -> I_ck s -> wf_tel t ->
  wp (check_token_pass_telegram A now s t il) (fun x => J_ck (fst x) /\ (il = false -> I_ck (fst x))).
Proof.
  intros Tn (R & Wi & Hk) Wt. destruct s as [[f w] fi]. cbn [fst snd] in *. unfold check_token_pass_telegram.
  destruct (mark_rx_rep n f now R Tn) as (R1 & S1).
  set (f1 := mark_rx f now) in *. clearbody f1.
  eapply wp_bind with (P := fun x => Rep n (fst x) /\ Winv (snd x) /\ idleish (fst x)).
  - destruct fi.
    + assert (Hk1 : kind_of (f_state f1) = KCheckTokenPass) by (rewrite (sb_state _ _ S1); exact Hk).
      assert (Hon : f_conn f1 = ConnOnline) by (apply (Rep_online n); [exact R1|rewrite Hk1; discriminate]).
      rewrite (trans_ok f1 _ _ (ActiveIdle None None 0))
        by (unfold transition_active_idle, assert_kind; rewrite Hk1; reflexivity).
      cbn. split; [apply Rep_set_st; [exact R1|exact Hon|cbn; lia]|]. split; [apply Winv_note, Winv_note, Wi|].
      left. reflexivity.
    + cbn. split; [exact R1|]. split; [exact Wi|]. unfold idleish. rewrite (sb_state _ _ S1). exact Hk.
  - intros [f2 w2] (R2 & W2 & K2). cbn [fst snd] in *.
    eapply wp_bind; [apply handle_telegram_wp; [exact Tn|exact R2|exact W2|exact K2|exact Wt]|].
    intros [f3 w3] (R3 & W3 & K3). cbn [fst snd] in *. cbn. unfold J_ck, I_ck. cbn. tauto.
Qed.

Lemma do_check_token_pass_wp f now (w : W) : Rep n f -> time_ok now -> w_tx w = None -> Winv w ->
  kind_of (f_state f) = KCheckTokenPass ->
  wp (do_check_token_pass A f now w) PostRW.
Proof.
  intros R Tn Hw Wi Hk. unfold do_check_token_pass, assert_entry. rewrite Hk. cbn [do_fn_entry state_kind_eqb bind].
  destruct (f_state f) as [| | | | | | | |att|] eqn:Hs; try discriminate Hk.
  eapply wp_bind; [apply (check_slot_wp n); assumption|].
  intros [f1 expired] (R1 & S1). cbn [fst] in *.
  assert (Hs1 : f_state f1 = CheckTokenPass att) by (rewrite (sb_state _ _ S1); exact Hs).
  assert (Hon : f_conn f1 = ConnOnline) by (apply (Rep_online n); [exact R1|rewrite Hs1; discriminate]).
  pose proof (Rep_ts n f1 R1) as Hts.
  destruct expired.
  - rewrite Hs1. cbn [get_check_token_pass_attempt bind].
    eapply wp_bind with (P := fun x => Rep n (fst x) /\ wkeep w (snd x) /\ f_state (fst x) = CheckTokenPass att /\
                                       f_conn (fst x) = ConnOnline).
    + destruct (check_pass_removes att).
      * pose proof (ring_ok_ns _ _ (rep_ring _ _ R1) ltac:(lia)) as Hns.
        destruct (remove_station_ring_ok (f_ring f1) (ts f1) (r_ns (f_ring f1)) (rep_ring _ _ R1)) as [r' [Er Rr]]; try lia.
        rewrite Er. cbn. split; [apply Rep_set_ring; assumption|]. split; [apply wkeep_note|]. split; assumption.
      * cbn. split; [exact R1|]. split; [apply wkeep_note|]. split; assumption.
    + intros [f2 w2] (R2 & K2 & Hs2 & Hon2). cbn [fst snd] in *.
      rewrite (trans_ok f2 _ _ (PassToken false (check_pass_next att))) by (rewrite Hs2; reflexivity). cbn [bind].
      apply do_pass_token_wp; [|exact Tn|exact (wkeep_tx _ _ K2 Hw)|apply Winv_note, (wkeep_Winv _ _ K2 Wi)|reflexivity].
      apply Rep_set_st; [exact R2|exact Hon2|exact I].
  - destruct Wi as (Wb & Wa).
    eapply wp_bind.
    + apply (receive_all_wp (check_token_pass_telegram A now) I_ck J_ck) with (s := (f1, w, true)).
      * intros s t Hi Wt. eapply wp_mono; [apply check_token_pass_telegram_wp; assumption|]. cbn beta. intros x (_ & Hx). apply Hx. reflexivity.
      * intros s t Hi Wt. eapply wp_mono; [apply check_token_pass_telegram_wp; assumption|]. cbn beta. tauto.
      * unfold I_ck, J_ck. tauto.
      * unfold receive_all_fuel. lia.
      * exact Wb.
      * split; [exact R1|]. split; [split; assumption|]. cbn. rewrite Hs1. reflexivity.
    + intros [[[[f2 w2] fi] rest] r] ((R2 & (_ & Wa2)) & Hrest). cbn [fst snd] in *.
      cbn. split; [apply sync_pending_rep, R2|]. split; [|destruct fi; exact Wa2].
      destruct fi; exact Hrest.
Qed.


(* ------------------------------------------------------------------------------------------ *)
(* applications, do_use_token, do_await_data_response                                           *)

(* the applications' own totality: every callback returns, and a telegram an application hands
   to the PHY fits a PHY transmit buffer (at most 65536 bytes; the real buffers have 256) *)
Definition apps_total : Prop :=
  (forall a now p hp, exists a' r, a_tx ops a now p hp = Ok (a', r) /\
      match r with Some (wire, _) => Z.of_nat (length wire) <= 65536 | None => True end) /\
  (forall a now p addr t, exists a', a_rx ops a now p addr t = Ok a') /\
  (forall a now p addr, exists a', a_to ops a now p addr = Ok a').

Hypothesis Happs : apps_total.

Lemma replace_nth_length {X} (l : list X) : forall i x, length (replace_nth l i x) = length l.
Proof. induction l as [|h t IH]; intros [|i] x; cbn; try reflexivity. rewrite IH. reflexivity. Qed.

Lemma Winv_set_app (w : W) i a c : Winv w -> Winv (log_call A (set_app A w i a) c).
Proof. intros (Wb & Wa). split; cbn; [exact Wb|rewrite replace_nth_length; exact Wa]. Qed.

Lemma app_transmit_wp f now (w : W) idx app hp tk fa fcd : Rep n f -> time_ok now -> w_tx w = None -> Winv w ->
  f_state f = UseToken tk fa fcd -> (f_next_app f < n)%nat ->
  wp (app_transmit_telegram A ops f now w idx app hp)
     (fun x => let '(f1, w1, done) := x in Rep n f1 /\ Winv w1 /\ (done = false -> w_tx w1 = None /\ f1 = f)).
Proof.
  intros R Tn Hw Wi Hs Hna. unfold app_transmit_telegram.
  destruct Happs as (Htx & _ & _). destruct (Htx app now (f_p f) hp) as (a' & r & E & Hr). rewrite E. cbn [bind].
  assert (Hon : f_conn f = ConnOnline) by (apply (Rep_online n); [exact R|rewrite Hs; discriminate]).
  pose proof (rep_st _ _ R) as St. rewrite Hs in St. cbn in St.
  destruct r as [[wire er]|].
  - unfold phy_transmit. cbn [w_tx log_call set_app]. rewrite Hw. cbn [bind].
    match goal with |- context [note A ?w0 _] => assert (W1 : Winv w0) by (split; cbn; [apply Wi|rewrite replace_nth_length; apply Wi]) end.
    eapply wp_bind with (P := PostRW).
    + destruct er as [addr|].
      * rewrite Hs. cbn [get_use_token bind].
        rewrite (trans_ok f _ _ (AwaitDataResponse addr tk fa)) by (rewrite Hs; reflexivity).
        cbn. split; [|apply Winv_note, Winv_note, W1].
        apply Rep_set_st; [exact R|exact Hon|cbn; tauto].
      * cbn. split; [exact R|apply Winv_note, W1].
    + intros [f1 w1] (R1 & W1'). cbn [fst snd] in *.
      eapply wp_bind; [apply (mark_tx_wp n); [exact R1|exact Tn|exact Hr]|].
      intros f2 (R2 & S2). cbn. split; [exact R2|]. split; [exact W1'|discriminate].
  - cbn. split; [exact R|]. split; [apply Winv_note, Winv_set_app, Wi|]. intros _. split; [exact Hw|reflexivity].
Qed.

Lemma apps_loop_wp k : forall f now (w : W) hp, (k <= n)%nat -> Rep n f -> time_ok now -> w_tx w = None -> Winv w ->
  kind_of (f_state f) = KUseToken ->
  wp (apps_transmit_loop A ops k f now w hp)
     (fun x => let '(f1, w1, done) := x in
        Rep n f1 /\ Winv w1 /\ (done = false -> w_tx w1 = None /\ kind_of (f_state f1) = KUseToken)).
Proof.
  induction k as [|k IH]; intros f now w hp Hkn R Tn Hw Wi Hk.
  - cbn. tauto.
  - cbn [apps_transmit_loop].
    assert (Hna : (f_next_app f < n)%nat) by (destruct (rep_na _ _ R); lia).
    destruct (nth_error (w_apps w) (f_next_app f)) as [app|] eqn:En.
    2:{ apply nth_error_None in En. destruct Wi as (_ & Wa). lia. }
    destruct (f_state f) as [| | | |tk fa fcd| | | | |] eqn:Hs; try discriminate Hk.
    eapply wp_bind; [apply (app_transmit_wp f now w (f_next_app f) app hp tk fa fcd); assumption|].
    intros [[f1 w1] done] (R1 & W1 & Hd). destruct done; [cbn; split; [exact R1|split; [exact W1|discriminate]]|].
    destruct (Hd eq_refl) as (Hw1 & ->). clear Hd.
    unfold schedule_next_application. rewrite Hs. cbn [get_use_token bind].
    destruct W1 as (Wb1 & Wa1). rewrite Wa1.
    destruct (Nat.eqb_spec n 0) as [C|Hn0]; [lia|]. cbn [bind].
    match goal with |- context [apps_transmit_loop A ops k ?ff] =>
      assert (R2 : Rep n ff /\ kind_of (f_state ff) = KUseToken) end.
    { split; [|reflexivity]. apply Rep_set_next_app.
      - apply Rep_set_st; [exact R1|apply (Rep_online n); [exact R1|rewrite Hs; discriminate]|].
        pose proof (rep_st _ _ R1) as St. rewrite Hs in St. exact St.
      - apply Nat.mod_upper_bound. exact Hn0.
      - discriminate. }
    destruct R2 as (R2 & K2).
    match goal with |- context [if ?c then _ else _] => destruct c end.
    + cbn. split; [exact R2|]. split; [apply Winv_note; split; assumption|]. intros _. split; [exact Hw1|exact K2].
    + apply IH; [lia|exact R2|exact Tn|exact Hw1|split; assumption|exact K2].
Qed.

Lemma bv_ttr f : Rep n f -> 0 <= token_rotation_time (f_p f) <= DMAX.
Proof. intros R. pose proof (bv_ranges _ (rep_p _ _ R)). apply btt_bound. lia. Qed.

Lemma do_use_token_wp f now (w : W) : Rep n f -> time_ok now -> w_tx w = None -> Winv w ->
  kind_of (f_state f) = KUseToken ->
  wp (do_use_token A ops f now w) PostRW.
Proof.
  intros R Tn Hw Wi Hk. unfold do_use_token, assert_entry. rewrite Hk. cbn [do_fn_entry state_kind_eqb bind].
  destruct (f_state f) as [| | | |tk fa fcd| | | | |] eqn:Hs; try discriminate Hk.
  cbn [get_use_token bind].
  assert (Hon : f_conn f = ConnOnline) by (apply (Rep_online n); [exact R|rewrite Hs; discriminate]).
  pose proof (rep_st _ _ R) as St. rewrite Hs in St. cbn in St.
  eapply wp_bind with (P := fun x => Rep n (fst x) /\ wkeep w (snd x) /\ f_state (fst x) = UseToken tk fa fcd).
  - destruct (negb (f_last_token_time f =? tk)).
    + pose proof (bv_ttr f R) as Bt. pose proof (rep_ltt _ _ R) as Bl. unfold time_ok in Bl.
      rewrite inst_add_ok; [|unfold T62, DMAX in *; lia|exact Bt]. cbn [bind].
      destruct (f_gap f).
      * cbn. split; [apply Rep_set_hold; assumption|]. split; [apply wkeep_note|exact Hs].
      * pose proof (bv_ranges _ (rep_p _ _ R)) as Hbv.
        pose proof (btt_bound (p_baud (f_p f)) (p_slot_bits (f_p f) + gap_reserve_extra_bits)
                      ltac:(unfold gap_reserve_extra_bits; lia)) as Bs.
        unfold p_bits_to_time.
        rewrite inst_sub_dur_ok; [|unfold T62, DMAX in *; lia|exact Bs].
        cbn. split; [apply Rep_set_hold; assumption|]. split; [apply wkeep_note|exact Hs].
    + cbn. split; [exact R|]. split; [apply wkeep_refl|exact Hs].
  - intros [f1 w1] (R1 & K1 & Hs1). cbn [fst snd] in *.
    eapply wp_bind; [apply (wait_sync_wp n); assumption|].
    intros [f2 wait] (R2 & S2). cbn [fst] in *.
    destruct wait; [cbn; split; [exact R2|apply Winv_note, (wkeep_Winv _ _ K1 Wi)]|].
    assert (Hs2 : f_state f2 = UseToken tk fa fcd) by (rewrite (sb_state _ _ S2); exact Hs1).
    assert (Hon2 : f_conn f2 = ConnOnline) by (apply (Rep_online n); [exact R2|rewrite Hs2; discriminate]).
    rewrite Hs2. cbn [get_use_token bind].
    pose proof (wkeep_Winv _ _ K1 Wi) as W1. pose proof (wkeep_tx _ _ K1 Hw) as Hw1.
    assert (Rfc : Rep n (set_st f2 (UseToken tk fa true))) by (apply Rep_set_st; [exact R2|exact Hon2|exact St]).
    assert (Efc : set_first_cycle_done f2 = Ok (set_st f2 (UseToken tk fa true)))
      by (unfold set_first_cycle_done; rewrite Hs2; reflexivity).
    assert (Loop : forall tg hp,
      wp (apps_transmit_telegram A ops (set_st f2 (UseToken tk fa true)) now (note A w1 tg) hp)
         (fun x => let '(f3, w3, done) := x in
            Rep n f3 /\ Winv w3 /\ (done = false -> w_tx w3 = None /\ kind_of (f_state f3) = KUseToken))).
    { intros tg hp. unfold apps_transmit_telegram.
      apply apps_loop_wp; [destruct W1 as (_ & Wa); cbn; lia|exact Rfc|exact Tn|exact Hw1|apply Winv_note, W1|reflexivity]. }
    eapply wp_bind with (P := fun x => let '(f3, w3, done) := x in
            Rep n f3 /\ Winv w3 /\ (done = false -> w_tx w3 = None /\ kind_of (f_state f3) = KUseToken)).
    + destruct (now <? f_end_tht f2).
      * rewrite Efc. cbn [bind]. apply Loop.
      * destruct (negb fcd).
        -- rewrite Efc. cbn [bind]. apply Loop.
        -- cbn. split; [exact R2|]. split; [apply Winv_note, W1|]. intros _. split; [exact Hw1|rewrite Hs2; reflexivity].
    + intros [[f3 w3] done] (R3 & W3 & Hd). destruct done; [cbn; split; assumption|].
      destruct (Hd eq_refl) as (Hw3 & K3).
      rewrite (trans_ok f3 _ _ (PassToken true first_attempt))
        by (unfold transition_pass_token, assert_kind; rewrite K3; reflexivity).
      cbn [bind].
      (* F20 repair: the token is passed in the same poll *)
      apply do_pass_token_wp; [|exact Tn|exact Hw3|apply Winv_note, W3|reflexivity].
      apply Rep_set_st; [exact R3|apply (Rep_online n); [exact R3|rewrite K3; discriminate]|exact I].
Qed.

Lemma do_await_data_response_wp f now (w : W) : Rep n f -> time_ok now -> w_tx w = None -> Winv w ->
  kind_of (f_state f) = KAwaitDataResponse ->
  wp (do_await_data_response A ops f now w) PostRW.
Proof.
  intros R Tn Hw Wi Hk. unfold do_await_data_response, assert_entry. rewrite Hk. cbn [do_fn_entry state_kind_eqb bind].
  destruct (f_state f) as [| | | | | |addr tk fa| | |] eqn:Hs; try discriminate Hk.
  cbn [get_await_data_response bind].
  assert (Hon : f_conn f = ConnOnline) by (apply (Rep_online n); [exact R|rewrite Hs; discriminate]).
  pose proof (rep_st _ _ R) as St. rewrite Hs in St. cbn in St. destruct St as (Ttk & Hna).
  destruct Wi as (Wb & Wa).
  destruct (nth_error (w_apps w) (f_next_app f)) as [app|] eqn:En.
  2:{ apply nth_error_None in En. lia. }
  destruct Happs as (_ & Hrx & Hto).
  unfold receive_telegram. destruct (decode_total (w_rx w)) as [d D]. rewrite D. cbn [bind].
  assert (Use : forall f' w', Rep n f' -> f_conn f' = ConnOnline -> f_state f' = AwaitDataResponse addr tk fa ->
     Winv w' -> wp (trans A f' w' (fun s => transition_use_token s tk fa))
                   (fun x => Rep n (fst x) /\ Winv (snd x) /\ f_state (fst x) = UseToken tk fa false /\ w_tx (snd x) = w_tx w')).
  { intros f' w' R' C' S' W'. rewrite (trans_ok f' _ _ (UseToken tk fa false)) by (rewrite S'; reflexivity).
    cbn. split; [apply Rep_set_st; [exact R'|exact C'|exact Ttk]|]. split; [apply Winv_note, W'|]. split; reflexivity. }
  assert (Timeout : forall w', Winv w' -> w_tx w' = None ->
    wp (let f0 := sync_pending_bytes A f w' in
        let* (f1, expired) := check_slot_expired f0 now in
        if expired then
          let* app' := a_to ops app now (f_p f1) addr in
          let w2 := log_call A (set_app A w' (f_next_app f) app') (CallHandleTimeout (f_next_app f) addr) in
          let* (f2, w3) := trans A f1 (note A w2 TReplyTimeout) (fun s => transition_use_token s tk fa) in
          let* f3 := set_first_cycle_done f2 in do_use_token A ops f3 now w3
        else Ok (f1, note A w' TReplyAwait)) PostRW).
  { intros w' W' Hw'. cbv zeta.
    destruct (sync_pending_rep n A f w' R) as (R0 & S0).
    eapply wp_bind; [apply (check_slot_wp n); [exact R0|exact Tn]|].
    intros [f1 expired] (R1 & S1). cbn [fst] in *.
    assert (Hs1 : f_state f1 = AwaitDataResponse addr tk fa) by (rewrite (sb_state _ _ S1), (sb_state _ _ S0); exact Hs).
    assert (Hon1 : f_conn f1 = ConnOnline) by (rewrite (sb_conn _ _ S1), (sb_conn _ _ S0); exact Hon).
    destruct expired; [|cbn; split; [exact R1|apply Winv_note, W']].
    destruct (Hto app now (f_p f1) addr) as (a' & E). rewrite E. cbn [bind].
    eapply wp_bind; [apply Use; [exact R1|exact Hon1|exact Hs1|apply Winv_note, Winv_set_app, W']|].
    intros [f2 w2] (R2 & W2 & Hs2 & Hw2). cbn [fst snd] in *.
    unfold set_first_cycle_done. rewrite Hs2. cbn [get_use_token bind].
    apply do_use_token_wp; [|exact Tn|rewrite Hw2; exact Hw'|exact W2|reflexivity].
    apply Rep_set_st; [exact R2|apply (Rep_online n); [exact R2|rewrite Hs2; discriminate]|exact Ttk]. }
  destruct d as [ | |t k]; cbn [bind].
  - apply Timeout.
    + destruct (Nat.ltb (length (w_rx w)) (length (w_rx w))); split; cbn; assumption.
    + destruct (Nat.ltb (length (w_rx w)) (length (w_rx w))); cbn; exact Hw.
  - apply Timeout.
    + destruct (Nat.ltb (@length Z []) (length (w_rx w))); split; cbn; try assumption; constructor.
    + destruct (Nat.ltb (@length Z []) (length (w_rx w))); cbn; exact Hw.
  - destruct (mark_rx_rep n f now R Tn) as (R1 & S1).
    assert (Hs1 : f_state (mark_rx f now) = AwaitDataResponse addr tk fa) by (rewrite (sb_state _ _ S1); exact Hs).
    assert (Hon1 : f_conn (mark_rx f now) = ConnOnline) by (rewrite (sb_conn _ _ S1); exact Hon).
    assert (W1 : Winv (set_rx A w (skipn k (w_rx w)))) by (split; cbn; [apply all_bytes_skipn, Wb|exact Wa]).
    destruct (is_valid_response (mark_rx f now) addr t).
    + destruct (Hrx app now (f_p (mark_rx f now)) addr t) as (a' & E). rewrite E. cbn [bind].
      match goal with |- context [sync_pending_bytes A ?ff ?ww] =>
        destruct (sync_pending_rep n A ff ww R1) as (R2 & S2); set (f2 := sync_pending_bytes A ff ww) in * end.
      eapply wp_bind.
      * apply Use; [exact R2|rewrite (sb_conn _ _ S2); exact Hon1|rewrite (sb_state _ _ S2); exact Hs1|
                    apply Winv_note, Winv_set_app, W1].
      * intros [f3 w3] (R3 & W3 & Hs3 & Hw3). cbn [fst snd] in *.
        unfold set_first_cycle_done. rewrite Hs3. cbn. split; [|exact W3].
        apply Rep_set_st; [exact R3|apply (Rep_online n); [exact R3|rewrite Hs3; discriminate]|exact Ttk].
    + rewrite (trans_ok _ _ _ (ActiveIdle None None 0)) by (rewrite Hs1; reflexivity).
      cbn. split; [|apply Winv_note, Winv_note, W1].
      apply Rep_set_st; [exact R1|exact Hon1|cbn; lia].
Qed.


(* ------------------------------------------------------------------------------------------ *)
(* poll_inner                                                                                   *)

Lemma dispatch_wp f now (w : W) : Rep n f -> time_ok now -> w_tx w = None -> Winv w ->
  f_conn f = ConnOnline -> kind_of (f_state f) <> KOffline ->
  wp (match poll_dispatch (kind_of (f_state f)) with
      | TgUnreachable => Panic SiteUnreachable
      | TgTodo => Panic SiteUnreachable
      | TgDo DoListenToken => do_listen_token A f now w
      | TgDo DoClaimToken => do_claim_token A f now w
      | TgDo DoUseToken => do_use_token A ops f now w
      | TgDo DoAwaitDataResponse => do_await_data_response A ops f now w
      | TgDo DoPassToken => do_pass_token A f now w
      | TgDo DoCheckTokenPass => do_check_token_pass A f now w
      | TgDo DoActiveIdle => do_active_idle A f now w
      | TgDo DoAwaitStatusResponse => do_await_status_response A f now w
      end) PostRW.
Proof.
  intros R Tn Hw Wi Hc Hk. pose proof (rep_st _ _ R) as St.
  destruct (kind_of (f_state f)) eqn:K; cbn [poll_dispatch].
  - contradiction Hk. reflexivity.
  - destruct (f_state f); try discriminate K. contradiction St.
  - apply do_listen_token_wp; assumption.
  - apply do_active_idle_wp; assumption.
  - apply do_use_token_wp; assumption.
  - apply do_claim_token_wp; assumption.
  - apply do_await_data_response_wp; assumption.
  - apply do_pass_token_wp; assumption.
  - apply do_check_token_pass_wp; assumption.
  - apply do_await_status_response_wp; assumption.
Qed.

Lemma poll_inner_wp f now busy (w : W) : Rep n f -> time_ok now -> w_tx w = None -> Winv w ->
  wp (poll_inner ops f now busy w) PostRW.
Proof.
  intros R Tn Hw Wi. unfold poll_inner.
  pose proof (rep_conn _ _ R) as C. pose proof (rep_st _ _ R) as St.
  eapply wp_bind with (P := fun x => let '(f1, w1, off) := x in
     Rep n f1 /\ Winv w1 /\ (off = false -> w_tx w1 = None /\ f_conn f1 = ConnOnline /\ kind_of (f_state f1) <> KOffline)).
  - destruct (f_conn f) eqn:Ec.
    + destruct (f_state f); cbn in C; try (exfalso; congruence); try contradiction.
      cbn. split; [exact R|]. split; [exact Wi|discriminate].
    + exfalso. destruct (f_state f); cbn in C; try congruence; try contradiction.
    + destruct (online_entry_kind (kind_of (f_state f))) eqn:Eo.
      * destruct (f_state f) eqn:Hs; try discriminate Eo; [|contradiction St].
        rewrite (trans_ok f _ _ (ListenToken None 0)) by (rewrite Hs; reflexivity).
        cbn. split; [apply Rep_set_st; [exact R|exact Ec|cbn; lia]|]. split; [apply Winv_note, Wi|].
        intros _. split; [exact Hw|]. split; [exact Ec|discriminate].
      * cbn. split; [exact R|]. split; [exact Wi|]. intros _. split; [exact Hw|]. split; [exact Ec|].
        intros K. rewrite K in Eo. discriminate Eo.
  - intros [[f1 w1] off] (R1 & W1 & Ho). destruct off; [cbn; split; assumption|].
    destruct (Ho eq_refl) as (Hw1 & Hc1 & Hk1). clear Ho.
    unfold check_for_ongoing_transmision.
    destruct (mark_bus_activity_rep n f1 now R1 Tn) as (Rm & Sm).
    match goal with |- context [if ?c then _ else _] => destruct c end.
    + cbn. split; [exact Rm|]. destruct busy; apply Winv_note, W1.
    + unfold check_for_bus_activity.
      destruct (Nat.ltb (f_pending f1) (length (w_rx w1))).
      * apply dispatch_wp.
        -- apply Rep_set_pending, Rm.
        -- exact Tn.
        -- exact Hw1.
        -- apply Winv_note, W1.
        -- cbn [f_conn set_pending]. rewrite (sb_conn _ _ Sm). exact Hc1.
        -- cbn [f_state set_pending]. rewrite (sb_state _ _ Sm). exact Hk1.
      * apply dispatch_wp; assumption.
Qed.

End WithApps.

(* ------------------------------------------------------------------------------------------ *)
(* poll, the API calls, histories                                                               *)

Section Poll.
Variable A : Type.
Variable ops : app_ops A.
Hypothesis Happs : apps_total A ops.

(* C05_rep_step.  The model's loops carry their own bounds: the receive loop runs with fuel
   `receive_all_fuel rx = S (length rx)`, the application loop is a structural recursion over
   `length apps`; "Ok" below therefore means: no panic and neither bound is exhausted. *)
Theorem poll_rep_step (f : fdl) (now : Z) (pin : phy_in) (apps : list A) :
  Rep (length apps) f -> time_ok now -> all_bytes (rx pin) ->
  exists f' o apps' c, poll ops f now pin apps = Ok (f', o, apps', c) /\
                       Rep (length apps) f' /\ length apps' = length apps.
Proof.
  intros R Tn Hb. unfold poll, poll_traced.
  pose proof (poll_inner_wp A ops (length apps) Happs f now (tx_busy pin) (mkWorld (rx pin) None apps [] []) R Tn eq_refl) as H.
  destruct (wp_ok _ _ (H (conj Hb eq_refl))) as ([f' w'] & E & (R' & (_ & Wa))).
  rewrite E. cbn [bind]. eexists. eexists. eexists. eexists. split; [reflexivity|]. split; assumption.
Qed.

Lemma fuel_is_rx_plus_one (rxb : bytes) : receive_all_fuel rxb = S (length rxb).
Proof. reflexivity. Qed.

Lemma Rep_set_online k f : Rep k f -> exists f', set_online f = Ok f' /\ Rep k f'.
Proof.
  intros R. exists (set_conn f ConnOnline). split; [reflexivity|].
  destruct R as [Rp Rr Rc Rg Rs Rl Rt Rn]. constructor; cbn; try assumption.
  destruct (f_state f); cbn in *; try reflexivity; try discriminate; assumption.
Qed.

Lemma Rep_set_offline k f : Rep k f -> exists f', set_offline f = Ok f' /\ Rep k f'.
Proof.
  intros R. unfold set_offline, set_state.
  destruct (fdl_new_rep k (f_p f) (rep_p _ _ R)) as [f0 (E & R0 & _)]. exists f0. split; assumption.
Qed.

Lemma rep_api k f : Rep k f ->
  (exists f1, set_online f = Ok f1 /\ Rep k f1) /\ (exists f2, set_offline f = Ok f2 /\ Rep k f2).
Proof. intros R. split; [exact (Rep_set_online k f R)|exact (Rep_set_offline k f R)]. Qed.

(* C05_rep_init *)
Theorem rep_init k p : builder_valid p ->
  exists f0, fdl_new p = Ok f0 /\ Rep k f0 /\
    (exists f1, set_online f0 = Ok f1 /\ Rep k f1) /\ (exists f2, set_offline f0 = Ok f2 /\ Rep k f2).
Proof.
  intros B. destruct (fdl_new_rep k p B) as [f0 (E & R0 & _)]. exists f0. split; [exact E|]. split; [exact R0|].
  split; [apply Rep_set_online, R0|apply Rep_set_offline, R0].
Qed.

(* histories: polls (any time in range, any PHY answer, any received bytes) interleaved with the
   implemented connectivity calls *)
Inductive api_ev : Type :=
| EvPoll (now : Z) (pin : phy_in)
| EvOnline
| EvOffline.

Definition ev_ok (e : api_ev) : Prop :=
  match e with EvPoll now pin => time_ok now /\ all_bytes (rx pin) | _ => True end.

Fixpoint run_events (f : fdl) (apps : list A) (evs : list api_ev) : res (fdl * list A) :=
  match evs with
  | [] => Ok (f, apps)
  | EvPoll now pin :: t =>
      let* (f', _, apps', _) := poll ops f now pin apps in run_events f' apps' t
  | EvOnline :: t => let* f' := set_online f in run_events f' apps t
  | EvOffline :: t => let* f' := set_offline f in run_events f' apps t
  end.

Lemma run_events_rep evs : forall f apps, Rep (length apps) f -> Forall ev_ok evs ->
  exists f' apps', run_events f apps evs = Ok (f', apps') /\ Rep (length apps) f' /\ length apps' = length apps.
Proof.
  induction evs as [|e t IH]; intros f apps R F.
  - exists f, apps. cbn. tauto.
  - inversion F as [|? ? He Ft]; subst. destruct e as [now pin| |]; cbn [run_events].
    + destruct He as (Tn & Hb).
      destruct (poll_rep_step f now pin apps R Tn Hb) as (f' & o & apps' & c & E & R' & L).
      rewrite E. cbn [bind]. rewrite <- L in R'.
      destruct (IH f' apps' R' Ft) as (f2 & apps2 & E2 & R2 & L2).
      exists f2, apps2. split; [exact E2|]. rewrite <- L. split; [exact R2|exact L2].
    + destruct (Rep_set_online _ f R) as (f' & E & R'). rewrite E. cbn [bind]. apply IH; assumption.
    + destruct (Rep_set_offline _ f R) as (f' & E & R'). rewrite E. cbn [bind]. apply IH; assumption.
Qed.

(* C05_no_panic *)
Theorem no_panic p (apps : list A) (evs : list api_ev) : builder_valid p -> Forall ev_ok evs ->
  exists f0 f' apps', fdl_new p = Ok f0 /\ run_events f0 apps evs = Ok (f', apps') /\ Rep (length apps) f'.
Proof.
  intros B F. destruct (fdl_new_rep (length apps) p B) as [f0 (E & R0 & _)].
  destruct (run_events_rep evs f0 apps R0 F) as (f' & apps' & E' & R' & _).
  exists f0, f', apps'. tauto.
Qed.

End Poll.

(* non-vacuity: the unit application `impl FdlApplication for ()` is total *)
Lemma unit_apps_total : apps_total unit unit_app_ops.
Proof.
  split; [|split].
  - intros a now p hp. exists a, None. split; [reflexivity|exact I].
  - intros a now p addr t. exists a. reflexivity.
  - intros a now p addr. exists a. reflexivity.
Qed.
