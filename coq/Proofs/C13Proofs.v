(* C13 - token hold time: the station-local rule over whole polls and over histories, one GAP poll per
   token visit, and the connection to the abstract rotation bound (Model/Rotation.v,
   Proofs/RotationBound.v).

     Part 1  do_use_token: the deadline as coded (with the GAP reserve), the state afterwards.
     Part 2  one poll, all states: the hold rule (extends C13_hold_rule from do_use_token to poll).
     Part 3  histories: applications are asked only before the deadline of the visit, or for the one
             guaranteed round when nobody has been asked yet in this visit (C13_visit_bounded);
             at most one GAP request between two visits (C13_one_gap_poll_per_visit).
     Part 4  visits of N stations as a rotation_trace; the hold inequality per visit implies
             obeys_hold_rule, hence rotation_bound (C13_rotation_bound_conditional).  NOT proved: that
             the composed N-station timed system produces such visit sequences. *)
From Coq Require Import Arith.
From PB Require Import Common Tables FdlTables Telegram Phy TokenRing Params Fdl FdlProofs FdlStepProofs C15Proofs.
From PB Require Import Rotation RotationBound.

(* the reserve that do_use_token subtracts from the hold time when a GAP poll is due (active.rs:1177-1180) *)
Definition gap_reserve (f : fdl) : Z :=
  match f_gap f with
  | GapDoPoll _ => p_bits_to_time (f_p f) (p_slot_bits (f_p f) + gap_reserve_extra_bits)
  | GapWaiting _ => 0
  end.

(* ------------------------------------------------------------------------------------------ *)
(* The history monitors of C13 (independent of the application type)                           *)

(* C13_visit_bounded.  h_asked: an application has been asked in this visit, in an earlier poll;
   h_lp / h_hp: the current poll has asked for low-priority / high-priority-only telegrams. *)
Record hst : Set := mkH { h_kind : state_kind; h_asked : bool; h_lp : bool; h_hp : bool }.

Definition hpre (s : hst) (x : hitem) : Prop :=
  match x with
  | HCall (CallTransmit _ hp _) =>
      (* the high-priority-only round is the first round of the visit, and is not mixed with another *)
      if hp then h_lp s = false /\ h_asked s = false else h_hp s = false
  | HCall _ => True
  | HEnd now f =>
      (* a normal round starts only before the deadline of the visit; the extra round only after it *)
      (h_lp s = true -> now < f_end_tht f) /\ (h_hp s = true -> f_end_tht f <= now)
  | HReset => True
  end.

Definition hpost (s : hst) (x : hitem) : hst :=
  match x with
  | HCall (CallTransmit _ hp _) =>
      if hp then mkH (h_kind s) (h_asked s) (h_lp s) true else mkH (h_kind s) (h_asked s) true (h_hp s)
  | HCall _ => s
  | HEnd now f =>
      let k' := kind_of (f_state f) in
      (* a first-visit state (C15Proofs.fresh_visit) is the station's NEXT visit when it passed the token
         to itself in this poll; inside a visit it means that nobody has been asked yet *)
      mkH k' (if in_visit k' then (if in_visit (h_kind s) then (if fresh_visit (f_state f) then false else h_asked s || h_lp s || h_hp s) else false) else false)
          false false
  | HReset => mkH KOffline false false false
  end.

Definition hst_init : hst := mkH KOffline false false false.

(* C13_one_gap_poll_per_visit.  g_gaps: entries into AwaitStatusResponse (each is one GAP request, see
   C12_pass_token_polls_in_gap) since the station left the token-use states. *)
Record gst : Set := mkG { g_kind : state_kind; g_gaps : nat }.

Definition gpre (s : gst) (x : hitem) : Prop :=
  match x with
  | HEnd now f =>
      kind_of (f_state f) = KAwaitStatusResponse -> g_kind s <> KAwaitStatusResponse ->
      (* the GAP request goes out in the poll that finds nothing (more) to send (F20 repair), or - when
         that poll had to wait for the synchronisation pause - from PassToken *)
      (g_kind s = KPassToken \/ in_visit (g_kind s) = true) /\ g_gaps s = 0%nat
  | _ => True
  end.

Definition gpost (s : gst) (x : hitem) : gst :=
  match x with
  | HCall _ => s
  | HEnd now f =>
      let k' := kind_of (f_state f) in
      mkG k' (if in_visit k' then 0%nat
              else match k', g_kind s with
                   | KAwaitStatusResponse, KAwaitStatusResponse => g_gaps s
                   | KAwaitStatusResponse, _ => S (g_gaps s)
                   | _, _ => g_gaps s
                   end)
  | HReset => mkG KOffline 0
  end.

Definition gst_init : gst := mkG KOffline 0.

(* C13_deadline_constant_in_visit.  d_dead: the deadline seen at the end of the first poll of this visit
   in which an application was asked; d_cur: an application has been asked in the current poll. *)
Record dst : Set := mkD { d_kind : state_kind; d_dead : option Z; d_cur : bool }.

Definition dpre (s : dst) (x : hitem) : Prop :=
  match x with
  | HEnd now f => d_cur s = true -> forall e, d_dead s = Some e -> f_end_tht f = e
  | _ => True
  end.

Definition dpost (s : dst) (x : hitem) : dst :=
  match x with
  | HCall (CallTransmit _ _ _) => mkD (d_kind s) (d_dead s) true
  | HCall _ => s
  | HEnd now f =>
      let k' := kind_of (f_state f) in
      mkD k' (if in_visit k' then (if in_visit (d_kind s) then (if fresh_visit (f_state f) then None else if d_cur s then Some (f_end_tht f) else d_dead s) else None) else None)
          false
  | HReset => mkD KOffline None false
  end.

Definition dst_init : dst := mkD KOffline None false.

Lemma classic_asks (calls : list call) : (exists i hp r, In (CallTransmit i hp r) calls) \/ ~ (exists i hp r, In (CallTransmit i hp r) calls).
Proof.
  induction calls as [|c l IH].
  - right. intros [i [hp [r []]]].
  - destruct c as [i hp r|i a t|i a].
    + left. exists i, hp, r. left. reflexivity.
    + destruct IH as [[j [hp [r H]]]|H]; [left; exists j, hp, r; right; exact H|right].
      intros [j [hp [r [C|C]]]]; [discriminate C|apply H; exists j, hp, r; exact C].
    + destruct IH as [[j [hp [r H]]]|H]; [left; exists j, hp, r; right; exact H|right].
      intros [j [hp [r [C|C]]]]; [discriminate C|apply H; exists j, hp, r; exact C].
Qed.

Section Apps.
Variable A : Type.
Variable ops : app_ops A.
Notation W := (world A).

(* ------------------------------------------------------------------------------------------ *)
(* Part 1: do_use_token                                                                        *)

Lemma apps_transmit_loop_state : forall k f now (w : W) hp f' w' d tk fa fcd,
  apps_transmit_loop A ops k f now w hp = Ok (f', w', d) -> f_state f = UseToken tk fa fcd ->
  keeph f f' /\
  ((exists fa', f_state f' = UseToken tk fa' fcd) \/ (d = true /\ exists a fa', f_state f' = AwaitDataResponse a tk fa')).
Proof.
  induction k as [|k IH]; intros f now w hp f' w' d tk fa fcd H Es; cbn [apps_transmit_loop] in H.
  - injection H as <- <- <-. split; [apply keeph_refl|left; exists fa; exact Es].
  - destruct (nth_error (w_apps w) (f_next_app f)) as [app|]; [|discriminate H].
    destruct (app_transmit_telegram A ops f now w (f_next_app f) app hp) as [[[f1 w1] d1]| |] eqn:Ea; cbn [bind] in H; try discriminate H.
    apply app_transmit_spec in Ea. destruct Ea as [app' [r [_ [_ [_ [Hk1 Hr]]]]]].
    apply keepf_keeph in Hk1.
    destruct r as [[wire [da|]]|].
    + destruct Hr as [-> [tk' [fa' [fcd' [Es' Es1]]]]]. rewrite Es in Es'. injection Es' as <- <- <-.
      injection H as <- <- <-. split; [exact Hk1|right; split; [reflexivity|exists da, fa; exact Es1]].
    + destruct Hr as [-> Es1]. injection H as <- <- <-. split; [exact Hk1|left; exists fa; rewrite Es1; exact Es].
    + destruct Hr as [-> Es1].
      destruct (schedule_next_application f1 _) as [[f2 completed]| |] eqn:Esch; cbn [bind] in H; try discriminate H.
      apply schedule_next_spec in Esch. destruct Esch as [tk2 [fa2 [fcd2 [Es2 [_ Hsch]]]]]. cbn zeta in Hsch.
      rewrite Es1, Es in Es2. injection Es2 as <- <- <-. destruct Hsch as [Est2 [_ [_ Kh2]]].
      destruct completed.
      * injection H as <- <- <-. split; [eapply keeph_trans; eassumption|left; eexists; exact Est2].
      * apply (IH _ _ _ _ _ _ _ _ _ _ H) in Est2. destruct Est2 as [Kh3 Hst].
        split; [eapply keeph_trans; [exact Hk1|eapply keeph_trans; eassumption]|exact Hst].
Qed.

Lemma inst_add_ok a b e : inst_add a b = Ok e -> e = a + b.
Proof. unfold inst_add. destruct (i64_ok _); [|discriminate]. intros H. injection H as <-. reflexivity. Qed.
Lemma inst_sub_dur_ok a b e : inst_sub_dur a b = Ok e -> e = a - b.
Proof. unfold inst_sub_dur. destruct (i64_ok _); [|discriminate]. intros H. injection H as <-. reflexivity. Qed.

(* The deadline of the visit as coded: computed once per visit, at the first do_use_token of the visit
   (recognised by last_token_time <> token_time), as previous token time + TTR - GAP reserve; and
   what state do_use_token leaves. *)
Lemma do_use_token_head_state f now (w : W) f' w' tk fa fcd :
  do_use_token_head A ops f now w = Ok (f', w') -> f_state f = UseToken tk fa fcd ->
  f_p f' = f_p f /\
  (if f_last_token_time f =? tk
   then f_last_token_time f' = f_last_token_time f /\ f_end_tht f' = f_end_tht f
   else f_last_token_time f' = tk /\
        f_end_tht f' = f_last_token_time f + token_rotation_time (f_p f) - gap_reserve f) /\
  ((f_state f' = f_state f /\ w_calls w' = w_calls w) \/
   (exists fa', f_state f' = UseToken tk fa' true) \/
   (exists a fa', f_state f' = AwaitDataResponse a tk fa') \/
   f_state f' = PassToken true first_attempt).
Proof.
  unfold do_use_token_head, assert_entry. intros H Es. rewrite Es in H.
  cbn [f_state kind_of do_fn_entry state_kind_eqb bind get_use_token] in H.
  match type of H with bind ?x _ = _ => destruct x as [[f1 w1]| |] eqn:E1 end; cbn [bind] in H; try discriminate H.
  assert (H1 : f_p f1 = f_p f /\ f_state f1 = f_state f /\ w_calls w1 = w_calls w /\
               (if f_last_token_time f =? tk
                then f_last_token_time f1 = f_last_token_time f /\ f_end_tht f1 = f_end_tht f
                else f_last_token_time f1 = tk /\
                     f_end_tht f1 = f_last_token_time f + token_rotation_time (f_p f) - gap_reserve f)).
  { unfold gap_reserve. destruct (f_last_token_time f =? tk); cbn [negb] in E1.
    - injection E1 as <- <-. tauto.
    - destruct (inst_add _ _) as [e| |] eqn:Ee; cbn [bind] in E1; try discriminate E1. apply inst_add_ok in Ee.
      destruct (f_gap f).
      + injection E1 as <- <-. cbn. repeat split; try reflexivity. lia.
      + destruct (inst_sub_dur _ _) as [e2| |] eqn:Ee2; cbn [bind] in E1; try discriminate E1. apply inst_sub_dur_ok in Ee2.
        injection E1 as <- <-. cbn. repeat split; try reflexivity. lia. }
  destruct H1 as [Hp1 [Hs1 [Hc1 Hd1]]].
  destruct (wait_synchronization_pause f1 now) as [[f2 wait]| |] eqn:Ew; cbn [bind] in H; try discriminate H.
  apply wait_sync_same in Ew. destruct Ew as [[Hp2 [_ [_ [_ [Hs2 [_ [Hl2 [He2 _]]]]]]]] _].
  assert (Hd2 : if f_last_token_time f =? tk
                then f_last_token_time f2 = f_last_token_time f /\ f_end_tht f2 = f_end_tht f
                else f_last_token_time f2 = tk /\
                     f_end_tht f2 = f_last_token_time f + token_rotation_time (f_p f) - gap_reserve f)
    by (rewrite Hl2, He2; exact Hd1).
  assert (Hfin : forall f3, keeph f2 f3 ->
            f_p f3 = f_p f /\
            (if f_last_token_time f =? tk
             then f_last_token_time f3 = f_last_token_time f /\ f_end_tht f3 = f_end_tht f
             else f_last_token_time f3 = tk /\
                  f_end_tht f3 = f_last_token_time f + token_rotation_time (f_p f) - gap_reserve f)).
  { intros f3 [K1 [K2 K3]]. split; [congruence|]. rewrite K2, K3. exact Hd2. }
  destruct wait.
  - injection H as <- <-. destruct (Hfin f2 (keeph_refl _)) as [X Y]. split; [exact X|]. split; [exact Y|].
    left. split; [congruence|exact Hc1].
  - rewrite Hs2, Hs1, Es in H. cbn [get_use_token bind] in H.
    assert (Hround : forall hp tg f3 w3 d,
      (let* f0 := set_first_cycle_done f2 in apps_transmit_telegram A ops f0 now (note A w1 tg) hp) = Ok (f3, w3, d) ->
      (if d then Ok (f3, w3) else trans A f3 w3 (fun s => transition_pass_token s true first_attempt)) = Ok (f', w') ->
      keeph f2 f' /\
      ((exists fa', f_state f' = UseToken tk fa' true) \/ (exists a fa', f_state f' = AwaitDataResponse a tk fa') \/
       f_state f' = PassToken true first_attempt)).
    { intros hp tg f3 w3 d Hr Hf. unfold set_first_cycle_done in Hr. rewrite Hs2, Hs1, Es in Hr. cbn [get_use_token bind] in Hr.
      unfold apps_transmit_telegram in Hr.
      eapply apps_transmit_loop_state in Hr; [|reflexivity]. destruct Hr as [Kh Hst].
      assert (Kh2 : keeph f2 f3) by (eapply keeph_trans; [|exact Kh]; unfold keeph; cbn; tauto).
      destruct d.
      - injection Hf as <- <-. split; [exact Kh2|]. destruct Hst as [Hst|[_ Hst]]; [left; exact Hst|right; left; exact Hst].
      - apply trans_keep in Hf. destruct Hf as [s' [Ht [_ [Hk [_ Hs]]]]].
        unfold transition_pass_token in Ht. destruct (assert_kind _ _); cbn [bind] in Ht; try discriminate Ht. injection Ht as <-.
        split; [eapply keeph_trans; [exact Kh2|apply keepf_keeph; exact Hk]|right; right; exact Hs]. }
    destruct (now <? f_end_tht f2).
    + match type of H with bind ?x _ = _ => destruct x as [[[f3 w3] d]| |] eqn:El end; cbn [bind] in H; try discriminate H.
      destruct (Hround _ _ _ _ _ El H) as [Kh Hst]. destruct (Hfin _ Kh) as [X Y]. split; [exact X|]. split; [exact Y|right; exact Hst].
    + destruct fcd; cbn [negb bind] in H.
      * apply trans_keep in H. destruct H as [s' [Ht [_ [Hk [_ Hs]]]]].
        unfold transition_pass_token in Ht. destruct (assert_kind _ _); cbn [bind] in Ht; try discriminate Ht. injection Ht as <-.
        destruct (Hfin _ (keepf_keeph _ _ Hk)) as [X Y]. split; [exact X|]. split; [exact Y|right; right; right; exact Hs].
      * match type of H with bind ?x _ = _ => destruct x as [[[f3 w3] d]| |] eqn:El end; cbn [bind] in H; try discriminate H.
        destruct (Hround _ _ _ _ _ El H) as [Kh Hst]. destruct (Hfin _ Kh) as [X Y]. split; [exact X|]. split; [exact Y|right; exact Hst].
Qed.

(* the token has been passed on in this poll: what do_pass_token leaves (C15Proofs.do_pass_token_ends) *)
Definition passed_on (now : Z) (s : state) : Prop :=
  pass_kind (kind_of s) = true \/ s = UseToken now None false.

(* the whole do_use_token (F20 repair: the head, then do_pass_token in the same poll when the head turned
   to passing the token): same deadline; the last case is now "the token has been passed on" *)
Lemma do_use_token_state f now (w : W) f' w' tk fa fcd :
  do_use_token A ops f now w = Ok (f', w') -> f_state f = UseToken tk fa fcd ->
  f_p f' = f_p f /\
  (if f_last_token_time f =? tk
   then f_last_token_time f' = f_last_token_time f /\ f_end_tht f' = f_end_tht f
   else f_last_token_time f' = tk /\
        f_end_tht f' = f_last_token_time f + token_rotation_time (f_p f) - gap_reserve f) /\
  ((f_state f' = f_state f /\ w_calls w' = w_calls w) \/
   (exists fa', f_state f' = UseToken tk fa' true) \/
   (exists a fa', f_state f' = AwaitDataResponse a tk fa') \/
   passed_on now (f_state f')).
Proof.
  rewrite do_use_token_split. intros H Es.
  destruct (do_use_token_head A ops f now w) as [[f1 w1]| |] eqn:Eh; cbn [bind] in H; try discriminate H.
  eapply do_use_token_head_state in Eh; [|exact Es]. destruct Eh as [Hp [Hd Hst]].
  destruct (is_pass_token (f_state f1)) eqn:Ek.
  - pose proof (do_pass_token_ends _ _ _ _ _ _ H) as Hends.
    apply do_pass_token_hold in H. destruct H as [Kp [Kl [Ke _]]].
    split; [congruence|]. split; [rewrite Kl, Ke; exact Hd|]. right. right. right. exact Hends.
  - injection H as <- <-. split; [exact Hp|]. split; [exact Hd|].
    destruct Hst as [X|[X|[X|X]]]; [left; exact X|right; left; exact X|right; right; left; exact X|].
    rewrite X in Ek. discriminate Ek.
Qed.

(* ------------------------------------------------------------------------------------------ *)
(* Part 2: one poll, all states                                                                *)

Definition prio_of (hp : bool) (c : call) : Prop :=
  match c with CallTransmit _ hp' _ => hp' = hp | _ => True end.
Definition asks (calls : list call) : Prop := exists i hp r, In (CallTransmit i hp r) calls.

Lemma asks_nil : ~ asks []. Proof. intros [i [hp [r []]]]. Qed.

Lemma transmit_calls_prio hp l : Forall (is_transmit_call hp) l -> Forall (prio_of hp) l.
Proof. apply Forall_impl. intros c [i [r ->]]. reflexivity. Qed.

(* C13_hold_rule for a whole poll, from ANY state: the transmit callbacks of a poll are of one priority
   class; if there are any, then the time is before the deadline of the visit (low-priority round), or
   the deadline has passed, the round asks for high priority only and the visit had not had a round
   yet (first_cycle_done = false when the poll began) *)
Lemma poll_hold_rule f now pin (apps : list A) f' o apps' calls :
  poll ops f now pin apps = Ok (f', o, apps', calls) ->
  exists hp, Forall (prio_of hp) calls /\
    (asks calls ->
     if hp then (exists tk fa, f_state f = UseToken tk fa false) /\ f_end_tht f' <= now
     else now < f_end_tht f').
Proof.
  intros H. apply poll_calls_cases in H.
  destruct H as [[-> _]|[f3 [w3 [w' [Kf3 [Hs3 [Hc3 [Ha3 [-> [_ [Hd|Hd]]]]]]]]]]].
  - exists false. split; [constructor|]. intros [i [hp [r []]]].
  - apply do_use_token_hold_rule in Hd. destruct Hd as [l [hp [Hl [Hf Hrule]]]]. rewrite Hc3 in Hl. cbn in Hl.
    exists hp. rewrite Hl. split; [apply transmit_calls_prio; exact Hf|].
    intros [i [hp' [r Hin]]]. rewrite Hs3 in Hrule. apply Hrule. intros ->. contradiction.
  - apply do_await_data_response_split in Hd.
    destruct Hd as [a' [tk [fa [app [Es [En Hcases]]]]]].
    destruct Hcases as [[t' [app' [Hok [_ [Hc _]]]]]|[[[Hw _] _]|[[[Hw _] _]|[app' [f4 [w4 [_ [Hc4 [_ [_ [Es4 Hdo]]]]]]]]]]].
    + exists false. rewrite Hc, Hc3. split; [constructor; [exact I|constructor]|].
      intros [i [hp [r [C|[]]]]]. discriminate C.
    + exists false. rewrite Hw, Hc3. split; [constructor|]. intros [i [hp [r []]]].
    + exists false. rewrite Hw, Hc3. split; [constructor|]. intros [i [hp [r []]]].
    + apply do_use_token_hold_rule in Hdo. destruct Hdo as [l [hp [Hl [Hf Hrule]]]]. rewrite Hc4, Hc3 in Hl. cbn in Hl.
      rewrite Hl. destruct l as [|c l].
      * exists false. split; [constructor; [exact I|constructor]|]. intros [i [hp' [r [C|[]]]]]. discriminate C.
      * specialize (Hrule ltac:(discriminate)). destruct hp.
        -- destruct Hrule as [[tk' [fa' C]] _]. rewrite Es4 in C. discriminate C.
        -- exists false. split; [constructor; [exact I|apply transmit_calls_prio; exact Hf]|]. intros _. exact Hrule.
Qed.

(* how a poll moves the station inside a visit *)
Definition visit_step (now : Z) (f : fdl) (calls : list call) (f' : fdl) : Prop :=
  exists tk,
    ((exists fa fcd, f_state f = UseToken tk fa fcd) \/ (exists a fa, f_state f = AwaitDataResponse a tk fa)) /\
    ((f_state f' = f_state f /\ calls = []) \/
     (f_state f' = ActiveIdle None None 0 /\ calls = [] /\ exists a fa, f_state f = AwaitDataResponse a tk fa) \/
     (exists fa', f_state f' = UseToken tk fa' true) \/
     (exists a fa', f_state f' = AwaitDataResponse a tk fa') \/
     passed_on now (f_state f')) /\
    (* the deadline of the visit: kept once last_token_time is the token time of the visit, which it is
       as soon as applications have been asked *)
    (f_last_token_time f = tk -> f_last_token_time f' = tk /\ f_end_tht f' = f_end_tht f) /\
    (asks calls -> f_last_token_time f' = tk).

Lemma poll_state_cases f now pin (apps : list A) f' o apps' calls :
  poll ops f now pin apps = Ok (f', o, apps', calls) ->
  (calls = [] /\ quiet_poll now f f') \/ visit_step now f calls f'.
Proof.
  intros H. apply poll_calls_cases in H.
  destruct H as [[-> [_ Hq]]|[f3 [w3 [w' [Kf3 [Hs3 [Hc3 [Ha3 [-> [_ [Hd|Hd]]]]]]]]]]].
  - left. split; [reflexivity|exact Hq].
  - right. assert (Hd' := Hd). unfold do_use_token, assert_entry in Hd'.
    destruct (f_state f3) as [ | | | |tk fa fcd| | | | | ] eqn:Es3; cbn [kind_of do_fn_entry state_kind_eqb bind] in Hd'; try discriminate Hd'.
    clear Hd'. eapply do_use_token_state in Hd; [|exact Es3]. destruct Hd as [_ [Hdl Hst]].
    destruct Kf3 as [_ [_ [Kl Ke]]]. rewrite Kl, Ke in Hdl.
    exists tk. split; [left; exists fa, fcd; congruence|]. split; [|split].
    + destruct Hst as [[E1 E2]|[E|[E|E]]]; [left; split; congruence|right; right; left; exact E|right; right; right; left; exact E|right; right; right; right; exact E].
    + intros El. rewrite El, Z.eqb_refl in Hdl. destruct Hdl as [D1 D2]. split; congruence.
    + intros _. destruct (Z.eqb_spec (f_last_token_time f) tk) as [El|El]; destruct Hdl as [D1 D2]; congruence.
  - right. apply do_await_data_response_split in Hd.
    destruct Hd as [a [tk [fa [app [Es [En Hcases]]]]]].
    destruct Kf3 as [_ [_ [Kl Ke]]].
    exists tk. split; [right; exists a, fa; congruence|].
    destruct Hcases as [[t' [app' [Hok [_ [Hc [_ [Kf Es']]]]]]]|[[[Hw _] [Kf Es']]|[[[Hw _] [Kf Es']]|[app' [f4 [w4 [_ [Hc4 [_ [Kf4 [Es4 Hdo]]]]]]]]]]].
    + split; [right; right; left; exists fa; exact Es'|]. destruct Kf as [_ [_ [Kl' Ke']]].
      split; [intros El; split; congruence|]. rewrite Hc, Hc3. intros [i [hp [r [C|[]]]]]. discriminate C.
    + split; [right; left; split; [exact Es'|]; split; [congruence|]; exists a, fa; congruence|]. destruct Kf as [_ [_ [Kl' Ke']]].
      split; [intros El; split; congruence|]. rewrite Hw, Hc3. intros C. destruct (asks_nil C).
    + split; [left; split; congruence|]. destruct Kf as [_ [_ [Kl' Ke']]].
      split; [intros El; split; congruence|]. rewrite Hw, Hc3. intros C. destruct (asks_nil C).
    + eapply do_use_token_state in Hdo; [|exact Es4]. destruct Hdo as [_ [Hdl Hst]].
      destruct Kf4 as [_ [_ [Kl4 Ke4]]]. rewrite Kl4, Ke4, Kl, Ke in Hdl.
      split; [|split].
      * destruct Hst as [[E1 E2]|[E|[E|E]]].
        -- right; right; left. exists fa. congruence.
        -- right; right; left. exact E.
        -- right; right; right; left. exact E.
        -- right; right; right; right. exact E.
      * intros El. rewrite El, Z.eqb_refl in Hdl. destruct Hdl as [D1 D2]. split; congruence.
      * intros _. destruct (Z.eqb_spec (f_last_token_time f) tk) as [El|El]; destruct Hdl as [D1 D2]; congruence.
Qed.

(* ------------------------------------------------------------------------------------------ *)
(* Part 3: histories                                                                           *)

(* the lift by induction, for any monitor with a one-step preservation lemma *)
Lemma run_invariant (S : Type) (pre : S -> hitem -> Prop) (post : S -> hitem -> S) (J : fdl -> S -> Prop) :
  (forall f apps e f' apps' h m, J f m -> step A ops f apps e = Ok (f', apps', h) ->
     accepts pre post m h /\ J f' (posts post m h)) ->
  forall evs f apps m f' apps' h, J f m -> run A ops f apps evs = Ok (f', apps', h) ->
     accepts pre post m h /\ J f' (posts post m h).
Proof.
  intros Hstep. induction evs as [|e tl IH]; intros f apps m f' apps' h HI H; cbn [run] in H.
  - injection H as <- _ <-. split; [exact I|exact HI].
  - destruct (step A ops f apps e) as [[[f1 apps1] h1]| |] eqn:Es; cbn [bind] in H; try discriminate H.
    destruct (run A ops f1 apps1 tl) as [[[f2 apps2] h2]| |] eqn:Er; cbn [bind] in H; try discriminate H.
    injection H as <- _ <-.
    destruct (Hstep _ _ _ _ _ _ _ HI Es) as [A1 I1]. destruct (IH _ _ _ _ _ _ I1 Er) as [A2 I2].
    split; [apply accepts_app; split; assumption|rewrite posts_app; exact I2].
Qed.

(* ---- the hold rule over histories ---- *)
Definition InvH (f : fdl) (s : hst) : Prop :=
  h_kind s = kind_of (f_state f) /\ h_lp s = false /\ h_hp s = false /\
  match f_state f with UseToken _ _ fcd => h_asked s = true -> fcd = true | _ => True end.

Lemma hcalls_low : forall l s, Forall (prio_of false) l -> h_hp s = false ->
  accepts hpre hpost s (map HCall l) /\
  let s' := posts hpost s (map HCall l) in
  h_hp s' = false /\ h_kind s' = h_kind s /\ h_asked s' = h_asked s /\ (h_lp s' = true -> h_lp s = true \/ asks l).
Proof.
  induction l as [|c l IH]; intros s Hf Hh; cbn.
  - split; [exact I|]. tauto.
  - inversion Hf as [|c' l' Hc Hl]; subst.
    destruct c as [i hp r|i a t|i a]; cbn in Hc.
    + subst hp. destruct (IH (mkH (h_kind s) (h_asked s) true (h_hp s)) Hl Hh) as [Ha [H1 [H2 [H3 H4]]]].
      split; [split; [exact Hh|exact Ha]|]. split; [exact H1|]. split; [exact H2|]. split; [exact H3|].
      intros _. right. exists i, false, r. left. reflexivity.
    + destruct (IH s Hl Hh) as [Ha [H1 [H2 [H3 H4]]]]. split; [split; [exact I|exact Ha]|].
      split; [exact H1|]. split; [exact H2|]. split; [exact H3|]. intros X. destruct (H4 X) as [Y|[j [hp [r Y]]]]; [left; exact Y|].
      right. exists j, hp, r. right. exact Y.
    + destruct (IH s Hl Hh) as [Ha [H1 [H2 [H3 H4]]]]. split; [split; [exact I|exact Ha]|].
      split; [exact H1|]. split; [exact H2|]. split; [exact H3|]. intros X. destruct (H4 X) as [Y|[j [hp [r Y]]]]; [left; exact Y|].
      right. exists j, hp, r. right. exact Y.
Qed.

Lemma hcalls_high : forall l s, Forall (prio_of true) l -> h_lp s = false -> h_asked s = false ->
  accepts hpre hpost s (map HCall l) /\
  let s' := posts hpost s (map HCall l) in
  h_lp s' = false /\ h_kind s' = h_kind s /\ h_asked s' = h_asked s /\ (h_hp s' = true -> h_hp s = true \/ asks l).
Proof.
  induction l as [|c l IH]; intros s Hf Hl0 Ha0; cbn.
  - split; [exact I|]. tauto.
  - inversion Hf as [|c' l' Hc Hl]; subst.
    destruct c as [i hp r|i a t|i a]; cbn in Hc.
    + subst hp. destruct (IH (mkH (h_kind s) (h_asked s) (h_lp s) true) Hl Hl0 Ha0) as [Ha [H1 [H2 [H3 H4]]]].
      split; [split; [split; assumption|exact Ha]|]. split; [exact H1|]. split; [exact H2|]. split; [exact H3|].
      intros _. right. exists i, true, r. left. reflexivity.
    + destruct (IH s Hl Hl0 Ha0) as [Ha [H1 [H2 [H3 H4]]]]. split; [split; [exact I|exact Ha]|].
      split; [exact H1|]. split; [exact H2|]. split; [exact H3|]. intros X. destruct (H4 X) as [Y|[j [hp [r Y]]]]; [left; exact Y|].
      right. exists j, hp, r. right. exact Y.
    + destruct (IH s Hl Hl0 Ha0) as [Ha [H1 [H2 [H3 H4]]]]. split; [split; [exact I|exact Ha]|].
      split; [exact H1|]. split; [exact H2|]. split; [exact H3|]. intros X. destruct (H4 X) as [Y|[j [hp [r Y]]]]; [left; exact Y|].
      right. exists j, hp, r. right. exact Y.
Qed.


Lemma quiet_poll_visit now f f' :
  quiet_poll now f f' -> in_visit (kind_of (f_state f)) = true -> in_visit (kind_of (f_state f')) = true ->
  f_state f' = f_state f.
Proof.
  intros [_ [R|[_ [s3 [Hp [Hq Hv]]]]]] Hin Hin'.
  - destruct R as [R _]. rewrite R in Hin'. discriminate Hin'.
  - destruct Hp as [->|[C _]]; [|rewrite C in Hin; discriminate Hin]. exact (Hv Hin).
Qed.

Lemma step_hold f apps e f' apps' h s :
  InvH f s -> step A ops f apps e = Ok (f', apps', h) ->
  accepts hpre hpost s h /\ InvH f' (posts hpost s h).
Proof.
  intros [Hk [Hlp [Hhp Hfcd]]] H. destruct e as [now pin| | |g]; cbn [step] in H.
  - destruct (poll ops f now pin apps) as [[[[f1 o1] a1] calls]| |] eqn:Ep; cbn [bind] in H; try discriminate H.
    injection H as <- _ <-.
    destruct (poll_hold_rule _ _ _ _ _ _ _ _ Ep) as [hp [Hprio Hrule]].
    pose proof (poll_state_cases _ _ _ _ _ _ _ _ Ep) as Hcases.
    (* the calls *)
    assert (Hcalls : accepts hpre hpost s (map HCall calls) /\
              let s' := posts hpost s (map HCall calls) in
              h_kind s' = h_kind s /\ h_asked s' = h_asked s /\
              (h_lp s' = true -> now < f_end_tht f1) /\ (h_hp s' = true -> f_end_tht f1 <= now) /\
              (h_lp s' = true \/ h_hp s' = true -> asks calls)).
    { destruct hp.
      - destruct (classic_asks calls) as [Hasks|Hno].
        + destruct (Hrule Hasks) as [[tk [fa Es]] Hend]. rewrite Es in Hfcd.
          assert (Hasked : h_asked s = false) by (destruct (h_asked s); [specialize (Hfcd eq_refl); discriminate Hfcd|reflexivity]).
          destruct (hcalls_high calls s Hprio Hlp Hasked) as [Ha [H1 [H2 [H3 H4]]]].
          split; [exact Ha|]. cbn zeta in *. split; [exact H2|]. split; [exact H3|].
          split; [rewrite H1; discriminate|]. split; [intros _; exact Hend|]. intros _. exact Hasks.
        + assert (Hlow : Forall (prio_of false) calls).
          { apply Forall_forall. intros c Hin. destruct c as [i hp r|i a t|i a]; try exact I.
            exfalso. apply Hno. exists i, hp, r. exact Hin. }
          destruct (hcalls_low calls s Hlow Hhp) as [Ha [H1 [H2 [H3 H4]]]].
          split; [exact Ha|]. cbn zeta in *. split; [exact H2|]. split; [exact H3|].
          split; [intros X; destruct (H4 X) as [Y|Y]; [congruence|contradiction]|].
          split; [rewrite H1; discriminate|]. intros [X|X]; [destruct (H4 X) as [Y|Y]; [congruence|contradiction]|congruence].
      - destruct (hcalls_low calls s Hprio Hhp) as [Ha [H1 [H2 [H3 H4]]]].
        split; [exact Ha|]. cbn zeta in *. split; [exact H2|]. split; [exact H3|].
        split; [intros X; destruct (H4 X) as [Y|Y]; [congruence|exact (Hrule Y)]|].
        split; [rewrite H1; discriminate|]. intros [X|X]; [destruct (H4 X) as [Y|Y]; [congruence|exact Y]|congruence]. }
    destruct Hcalls as [Hacc Hpost]. cbn zeta in Hpost. destruct Hpost as [P1 [P2 [P3 [P4 P5]]]].
    set (s1 := posts hpost s (map HCall calls)) in *.
    split.
    + apply accepts_app. split; [exact Hacc|]. cbn. fold s1. split; [split; assumption|exact I].
    + rewrite posts_app. fold s1. cbn. unfold InvH. cbn. split; [reflexivity|]. split; [reflexivity|]. split; [reflexivity|].
      destruct (f_state f1) as [ | | | |tk1 fa1 fcd1| | | | | ] eqn:Es1; try exact I. cbn.
      rewrite P1, P2, Hk. destruct (in_visit (kind_of (f_state f))) eqn:Hin; [|discriminate].
      intros Hor0.
      assert (Hor : h_asked s || h_lp s1 || h_hp s1 = true).
      { destruct fa1; [exact Hor0|]. destruct fcd1; [exact Hor0|discriminate Hor0]. }
      destruct Hcases as [[Hnil Hq]|[tk [Hfrom [Hto _]]]].
      * (* no calls: the state is unchanged *)
        assert (Es : f_state f1 = f_state f) by (apply (quiet_poll_visit _ _ _ Hq Hin); rewrite Es1; reflexivity).
        rewrite Es1 in Es. rewrite <- Es in Hfcd. apply Hfcd.
        destruct (h_asked s); [reflexivity|]. cbn in Hor. exfalso. apply asks_nil. rewrite <- Hnil. apply P5.
        destruct (h_lp s1); [left; reflexivity|right; exact Hor].
      * destruct Hto as [[E1 E2]|[[E1 _]|[[fa' E1]|[[a [fa' E1]]|E1]]]]; rewrite Es1 in E1; try discriminate E1.
        -- rewrite <- E1 in Hfcd. apply Hfcd. destruct (h_asked s); [reflexivity|]. cbn in Hor. exfalso. apply asks_nil. rewrite <- E2. apply P5.
           destruct (h_lp s1); [left; reflexivity|right; exact Hor].
        -- injection E1 as _ _ ->. reflexivity.
        -- (* the next visit of a station that passed the token to itself: nobody has been asked *)
           destruct E1 as [E1|E1]; [discriminate E1|]. injection E1 as _ -> ->. discriminate Hor0.
  - unfold set_online, set_state in H. cbn [bind] in H. injection H as <- _ <-.
    split; [exact I|]. unfold InvH. cbn. tauto.
  - unfold set_offline, set_state in H. destruct (fdl_new (f_p f)) as [f1| |] eqn:En; cbn [bind] in H; try discriminate H.
    injection H as <- _ <-. apply fdl_new_spec in En. destruct En as [[Rs _] _].
    split; [split; exact I|]. unfold InvH. cbn. rewrite Rs. cbn. tauto.
  - injection H as <- _ <-. split; [exact I|]. unfold InvH. tauto.
Qed.

(* ---- one GAP request per visit ---- *)
Definition InvG (f : fdl) (s : gst) : Prop :=
  g_kind s = kind_of (f_state f) /\
  (in_visit (kind_of (f_state f)) = true -> g_gaps s = 0%nat) /\
  (forall att, f_state f = PassToken true att -> g_gaps s = 0%nat).

Lemma gcalls : forall l s, accepts gpre gpost s (map HCall l) /\ posts gpost s (map HCall l) = s.
Proof. induction l as [|c l IH]; intros s; cbn; [tauto|]. destruct (IH s) as [H1 H2]. split; [split; [exact I|exact H1]|exact H2]. Qed.

Lemma step_gap f apps e f' apps' h s :
  InvG f s -> step A ops f apps e = Ok (f', apps', h) ->
  accepts gpre gpost s h /\ InvG f' (posts gpost s h).
Proof.
  intros [Hk [Hvis Hpt]] H. destruct e as [now pin| | |g]; cbn [step] in H.
  - destruct (poll ops f now pin apps) as [[[[f1 o1] a1] calls]| |] eqn:Ep; cbn [bind] in H; try discriminate H.
    injection H as <- _ <-.
    pose proof (poll_state_cases _ _ _ _ _ _ _ _ Ep) as Hcases.
    destruct (gcalls calls s) as [Hacc Hsame].
    (* where the new state can come from *)
    assert (Hfrom : (forall a, f_state f1 = AwaitStatusResponse a ->
                       f_state f = f_state f1 \/ (exists att, f_state f = PassToken true att) \/
                       in_visit (kind_of (f_state f)) = true) /\
                    (forall att, f_state f1 = PassToken true att ->
                       f_state f = f_state f1 \/ in_visit (kind_of (f_state f)) = true)).
    { destruct Hcases as [[_ [_ [R|[_ [s3 [Hp [Hq _]]]]]]]|[tk [Hfr [Hto _]]]].
      - destruct R as [R _]. split; intros x E; rewrite R in E; discriminate E.
      - split.
        + intros a E. rewrite E in Hq. cbn in Hq. destruct Hq as [Hq|[att Hq]].
          * destruct Hp as [Hp|[_ [Hp|Hp]]]; [left; congruence|congruence|congruence].
          * destruct Hp as [Hp|[_ [Hp|Hp]]]; [right; left; exists att; congruence|congruence|congruence].
        + intros att E. rewrite E in Hq. cbn in Hq.
          destruct Hp as [Hp|[_ [Hp|Hp]]]; [left; congruence|congruence|congruence].
      - assert (Hin : in_visit (kind_of (f_state f)) = true)
          by (destruct Hfr as [[fa [fcd ->]]|[a [fa ->]]]; reflexivity).
        split.
        + intros a E. destruct Hto as [[E1 _]|[[E1 _]|[[fa' E1]|[[a' [fa' E1]]|E1]]]]; rewrite E in E1; try discriminate E1.
          * left. congruence.
          * right. right. exact Hin.
        + intros att E. right. exact Hin. }
    destruct Hfrom as [Hasr Hpass].
    split.
    + apply accepts_app. split; [exact Hacc|]. rewrite Hsame. cbn. split; [|exact I].
      intros Ek Hne. destruct (f_state f1) as [ | | | | | | | | |a] eqn:Es1; try discriminate Ek.
      destruct (Hasr a eq_refl) as [E|[[att E]|Hin]].
      * exfalso. apply Hne. rewrite Hk, E. reflexivity.
      * split; [left; rewrite Hk, E; reflexivity|exact (Hpt _ E)].
      * split; [right; rewrite Hk; exact Hin|exact (Hvis Hin)].
    + rewrite posts_app, Hsame. cbn. unfold InvG. cbn. split; [reflexivity|].
      split; [intros ->; reflexivity|].
      intros att E. rewrite E. cbn. destruct (Hpass att E) as [E'|Hin].
      * apply (Hpt att). congruence.
      * exact (Hvis Hin).
  - unfold set_online, set_state in H. cbn [bind] in H. injection H as <- _ <-.
    split; [exact I|]. unfold InvG. cbn. tauto.
  - unfold set_offline, set_state in H. destruct (fdl_new (f_p f)) as [f1| |] eqn:En; cbn [bind] in H; try discriminate H.
    injection H as <- _ <-. apply fdl_new_spec in En. destruct En as [[Rs _] _].
    split; [split; exact I|]. unfold InvG. cbn. rewrite Rs. cbn. split; [reflexivity|]. split; [discriminate|discriminate].
  - injection H as <- _ <-. split; [exact I|]. unfold InvG. tauto.
Qed.

(* ---- one deadline per visit ---- *)
Definition InvD (f : fdl) (s : dst) : Prop :=
  d_kind s = kind_of (f_state f) /\ d_cur s = false /\
  forall e, d_dead s = Some e ->
    match f_state f with
    | UseToken tk _ _ | AwaitDataResponse _ tk _ => f_last_token_time f = tk /\ f_end_tht f = e
    | _ => False
    end.

Lemma dcalls : forall l s, accepts dpre dpost s (map HCall l) /\
  let s' := posts dpost s (map HCall l) in
  d_kind s' = d_kind s /\ d_dead s' = d_dead s /\ (d_cur s' = true -> d_cur s = true \/ asks l).
Proof.
  induction l as [|c l IH]; intros s; cbn; [tauto|].
  destruct c as [i hp r|i a t|i a].
  - destruct (IH (mkD (d_kind s) (d_dead s) true)) as [Ha [H1 [H2 H3]]]. split; [split; [exact I|exact Ha]|].
    split; [exact H1|]. split; [exact H2|]. intros _. right. exists i, hp, r. left. reflexivity.
  - destruct (IH s) as [Ha [H1 [H2 H3]]]. split; [split; [exact I|exact Ha]|]. split; [exact H1|]. split; [exact H2|].
    intros X. destruct (H3 X) as [Y|[j [hp [r Y]]]]; [left; exact Y|right; exists j, hp, r; right; exact Y].
  - destruct (IH s) as [Ha [H1 [H2 H3]]]. split; [split; [exact I|exact Ha]|]. split; [exact H1|]. split; [exact H2|].
    intros X. destruct (H3 X) as [Y|[j [hp [r Y]]]]; [left; exact Y|right; exists j, hp, r; right; exact Y].
Qed.

Lemma step_dead f apps e f' apps' h s :
  InvD f s -> step A ops f apps e = Ok (f', apps', h) ->
  accepts dpre dpost s h /\ InvD f' (posts dpost s h).
Proof.
  intros [Hk [Hcur Hdead]] H. destruct e as [now pin| | |g]; cbn [step] in H.
  - destruct (poll ops f now pin apps) as [[[[f1 o1] a1] calls]| |] eqn:Ep; cbn [bind] in H; try discriminate H.
    injection H as <- _ <-.
    pose proof (poll_state_cases _ _ _ _ _ _ _ _ Ep) as Hcases.
    destruct (dcalls calls s) as [Hacc [P1 [P2 P3]]]. cbn zeta in *.
    set (s1 := posts dpost s (map HCall calls)) in *.
    assert (Hasks : d_cur s1 = true -> asks calls) by (intros X; destruct (P3 X) as [Y|Y]; [congruence|exact Y]).
    destruct Hcases as [[Hnil Hq]|[tk [Hfrom [Hto [D1 D2]]]]].
    + (* no calls *)
      assert (Hc1 : d_cur s1 = false).
      { destruct (d_cur s1) eqn:Ec; [|reflexivity]. exfalso. apply asks_nil. rewrite <- Hnil. exact (Hasks eq_refl). }
      split.
      * apply accepts_app. split; [exact Hacc|]. cbn. fold s1. split; [|exact I]. rewrite Hc1. discriminate.
      * rewrite posts_app. fold s1. cbn. unfold InvD. cbn. split; [reflexivity|]. split; [reflexivity|].
        rewrite P1, P2, Hc1, Hk. intros e0 He0.
        destruct (in_visit (kind_of (f_state f1))) eqn:Hin1; [|discriminate He0].
        destruct (in_visit (kind_of (f_state f))) eqn:Hin; [|discriminate He0].
        destruct (fresh_visit (f_state f1)); [discriminate He0|].
        pose proof (quiet_poll_visit _ _ _ Hq Hin Hin1) as Es. rewrite Es. specialize (Hdead _ He0).
        destruct Hq as [_ [[R _]|[[_ [_ [Kl Ke]]] _]]]; [rewrite R in Hin1; discriminate Hin1|].
        rewrite Kl, Ke. exact Hdead.
    + (* a poll inside a visit with token time tk *)
      assert (Htk : forall e0, d_dead s = Some e0 -> f_last_token_time f = tk /\ f_end_tht f = e0).
      { intros e0 He0. specialize (Hdead _ He0).
        destruct Hfrom as [[fa [fcd Es]]|[a [fa Es]]]; rewrite Es in Hdead; exact Hdead. }
      split.
      * apply accepts_app. split; [exact Hacc|]. cbn. fold s1. split; [|exact I].
        intros _ e0 He0. rewrite P2 in He0. destruct (Htk _ He0) as [T1 T2]. destruct (D1 T1) as [_ E]. congruence.
      * rewrite posts_app. fold s1. cbn. unfold InvD. cbn. split; [reflexivity|]. split; [reflexivity|].
        rewrite P1, P2, Hk. intros e0 He0.
        assert (Hin : in_visit (kind_of (f_state f)) = true) by (destruct Hfrom as [[fa [fcd ->]]|[a [fa ->]]]; reflexivity).
        rewrite Hin in He0.
        assert (Hgoal : f_last_token_time f1 = tk /\ f_end_tht f1 = e0).
        { destruct (in_visit (kind_of (f_state f1))); [|discriminate He0].
          destruct (fresh_visit (f_state f1)); [discriminate He0|].
          destruct (d_cur s1) eqn:Ec.
          - injection He0 as <-. split; [exact (D2 (Hasks eq_refl))|reflexivity].
          - destruct (Htk _ He0) as [T1 T2]. destruct (D1 T1) as [X Y]. split; congruence. }
        destruct Hto as [[E1 _]|[[E1 _]|[[fa' E1]|[[a [fa' E1]]|E1]]]].
        -- rewrite E1. destruct Hfrom as [[fa [fcd ->]]|[a [fa ->]]]; exact Hgoal.
        -- rewrite E1 in He0. discriminate He0.
        -- rewrite E1. exact Hgoal.
        -- rewrite E1. exact Hgoal.
        -- destruct E1 as [E1|E1].
           ++ destruct (f_state f1); try discriminate E1; discriminate He0.
           ++ rewrite E1 in He0. discriminate He0.
  - unfold set_online, set_state in H. cbn [bind] in H. injection H as <- _ <-.
    split; [exact I|]. unfold InvD. cbn. tauto.
  - unfold set_offline, set_state in H. destruct (fdl_new (f_p f)) as [f1| |] eqn:En; cbn [bind] in H; try discriminate H.
    injection H as <- _ <-. apply fdl_new_spec in En. destruct En as [[Rs _] _].
    split; [split; exact I|]. unfold InvD. cbn. rewrite Rs. cbn. split; [reflexivity|]. split; [reflexivity|discriminate].
  - injection H as <- _ <-. split; [exact I|]. unfold InvD. tauto.
Qed.

Lemma InvD_init p f : fdl_new p = Ok f -> InvD f dst_init.
Proof.
  intros H. apply fdl_new_spec in H. destruct H as [[Rs _] _]. unfold InvD. rewrite Rs. cbn.
  split; [reflexivity|]. split; [reflexivity|discriminate].
Qed.

Theorem deadline_constant_history p f0 (apps : list A) evs f apps' h :
  fdl_new p = Ok f0 -> run A ops f0 apps evs = Ok (f, apps', h) -> accepts dpre dpost dst_init h.
Proof.
  intros Hn Hr. exact (proj1 (run_invariant dst dpre dpost InvD step_dead _ _ _ _ _ _ _ (InvD_init _ _ Hn) Hr)).
Qed.

(* ---- the history theorems ---- *)
Lemma InvH_init p f : fdl_new p = Ok f -> InvH f hst_init.
Proof. intros H. apply fdl_new_spec in H. destruct H as [[Rs _] _]. unfold InvH. rewrite Rs. cbn. tauto. Qed.
Lemma InvG_init p f : fdl_new p = Ok f -> InvG f gst_init.
Proof.
  intros H. apply fdl_new_spec in H. destruct H as [[Rs _] _]. unfold InvG. rewrite Rs. cbn.
  split; [reflexivity|]. split; [discriminate|discriminate].
Qed.

Theorem visit_bounded_history p f0 (apps : list A) evs f apps' h :
  fdl_new p = Ok f0 -> run A ops f0 apps evs = Ok (f, apps', h) -> accepts hpre hpost hst_init h.
Proof.
  intros Hn Hr. exact (proj1 (run_invariant hst hpre hpost InvH step_hold _ _ _ _ _ _ _ (InvH_init _ _ Hn) Hr)).
Qed.

Theorem visit_bounded_from_inv f s (apps : list A) evs f' apps' h :
  InvH f s -> run A ops f apps evs = Ok (f', apps', h) -> accepts hpre hpost s h /\ InvH f' (posts hpost s h).
Proof. intros HI Hr. exact (run_invariant hst hpre hpost InvH step_hold _ _ _ _ _ _ _ HI Hr). Qed.

Theorem one_gap_poll_history p f0 (apps : list A) evs f apps' h :
  fdl_new p = Ok f0 -> run A ops f0 apps evs = Ok (f, apps', h) -> accepts gpre gpost gst_init h.
Proof.
  intros Hn Hr. exact (proj1 (run_invariant gst gpre gpost InvG step_gap _ _ _ _ _ _ _ (InvG_init _ _ Hn) Hr)).
Qed.

End Apps.

(* ------------------------------------------------------------------------------------------ *)
(* Part 4: from token visits to the abstract rotation bound                                    *)

(* One token visit of one station on a common time line.  The fields are what the theorems above speak
   about: vi_prev = last_token_time when the visit begins (the token time of the station's previous
   visit), vi_arrival = token_time of the visit, vi_end_tht = the deadline do_use_token computes for the
   visit (do_use_token_state), vi_rounds = the polls of the visit in which applications were asked, as
   (time of the poll, high_prio_only), in order - the polls in which the monitor of C13_visit_bounded
   sets h_lp / h_hp; vi_release = the time the last message cycle of the visit is over (or, without any,
   the time the station turns to passing the token); vi_next = arrival of the token at the next station. *)
Record visit : Set := mkVisit {
  vi_prev : Z; vi_arrival : Z; vi_end_tht : Z;
  vi_rounds : list (Z * bool);
  vi_release : Z; vi_next : Z }.

(* exactly the conclusion of C13_hold_rule / C13_visit_bounded, per round: a normal round starts before
   the deadline; a high-priority-only round starts after it and is the first round of the visit *)
Definition hold_ok (v : visit) : Prop :=
  forall j now hp, nth_error (vi_rounds v) j = Some (now, hp) ->
    if hp : bool then j = 0%nat /\ vi_end_tht v <= now else now < vi_end_tht v.

(* the deadline as coded: previous token time + TTR - GAP reserve, reserve >= 0 *)
Definition deadline_ok (TTR : Z) (v : visit) : Prop := vi_end_tht v <= vi_prev v + TTR.

(* C bounds one message cycle: from the start of a round to the end of its last cycle; and from the
   arrival of the token to the end of the guaranteed first round / to the decision to pass when nobody
   wants to send.  O bounds the hand-over (GAP poll, token telegram, retries, idle times). *)
Definition timing_ok (C O : Z) (v : visit) : Prop :=
  vi_arrival v <= vi_release v /\
  match rev (vi_rounds v) with
  | [] => vi_release v <= vi_arrival v + C
  | (now, hp) :: _ => vi_release v <= (if hp : bool then vi_arrival v else now) + C
  end /\
  0 <= vi_next v - vi_release v <= O.

Definition visit_ok (TTR C O : Z) (v : visit) : Prop :=
  hold_ok v /\ deadline_ok TTR v /\ timing_ok C O v.

(* the token time line of a stable ring of N stations: visit v is at station v mod N *)
Definition ring_run (N : nat) (V : nat -> visit) : Prop :=
  (forall v, vi_arrival (V (S v)) = vi_next (V v)) /\
  (forall v, (N <= v)%nat -> vi_prev (V v) = vi_arrival (V (v - N)%nat)).

Definition trace_of (N : nat) (V : nat -> visit) : rotation_trace :=
  mkTrace N (fun v => vi_arrival (V v))
            (fun v => vi_release (V v) - vi_arrival (V v))
            (fun v => vi_next (V v) - vi_release (V v)).

Lemma hold_inequality TTR C O v : visit_ok TTR C O v -> 0 <= C ->
  vi_release v - vi_arrival v <= Z.max 0 (TTR - (vi_arrival v - vi_prev v)) + C.
Proof.
  intros [Hh [Hd [Ha [Hc _]]]] HC. unfold deadline_ok in Hd.
  destruct (rev (vi_rounds v)) as [|[now hp] tl] eqn:Er.
  - lia.
  - assert (Hlast : nth_error (vi_rounds v) (length tl) = Some (now, hp)).
    { assert (E : vi_rounds v = rev tl ++ [(now, hp)]) by (rewrite <- (rev_involutive (vi_rounds v)), Er; reflexivity).
      rewrite E, nth_error_app2 by (rewrite rev_length; lia). rewrite rev_length, Nat.sub_diag. reflexivity. }
    specialize (Hh _ _ _ Hlast). destruct hp; lia.
Qed.

Lemma trace_of_wf N V C O TTR : (1 <= N)%nat -> ring_run N V -> (forall v, visit_ok TTR C O (V v)) ->
  trace_wf (trace_of N V).
Proof.
  intros HN [Hchain _] Hok. split; [exact HN|]. intros v. cbn.
  destruct (Hok v) as [_ [_ [Ha [_ Ho]]]]. rewrite Hchain. lia.
Qed.

Lemma trace_of_obeys N V C O TTR : ring_run N V -> (forall v, visit_ok TTR C O (V v)) -> 0 <= C ->
  obeys_hold_rule (trace_of N V) TTR C O.
Proof.
  intros [_ Hprev] Hok HC v Hv. cbn in *. split.
  - rewrite <- (Hprev v Hv). apply (hold_inequality TTR C O); [apply Hok|exact HC].
  - destruct (Hok v) as [_ [_ [_ [_ Ho]]]]. lia.
Qed.

(* C13_rotation_bound_conditional *)
Theorem rotation_bound_conditional N V TTR C O :
  (1 <= N)%nat -> ring_run N V -> (forall v, visit_ok TTR C O (V v)) -> 0 <= TTR -> 0 <= C -> 0 <= O ->
  forall v, (N <= v)%nat ->
  vi_arrival (V (v + N)%nat) - vi_arrival (V v) <= TTR + Z.of_nat N * (C + O).
Proof.
  intros HN Hrun Hok HT HC HO v Hv.
  exact (rotation_bound (trace_of N V) TTR C O (trace_of_wf N V C O TTR HN Hrun Hok)
           (trace_of_obeys N V C O TTR Hrun Hok HC) HT HC HO v Hv).
Qed.

(* non-vacuity: three stations, TTR = 100; every visit asks once at arrival + 1 (before the deadline),
   the cycle takes 9 more, the hand-over 1 *)
Definition example_visit (v : nat) : visit :=
  let a := Z.of_nat v * 11 in
  mkVisit (a - 33) a (a - 33 + 100) [(a + 1, false)] (a + 10) (a + 11).

Lemma example_ring_ok : ring_run 3 example_visit /\ forall v, visit_ok 100 10 1 (example_visit v).
Proof.
  split; [split|].
  - intros v. cbn. lia.
  - intros v Hv. cbn. lia.
  - intros v. split; [|split].
    + intros j now hp Hn. cbn in Hn. destruct j as [|j]; [|destruct j; discriminate Hn]. injection Hn as <- <-. cbn. lia.
    + unfold deadline_ok. cbn. lia.
    + unfold timing_ok. cbn. lia.
Qed.

(* the monitor of C13_visit_bounded is not trivially true: a normal round after the deadline, and a
   high-priority-only round after another round of the same visit, are rejected *)
Definition stub_fdl (st : state) (end_tht : Z) : fdl :=
  mkFdl default_params (mkRing [] LasValid 2 2 2) ConnOnline (GapWaiting 0) st None 0 0 end_tht 0.

Lemma hold_rejects_late_round :
  ~ accepts hpre hpost (mkH KUseToken true false false)
      [HCall (CallTransmit 0 false None); HEnd 500 (stub_fdl (PassToken true AttFirst) 400)].
Proof. cbn. intros [_ [[C _] _]]. specialize (C eq_refl). lia. Qed.

Lemma hold_rejects_second_extra_round :
  ~ accepts hpre hpost (mkH KUseToken true false false) [HCall (CallTransmit 0 true None)].
Proof. cbn. intros [[_ C] _]. discriminate C. Qed.

Lemma gap_rejects_second_poll :
  ~ accepts gpre gpost (mkG KPassToken 1) [HEnd 0 (stub_fdl (AwaitStatusResponse 9) 0)].
Proof. cbn. intros [C _]. destruct (C eq_refl ltac:(discriminate)) as [_ C']. discriminate C'. Qed.

Lemma deadline_rejects_change :
  ~ accepts dpre dpost (mkD KUseToken (Some 400) false)
      [HCall (CallTransmit 0 false None); HEnd 100 (stub_fdl (UseToken 0 None true) 900)].
Proof. cbn. intros [_ [C _]]. specialize (C eq_refl 400 eq_refl). discriminate C. Qed.
