From PB Require Import Common Telegram CodecOracle ByteFacts DecodeSpec.

(* ------------------------------------------------------------- function codes *)

Lemma fc_roundtrip fc : fc_from_byte (fc_to_byte fc) = Some fc.
Proof. destruct fc as [f r|st s]; [destruct f, r|destruct st, s]; reflexivity. Qed.

Lemma fc_to_byte_range fc : 0 <= fc_to_byte fc < 256.
Proof. destruct fc as [f r|st s]; [destruct f, r|destruct st, s]; vm_compute; split; congruence. Qed.

Lemma fc_to_byte_inj a b : fc_to_byte a = fc_to_byte b -> a = b.
Proof.
  intros H. pose proof (fc_roundtrip a) as Ha. pose proof (fc_roundtrip b) as Hb.
  rewrite H in Ha. congruence.
Qed.

Lemma fcode_eqb_eq a b : fcode_eqb a b = true <-> a = b.
Proof.
  unfold fcode_eqb. rewrite Z.eqb_eq. split; [apply fc_to_byte_inj|intros ->; reflexivity].
Qed.

(* all 256 bytes: whatever decodes re-encodes to a byte that decodes to the same code, and the
   re-encoded byte is the original one except that bit 7 of a response byte is dropped. *)
Definition fc_all_bytes_check (b : Z) : bool :=
  match fc_from_byte b with
  | None => true
  | Some fc =>
      match fc_from_byte (fc_to_byte fc) with
      | Some fc' => fcode_eqb fc fc'
      | None => false
      end &&
      ((fc_to_byte fc =? b) || ((fc_to_byte fc =? b - 128) && (Z.land b 64 =? 0) && (128 <=? b)))
  end.

Lemma fc_all_bytes b : 0 <= b < 256 -> fc_all_bytes_check b = true.
Proof. apply (sweep256 fc_all_bytes_check). vm_compute. reflexivity. Qed.

Lemma all_fcodes_complete fc : In fc all_fcodes.
Proof. destruct fc as [f r|st s]; [destruct f, r|destruct st, s]; vm_compute; tauto. Qed.

(* ------------------------------------------------------------- transmit buffer writes *)

Lemma put_at w x rest i v : i = length w -> put (w ++ x :: rest) i v = Ok ((w ++ [v]) ++ rest).
Proof.
  intros ->. unfold put. rewrite app_length. cbn [length].
  destruct (Nat.ltb_spec (length w) (length w + S (length rest))) as [_|H]; [|lia].
  rewrite firstn_app_exact by reflexivity.
  replace (S (length w)) with (length (w ++ [x])) by (rewrite app_length; cbn; lia).
  replace (w ++ x :: rest) with ((w ++ [x]) ++ rest) by (rewrite <- app_assoc; reflexivity).
  rewrite skipn_app_exact by reflexivity. rewrite <- app_assoc. reflexivity.
Qed.

Lemma put_all_at vs : forall w rest i, i = length w -> (length vs <= length rest)%nat ->
  put_all (w ++ rest) i vs = Ok ((w ++ vs) ++ skipn (length vs) rest).
Proof.
  induction vs as [|v vs IH]; intros w rest i Hi Hl.
  - cbn. rewrite app_nil_r. reflexivity.
  - destruct rest as [|x rest]; [cbn in Hl; lia|]. cbn [put_all].
    rewrite (put_at w x rest i v Hi). cbn [bind].
    rewrite IH; [|subst; rewrite app_length; cbn; lia|cbn in Hl; lia].
    cbn [length skipn]. rewrite <- !app_assoc. reflexivity.
Qed.

Lemma put_oob buf i v : (length buf <= i)%nat -> put buf i v = Panic SiteIndex.
Proof. intros H. unfold put. destruct (Nat.ltb_spec i (length buf)); [lia|reflexivity]. Qed.

Lemma skipn_cons_nth (l : bytes) i : (i < length l)%nat -> exists x, skipn i l = x :: skipn (S i) l.
Proof.
  revert i. induction l as [|a l IH]; intros i H; [cbn in H; lia|].
  destruct i as [|i]; [exists a; reflexivity|]. cbn [skipn]. apply IH. cbn in H. lia.
Qed.

Lemma put_inv buf0 w i v : i = length w -> (i < length buf0)%nat ->
  put (w ++ skipn i buf0) i v = Ok ((w ++ [v]) ++ skipn (S i) buf0).
Proof.
  intros Hi Hl. destruct (skipn_cons_nth buf0 i Hl) as [x Hx]. rewrite Hx. apply put_at, Hi.
Qed.

Lemma put_all_inv buf0 w i vs : i = length w -> (i + length vs <= length buf0)%nat ->
  put_all (w ++ skipn i buf0) i vs = Ok ((w ++ vs) ++ skipn (i + length vs) buf0).
Proof.
  intros Hi Hl. rewrite put_all_at; [|exact Hi|rewrite skipn_length; lia].
  rewrite skipn_skipn'. reflexivity.
Qed.

Lemma inv_length (buf0 w : bytes) i : i = length w -> (i <= length buf0)%nat ->
  length (w ++ skipn i buf0) = length buf0.
Proof. intros -> H. rewrite app_length, skipn_length. lia. Qed.

(* ------------------------------------------------------------- serialize = frame format *)

Definition wr (buf0 w : bytes) : bytes := w ++ skipn (length w) buf0.

Lemma put_wr buf0 w i v : i = length w -> (i < length buf0)%nat -> put (wr buf0 w) i v = Ok (wr buf0 (w ++ [v])).
Proof.
  intros Hi Hl. unfold wr. rewrite <- Hi. rewrite put_inv by assumption.
  rewrite app_length. cbn [length]. rewrite <- Hi. rewrite Nat.add_1_r. reflexivity.
Qed.

Lemma put_all_wr buf0 w i vs : i = length w -> (i + length vs <= length buf0)%nat ->
  put_all (wr buf0 w) i vs = Ok (wr buf0 (w ++ vs)).
Proof.
  intros Hi Hl. unfold wr. rewrite <- Hi. rewrite put_all_inv by assumption.
  rewrite app_length, <- Hi. reflexivity.
Qed.

Lemma wr_length buf0 w : (length w <= length buf0)%nat -> length (wr buf0 w) = length buf0.
Proof. intros H. unfold wr. apply inv_length; [reflexivity|exact H]. Qed.

Lemma cks_wr buf0 w k n : (k <= length w)%nat -> n = (length w - k)%nat ->
  firstn n (skipn k (wr buf0 w)) = skipn k w.
Proof.
  intros Hk ->. unfold wr. rewrite skipn_app. replace (k - length w)%nat with 0%nat by lia.
  rewrite skipn_O. apply firstn_app_exact. rewrite skipn_length. reflexivity.
Qed.

Ltac len_tac := cbn [length app]; rewrite ?app_length; cbn [length]; lia.

Ltac putstep :=
  match goal with
  | |- context [put (wr ?buf0 ?w) ?i ?v] =>
      rewrite (put_wr buf0 w i v) by len_tac; cbn [bind app Nat.add]
  end.

Ltac kill_ltb :=
  match goal with |- context [Nat.ltb ?a ?b] => destruct (Nat.ltb_spec a b) as [?Hc|_]; [exfalso; lia|] end.
Ltac kill_eqb_true :=
  match goal with |- context [Nat.eqb ?a ?b] => destruct (Nat.eqb_spec a b) as [_|?Hc]; [|exfalso; lia] end.
Ltac kill_eqb_false :=
  match goal with |- context [Nat.eqb ?a ?b] => destruct (Nat.eqb_spec a b) as [?Hc|_]; [exfalso; lia|] end.

Ltac finish_frame :=
  match goal with
  | |- Ok (wr ?b ?w, ?n) = Ok (?f ++ ?R, ?m) =>
      let Hf := fresh "Hf" in
      assert (Hf : w = f);
      [ unfold frame_spec, frame_body; cbn [h_da h_sa h_dsap h_ssap h_fc app length Nat.eqb];
        repeat first [kill_eqb_true | kill_eqb_false];
        cbn [app]; rewrite <- ?app_assoc; cbn [app]; rewrite ?Z.add_0_r; reflexivity
      | rewrite <- Hf; unfold wr; subst R;
        replace n with m by lia;
        do 4 f_equal;
        unfold telegram_len_data, length_byte; cbn [has_sap h_dsap h_ssap orb];
        repeat first [kill_eqb_true | kill_eqb_false]; cbn [orb];
        len_tac ]
  end.

Ltac serialize_case :=
  cbn [orb] in *;
  repeat putstep;
  rewrite wr_length by len_tac;
  kill_ltb;
  rewrite put_all_wr by len_tac; cbn [bind app];
  rewrite cks_wr by len_tac; cbn [skipn];
  repeat putstep;
  kill_eqb_true; cbn [negb];
  rewrite ?lor128, ?Z.lor_0_r by assumption;
  finish_frame.

Lemma serialize_data_spec h pdu buf0 :
  wf_header h -> (length_byte h (length pdu) <= 249)%nat ->
  (telegram_len_data h (length pdu) <= length buf0)%nat ->
  serialize_data h pdu buf0 =
  Ok (frame_spec h pdu ++ skipn (telegram_len_data h (length pdu)) buf0, telegram_len_data h (length pdu)).
Proof.
  intros (Hda & Hsa & _ & _) Hlb Hlen. unfold is_addr7 in *.
  destruct h as [da sa dsap ssap fc]. cbn [h_da h_sa] in *.
  set (R := skipn (telegram_len_data (mkHeader da sa dsap ssap fc) (length pdu)) buf0).
  revert Hlb Hlen.
  unfold serialize_data, telegram_len_data, length_byte. cbn [h_da h_sa h_dsap h_ssap h_fc has_sap].
  destruct dsap as [d|], ssap as [s|]; cbn [has_sap];
  match goal with |- context [(length pdu + ?a + ?b + 3)%nat] =>
     replace (length pdu + a + b + 3)%nat with ((a + b + 3) + length pdu)%nat by lia end;
  cbn [Nat.add Nat.eqb orb]; intros Hlb Hlen;
  change buf0 with (wr buf0 []) at 1.
  - (* dsap + ssap *)
    destruct (Nat.eqb_spec (length pdu) 6) as [E|E].
    + change (SD3 =? SD2) with false. cbv iota. serialize_case.
    + change (SD2 =? SD2) with true. cbv iota. kill_ltb. kill_ltb. serialize_case.
  - destruct (Nat.eqb_spec (length pdu) 7) as [E|E].
    + change (SD3 =? SD2) with false. cbv iota. serialize_case.
    + change (SD2 =? SD2) with true. cbv iota. kill_ltb. kill_ltb. serialize_case.
  - destruct (Nat.eqb_spec (length pdu) 7) as [E|E].
    + change (SD3 =? SD2) with false. cbv iota. serialize_case.
    + change (SD2 =? SD2) with true. cbv iota. kill_ltb. kill_ltb. serialize_case.
  - destruct (Nat.eqb_spec (length pdu) 0) as [E0|E0]; [|destruct (Nat.eqb_spec (length pdu) 8) as [E|E]].
    + change (SD1 =? SD2) with false. cbv iota. serialize_case.
    + change (SD3 =? SD2) with false. cbv iota. serialize_case.
    + change (SD2 =? SD2) with true. cbv iota. kill_ltb. kill_ltb. serialize_case.
Qed.

(* ------------------------------------------------------------- lengths *)

Lemma frame_body_length h pdu : length (frame_body h pdu) = length_byte h (length pdu).
Proof.
  unfold frame_body, length_byte. destruct (h_dsap h), (h_ssap h); cbn [app length has_sap]; rewrite ?app_length; cbn [length]; lia.
Qed.

Lemma frame_spec_length h pdu : length (frame_spec h pdu) = telegram_len_data h (length pdu).
Proof.
  unfold frame_spec, telegram_len_data. rewrite frame_body_length.
  destruct (Nat.eqb (length_byte h (length pdu)) 3); cbn [orb app length]; rewrite ?app_length, ?frame_body_length; cbn [length]; [lia|].
  destruct (Nat.eqb (length_byte h (length pdu)) 11); cbn [app length]; rewrite ?app_length, ?frame_body_length; cbn [length]; lia.
Qed.

Lemma encode_data_in_spec size h pdu :
  wf_header h -> (length_byte h (length pdu) <= 249)%nat -> (telegram_len_data h (length pdu) <= size)%nat ->
  encode_data_in size h pdu = Ok (frame_spec h pdu).
Proof.
  intros Hwf Hlb Hs. unfold encode_data_in.
  rewrite serialize_data_spec; [|exact Hwf|exact Hlb|rewrite repeat_length; exact Hs].
  cbn [bind]. rewrite firstn_app_exact; [reflexivity|]. symmetry. apply frame_spec_length.
Qed.

Lemma encode_oversize size h pdu :
  (249 < length_byte h (length pdu))%nat -> (1 <= size)%nat -> encode_data_in size h pdu = Panic SiteAssertLen.
Proof.
  intros Hlb Hs. unfold encode_data_in, serialize_data.
  destruct (Nat.eqb_spec (length_byte h (length pdu)) 3) as [E|_]; [lia|].
  destruct (Nat.eqb_spec (length_byte h (length pdu)) 11) as [E|_]; [lia|].
  destruct size as [|size]; [lia|]. cbn [repeat].
  assert (PH : forall x t v, put (x :: t) 0 v = Ok (v :: t)) by reflexivity.
  rewrite PH. cbn [bind].
  change (SD2 =? SD2) with true. cbv iota.
  destruct (Nat.ltb_spec 249 (length_byte h (length pdu))) as [_|H]; [reflexivity|lia].
Qed.

(* ------------------------------------------------------------- decode (encode t ++ rest) *)

Lemma land_with_ext a : 0 <= a < 128 ->
  (Z.land (a + 128) 128 =? 0) = false /\ Z.land (a + 128) 127 = a /\ (Z.land (a + 0) 128 =? 0) = true.
Proof.
  intros H.
  pose proof (sweep256 (fun a => implb (a <? 128)
     (negb (Z.land (a + 128) 128 =? 0) && (Z.land (a + 128) 127 =? a) && (Z.land (a + 0) 128 =? 0))) eq_refl a ltac:(lia)) as S.
  cbv beta in S. destruct (Z.ltb_spec a 128) as [_|Hge]; [|lia]. cbn [implb] in S.
  apply andb_prop in S. destruct S as [S S3]. apply andb_prop in S. destruct S as [S1 S2].
  apply negb_true_iff in S1. apply Z.eqb_eq in S2. auto.
Qed.

Ltac delim_eval :=
  repeat match goal with
         | |- context [?a =? ?b] =>
             is_const a; is_const b;
             let v := eval vm_compute in (a =? b) in change (a =? b) with v
         end.

Lemma decode_data_frame h pdu rest :
  wf_header h -> (length_byte h (length pdu) <= 249)%nat ->
  decode (frame_spec h pdu ++ rest) = Ok (Accept (TData h pdu) (telegram_len_data h (length pdu))).
Proof.
  intros (Hda & Hsa & _ & _) Hlb. unfold is_addr7 in *.
  destruct (land_with_ext _ Hda) as (Da1 & Da2 & Da3). destruct (land_with_ext _ Hsa) as (Sa1 & Sa2 & Sa3).
  assert (BODY : forall x bl, decode_body (x :: frame_body h pdu ++ sum8 (frame_body h pdu) :: ED :: rest)
                               (length (frame_body h pdu) - 3) bl = Ok (Accept (TData h pdu) bl)).
  { intros x bl. destruct h as [da sa dsap ssap fc]. unfold frame_body. cbn [h_da h_sa h_dsap h_ssap h_fc] in *.
    set (saps := (match dsap with Some d => [d] | None => [] end) ++ (match ssap with Some s => [s] | None => [] end) ++ pdu).
    cbn [app length]. replace (S (S (S (length saps))) - 3)%nat with (length saps) by lia.
    rewrite decode_body_spec. unfold body_spec. rewrite fc_roundtrip.
    rewrite Z.eqb_refl. change (ED =? ED) with true. cbn [negb].
    subst saps. destruct dsap as [d|], ssap as [s|]; rewrite ?Da1, ?Da2, ?Da3, ?Sa1, ?Sa2, ?Sa3, ?Z.add_0_r; cbn [negb take_sap app]; reflexivity. }
  unfold frame_spec, telegram_len_data. rewrite <- frame_body_length in *.
  pose proof (frame_body_length h pdu) as BL.
  assert (B3 : (3 <= length (frame_body h pdu))%nat) by (rewrite BL; unfold length_byte; lia).
  destruct (Nat.eqb_spec (length (frame_body h pdu)) 3) as [E3|E3]; [|destruct (Nat.eqb_spec (length (frame_body h pdu)) 11) as [E11|E11]]; cbn [orb].
  - (* SD1 *)
    cbn [app]. unfold decode. delim_eval. cbn [orb]. rewrite <- app_assoc. cbn [app].
    rewrite decode_data_spec by (cbn [length]; rewrite app_length; cbn [length]; lia).
    unfold header_spec. specialize (BODY SD1 6%nat). rewrite E3 in BODY. cbn [Nat.sub] in BODY.
    destruct (frame_body h pdu) as [|a [|b [|c [|? ?]]]] eqn:EB; cbn [length] in E3; try lia.
    cbn [app] in *. delim_eval. cbv iota. rewrite BODY. reflexivity.
  - (* SD3 *)
    cbn [app]. unfold decode. delim_eval. cbn [orb]. rewrite <- app_assoc. cbn [app].
    rewrite decode_data_spec by (cbn [length]; rewrite app_length; cbn [length]; lia).
    unfold header_spec. specialize (BODY SD3 14%nat). rewrite E11 in BODY. cbn [Nat.sub] in BODY.
    destruct (frame_body h pdu) as [|a [|b [|c t]]] eqn:EB; cbn [length] in B3; try lia.
    cbn [app] in *. delim_eval. cbv iota. rewrite BODY. rewrite E11. reflexivity.
  - (* SD2 *)
    cbn [app]. unfold decode. delim_eval. cbn [orb]. rewrite <- app_assoc. cbn [app].
    rewrite decode_data_spec by (cbn [length]; rewrite app_length; cbn [length]; lia).
    unfold header_spec. delim_eval. rewrite Z.eqb_refl. cbn [negb].
    destruct (Z.ltb_spec (Z.of_nat (length (frame_body h pdu))) 3) as [H|_]; [lia|].
    cbn [skipn].
    replace (Z.to_nat (Z.of_nat (length (frame_body h pdu)) - 3)) with (length (frame_body h pdu) - 3)%nat by lia.
    rewrite BODY. rewrite Nat2Z.id. reflexivity.
Qed.

Lemma decode_token_frame da sa rest : decode (encode_token da sa ++ rest) = Ok (Accept (TToken da sa) 3).
Proof. unfold encode_token, decode. cbn [app]. delim_eval. reflexivity. Qed.

Lemma decode_sc_frame rest : decode (encode_sc ++ rest) = Ok (Accept TShortConf 1).
Proof. unfold encode_sc, decode. cbn [app]. delim_eval. reflexivity. Qed.

Lemma fc_all_bytes_prop : forall b : Z, 0 <= b < 256 ->
  match fc_from_byte b with
  | None => True
  | Some fc =>
      fc_from_byte (fc_to_byte fc) = Some fc /\
      (fc_to_byte fc = b \/ (fc_to_byte fc = b - 128 /\ Z.land b 64 = 0 /\ 128 <= b))
  end.
Proof.
  intros b Hb. pose proof (fc_all_bytes b Hb) as H. unfold fc_all_bytes_check in H.
  destruct (fc_from_byte b) as [fc|]; [|exact I].
  split; [apply fc_roundtrip|].
  apply andb_prop in H. destruct H as [_ H]. apply orb_prop in H. destruct H as [H|H].
  - left. apply Z.eqb_eq, H.
  - right. apply andb_prop in H. destruct H as [H H3]. apply andb_prop in H. destruct H as [H1 H2].
    rewrite Z.eqb_eq in H1, H2. rewrite Z.leb_le in H3. auto.
Qed.

Lemma standard_delimiters : SD1 = 16 /\ SD2 = 104 /\ SD3 = 162 /\ SD4 = 220 /\ ED = 22 /\ SC = 229.
Proof. repeat split; reflexivity. Qed.
