(* Proofs for C17 (diagnostics decoding, ext-diag buffer, block iteration). *)
From PB Require Import Common Consts DiagTables Diag DiagOracle ByteFacts.

(* ------------------------------------------------------------------ byte facts *)

Lemma shiftr_div h n : 0 <= n -> Z.shiftr h n = h / 2 ^ n.
Proof. intros Hn. apply Z.shiftr_div_pow2, Hn. Qed.

Lemma land63 h : Z.land h 63 = h mod 64.
Proof. change 63 with (Z.ones 6). rewrite Z.land_ones by lia. reflexivity. Qed.

Lemma land31 h : Z.land h 31 = h mod 32.
Proof. change 31 with (Z.ones 5). rewrite Z.land_ones by lia. reflexivity. Qed.

Lemma bit6 b : is_byte b -> negb (Z.land b 64 =? 0) = Z.testbit b 6.
Proof.
  intros H.
  pose proof (sweep256 (fun b => Bool.eqb (negb (Z.land b 64 =? 0)) (Z.testbit b 6)) eq_refl b H) as S.
  cbv beta in S. apply Bool.eqb_prop in S. exact S.
Qed.

Lemma bit7 b : is_byte b -> negb (Z.land b 128 =? 0) = Z.testbit b 7.
Proof.
  intros H.
  pose proof (sweep256 (fun b => Bool.eqb (negb (Z.land b 128 =? 0)) (Z.testbit b 7)) eq_refl b H) as S.
  cbv beta in S. apply Bool.eqb_prop in S. exact S.
Qed.

Lemma chan_error_eqb_sound a b : chan_error_eqb a b = true -> a = b.
Proof.
  destruct a, b; cbn; intros H; try discriminate H; try reflexivity; apply Z.eqb_eq in H; congruence.
Qed.

Lemma chan_error_eqb_refl a : chan_error_eqb a a = true.
Proof. destruct a; cbn; try reflexivity; apply Z.eqb_refl. Qed.

Lemma chan_dtype_eqb_sound a b : chan_dtype_eqb a b = true -> a = b.
Proof. destruct a, b; cbn; intros H; try discriminate H; reflexivity. Qed.

Lemma tables_as_specified b2 : is_byte b2 ->
  chan_dtype_from_bits (b2 / 32) = dtype_spec (b2 / 32) /\
  chan_error_from_code (b2 mod 32) = error_spec (b2 mod 32).
Proof.
  intros H.
  pose proof (sweep256 (fun b => chan_dtype_eqb (chan_dtype_from_bits (b / 32)) (dtype_spec (b / 32)) &&
                                 chan_error_eqb (chan_error_from_code (b mod 32)) (error_spec (b mod 32)))
                       eq_refl b2 H) as S.
  cbv beta in S. apply andb_prop in S. destruct S as [A B].
  split; [apply chan_dtype_eqb_sound, A|apply chan_error_eqb_sound, B].
Qed.

Lemma decode_channel_spec b0 b1 b2 : is_byte b1 -> is_byte b2 -> decode_channel b0 b1 b2 = chan_spec b0 b1 b2.
Proof.
  intros H1 H2. unfold decode_channel, chan_spec, dtype_from_byte2, error_from_byte2,
    chan_module_mask, chan_channel_mask, chan_input_mask, chan_output_mask, chan_dtype_shift, chan_error_mask.
  rewrite !land63, land31, bit6, bit7 by exact H1.
  rewrite shiftr_div by lia. change (2 ^ 5) with 32.
  destruct (tables_as_specified b2 H2) as [-> ->]. reflexivity.
Qed.

Lemma all_bytes_skipn (l : bytes) n : all_bytes l -> all_bytes (skipn n l).
Proof.
  unfold all_bytes. intros H. rewrite <- (firstn_skipn n l) in H. apply Forall_app in H. apply H.
Qed.

Lemma all_bytes_firstn (l : bytes) n : all_bytes l -> all_bytes (firstn n l).
Proof.
  unfold all_bytes. intros H. rewrite <- (firstn_skipn n l) in H. apply Forall_app in H. apply H.
Qed.

Lemma all_bytes_nth (l : bytes) i : all_bytes l -> is_byte (nth i l 0).
Proof.
  intros H. destruct (Nat.lt_ge_cases i (length l)) as [Hi|Hi].
  - unfold all_bytes in H. rewrite Forall_forall in H. apply H, nth_In, Hi.
  - rewrite nth_overflow by exact Hi. unfold is_byte. lia.
Qed.

(* ------------------------------------------------------------------ header *)

Lemma parse_diag_short pdu : (length pdu < 6)%nat -> parse_diag pdu = Ok None.
Proof.
  intros H. unfold parse_diag, diag_min_len. destruct (Nat.ltb_spec (length pdu) 6) as [_|Hge]; [reflexivity|lia].
Qed.

Lemma parse_diag_cons b0 b1 b2 b3 b4 b5 tl :
  parse_diag (b0 :: b1 :: b2 :: b3 :: b4 :: b5 :: tl) =
  Ok (Some (mkDiag (Z.ldiff (b0 + 256 * b1) 1024) (256 * b4 + b5) (if b3 =? 255 then None else Some b3))).
Proof. reflexivity. Qed.

Lemma long_list (pdu : bytes) : (6 <= length pdu)%nat ->
  exists b0 b1 b2 b3 b4 b5 tl, pdu = b0 :: b1 :: b2 :: b3 :: b4 :: b5 :: tl.
Proof.
  intros H. destruct pdu as [|b0 [|b1 [|b2 [|b3 [|b4 [|b5 tl]]]]]]; cbn [length] in H; try lia.
  do 7 eexists. reflexivity.
Qed.

Lemma flags_bytes b0 b1 : is_byte b0 -> is_byte b1 ->
  Z.ldiff (b0 + 256 * b1) 1024 = b0 + 256 * Z.land b1 251.
Proof.
  intros H0 H1.
  assert (S : forallb (fun y => forallb (fun x => Z.ldiff (x + 256 * y) 1024 =? x + 256 * Z.land y 251) range256) range256 = true)
    by (vm_compute; reflexivity).
  pose proof (sweep256 _ S b1 H1) as S1. cbv beta in S1.
  pose proof (sweep256 _ S1 b0 H0) as S0. cbv beta in S0.
  apply Z.eqb_eq, S0.
Qed.

Lemma flags_bit w i : 0 <= i -> i <> 10 -> Z.testbit (Z.ldiff w 1024) i = Z.testbit w i.
Proof.
  intros Hi Hne. rewrite Z.ldiff_spec. change 1024 with (2 ^ 10). rewrite Z.pow2_bits_eqb by lia.
  destruct (Z.eqb_spec 10 i) as [E|_]; [lia|]. cbn [negb]. apply andb_true_r.
Qed.

Lemma flags_bit10 w : Z.testbit (Z.ldiff w 1024) 10 = false.
Proof.
  rewrite Z.ldiff_spec. change 1024 with (2 ^ 10). rewrite Z.pow2_bits_eqb by lia.
  rewrite Z.eqb_refl. cbn [negb]. apply andb_false_r.
Qed.

Lemma land251_range b : is_byte b -> 0 <= Z.land b 251 < 256.
Proof.
  intros H.
  pose proof (sweep256 (fun b => (0 <=? Z.land b 251) && (Z.land b 251 <? 256)) eq_refl b H) as S.
  cbv beta in S. apply andb_prop in S. destruct S as [A B].
  apply Z.leb_le in A. apply Z.ltb_lt in B. lia.
Qed.

Lemma header_faithful : forall pdu, all_bytes pdu ->
  ((length pdu < 6)%nat /\ parse_diag pdu = Ok None) \/
  ((6 <= length pdu)%nat /\ exists d, parse_diag pdu = Ok (Some d) /\
     d_ident d = 256 * nth 4 pdu 0 + nth 5 pdu 0 /\
     d_master d = (if nth 3 pdu 0 =? 255 then None else Some (nth 3 pdu 0)) /\
     (forall i, 0 <= i -> i <> cleared_bit -> Z.testbit (d_flags d) i = Z.testbit (wire_flags pdu) i) /\
     Z.testbit (d_flags d) cleared_bit = false /\
     d_flags d = nth 0 pdu 0 + 256 * Z.land (nth 1 pdu 0) 251 /\
     0 <= d_flags d < 65536).
Proof.
  intros pdu Hb. destruct (Nat.lt_ge_cases (length pdu) 6) as [Hs|Hl].
  - left. split; [exact Hs|]. apply parse_diag_short, Hs.
  - right. split; [exact Hl|].
    pose proof (all_bytes_nth pdu 0 Hb) as B0. pose proof (all_bytes_nth pdu 1 Hb) as B1.
    destruct (long_list pdu Hl) as (b0 & b1 & b2 & b3 & b4 & b5 & tl & ->).
    rewrite parse_diag_cons. eexists. split; [reflexivity|].
    unfold wire_flags, cleared_bit. cbn [nth d_flags d_ident d_master] in *.
    repeat split.
    + intros i Hi Hne. apply flags_bit; assumption.
    + apply flags_bit10.
    + apply flags_bytes; assumption.
    + rewrite flags_bytes by assumption. pose proof (land251_range b1 B1). unfold is_byte in B0. lia.
    + rewrite flags_bytes by assumption. pose proof (land251_range b1 B1). unfold is_byte in B0. lia.
Qed.

(* the boolean oracle accepts exactly what the model computes *)
Lemma testbit_eqb_refl b : Bool.eqb b b = true.
Proof. destruct b; reflexivity. Qed.

Lemma header_oracle : forall pdu r, all_bytes pdu -> parse_diag pdu = Ok r -> c17_header_ok pdu r = true.
Proof.
  intros pdu r Hb Hp. destruct (header_faithful pdu Hb) as [[Hs E]|[Hl (d & E & Hid & Hm & Hbits & H10 & _ & Hr)]];
    rewrite E in Hp; injection Hp as <-; unfold c17_header_ok.
  - apply Nat.ltb_lt, Hs.
  - rewrite Hid, Hm, Z.eqb_refl.
    assert (Ho : forall o, opt_eqb o o = true) by (intros [x|]; cbn; [apply Z.eqb_refl|reflexivity]).
    rewrite Ho, !andb_true_r. apply andb_true_intro. split; [apply Nat.leb_le, Hl|].
    unfold flags_faithfulb. apply andb_true_intro. split.
    + apply andb_true_intro. split; [apply Z.leb_le|apply Z.ltb_lt]; lia.
    + apply forallb_forall. intros i _.
      destruct (Z.eqb_spec (Z.of_nat i) cleared_bit) as [E10|N10].
      * rewrite E10, H10. reflexivity.
      * rewrite Hbits by lia. apply testbit_eqb_refl.
Qed.

(* ------------------------------------------------------------------ buffer *)


Lemma ext_raw_visible e : ext_wf e -> ext_raw e = Ok (ext_visible e).
Proof.
  intros H. unfold ext_raw, ext_visible. destruct (ext_available e); [|reflexivity].
  unfold slice_to. unfold ext_wf in H. destruct (Nat.leb_spec (e_len e) (length (e_buf e))) as [_|C]; [reflexivity|lia].
Qed.

Lemma fill_spec : forall e ext, ext_wf e ->
  exists e' ok, ext_fill e ext = Ok (e', ok) /\ ext_wf e' /\ ext_cap e' = ext_cap e /\
    ok = (Nat.ltb 0 (ext_cap e) && Nat.leb (length ext) (ext_cap e)) /\
    (ok = true -> ext_visible e' = Some ext /\
                  skipn (length ext) (e_buf e') = skipn (length ext) (e_buf e)) /\
    (ok = false -> e' = e).
Proof.
  intros e ext Hwf. unfold ext_fill.
  destruct (Nat.eqb_spec (ext_cap e) 0) as [Z0|NZ].
  - exists e, false. rewrite Z0. repeat split; try assumption; try discriminate; try reflexivity.
  - destruct (Nat.ltb_spec (ext_cap e) (length ext)) as [Big|Fits].
    + exists e, false. repeat split; try assumption; try discriminate.
      destruct (Nat.ltb_spec 0 (ext_cap e)) as [_|C]; [|lia].
      destruct (Nat.leb_spec (length ext) (ext_cap e)) as [C|_]; [lia|reflexivity].
    + unfold slice_to. unfold ext_cap in *. destruct (Nat.leb_spec (length ext) (length (e_buf e))) as [_|C]; [|lia].
      cbn [bind]. eexists _, true. split; [reflexivity|].
      assert (L : length (ext ++ skipn (length ext) (e_buf e)) = length (e_buf e))
        by (rewrite app_length, skipn_length; lia).
      repeat split.
      * unfold ext_wf. cbn [e_len e_buf]. rewrite L. exact Fits.
      * cbn [e_buf]. exact L.
      * destruct (Nat.ltb_spec 0 (length (e_buf e))) as [_|C]; [|lia].
        destruct (Nat.leb_spec (length ext) (length (e_buf e))) as [_|C]; [reflexivity|lia].
      * unfold ext_visible, ext_available, ext_cap. cbn [e_len e_buf]. rewrite L.
        destruct (Nat.eqb_spec (length (e_buf e)) 0) as [C|_]; [lia|]. cbn [negb].
        rewrite firstn_app_exact by reflexivity. reflexivity.
      * cbn [e_buf]. rewrite skipn_app_exact by reflexivity. reflexivity.
      * discriminate.
Qed.

(* ------------------------------------------------------------------ iterator: one step *)

(* what one call of next() does, in terms of the specification functions *)
Definition next_spec (raw : bytes) (cur : nat) : step :=
  match announced (skipn cur raw) with
  | Some n =>
      match decode_block (firstn n (skipn cur raw)) with
      | Some b => Yield (mkL cur n b) (cur + n)
      | None => Stop (length raw)
      end
  | None => Stop (if Nat.leb (length raw) cur then cur else length raw)
  end.

Lemma type_cases h : is_byte h -> h / 64 = 0 \/ h / 64 = 1 \/ h / 64 = 2 \/ h / 64 = 3.
Proof.
  unfold is_byte. intros Hh.
  assert (0 <= h / 64 < 4) by (split; [apply Z.div_pos; lia|apply Z.div_lt_upper_bound; lia]). lia.
Qed.

Lemma sized_step (mk : bytes -> block) (raw : bytes) (cur : nat) h tl n :
  (if true && Nat.eqb n 0 then Ok (Stop (length raw))
   else if Nat.ltb (length (h :: tl)) n then Ok (Stop (length raw))
   else let* d := slice_range (h :: tl) 1 n in Ok (Yield (mkL cur n (mk d)) (cur + n)))
  = Ok (match (if Nat.eqb n 0 then None else if Nat.leb n (length (h :: tl)) then Some n else None) with
        | Some m => Yield (mkL cur m (mk (firstn (m - 1) tl))) (cur + m)
        | None => Stop (length raw)
        end).
Proof.
  cbn [andb]. destruct (Nat.eqb_spec n 0) as [E0|N0]; [reflexivity|].
  destruct (Nat.ltb_spec (length (h :: tl)) n) as [Cut|Fit];
    destruct (Nat.leb_spec n (length (h :: tl))) as [Fit'|Cut']; try lia; [reflexivity|].
  unfold slice_range.
  destruct (Nat.leb_spec 1 n) as [_|C]; [|lia].
  destruct (Nat.leb_spec n (length (h :: tl))) as [_|C]; [|lia].
  cbn [andb skipn bind]. reflexivity.
Qed.

Lemma blk_next_spec raw cur : all_bytes raw -> blk_next_g true raw cur = Ok (next_spec raw cur).
Proof.
  intros Hb. unfold blk_next_g, next_spec.
  destruct (Nat.leb_spec (length raw) cur) as [Hend|Hin].
  - rewrite skipn_all2 by exact Hend. reflexivity.
  - unfold slice_from. destruct (Nat.leb_spec cur (length raw)) as [_|C]; [|lia]. cbn [bind].
    pose proof (all_bytes_skipn raw cur Hb) as Hrem.
    pose proof (skipn_length cur raw) as Hlen.
    destruct (skipn cur raw) as [|h tl] eqn:Erem; [cbn [length] in Hlen; lia|].
    assert (Hh : is_byte h) by (inversion Hrem; assumption).
    assert (Htl : all_bytes tl) by (inversion Hrem; assumption).
    cbn [get nth_error bind].
    unfold blk_type_shift, blk_type_ident, blk_type_channel, blk_type_device, blk_type_reserved,
      blk_len_mask, blk_channel_len.
    rewrite shiftr_div by lia. change (2 ^ 6) with 64. rewrite land63.
    unfold announced.
    destruct (type_cases h Hh) as [T|[T|[T|T]]]; rewrite T; cbn [Z.eqb Pos.eqb orb].
    + (* device *)
      rewrite sized_step.
      destruct (Nat.eqb_spec (Z.to_nat (h mod 64)) 0) as [_|N0]; [reflexivity|].
      destruct (Nat.leb (Z.to_nat (h mod 64)) (length (h :: tl))); [|reflexivity].
      destruct (Z.to_nat (h mod 64)) as [|k]; [congruence|].
      cbn [firstn decode_block Nat.sub]. rewrite T. cbn [Z.eqb]. rewrite Nat.sub_0_r. reflexivity.
    + (* identifier *)
      rewrite sized_step.
      destruct (Nat.eqb_spec (Z.to_nat (h mod 64)) 0) as [_|N0]; [reflexivity|].
      destruct (Nat.leb (Z.to_nat (h mod 64)) (length (h :: tl))); [|reflexivity].
      destruct (Z.to_nat (h mod 64)) as [|k]; [congruence|].
      cbn [firstn decode_block Nat.sub]. rewrite T. cbn [Z.eqb Pos.eqb]. rewrite Nat.sub_0_r. reflexivity.
    + (* channel *)
      destruct tl as [|b1 [|b2 tl']]; [reflexivity|reflexivity|].
      assert (H1 : is_byte b1) by (inversion Htl; assumption).
      assert (H2 : is_byte b2) by (inversion Htl as [|? ? ? Htl2]; inversion Htl2; assumption).
      cbn [length Nat.ltb Nat.leb get nth_error bind firstn decode_block].
      rewrite T. cbn [Z.eqb Pos.eqb]. rewrite decode_channel_spec by assumption. reflexivity.
    + (* reserved *)
      reflexivity.
Qed.

Lemma announced_bounds rem n : announced rem = Some n -> (1 <= n <= length rem)%nat.
Proof.
  unfold announced. destruct rem as [|h tl]; [discriminate|].
  destruct (h / 64 =? 2).
  - destruct (Nat.leb_spec 3 (length (h :: tl))) as [L|_]; [|discriminate]. intros E. injection E as <-. lia.
  - destruct ((h / 64 =? 0) || (h / 64 =? 1)); [|discriminate].
    destruct (Nat.eqb_spec (Z.to_nat (h mod 64)) 0) as [_|N0]; [discriminate|].
    destruct (Nat.leb_spec (Z.to_nat (h mod 64)) (length (h :: tl))) as [L|_]; [|discriminate].
    intros E. injection E as <-. lia.
Qed.

Lemma announced_decodes rem n : announced rem = Some n -> exists b, decode_block (firstn n rem) = Some b.
Proof.
  intros Ha. pose proof (announced_bounds rem n Ha) as Hn. revert Ha.
  unfold announced. destruct rem as [|h tl]; [discriminate|].
  destruct (Z.eqb_spec (h / 64) 2) as [T2|N2].
  - destruct (Nat.leb_spec 3 (length (h :: tl))) as [L|_]; [|discriminate]. intros E. injection E as <-.
    destruct tl as [|b1 [|b2 tl']]; cbn [length] in L; try lia.
    cbn [firstn decode_block]. rewrite T2. cbn [Z.eqb Pos.eqb]. eexists. reflexivity.
  - destruct (Z.eqb_spec (h / 64) 0) as [T0|N0]; cbn [orb].
    + intros _. destruct n as [|k]; [lia|]. cbn [firstn decode_block]. rewrite T0. cbn [Z.eqb]. eexists. reflexivity.
    + destruct (Z.eqb_spec (h / 64) 1) as [T1|N1]; [|discriminate].
      intros _. destruct n as [|k]; [lia|]. cbn [firstn decode_block]. rewrite T1. cbn [Z.eqb Pos.eqb]. eexists. reflexivity.
Qed.

(* ------------------------------------------------------------------ iterator: the whole iteration *)

Lemma blocks_tile_gen : forall fuel raw cur bs, all_bytes raw ->
  blocks_from_g true raw cur fuel = Ok bs -> tiles raw cur bs.
Proof.
  induction fuel as [|f IH]; intros raw cur bs Hb Hr; cbn [blocks_from_g] in Hr; [discriminate|].
  rewrite blk_next_spec in Hr by exact Hb. cbn [bind] in Hr. unfold next_spec in Hr.
  destruct (announced (skipn cur raw)) as [n|] eqn:Ea.
  - destruct (announced_decodes _ _ Ea) as [b Ed]. rewrite Ed in Hr.
    destruct (blocks_from_g true raw (cur + n) f) as [r| |] eqn:Er; cbn [bind] in Hr; try discriminate.
    injection Hr as <-. cbn [tiles l_off l_len l_blk].
    pose proof (announced_bounds _ _ Ea) as Hn. rewrite skipn_length in Hn.
    repeat split; try assumption; try lia.
    apply IH; assumption.
  - injection Hr as <-. cbn [tiles]. exact Ea.
Qed.

Lemma blocks_total_gen : forall fuel raw cur, all_bytes raw -> (length raw - cur < fuel)%nat ->
  exists bs, blocks_from_g true raw cur fuel = Ok bs /\ (length bs <= length raw - cur)%nat.
Proof.
  induction fuel as [|f IH]; intros raw cur Hb Hf; [lia|].
  cbn [blocks_from_g]. rewrite blk_next_spec by exact Hb. cbn [bind]. unfold next_spec.
  destruct (announced (skipn cur raw)) as [n|] eqn:Ea.
  - destruct (announced_decodes _ _ Ea) as [b Ed]. rewrite Ed.
    pose proof (announced_bounds _ _ Ea) as Hn. rewrite skipn_length in Hn.
    destruct (IH raw (cur + n)%nat Hb ltac:(lia)) as (r & Er & Hl). rewrite Er. cbn [bind].
    eexists. split; [reflexivity|]. cbn [length]. lia.
  - eexists. split; [reflexivity|]. cbn [length]. lia.
Qed.

(* the generated constant says that the code has the length-0 guard *)
Lemma blocks_guarded raw fuel : blocks raw fuel = blocks_from_g true raw 0 fuel.
Proof. reflexivity. Qed.

Lemma iter_total : forall raw fuel, all_bytes raw -> (length raw < fuel)%nat ->
  exists bs, blocks raw fuel = Ok bs /\ (length bs <= length raw)%nat.
Proof.
  intros raw fuel Hb Hf. rewrite blocks_guarded.
  destruct (blocks_total_gen fuel raw 0 Hb ltac:(lia)) as (bs & E & L). exists bs. split; [exact E|lia].
Qed.

Lemma blocks_tile : forall raw fuel bs, all_bytes raw -> blocks raw fuel = Ok bs -> tiles raw 0 bs.
Proof. intros raw fuel bs Hb Hr. rewrite blocks_guarded in Hr. eapply blocks_tile_gen; eassumption. Qed.

Lemma tiles_unique : forall raw bs1 bs2 off, tiles raw off bs1 -> tiles raw off bs2 -> bs1 = bs2.
Proof.
  intros raw. induction bs1 as [|b1 r1 IH]; intros [|b2 r2] off H1 H2; cbn [tiles] in *.
  - reflexivity.
  - destruct H2 as (_ & A & _). congruence.
  - destruct H1 as (_ & A & _). congruence.
  - destruct H1 as (O1 & A1 & _ & _ & D1 & T1). destruct H2 as (O2 & A2 & _ & _ & D2 & T2).
    assert (L : l_len b1 = l_len b2) by congruence.
    rewrite <- L in *. assert (B : l_blk b1 = l_blk b2) by congruence.
    f_equal.
    + destruct b1 as [o1 n1 k1], b2 as [o2 n2 k2]; cbn [l_off l_len l_blk] in *; subst; reflexivity.
    + eapply IH; eassumption.
Qed.

(* the result does not depend on the fuel once it suffices *)
Lemma blocks_fuel_irrelevant : forall raw f1 f2 bs1 bs2, all_bytes raw ->
  blocks raw f1 = Ok bs1 -> blocks raw f2 = Ok bs2 -> bs1 = bs2.
Proof.
  intros raw f1 f2 bs1 bs2 Hb H1 H2. eapply tiles_unique; eapply blocks_tile; eassumption.
Qed.

(* every yielded block, explicitly *)
Lemma skipn_cons_nth (l : bytes) : forall o h tl, skipn o l = h :: tl -> nth o l 0 = h /\ skipn (S o) l = tl.
Proof.
  induction l as [|x l IH]; intros o h tl E.
  - rewrite skipn_nil in E. discriminate.
  - destruct o as [|o].
    + cbn [skipn] in E. injection E as -> ->. split; reflexivity.
    + cbn [skipn nth] in *. apply IH, E.
Qed.

Lemma tiles_in : forall raw bs off b, tiles raw off bs -> In b bs ->
  (off <= l_off b)%nat /\ (1 <= l_len b)%nat /\ (l_off b + l_len b <= length raw)%nat /\
  announced (skipn (l_off b) raw) = Some (l_len b) /\
  decode_block (firstn (l_len b) (skipn (l_off b) raw)) = Some (l_blk b).
Proof.
  intros raw. induction bs as [|x r IH]; intros off b Ht Hin; [destruct Hin|].
  cbn [tiles] in Ht. destruct Ht as (O & A & L1 & L2 & D & T). destruct Hin as [->|Hin].
  - rewrite O. repeat split; try assumption; lia.
  - destruct (IH _ _ T Hin) as (P & Q). split; [lia|exact Q].
Qed.


Lemma block_decode : forall raw fuel bs b, all_bytes raw -> blocks raw fuel = Ok bs -> In b bs ->
  (l_off b + l_len b <= length raw)%nat /\ block_explicit raw b.
Proof.
  intros raw fuel bs b Hb Hr Hin.
  destruct (tiles_in raw bs 0 b (blocks_tile raw fuel bs Hb Hr) Hin) as (_ & L1 & L2 & A & D).
  split; [exact L2|]. unfold block_explicit.
  destruct (skipn (l_off b) raw) as [|h tl] eqn:Es; [discriminate|].
  destruct (skipn_cons_nth raw _ _ _ Es) as [Hh Htl]. rewrite Hh.
  pose proof (all_bytes_skipn raw (l_off b) Hb) as Hrem. rewrite Es in Hrem.
  assert (Hhb : is_byte h) by (inversion Hrem; assumption).
  unfold announced in A.
  destruct (type_cases h Hhb) as [T|[T|[T|T]]]; rewrite T in A; cbn [Z.eqb Pos.eqb orb] in A.
  - destruct (Nat.eqb (Z.to_nat (h mod 64)) 0); [discriminate|].
    destruct (Nat.leb (Z.to_nat (h mod 64)) (length (h :: tl))); [|discriminate].
    injection A as A. destruct (l_len b) as [|k]; [lia|].
    cbn [firstn decode_block] in D. rewrite T in D. cbn [Z.eqb] in D. injection D as D.
    rewrite <- D. cbn [Nat.sub]. rewrite Nat.sub_0_r, Htl. repeat split; congruence.
  - destruct (Nat.eqb (Z.to_nat (h mod 64)) 0); [discriminate|].
    destruct (Nat.leb (Z.to_nat (h mod 64)) (length (h :: tl))); [|discriminate].
    injection A as A. destruct (l_len b) as [|k]; [lia|].
    cbn [firstn decode_block] in D. rewrite T in D. cbn [Z.eqb Pos.eqb] in D. injection D as D.
    rewrite <- D. cbn [Nat.sub]. rewrite Nat.sub_0_r, Htl. repeat split; congruence.
  - destruct (Nat.leb_spec 3 (length (h :: tl))) as [L|_]; [|discriminate].
    injection A as A. rewrite <- A in D.
    destruct tl as [|b1 [|b2 tl']]; cbn [length] in L; try lia.
    cbn [firstn decode_block] in D. rewrite T in D. cbn [Z.eqb Pos.eqb] in D. injection D as D.
    rewrite <- D.
    assert (E1 : nth (l_off b + 1) raw 0 = b1).
    { destruct (skipn_cons_nth raw (S (l_off b)) b1 (b2 :: tl') Htl) as [X _]. rewrite Nat.add_1_r. exact X. }
    assert (E2 : nth (l_off b + 2) raw 0 = b2).
    { destruct (skipn_cons_nth raw (S (l_off b)) b1 (b2 :: tl') Htl) as [_ Y].
      destruct (skipn_cons_nth raw (S (S (l_off b))) b2 tl' Y) as [X _].
      replace (l_off b + 2)%nat with (S (S (l_off b))) by lia. exact X. }
    rewrite E1, E2. repeat split; congruence.
  - discriminate.
Qed.

(* ------------------------------------------------------------------ channel byte decoding *)

Definition dtype_okb (t : Z) (d : chan_dtype) : bool :=
  if (1 <=? t) && (t <=? 6) then chan_dtype_disc d =? t else chan_dtype_eqb d DtInvalid.

Definition error_okb (e : Z) (x : chan_error) : bool :=
  (chan_error_to_byte2 x =? e) &&
  (if (1 <=? e) && (e <=? 9) then opt_eqb (chan_error_disc x) (Some e)
   else if 16 <=? e then chan_error_eqb x (CeVendor e) else chan_error_eqb x (CeReserved e)).

Lemma dtype_okb_sound t d : dtype_okb t d = true -> dtype_as_specified t d.
Proof.
  unfold dtype_okb, dtype_as_specified. destruct ((1 <=? t) && (t <=? 6)); intros H.
  - apply Z.eqb_eq, H.
  - apply chan_dtype_eqb_sound, H.
Qed.

Lemma error_okb_sound e x : error_okb e x = true -> error_as_specified e x.
Proof.
  unfold error_okb, error_as_specified. intros H. apply andb_prop in H. destruct H as [A B]. split.
  - apply Z.eqb_eq, A.
  - destruct ((1 <=? e) && (e <=? 9)).
    + destruct (chan_error_disc x) as [v|]; cbn [opt_eqb] in B; [|discriminate]. apply Z.eqb_eq in B. congruence.
    + destruct (16 <=? e); apply chan_error_eqb_sound, B.
Qed.

Definition byte2_okb (b2 : Z) : bool :=
  dtype_okb (b2 / 32) (dtype_spec (b2 / 32)) &&
  error_okb (b2 mod 32) (error_spec (b2 mod 32)) &&
  (if b2 <? 32 then true
   else Z.lor (chan_error_to_byte2 (error_spec (b2 mod 32)))
              (chan_dtype_to_byte2 (dtype_spec (b2 / 32))) =? b2).

Lemma byte2_sweep b2 : is_byte b2 -> byte2_okb b2 = true.
Proof. intros H. exact (sweep256 byte2_okb eq_refl b2 H). Qed.

Lemma channel_decode : forall b0 b1 b2, is_byte b0 -> is_byte b1 -> is_byte b2 ->
  let c := decode_channel b0 b1 b2 in
  c_module c = b0 mod 64 /\ c_channel c = b1 mod 64 /\
  c_input c = Z.testbit b1 6 /\ c_output c = Z.testbit b1 7 /\
  dtype_as_specified (b2 / 32) (c_dtype c) /\
  error_as_specified (b2 mod 32) (c_error c) /\
  (32 <= b2 -> Z.lor (chan_error_to_byte2 (c_error c)) (chan_dtype_to_byte2 (c_dtype c)) = b2).
Proof.
  intros b0 b1 b2 H0 H1 H2. cbv zeta. rewrite decode_channel_spec by assumption.
  unfold chan_spec. cbn [c_module c_channel c_input c_output c_dtype c_error].
  pose proof (byte2_sweep b2 H2) as S. unfold byte2_okb in S.
  apply andb_prop in S. destruct S as [S R]. apply andb_prop in S. destruct S as [D E].
  repeat split; try reflexivity.
  - apply dtype_okb_sound, D.
  - apply (error_okb_sound _ _ E).
  - apply (error_okb_sound _ _ E).
  - intros Hge. destruct (Z.ltb_spec b2 32) as [C|_]; [lia|]. apply Z.eqb_eq, R.
Qed.

Lemma ident_ones_spec d i :
  In i (ident_ones d) <->
  (i < 8 * length d)%nat /\ Z.testbit (nth (i / 8) d 0) (Z.of_nat (i mod 8)) = true.
Proof.
  unfold ident_ones. rewrite filter_In, in_seq. split; intros [A B]; split; try assumption; lia.
Qed.

(* ------------------------------------------------------------------ the oracle accepts the model *)

Lemma bytes_eqb_refl l : bytes_eqb l l = true.
Proof. induction l as [|x l IH]; cbn [bytes_eqb]; [reflexivity|]. rewrite Z.eqb_refl, IH. reflexivity. Qed.

Lemma block_eqb_refl b : block_eqb b b = true.
Proof.
  destruct b as [d|c|d]; cbn [block_eqb]; try apply bytes_eqb_refl.
  unfold chan_eqb, chan_dtype_eqb. rewrite !Z.eqb_refl, !testbit_eqb_refl, chan_error_eqb_refl. reflexivity.
Qed.

Lemma tiles_tilesb : forall raw bs off, tiles raw off bs -> tilesb raw off (map l_blk bs) = true.
Proof.
  intros raw. induction bs as [|b r IH]; intros off H; cbn [tiles map tilesb] in *.
  - rewrite H. reflexivity.
  - destruct H as (O & A & _ & _ & D & T). rewrite A, D, block_eqb_refl. cbn [andb]. apply IH, T.
Qed.

Lemma tiles_oracle : forall raw fuel bs, all_bytes raw -> blocks raw fuel = Ok bs ->
  c17_tiles_ok raw (map l_blk bs) = true.
Proof. intros raw fuel bs Hb Hr. apply tiles_tilesb. eapply blocks_tile; eassumption. Qed.

(* ------------------------------------------------------------------ container level *)


Lemma ext_blocks_available e : ext_ok e -> ext_available e = true ->
  exists bs, ext_blocks e = Ok bs /\ tiles (firstn (e_len e) (e_buf e)) 0 bs /\ (length bs <= e_len e)%nat.
Proof.
  intros [Hwf Hb] Ha. unfold ext_blocks. rewrite ext_raw_visible by exact Hwf.
  unfold ext_visible. rewrite Ha. cbn [bind].
  pose proof (all_bytes_firstn (e_buf e) (e_len e) Hb) as Hr.
  destruct (iter_total _ (S (length (firstn (e_len e) (e_buf e)))) Hr ltac:(lia)) as (bs & E & L).
  exists bs. split; [exact E|]. split; [eapply blocks_tile; eassumption|].
  rewrite firstn_length_le in L by exact Hwf. exact L.
Qed.

(* iterating a container without buffer: next() unwraps raw_diag_buffer() = None *)
Lemma ext_blocks_unavailable e : ext_available e = false -> ext_blocks e = Panic SiteUnwrap.
Proof. intros Ha. unfold ext_blocks, ext_raw. rewrite Ha. reflexivity. Qed.

Lemma ext_debug_total e : ext_ok e -> ext_debug e = Ok tt.
Proof.
  intros Hok. unfold ext_debug. destruct (ext_available e) eqn:Ha; [|reflexivity].
  destruct (ext_blocks_available e Hok Ha) as (bs & E & _). rewrite E. reflexivity.
Qed.

Lemma fill_ok_preserved e ext e' ok : ext_ok e -> all_bytes ext -> ext_fill e ext = Ok (e', ok) -> ext_ok e'.
Proof.
  intros [Hwf Hb] He Hf. destruct (fill_spec e ext Hwf) as (e2 & ok2 & E & Hwf2 & _ & _ & _ & Hno).
  rewrite E in Hf. injection Hf as <- <-. split; [exact Hwf2|].
  revert E. unfold ext_fill.
  destruct (Nat.eqb (ext_cap e) 0); [intros E; injection E as <- _; exact Hb|].
  destruct (Nat.ltb (ext_cap e) (length ext)); [intros E; injection E as <- _; exact Hb|].
  destruct (slice_to (e_buf e) (length ext)); cbn [bind]; intros E; try discriminate.
  injection E as <- _. cbn [e_buf]. apply Forall_app. split; [exact He|apply all_bytes_skipn, Hb].
Qed.

(* ------------------------------------------------------------------ a reply to Slave_Diag *)


Lemma ext_flag_bit x y : is_byte x -> is_byte y -> flag_set (x + 256 * y) 8 = Z.testbit x 3.
Proof.
  intros Hx Hy. unfold flag_set.
  assert (S : forallb (fun y => forallb (fun x => Bool.eqb (Z.land (x + 256 * y) 8 =? 8) (Z.testbit x 3)) range256) range256 = true)
    by (vm_compute; reflexivity).
  pose proof (sweep256 _ S y Hy) as S1. cbv beta in S1.
  pose proof (sweep256 _ S1 x Hx) as S0. cbv beta in S0.
  apply Bool.eqb_prop, S0.
Qed.

Lemma diag_eqb_refl d : diag_eqb d d = true.
Proof.
  destruct d as [d|]; cbn [diag_eqb]; [|reflexivity]. rewrite !Z.eqb_refl.
  destruct (d_master d); cbn [opt_eqb andb]; [apply Z.eqb_refl|reflexivity].
Qed.

Lemma opt_bytes_eqb_refl o : opt_bytes_eqb o o = true.
Proof. destruct o; cbn [opt_bytes_eqb]; [apply bytes_eqb_refl|reflexivity]. Qed.

Lemma reply_spec : forall s r, ext_ok (p_ext s) -> reply_bytes r ->
  exists s' acc, diag_reply s r = Ok (s', acc) /\
    ext_ok (p_ext s') /\ ext_cap (p_ext s') = ext_cap (p_ext s) /\
    acc = reply_accepted r /\
    (acc = false -> s' = s) /\
    c17_reply_ok (ext_cap (p_ext s)) (p_diag s) (ext_visible (p_ext s)) r
                 (p_diag s') (ext_visible (p_ext s')) = true.
Proof.
  intros s r Hok Hb.
  assert (Same : c17_reply_ok (ext_cap (p_ext s)) (p_diag s) (ext_visible (p_ext s)) r
                              (p_diag s) (ext_visible (p_ext s)) = true \/ reply_accepted r = true).
  { destruct (reply_accepted r) eqn:Acc; [right; reflexivity|left].
    unfold c17_reply_ok. destruct r as [dsap ssap pdu|]; [rewrite Acc|];
      rewrite diag_eqb_refl, opt_bytes_eqb_refl; reflexivity. }
  destruct r as [dsap ssap pdu|].
  2:{ exists s, false. cbn [diag_reply reply_accepted]. destruct Same as [Sm|C]; [|discriminate].
      repeat split; try assumption; try reflexivity. apply Hok. apply Hok. }
  cbn [reply_bytes] in Hb. cbn [diag_reply reply_accepted] in *.
  destruct (opt_eqb dsap SAP_MASTER_MS0) eqn:Ed; cbn [negb andb] in *.
  2:{ exists s, false. destruct Same as [Sm|C]; [|discriminate].
      repeat split; try assumption; try reflexivity; apply Hok. }
  destruct (opt_eqb ssap SAP_SLAVE_DIAGNOSIS) eqn:Es; cbn [negb andb] in *.
  2:{ exists s, false. destruct Same as [Sm|C]; [|discriminate].
      repeat split; try assumption; try reflexivity; apply Hok. }
  destruct (header_faithful pdu Hb) as [[Hs E]|[Hl (d & E & Hid & Hm & Hbits & H10 & Hfl & Hr)]]; rewrite E; cbn [bind].
  - exists s, false. destruct (Nat.leb_spec 6 (length pdu)) as [C|_]; [lia|].
    destruct Same as [Sm|C]; [|discriminate].
    repeat split; try assumption; try reflexivity; apply Hok.
  - destruct (Nat.leb_spec 6 (length pdu)) as [_|C]; [|lia].
    pose proof (header_oracle pdu (Some d) Hb E) as Hho.
    assert (Hflag : flag_set (d_flags d) FLAG_EXT_DIAG = Z.testbit (nth 0 pdu 0) 3).
    { rewrite Hfl. unfold FLAG_EXT_DIAG. apply ext_flag_bit.
      - apply all_bytes_nth, Hb.
      - pose proof (land251_range (nth 1 pdu 0) (all_bytes_nth pdu 1 Hb)). unfold is_byte. lia. }
    unfold c17_reply_ok, reply_accepted. rewrite Ed, Es. cbn [andb].
    destruct (Nat.leb_spec 6 (length pdu)) as [_|C]; [|lia].
    assert (Hsap : forall o, opt_eqb o o = true) by (intros [x|]; cbn; [apply Z.eqb_refl|reflexivity]).
    destruct (flag_set (d_flags d) FLAG_EXT_DIAG) eqn:F.
    + unfold slice_from, diag_ext_pos. destruct (Nat.leb_spec 6 (length pdu)) as [_|C]; [|lia]. cbn [bind].
      destruct Hok as [Hwf Hbuf].
      destruct (fill_spec (p_ext s) (skipn 6 pdu) Hwf) as (e' & ok & Ef & Hwf' & Hcap & Hokv & Hst & Hno).
      pose proof (fill_ok_preserved _ _ _ _ (conj Hwf Hbuf) (all_bytes_skipn pdu 6 Hb) Ef) as Hok'.
      rewrite Ef. cbn [bind fst snd].
      assert (Hd : (if ok then ext_debug e' else Ok tt) = Ok tt)
        by (destruct ok; [apply ext_debug_total, Hok'|reflexivity]).
      rewrite Hd. cbn [bind]. eexists _, true. split; [reflexivity|].
      cbn [p_ext p_diag]. repeat split; try assumption; try discriminate; try apply Hok'.
      rewrite Hho. cbn [andb]. cbv zeta. rewrite <- Hflag.
      rewrite skipn_length in Hokv. rewrite <- Hokv.
      destruct ok.
      * destruct (Hst eq_refl) as [V _]. rewrite V. apply opt_bytes_eqb_refl.
      * rewrite (Hno eq_refl). apply opt_bytes_eqb_refl.
    + eexists _, true. split; [reflexivity|]. cbn [p_ext p_diag].
      repeat split; try apply Hok; try discriminate.
      rewrite Hho. cbn [andb]. cbv zeta. rewrite <- Hflag. rewrite opt_bytes_eqb_refl. reflexivity.
Qed.

Lemma replies_total : forall rs s, ext_ok (p_ext s) -> Forall reply_bytes rs ->
  exists l, diag_replies s rs = Ok l /\ length l = length rs.
Proof.
  induction rs as [|r rs IH]; intros s Hok Hb; cbn [diag_replies].
  - exists []. split; reflexivity.
  - inversion Hb as [|x y Hr Hrs]; subst.
    destruct (reply_spec s r Hok Hr) as (s' & acc & E & Hok' & _). rewrite E. cbn [bind fst].
    destruct (IH s' Hok' Hrs) as (l & El & Hl). rewrite El. cbn [bind].
    eexists. split; [reflexivity|]. cbn [length]. lia.
Qed.

Lemma scan_oracle : forall dsap ssap pdu r, all_bytes pdu -> scan_reply (RData dsap ssap pdu) = Ok r ->
  (r = None \/ (opt_eqb dsap SAP_MASTER_MS0 = true /\ opt_eqb ssap SAP_SLAVE_DIAGNOSIS = true /\ c17_scan_ok pdu r = true)).
Proof.
  intros dsap ssap pdu r Hb. cbn [scan_reply].
  destruct (opt_eqb dsap SAP_MASTER_MS0); cbn [negb]; [|intros E; injection E as <-; left; reflexivity].
  destruct (opt_eqb ssap SAP_SLAVE_DIAGNOSIS); cbn [negb]; [|intros E; injection E as <-; left; reflexivity].
  destruct (header_faithful pdu Hb) as [[Hs E]|[Hl (d & E & Hid & Hm & _)]]; rewrite E; cbn [bind];
    intros R; injection R as <-.
  - left. reflexivity.
  - right. repeat split. unfold c17_scan_ok. rewrite Hid, Hm, Z.eqb_refl.
    assert (Ho : forall o, opt_eqb o o = true) by (intros [x|]; cbn; [apply Z.eqb_refl|reflexivity]).
    rewrite Ho, !andb_true_r. apply Nat.leb_le, Hl.
Qed.

Lemma f5_unfixed_panics :
  blocks_from_g false [0] 0 2 = Panic SiteIndex /\ blocks_from_g false [64] 0 2 = Panic SiteIndex /\
  blocks_from_g false [2; 3; 0] 0 4 = Panic SiteIndex.
Proof. repeat split; vm_compute; reflexivity. Qed.
