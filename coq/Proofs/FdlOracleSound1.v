(* FDL oracle soundness, part 1: the transcript of the MODEL, the generic induction, and the decomposition
   of the executable monitors of Model/FdlOracle.v into their rule groups.

   ORACLE SOUNDNESS: "the executable monitors that the check runs on the implementation's transcripts
   (FdlOracle.monitor, run by ocaml/run_fdl.ml) never reject a transcript of the MODEL".

   model_events mirrors what harness/src/fdl.rs + ocaml/run_fdl.ml build from a run, with the model (Fdl.poll,
   set_online, set_offline, set_passive, fdl_new) in the place of the crate:
   - the first event is `A new <obs>`; then API calls and polls in any order;
   - the PHY receive buffer is the harness PHY's: bytes are only APPENDED between polls (input of a poll = the
     new bytes), a poll sees the whole buffer and drops what it consumed (HPhy.rx, receive_data); the buffer
     survives set_offline / set_online;
   - a poll event carries now, the busy flag, the buffer, the transmission, the number of consumed bytes, the
     call log (run_fdl.ml: calls_of_string puts the poll's transmission into the transmit calls) and the view
     parsed from the observation string = a function of the model state (view_of: connectivity, is_in_ring,
     state name, NS, PS, LAS valid, active stations, GAP cursor in DoPoll, ClaimToken::ScanAwaitResponse);
   - a call that panics ends the transcript: an API call leaves `A <name> =` (the view of the last observation)
     followed by PANIC, a panicking poll is dropped by the driver (drop_panicked) and leaves PANIC only.
   The string round trips of the driver (hex, telegram_dots / telegram_of_dots) are taken as the identity. *)
From Coq Require Import Arith.
From PB Require Import Common Tables FdlTables Telegram Phy TokenRing Params Fdl FdlOracle FdlProofs FdlStepProofs.
From PB Require Import C05Proofs.

(* ------------------------------------------------------------------------------------------ *)
(* the view of a model state (ocaml/run_fdl.ml: obs_of, then view_of_obs)                      *)

Definition view_of (f : fdl) : view :=
  mkView (f_conn f) (is_in_ring f) (kind_of (f_state f)) (r_ns (f_ring f)) (r_ps (f_ring f))
         (match r_state (f_ring f) with LasValid => true | _ => false end)
         (las_ones (r_las (f_ring f)))
         (match f_gap f with GapDoPoll _ => true | GapWaiting _ => false end)
         (match f_state f with ClaimToken (StepScanAwaitResponse _) => true | _ => false end).

(* the view the driver uses when there has been no observation yet (`A new =;PANIC`) *)
Definition default_view : view := mkView ConnOffline false KOffline 0 0 false [] true false.

(* calls_of_string: the wire bytes of a transmit call are the poll's transmission *)
Definition conv_call (txo : option bytes) (c : call) : call :=
  match c with
  | CallTransmit i hp (Some (_, er)) => CallTransmit i hp (Some (match txo with Some b => b | None => [] end, er))
  | _ => c
  end.

(* inputs of a history after `new` *)
Inductive minput : Type :=
| InApi (a : api_call)                          (* on / off / pas (ApiNew: the station is created again) *)
| InPoll (now : Z) (busy : bool) (newrx : bytes).

Section Model.
Variable A : Type.
Variable ops : app_ops A.
Variable p : params.

Definition api_result (a : api_call) (f : fdl) : res fdl :=
  match a with
  | ApiNew => fdl_new p
  | ApiOnline => set_online f
  | ApiOffline => set_offline f
  | ApiPassive => set_passive f
  end.

Definition poll_event (now : Z) (busy : bool) (rxb : bytes) (f' : fdl) (o : phy_out) (calls : list call) : pstep :=
  mkPStep now busy rxb (tx o) (length rxb - length (rx_left o)) (map (conv_call (tx o)) calls) (view_of f').

Fixpoint model_events (f : fdl) (apps : list A) (buf : bytes) (ins : list minput) : list event :=
  match ins with
  | [] => []
  | InApi a :: tl =>
      match api_result a f with
      | Ok f' => EApi a (view_of f') :: model_events f' apps buf tl
      | _ => [EApi a (view_of f); EPanic]
      end
  | InPoll now busy nb :: tl =>
      match poll ops f now (mkPhyIn busy (buf ++ nb)) apps with
      | Ok (f', o, apps', calls) =>
          EPoll (poll_event now busy (buf ++ nb) f' o calls) :: model_events f' apps' (rx_left o) tl
      | _ => [EPanic]
      end
  end.

Definition model_transcript (apps : list A) (ins : list minput) : list event :=
  match fdl_new p with
  | Ok f0 => EApi ApiNew (view_of f0) :: model_events f0 apps [] ins
  | _ => [EApi ApiNew default_view; EPanic]
  end.

(* admissible inputs: times in range and strictly increasing (the harness advances the clock by at least
   1 us before every poll), received bytes are bytes *)
Fixpoint ins_ok (tl : Z) (ins : list minput) : Prop :=
  match ins with
  | [] => True
  | InApi _ :: r => ins_ok tl r
  | InPoll now _ nb :: r => tl < now /\ time_ok now /\ all_bytes nb /\ ins_ok now r
  end.

Definition no_passive (ins : list minput) : Prop := Forall (fun i => i <> InApi ApiPassive) ins.

(* a side condition on every station state the run goes through (used to exclude known classes) *)
Fixpoint run_ok (G : fdl -> Prop) (f : fdl) (apps : list A) (buf : bytes) (ins : list minput) : Prop :=
  match ins with
  | [] => True
  | InApi a :: tl =>
      match api_result a f with
      | Ok f' => G f' /\ run_ok G f' apps buf tl
      | _ => True
      end
  | InPoll now busy nb :: tl =>
      match poll ops f now (mkPhyIn busy (buf ++ nb)) apps with
      | Ok (f', o, apps', _) => G f' /\ run_ok G f' apps' (rx_left o) tl
      | _ => True
      end
  end.

Definition transcript_ok (G : fdl -> Prop) (apps : list A) (ins : list minput) : Prop :=
  match fdl_new p with
  | Ok f0 => G f0 /\ run_ok G f0 apps [] ins
  | _ => True
  end.

Lemma run_ok_true f apps buf ins : run_ok (fun _ => True) f apps buf ins.
Proof.
  revert f apps buf. induction ins as [|x ins IH]; intros f apps buf; [exact I|].
  destruct x as [a|now busy nb]; cbn [run_ok].
  - destruct (api_result a f); [split; [exact I|apply IH]|exact I|exact I].
  - destruct (poll ops f now _ apps) as [[[[f' o] apps'] calls]| |]; [split; [exact I|apply IH]|exact I|exact I].
Qed.

End Model.

(* ------------------------------------------------------------------------------------------ *)
(* lists of rules by property                                                                  *)

Definition onlyp (Q : pid -> Prop) (l : list rule) : Prop := forall r, In r l -> Q (rule_prop r).

Lemma onlyp_nil (Q : pid -> Prop) : onlyp Q []. Proof. intros r []. Qed.
Lemma onlyp_app (Q : pid -> Prop) l1 l2 : onlyp Q l1 -> onlyp Q l2 -> onlyp Q (l1 ++ l2).
Proof. intros H1 H2 r Hr. apply in_app_or in Hr. destruct Hr; auto. Qed.
Lemma onlyp_one (Q : pid -> Prop) r : Q (rule_prop r) -> onlyp Q [r].
Proof. intros H r' [<-|[]]. exact H. Qed.
Lemma onlyp_check (Q : pid -> Prop) b r : Q (rule_prop r) -> onlyp Q (check b r).
Proof. intros H. unfold check. destruct b; [apply onlyp_nil|apply onlyp_one; exact H]. Qed.
Lemma onlyp_weaken (Q Q' : pid -> Prop) l : (forall x, Q x -> Q' x) -> onlyp Q l -> onlyp Q' l.
Proof. intros H O r Hr. apply H, O, Hr. Qed.

Ltac solve_onlyp :=
  repeat first
    [ apply onlyp_nil
    | apply onlyp_app
    | apply onlyp_check; cbn; auto; fail
    | apply onlyp_one; cbn; auto; fail
    | match goal with
      | |- onlyp _ (if ?b then _ else _) => destruct b
      | |- onlyp _ (match ?x with _ => _ end) => destruct x
      end ].

Definition is_not (P : pid) (x : pid) : Prop := x <> P.

(* ------------------------------------------------------------------------------------------ *)
(* decomposition of mon_poll (first group)                                                     *)

Section MP.
Variables (p : params) (napps : nat) (m : mon) (s : pstep).

Definition x_ts : Z := p_address p.
Definition x_now : Z := s_now s.
Definition x_pre : view := m_view m.
Definition x_post : view := s_view s.
Definition x_k0 : state_kind := v_kind x_pre.
Definition x_k1 : state_kind := v_kind x_post.
Definition x_grew : bool := Nat.ltb (m_left m) (length (s_rx s)).
Definition x_pre_online : bool := match v_conn x_pre with ConnOffline => false | _ => true end.
Definition x_lba : option Z := if (x_grew || s_busy s) && x_pre_online then Some (zmax_opt (m_lba m) x_now) else m_lba m.
Definition x_sync : Z := p_bits_to_time p prop_sync_bits.
Definition x_slot : Z := slot_time p.
Definition x_silent (d : Z) : bool := match x_lba with Some l => l + d <? x_now | None => true end.
Definition x_txt : option telegram := match s_tx s with Some w => decode_one w | None => None end.
Definition x_tels : list (telegram * bool) := if Nat.eqb (s_consumed s) 0 then [] else delivered (s_rx s).
Definition x_heard : bool := (negb (Nat.eqb (s_consumed s) 0)) && match x_tels with _ :: _ => true | [] => false end.
Definition x_lastt : option telegram := if Nat.eqb (s_consumed s) 0 then None else last_delivered (s_rx s).

Definition x_e01 : list rule :=
    match s_tx s with
    | None => []
    | Some w =>
        check (negb (s_busy s)) R01_tx_while_busy ++
        check (x_silent x_sync) R01_sync_pause ++
        (if kind_in x_k0 [KUseToken; KClaimToken; KAwaitDataResponse; KAwaitStatusResponse; KPassToken] then []
         else if state_kind_eqb x_k0 KCheckTokenPass then check (x_silent x_slot) R01_check_pass_before_slot
         else if kind_in x_k0 [KListenToken; KActiveIdle; KOffline] then
           match x_txt with
           | Some (TData h _) =>
               check (match h_fc h with FcResponse _ _ => (h_sa h =? x_ts) && negb (state_kind_eqb x_k0 KOffline) | _ => false end)
                     R01_who_may_transmit
           | _ =>
               check (is_claim_token x_ts w) R01_who_may_transmit ++
               check (match m_start m with
                      | Some t0 => token_lost_timeout p <=? x_now - zmax_opt x_lba t0
                      | None => false
                      end) R01_claim_before_timeout
           end
         else [R01_who_may_transmit])
    end.

Definition x_e06 : list rule :=
    if kind_in x_k0 [KListenToken; KActiveIdle] && negb (s_busy s) &&
       match s_rx s with [] => true | _ => false end &&
       match m_quiet m with Some q => token_lost_timeout p <=? x_now - q | None => false end
    then check (match s_tx s with Some w => is_claim_token x_ts w | None => false end) R06_no_claim_after_timeout
    else [].

Definition x_tx_end : option Z :=
  match s_tx s with
  | Some w => Some (x_now + bits_to_time (p_baud p) (prop_bits_per_byte * Zlen w))
  | None => None
  end.
Definition x_online : bool := match v_conn x_post with ConnOffline => false | _ => true end.
Definition x_start : option Z :=
  if x_online then match m_start m with Some t => Some t | None => Some x_now end
  else if x_pre_online then Some x_now else m_start m.
Definition x_quiet : option Z :=
  if negb x_online then None else
  match x_tx_end with
  | Some e => Some (zmax_opt (m_quiet m) e)
  | None => if s_busy s || match s_rx s with [] => false | _ => true end
            then Some (zmax_opt (m_quiet m) x_now)
            else match m_quiet m with Some q => Some q | None => Some x_now end
  end.

Definition x_accepted : bool :=
  state_kind_eqb x_k1 KUseToken && kind_in x_k0 [KActiveIdle; KCheckTokenPass] &&
  match s_tx s with None => true | Some _ => false end.
Definition x_cand0 : option Z := if state_kind_eqb x_k0 KActiveIdle then m_cand m else None.

Definition x_e11a : list rule :=
    (if state_kind_eqb x_k0 KListenToken
     then check (kind_in x_k1 [KListenToken; KActiveIdle; KClaimToken; KOffline]) R11_accept_while_listening else []) ++
    (if x_accepted then
       match x_lastt with
       | Some (TToken da sa) =>
           check ((da =? x_ts) && negb (sa =? x_ts)) R11_accept_without_token ++
           (match x_tels with
            | [_] => check ((sa =? v_ps x_pre) || opt_eqb x_cand0 (Some sa)) R11_accept_from_stranger
            | _ => []
            end)
       | _ => [R11_accept_without_token]
       end
     else []).

Definition x_e11c : list rule :=
    if state_kind_eqb x_k1 KActiveIdle && kind_in x_k0 [KActiveIdle; KCheckTokenPass] &&
       match s_tx s with None => true | Some _ => false end
    then match x_lastt, x_tels with
         | Some (TToken da sa), [_] =>
             if (da =? x_ts) && negb (sa =? x_ts)
             then check ((v_ns x_post =? v_ns x_pre) && (v_ps x_post =? v_ps x_pre) &&
                         Bool.eqb (v_las_valid x_post) (v_las_valid x_pre) && bytes_eqb (v_active x_post) (v_active x_pre))
                        R11_offer_changes_ring_view
             else []
         | _, _ => []
         end
    else [].

Definition x_cand : option Z :=
    if state_kind_eqb x_k1 KActiveIdle then
      if kind_in x_k0 [KActiveIdle; KCheckTokenPass] then
        match x_lastt with
        | Some (TToken da sa) => if (da =? x_ts) && negb (sa =? x_ts) then Some sa else x_cand0
        | _ => x_cand0
        end
      else None
    else None.

Definition x_token_tx : option (Z * Z) := match x_txt with Some (TToken da sa) => Some (da, sa) | _ => None end.

Definition x_e11b : list rule :=
    match x_token_tx with
    | Some (da, sa) =>
        if (sa =? x_ts) && negb (da =? x_ts) && state_kind_eqb x_k0 KCheckTokenPass then
          match m_pass m with
          | Some (da', n) =>
              if da' =? da then
                check (x_silent x_slot) R11_retry_too_early ++ check (Nat.ltb n 3) R11_too_many_retries
              else
                if Nat.eqb (s_consumed s) 0 && mem_z da' (v_active x_pre) && negb (mem_z da' (v_active x_post))
                then check (Nat.eqb n 3 && x_silent x_slot) R11_removed_too_early else []
          | None => []
          end
        else []
    | None => []
    end ++
    (if state_kind_eqb x_k0 KCheckTokenPass && x_heard
     then check (kind_in x_k1 [KActiveIdle; KUseToken; KListenToken] &&
                 match s_tx s with None => true | Some _ => false end) R11_heard_but_supervising
     else []).

Definition x_pass : option (Z * nat) :=
    match x_token_tx with
    | Some (da, sa) =>
        if (sa =? x_ts) && negb (da =? x_ts) then
          match m_pass m with
          | Some (da', n) => if (da' =? da) && state_kind_eqb x_k0 KCheckTokenPass then Some (da, S n) else Some (da, 1%nat)
          | None => Some (da, 1%nat)
          end
        else None
    | None => if kind_in x_k1 [KCheckTokenPass; KPassToken] then m_pass m else None
    end.

Definition x_self_pass : bool :=
  kind_in x_k0 [KUseToken; KAwaitDataResponse] &&
  match x_token_tx with Some (da, sa) => (da =? x_ts) && (sa =? x_ts) | None => false end.
Definition x_new_visit : bool :=
  state_kind_eqb x_k1 KUseToken && (negb (kind_in x_k0 [KUseToken; KAwaitDataResponse]) || x_self_pass).
Definition x_gap_poll : option Z :=
    match x_txt with
    | Some (TData h _) =>
        if is_fdl_status_request h && (h_sa h =? x_ts) && negb (app_sent (s_calls s)) then Some (h_da h) else None
    | _ => None
    end.

Definition x_e12a : list rule :=
    match x_gap_poll with
    | Some da =>
        check (in_gapb x_ts (v_ns x_pre) da && (da <? p_hsa p) && negb (da =? x_ts)) R12_gap_poll_outside_gap ++
        (if state_kind_eqb x_k0 KClaimToken then [] else check (Nat.eqb (m_gap_polls m) 0) R12_two_gap_polls_per_visit)
    | None => []
    end.

Definition x_gap_polls : nat :=
    match x_token_tx with
    | Some _ => 0%nat
    | None => if x_new_visit then 0%nat
              else match x_gap_poll with
                   | Some _ => if state_kind_eqb x_k0 KClaimToken then m_gap_polls m else S (m_gap_polls m)
                   | None => m_gap_polls m
                   end
    end.

Definition x_e12b : list rule :=
    match x_txt with
    | Some (TData h _) =>
        match h_fc h with
        | FcResponse st status =>
            if h_sa h =? x_ts then
              check (opt_eqb (m_req m) (Some (h_da h))) R12_reply_without_request ++
              (if state_kind_eqb x_k0 KActiveIdle then
                 check ((resp_state_to_byte st =? resp_state_to_byte RsMasterInRing) &&
                        (resp_status_to_byte status =? resp_status_to_byte StOk)) R12_reply_untruthful
               else if state_kind_eqb x_k0 KListenToken then
                 let ready := v_las_valid x_pre && (h_da h =? v_ps x_pre) in
                 check ((resp_state_to_byte st =?
                         resp_state_to_byte (if ready then RsMasterWithoutToken else RsMasterNotReady)) &&
                        (resp_status_to_byte status =? resp_status_to_byte StOk)) R12_reply_untruthful
               else [R12_reply_from_wrong_state])
            else []
        | _ => []
        end
    | _ => []
    end.

Definition x_req : option Z :=
    if negb (kind_in x_k1 [KListenToken; KActiveIdle]) then None else
    match s_tx s with
    | Some _ => None
    | None =>
        if kind_in x_k0 [KListenToken; KActiveIdle; KCheckTokenPass; KOffline] then
          match x_lastt with
          | Some (TData h _) =>
              if is_fdl_status_request h && (h_da h =? x_ts) &&
                 negb (state_kind_eqb x_k0 KListenToken && (h_sa h =? x_ts))
              then Some (h_sa h) else m_req m
          | Some _ => m_req m
          | None => m_req m
          end
        else None
    end.

Definition x_m1 : mon :=
  mkMon x_pre (m_left m) x_lba x_quiet x_cand x_pass x_gap_polls x_req (m_out m) (m_turn m)
        (m_prev_tt m) (m_tt m) (m_rounds m) x_start.
Definition x_fold : mon * list rule :=
  fold_left (mon_call p napps x_k0 x_now (m_rounds m)) (s_calls s) (x_m1, []).
Definition x_asked : bool :=
  match s_calls s with
  | [] => false
  | _ => existsb (fun c => match c with CallTransmit _ _ _ => true | _ => false end) (s_calls s)
  end.
Definition x_e15 : list rule :=
  if state_kind_eqb x_k1 KAwaitDataResponse
  then check (match m_out (fst x_fold) with Some _ => true | None => false end) R15_await_without_request else [].
Definition x_out : option (nat * Z) := if state_kind_eqb x_k1 KAwaitDataResponse then m_out (fst x_fold) else None.
Definition x_rounds : nat := if x_asked then S (m_rounds m) else m_rounds m.
Definition x_lba' : option Z := match x_tx_end with Some e => Some (zmax_opt x_lba e) | None => x_lba end.
Definition x_left : nat := (length (s_rx s) - s_consumed s)%nat.
Definition x_m3 : mon :=
    if x_new_visit
    then mkMon x_post x_left x_lba' x_quiet x_cand x_pass x_gap_polls x_req x_out (m_turn (fst x_fold)) (m_tt m) x_now 0 x_start
    else if state_kind_eqb x_k1 KOffline
    then mkMon x_post x_left x_lba' x_quiet x_cand x_pass x_gap_polls x_req x_out (m_turn (fst x_fold)) 0 0 0%nat x_start
    else mkMon x_post x_left x_lba' x_quiet x_cand x_pass x_gap_polls x_req x_out (m_turn (fst x_fold)) (m_prev_tt m) (m_tt m) x_rounds x_start.

Lemma mon_poll_eq :
  mon_poll p napps m s =
  (x_m3, x_e01 ++ x_e06 ++ x_e11a ++ x_e11c ++ x_e11b ++ x_e12a ++ x_e12b ++ snd x_fold ++ x_e15).
Proof.
  unfold mon_poll, x_m3, x_e15, x_out, x_fold.
  destruct (fold_left (mon_call p napps x_k0 x_now (m_rounds m)) (s_calls s) (x_m1, [])) as [m2 ec] eqn:E.
  unfold x_m1, x_k0, x_now, x_pre in E. cbv zeta.
  match goal with |- context [fold_left ?a ?b ?c] => change (fold_left a b c) with (m2, ec) || (replace (fold_left a b c) with (m2, ec) by (symmetry; exact E)) end.
  reflexivity.
Qed.

End MP.

(* ------------------------------------------------------------------------------------------ *)
(* decomposition of mon_poll2 (second group)                                                   *)

Section MP2.
Variables (p : params) (napps : nat) (m : mon) (g : mon2) (s : pstep).

Definition y_ts : Z := p_address p.
Definition y_now : Z := s_now s.
Definition y_pre : view := m_view m.
Definition y_post : view := s_view s.
Definition y_k0 : state_kind := v_kind y_pre.
Definition y_k1 : state_kind := v_kind y_post.
Definition y_txt : option telegram := match s_tx s with Some w => decode_one w | None => None end.
Definition y_gap_poll : option Z :=
    match y_txt with
    | Some (TData h _) =>
        if is_fdl_status_request h && (h_sa h =? y_ts) && negb (app_sent (s_calls s)) then Some (h_da h) else None
    | _ => None
    end.
Definition y_token_tx : option Z :=
  match y_txt with Some (TToken da sa) => if sa =? y_ts then Some da else None | _ => None end.
Definition y_first : option telegram :=
  match decode (s_rx s) with
  | Ok (Accept t n) => if Nat.eqb n (s_consumed s) then Some t else None
  | _ => None
  end.
Definition y_awaiting : bool := kind_in y_k0 [KAwaitStatusResponse; KClaimToken].
Definition y_ready_reply : bool :=
    y_awaiting &&
    match g_wait g, y_first with
    | Some a, Some (TData h _) =>
        match h_fc h with
        | FcResponse st status =>
            (h_sa h =? a) && (h_da h =? y_ts) && (resp_status_to_byte status =? resp_status_to_byte StOk) &&
            is_ready_master st
        | _ => false
        end
    | _, _ => false
    end.
Definition y_e_found : list rule :=
    if y_ready_reply
    then check (match g_wait g with Some a => v_ns y_post =? a | None => true end) R12_found_not_successor
    else if y_awaiting then check (v_ns y_post =? v_ns y_pre) R12_successor_changed_without_ready_reply
    else [].
Definition y_e_tok : list rule :=
  match y_token_tx, g_expect g with
  | Some da, Some a => check (da =? a) R12_found_not_next_token
  | _, _ => []
  end.
Definition y_expect : option Z :=
    match y_token_tx with
    | Some _ => None
    | None => if kind_in y_k1 [KActiveIdle; KListenToken; KOffline] then None
              else if y_ready_reply then g_wait g else g_expect g
    end.
Definition y_wait : option Z :=
  match y_gap_poll with
  | Some da => Some da
  | None => if kind_in y_k1 [KAwaitStatusResponse; KClaimToken] then g_wait g else None
  end.
Definition y_visit_tx : bool :=
  match y_token_tx with
  | Some _ => kind_in y_k0 [KPassToken; KAwaitStatusResponse; KUseToken; KAwaitDataResponse]
  | None => false
  end.
Definition y_claim_tx : bool :=
  match y_token_tx with Some da => (da =? y_ts) && kind_in y_k0 [KListenToken; KActiveIdle; KClaimToken] | None => false end.
Definition y_restart : bool := negb (v_ns y_post =? v_ns y_pre) || y_claim_tx || kind_in y_k1 [KListenToken; KOffline].
Definition y_last1 : list nat :=
  match y_gap_poll with
  | Some da => if (0 <=? da) && (da <? 126) then set_nth_nat (g_last g) (Z.to_nat da) (g_visit g) else g_last g
  | None => g_last g
  end.
Definition y_last2 : list nat := if y_restart then repeat (g_visit g) addr_count else y_last1.
Definition y_visit : nat := if y_visit_tx then S (g_visit g) else g_visit g.
Definition y_e_sweep : list rule :=
    if y_visit_tx && negb y_restart
    then (let gap := gap_addrs p (v_ns y_post) in
          let bound := (length gap + Z.to_nat (p_gap_wait p) + 2)%nat in
          check (forallb (fun a => Nat.leb (y_visit - nth (Z.to_nat a) y_last2 0%nat) bound) gap) R12_sweep_bound)
    else [].
Definition y_e13 : list rule :=
  flat_map (fun c => match c with
                     | CallTransmit _ hp _ =>
                         if hp then check (h_end g <=? y_now) R13_high_prio_inside_hold_time
                         else check (y_now <? h_end g) R13_low_prio_after_hold_time
                     | _ => []
                     end) (s_calls s).
Definition y_self_pass : bool :=
  kind_in y_k0 [KUseToken; KAwaitDataResponse] && match y_token_tx with Some da => da =? y_ts | None => false end.
Definition y_new_visit : bool :=
  state_kind_eqb y_k1 KUseToken && (negb (kind_in y_k0 [KUseToken; KAwaitDataResponse]) || y_self_pass).
Definition y_hend : Z :=
  if y_new_visit
  then m_tt m + token_rotation_time p -
       (if v_gap_due y_post then p_bits_to_time p (p_slot_bits p + prop_gap_reserve_extra_bits) else 0)
  else h_end g.
Definition y_in_list (a : Z) (l : list Z) : bool := existsb (Z.eqb a) l.
Definition y_scan1 : option (list Z) :=
  if y_claim_tx then Some (gap_addrs p (v_ns y_post))
  else match g_scan g, y_gap_poll with
       | Some l, Some da => Some (filter (fun a => negb (a =? da)) l)
       | sc, _ => sc
       end.
Definition y_scan_ends : bool := state_kind_eqb y_k0 KClaimToken && negb (state_kind_eqb y_k1 KClaimToken).
Definition y_e_scan : list rule :=
    if y_scan_ends && state_kind_eqb y_k1 KPassToken then
      match y_scan1 with
      | Some l => (let gap := gap_addrs p (v_ns y_post) in
                   check (negb (existsb (fun a => y_in_list a gap) l)) R12_post_claim_scan_incomplete)
      | None => []
      end
    else [].
Definition y_scan : option (list Z) :=
  if y_scan_ends then None
  else if kind_in y_k1 [KClaimToken; KListenToken; KActiveIdle] then y_scan1 else None.
Definition y_in_vis (k : state_kind) : bool := kind_in k [KUseToken; KAwaitDataResponse].
Definition y_rr_step (acc : nat * nat * list rule) (c : call) : nat * nat * list rule :=
       let '(turn, decl, errs) := acc in
       match c with
       | CallTransmit i hp r =>
           let e := check (Nat.eqb i turn && Nat.ltb i napps) R15_round_robin ++
                    check (Nat.ltb decl napps) R15_asked_after_all_declined in
           match r with
           | None => (Nat.modulo (i + 1) napps, S decl, errs ++ e)
           | Some _ => (turn, decl, errs ++ e)
           end
       | CallReceiveReply i _ _ | CallHandleTimeout i _ =>
           (turn, decl, errs ++ check (Nat.eqb i turn) R15_round_robin)
       end.
Definition y_rr : nat * nat * list rule := fold_left y_rr_step (s_calls s) (r_turn g, r_decl g, []).
Definition y_turn1 : nat := fst (fst y_rr).
Definition y_decl1 : nat := snd (fst y_rr).
Definition y_e_rr : list rule := snd y_rr.
Definition y_passed : bool := kind_in y_k1 [KPassToken; KAwaitStatusResponse; KCheckTokenPass] || y_self_pass.
Definition y_e_end : list rule :=
    if y_in_vis y_k0 then
      (if Nat.ltb 0 napps && Nat.eqb y_decl1 napps
       then check y_passed R15_not_passed_after_all_declined else []) ++
      (if y_passed
       then check (Nat.eqb y_decl1 napps || (h_end g <=? y_now)) R15_passed_before_all_declined else [])
    else [].
Definition y_turn2 : nat := if state_kind_eqb y_k1 KOffline then 0%nat else y_turn1.
Definition y_decl2 : nat := if y_in_vis y_k1 then (if y_in_vis y_k0 && negb y_self_pass then y_decl1 else 0%nat) else 0%nat.
Definition y_grew : bool := Nat.ltb (m_left m) (length (s_rx s)).
Definition y_tx_end : option Z :=
  match s_tx s with
  | Some w => Some (y_now + bits_to_time (p_baud p) (prop_bits_per_byte * Zlen w))
  | None => None
  end.
Definition y_ongoing : bool := match l_txend g with Some e => y_now <=? e | None => false end.
Definition y_looks : bool := negb (s_busy s) && negb y_ongoing.
Definition y_spur_now : bool := l_spur g && y_looks && match s_rx s with [] => false | _ => true end.
Definition y_consumed : bool := negb (Nat.eqb (s_consumed s) 0).
Definition y_quiet : bool := y_looks && negb y_grew && negb y_spur_now.
Definition y_waiting_c12 : bool :=
  state_kind_eqb y_k0 KAwaitStatusResponse || (state_kind_eqb y_k0 KClaimToken && v_scan_await y_pre).
Definition y_acted : bool :=
  y_consumed || negb (state_kind_eqb y_k1 y_k0) ||
  match s_tx s with Some _ => true | None => false end ||
  match s_calls s with [] => false | _ => true end ||
  (state_kind_eqb y_k0 KClaimToken && negb (v_scan_await y_post)).
Definition y_expired : bool := match l_ref g with Some r => r + slot_time p <? y_now | None => false end.
Definition y_e_live : list rule :=
    if y_quiet && y_expired && negb y_acted then
      (if y_waiting_c12 then [R12_gap_wait_never_ends] else []) ++
      (if state_kind_eqb y_k0 KCheckTokenPass then [R11_supervision_never_ends] else []) ++
      (if state_kind_eqb y_k0 KAwaitDataResponse then [R15_no_reply_no_timeout] else [])
    else [].
Definition y_happened : bool := y_grew || s_busy s || y_consumed || y_spur_now.
Definition y_ref1 : option Z :=
  if y_happened then Some (zmax_opt (l_ref g) y_now)
  else match l_ref g with Some r => Some r | None => Some y_now end.
Definition y_ref2 : option Z := match y_tx_end with Some e => Some (zmax_opt y_ref1 e) | None => y_ref1 end.
Definition y_txend : option Z := match y_tx_end with Some e => Some e | None => l_txend g end.
Definition y_spur : bool :=
  if y_consumed then Nat.ltb (s_consumed s) (length (s_rx s))
  else if y_looks then false else (l_spur g || y_grew).

Definition y_e_backoff : list rule :=
    if y_looks then
      match decode (s_rx s) with
      | Ok (Accept t n) =>
          let gap_reply (a : Z) := match t with
                                   | TData h _ => match h_fc h with
                                                  | FcResponse _ _ => (h_sa h =? a) && (h_da h =? y_ts)
                                                  | _ => false
                                                  end
                                   | _ => false
                                   end in
          let unexpected :=
            if state_kind_eqb y_k0 KAwaitDataResponse then
              match m_out m with
              | Some (_, addr) => negb (match t with TShortConf => true | TToken _ _ => false | _ => gap_reply addr end)
              | None => false
              end
            else if y_waiting_c12 then
              match g_wait g with Some a => negb (gap_reply a) | None => false end
            else false in
          if unexpected
          then check (state_kind_eqb y_k1 KActiveIdle &&
                      match s_tx s with None => true | Some _ => false end &&
                      match s_calls s with [] => true | _ => false end &&
                      Nat.eqb (s_consumed s) n) R06_no_backoff
          else []
      | _ => []
      end
    else [].

Definition y_g' : mon2 :=
  mkMon2 y_wait y_expect y_visit y_last2 y_hend y_scan y_turn2 y_decl2 y_ref2 y_txend y_spur.

Lemma mon_poll2_eq :
  mon_poll2 p napps m g s =
  (y_g', y_e_found ++ y_e_tok ++ y_e_sweep ++ y_e13 ++ y_e_scan ++ y_e_rr ++ y_e_end ++ y_e_live ++ y_e_backoff).
Proof.
  unfold mon_poll2.
  cbv zeta.
  match goal with |- context [fold_left ?a ?b ?c] => change (fold_left a b c) with y_rr end.
  unfold y_g', y_e_rr, y_e_end, y_turn2, y_decl2, y_turn1, y_decl1.
  destruct y_rr as [[t1 d1] e1].
  cbn [fst snd].
  cbv beta zeta delta [y_ts y_now y_pre y_post y_k0 y_k1 y_txt y_gap_poll y_token_tx y_first y_awaiting y_ready_reply
    y_e_found y_e_tok y_expect y_wait y_visit_tx y_claim_tx y_restart y_last1 y_last2 y_visit y_e_sweep y_e13 y_self_pass
    y_new_visit y_hend y_in_list y_scan1 y_scan_ends y_e_scan y_scan y_in_vis y_passed y_grew y_tx_end y_ongoing y_looks
    y_spur_now y_consumed y_quiet y_waiting_c12 y_acted y_expired y_e_live y_happened y_ref1 y_ref2 y_txend y_spur y_e_backoff].
  reflexivity.
Qed.

End MP2.

(* ------------------------------------------------------------------------------------------ *)
(* which properties the rule groups belong to                                                  *)

Lemma x_e01_only p m s : onlyp (eq PC01) (x_e01 p m s).
Proof. unfold x_e01. solve_onlyp. Qed.
Lemma x_e06_only p m s : onlyp (eq PC06) (x_e06 p m s).
Proof. unfold x_e06. solve_onlyp. Qed.
Lemma x_e11a_only p m s : onlyp (eq PC11) (x_e11a p m s).
Proof. unfold x_e11a. solve_onlyp. Qed.
Lemma x_e11c_only p m s : onlyp (eq PC11) (x_e11c p m s).
Proof. unfold x_e11c. solve_onlyp. Qed.
Lemma x_e11b_only p m s : onlyp (eq PC11) (x_e11b p m s).
Proof. unfold x_e11b. solve_onlyp. Qed.
Lemma x_e12a_only p m s : onlyp (eq PC12) (x_e12a p m s).
Proof. unfold x_e12a. solve_onlyp. Qed.
Lemma x_e12b_only p m s : onlyp (eq PC12) (x_e12b p m s).
Proof. unfold x_e12b. cbv zeta. solve_onlyp. Qed.
Lemma x_e15_only p n m s : onlyp (eq PC15) (x_e15 p n m s).
Proof. unfold x_e15. solve_onlyp. Qed.

(* the callbacks: rules of C13 and C15 *)
Definition p1315 (x : pid) : Prop := x = PC13 \/ x = PC15.

Lemma mon_call_snd p n k0 now r0 m e c :
  exists ec, snd (mon_call p n k0 now r0 (m, e) c) = e ++ ec /\ onlyp p1315 ec /\
             forall e', fst (mon_call p n k0 now r0 (m, e') c) = fst (mon_call p n k0 now r0 (m, e) c).
Proof.
  destruct c as [i hp r|i a t|i a]; cbn [mon_call fst snd].
  - eexists. split; [reflexivity|]. split; [|reflexivity].
    cbn [app]. unfold p1315. solve_onlyp.
  - eexists. split; [reflexivity|]. split; [|reflexivity]. unfold p1315. solve_onlyp.
  - eexists. split; [reflexivity|]. split; [|reflexivity]. unfold p1315. solve_onlyp.
Qed.

Lemma mon_calls_only p n k0 now r0 l : forall m e, onlyp p1315 e ->
  onlyp p1315 (snd (fold_left (mon_call p n k0 now r0) l (m, e))).
Proof.
  induction l as [|c l IH]; intros m e He; [exact He|]. cbn [fold_left].
  destruct (mon_call p n k0 now r0 (m, e) c) as [m1 e1] eqn:E.
  destruct (mon_call_snd p n k0 now r0 m e c) as (ec & H1 & H2 & _). rewrite E in H1. cbn in H1. subst e1.
  apply IH. apply onlyp_app; assumption.
Qed.

Lemma x_fold_only p n m s : onlyp p1315 (snd (x_fold p n m s)).
Proof. unfold x_fold. apply mon_calls_only. apply onlyp_nil. Qed.

Lemma y_e_found_only p m g s : onlyp (eq PC12) (y_e_found p m g s).
Proof. unfold y_e_found. solve_onlyp. Qed.
Lemma y_e_tok_only p g s : onlyp (eq PC12) (y_e_tok p g s).
Proof. unfold y_e_tok. solve_onlyp. Qed.
Lemma y_e_sweep_only p m g s : onlyp (eq PC12) (y_e_sweep p m g s).
Proof. unfold y_e_sweep. cbv zeta. solve_onlyp. Qed.
Lemma y_e13_only g s : onlyp (eq PC13) (y_e13 g s).
Proof.
  unfold y_e13. induction (s_calls s) as [|c l IH]; [apply onlyp_nil|]. cbn [flat_map].
  apply onlyp_app; [|exact IH]. solve_onlyp.
Qed.
Lemma y_e_scan_only p m g s : onlyp (eq PC12) (y_e_scan p m g s).
Proof. unfold y_e_scan. cbv zeta. solve_onlyp. Qed.
Lemma y_rr_only n l : forall t d e, onlyp (eq PC15) e -> onlyp (eq PC15) (snd (fold_left (y_rr_step n) l (t, d, e))).
Proof.
  induction l as [|c l IH]; intros t d e He; [exact He|]. cbn [fold_left].
  destruct c as [i hp [r|]|i a tt|i a]; cbn [y_rr_step]; apply IH; apply onlyp_app; try exact He; solve_onlyp.
Qed.
Lemma y_e_rr_only n g s : onlyp (eq PC15) (y_e_rr n g s).
Proof. unfold y_e_rr, y_rr. apply y_rr_only. apply onlyp_nil. Qed.
Lemma y_e_end_only p n m g s : onlyp (eq PC15) (y_e_end p n m g s).
Proof. unfold y_e_end. solve_onlyp. Qed.
Definition p_live (x : pid) : Prop := x = PC12 \/ x = PC11 \/ x = PC15.
Lemma y_e_live_only p m g s : onlyp p_live (y_e_live p m g s).
Proof. unfold y_e_live, p_live. solve_onlyp. Qed.
Lemma y_e_backoff_only p m g s : onlyp (eq PC06) (y_e_backoff p m g s).
Proof. unfold y_e_backoff. cbv zeta. solve_onlyp. Qed.

(* ------------------------------------------------------------------------------------------ *)
(* The generic induction over model transcripts.                                               *)

(* the monitor state after an API call that returned *)
Definition mon_after_api (a : api_call) (v : view) (m : mon) (g : mon2) : mon * mon2 :=
  match a with
  | ApiNew | ApiOffline => (mon_reset v (m_left m), mon2_reset)
  | ApiPassive => (m, g)
  | ApiOnline =>
      (mkMon v (m_left m) (m_lba m) (m_quiet m) (m_cand m) (m_pass m) (m_gap_polls m) (m_req m)
             (m_out m) (m_turn m) (m_prev_tt m) (m_tt m) (m_rounds m) (m_start m), g)
  end.

Lemma mon_event_api p n m g la a v :
  mon_event p n (Some (m, g), la, []) (EApi a v) = (Some (mon_after_api a v m g), Some a, []).
Proof. destruct a; reflexivity. Qed.

Lemma monitor_from_api p n i m g la a v tl :
  monitor_from p n i (Some (m, g)) la (EApi a v :: tl) =
  monitor_from p n (S i) (Some (mon_after_api a v m g)) (Some a) tl.
Proof. cbn [monitor_from]. rewrite mon_event_api. reflexivity. Qed.

Lemma set_passive_panics f : set_passive f = Panic SiteUnreachable.
Proof. reflexivity. Qed.

Section Generic.
Variable A : Type.
Variable ops : app_ops A.
Variable p : params.
Variable n : nat.
(* what may fire: a predicate on rules (for whole properties: fun r => rule_prop r <> PCxx) *)
Variable Q : rule -> Prop.
(* invariant: station, applications, PHY buffer, time of the last poll, monitor states *)
Variable J : fdl -> list A -> bytes -> Z -> mon -> mon2 -> Prop.
(* side condition on the states of the run *)
Variable G : fdl -> Prop.

Hypothesis HQ5 : Q R05_panic.

Hypothesis J_api : forall a f apps buf tl m g f',
  J f apps buf tl m g -> api_result p a f = Ok f' -> G f' ->
  J f' apps buf tl (fst (mon_after_api a (view_of f') m g)) (snd (mon_after_api a (view_of f') m g)).

Hypothesis J_poll : forall f apps buf tl m g now busy nb f' o apps' calls,
  J f apps buf tl m g -> tl < now -> time_ok now -> all_bytes nb ->
  poll ops f now (mkPhyIn busy (buf ++ nb)) apps = Ok (f', o, apps', calls) -> G f' ->
  (forall r, In r (snd (mon_poll p n m (poll_event now busy (buf ++ nb) f' o calls))) -> Q r) /\
  (forall r, In r (snd (mon_poll2 p n m g (poll_event now busy (buf ++ nb) f' o calls))) -> Q r) /\
  J f' apps' (rx_left o) now (fst (mon_poll p n m (poll_event now busy (buf ++ nb) f' o calls)))
                             (fst (mon_poll2 p n m g (poll_event now busy (buf ++ nb) f' o calls))).

Lemma monitor_from_panic i om la k r :
  In (k, r) (monitor_from p n i om la [EPanic]) -> Q r.
Proof.
  cbn. destruct la as [[ | | | ]|]; cbn; intros H; try contradiction;
    destruct H as [H|[]]; injection H as _ <-; exact HQ5.
Qed.

Theorem generic_sound : forall ins f apps buf tl m g i la,
  J f apps buf tl m g -> ins_ok tl ins -> run_ok A ops p G f apps buf ins ->
  forall k r, In (k, r) (monitor_from p n i (Some (m, g)) la (model_events A ops p f apps buf ins)) -> Q r.
Proof.
  induction ins as [|x ins IH]; intros f apps buf tl m g i la HJ Hok Hrun k r Hin; [contradiction|].
  destruct x as [a|now busy nb]; cbn [model_events] in Hin; cbn [run_ok] in Hrun.
  - cbn [ins_ok] in Hok.
    destruct (api_result p a f) as [f'| |] eqn:Ea.
    + rewrite monitor_from_api in Hin. destruct Hrun as (Hg & Hrun).
      destruct (mon_after_api a (view_of f') m g) as [m' g'] eqn:Em.
      pose proof (J_api _ _ _ _ _ _ _ _ HJ Ea Hg) as HJ'. rewrite Em in HJ'. cbn [fst snd] in HJ'.
      exact (IH _ _ _ _ _ _ _ _ HJ' Hok Hrun _ _ Hin).
    + rewrite monitor_from_api in Hin. exact (monitor_from_panic _ _ _ _ _ Hin).
    + rewrite monitor_from_api in Hin. exact (monitor_from_panic _ _ _ _ _ Hin).
  - cbn [ins_ok] in Hok. destruct Hok as (Htl & Hnow & Hnb & Hok).
    destruct (poll ops f now (mkPhyIn busy (buf ++ nb)) apps) as [[[[f' o] apps'] calls]| |] eqn:Ep;
      try exact (monitor_from_panic _ _ _ _ _ Hin).
    destruct Hrun as (Hg & Hrun).
    destruct (J_poll _ _ _ _ _ _ _ _ _ _ _ _ _ HJ Htl Hnow Hnb Ep Hg) as (H1 & H2 & HJ').
    cbn [monitor_from mon_event] in Hin.
    destruct (mon_poll p n m (poll_event now busy (buf ++ nb) f' o calls)) as [m' e1].
    destruct (mon_poll2 p n m g (poll_event now busy (buf ++ nb) f' o calls)) as [g' e2].
    cbn [fst snd app] in *. apply in_app_or in Hin. destruct Hin as [Hin|Hin].
    + apply in_map_iff in Hin. destruct Hin as (r' & Hr & Hin). injection Hr as _ <-.
      apply in_app_or in Hin. destruct Hin as [Hin|Hin]; [exact (H1 _ Hin)|exact (H2 _ Hin)].
    + exact (IH _ _ _ _ _ _ _ _ HJ' Hok Hrun _ _ Hin).
Qed.

Hypothesis J_init : forall f0 apps, fdl_new p = Ok f0 -> length apps = n -> G f0 ->
  J f0 apps [] 0 (mon_reset (view_of f0) 0) mon2_reset.

Theorem generic_sound_transcript apps ins : length apps = n -> ins_ok 0 ins -> transcript_ok A ops p G apps ins ->
  forall k r, In (k, r) (monitor p n (model_transcript A ops p apps ins)) -> Q r.
Proof.
  intros Hn Hok Hrun k r Hin. unfold monitor in Hin. destruct (builder_validb p); [|contradiction].
  unfold model_transcript in Hin. unfold transcript_ok in Hrun. pose proof J_init as Ji. destruct (fdl_new p) as [f0| |].
  - cbn [monitor_from mon_event map app] in Hin. destruct Hrun as (Hg0 & Hrun).
    exact (generic_sound _ _ _ _ _ _ _ _ _ (Ji _ _ eq_refl Hn Hg0) Hok Hrun _ _ Hin).
  - cbn in Hin. contradiction.
  - cbn in Hin. contradiction.
Qed.

End Generic.
