(* Soundness of the sweep-order / restart monitor of C12 (Model/FdlSweep.v: smonitor, sweep_poll, rules
   P12_sweep_order, P12_offline_forgets_ring) on the transcripts of the MODEL.

   The monitor has state: k0 (state kind of the previous view) and `last` (address of the last own GAP request of the
   current uninterrupted polling phase).  Invariant of the induction over FdlOracleSound1.model_events:
     FdlRingSound.RJ (Rep + parameters + PHY buffer holds bytes), k0 = kind_of (f_state f), and
     last = Some a -> f_gap f = GapDoPoll a /\ f_state f <> Offline.
   One poll (sweep_core, all station states with Rep): from C12Proofs.poll_sweep_rel (the GAP sweep poll by poll),
   poll_transmissions (what a transmission can be) and poll_gap_state_frame:
   - a transmission that the monitor reads as the station's own GAP request (status request with SA = TS, no
     application transmitted in this poll - app_sent of the call log; an application's own status request does not
     count, and a GAP request of do_pass_token / do_claim_token never comes with a transmitting application call) is
     the request of exactly one GAP step: gap_visit_step f = Ok (GapDoPoll a), hence a = gap_succ HSA cursor and the
     new cursor is a; no u8 overflow can hide in next_gap_poll when it returns;
   - a poll without such a transmission leaves a polling cursor where it was, or ends the polling phase
     (GapWaiting), or is the claim of the token (self-token from ListenToken / ActiveIdle / ClaimToken = claim_tx,
     cursor := TS), or re-creates the station.
   P12_offline_forgets_ring: set_offline f = fdl_new (f_p f), and the view of a fresh station is fresh_view
   (C02Proofs.ring_new_ok).

   FINDING (reported, reproduced on the unmodified crate through the harness - see the end of this file): the
   monitor as it stands is NOT sound in one corner: the station re-creates itself INSIDE a poll (second address
   collision while listening: listen_token_telegram calls set_offline, the GAP cursor goes back to DoPoll{TS}), no
   API event marks it, so `last` survives; after set_online and an entry into the ring without a claim the first GAP
   request (TS+1) is compared with the stale `last`.  sweep_false_positive below is a model transcript on which
   smonitor reports P12_sweep_order.  Therefore two theorems:
   - sweep_monitor_sound: smonitor is silent on every model transcript on which no poll ends Offline out of a
     non-Offline state (no_self_offline, a boolean on the transcript: the exact exclusion);
   - sweep_monitor_fixed_sound: the monitor with the one-line repair (a poll that ends Offline forgets `last`:
     sweep_poll_fixed) is silent on EVERY model transcript; on transcripts without such polls both monitors agree
     (smonitor_fixed_agrees).
   No hypothesis on the applications beyond totality (apps_total): app_sends_data is not needed, the monitor itself
   discards what an application transmitted. *)
From Coq Require Import Arith.
From PB Require Import Common Tables FdlTables Telegram Phy TokenRing Params Fdl FdlOracle FdlSweep FdlProofs FdlStepProofs.
From PB Require Import LasRep C02Proofs C05Proofs C11Proofs C12Proofs C13Proofs C15Proofs.
From PB Require Import FdlOracleSound1 FdlOracleSound2 FdlOracleSound3 FdlOracleSound6 C12OracleSound FdlRingSound.

(* ------------------------------------------------------------------------------------------ *)
(* small facts                                                                                  *)

(* when next_gap_poll returns a new cursor it is the cyclic successor below HSA - its u8 arithmetic either panics
   or is exact *)
Lemma next_gap_poll_succ f c a : next_gap_poll f c = Ok (GapDoPoll a) -> a = gap_succ (p_hsa (f_p f)) c.
Proof.
  unfold next_gap_poll, gap_succ, u8_sub, u8_add.
  destruct (0 <=? p_hsa (f_p f) - 1); cbn [bind]; [|discriminate].
  destruct (c =? p_hsa (f_p f) - 1); cbn [bind].
  - destruct (in_gapb _ _ 0); intros H; [injection H as <-; reflexivity|discriminate H].
  - destruct (c + 1 <=? 255); cbn [bind]; [|discriminate].
    destruct (in_gapb _ _ (c + 1)); intros H; [injection H as <-; reflexivity|discriminate H].
Qed.

Lemma kind_offline s : kind_of s = KOffline -> s = Offline.
Proof. destruct s; cbn; intros H; try discriminate H; reflexivity. Qed.

Lemma own_gap_poll_y p s : own_gap_poll (p_address p) s = y_gap_poll p s.
Proof. unfold own_gap_poll, y_gap_poll, y_txt, y_ts. destruct (s_tx s); reflexivity. Qed.

(* the fresh station *)
Lemma fdl_new_fresh p f0 : fdl_new p = Ok f0 -> fresh_view (p_address p) (view_of f0) = true.
Proof.
  unfold fdl_new. destruct (negb (p_address p <=? 127)) eqn:E1; [discriminate|].
  destruct (negb (p_hsa p <=? 126)); [discriminate|].
  apply negb_false_iff, Z.leb_le in E1.
  destruct (Z_lt_le_dec (p_address p) 0) as [L|L]; [rewrite ring_new_panics by lia; discriminate|].
  destruct (ring_new_ok (p_address p)) as (r & Er & _ & _ & Hs & Hn & Hps & Ho); [lia|].
  rewrite Er. cbn [bind]. intros H. injection H as <-.
  unfold fresh_view, view_of. cbn [v_las_valid v_ns v_ps v_active f_ring]. rewrite Hs, Hn, Hps, Ho, Z.eqb_refl. reflexivity.
Qed.

(* ------------------------------------------------------------------------------------------ *)
(* ONE POLL                                                                                     *)

Section Step.
Variable A : Type.
Variable ops : app_ops A.
Variable p : params.

(* which states a poll can end listening from: not from a token-holding state that takes GAP steps *)
Lemma claim_early_poll f now pin (apps : list A) f' o apps' calls st0 :
  poll ops f now pin apps = Ok (f', o, apps', calls) -> f_state f = ClaimToken st0 ->
  st0 = StepFirstToken \/ st0 = StepSecondToken -> kind_of (f_state f') = KClaimToken.
Proof.
  intros E Es Hst. apply poll_unfold in E. destruct E as (w' & Hi & _).
  assert (Hk : online_entry_kind (kind_of (f_state f)) = false /\ passive_entry_kind (kind_of (f_state f)) = false)
    by (rewrite Es; split; reflexivity).
  apply C12Proofs.poll_inner_cases in Hi. destruct Hi as [Hpre|(f3 & w3 & Hpre & _ & Hd)].
  - rewrite (pre_rel_state _ _ _ _ _ Hpre (proj1 Hk) (proj2 Hk)), Es. reflexivity.
  - pose proof (pre_rel_state _ _ _ _ _ Hpre (proj1 Hk) (proj2 Hk)) as Hs.
    unfold C12Proofs.dispatch in Hd. rewrite Hs, Es in Hd. cbn [kind_of poll_dispatch] in Hd.
    apply do_claim_token_spec in Hd. destruct Hd as (st1 & Est & _ & _ & _ & _ & Hc).
    rewrite Hs, Es in Est. injection Est as <-.
    destruct Hst as [-> | ->]; destruct Hc as (_ & [(_ & S & _)|(_ & _ & S & _)]); rewrite S; try reflexivity;
      rewrite Hs, Es; reflexivity.
Qed.

Lemma poll_to_listen_gap f now pin (apps : list A) f' o apps' calls :
  poll ops f now pin apps = Ok (f', o, apps', calls) -> kind_of (f_state f') = KListenToken -> f_gap f' = f_gap f.
Proof.
  intros E K'.
  destruct (poll_gap_state_frame A ops _ _ _ _ _ _ _ _ E) as [H|[(Ho & _)|[K|[(S & _)|(S & _)]]]]; [exact H| | | |]; exfalso.
  - destruct Ho as [(att & S)|Hu].
    + destruct (pass_token_performs_gap_step A ops _ _ _ _ _ _ _ _ _ E S) as
        [(_ & S' & _)|(_ & [(a & _ & S' & _)|(k & _ & _ & _ & [S'|S'])])]; rewrite S' in K'; try rewrite S in K'; discriminate K'.
    + destruct (poll_state_cases A ops _ _ _ _ _ _ _ _ E) as [(_ & _ & Hq)|(tk & _ & Hv & _)].
      * destruct Hq as [(S' & _)|(_ & s3 & Hpro & _ & Hsame)]; [rewrite S' in K'; discriminate K'|].
        assert (Hiv : in_visit (kind_of (f_state f)) = true) by (destruct Hu as [Hu|Hu]; rewrite Hu; reflexivity).
        destruct Hpro as [->|(C & _)]; [|rewrite C in Hiv; discriminate Hiv].
        rewrite (Hsame Hiv) in K'. destruct Hu as [Hu|Hu]; rewrite Hu in K'; discriminate K'.
      * destruct Hv as [(S' & _)|[(S' & _)|[(fa' & S')|[(a & fa' & S')|[Hpk|S']]]]];
          try (rewrite S' in K'; try (destruct Hu as [Hu|Hu]; rewrite Hu in K'); discriminate K').
        rewrite K' in Hpk. discriminate Hpk.
  - destruct (f_state f) as [ | | | | |st0| | | | ] eqn:Es; try discriminate K.
    destruct st0 as [ | | |a0].
    + rewrite (claim_early_poll _ _ _ _ _ _ _ _ _ E Es (or_introl eq_refl)) in K'. discriminate K'.
    + rewrite (claim_early_poll _ _ _ _ _ _ _ _ _ E Es (or_intror eq_refl)) in K'. discriminate K'.
    + destruct (claim_scan_step A ops _ _ _ _ _ _ _ _ E (or_introl Es)) as
        (_ & [(_ & [S'|[S'|[S'|(S' & _)]]])|(a & (_ & [S'|S']) & _)]); rewrite S' in K'; try rewrite Es in K'; discriminate K'.
    + destruct (claim_scan_step A ops _ _ _ _ _ _ _ _ E (or_intror (ex_intro _ a0 Es))) as
        (_ & [(_ & [S'|[S'|[S'|(S' & _)]]])|(a & (_ & [S'|S']) & _)]); rewrite S' in K'; try rewrite Es in K'; discriminate K'.
  - rewrite S in K'. discriminate K'.
  - rewrite S in K'. discriminate K'.
Qed.

End Step.
